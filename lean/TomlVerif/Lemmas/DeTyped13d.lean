import TomlVerif.Lemmas.DeTyped13c
import TomlVerif.Lemmas.RoundTrip17g
/-! Lemmas for Props/C13Typed, part 4: `toml::from_str::<toml::Value>` on a parsed tree (`Value`'s visitor on what
    `toml_edit` shows) is the data of the tree with every table collected into the map of the build (`placeTV`), for
    trees whose tables have distinct keys, none of them the private date-time key, and whose date-times print and
    re-read (`WfTV`; floats are allowed, unlike `RoundTrip17.OkV`). -/
namespace TomlVerif.Lemmas.DeTyped13
open TomlVerif TomlVerif.Model TomlVerif.Model.TomlValue TomlVerif.Model.DeRoutes
open TomlVerif.Model.DeText (presOfItem presOfVal presOfTbl presOfVals presOfValPairs presOfTbls presOfItems)
open TomlVerif.Model.DeTyped TomlVerif.Lemmas.DeRoutes13 TomlVerif.Lemmas.RoundTrip17

mutual
/-- what every tree the document parser builds satisfies, as far as the decoders look -/
def WfTV : TV → Prop
  | .dt d => Datetime.Std.fromStr (Datetime.Std.display d) = some d
  | .arr l => WfVs l
  | .tbl items => WfPs items ∧ (items.map Prod.fst).Nodup ∧ FIELD ∉ items.map Prod.fst
  | _ => True
def WfVs : List TV → Prop
  | [] => True
  | v :: r => WfTV v ∧ WfVs r
def WfPs : List (Bytes × TV) → Prop
  | [] => True
  | (_, v) :: r => WfTV v ∧ WfPs r
end

mutual
theorem wf_nodup : ∀ v : TV, WfTV v → NodupTV v
  | .str _, _ => by simp [NodupTV]
  | .int _, _ => by simp [NodupTV]
  | .float _, _ => by simp [NodupTV]
  | .bool _, _ => by simp [NodupTV]
  | .dt _, _ => by simp [NodupTV]
  | .arr l, h => by rw [WfTV] at h; rw [NodupTV]; exact wfVs_nodup l h
  | .tbl items, h => by rw [WfTV] at h; rw [NodupTV]; exact ⟨h.2.1, wfPs_nodup items h.1⟩
theorem wfVs_nodup : ∀ l : List TV, WfVs l → NodupVs l
  | [], _ => by simp [NodupVs]
  | v :: r, h => by rw [WfVs] at h; rw [NodupVs]; exact ⟨wf_nodup v h.1, wfVs_nodup r h.2⟩
theorem wfPs_nodup : ∀ l : List (Bytes × TV), WfPs l → NodupPs l
  | [], _ => by simp [NodupPs]
  | (_, v) :: r, h => by rw [WfPs] at h; rw [NodupPs]; exact ⟨wf_nodup v h.1, wfPs_nodup r h.2⟩
end

mutual
/-- `RoundTrip17.visit_presEdit` without the restriction to float-free trees -/
theorem visit_presEdit_wf (fl : Flavour) (strict : Bool) : ∀ w : TV, WfTV w →
    visitValue fl strict (presEdit w) = some (placeTV fl w)
  | .str _, _ => by simp [presEdit, visitValue, placeTV]
  | .int _, _ => by simp [presEdit, visitValue, placeTV]
  | .float _, _ => by simp [presEdit, visitValue, placeTV]
  | .bool _, _ => by simp [presEdit, visitValue, placeTV]
  | .dt d, h => by
    rw [WfTV] at h
    simp [presEdit, dtMap, visitValue, placeTV, h]
  | .arr l, h => by
    rw [WfTV] at h
    simp [presEdit, visitValue, placeTV, visitList_presEdit_wf fl strict l h]
  | .tbl [], _ => by simp [presEdit, presEditPairs, visitValue, placeTV, placeTVPs, insertAllReplace]
  | .tbl ((k, v) :: r), h => by
    rw [WfTV, WfPs] at h
    obtain ⟨⟨hv, hr⟩, hn, hf⟩ := h
    simp only [List.map_cons, List.nodup_cons, List.mem_cons, not_or] at hn hf
    have hkf : (k == FIELD) = false := by
      simp only [beq_eq_false_iff_ne, ne_eq]
      exact fun e => hf.1 e.symm
    rw [presEdit, presEditPairs]
    conv => lhs; unfold visitValue
    simp only [hkf, Bool.false_eq_true, if_false, visit_presEdit_wf fl strict v hv, visitPairs_presEdit_wf fl strict r hr]
    have := insertAll_nodup fl (placeTVPs fl r) (mapInsert fl k (placeTV fl v) [])
      (by rw [placeTVPs_keys]; exact hn.2)
      (by intro k' hk' hm
          rw [placeTVPs_keys] at hk'
          rw [mapInsert_keys] at hm
          rcases hm with hm | hm
          · subst hm; exact hn.1 hk'
          · simp at hm)
    rw [this]
    simp [placeTV, placeTVPs, insertAllReplace]
theorem visitList_presEdit_wf (fl : Flavour) (strict : Bool) : ∀ l : List TV, WfVs l →
    visitList fl strict (presEditList l) = some (placeTVs fl l)
  | [], _ => by simp [presEditList, visitList, placeTVs]
  | v :: r, h => by
    rw [WfVs] at h
    simp [presEditList, visitList, placeTVs, visit_presEdit_wf fl strict v h.1, visitList_presEdit_wf fl strict r h.2]
theorem visitPairs_presEdit_wf (fl : Flavour) (strict : Bool) : ∀ l : List (Bytes × TV), WfPs l →
    visitPairs fl strict (presEditPairs l) = some (placeTVPs fl l)
  | [], _ => by simp [presEditPairs, visitPairs, placeTVPs]
  | (k, v) :: r, h => by
    rw [WfPs] at h
    simp [presEditPairs, visitPairs, placeTVPs, visit_presEdit_wf fl strict v h.1, visitPairs_presEdit_wf fl strict r h.2]
end

/-- `IndexMap::insert` of distinct keys keeps the order they come in -/
theorem insertAll_insertion : ∀ (l acc : List (Bytes × TV)), ((acc ++ l).map Prod.fst).Nodup →
    insertAllReplace .insertion acc l = acc ++ l
  | [], acc, _ => by simp [insertAllReplace]
  | (k, v) :: r, acc, hn => by
    have hnot : k ∉ acc.map Prod.fst := by
      intro hm
      simp only [List.map_append, List.map_cons] at hn
      exact (List.nodup_append.1 hn).2.2 k hm k (by simp) rfl
    have hk : ∀ acc : List (Bytes × TV), k ∉ acc.map Prod.fst → alookup k acc = none := by
      intro acc
      induction acc with
      | nil => intro _; rfl
      | cons x t ih =>
        obtain ⟨k', v'⟩ := x
        intro hx
        simp only [List.map_cons, List.mem_cons, not_or] at hx
        unfold alookup
        have hne : (k' == k) = false := by simp only [beq_eq_false_iff_ne, ne_eq]; exact fun e => hx.1 e.symm
        simp only [hne, Bool.false_eq_true, if_false]
        exact ih hx.2
    have hk := hk acc hnot
    rw [insertAllReplace, mapInsert, aset, hk]
    simp only []
    rw [insertAll_insertion r (acc ++ [(k, v)]) (by simpa using hn)]
    simp

mutual
/-- with `preserve_order` the map keeps document order: collecting changes nothing -/
theorem place_insertion_id : ∀ v : TV, NodupTV v → placeTV .insertion v = v
  | .str _, _ => by simp [placeTV]
  | .int _, _ => by simp [placeTV]
  | .float _, _ => by simp [placeTV]
  | .bool _, _ => by simp [placeTV]
  | .dt _, _ => by simp [placeTV]
  | .arr l, h => by rw [NodupTV] at h; rw [placeTV, placeVs_insertion_id l h]
  | .tbl items, h => by
    rw [NodupTV] at h
    rw [placeTV, placePs_insertion_id items h.2, insertAll_insertion items [] (by simpa using h.1)]
    simp
theorem placeVs_insertion_id : ∀ l : List TV, NodupVs l → placeTVs .insertion l = l
  | [], _ => by simp [placeTVs]
  | v :: r, h => by rw [NodupVs] at h; rw [placeTVs, place_insertion_id v h.1, placeVs_insertion_id r h.2]
theorem placePs_insertion_id : ∀ l : List (Bytes × TV), NodupPs l → placeTVPs .insertion l = l
  | [], _ => by simp [placeTVPs]
  | (k, v) :: r, h => by rw [NodupPs] at h; rw [placeTVPs, place_insertion_id v h.1, placePs_insertion_id r h.2]
end

/-- `toml::from_str::<toml::Value>` on a well-formed parsed tree -/
theorem value_of_item (fl : Flavour) (it : Item) (h : WfTV (plainItem it)) :
    visitValue fl false (presOfItem it) = some (placeTV fl (plainItem it)) := by
  rw [presOfItem_eq]; exact visit_presEdit_wf fl false _ h

end TomlVerif.Lemmas.DeTyped13
