import TomlVerif.Lemmas.Tiling03HdrOps
/-! The header line preserves the invariant of the header case (C03). -/
namespace TomlVerif.Lemmas.Tiling03Hdr
open TomlVerif TomlVerif.Spec TomlVerif.Model TomlVerif.Model.Strings TomlVerif.Model.Value
open TomlVerif.Model.Cst TomlVerif.Model.Encode TomlVerif.Lemmas.Suffix03 TomlVerif.Lemmas.Cst03
open TomlVerif.Lemmas.LastByte03 TomlVerif.Lemmas.Tiling03

theorem header_txt (f : Bytes → Bytes) (inp base : Bytes) (hf : FixOn f inp) (trailing : Option Span)
    (isArr : Bool) (s r r2 r3 : Bytes) (ks : List CKey) (key : CKey)
    (hsr : s = (if isArr then [0x5B, 0x5B] else [0x5B]) ++ r)
    (hk : ckeyPath inp.length r = .ok ks ((if isArr then [0x5D, 0x5D] else [0x5D]) ++ r2))
    (hlt : lineTrailing r2 = .ok () r3) (hsl : splitLast ks = some ([], key))
    (T : Bytes) (htx : TxtOf inp base trailing T s) (q0 q : Nat) (sp : Option Span) :
    TxtOf inp base none (T ++ sectionText f inp ⟨q0, .mk [] false false (some q)
      (Decor.new (takeTrailing trailing) (rawBetween inp.length r2 (trailEnd r2))) sp, [key], isArr⟩) r3 := by
  obtain ⟨src, out, tr, eol, h1, h2, h3, h4, h5⟩ := htx
  have hs : s <:+ inp := ⟨base ++ src ++ tr, h2.symm⟩
  have htrs : tr ++ s <:+ inp := ⟨base ++ src, by rw [h2]; simp [List.append_assoc]⟩
  have hlead := trailIs_text inp trailing tr s h1 htrs
  obtain ⟨line, e, hs', hle, hl, hsec⟩ := header_text f inp hf isArr s r r2 r3 tr ks key (takeTrailing trailing) hsr hk hlt hsl hlead hs
  rw [hsec [] false false (some q) sp q0 rfl]
  have := txtOf_line inp base T s src out tr eol line e r3 _ h2 h3 h4 h5 hs' hle hl
  simpa [List.append_assoc] using this

theorem splitLast_single {α} (a : α) : splitLast [a] = some ([], a) := rfl

theorem header_step (f : Bytes → Bytes) (inp base : Bytes) (hf : FixOn f inp)
    (st st' : CState) (s r3 : Bytes)
    (h : ctableLine inp.length st s = some (st', r3)) (hI : Inv f inp base st s) :
    Inv f inp base st' r3 := by
  obtain ⟨isArr, r, ks, r2, hsr, hk, hlt, ho⟩ := table_frame _ _ _ _ _ h
  obtain ⟨hg, hI⟩ := hI
  cases isArr with
  | false =>
    simp only [Bool.false_eq_true, if_false] at ho
    unfold onStdHeader at ho
    split at ho
    · rename_i st1 hfin
      obtain ⟨f1, f2, f3, f4, f5⟩ := finalize_frame st st1 hfin hg
      obtain ⟨pp, key, root', hks, ⟨x, hprobe⟩, hroot, hst'⟩ := startTable_cases _ _ _ _ _ ho
      subst hst'
      simp only [] at hprobe hroot
      refine ⟨⟨?_, ?_, ?_⟩, ?_⟩
      · refine descend_nodup _ _ _ _ _ ?_ f5 hroot
        intro p p' hp hn
        unfold eraseFn at hp
        injection hp with hp; subst hp
        rw [setItems_items]; exact nodupK_cerase _ _ hn
      · intro hp
        simp only [] at hp
        rw [hks] at hp
        exact absurd hp (by simp)
      · intro _ key' hp
        simp only [] at hp ⊢
        rw [hp] at hks
        obtain ⟨hpp, hkey⟩ := append_singleton_eq _ _ _ hks
        subst hpp; subst hkey
        rw [descend_nil] at hroot
        unfold eraseFn at hroot
        injection hroot with hroot; subst hroot
        rw [setItems_items]
        exact clookup_cerase_self _ _ f5
      · cases pp with
        | cons k ks2 =>
          right
          refine Or.inr (Or.inr (Or.inl ?_))
          simp only []
          rw [hks]; simp
        | nil =>
          simp only [List.nil_append] at hks
          subst hks
          rw [descend_nil] at hprobe hroot
          unfold eraseFn at hroot
          injection hroot with hroot
          rcases hI with ⟨hsh, htx⟩ | hb
          · obtain ⟨r1, rimp, rsp, e1, e2, e3, e4, e5⟩ := finalize_good f inp st st1 hfin hsh
            cases hl : clookup key.key r1 with
            | some y =>
              exfalso
              unfold probeFn at hprobe
              rw [e1] at hprobe
              simp only [CTbl.items, hl] at hprobe
              cases y with
              | value v => cases hprobe
              | aot ts sp => cases hprobe
              | table t =>
                have hleaf := flat_lookup_table r1 _ t e2 hl
                obtain ⟨items, imp, dot, p, dec, sp⟩ := t
                simp only [leafTbl, Bool.and_eq_true, Bool.not_eq_true'] at hleaf
                have himp : imp = false := hleaf.1.1.1.1.1
                subst himp
                simp [CTbl.implicit] at hprobe
            | none =>
              left
              have hroot' : root' = .mk r1 rimp false none {} rsp := by
                rw [← hroot, e1]
                simp [CTbl.setItems, CTbl.items, CTbl.implicit, CTbl.dotted, CTbl.pos, CTbl.decor, CTbl.span,
                  cerase_of_none _ _ hl]
              have hft : findTable key.key st1.root [] = none := by
                unfold findTable
                rw [e1]
                simp [CTbl.items, hl]
              subst hroot'
              refine ⟨Or.inr ⟨key, r1, rimp, rsp, [], st.position + 1, takeTrailing st1.trailing, rawBetween inp.length r2 (trailEnd r2),
                some (pos inp.length s, pos inp.length r2), rfl, ?_, e2, e3,
                ?_, hl, ?_, rfl, ?_⟩, ?_⟩
              · simp
              · intro e he; exact Nat.le_succ_of_le (e4 e he)
              · simp only [hft, Option.getD_none, f3]
                rw [f2]; rfl
              · simp only []; rw [f2]
              · generalize stText f inp st = T0 at e5 htx
                have hT : stText f inp
                    { root := .mk r1 rimp false none {} rsp, trailing := none, position := st1.position + 1,
                      current := .mk ((findTable key.key st1.root []).getD st1.current).items false false
                        (some (st1.position + 1)) (Decor.new (takeTrailing st1.trailing) (rawBetween inp.length r2 (trailEnd r2)))
                        (some (pos inp.length s, pos inp.length r2)),
                      currentIsArray := false, currentPath := [key] }
                    = T0 ++ sectionText f inp ⟨st1.position + 1, .mk [] false false (some (st1.position + 1))
                        (Decor.new (takeTrailing st.trailing) (rawBetween inp.length r2 (trailEnd r2)))
                        (some (pos inp.length s, pos inp.length r2)), [key], false⟩ := by
                  simp only [stText, curEntry, hft, Option.getD_none, f3, f1, CTbl.items, CTbl.pos, CTbl.empty,
                    List.isEmpty_cons, Bool.false_eq_true, if_false, Option.getD_some]
                  rw [e5]
                simp only [] at hT ⊢
                rw [hT]
                exact header_txt f inp base hf st.trailing false s r r2 r3 [key] key hsr hk hlt (splitLast_single key)
                  _ htx _ _ _
          · right
            have hw := finalize_bad st st1 hfin hg hb
            by_cases hx : ∀ y, clookup key.key st1.root.items = some y → wItem y = false
            · refine Or.inr (Or.inr (Or.inr (Or.inl ?_)))
              simp only []
              rw [← hroot, setItems_items]
              exact anyW_cerase _ _ hw hx
            · refine Or.inr (Or.inl ⟨by simp, ?_⟩)
              simp only []
              have hx' : ∃ y, clookup key.key st1.root.items = some y ∧ wItem y = true := by
                apply Classical.byContradiction
                intro hne
                apply hx
                intro y hy
                cases hwy : wItem y with
                | false => rfl
                | true => exact absurd ⟨y, hy, hwy⟩ hne
              obtain ⟨y, hy, hwy⟩ := hx'
              unfold probeFn at hprobe
              simp only [hy] at hprobe
              cases y with
              | value v => cases hprobe
              | aot ts sp => cases hprobe
              | table t =>
                simp only [] at hprobe
                split at hprobe
                · rename_i hcond
                  simp only [Bool.and_eq_true, Bool.not_eq_true'] at hcond
                  have hft : findTable key.key st1.root [] = some t := by
                    unfold findTable
                    simp [hy]
                  simp only [hft, Option.getD_some]
                  simp only [wItem, hcond.2, Bool.false_or, Bool.not_eq_true'] at hwy
                  exact hwy
                · cases hprobe
    · cases ho
  | true =>
    simp only [if_true] at ho
    unfold onArrayHeader at ho
    split at ho
    · rename_i st1 hfin
      obtain ⟨f1, f2, f3, f4, f5⟩ := finalize_frame st st1 hfin hg
      obtain ⟨pp, key, root', hks, hroot, hst'⟩ := startArrayTable_cases _ _ _ _ _ ho
      subst hst'
      simp only [] at hroot
      refine ⟨⟨?_, ?_, ?_⟩, ?_⟩
      · refine descend_nodup _ _ _ _ _ ?_ f5 hroot
        intro p p' hp hn
        unfold arrFn at hp
        split at hp
        · injection hp with hp; subst hp; exact hn
        · cases hp
        · rename_i hl
          injection hp with hp; subst hp
          rw [setItems_items]; exact nodupK_snoc _ _ _ hn hl
      · intro hp
        simp only [] at hp
        rw [hks] at hp
        exact absurd hp (by simp)
      · intro hc; cases hc
      · cases pp with
        | cons k ks2 =>
          right
          refine Or.inr (Or.inr (Or.inl ?_))
          simp only []
          rw [hks]; simp
        | nil =>
          simp only [List.nil_append] at hks
          subst hks
          rw [descend_nil] at hroot
          rcases hI with ⟨hsh, htx⟩ | hb
          · obtain ⟨r1, rimp, rsp, e1, e2, e3, e4, e5⟩ := finalize_good f inp st st1 hfin hsh
            unfold arrFn at hroot
            rw [e1] at hroot
            cases hl : clookup key.key r1 with
            | some y =>
              simp only [CTbl.items, hl] at hroot
              cases y with
              | value v => cases hroot
              | table t => cases hroot
              | aot ts sp =>
                right
                simp only [] at hroot
                injection hroot with hroot
                subst hroot
                refine Or.inr (Or.inr (Or.inr (Or.inr ⟨rfl, key, ts, sp, rfl, ?_, flat_lookup_aot r1 _ ts sp e2 hl⟩)))
                simp only [CTbl.items]; exact hl
            | none =>
              left
              simp only [CTbl.items, hl] at hroot
              injection hroot with hroot
              have hroot' : root' = .mk (r1 ++ [(key, .aot [] none)]) rimp false none {} rsp := by
                rw [← hroot]
                simp [CTbl.setItems, CTbl.items, CTbl.implicit, CTbl.dotted, CTbl.pos, CTbl.decor, CTbl.span]
              subst hroot'
              refine ⟨Or.inr ⟨key, r1, rimp, rsp, [], st.position + 1, takeTrailing st1.trailing, rawBetween inp.length r2 (trailEnd r2),
                some (pos inp.length s, pos inp.length r2), rfl, ?_, e2, e3,
                ?_, hl, ?_, rfl, ?_⟩, ?_⟩
              · simp
              · intro e he; exact Nat.le_succ_of_le (e4 e he)
              · simp only [f3]
                rw [f2]; rfl
              · simp only []; rw [f2]
              · generalize stText f inp st = T0 at e5 htx
                have hT : stText f inp
                    { root := .mk (r1 ++ [(key, .aot [] none)]) rimp false none {} rsp, trailing := none,
                      position := st1.position + 1,
                      current := .mk st1.current.items false false
                        (some (st1.position + 1)) (Decor.new (takeTrailing st1.trailing) (rawBetween inp.length r2 (trailEnd r2)))
                        (some (pos inp.length s, pos inp.length r2)),
                      currentIsArray := true, currentPath := [key] }
                    = T0 ++ sectionText f inp ⟨st1.position + 1, .mk [] false false (some (st1.position + 1))
                        (Decor.new (takeTrailing st.trailing) (rawBetween inp.length r2 (trailEnd r2)))
                        (some (pos inp.length s, pos inp.length r2)), [key], true⟩ := by
                  simp only [stText, curEntry, f3, f1, CTbl.items, CTbl.pos, CTbl.empty,
                    List.isEmpty_cons, Bool.false_eq_true, if_false, Option.getD_some]
                  rw [entriesOf_append, rootValues_append, ← e5]
                  simp [entriesOf, rootValues]
                simp only [] at hT ⊢
                rw [hT]
                exact header_txt f inp base hf st.trailing true s r r2 r3 [key] key hsr hk hlt (splitLast_single key)
                  _ htx _ _ _
          · right
            have hw := finalize_bad st st1 hfin hg hb
            refine Or.inr (Or.inr (Or.inr (Or.inl ?_)))
            simp only []
            unfold arrFn at hroot
            split at hroot
            · injection hroot with hroot; subst hroot; exact hw
            · cases hroot
            · injection hroot with hroot; subst hroot
              rw [setItems_items, anyW_append, hw]; rfl
    · cases ho

end TomlVerif.Lemmas.Tiling03Hdr
