import TomlVerif.Lemmas.RoundTrip17b
import TomlVerif.Lemmas.Encode06d
/-! Round trip of `toml::Value` trees, layers (b)/(c), semantic side, part 1: the definition state machine on a
    header whose parent tables do not exist yet (the printer hides the header of a non-empty table without values
    of its own, so `[a.b.c]` may be the first mention of `a` and `a.b`).

    `nest R key i` is the entry a header path `R ++ [key]` leaves in the table the path starts from when no
    component exists yet: implicit tables all the way down to `key ↦ i`. -/
namespace TomlVerif.Lemmas.RoundTrip17
open TomlVerif.Model.DeText
open TomlVerif TomlVerif.Spec TomlVerif.Model TomlVerif.Model.TomlValue TomlVerif.Model.DeRoutes
open TomlVerif.Model.State
open TomlVerif.Lemmas.State09 TomlVerif.Lemmas.Encode06d

def nest : List Bytes → Bytes → Item → Bytes × Item
  | [], key, i => (key, i)
  | r :: R, key, i => (r, .table (.mk [nest R key i] true false none))

/-- the first component of `R ++ [key]` -/
def headKey : List Bytes → Bytes → Bytes
  | [], key => key
  | r :: _, _ => r

theorem nest_fst (R : List Bytes) (key : Bytes) (i : Item) : (nest R key i).1 = headKey R key := by
  cases R <;> rfl

theorem headKey_append (R : List Bytes) (key k : Bytes) : headKey (R ++ [key]) k = headKey R key := by
  cases R <;> rfl

theorem nest_append (R : List Bytes) (key k : Bytes) (i : Item) :
    nest (R ++ [key]) k i = nest R key (.table (.mk [(k, i)] true false none)) := by
  induction R with
  | nil => rfl
  | cons r R ih => simp [nest, ih]

/-- replace (or add) the entry under `key` -/
def setF (key : Bytes) (i : Item) : Tbl → Option Tbl := fun W => some (W.setItems (aset key i W.items))

theorem newImplicit_eq : newImplicit false = .mk [] true false none := rfl

/-- appending under a path none of whose components exists creates the chain of implicit tables -/
theorem descend_nest (R : List Bytes) (key : Bytes) (i : Item) : ∀ U : Tbl, alookup (headKey R key) U.items = none →
    descend U R false (appendF [(key, i)]) = some (U.setItems (U.items ++ [nest R key i])) := by
  induction R with
  | nil => intro U _; simp [descend, appendF, nest]
  | cons r R ih =>
    intro U hk
    simp only [headKey] at hk
    rw [descend_cons_table U (newImplicit false) r R false _ (by simp [hk]) rfl]
    rw [ih (newImplicit false) (by simp [alookup])]
    simp only [Option.map, aset_of_none _ _ _ hk, nest]
    rfl

/-- the table found under the chain, and its keys -/
def under (R : List Bytes) (key : Bytes) (i : Item) (U : Tbl) : Tbl :=
  match R with
  | [] => U.setItems (U.items ++ [(key, i)])
  | _ :: _ => .mk [(key, i)] true false none

theorem lookup_nest (R : List Bytes) (key : Bytes) (i : Item) : ∀ U : Tbl, alookup (headKey R key) U.items = none →
    lookupTbl (U.setItems (U.items ++ [nest R key i])) R = some (under R key i U) ∧
    alookup key (under R key i U).items = some i := by
  induction R with
  | nil =>
    intro U hk
    simp only [headKey] at hk
    exact ⟨rfl, by simp [under, alookup_append_new _ _ _ hk]⟩
  | cons r R ih =>
    intro U hk
    simp only [headKey] at hk
    obtain ⟨h1, h2⟩ := ih (newImplicit false) (by simp [alookup])
    constructor
    · simp only [lookupTbl, items_setItems, nest, alookup_append_new _ _ _ hk]
      cases R with
      | nil => simp [lookupTbl, under, nest]
      | cons r' R' =>
        have : (Tbl.mk [nest (r' :: R') key i] true false none) =
            (newImplicit false).setItems ((newImplicit false).items ++ [nest (r' :: R') key i]) := rfl
        rw [this, h1]; rfl
    · simp [under, alookup, Tbl.items]

theorem under_keys (R : List Bytes) (key : Bytes) (i : Item) (U : Tbl) :
    ∀ k ∈ (under R key i U).items.map Prod.fst, k = key ∨ (R = [] ∧ k ∈ U.items.map Prod.fst) := by
  intro k hk
  cases R with
  | nil =>
    simp only [under, items_setItems, List.map_append, List.map_cons, List.map_nil, List.mem_append,
      List.mem_singleton] at hk
    rcases hk with hk | hk
    · exact Or.inr ⟨rfl, hk⟩
    · exact Or.inl hk
  | cons r R => simp [under, Tbl.items] at hk; exact Or.inl hk

/-- replacing the entry at the end of a freshly created chain -/
theorem descend_set_nest (R : List Bytes) (key : Bytes) (i i' : Item) : ∀ U : Tbl,
    alookup (headKey R key) U.items = none →
    descend (U.setItems (U.items ++ [nest R key i])) R false (setF key i') =
      some (U.setItems (U.items ++ [nest R key i'])) := by
  induction R with
  | nil =>
    intro U hk
    simp only [headKey] at hk
    have e2 : alookup key (U.items ++ [(key, i)]) = some i := alookup_append_new _ _ _ hk
    simp [descend, setF, nest, aset_of_some _ _ _ _ e2, areplace_append_new _ _ _ _ hk, setItems_setItems]
  | cons r R ih =>
    intro U hk
    simp only [headKey] at hk
    have e2 : alookup r (U.items ++ [nest (r :: R) key i]) = some (.table (.mk [nest R key i] true false none)) :=
      alookup_append_new _ _ _ hk
    rw [descend_cons_table _ (.mk [nest R key i] true false none) r R false _ (by simp [e2]) rfl]
    have := ih (newImplicit false) (by simp [alookup])
    simp only [newImplicit, Tbl.setItems, Tbl.items, Tbl.implicit, Tbl.dotted, Tbl.pos, List.nil_append] at this
    rw [this]
    simp only [Option.map, items_setItems]
    rw [aset_of_some _ _ _ _ e2]
    simp only [nest]
    rw [areplace_append_new _ _ _ _ hk]
    rfl

/-- `descend` below an existing table `U` at `A`, along a path `R` that does not exist in it -/
theorem descend_free (V U : Tbl) (A R : List Bytes) (key : Bytes) (i : Item)
    (hU : lookupTbl V A = some U) (hk : alookup (headKey R key) U.items = none) :
    descend V (A ++ R) false (appendF [(key, i)]) = descend V A false (appendF [nest R key i]) := by
  rw [descend_append_false]
  exact descend_congr_at V U A _ _ hU (by rw [descend_nest R key i U hk]; rfl)

/-- the key of the header is free in the table `descend` reaches -/
theorem target_free (V U : Tbl) (A R : List Bytes) (key : Bytes)
    (hU : lookupTbl V A = some U) (hk : alookup (headKey R key) U.items = none) :
    alookup key (target V (A ++ R) false).items = none := by
  unfold target
  rw [lookupTbl_append, hU]
  cases R with
  | nil => simpa [lookupTbl, headKey] using hk
  | cons r R =>
    simp only [headKey] at hk
    have : lookupTbl U (r :: R) = none := by simp only [lookupTbl, hk]
    simp [this, alookup]

theorem find_free (V U : Tbl) (A R : List Bytes) (key : Bytes)
    (hU : lookupTbl V A = some U) (hk : alookup (headKey R key) U.items = none) :
    startTable.find key V (A ++ R) = none := by
  rw [find_eq, lookupTbl_append, hU]
  cases R with
  | nil => simp only [headKey] at hk; simp [lookupTbl, tableAt, hk]
  | cons r R => simp only [headKey] at hk; simp [lookupTbl, hk]

theorem descend_empty_some (T : Tbl) : ∀ (R : List Bytes) (t : Tbl), t.items = [] →
    ∃ X, descend t R false (fun _ => some T) = some X := by
  intro R
  induction R with
  | nil => intro t _; exact ⟨T, rfl⟩
  | cons r R ih =>
    intro t ht
    obtain ⟨X, hX⟩ := ih (newImplicit false) rfl
    rw [descend_cons_table t (newImplicit false) r R false _ (by simp [ht, alookup]) rfl, hX]
    exact ⟨_, rfl⟩

/-- an action that succeeds on the table reached succeeds -/
theorem descend_free_some (V U : Tbl) (A R : List Bytes) (key : Bytes) (f : Tbl → Option Tbl) (T : Tbl)
    (hU : lookupTbl V A = some U) (hk : alookup (headKey R key) U.items = none)
    (hf : f (target V (A ++ R) false) = some T) : ∃ V', descend V (A ++ R) false f = some V' := by
  rw [descend_congr V (A ++ R) false f (fun _ => some T) hf, descend_append_false]
  have : ∃ X, descend U R false (fun _ => some T) = some X := by
    cases R with
    | nil => exact ⟨T, rfl⟩
    | cons r R =>
      simp only [headKey] at hk
      obtain ⟨X, hX⟩ := descend_empty_some T R (newImplicit false) rfl
      rw [descend_cons_table U (newImplicit false) r R false _ (by simp [hk]) rfl, hX]
      exact ⟨_, rfl⟩
  obtain ⟨X, hX⟩ := this
  obtain ⟨V', hV', _⟩ := descend_some V U X A (fun u => descend u R false fun _ => some T) hU hX
  exact ⟨V', hV'⟩

/-! ## key/value statements -/

def kvS : List (Bytes × TV) → List State09.Stmt
  | [] => []
  | (k, v) :: r => .kv [] k (valOf v) :: kvS r

def valItemsTV : List (Bytes × TV) → List (Bytes × Item)
  | [] => []
  | (k, v) :: r => (k, .value (valOf v)) :: valItemsTV r

theorem valItemsTV_keys (l : List (Bytes × TV)) : (valItemsTV l).map Prod.fst = l.map Prod.fst := by
  induction l with
  | nil => rfl
  | cons x r ih => obtain ⟨k, v⟩ := x; simp [valItemsTV, ih]

theorem run_kvS : ∀ (kvs : List (Bytes × TV)) (st : ParseState), st.current.dotted = false →
    (kvs.map Prod.fst).Nodup → (∀ k ∈ kvs.map Prod.fst, k ∉ st.current.items.map Prod.fst) →
    run st (kvS kvs) = some { st with current := st.current.setItems (st.current.items ++ valItemsTV kvs) } := by
  intro kvs
  induction kvs with
  | nil =>
    intro st _ _ _
    simp [kvS, run, valItemsTV, setItems_self]
  | cons x r ih =>
    obtain ⟨k, v⟩ := x
    intro st hd hn ha
    simp only [List.map_cons, List.nodup_cons] at hn
    have hk : alookup k st.current.items = none := (alookup_none_iff _ _).2 (ha k (by simp))
    have h1 : step st (.kv [] k (valOf v)) =
        some { st with current := st.current.setItems (st.current.items ++ [(k, .value (valOf v))]) } := by
      simp [step, onKeyval, descend, hd, hk]
    simp only [kvS, run, h1]
    rw [ih _ (by simpa using hd) hn.2]
    · simp [valItemsTV, Tbl.setItems, Tbl.items, Tbl.implicit, Tbl.dotted, Tbl.pos]
    · intro k' hk' hmem
      simp only [items_setItems, List.map_append, List.map_cons, List.map_nil, List.mem_append, List.mem_singleton] at hmem
      rcases hmem with hmem | hmem
      · exact ha k' (by simp [hk']) hmem
      · subst hmem; exact hn.1 hk'

/-! ## headers below tables that may not exist yet -/

/-- `[A.R.key]` and the values of its table, when the first component of `R ++ [key]` is new in the table at `A` -/
theorem std_block_free (st : ParseState) (V U : Tbl) (A R : List Bytes) (key : Bytes) (kvs : List (Bytes × TV))
    (hV : intoDocument st = some V) (hU : lookupTbl V A = some U) (hk : alookup (headKey R key) U.items = none)
    (hn : (kvs.map Prod.fst).Nodup) :
    ∃ st1 n, run st (.std (A ++ R ++ [key]) :: kvS kvs) = some st1 ∧
      intoDocument st1 = descend V A false (appendF [nest R key (.table (.mk (valItemsTV kvs) false false (some n)))]) := by
  have hfin := finalize_of_into st V hV
  have htk := target_free V U A R key hU hk
  obtain ⟨r0, hprobe⟩ := descend_free_some V U A R key (probeF key) (target V (A ++ R) false) hU hk
    (by simp only [probeF, htk])
  obtain ⟨R0, herase⟩ := descend_free_some V U A R key (eraseF key) _ hU hk rfl
  have hfind := find_free V U A R key hU hk
  have h1 : step st (.std (A ++ R ++ [key])) =
      some { st with root := R0, position := st.position + 1,
                     current := .mk [] false false (some (st.position + 1)),
                     currentIsArray := false, currentPath := A ++ R ++ [key] } := by
    simp only [step, onStdHeader, hfin, startTable_eq, splitLast_append, hprobe, herase, hfind]
    rfl
  have hrun : run st (.std (A ++ R ++ [key]) :: kvS kvs) =
      some { st with root := R0, position := st.position + 1,
                     current := .mk (valItemsTV kvs) false false (some (st.position + 1)),
                     currentIsArray := false, currentPath := A ++ R ++ [key] } := by
    simp only [run, h1]
    rw [run_kvS kvs _ rfl hn (by simp [Tbl.items])]
    rfl
  refine ⟨_, st.position + 1, hrun, ?_⟩
  rw [intoDocument_open _ (A ++ R) key rfl]
  simp only [finF, Bool.false_eq_true, if_false]
  rw [descend_descend V R0 (A ++ R) (eraseF key) _ herase, ← descend_free V U A R key _ hU hk]
  exact descend_congr V (A ++ R) false _ _ (by simp [eraseF, finStdF, aerase_of_none _ _ htk, htk, appendF, setItems_self])

/-- `[[A.R.key]]` and the values of the element, when the first component of `R ++ [key]` is new -/
theorem arr_block_free (st : ParseState) (V U : Tbl) (A R : List Bytes) (key : Bytes) (kvs : List (Bytes × TV))
    (hV : intoDocument st = some V) (hU : lookupTbl V A = some U) (hk : alookup (headKey R key) U.items = none)
    (hn : (kvs.map Prod.fst).Nodup) :
    ∃ st1 n, run st (.arr (A ++ R ++ [key]) :: kvS kvs) = some st1 ∧
      intoDocument st1 = descend V A false (appendF [nest R key (.aot [.mk (valItemsTV kvs) false false (some n)])]) := by
  have hfin := finalize_of_into st V hV
  have htk := target_free V U A R key hU hk
  obtain ⟨R0, hstart⟩ := descend_free_some V U A R key (arrStartF key)
    ((target V (A ++ R) false).setItems ((target V (A ++ R) false).items ++ [(key, .aot [])])) hU hk
    (by simp only [arrStartF, htk])
  have h1 : step st (.arr (A ++ R ++ [key])) =
      some { st with root := R0, position := st.position + 1,
                     current := .mk [] false false (some (st.position + 1)),
                     currentIsArray := true, currentPath := A ++ R ++ [key] } := by
    simp only [step, onArrayHeader, hfin, startArrayTable_eq, hstart]
    rfl
  have hrun : run st (.arr (A ++ R ++ [key]) :: kvS kvs) =
      some { st with root := R0, position := st.position + 1,
                     current := .mk (valItemsTV kvs) false false (some (st.position + 1)),
                     currentIsArray := true, currentPath := A ++ R ++ [key] } := by
    simp only [run, h1]
    rw [run_kvS kvs _ rfl hn (by simp [Tbl.items])]
    rfl
  refine ⟨_, st.position + 1, hrun, ?_⟩
  rw [intoDocument_open _ (A ++ R) key rfl]
  simp only [finF, if_true]
  rw [descend_descend V R0 (A ++ R) (arrStartF key) _ hstart, ← descend_free V U A R key _ hU hk]
  refine descend_congr V (A ++ R) false _ _ ?_
  have e2 : alookup key ((target V (A ++ R) false).items ++ [(key, Item.aot [])]) = some (.aot []) :=
    alookup_append_new _ _ _ htk
  simp only [arrStartF, htk, Option.bind, finArrF, items_setItems, e2, Option.getD_some, appendF, List.nil_append]
  rw [aset_of_some _ _ _ _ e2, areplace_append_new _ _ _ _ htk]
  rfl

/-- a further `[[P.key]]` when `key` already holds the elements `pre` -/
theorem arr_block_more (st : ParseState) (V W : Tbl) (P : List Bytes) (key : Bytes) (kvs : List (Bytes × TV))
    (pre : List Tbl) (hV : intoDocument st = some V) (hW : lookupTbl V P = some W)
    (hk : alookup key W.items = some (.aot pre)) (hn : (kvs.map Prod.fst).Nodup) :
    ∃ st1 n, run st (.arr (P ++ [key]) :: kvS kvs) = some st1 ∧
      intoDocument st1 = descend V P false (setF key (.aot (pre ++ [.mk (valItemsTV kvs) false false (some n)]))) := by
  have hfin := finalize_of_into st V hV
  obtain ⟨R0, hR0, _⟩ := descend_some V W W P (arrStartF key) hW (by simp [arrStartF, hk])
  have h1 : step st (.arr (P ++ [key])) =
      some { st with root := R0, position := st.position + 1,
                     current := .mk [] false false (some (st.position + 1)),
                     currentIsArray := true, currentPath := P ++ [key] } := by
    simp only [step, onArrayHeader, hfin, startArrayTable_eq, hR0]
    rfl
  have hrun : run st (.arr (P ++ [key]) :: kvS kvs) =
      some { st with root := R0, position := st.position + 1,
                     current := .mk (valItemsTV kvs) false false (some (st.position + 1)),
                     currentIsArray := true, currentPath := P ++ [key] } := by
    simp only [run, h1]
    rw [run_kvS kvs _ rfl hn (by simp [Tbl.items])]
    rfl
  refine ⟨_, st.position + 1, hrun, ?_⟩
  rw [intoDocument_open _ P key rfl]
  simp only [finF, if_true]
  refine descend_then V R0 W P (arrStartF key) _ _ hR0 hW ?_
  simp [arrStartF, finArrF, hk, setF]

/-! ## updating the table a chain ends in -/

/-- an action on the table under a freshly created chain, seen from the table the chain starts in -/
theorem descend_under (V V1 U : Tbl) (A R : List Bytes) (key : Bytes) (i i' : Item) (g : Tbl → Option Tbl)
    (hU : lookupTbl V A = some U) (hk : alookup (headKey R key) U.items = none)
    (hV1 : descend V A false (appendF [nest R key i]) = some V1)
    (hg : g (under R key i U) = some ((under R key i U).setItems (aset key i' (under R key i U).items))) :
    descend V1 (A ++ R) false g = descend V A false (appendF [nest R key i']) := by
  have hl : lookupTbl V1 (A ++ R) = some (under R key i U) := by
    obtain ⟨V', h1, h2⟩ := descend_some V U _ A (appendF [nest R key i]) hU rfl
    rw [hV1] at h1
    injection h1 with h1
    subst h1
    rw [lookupTbl_append, h2]
    exact (lookup_nest R key i U hk).1
  rw [descend_congr_at V1 _ (A ++ R) g (setF key i') hl (by rw [hg]; rfl)]
  rw [descend_append_false]
  refine descend_then V V1 U A _ _ _ hV1 hU ?_
  simp only [appendF, Option.bind]
  rw [descend_set_nest R key i i' U hk]

end TomlVerif.Lemmas.RoundTrip17
