import TomlVerif.Lemmas.Tiling03MoreOrdState
/-! C03, documents whose sections are NOT in pre-order — the key/value line, the line loop,
    `parse_document`, and the inclusion `nestRunV ⊆ ordRunV`. -/
namespace TomlVerif.Lemmas.Tiling03More
open TomlVerif TomlVerif.Spec TomlVerif.Model TomlVerif.Model.Strings TomlVerif.Model.Value
open TomlVerif.Model.Cst TomlVerif.Model.Encode TomlVerif.Lemmas.Suffix03 TomlVerif.Lemmas.Cst03
open TomlVerif.Lemmas.LastByte03 TomlVerif.Lemmas.Tiling03 TomlVerif.Lemmas.Tiling03Hdr
open TomlVerif.Lemmas.Tiling03Nest

/-! ### the key/value line -/

theorem nest_currentO {inp : Bytes} {st : CState} (h : RootPhU st ∨ HdrPhO inp st) :
    ∃ items imp p dec sp, st.current = .mk items imp false p dec sp ∧ bodyOkU items = true ∧
      (st.currentPath ≠ [] → imp = false) := by
  rcases h with ⟨_, a2, items, imp, sp, h1, h2⟩ | ⟨pp, key, items, q, lead, trail, sp, _, h1, h2, _⟩
  · exact ⟨items, imp, none, {}, sp, h1, h2, fun hne => absurd a2 hne⟩
  · exact ⟨items, false, some q, _, sp, h1, h2, fun _ => rfl⟩

theorem shape_setCurrent_O (inp : Bytes) (st : CState) (items items' : Items) (imp : Bool) (p : Option Nat)
    (dec : Decor) (sp sp' : Option Span) (h : RootPhU st ∨ HdrPhO inp st) (hc : st.current = .mk items imp false p dec sp)
    (hs : bodyOkU items' = true) :
    RootPhU { st with current := .mk items' imp false p dec sp', trailing := none } ∨
    HdrPhO inp { st with current := .mk items' imp false p dec sp', trailing := none } := by
  rcases h with ⟨a1, a2, itemsA, impA, spA, a3, a4⟩ | ⟨pp, key, itemsB, q, lead, trail, spB, b1, b2, b3, b4⟩
  · left
    rw [hc] at a3
    injection a3 with e1 e2 e3 e4 e5 e6
    subst e2; subst e4; subst e5
    exact ⟨a1, a2, items', imp, sp', rfl, hs⟩
  · right
    rw [hc] at b2
    injection b2 with e1 e2 e3 e4 e5 e6
    subst e2; subst e4; subst e5
    exact ⟨pp, key, items', q, lead, trail, sp', b1, rfl, hs, b4⟩

/-- the text of a state depends on the items of the current table through its body only -/
theorem stTextO_body (f : Bytes → Bytes) (inp : Bytes) (st : CState) (items : Items) (imp : Bool) (p : Option Nat)
    (dec : Decor) (sp : Option Span) (hc : st.current = .mk items imp false p dec sp)
    (himp : st.currentPath ≠ [] → imp = false) :
    ∃ H, stTextO f inp st = H ++ encodeBody f inp (valuesTbl items []) ∧
      ∀ items' sp', stTextO f inp { st with current := .mk items' imp false p dec sp', trailing := none }
        = H ++ encodeBody f inp (valuesTbl items' []) := by
  cases hpe : st.currentPath.isEmpty with
  | true =>
    refine ⟨[], ?_, ?_⟩
    · simp only [stTextO, hpe, if_true, hc, CTbl.items, List.nil_append]
    · intro items' sp'
      simp only [stTextO, hpe, if_true, CTbl.items, List.nil_append]
  | false =>
    have hne : st.currentPath ≠ [] := by intro e; rw [e] at hpe; cases hpe
    have hi := himp hne
    subst hi
    refine ⟨rootTextO f inp st.root ++ hdrText f inp dec st.currentPath st.currentIsArray, ?_, ?_⟩
    · simp only [stTextO, hpe, Bool.false_eq_true, if_false, hc]
      rw [entText_explicit, List.append_assoc]
    · intro items' sp'
      simp only [stTextO, hpe, Bool.false_eq_true, if_false]
      rw [entText_explicit, List.append_assoc]

theorem keyval_step_ord (f : Bytes → Bytes) (inp base : Bytes) (hf : FixOn f inp)
    (st st' : CState) (s r3 : Bytes)
    (h : ckeyvalLine inp.length st s = some (st', r3)) (hok : kvLineOkV inp st s = true)
    (hI : OInv f inp base st s) : OInv f inp base st' r3 := by
  obtain ⟨ks, r1, v, r2, path, key, c, hk, hv, hlt, hsl, hd, he⟩ := keyval_frame _ _ _ _ _ h
  clear h
  subst he
  obtain ⟨hsh, htx, hP⟩ := hI
  obtain ⟨hsv0, hdo⟩ := kvLineOkV_use inp st s r1 r2 ks path key v hok hk hv hsl
  obtain ⟨items, imp, p, dec, sp, hcur, hbody, himp⟩ := nest_currentO hsh
  have hcm := kvCur_mk st (kvVal inp.length v r1 r2) items imp false p dec sp hcur
  have hci : (kvCur st (kvVal inp.length v r1 r2)).items = items := by
    rw [(kvCur_fields st (kvVal inp.length v r1 r2)).1, hcur]; rfl
  obtain ⟨src, out, tr, eol, h1, h2, h3, h4, h5⟩ := htx
  have htrs : tr ++ s <:+ inp := ⟨base ++ src, by rw [h2]; simp [List.append_assoc]⟩
  have hs : s <:+ inp := (List.suffix_append tr s).trans htrs
  have hr1' : dropWs r1 <:+ inp :=
    ((Cst03.dropWs_suffix r1).trans ((List.suffix_cons _ r1).trans (ckeyPath_suffix _ _ _ _ hk).1)).trans hs
  obtain ⟨_, _, _, _, hund0, _, _⟩ := cvalue_tiling_dotted f inp hf _ _ _ _ _ hr1' hv
  have hund : undotted (kvVal inp.length v r1 r2) = true := by
    unfold kvVal; rw [undotted_setDecor]; exact hund0
  have hdo' : dottedOk inp (kvCur st (kvVal inp.length v r1 r2)) path = true := by
    rw [dottedOk_items inp st.current _ (by rw [hci, hcur]; rfl)]; exact hdo
  obtain ⟨k1, k2, X, k3, k4⟩ := kv_descendU f inp (kvFn path (kvKey st key) (kvVal inp.length v r1 r2)) (kvKey st key)
    (kvVal inp.length v r1 r2) hund (fun p p' hp => (kvFn_facts _ _ _ _ _ hp).1) path _ c [] [] hdo'
    (by rw [hci]; exact hbody) .nil hd
  obtain ⟨ci, hci2⟩ : ∃ ci, c.items = ci := ⟨_, rfl⟩
  rw [hci2] at k1 k2 k3
  rw [hci] at k3
  have hc' : c = .mk ci imp false p dec (kvCur st (kvVal inp.length v r1 r2)).span := by
    rw [k1]
    conv => lhs; rw [hcm]
    simp [CTbl.setItems, CTbl.dotted, CTbl.implicit, CTbl.pos, CTbl.decor, CTbl.span]
  clear k1
  subst hc'
  obtain ⟨H, hH1, hH2⟩ := stTextO_body f inp st items imp p dec sp hcur himp
  refine ⟨shape_setCurrent_O inp st items ci imp p dec sp _ hsh hcur k2, ?_, ?_⟩
  · have k4' := k4 [] [0x20]
    simp only [List.nil_append] at k4'
    have hT : stTextO f inp { st with current := .mk ci imp false p dec (kvCur st (kvVal inp.length v r1 r2)).span, trailing := none }
        = stTextO f inp st ++ (encodeKeyPath f inp (path ++ [kvKey st key]) [] [0x20] ++ [0x3D]
            ++ encodeValue f inp (kvVal inp.length v r1 r2) [0x20] [] ++ [0x0A]) := by
      rw [hH2, hH1, k3, encodeBody_append]
      simp only [encodeBody, k4', List.append_assoc, List.append_nil]
    simp only [] at hT ⊢
    rw [hT]
    obtain ⟨line, e, hs', hle, hl, htext⟩ := keyval_text_nV f inp hf st s r1 r2 r3 tr ks path key v hk hv hlt hsl hsv0 h1 htrs
    have := txtOf_line inp base _ s src out tr eol line e r3 _ h2 h3 h4 h5 hs' hle hl
    rw [htext]
    simpa [List.append_assoc] using this
  · obtain ⟨p1, p2, p3, p4, p5⟩ := hP
    refine ⟨p1, p2, p3, p4, ?_⟩
    intro hne
    have := p5 hne
    rw [hcur] at this
    exact this

/-! ### the line loop -/

theorem clines_oinv (f : Bytes → Bytes) (inp base : Bytes) (hf : FixOn f inp) :
    ∀ (fuel : Nat) (st : CState) (s : Bytes) (stf : CState),
      clines inp.length fuel st s = some stf → runOkO inp fuel st s = true →
      OInv f inp base st s → OInv f inp base stf [] := by
  intro fuel
  induction fuel with
  | zero => intro st s stf h; unfold clines at h; cases h
  | succ fuel ih =>
    intro st s stf h hr hI
    unfold clines at h
    unfold runOkO at hr
    cases s with
    | nil =>
      simp only [] at h
      injection h with h; subst h; exact hI
    | cons b r =>
      simp only [] at h hr
      by_cases hb1 : (b == 0x23) = true
      · simp only [hb1, if_true] at h hr
        cases hdc : dropComment r with
        | nil =>
          simp only [hdc] at h
          injection h with h; subst h
          have h1 := oinv_consume f inp base st (b :: r) [] List.nil_suffix hI
          rw [pos_nil] at h1
          exact oinv_parseWs f inp base _ [] h1
        | cons c1 r1 =>
          simp only [hdc] at h hr
          cases hnl : newline? (c1 :: r1) with
          | none => simp only [hnl] at h; cases h
          | some r2 =>
            simp only [hnl] at h hr
            have hsuf : r2 <:+ b :: r := by
              have := (Cst03.newline?_suffix _ _ hnl).1
              rw [← hdc] at this
              exact (this.trans (Cst03.dropComment_suffix r)).trans (List.suffix_cons b r)
            have h1 := oinv_consume f inp base st (b :: r) r2 hsuf hI
            exact ih _ _ _ h hr (oinv_parseWs f inp base _ r2 h1)
      · simp only [hb1, Bool.false_eq_true, if_false] at h hr
        by_cases hb2 : (b == 0x5B) = true
        · simp only [hb2, if_true, Bool.and_eq_true] at h hr
          cases hl : ctableLine inp.length st (b :: r) with
          | none => simp only [hl] at h; cases h
          | some pr =>
            obtain ⟨st', r1⟩ := pr
            simp only [hl] at h hr
            have h1 := header_step_ord f inp base hf st st' (b :: r) r1 hl hr.1 hI
            exact ih _ _ _ h hr.2 (oinv_parseWs f inp base _ r1 h1)
        · simp only [hb2, Bool.false_eq_true, if_false] at h hr
          by_cases hb3 : (b == 0x0A || b == 0x0D) = true
          · simp only [hb3, if_true] at h hr
            cases hnl : newline? (b :: r) with
            | none => simp only [hnl] at h; cases h
            | some r1 =>
              simp only [hnl] at h hr
              have h1 := oinv_consume f inp base st (b :: r) r1 (Cst03.newline?_suffix _ _ hnl).1 hI
              exact ih _ _ _ h hr (oinv_parseWs f inp base _ r1 h1)
          · simp only [hb3, Bool.false_eq_true, if_false, Bool.and_eq_true] at h hr
            cases hl : ckeyvalLine inp.length st (b :: r) with
            | none => simp only [hl] at h; cases h
            | some pr =>
              obtain ⟨st', r1⟩ := pr
              simp only [hl] at h hr
              have h1 := keyval_step_ord f inp base hf st st' (b :: r) r1 hl hr.1 hI
              exact ih _ _ _ h hr.2 (oinv_parseWs f inp base _ r1 h1)

theorem oinv_init (f : Bytes → Bytes) (s base : Bytes) (hbase : s = base ++ Doc.stripBom s) :
    OInv f s base {} (Doc.stripBom s) := by
  refine ⟨Or.inl ⟨rfl, rfl, [], false, some (0, 0), rfl, rfl⟩, ?_, ?_⟩
  · exact ⟨[], [], [], [], Or.inl ⟨rfl, rfl⟩, by simpa using hbase, rfl, .nil, Or.inl rfl⟩
  · refine ⟨rfl, rfl, rfl, ?_, fun h => absurd rfl h⟩
    intro x hx
    simp [CTbl.empty, CTbl.items, nsItems] at hx

/-- the result for the class `ordRunV`: the text written by the printer over a decor
    transformation fixing the pieces of the source is the source without its BOM, with the CR of
    the CR LF ends of key/value and header lines dropped, plus a final LF when the last such line
    ended at the end of input — although the sections of the tree need not be in position order -/
theorem ord_doc_tiling (f : Bytes → Bytes) (s : Bytes) (d : CDoc) (hf : FixOn f s)
    (h : parseCst s = some d) (hrun : ordRunV s = true) :
    ∃ out eol, printDocG f s d = out ++ eol ∧ EolRel out (Doc.stripBom s) ∧
      (eol = [] ∨ (eol = [0x0A] ∧ (Doc.stripBom s).getLast? ≠ some 0x0A)) := by
  obtain ⟨base, hbase⟩ := stripBom_split s
  unfold parseCst at h
  unfold ordRunV at hrun
  simp only [] at h hrun
  split at h
  · rename_i stf hcl
    have h1 := oinv_parseWs f s base _ _ (oinv_init f s base hbase)
    obtain ⟨hsh, htx, hP⟩ := clines_oinv f s base hf _ _ _ _ hcl hrun h1
    unfold intoDocument at h
    split at h
    · rename_i st' hfin
      injection h with h; subst h
      obtain ⟨f1, f2, f3, _, _, f6, f7, f8, f9⟩ := finalize_ord f s stf st' hfin hsh hP
      obtain ⟨src, out, tr, eol, g1, g2, g3, g4, g5⟩ := htx
      have htr : rawText s (takeTrailing stf.trailing) = tr :=
        trailIs_text s _ tr [] g1 ⟨base ++ src, by rw [g2]; simp [List.append_assoc]⟩
      have hs0 : Doc.stripBom s = src ++ tr := by
        have : base ++ Doc.stripBom s = base ++ (src ++ tr) := by
          rw [← hbase]; simpa [List.append_assoc] using g2
        exact List.append_cancel_left this
      have hp : printDocG f s { root := st'.root, trailing := takeTrailing st'.trailing } = out ++ eol ++ tr := by
        rw [printDocG_ord f s _ f7 f8 f6 f2 (fun x hx => (f9 x hx).1)]
        simp only []
        rw [f1, g3, f3, encRaw_fix hf, htr]
      rcases g5 with g5 | ⟨g5, _, g6, g7⟩
      · subst g5
        refine ⟨out ++ tr, [], by rw [hp]; simp, ?_, Or.inl rfl⟩
        rw [hs0]; exact g4.append (EolRel.refl tr)
      · subst g5; subst g6
        refine ⟨out, [0x0A], by rw [hp]; simp, ?_, Or.inr ⟨rfl, ?_⟩⟩
        · rw [hs0, List.append_nil]; exact g4
        · rw [hs0, List.append_nil]; exact g7
    · cases h
  · cases h

/-! ### `nestRunV ⊆ ordRunV` -/

theorem ckeyOf_append_none (k : Bytes) : ∀ (a b : Items), clookup k a = none → ckeyOf k (a ++ b) = ckeyOf k b
  | [], b, _ => rfl
  | (k', v) :: r, b, h => by
    unfold clookup at h
    split at h
    · cases h
    · rename_i hk
      simp only [List.cons_append, ckeyOf, hk]
      exact ckeyOf_append_none k r b h

theorem lastEntry_ckeyOf (k : Bytes) (items init : Items) (k' : CKey) (it : CItem)
    (h : lastEntry k items = some (init, k', it)) : clookup k items = some it ∧ ckeyOf k items = some k' := by
  obtain ⟨e1, e2, e3, e4⟩ := lastEntry_some _ _ _ _ _ h
  refine ⟨e4, ?_⟩
  rw [e1, ckeyOf_append_none _ _ _ e3]
  simp [ckeyOf, e2]

/-- the old header check implies the new one -/
theorem pathOk_O (inp : Bytes) (a : Bool) (key : CKey) : ∀ (pp : List CKey) (t : CTbl),
    pathOk inp a key t pp = true → pathOkO inp a key t pp = true
  | [], t, h => by
    simp only [pathOk, Bool.and_eq_true] at h
    obtain ⟨hdot, h⟩ := h
    simp only [pathOkO, Bool.and_eq_true]
    refine ⟨hdot, ?_⟩
    cases hl : clookup key.key t.items with
    | none => rfl
    | some y =>
      rw [hl] at h
      simp only [Bool.and_eq_true] at h
      obtain ⟨ha, h⟩ := h
      split at h
      · rename_i init k' ts asp hle
        obtain ⟨e1, e2⟩ := lastEntry_ckeyOf _ _ _ _ _ hle
        rw [hl] at e1
        injection e1 with e1
        subst e1
        simp [segChk, e2, ha, h]
      · cases h
  | k :: ks, t, h => by
    simp only [pathOk, Bool.and_eq_true] at h
    obtain ⟨hdot, h⟩ := h
    simp only [pathOkO, Bool.and_eq_true]
    refine ⟨hdot, ?_⟩
    cases hl : clookup k.key t.items with
    | none => rfl
    | some y =>
      rw [hl] at h
      simp only [] at h
      split at h
      · rename_i init k' sub hle
        obtain ⟨e1, e2⟩ := lastEntry_ckeyOf _ _ _ _ _ hle
        rw [hl] at e1
        injection e1 with e1
        subst e1
        simp only [Bool.and_eq_true] at h
        simp only [segChk, e2, Bool.false_eq_true, if_false, Bool.and_eq_true]
        exact ⟨h.1, pathOk_O inp a key ks sub h.2⟩
      · rename_i init k' ts asp hle
        obtain ⟨e1, e2⟩ := lastEntry_ckeyOf _ _ _ _ _ hle
        rw [hl] at e1
        injection e1 with e1
        subst e1
        simp only [Bool.and_eq_true] at h
        simp only [segChk, e2, Bool.false_eq_true, if_false, Bool.and_eq_true]
        refine ⟨h.1, ?_⟩
        have h2 := h.2
        split at h2
        · rename_i l rest hrev
          simp only [hrev]
          exact pathOk_O inp a key ks l h2
        · cases h2
      · cases h

theorem hdrChk_O (inp : Bytes) (a : Bool) (st1 : CState) (r : Bytes) (h : hdrChk inp a st1 r = true) :
    hdrChkO inp a st1 r = true := by
  unfold hdrChk at h
  unfold hdrChkO
  split
  · rename_i ks rest hk
    rw [hk] at h
    simp only [] at h ⊢
    split
    · rename_i pp key hsl
      rw [hsl] at h
      exact pathOk_O inp a key pp _ h
    · rfl
  · rfl

theorem hdrLineOk_O (inp : Bytes) (st : CState) (s : Bytes) (h : hdrLineOk inp st s = true) :
    hdrLineOkO inp st s = true := by
  unfold hdrLineOk at h
  unfold hdrLineOkO
  split
  · rfl
  · rename_i st1 hfin
    rw [hfin] at h
    simp only [Bool.and_eq_true] at h ⊢
    refine ⟨?_, ?_⟩
    · have h1 := h.1
      split
      · rename_i r
        exact hdrChk_O inp true st1 r h1
      · rfl
    · have h2 := h.2
      split
      · rename_i r
        exact hdrChk_O inp false st1 r h2
      · rfl

theorem runOkV_O (inp : Bytes) : ∀ (fuel : Nat) (st : CState) (s : Bytes),
    runOkV inp fuel st s = true → runOkO inp fuel st s = true := by
  intro fuel
  induction fuel with
  | zero => intro st s _; unfold runOkO; rfl
  | succ fuel ih =>
    intro st s h
    unfold runOkV at h
    unfold runOkO
    cases s with
    | nil => rfl
    | cons b r =>
      simp only [] at h ⊢
      by_cases hb1 : (b == 0x23) = true
      · simp only [hb1, if_true] at h ⊢
        cases hdc : dropComment r with
        | nil => simp only []
        | cons c1 r1 =>
          simp only [hdc] at h ⊢
          cases hnl : newline? (c1 :: r1) with
          | none => simp only []
          | some r2 =>
            simp only [hnl] at h ⊢
            exact ih _ _ h
      · simp only [hb1, Bool.false_eq_true, if_false] at h ⊢
        by_cases hb2 : (b == 0x5B) = true
        · simp only [hb2, if_true, Bool.and_eq_true] at h ⊢
          refine ⟨hdrLineOk_O inp st _ h.1, ?_⟩
          cases hl : ctableLine inp.length st (b :: r) with
          | none => simp only []
          | some pr =>
            obtain ⟨st', r1⟩ := pr
            have h2 := h.2
            simp only [hl] at h2 ⊢
            exact ih _ _ h2
        · simp only [hb2, Bool.false_eq_true, if_false] at h ⊢
          by_cases hb3 : (b == 0x0A || b == 0x0D) = true
          · simp only [hb3, if_true] at h ⊢
            cases hnl : newline? (b :: r) with
            | none => simp only []
            | some r1 =>
              simp only [hnl] at h ⊢
              exact ih _ _ h
          · simp only [hb3, Bool.false_eq_true, if_false, Bool.and_eq_true] at h ⊢
            refine ⟨h.1, ?_⟩
            cases hl : ckeyvalLine inp.length st (b :: r) with
            | none => simp only []
            | some pr =>
              obtain ⟨st', r1⟩ := pr
              have h2 := h.2
              simp only [hl] at h2 ⊢
              exact ih _ _ h2

/-- the class of `T03_doc_tiling_sourceV` is inside the new one -/
theorem nestRunV_O (s : Bytes) (h : nestRunV s = true) : ordRunV s = true := by
  unfold nestRunV at h
  unfold ordRunV
  simp only [] at h ⊢
  exact runOkV_O s _ _ _ h

end TomlVerif.Lemmas.Tiling03More
