import TomlVerif.Lemmas.Macro19bAgree
/-! C19 (full): a Boolean equality test on `MVal` (which has no derived `DecidableEq`: it is a nested inductive),
    so that concrete examples can be checked by `decide +kernel`. -/
namespace TomlVerif.Lemmas.Macro19b
open TomlVerif TomlVerif.Model TomlVerif.Model.Macro TomlVerif.Model.State TomlVerif.Lemmas.State09

mutual
def mvalEq : MVal → MVal → Bool
  | .str a, .str b => decide (a = b)
  | .int a, .int b => decide (a = b)
  | .float a, .float b => decide (a = b)
  | .bool a, .bool b => decide (a = b)
  | .dt a, .dt b => decide (a = b)
  | .arr a, .arr b => mvalsEq a b
  | .tbl a, .tbl b => mkvsEq a b
  | _, _ => false
def mvalsEq : List MVal → List MVal → Bool
  | [], [] => true
  | a :: r, b :: s => mvalEq a b && mvalsEq r s
  | _, _ => false
def mkvsEq : List (Bytes × MVal) → List (Bytes × MVal) → Bool
  | [], [] => true
  | (k, a) :: r, (k', b) :: s => decide (k = k') && mvalEq a b && mkvsEq r s
  | _, _ => false
end

mutual
theorem mvalEq_sound : ∀ a b : MVal, mvalEq a b = true → a = b := by
  intro a b h
  match a, b with
  | .str a, .str b => simp [mvalEq] at h; rw [h]
  | .int a, .int b => simp [mvalEq] at h; rw [h]
  | .float a, .float b => simp [mvalEq] at h; rw [h]
  | .bool a, .bool b => simp [mvalEq] at h; rw [h]
  | .dt a, .dt b => simp [mvalEq] at h; rw [h]
  | .arr a, .arr b => simp only [mvalEq] at h; rw [mvalsEq_sound a b h]
  | .tbl a, .tbl b => simp only [mvalEq] at h; rw [mkvsEq_sound a b h]
  | .str _, .int _ => simp [mvalEq] at h
  | .str _, .float _ => simp [mvalEq] at h
  | .str _, .bool _ => simp [mvalEq] at h
  | .str _, .dt _ => simp [mvalEq] at h
  | .str _, .arr _ => simp [mvalEq] at h
  | .str _, .tbl _ => simp [mvalEq] at h
  | .int _, .str _ => simp [mvalEq] at h
  | .int _, .float _ => simp [mvalEq] at h
  | .int _, .bool _ => simp [mvalEq] at h
  | .int _, .dt _ => simp [mvalEq] at h
  | .int _, .arr _ => simp [mvalEq] at h
  | .int _, .tbl _ => simp [mvalEq] at h
  | .float _, .str _ => simp [mvalEq] at h
  | .float _, .int _ => simp [mvalEq] at h
  | .float _, .bool _ => simp [mvalEq] at h
  | .float _, .dt _ => simp [mvalEq] at h
  | .float _, .arr _ => simp [mvalEq] at h
  | .float _, .tbl _ => simp [mvalEq] at h
  | .bool _, .str _ => simp [mvalEq] at h
  | .bool _, .int _ => simp [mvalEq] at h
  | .bool _, .float _ => simp [mvalEq] at h
  | .bool _, .dt _ => simp [mvalEq] at h
  | .bool _, .arr _ => simp [mvalEq] at h
  | .bool _, .tbl _ => simp [mvalEq] at h
  | .dt _, .str _ => simp [mvalEq] at h
  | .dt _, .int _ => simp [mvalEq] at h
  | .dt _, .float _ => simp [mvalEq] at h
  | .dt _, .bool _ => simp [mvalEq] at h
  | .dt _, .arr _ => simp [mvalEq] at h
  | .dt _, .tbl _ => simp [mvalEq] at h
  | .arr _, .str _ => simp [mvalEq] at h
  | .arr _, .int _ => simp [mvalEq] at h
  | .arr _, .float _ => simp [mvalEq] at h
  | .arr _, .bool _ => simp [mvalEq] at h
  | .arr _, .dt _ => simp [mvalEq] at h
  | .arr _, .tbl _ => simp [mvalEq] at h
  | .tbl _, .str _ => simp [mvalEq] at h
  | .tbl _, .int _ => simp [mvalEq] at h
  | .tbl _, .float _ => simp [mvalEq] at h
  | .tbl _, .bool _ => simp [mvalEq] at h
  | .tbl _, .dt _ => simp [mvalEq] at h
  | .tbl _, .arr _ => simp [mvalEq] at h
theorem mvalsEq_sound : ∀ a b : List MVal, mvalsEq a b = true → a = b := by
  intro a b h
  match a, b with
  | [], [] => rfl
  | x :: r, y :: s =>
    simp only [mvalsEq, Bool.and_eq_true] at h
    rw [mvalEq_sound x y h.1, mvalsEq_sound r s h.2]
  | [], _ :: _ => simp [mvalsEq] at h
  | _ :: _, [] => simp [mvalsEq] at h
theorem mkvsEq_sound : ∀ a b : List (Bytes × MVal), mkvsEq a b = true → a = b := by
  intro a b h
  match a, b with
  | [], [] => rfl
  | (k, x) :: r, (k', y) :: s =>
    simp only [mkvsEq, Bool.and_eq_true, decide_eq_true_eq] at h
    rw [h.1.1, mvalEq_sound x y h.1.2, mkvsEq_sound r s h.2]
  | [], _ :: _ => simp [mkvsEq] at h
  | _ :: _, [] => simp [mkvsEq] at h
end

/-- the option holds the given value -/
def optIs (x : Option MVal) (y : MVal) : Bool :=
  match x with
  | some a => mvalEq a y
  | none => false

theorem optIs_sound (x : Option MVal) (y : MVal) (h : optIs x y = true) : x = some y := by
  cases x with
  | none => simp [optIs] at h
  | some a => simp only [optIs] at h; rw [mvalEq_sound a y h]

/-- the table the parser builds for the document, read as a `toml::Value` (`none`: rejected) -/
def parsedTable (ds : List DStmt) : Option MVal :=
  (stmtsOf ds).bind fun ss => ((run {} ss).bind intoDocument).map tblM

theorem parsedTable_some (ds : List DStmt) (t : MVal) (h : parsedTable ds = some t) :
    ∃ ss st d, stmtsOf ds = some ss ∧ run {} ss = some st ∧ intoDocument st = some d ∧ tblM d = t := by
  unfold parsedTable at h
  cases hs : stmtsOf ds with
  | none => simp [hs] at h
  | some ss =>
    cases hr : run {} ss with
    | none => simp [hs, hr] at h
    | some st =>
      cases hd : intoDocument st with
      | none => simp [hs, hr, hd] at h
      | some d =>
        simp [hs, hr, hd] at h
        exact ⟨ss, st, d, rfl, hr, hd, h⟩

end TomlVerif.Lemmas.Macro19b
