import TomlVerif.Lemmas.Tiling03MoreVSEntries
/-! Value-level "same data" (C03): the printed key paths and entries of an inline table are
    renderings of well-formed grammar pieces (`QKey`, `QDKey`, pairs of `QVal`). -/
namespace TomlVerif.Lemmas.Tiling03More.VS
open TomlVerif TomlVerif.Spec TomlVerif.Model TomlVerif.Model.Strings TomlVerif.Model.Value
open TomlVerif.Model.Cst TomlVerif.Model.Encode TomlVerif.Lemmas.Suffix03 TomlVerif.Lemmas.Cst03
open TomlVerif.Lemmas.Tiling03 TomlVerif.Spec.AstValue TomlVerif.Spec.AstValueQ

/-! ### blanks -/

theorem allWs_nil : AllWs [] := by intro b hb; cases hb

theorem allWs_sp : AllWs [0x20] := by
  intro b hb; simp at hb; subst hb; decide

theorem allWs_noCr (t : Bytes) (h : AllWs t) : ∀ b ∈ t, b ≠ 0x0D := by
  intro b hb e
  have := h b hb
  subst e
  revert this; decide

theorem allWs_strip (t : Bytes) (h : AllWs t) : stripCr t = t := stripCr_of_noCr t (allWs_noCr t h)

/-- the decor texts are blanks -/
def DecWs (inp : Bytes) (d : Decor) : Prop :=
  (∀ r, d.pre = some r → AllWs (rawText inp r)) ∧ (∀ r, d.suf = some r → AllWs (rawText inp r))

theorem DecWs_default (inp : Bytes) : DecWs inp {} := ⟨(fun r h => by cases h), fun r h => by cases h⟩

theorem DecWs_new (inp : Bytes) (a b : Raw) (ha : AllWs (rawText inp a)) (hb : AllWs (rawText inp b)) :
    DecWs inp (Decor.new a b) := by
  constructor
  · intro r h; simp only [Decor.new] at h; injection h with h; subst h; exact ha
  · intro r h; simp only [Decor.new] at h; injection h with h; subst h; exact hb

theorem prefixEncode_ws (inp : Bytes) (d : Decor) (dflt : Bytes) (hd : DecWs inp d) (hdf : AllWs dflt) :
    AllWs (prefixEncode stripCr inp d dflt) := by
  unfold prefixEncode
  cases hp : d.pre with
  | none => exact hdf
  | some r =>
    simp only [encRaw]
    rw [allWs_strip _ (hd.1 r hp)]
    exact hd.1 r hp

theorem suffixEncode_ws (inp : Bytes) (d : Decor) (dflt : Bytes) (hd : DecWs inp d) (hdf : AllWs dflt) :
    AllWs (suffixEncode stripCr inp d dflt) := by
  unfold suffixEncode
  cases hp : d.suf with
  | none => exact hdf
  | some r =>
    simp only [encRaw]
    rw [allWs_strip _ (hd.2 r hp)]
    exact hd.2 r hp

/-! ### keys -/

/-- a stored key: its `repr` text spells its decoded key; its decor texts are blanks -/
def GKey (inp : Bytes) (k : CKey) : Prop :=
  KeyText (rawText inp k.repr) k.key ∧ DecWs inp k.dotted ∧ DecWs inp k.leaf

theorem keyPathAux_q (inp : Bytes) (leaf : Decor) (dp ds : Bytes) (hl : DecWs inp leaf) (hds : AllWs ds) :
    ∀ (ks : List CKey), (∀ k ∈ ks, GKey inp k) →
    ∃ qs : List QKey, (∀ x ∈ qs, x.WF) ∧ renderQKeySep qs = encodeKeyPathAux stripCr inp leaf dp ds false ks ∧
      qs.map QKey.key = keysOf ks
  | [], _ => ⟨[], (by intro x hx; cases hx), (by simp [renderQKeySep, encodeKeyPathAux]), rfl⟩
  | k :: rest, h => by
    obtain ⟨qs, h1, h2, h3⟩ := keyPathAux_q inp leaf dp ds hl hds rest (fun k' hk' => h k' (List.mem_cons_of_mem _ hk'))
    obtain ⟨hkt, hkd, _⟩ := h k (by simp)
    refine ⟨⟨prefixEncode stripCr inp k.dotted [], rawText inp k.repr, k.key,
      if rest.isEmpty then suffixEncode stripCr inp leaf ds else suffixEncode stripCr inp k.dotted []⟩ :: qs, ?_, ?_, ?_⟩
    · intro x hx
      rcases List.mem_cons.1 hx with rfl | hx
      · refine ⟨prefixEncode_ws inp _ _ hkd allWs_nil, ?_, hkt⟩
        show AllWs (if rest.isEmpty then _ else _)
        split
        · exact suffixEncode_ws inp _ _ hl hds
        · exact suffixEncode_ws inp _ _ hkd allWs_nil
      · exact h1 x hx
    · simp only [renderQKeySep, encodeKeyPathAux, QKey.render, h2, encodeKey, Bool.false_eq_true, if_false]
      simp
    · simp [h3]

/-- the printed key path of an entry is a well-formed dotted key with the same decoded keys -/
theorem keyPath_q (inp : Bytes) (dp ds : Bytes) (hdp : AllWs dp) (hds : AllWs ds) (X : List CKey) (hne : X ≠ [])
    (h : ∀ k ∈ X, GKey inp k) :
    ∃ qd : QDKey, qd.first.WF ∧ (∀ x ∈ qd.more, x.WF) ∧ qd.render = encodeKeyPath stripCr inp X dp ds ∧
      qd.keys = keysOf X ∧ qd.more.length + 1 = X.length := by
  cases X with
  | nil => exact absurd rfl hne
  | cons x rest =>
    unfold encodeKeyPath
    cases hl : (x :: rest).getLast? with
    | none => simp at hl
    | some l =>
      have hlm : l ∈ x :: rest := List.mem_of_getLast? hl
      have hleaf : DecWs inp l.leaf := (h l hlm).2.2
      obtain ⟨qs, h1, h2, h3⟩ := keyPathAux_q inp l.leaf dp ds hleaf hds rest (fun k' hk' => h k' (List.mem_cons_of_mem _ hk'))
      obtain ⟨hkt, hkd, _⟩ := h x (by simp)
      refine ⟨⟨⟨prefixEncode stripCr inp l.leaf dp, rawText inp x.repr, x.key,
        if rest.isEmpty then suffixEncode stripCr inp l.leaf ds else suffixEncode stripCr inp x.dotted []⟩, qs⟩, ?_, h1, ?_, ?_, ?_⟩
      · refine ⟨prefixEncode_ws inp _ _ hleaf hdp, ?_, hkt⟩
        show AllWs (if rest.isEmpty then _ else _)
        split
        · exact suffixEncode_ws inp _ _ hleaf hds
        · exact suffixEncode_ws inp _ _ hkd allWs_nil
      · simp only [QDKey.render, QKey.render, encodeKeyPathAux, h2, encodeKey, if_true]
      · simp [QDKey.keys, h3]
      · have := congrArg List.length h3
        simp at this
        simp [this]

theorem splitKeys_dropLast : ∀ (ks : List Bytes) (k : Bytes),
    (splitKeys k ks).1 = (k :: ks).dropLast ∧ (splitKeys k ks).2 = ((k :: ks).getLast?).getD []
  | [], k => by simp [splitKeys]
  | k' :: ks, k => by
    obtain ⟨h1, h2⟩ := splitKeys_dropLast ks k'
    simp only [splitKeys, h1, h2]
    constructor
    · simp
    · simp [List.getLast?_cons_cons]

/-! ### values -/

/-- the printed value without its outer decor -/
def core (inp : Bytes) (v : CVal) : Bytes := encodeValue stripCr inp (v.setDecor {}) [] []

theorem encodeValue_core (inp : Bytes) (v : CVal) (dp ds : Bytes) :
    encodeValue stripCr inp v dp ds
      = prefixEncode stripCr inp v.decor dp ++ core inp v ++ suffixEncode stripCr inp v.decor ds := by
  cases v <;> simp [encodeValue, core, CVal.setDecor, CVal.decor, prefixEncode, suffixEncode]

theorem core_setDecor (inp : Bytes) (v : CVal) (d : Decor) : core inp (v.setDecor d) = core inp v := by
  cases v <;> rfl

/-- **renderable**: the printed core is the rendering of a well-formed grammar tree that denotes the
    erased value and nests below the limit at depth `m` -/
def RV (inp : Bytes) (m : Nat) (v : CVal) : Prop :=
  ∃ q : QVal, WFQ q ∧ renderQ q = core inp v ∧ semQ q = eraseVal v ∧ (depthQ q = 0 ∨ m + depthQ q < LIMIT)

theorem RV_setDecor (inp : Bytes) (m : Nat) (v : CVal) (d : Decor) : RV inp m (v.setDecor d) ↔ RV inp m v := by
  unfold RV
  rw [core_setDecor, eraseVal_setDecor]

/-- the value of an inline-table entry below `m` further dotted levels of a table parsed at depth `D` -/
def GVal (inp : Bytes) (D m : Nat) (v : CVal) : Prop :=
  DecWs inp v.decor ∧ RV inp (D + m) v ∧ D + m < LIMIT ∧ LeafG v

/-- a printed entry -/
def EOK (inp : Bytes) (D : Nat) (e : List CKey × CVal) : Prop :=
  ∃ m, m + 1 = e.1.length ∧ (∀ k ∈ e.1, GKey inp k) ∧ GVal inp D m e.2

/-- the entry printer writes well-formed pairs -/
theorem entries_pairs (inp : Bytes) (D : Nat) (hD : 0 < D) (hDL : D < LIMIT) :
    ∀ (es : List (List CKey × CVal)) (i len : Nat), (∀ e ∈ es, EOK inp D e) →
    ∃ pairs : List (QDKey × Bytes × QVal × Bytes), WFPairsQ pairs ∧
      (if i != 0 then renderPairsSepQ pairs else renderPairsQ pairs) = encEntries stripCr inp es i len ∧
      flatPairsQ pairs = es.map eTriple ∧ D + depthPairsQ pairs < LIMIT
  | [], i, len, _ => ⟨[], (by rw [WFPairsQ]; trivial), (by simp [renderPairsSepQ, renderPairsQ, encEntries]),
      (by simp [flatPairsQ]), (by simpa [depthPairsQ] using hDL)⟩
  | (X, v) :: r, i, len, h => by
    obtain ⟨pairs, p1, p2, p3, p4⟩ := entries_pairs inp D hD hDL r (i + 1) len (fun e he => h e (List.mem_cons_of_mem _ he))
    obtain ⟨m, hm, hkeys, hdec, ⟨q, q1, q2, q3, q4⟩, hlim, hleaf⟩ := h (X, v) (List.mem_cons_self ..)
    simp only [] at hm hkeys hdec q2 q3
    have hne : X ≠ [] := by intro e; subst e; simp at hm
    obtain ⟨qd, k1, k2, k3, k4, k5⟩ := keyPath_q inp [0x20] [0x20] allWs_sp allWs_sp X hne hkeys
    have hi1 : ((i + 1 != 0) = true) := by simp
    simp only [hi1, if_true] at p2
    refine ⟨(qd, prefixEncode stripCr inp v.decor [0x20], q,
      suffixEncode stripCr inp v.decor (if i + 1 == len then [0x20] else [])) :: pairs, ?_, ?_, ?_, ?_⟩
    · rw [WFPairsQ]
      refine ⟨⟨k1, k2, by omega⟩, prefixEncode_ws inp _ _ hdec allWs_sp, q1, ?_, p1⟩
      apply suffixEncode_ws inp _ _ hdec
      split
      · exact allWs_sp
      · exact allWs_nil
    · have e1 : (if i != 0 then renderPairsSepQ ((qd, prefixEncode stripCr inp v.decor [0x20], q,
          suffixEncode stripCr inp v.decor (if i + 1 == len then [0x20] else [])) :: pairs)
          else renderPairsQ ((qd, prefixEncode stripCr inp v.decor [0x20], q,
          suffixEncode stripCr inp v.decor (if i + 1 == len then [0x20] else [])) :: pairs))
          = (if i != 0 then [0x2C] else []) ++ renderPairsQ ((qd, prefixEncode stripCr inp v.decor [0x20], q,
          suffixEncode stripCr inp v.decor (if i + 1 == len then [0x20] else [])) :: pairs) := by
        split
        · rw [Sound01.renderPairsSepQ_cons]; rfl
        · rfl
      rw [e1]
      simp only [renderPairsQ, encEntries, p2, k3, q2, encodeValue_core inp v]
      simp
    · simp only [flatPairsQ, List.map_cons, p3, q3]
      congr 1
      have := splitKeys_dropLast (qd.more.map QKey.key) qd.first.key
      simp only [QDKey.keys] at k4
      simp only [QDKey.path, QDKey.last, eTriple, this.1, this.2, k4]
    · simp only [depthPairsQ]
      have : qd.more.length = m := by omega
      rw [this]
      rcases q4 with q4 | q4
      · rw [q4]; omega
      · omega

end TomlVerif.Lemmas.Tiling03More.VS
