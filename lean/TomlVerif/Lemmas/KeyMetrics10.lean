import TomlVerif.Lemmas.Metrics10
namespace TomlVerif.Lemmas
open TomlVerif TomlVerif.Spec TomlVerif.Model.Write

/-- bytes that set `escape_codes` in `KeyMetrics::calculate` -/
def kEscCode (b : UInt8) : Bool := b != 0x27 && b != 0x22 && b != 0x5C && b != 0x09 && isCtlByte b

theorem kmStep_fields (m : KeyMetrics) (b : UInt8) :
    (kmStep m b).unquoted = (m.unquoted && isKeyBareByte b) ∧
    (kmStep m b).singleQuotes = (m.singleQuotes || b == 0x27) ∧
    (kmStep m b).escapeCodes = (m.escapeCodes || kEscCode b) := by
  unfold kmStep kEscCode
  by_cases h0 : isKeyBareByte b = true <;> by_cases h1 : b = 0x27 <;> by_cases h2 : b = 0x22 <;>
    by_cases h3 : b = 0x5C <;> by_cases h4 : b = 0x09 <;> by_cases h5 : isCtlByte b = true <;> simp_all

theorem km_fold (s : Bytes) : ∀ m : KeyMetrics,
    (s.foldl kmStep m).unquoted = (m.unquoted && s.all isKeyBareByte) ∧
    (s.foldl kmStep m).singleQuotes = (m.singleQuotes || s.any (· == 0x27)) ∧
    (s.foldl kmStep m).escapeCodes = (m.escapeCodes || s.any kEscCode) := by
  induction s with
  | nil => intro m; simp
  | cons b s ih =>
    intro m
    obtain ⟨i1, i2, i3⟩ := ih (kmStep m b)
    obtain ⟨f1, f2, f3⟩ := kmStep_fields m b
    simp only [List.foldl_cons]
    rw [i1, i2, i3, f1, f2, f3]
    simp [Bool.and_assoc, Bool.or_assoc]

theorem bare_is_unquoted : ∀ b : UInt8, isKeyBareByte b = isUnquotedChar b := forall_byte (by decide +kernel)
theorem key_literal_ok : ∀ b : UInt8, kEscCode b = false → b ≠ 0x27 → isLiteralChar b = true :=
  forall_byte (by decide +kernel)
theorem value_literal_ok : ∀ b : UInt8, escCodeByte b = false → b ≠ 0x27 → b ≠ 0x0A → isLiteralChar b = true :=
  forall_byte (by decide +kernel)
theorem mll_ok_of_no_esc : ∀ b : UInt8, escCodeByte b = false → (Spec.isMllChar b || b == 0x27 || b == 0x0A) = true :=
  forall_byte (by decide +kernel)
theorem unquoted_not_delim : ∀ b : UInt8, isUnquotedChar b = true → b ≠ 0x22 ∧ b ≠ 0x27 :=
  forall_byte (by decide +kernel)

end TomlVerif.Lemmas
