import TomlVerif.Model.DeTyped
import TomlVerif.Lemmas.DeRoutes13
/-! Lemmas for Props/C13Typed, part 1: the data of a parsed tree as a `toml::Value` in document order (`plainItem`),
    and the two decoders of Model/DeTyped.lean with all three switches off compute the same function on it. -/
namespace TomlVerif.Lemmas.DeTyped13
open TomlVerif TomlVerif.Model TomlVerif.Model.TomlValue TomlVerif.Model.DeRoutes TomlVerif.Model.DeText
open TomlVerif.Model.DeTyped TomlVerif.Lemmas.DeRoutes13

/-! ## the data of a parsed tree, entries in document order -/

mutual
def plainVal : Val → TV
  | .str s => .str s
  | .int n => .int n
  | .float b => .float b
  | .bool b => .bool b
  | .dt d => .dt d
  | .arr l => .arr (plainVals l)
  | .inl items _ _ => .tbl (plainValPairs items)
def plainVals : List Val → List TV
  | [] => []
  | v :: r => plainVal v :: plainVals r
def plainValPairs : List (Bytes × Val) → List (Bytes × TV)
  | [] => []
  | (k, v) :: r => (k, plainVal v) :: plainValPairs r
end

mutual
def plainItem : Item → TV
  | .value v => plainVal v
  | .table t => plainTbl t
  | .aot ts => .arr (plainTbls ts)
def plainTbl : Tbl → TV
  | .mk items _ _ _ => .tbl (plainItems items)
def plainTbls : List Tbl → List TV
  | [] => []
  | t :: r => plainTbl t :: plainTbls r
def plainItems : List (Bytes × Item) → List (Bytes × TV)
  | [] => []
  | (k, i) :: r => (k, plainItem i) :: plainItems r
end

theorem plainVals_eq (l : List Val) : plainVals l = (l.map Item.value).map plainItem := by
  induction l with
  | nil => rfl
  | cons v r ih => simp [plainVals, plainItem, ih]

theorem plainValPairs_eq (l : List (Bytes × Val)) :
    plainValPairs l = (l.map fun kv => (kv.1, Item.value kv.2)).map fun kv => (kv.1, plainItem kv.2) := by
  induction l with
  | nil => rfl
  | cons x r ih => obtain ⟨k, v⟩ := x; simp [plainValPairs, plainItem, ih]

theorem plainTbls_eq (l : List Tbl) : plainTbls l = (l.map Item.table).map plainItem := by
  induction l with
  | nil => rfl
  | cons v r ih => simp [plainTbls, plainItem, ih]

theorem plainItems_eq (l : List (Bytes × Item)) : plainItems l = l.map fun kv => (kv.1, plainItem kv.2) := by
  induction l with
  | nil => rfl
  | cons x r ih => obtain ⟨k, v⟩ := x; simp [plainItems, ih]

/-! `toml_edit` shows for a parsed tree what it shows for its data -/
mutual
theorem presOfVal_eq : ∀ v : Val, presOfVal v = presEdit (plainVal v)
  | .str _ => by simp [presOfVal, plainVal, presEdit]
  | .int _ => by simp [presOfVal, plainVal, presEdit]
  | .float _ => by simp [presOfVal, plainVal, presEdit]
  | .bool _ => by simp [presOfVal, plainVal, presEdit]
  | .dt _ => by simp [presOfVal, plainVal, presEdit]
  | .arr l => by simp [presOfVal, plainVal, presEdit, presOfVals_eq l]
  | .inl items _ _ => by simp [presOfVal, plainVal, presEdit, presOfValPairs_eq items]
theorem presOfVals_eq : ∀ l : List Val, presOfVals l = presEditList (plainVals l)
  | [] => by simp [presOfVals, plainVals, presEditList]
  | v :: r => by simp [presOfVals, plainVals, presEditList, presOfVal_eq v, presOfVals_eq r]
theorem presOfValPairs_eq : ∀ l : List (Bytes × Val), presOfValPairs l = presEditPairs (plainValPairs l)
  | [] => by simp [presOfValPairs, plainValPairs, presEditPairs]
  | (k, v) :: r => by simp [presOfValPairs, plainValPairs, presEditPairs, presOfVal_eq v, presOfValPairs_eq r]
end

mutual
theorem presOfItem_eq : ∀ i : Item, presOfItem i = presEdit (plainItem i)
  | .value v => by simp [presOfItem, plainItem, presOfVal_eq v]
  | .table t => by simp [presOfItem, plainItem, presOfTbl_eq t]
  | .aot ts => by simp [presOfItem, plainItem, presEdit, presOfTbls_eq ts]
theorem presOfTbl_eq : ∀ t : Tbl, presOfTbl t = presEdit (plainTbl t)
  | .mk items _ _ _ => by simp [presOfTbl, plainTbl, presEdit, presOfItems_eq items]
theorem presOfTbls_eq : ∀ l : List Tbl, presOfTbls l = presEditList (plainTbls l)
  | [] => by simp [presOfTbls, plainTbls, presEditList]
  | t :: r => by simp [presOfTbls, plainTbls, presEditList, presOfTbl_eq t, presOfTbls_eq r]
theorem presOfItems_eq : ∀ l : List (Bytes × Item), presOfItems l = presEditPairs (plainItems l)
  | [] => by simp [presOfItems, plainItems, presEditPairs]
  | (k, i) :: r => by simp [presOfItems, plainItems, presEditPairs, presOfItem_eq i, presOfItems_eq r]
end

/-- both families show the same thing (`T13_de_routes_patched`, the code as it stands since F7 was repaired) -/
theorem presOfItem_presValue (i : Item) : presOfItem i = presValue currentDtAsMap (plainItem i) := by
  rw [presOfItem_eq, show currentDtAsMap = true from rfl, presValue_true_eq]

/-! ## the views of an item and of its data -/

/-- the five kinds of item the deserializers distinguish -/
inductive Kind where
  | scalar
  | str (s : Bytes)
  | dt (d : Datetime.Datetime)
  | elems (l : List Item)
  | entries (es : List (Bytes × Item))

def kindOf : Item → Kind
  | .value (.str s) => .str s
  | .value (.int _) => .scalar
  | .value (.float _) => .scalar
  | .value (.bool _) => .scalar
  | .value (.dt d) => .dt d
  | .value (.arr l) => .elems (l.map Item.value)
  | .value (.inl items _ _) => .entries (items.map fun kv => (kv.1, Item.value kv.2))
  | .table t => .entries t.items
  | .aot ts => .elems (ts.map Item.table)

def pairsTV (es : List (Bytes × Item)) : List (Bytes × TV) := es.map fun kv => (kv.1, plainItem kv.2)

/-- everything the decoders ask of an item, by kind -/
theorem item_view (it : Item) :
    match kindOf it with
    | .scalar => itemElems it = none ∧ itemEntries it = none ∧ editMapEntries it = none ∧
        (∀ s, it ≠ .value (.str s)) ∧ (∀ d, it ≠ .value (.dt d)) ∧
        ((∃ n, plainItem it = .int n) ∨ (∃ b, plainItem it = .float b) ∨ (∃ b, plainItem it = .bool b))
    | .str s => it = .value (.str s)
    | .dt d => it = .value (.dt d)
    | .elems l => itemElems it = some l ∧ itemEntries it = none ∧ editMapEntries it = none ∧
        (∀ s, it ≠ .value (.str s)) ∧ (∀ d, it ≠ .value (.dt d)) ∧ plainItem it = .arr (l.map plainItem)
    | .entries es => itemElems it = none ∧ itemEntries it = some es ∧
        editMapEntries it = some (es.map fun kv => (kv.1, ESrc.item kv.2)) ∧
        (∀ s, it ≠ .value (.str s)) ∧ (∀ d, it ≠ .value (.dt d)) ∧ plainItem it = .tbl (pairsTV es) := by
  cases it with
  | value v =>
    cases v <;>
      simp [kindOf, itemElems, itemEntries, editMapEntries, plainItem, plainVal, plainVals_eq, plainValPairs_eq, pairsTV]
  | table t =>
    obtain ⟨items, a, b, c⟩ := t
    simp [kindOf, itemElems, itemEntries, editMapEntries, plainItem, plainTbl, plainItems_eq, pairsTV, Tbl.items]
  | aot ts =>
    simp [kindOf, itemElems, itemEntries, editMapEntries, plainItem, plainTbls_eq]

theorem mapE_congr {α β γ} (f : α → R γ) (g : β → R γ) (h : α → β) (l : List α) (hfg : ∀ a ∈ l, f a = g (h a)) :
    mapE f l = mapE g (l.map h) := by
  induction l with
  | nil => rfl
  | cons a r ih =>
    simp only [mapE, List.map_cons]
    rw [hfg a (by simp), ih (fun x hx => hfg x (by simp [hx]))]

theorem alookup_map {α β} (f : α → β) (k : Bytes) (l : List (Bytes × α)) :
    alookup k (l.map fun kv => (kv.1, f kv.2)) = (alookup k l).map f := by
  induction l with
  | nil => rfl
  | cons x r ih =>
    obtain ⟨k', v⟩ := x
    simp only [List.map_cons, alookup]
    split <;> simp [ih]

theorem indexKeys_map {α β} (f : α → β) : ∀ (i : Nat) (l : List (Bytes × α)),
    indexKeys i (l.map fun kv => (kv.1, f kv.2)) = indexKeys i l
  | _, [] => rfl
  | i, (k, v) :: r => by simp [indexKeys, indexKeys_map f (i + 1) r]

end TomlVerif.Lemmas.DeTyped13
