import TomlVerif.Lemmas.DeLocated15e
/-! Lemmas for Props/C15Located.lean, part 6: every error of `decodeLoc` obeys the locating rule `Loc`. -/
namespace TomlVerif.Lemmas.DeLocated15
open TomlVerif TomlVerif.Model TomlVerif.Model.TomlValue TomlVerif.Model.DeRoutes TomlVerif.Model.DeText
open TomlVerif.Model.DeTyped TomlVerif.Model.Cst TomlVerif.Model.DeLocated

/-! ### `toml::Value` as the target -/

theorem loc_atSpanE (it : CItem) (e : LErr) (h : Loc it e.keys e.span) :
    Loc it (atSpanE it.span e).keys (atSpanE it.span e).span := by
  unfold atSpanE
  cases hs : e.span with
  | none => rw [hs] at h; simpa using Loc.fallback h
  | some s => simpa [hs] using h

/-- an entry error: what `inEntryE` / `dtFromEntry` build -/
def EntryErr (k : CKey) (v : CItem) (e : LErr) : Prop :=
  ∃ ks sp, Loc v ks sp ∧ e = ⟨if sp.isNone then entrySpan k v else sp, k.key :: ks⟩

theorem dtFromEntry_loc (k : CKey) (v : CItem) (e : LErr) (h : dtFromEntry k v = some e) : EntryErr k v e := by
  unfold dtFromEntry at h
  have : e = ⟨entrySpan k v, [k.key]⟩ := by
    split at h
    · split at h
      · cases h; rfl
      · cases h
    · cases h; rfl
  subst this
  exact ⟨[], none, .pending v, by simp⟩

theorem inEntryE_loc (k : CKey) (v : CItem) (e : LErr) (h : Loc v e.keys e.span) :
    EntryErr k v (inEntryE (entrySpan k v) k.key e) :=
  ⟨e.keys, e.span, h, rfl⟩

mutual
theorem valueErrVal_loc : ∀ (v : CVal) (e : LErr), valueErrVal v = some e → Loc (.value v) e.keys e.span
  | .scalar x r d, e, h => by
    cases x with
    | dt d0 =>
      simp only [valueErrVal] at h
      split at h
      · cases h; exact Loc.self (.value (.scalar (.dt d0) r d))
      · cases h
    | str => simp [valueErrVal] at h
    | int => simp [valueErrVal] at h
    | float => simp [valueErrVal] at h
    | bool => simp [valueErrVal] at h
    | arr => simp [valueErrVal] at h
    | inl => simp [valueErrVal] at h
  | .arr items t c d sp, e, h => by
    simp only [valueErrVal, Option.map_eq_some_iff] at h
    obtain ⟨e0, h0, rfl⟩ := h
    obtain ⟨x, hx, hl⟩ := valueErrVals_loc items e0 h0
    exact loc_atSpanE (.value (.arr items t c d sp)) e0
      (.elem (l := items.map CItem.value) rfl (List.mem_map.2 ⟨x, hx, rfl⟩) hl)
  | .inl items p i dt d sp, e, h => by
    simp only [valueErrVal, Option.map_eq_some_iff] at h
    obtain ⟨e0, h0, rfl⟩ := h
    obtain ⟨k, v, hm, ks, sp0, hl, rfl⟩ := valueErrKvs_loc items true e0 h0
    exact loc_atSpanE (.value (.inl items p i dt d sp)) _
      (.entry (es := items.map fun kv => (kv.1, CItem.value kv.2)) rfl (List.mem_map.2 ⟨(k, v), hm, rfl⟩) hl)
theorem valueErrVals_loc : ∀ (l : List CVal) (e : LErr), valueErrVals l = some e →
    ∃ x ∈ l, Loc (.value x) e.keys e.span
  | [], e, h => by simp [valueErrVals] at h
  | v :: r, e, h => by
    simp only [valueErrVals] at h
    cases hv : valueErrVal v with
    | some e0 =>
      rw [hv] at h; cases h
      exact ⟨v, List.mem_cons_self .., loc_atSpanE (.value v) e0 (valueErrVal_loc v _ hv)⟩
    | none =>
      rw [hv] at h
      obtain ⟨x, hx, hl⟩ := valueErrVals_loc r e h
      exact ⟨x, List.mem_cons_of_mem _ hx, hl⟩
theorem valueErrKvs_loc : ∀ (l : List (CKey × CVal)) (b : Bool) (e : LErr), valueErrKvs b l = some e →
    ∃ k v, (k, v) ∈ l ∧ EntryErr k (.value v) e
  | [], b, e, h => by simp [valueErrKvs] at h
  | (k, v) :: r, b, e, h => by
    simp only [valueErrKvs] at h
    split at h
    · exact ⟨k, v, List.mem_cons_self .., dtFromEntry_loc k (.value v) e h⟩
    · cases hv : valueErrVal v with
      | some e0 =>
        rw [hv] at h; cases h
        exact ⟨k, v, List.mem_cons_self .., inEntryE_loc k (.value v) e0 (valueErrVal_loc v e0 hv)⟩
      | none =>
        rw [hv] at h
        obtain ⟨k', v', hm, hl⟩ := valueErrKvs_loc r false e h
        exact ⟨k', v', List.mem_cons_of_mem _ hm, hl⟩
end

mutual
theorem valueErrItem_loc : ∀ (it : CItem) (e : LErr), valueErrItem it = some e → Loc it e.keys e.span
  | .value v, e, h => by simp only [valueErrItem] at h; exact valueErrVal_loc v e h
  | .table t, e, h => by simp only [valueErrItem] at h; exact valueErrTbl_loc t e h
  | .aot ts sp, e, h => by
    simp only [valueErrItem, Option.map_eq_some_iff] at h
    obtain ⟨e0, h0, rfl⟩ := h
    obtain ⟨x, hx, hl⟩ := valueErrTbls_loc ts e0 h0
    exact loc_atSpanE (.aot ts sp) e0 (.elem (l := ts.map CItem.table) rfl (List.mem_map.2 ⟨x, hx, rfl⟩) hl)
theorem valueErrTbl_loc : ∀ (t : CTbl) (e : LErr), valueErrTbl t = some e → Loc (.table t) e.keys e.span
  | .mk items i d p dc sp, e, h => by
    simp only [valueErrTbl, Option.map_eq_some_iff] at h
    obtain ⟨e0, h0, rfl⟩ := h
    obtain ⟨k, v, hm, ks, sp0, hl, rfl⟩ := valueErrItems_loc items true e0 h0
    exact loc_atSpanE (.table (.mk items i d p dc sp)) _ (.entry (es := items) rfl hm hl)
theorem valueErrTbls_loc : ∀ (l : List CTbl) (e : LErr), valueErrTbls l = some e →
    ∃ x ∈ l, Loc (.table x) e.keys e.span
  | [], e, h => by simp [valueErrTbls] at h
  | v :: r, e, h => by
    simp only [valueErrTbls] at h
    cases hv : valueErrTbl v with
    | some e0 =>
      rw [hv] at h; cases h
      exact ⟨v, List.mem_cons_self .., loc_atSpanE (.table v) e0 (valueErrTbl_loc v _ hv)⟩
    | none =>
      rw [hv] at h
      obtain ⟨x, hx, hl⟩ := valueErrTbls_loc r e h
      exact ⟨x, List.mem_cons_of_mem _ hx, hl⟩
theorem valueErrItems_loc : ∀ (l : List (CKey × CItem)) (b : Bool) (e : LErr), valueErrItems b l = some e →
    ∃ k v, (k, v) ∈ l ∧ EntryErr k v e
  | [], b, e, h => by simp [valueErrItems] at h
  | (k, v) :: r, b, e, h => by
    simp only [valueErrItems] at h
    split at h
    · exact ⟨k, v, List.mem_cons_self .., dtFromEntry_loc k v e h⟩
    · cases hv : valueErrItem v with
      | some e0 =>
        rw [hv] at h; cases h
        exact ⟨k, v, List.mem_cons_self .., inEntryE_loc k v e0 (valueErrItem_loc v e0 hv)⟩
      | none =>
        rw [hv] at h
        obtain ⟨k', v', hm, hl⟩ := valueErrItems_loc r false e h
        exact ⟨k', v', List.mem_cons_of_mem _ hm, hl⟩
end

theorem decodeValueLoc_loc (fl : Flavour) (it : CItem) : LocE it (decodeValueLoc fl it) := by
  intro e h
  unfold decodeValueLoc at h
  split at h
  · cases h
  · split at h
    · rename_i e0 he0
      cases h
      exact valueErrItem_loc it _ he0
    · cases h; exact Loc.self it

/-! ### date-times -/

theorem dtCore_loc (it : CItem) : LocE it (dtCore it) := by
  unfold dtCore
  split
  · exact locE_atSpan it _ (locE_liftV it _)
  · refine locE_atSpan it _ ?_
    cases hc : citemEntries it with
    | none => exact locE_vfail it
    | some es =>
      cases es with
      | nil => exact locE_vfail it
      | cons kv rest =>
        obtain ⟨k, v⟩ := kv
        simp only []
        split
        · intro e he
          obtain ⟨e0, h0, rfl⟩ := inEntry_error _ _ _ _ he
          have hv : LocE v (atSpan v.span (match presOfItem (eraseItem v) with
              | .string s => liftV (ofOpt (Datetime.Std.fromStr s))
              | _ => vfail)) := by
            refine locE_atSpan v _ ?_
            split
            · exact locE_liftV v _
            · exact locE_vfail v
          exact .entry hc (List.mem_cons_self ..) (hv e0 h0)
        · intro e he
          cases he
          exact .key hc (List.mem_cons_self ..)

theorem dtLoc_loc (ty : Ty) (it : CItem) : LocE it (dtLoc ty it) := by
  intro e he
  unfold dtLoc at he
  cases hc : dtCore it with
  | error e0 => rw [hc] at he; cases he; exact dtCore_loc it _ hc
  | ok d =>
    rw [hc] at he
    simp only [] at he
    have : e = visitorErr := by
      cases ty <;> simp only [shapeCheck] at he <;>
        first
        | cases he
        | (split at he
           · cases he
           · cases he; rfl)
    subst this; exact .pending it

/-! ### the induction over the type grammar -/

/-- errors of a `visit_seq` over the items `l` -/
def SeqLoc (l : List CItem) (e : LErr) : Prop := e = visitorErr ∨ ∃ x ∈ l, Loc x e.keys e.span

theorem seqLoc_elem (it : CItem) (l : List CItem) (hl : citemElems it = some l) (e : LErr) (h : SeqLoc l e) :
    Loc it e.keys e.span := by
  rcases h with h | ⟨x, hx, h⟩
  · subst h; exact .pending it
  · exact .elem hl hx h

mutual
theorem loc_ty (fl : Flavour) : ∀ (ty : Ty) (it : CItem), LocE it (decodeLoc fl ty it)
  | .bool, it => by unfold decodeLoc; exact locE_atSpan it _ (locE_liftV it _)
  | .int _ _, it => by unfold decodeLoc; exact locE_atSpan it _ (locE_liftV it _)
  | .f64, it => by unfold decodeLoc; exact locE_atSpan it _ (locE_liftV it _)
  | .f32, it => by unfold decodeLoc; exact locE_atSpan it _ (locE_liftV it _)
  | .string, it => by unfold decodeLoc; exact locE_atSpan it _ (locE_liftV it _)
  | .char, it => by unfold decodeLoc; exact locE_atSpan it _ (locE_liftV it _)
  | .unit, it => by unfold decodeLoc; exact locE_atSpan it _ (locE_liftV it _)
  | .datetime, it => by unfold decodeLoc; exact dtLoc_loc _ it
  | .date, it => by unfold decodeLoc; exact dtLoc_loc _ it
  | .time, it => by unfold decodeLoc; exact dtLoc_loc _ it
  | .value, it => by unfold decodeLoc; exact decodeValueLoc_loc fl it
  | .ignored, it => by unfold decodeLoc; exact locE_ok it _
  | .option t, it => by unfold decodeLoc; exact locE_atSpan it _ (locE_lmap it _ _ (loc_ty fl t it))
  | .newtype t, it => by unfold decodeLoc; exact locE_atSpan it _ (locE_lmap it _ _ (loc_ty fl t it))
  | .seq t, it => by
    unfold decodeLoc
    refine locE_atSpan it _ ?_
    cases hl : citemElems it with
    | none => exact locE_vfail it
    | some l =>
      intro e he
      obtain ⟨x, hx, hf⟩ := mapL_error _ l e (lmap_error _ _ _ he)
      exact .elem hl hx (locE_atSpan x _ (loc_ty fl t x) e hf)
  | .tuple ts, it => by
    unfold decodeLoc
    refine locE_atSpan it _ ?_
    cases hl : citemElems it with
    | none => exact locE_vfail it
    | some l =>
      intro e he
      exact seqLoc_elem it l hl e (loc_tys fl ts l e (lmap_error _ _ _ he))
  | .map t, it => by
    unfold decodeLoc
    refine locE_atSpan it _ ?_
    cases hl : locMapEntries it with
    | none => exact locE_vfail it
    | some es =>
      intro e he
      obtain ⟨kv, hkv, hf⟩ := mapL_error _ es e (lmap_error _ _ _ he)
      obtain ⟨key, src⟩ := kv
      have hf' := lmap_error _ _ _ hf
      refine entryLoc_to_loc it es hl key src hkv e ?_
      cases src with
      | str s => exact liftV_error _ _ hf'
      | item k i =>
        obtain ⟨e0, h0, rfl⟩ := inEntry_error _ _ _ _ hf'
        exact ⟨e0.keys, e0.span, loc_ty fl t i e0 h0, rfl⟩
  | .struct fs, it => by
    unfold decodeLoc
    refine locE_atSpan it _ ?_
    cases hl : locMapEntries it with
    | some es => exact struct_body_loc it fs _ _ es hl fun kv _ e he => loc_entry fl fs kv.1 kv.2 e he
    | none =>
      simp only []
      cases hle : citemElems it with
      | none => exact locE_vfail it
      | some l =>
        intro e he
        exact seqLoc_elem it l hle e (loc_fseq fl fs l e (lmap_error _ _ _ he))
  | .enum vs, it => by
    unfold decodeLoc
    refine locE_atSpan it _ ?_
    split
    · exact locE_liftV it _
    · cases hc : citemEntries it with
      | none => exact locE_failAt_self it
      | some es =>
        match es with
        | [] => exact locE_failAt_self it
        | [(k, p)] =>
          intro e he
          rcases loc_variants fl vs k p e he with h | h
          · subst h; exact .key hc (List.mem_cons_self ..)
          · exact .variant hc h
        | _ :: _ :: _ => exact locE_failAt_self it
theorem loc_tys (fl : Flavour) : ∀ (ts : Tys) (l : List CItem) (e : LErr), decodeLocTys fl ts l = .error e → SeqLoc l e
  | .nil, l, e, h => by unfold decodeLocTys at h; cases h
  | .cons t r, [], e, h => by unfold decodeLocTys at h; cases h; exact Or.inl rfl
  | .cons t r, i :: l, e, h => by
    unfold decodeLocTys at h
    rcases lcons_error _ _ _ h with h1 | h1
    · exact Or.inr ⟨i, List.mem_cons_self .., locE_atSpan i _ (loc_ty fl t i) e h1⟩
    · rcases loc_tys fl r l e h1 with h2 | ⟨x, hx, h2⟩
      · exact Or.inl h2
      · exact Or.inr ⟨x, List.mem_cons_of_mem _ hx, h2⟩
theorem loc_entry (fl : Flavour) : ∀ (fs : Fields) (k : Bytes) (src : LSrc) (e : LErr),
    decodeLocEntry fl fs k src = .error e → EntryLoc src e
  | .nil, k, src, e, h => by unfold decodeLocEntry at h; cases h
  | .cons name t dflt r, k, src, e, h => by
    unfold decodeLocEntry at h
    split at h
    · have h' := lmap_error _ _ _ h
      cases src with
      | str s => exact liftV_error _ _ h'
      | item key i =>
        obtain ⟨e0, h0, rfl⟩ := inEntry_error _ _ _ _ h'
        exact ⟨e0.keys, e0.span, loc_ty fl t i e0 h0, rfl⟩
    · exact loc_entry fl r k src e h
theorem loc_fseq (fl : Flavour) : ∀ (fs : Fields) (l : List CItem) (e : LErr),
    decodeLocFieldsSeq fl fs l = .error e → SeqLoc l e
  | .nil, l, e, h => by unfold decodeLocFieldsSeq at h; cases h
  | .cons name t dflt r, [], e, h => by
    unfold decodeLocFieldsSeq at h
    split at h
    · exact loc_fseq fl r [] e (lmap_error _ _ _ h)
    · cases h; exact Or.inl rfl
  | .cons name t dflt r, i :: l, e, h => by
    unfold decodeLocFieldsSeq at h
    rcases lcons_error _ _ _ h with h1 | h1
    · exact Or.inr ⟨i, List.mem_cons_self .., locE_atSpan i _ (loc_ty fl t i) e (lmap_error _ _ _ h1)⟩
    · rcases loc_fseq fl r l e h1 with h2 | ⟨x, hx, h2⟩
      · exact Or.inl h2
      · exact Or.inr ⟨x, List.mem_cons_of_mem _ hx, h2⟩
theorem loc_variants (fl : Flavour) : ∀ (vs : Variants) (k : CKey) (p : CItem) (e : LErr),
    decodeLocVariants fl vs k p = .error e → e = ⟨keySpan k, []⟩ ∨ Loc p e.keys e.span
  | .nil, k, p, e, h => by unfold decodeLocVariants at h; cases h; exact Or.inl rfl
  | .cons name s r, k, p, e, h => by
    unfold decodeLocVariants at h
    split at h
    · exact Or.inr (loc_shape fl s name p e h)
    · exact loc_variants fl r k p e h
theorem loc_shape (fl : Flavour) : ∀ (s : Shape) (n : Bytes) (p : CItem), LocE p (decodeLocShape fl s n p)
  | .unit, n, p => by
    unfold decodeLocShape
    cases citemElems p with
    | some l => simp only []; split; exact locE_ok p _; exact locE_failAt_self p
    | none =>
      simp only []
      cases citemEntries p with
      | some es => simp only []; split; exact locE_ok p _; exact locE_failAt_self p
      | none => exact locE_failAt_self p
  | .newtype t, n, p => by unfold decodeLocShape; exact locE_lmap p _ _ (loc_ty fl t p)
  | .tuple ts, n, p => by
    unfold decodeLocShape
    cases hl : citemElems p with
    | some l =>
      simp only []
      split
      · intro e he
        exact seqLoc_elem p l hl e (loc_tys fl ts l e (lmap_error _ _ _ he))
      · exact locE_failAt_self p
    | none =>
      simp only []
      cases hc : citemEntries p with
      | none => exact locE_failAt_self p
      | some es =>
        simp only []
        cases hb : firstBadIndex 0 es with
        | some k =>
          intro e he
          cases he
          obtain ⟨v, hv⟩ := firstBadIndex_mem es 0 k hb
          exact .key hc hv
        | none =>
          simp only []
          split
          · intro e he
            rcases loc_tys fl ts _ e (lmap_error _ _ _ he) with h | ⟨x, hx, h⟩
            · subst h; exact .pending p
            · obtain ⟨kv, hkv, rfl⟩ := List.mem_map.1 hx
              exact .index hc hkv (firstBadIndex_none es 0 hb kv hkv) h
          · exact locE_failAt_self p
  | .struct fs, n, p => by
    unfold decodeLocShape
    cases hx : (citemEntries p).bind (firstExtraKey fs) with
    | some k =>
      refine locE_atSpan p _ ?_
      intro e he
      cases he
      cases hc : citemEntries p with
      | none => rw [hc] at hx; simp at hx
      | some es =>
        rw [hc] at hx
        simp only [Option.bind_some] at hx
        obtain ⟨v, hv⟩ := firstExtraKey_mem fs es k hx
        exact .key hc hv
    | none =>
      refine locE_atSpan p _ ?_
      cases hl : locMapEntries p with
      | some es => exact struct_body_loc p fs _ _ es hl fun kv _ e he => loc_entry fl fs kv.1 kv.2 e he
      | none =>
        simp only []
        cases hle : citemElems p with
        | none => exact locE_vfail p
        | some l =>
          intro e he
          exact seqLoc_elem p l hle e (loc_fseq fl fs l e (lmap_error _ _ _ he))
end

end TomlVerif.Lemmas.DeLocated15
