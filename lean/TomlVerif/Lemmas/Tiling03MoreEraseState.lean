import TomlVerif.Lemmas.Tiling03MoreEraseKey
/-! Erasure simulation, layer 5 (C03): the parse state of the format-preserving parser
    (`Cst.CState`) follows the semantic one (`State.ParseState`) through every callback. -/
namespace TomlVerif.Lemmas.Tiling03More
open TomlVerif TomlVerif.Spec TomlVerif.Model TomlVerif.Model.Strings TomlVerif.Model.Value
open TomlVerif.Model.Cst

/-- forgetting the layout of a parse state -/
def eraseState (st : CState) : State.ParseState :=
  { root := eraseTbl st.root, position := st.position, current := eraseTbl st.current,
    currentIsArray := st.currentIsArray, currentPath := keysOf st.currentPath }

/-! ### tables -/

theorem eraseTbl_items (t : CTbl) : (eraseTbl t).items = mapKv eraseItem t.items := by
  cases t; simp [eraseTbl, Tbl.items, CTbl.items, eraseItems_eq]
theorem eraseTbl_implicit (t : CTbl) : (eraseTbl t).implicit = t.implicit := by
  cases t; simp [eraseTbl, Tbl.implicit, CTbl.implicit]
theorem eraseTbl_dotted (t : CTbl) : (eraseTbl t).dotted = t.dotted := by
  cases t; simp [eraseTbl, Tbl.dotted, CTbl.dotted]
theorem eraseTbl_pos (t : CTbl) : (eraseTbl t).pos = t.pos := by
  cases t; simp [eraseTbl, Tbl.pos, CTbl.pos]
theorem eraseTbl_setItems (t : CTbl) (i : List (CKey × CItem)) :
    eraseTbl (t.setItems i) = (eraseTbl t).setItems (mapKv eraseItem i) := by
  cases t; simp [eraseTbl, Tbl.setItems, CTbl.setItems, eraseItems_eq, Tbl.implicit, CTbl.implicit,
    Tbl.dotted, CTbl.dotted, Tbl.pos, CTbl.pos]
theorem eraseTbl_setSpan (t : CTbl) (s : Option Span) : eraseTbl (t.setSpan s) = eraseTbl t := by
  cases t; simp [eraseTbl, CTbl.setSpan, CTbl.items, CTbl.implicit, CTbl.dotted, CTbl.pos]
theorem eraseTbl_newImplicit (d : Bool) : eraseTbl (newImplicit d) = State.newImplicit d := by
  simp [newImplicit, State.newImplicit, eraseTbl, eraseItems]
theorem eraseTbl_empty : eraseTbl CTbl.empty = Tbl.empty := by
  simp [CTbl.empty, Tbl.empty, eraseTbl, eraseItems]
theorem eraseTbl_mk (items : List (CKey × CItem)) (i d : Bool) (p : Option Nat) (dec : Decor) (sp : Option Span) :
    eraseTbl (.mk items i d p dec sp) = .mk (mapKv eraseItem items) i d p := by
  simp [eraseTbl, eraseItems_eq]

/-! ### `descend_path` -/

theorem modifyLast_erase (ts : List CTbl) (f : CTbl → Option CTbl) (g : Tbl → Option Tbl)
    (h : ∀ t, (f t).map eraseTbl = g (eraseTbl t)) :
    (modifyLast ts f).map (List.map eraseTbl) = State.modifyLast (ts.map eraseTbl) g := by
  unfold modifyLast State.modifyLast
  rw [← List.map_reverse]
  cases ts.reverse with
  | nil => rfl
  | cons l initRev =>
    simp only [List.map_cons]
    rw [← h l]
    cases f l with
    | none => rfl
    | some l' => simp

theorem descend_erase : ∀ (path : List CKey) (t : CTbl) (d : Bool) (f : CTbl → Option CTbl)
    (g : Tbl → Option Tbl), (∀ t, (f t).map eraseTbl = g (eraseTbl t)) →
    (descend t path d f).map eraseTbl = State.descend (eraseTbl t) (keysOf path) d g := by
  intro path
  induction path with
  | nil =>
    intro t d f g h
    simp only [keysOf_nil]
    unfold descend State.descend
    exact h t
  | cons k ks ih =>
    intro t d f g h
    simp only [keysOf_cons]
    unfold descend State.descend
    simp only [eraseTbl_items, alookup_mapKv]
    have he : ((clookup k.key t.items).map eraseItem).getD (.table (State.newImplicit d)) =
        eraseItem ((clookup k.key t.items).getD (.table (newImplicit d))) := by
      cases clookup k.key t.items <;> simp [eraseItem, eraseTbl_newImplicit]
    rw [he]
    generalize (clookup k.key t.items).getD (.table (newImplicit d)) = entry
    cases entry with
    | value v => simp [eraseItem]
    | aot ts sp =>
      simp only [eraseItem, eraseTbls_eq, keysOf_isEmpty]
      by_cases hd : (d && !ks.isEmpty) = true
      · simp [hd]
      · simp only [hd, Bool.false_eq_true, if_false]
        rw [← modifyLast_erase ts _ _ (fun last => ih last d f g h)]
        cases modifyLast ts (fun last => descend last ks d f) with
        | none => rfl
        | some ts' =>
          simp only [Option.map_some, eraseTbl_setItems]
          rw [← aset_mapKv]
          simp only [eraseItem, eraseTbls_eq]
    | table sub =>
      simp only [eraseItem, eraseTbl_implicit]
      by_cases hd : (d && !sub.implicit) = true
      · simp [hd]
      · simp only [hd, Bool.false_eq_true, if_false]
        rw [← ih sub d f g h]
        cases descend sub ks d f with
        | none => rfl
        | some sub' =>
          simp only [Option.map_some, eraseTbl_setItems]
          rw [← aset_mapKv]
          simp only [eraseItem]

/-! ### the callbacks -/

theorem onWs_erase (st : CState) (a b : Nat) : eraseState (onWs st a b) = eraseState st := by
  unfold onWs
  split <;> rfl

/-- a `descend_path` + callback step of the state, then the state update -/
theorem descend_map_erase {cur : CTbl} {T : Tbl} {path : List CKey} {d : Bool}
    {f : CTbl → Option CTbl} {g : Tbl → Option Tbl} {F : CTbl → CState} {G : Tbl → State.ParseState}
    (hcur : eraseTbl cur = T) (hfg : ∀ t, (f t).map eraseTbl = g (eraseTbl t))
    (hFG : ∀ c, eraseState (F c) = G (eraseTbl c)) :
    ((descend cur path d f).map F).map eraseState = (State.descend T (keysOf path) d g).map G := by
  rw [← hcur, ← descend_erase path cur d f g hfg]
  cases descend cur path d f with
  | none => rfl
  | some c => simp [hFG]

theorem onKeyval_erase (st : CState) (path : List CKey) (key : CKey) (v : CVal) :
    (onKeyval st path key v).map eraseState =
      State.onKeyval (eraseState st) (keysOf path) key.key (eraseVal v) := by
  unfold onKeyval State.onKeyval
  simp only []
  apply descend_map_erase
  · show _ = eraseTbl st.current
    split <;> simp [eraseTbl_setSpan]
  · intro table
    simp only [eraseTbl_dotted, keysOf_isEmpty, eraseTbl_items, alookup_mapKv]
    by_cases hc : (table.dotted == path.isEmpty) = true
    · simp [hc]
    · simp only [hc, Bool.false_eq_true, if_false]
      cases clookup key.key table.items with
      | some x => rfl
      | none => simp [eraseTbl_setItems, eraseItem]
  · intro c; rfl

theorem finalizeTable_erase (st : CState) :
    (finalizeTable st).map eraseState = State.finalizeTable (eraseState st) := by
  unfold finalizeTable State.finalizeTable
  simp only []
  rw [ssplitLast_eq]
  have hp : (eraseState st).currentPath = keysOf st.currentPath := rfl
  have hr : (eraseState st).root = eraseTbl st.root := rfl
  have ha : (eraseState st).currentIsArray = st.currentIsArray := rfl
  have hc : (eraseState st).current = eraseTbl st.current := rfl
  rw [hp, vsplitLast_keysOf]
  cases Value.splitLast st.currentPath with
  | none =>
    simp only [Option.map_none, hr, eraseTbl_items, mapKv_isEmpty]
    by_cases he : st.root.items.isEmpty = true
    · simp only [he, if_true, Option.map_some]; rw [eraseTbl_empty.symm]; rfl
    · simp [he]
  | some p =>
    obtain ⟨pp, key⟩ := p
    simp only [Option.map_some, ha, hr, hc]
    cases st.currentIsArray with
    | true =>
      simp only [if_true]
      apply descend_map_erase rfl
      · intro parent
        simp only [eraseTbl_items, alookup_mapKv]
        have he : ((clookup key.key parent.items).map eraseItem).getD (.aot []) =
            eraseItem ((clookup key.key parent.items).getD (.aot [] none)) := by
          cases clookup key.key parent.items <;> simp [eraseItem, eraseTbls]
        rw [he]
        generalize (clookup key.key parent.items).getD (.aot [] none) = entry
        cases entry with
        | value v => rfl
        | table t => rfl
        | aot ts sp =>
          simp only [eraseItem, Option.map_some, eraseTbl_setItems]
          rw [← aset_mapKv]
          simp [eraseItem, eraseTbls_eq]
      · intro c; rw [eraseTbl_empty.symm]; rfl
    | false =>
      simp only [Bool.false_eq_true, if_false]
      apply descend_map_erase rfl
      · intro parent
        simp only [eraseTbl_items, alookup_mapKv]
        cases clookup key.key parent.items with
        | none => simp [eraseTbl_setItems, eraseItem]
        | some it =>
          cases it with
          | value v => rfl
          | aot ts sp => rfl
          | table t =>
            simp only [Option.map_some, eraseItem, eraseTbl_implicit]
            cases t.implicit with
            | false => rfl
            | true =>
              simp only [if_true, Option.map_some, eraseTbl_setItems]
              rw [← areplace_mapKv]
              simp [eraseItem]
      · intro c; rw [eraseTbl_empty.symm]; rfl

theorem findTable_erase (key : Bytes) : ∀ (path : List CKey) (t : CTbl),
    (findTable key t path).map eraseTbl = State.startTable.find key (eraseTbl t) (keysOf path) := by
  intro path
  induction path with
  | nil =>
    intro t
    simp only [keysOf_nil]
    unfold findTable State.startTable.find
    simp only [eraseTbl_items, alookup_mapKv]
    cases clookup key t.items with
    | none => rfl
    | some it => cases it <;> rfl
  | cons k ks ih =>
    intro t
    simp only [keysOf_cons]
    unfold findTable State.startTable.find
    simp only [eraseTbl_items, alookup_mapKv]
    cases clookup k.key t.items with
    | none => rfl
    | some it =>
      cases it with
      | value v => rfl
      | table sub => simp only [Option.map_some, eraseItem]; exact ih sub
      | aot ts sp =>
        simp only [Option.map_some, eraseItem, eraseTbls_eq, ← List.map_reverse]
        cases ts.reverse with
        | nil => rfl
        | cons l r => simp only [List.map_cons]; exact ih l

/-! ### `start_table` / `start_array_table` with named callbacks -/

def cprobeF (key : Bytes) : CTbl → Option CTbl := fun parent =>
  match clookup key parent.items with
  | some (.table t) => if t.implicit && !t.dotted then some parent else none
  | some _ => none
  | none => some parent

def sprobeF (key : Bytes) : Tbl → Option Tbl := fun parent =>
  match alookup key parent.items with
  | some (.table t) => if t.implicit && !t.dotted then some parent else none
  | some _ => none
  | none => some parent

def ceraseF (key : Bytes) : CTbl → Option CTbl := fun parent =>
  some (parent.setItems (cerase key parent.items))

def seraseF (key : Bytes) : Tbl → Option Tbl := fun parent =>
  some (parent.setItems (aerase key parent.items))

def caotF (key : CKey) : CTbl → Option CTbl := fun parent =>
  match clookup key.key parent.items with
  | some (.aot _ _) => some parent
  | some _ => none
  | none => some (parent.setItems (parent.items ++ [(key, .aot [] none)]))

def saotF (key : Bytes) : Tbl → Option Tbl := fun parent =>
  match alookup key parent.items with
  | some (.aot _) => some parent
  | some _ => none
  | none => some (parent.setItems (parent.items ++ [(key, .aot [])]))

theorem startTable_cst_eq (st : CState) (path : List CKey) (decor : Decor) (span : Span) :
    startTable st path decor span =
      match Value.splitLast path with
      | none => none
      | some (pp, key) =>
        match descend st.root pp false (cprobeF key.key) with
        | none => none
        | some _ =>
          match descend st.root pp false (ceraseF key.key) with
          | none => none
          | some root' =>
            some { st with root := root', position := st.position + 1, current := CTbl.mk (((findTable key.key st.root pp).getD st.current).items) false false (some (st.position + 1)) decor (some span), currentIsArray := false, currentPath := path } := by
  unfold startTable
  rfl

theorem startTable_sem_eq (st : State.ParseState) (path : List Bytes) :
    State.startTable st path =
      match Value.splitLast path with
      | none => none
      | some (pp, key) =>
        match State.descend st.root pp false (sprobeF key) with
        | none => none
        | some _ =>
          match State.descend st.root pp false (seraseF key) with
          | none => none
          | some root' =>
            some { st with root := root', position := st.position + 1, current := Tbl.mk (((State.startTable.find key st.root pp).getD st.current).items) false false (some (st.position + 1)), currentIsArray := false, currentPath := path } := by
  unfold State.startTable
  rw [ssplitLast_eq]
  cases Value.splitLast path with
  | none => rfl
  | some p =>
    obtain ⟨pp, key⟩ := p
    simp only []
    show (match (match State.descend st.root pp false (sprobeF key) with
            | none => none
            | some _ => some none : Option (Option Tbl)) with
          | none => none
          | some _ => _) = _
    cases State.descend st.root pp false (sprobeF key) with
    | none => rfl
    | some x => rfl

theorem startArrayTable_cst_eq (st : CState) (path : List CKey) (decor : Decor) (span : Span) :
    startArrayTable st path decor span =
      match Value.splitLast path with
      | none => none
      | some (pp, key) =>
        match descend st.root pp false (caotF key) with
        | none => none
        | some root' =>
          some { st with root := root', position := st.position + 1, current := CTbl.mk (st.current.items) false false (some (st.position + 1)) decor (some span), currentIsArray := true, currentPath := path } := by
  unfold startArrayTable
  rfl

theorem startArrayTable_sem_eq (st : State.ParseState) (path : List Bytes) :
    State.startArrayTable st path =
      match Value.splitLast path with
      | none => none
      | some (pp, key) =>
        match State.descend st.root pp false (saotF key) with
        | none => none
        | some root' =>
          some { st with root := root', position := st.position + 1, current := Tbl.mk (st.current.items) false false (some (st.position + 1)), currentIsArray := true, currentPath := path } := by
  unfold State.startArrayTable
  rw [ssplitLast_eq]
  rfl

theorem probeF_erase (key : Bytes) (t : CTbl) : (cprobeF key t).map eraseTbl = sprobeF key (eraseTbl t) := by
  unfold cprobeF sprobeF
  simp only [eraseTbl_items, alookup_mapKv]
  cases clookup key t.items with
  | none => rfl
  | some it =>
    cases it with
    | value v => rfl
    | aot ts sp => rfl
    | table x =>
      simp only [Option.map_some, eraseItem, eraseTbl_implicit, eraseTbl_dotted]
      cases (x.implicit && !x.dotted) <;> rfl

theorem eraseF_erase (key : Bytes) (t : CTbl) : (ceraseF key t).map eraseTbl = seraseF key (eraseTbl t) := by
  unfold ceraseF seraseF
  simp only [Option.map_some, eraseTbl_setItems, eraseTbl_items, aerase_mapKv]

theorem aotF_erase (key : CKey) (t : CTbl) : (caotF key t).map eraseTbl = saotF key.key (eraseTbl t) := by
  unfold caotF saotF
  simp only [eraseTbl_items, alookup_mapKv]
  cases clookup key.key t.items with
  | none => simp [eraseTbl_setItems, eraseItem, eraseTbls]
  | some it => cases it <;> rfl

theorem startTable_erase (st : CState) (path : List CKey) (decor : Decor) (span : Span) :
    (startTable st path decor span).map eraseState = State.startTable (eraseState st) (keysOf path) := by
  rw [startTable_cst_eq, startTable_sem_eq, vsplitLast_keysOf]
  have hr : (eraseState st).root = eraseTbl st.root := rfl
  cases Value.splitLast path with
  | none => rfl
  | some p =>
    obtain ⟨pp, key⟩ := p
    simp only [Option.map_some, hr]
    rw [← descend_erase pp st.root false _ _ (probeF_erase key.key),
      ← descend_erase pp st.root false _ _ (eraseF_erase key.key), ← findTable_erase]
    cases descend st.root pp false (cprobeF key.key) with
    | none => rfl
    | some probe =>
      cases descend st.root pp false (ceraseF key.key) with
      | none => rfl
      | some root' =>
        cases findTable key.key st.root pp with
        | none => simp [eraseState, eraseTbl_mk, eraseTbl_items]
        | some x => simp [eraseState, eraseTbl_mk, eraseTbl_items]

theorem startArrayTable_erase (st : CState) (path : List CKey) (decor : Decor) (span : Span) :
    (startArrayTable st path decor span).map eraseState =
      State.startArrayTable (eraseState st) (keysOf path) := by
  rw [startArrayTable_cst_eq, startArrayTable_sem_eq, vsplitLast_keysOf]
  have hr : (eraseState st).root = eraseTbl st.root := rfl
  cases Value.splitLast path with
  | none => rfl
  | some p =>
    obtain ⟨pp, key⟩ := p
    simp only [Option.map_some, hr]
    rw [← descend_erase pp st.root false _ _ (aotF_erase key)]
    cases descend st.root pp false (caotF key) with
    | none => rfl
    | some root' => simp [eraseState, eraseTbl_mk, eraseTbl_items]

theorem takeTrailing_state_erase (st : CState) (t : Option Span) :
    eraseState { st with trailing := t } = eraseState st := rfl

theorem onStdHeader_erase (st : CState) (path : List CKey) (trailing : Raw) (span : Span) :
    (onStdHeader st path trailing span).map eraseState = State.onStdHeader (eraseState st) (keysOf path) := by
  unfold onStdHeader State.onStdHeader
  rw [← finalizeTable_erase]
  cases finalizeTable st with
  | none => rfl
  | some st' =>
    simp only [Option.map_some]
    rw [startTable_erase]
    rfl

theorem onArrayHeader_erase (st : CState) (path : List CKey) (trailing : Raw) (span : Span) :
    (onArrayHeader st path trailing span).map eraseState =
      State.onArrayHeader (eraseState st) (keysOf path) := by
  unfold onArrayHeader State.onArrayHeader
  rw [← finalizeTable_erase]
  cases finalizeTable st with
  | none => rfl
  | some st' =>
    simp only [Option.map_some]
    rw [startArrayTable_erase]
    rfl

theorem intoDocument_erase (st : CState) :
    (intoDocument st).map (fun d => eraseTbl d.root) = State.intoDocument (eraseState st) := by
  unfold intoDocument State.intoDocument
  rw [← finalizeTable_erase]
  cases finalizeTable st with
  | none => rfl
  | some st' => rfl
