import TomlVerif.Model.Value
import TomlVerif.Model.Datetime
import TomlVerif.Lemmas.Suffix03
/-! The text consumed by a scalar token parser of the model never ends with a line feed. -/
namespace TomlVerif.Lemmas.LastByte03
open TomlVerif TomlVerif.Spec TomlVerif.Model TomlVerif.Lemmas.Suffix03

/-- `s = t ++ [b] ++ r` with `b` not a line feed: a non-empty text was consumed and its last
    byte is not LF -/
def LastNe (r s : Bytes) : Prop := ∃ (t : Bytes) (b : UInt8), s = t ++ b :: r ∧ b ≠ 0x0A

/-- nothing consumed, or `LastNe` -/
def OrEq (r s : Bytes) : Prop := r = s ∨ LastNe r s

theorem lastNe_tail {b : UInt8} (s : Bytes) (hb : b ≠ 0x0A) : LastNe s (b :: s) :=
  ⟨[], b, rfl, hb⟩

theorem LastNe.trans_suffix {a b c : Bytes} (h1 : LastNe a b) (h2 : b <:+ c) : LastNe a c := by
  obtain ⟨t, x, e, hx⟩ := h1
  obtain ⟨u, hu⟩ := h2
  refine ⟨u ++ t, x, ?_, hx⟩
  rw [← hu, e, List.append_assoc]

theorem LastNe.cons {a b : Bytes} (h : LastNe a b) (x : UInt8) : LastNe a (x :: b) :=
  h.trans_suffix (List.suffix_cons x b)

theorem OrEq.trans_lastNe {a b c : Bytes} (h1 : OrEq a b) (h2 : LastNe b c) : LastNe a c := by
  cases h1 with
  | inl e => subst e; exact h2
  | inr h =>
    obtain ⟨t, x, e, hx⟩ := h
    exact LastNe.trans_suffix ⟨t, x, e, hx⟩ (by
      obtain ⟨u, y, e2, _⟩ := h2
      exact ⟨u ++ [y], by rw [e2]; simp⟩)

theorem OrEq.cons {a b : Bytes} (h : OrEq a b) {x : UInt8} (hx : x ≠ 0x0A) : LastNe a (x :: b) :=
  h.trans_lastNe (lastNe_tail b hx)

theorem LastNe.suffix {a b : Bytes} (h : LastNe a b) : a <:+ b := by
  obtain ⟨t, x, e, _⟩ := h
  exact ⟨t ++ [x], by rw [e]; simp⟩

theorem LastNe.trans {a b c : Bytes} (h1 : LastNe a b) (h2 : LastNe b c) : LastNe a c :=
  h1.trans_suffix h2.suffix

theorem LastNe.getLast {r s t : Bytes} (h : LastNe r s) (hs : s = t ++ r) :
    t.getLast? ≠ some 0x0A := by
  obtain ⟨u, x, e, hx⟩ := h
  have e2 : t ++ r = (u ++ [x]) ++ r := by rw [← hs, e]; simp
  have e3 : t = u ++ [x] := List.append_cancel_right e2
  subst e3
  simp only [List.getLast?_append, List.getLast?_singleton]
  intro hc
  simp at hc
  exact hx hc

/-! ### per-byte facts -/

theorem eq_ne_lf {b c : UInt8} (h : (b == c) = true) (hc : c ≠ 0x0A) : b ≠ 0x0A := by
  have : b = c := by simpa using h
  subst this; exact hc

theorem digit_ne_lf {b : UInt8} (h : isDigit b = true) : b ≠ 0x0A := by
  intro e; subst e; exact absurd h (by decide)

theorem digit19_ne_lf {b : UInt8} (h : isDigit1_9 b = true) : b ≠ 0x0A := by
  intro e; subst e; exact absurd h (by decide)

theorem hexdig_ne_lf {b : UInt8} (h : isHexdig b = true) : b ≠ 0x0A := by
  intro e; subst e; exact absurd h (by decide)

theorem digit07_ne_lf {b : UInt8} (h : isDigit0_7 b = true) : b ≠ 0x0A := by
  intro e; subst e; exact absurd h (by decide)

theorem digit01_ne_lf {b : UInt8} (h : isDigit0_1 b = true) : b ≠ 0x0A := by
  intro e; subst e; exact absurd h (by decide)

theorem wschar_ne_lf {b : UInt8} (h : isWschar b = true) : b ≠ 0x0A := by
  intro e; subst e; exact absurd h (by decide)

theorem nonEol_ne_lf {b : UInt8} (h : isNonEol b = true) : b ≠ 0x0A := by
  intro e; subst e; exact absurd h (by decide)

/-! ### trivia -/

theorem dropWs_consumed_ne_lf (s t : Bytes) (h : s = t ++ Strings.dropWs s) :
    ∀ b ∈ t, b ≠ 0x0A := by
  induction s generalizing t with
  | nil =>
    cases t with
    | nil => intro b hb; cases hb
    | cons x xs => cases h
  | cons c r ih =>
    unfold Strings.dropWs at h
    split at h
    · rename_i hc
      cases t with
      | nil =>
        have := (dropWs_suffix r).length_le
        have hl := congrArg List.length h
        simp only [List.nil_append, List.length_cons] at hl
        omega
      | cons x xs =>
        simp only [List.cons_append] at h
        injection h with h1 h2
        subst h1
        intro b hb
        cases hb with
        | head => exact wschar_ne_lf hc
        | tail _ hb => exact ih xs h2 b hb
    · have hl := congrArg List.length h
      simp only [List.length_append, List.length_cons] at hl
      have : t = [] := List.eq_nil_of_length_eq_zero (by omega)
      subst this
      intro b hb; cases hb

theorem dropComment_suffix (s : Bytes) : Value.dropComment s <:+ s := by
  induction s with
  | nil => exact List.suffix_refl _
  | cons b r ih =>
    unfold Value.dropComment
    split
    · exact ih.trans (List.suffix_cons b r)
    · exact List.suffix_refl _

theorem dropComment_consumed_ne_lf (s t : Bytes) (h : s = t ++ Value.dropComment s) :
    ∀ b ∈ t, b ≠ 0x0A := by
  induction s generalizing t with
  | nil =>
    cases t with
    | nil => intro b hb; cases hb
    | cons x xs => cases h
  | cons c r ih =>
    unfold Value.dropComment at h
    split at h
    · rename_i hc
      cases t with
      | nil =>
        have := (dropComment_suffix r).length_le
        have hl := congrArg List.length h
        simp only [List.nil_append, List.length_cons] at hl
        omega
      | cons x xs =>
        simp only [List.cons_append] at h
        injection h with h1 h2
        subst h1
        intro b hb
        cases hb with
        | head => exact nonEol_ne_lf hc
        | tail _ hb => exact ih xs h2 b hb
    · have hl := congrArg List.length h
      simp only [List.length_append, List.length_cons] at hl
      have : t = [] := List.eq_nil_of_length_eq_zero (by omega)
      subst this
      intro b hb; cases hb

/-! ### strings -/

theorem escapeSeqChar_suffix (s c r : Bytes) (h : Strings.escapeSeqChar s = .ok c r) : r <:+ s :=
  (escapeSeqChar_adv s c r h).1

theorem basicBody_last (fuel : Nat) (s acc v r : Bytes)
    (h : Strings.basicBody fuel s acc = .ok v r) : LastNe r s := by
  induction fuel generalizing s acc with
  | zero => unfold Strings.basicBody at h; cases h
  | succ n ih =>
    unfold Strings.basicBody at h
    split at h
    · cases h
    · rename_i b t
      split at h
      · exact (ih _ _ h).cons _
      · split at h
        · split at h
          · rename_i c r' he
            exact ((ih _ _ h).trans_suffix (escapeSeqChar_suffix _ _ _ he)).cons _
          · cases h
        · split at h
          · rename_i hq
            injection h with h1 h2; subst h2
            exact lastNe_tail _ (eq_ne_lf hq (by decide))
          · cases h

theorem basicString_last (s v r : Bytes) (h : Strings.basicString s = .ok v r) : LastNe r s := by
  unfold Strings.basicString at h
  split at h
  · exact (basicBody_last _ _ _ _ _ h).cons _
  · cases h

theorem literalString_last (s v r : Bytes) (h : Strings.literalString s = .ok v r) : LastNe r s := by
  unfold Strings.literalString at h
  split at h
  · rename_i t
    split at h
    · rename_i body t' ht
      injection h with h1 h2; subst h2
      have := takeLiteral_suffix t
      rw [ht] at this
      exact ((lastNe_tail _ (by decide)).trans_suffix this).cons _
    · cases h
  · cases h

/-- a run of at least `k+1` bytes `q` at the head: dropping `k+1` bytes drops a `q` last -/
theorem countLeading_drop (q : UInt8) (k : Nat) (s : Bytes)
    (hk : k + 1 ≤ Strings.countLeading q s) : ∃ t, s = t ++ q :: s.drop (k + 1) := by
  induction k generalizing s with
  | zero =>
    cases s with
    | nil => unfold Strings.countLeading at hk; omega
    | cons b r =>
      unfold Strings.countLeading at hk
      split at hk
      · rename_i hb
        have : b = q := by simpa using hb
        subst this
        exact ⟨[], rfl⟩
      · omega
  | succ k ih =>
    cases s with
    | nil => unfold Strings.countLeading at hk; omega
    | cons b r =>
      unfold Strings.countLeading at hk
      split at hk
      · obtain ⟨t, ht⟩ := ih r (by omega)
        refine ⟨b :: t, ?_⟩
        simp only [List.drop_succ_cons, List.cons_append]
        exact congrArg (List.cons b) ht
      · omega

theorem drop_min_last (q : UInt8) (hq : q ≠ 0x0A) (s : Bytes) (n : Nat)
    (hn : n = Strings.countLeading q s) (h3 : 3 ≤ n) : LastNe (s.drop (min n 5)) s := by
  obtain ⟨k, hk⟩ : ∃ k, min n 5 = k + 1 := ⟨min n 5 - 1, by omega⟩
  rw [hk]
  obtain ⟨t, ht⟩ := countLeading_drop q k s (by omega)
  exact ⟨t, q, ht, hq⟩

theorem mlBasicBody_last (fuel : Nat) (s acc v r : Bytes)
    (h : Strings.mlBasicBody fuel s acc = .ok v r) : LastNe r s := by
  induction fuel generalizing s acc with
  | zero => unfold Strings.mlBasicBody at h; cases h
  | succ n ih =>
    unfold Strings.mlBasicBody at h
    split at h
    · cases h
    · rename_i b t
      split at h
      · exact (ih _ _ h).cons _
      · split at h
        · split at h
          · rename_i r' he
            exact ((ih _ _ h).trans_suffix (mlbEscapedNl_suffix _ _ _ he)).cons _
          · split at h
            · rename_i c r' he
              exact ((ih _ _ h).trans_suffix (escapeSeqChar_suffix _ _ _ he)).cons _
            · cases h
        · split at h
          · simp only [] at h
            split at h
            · rename_i h3
              injection h with h1 h2; subst h2
              exact drop_min_last 0x22 (by decide) _ _ rfl h3
            · split at h
              · cases h
              · exact (ih _ _ h).cons _
          · split at h
            · rename_i r' hn
              exact (ih _ _ h).trans_suffix (newline?_suffix hn)
            · cases h

theorem mlBasicString_last (s v r : Bytes) (h : Strings.mlBasicString s = .ok v r) : LastNe r s := by
  unfold Strings.mlBasicString at h
  split at h
  · rename_i t
    simp only [] at h
    have h1 := mlBasicBody_last _ _ _ _ _ h
    exact (((h1.trans_suffix (newline?_getD_suffix t)).cons _).cons _).cons _
  · cases h

theorem mlLiteralBody_last (fuel : Nat) (s acc v r : Bytes)
    (h : Strings.mlLiteralBody fuel s acc = .ok v r) : LastNe r s := by
  induction fuel generalizing s acc with
  | zero => unfold Strings.mlLiteralBody at h; cases h
  | succ n ih =>
    unfold Strings.mlLiteralBody at h
    split at h
    · cases h
    · rename_i b t
      split at h
      · exact (ih _ _ h).cons _
      · split at h
        · simp only [] at h
          split at h
          · rename_i h3
            injection h with h1 h2; subst h2
            exact drop_min_last 0x27 (by decide) _ _ rfl h3
          · split at h
            · cases h
            · exact (ih _ _ h).cons _
        · split at h
          · rename_i r' hn
            exact (ih _ _ h).trans_suffix (newline?_suffix hn)
          · cases h

theorem mlLiteralString_last (s v r : Bytes) (h : Strings.mlLiteralString s = .ok v r) : LastNe r s := by
  unfold Strings.mlLiteralString at h
  split at h
  · rename_i t
    simp only [] at h
    have h1 := mlLiteralBody_last _ _ _ _ _ h
    exact (((h1.trans_suffix (newline?_getD_suffix t)).cons _).cons _).cons _
  · cases h

theorem string_last (s v r : Bytes) (h : Strings.string s = .ok v r) : LastNe r s := by
  unfold Strings.string at h
  split at h
  · split at h
    · split at h
      · exact literalString_last _ _ _ h
      · exact mlLiteralString_last _ _ _ h
    · exact basicString_last _ _ _ h
  · exact mlBasicString_last _ _ _ h

/-! ### numbers -/

theorem startsWith_eq (p s r : Bytes) (h : Numbers.startsWith p s = some r) : s = p ++ r := by
  unfold Numbers.startsWith at h
  split at h
  · rename_i ht
    injection h with h; subst h
    have ht' : s.take p.length = p := by simpa using ht
    have := List.take_append_drop p.length s
    rw [ht'] at this
    exact this.symm
  · cases h

theorem startsWith_last (p : Bytes) (b : UInt8) (s r : Bytes) (hb : b ≠ 0x0A)
    (h : Numbers.startsWith (p ++ [b]) s = some r) : LastNe r s := by
  refine ⟨p, b, ?_, hb⟩
  rw [startsWith_eq _ _ _ h]; simp

theorem keyword_last (kw p : Bytes) (b : UInt8) (s r : Bytes) (hb : b ≠ 0x0A) (hkw : kw = p ++ [b])
    (h : Numbers.keyword kw s = .ok () r) : LastNe r s := by
  unfold Numbers.keyword at h
  split at h
  · split at h
    · split at h
      · rename_i r' hs
        injection h with h1 h2; subst h2
        rw [hkw] at hs
        exact startsWith_last _ _ _ _ hb hs
      · cases h
    · cases h
  · cases h

theorem runTail_last_aux (isD : Byte → Bool) (hD : ∀ b, isD b = true → b ≠ 0x0A)
    (n : Nat) (s acc v r : Bytes) (hn : s.length ≤ n)
    (h : Numbers.runTail isD s acc = .ok v r) : OrEq r s := by
  induction n generalizing s acc with
  | zero =>
    cases s with
    | nil =>
      unfold Numbers.runTail at h
      injection h with h1 h2; subst h2; exact Or.inl rfl
    | cons b t => simp at hn
  | succ n ih =>
    cases s with
    | nil =>
      unfold Numbers.runTail at h
      injection h with h1 h2; subst h2; exact Or.inl rfl
    | cons b t =>
      simp only [List.length_cons] at hn
      unfold Numbers.runTail at h
      split at h
      · rename_i hb
        exact Or.inr ((ih _ _ (by omega) h).cons (hD _ hb))
      · split at h
        · split at h
          · rename_i d r'
            simp only [List.length_cons] at hn
            split at h
            · rename_i hd
              exact Or.inr (((ih _ _ (by omega) h).cons (hD _ hd)).cons _)
            · cases h
          · cases h
        · injection h with h1 h2; subst h2; exact Or.inl rfl

theorem runTail_last (isD : Byte → Bool) (hD : ∀ b, isD b = true → b ≠ 0x0A) (s acc v r : Bytes)
    (h : Numbers.runTail isD s acc = .ok v r) : OrEq r s :=
  runTail_last_aux isD hD s.length s acc v r (Nat.le_refl _) h

theorem zeroPrefixableInt_last (s v r : Bytes) (h : Numbers.zeroPrefixableInt s = .ok v r) :
    LastNe r s := by
  unfold Numbers.zeroPrefixableInt at h
  split at h
  · split at h
    · rename_i hb
      exact (runTail_last _ (fun _ => digit_ne_lf) _ _ _ _ h).cons (digit_ne_lf hb)
    · cases h
  · cases h

theorem decInt_last (s r : Bytes) (v : Bool × Bool × Bytes) (h : Numbers.decInt s = .ok v r) :
    LastNe r s := by
  unfold Numbers.decInt at h
  split at h
  rename_i neg signed s' hs
  have hs' : s' <:+ s := by
    split at hs
    · injection hs with _ hs; injection hs with _ hs; subst hs; exact List.suffix_cons _ _
    · injection hs with _ hs; injection hs with _ hs; subst hs; exact List.suffix_cons _ _
    · injection hs with _ hs; injection hs with _ hs; subst hs; exact List.suffix_refl _
  split at h
  · rename_i b t
    split at h
    · rename_i hb
      unfold Res.map at h
      split at h
      · rename_i ds r' hr
        injection h with h1 h2; subst h2
        exact ((runTail_last _ (fun _ => digit_ne_lf) _ _ _ _ hr).cons (digit19_ne_lf hb)).trans_suffix hs'
      · cases h
      · cases h
    · split at h
      · rename_i hb
        injection h with h1 h2; subst h2
        exact (lastNe_tail _ (digit_ne_lf hb)).trans_suffix hs'
      · cases h
  · cases h

theorem prefixedInt_last (isD : Byte → Bool) (hD : ∀ b, isD b = true → b ≠ 0x0A)
    (base : Nat) (s r : Bytes) (n : Int)
    (h : Numbers.prefixedInt isD base s = .ok n r) : LastNe r s := by
  unfold Numbers.prefixedInt at h
  split at h
  · split at h
    · rename_i hb
      split at h
      · rename_i ds rest hr
        simp only [] at h
        split at h
        · injection h with h1 h2; subst h2
          exact (runTail_last _ hD _ _ _ _ hr).cons (hD _ hb)
        · cases h
      · cases h
    · cases h
  · cases h

theorem integer_last (s r : Bytes) (n : Int) (h : Numbers.integer s = .ok n r) : LastNe r s := by
  unfold Numbers.integer at h
  split at h
  · exact ((prefixedInt_last _ (fun _ => hexdig_ne_lf) _ _ _ _ h).cons _).cons _
  · exact ((prefixedInt_last _ (fun _ => digit07_ne_lf) _ _ _ _ h).cons _).cons _
  · exact ((prefixedInt_last _ (fun _ => digit01_ne_lf) _ _ _ _ h).cons _).cons _
  · split at h
    · rename_i neg sg ds rest hd
      have hd' := decInt_last _ _ _ hd
      simp only [] at h
      repeat' split at h
      all_goals first
        | (injection h with h1 h2; subst h2; exact hd')
        | cases h
    · cases h
    · cases h

theorem expPart_last (s r : Bytes) (v : Bool × Bytes) (h : Numbers.expPart s = .ok v r) :
    LastNe r s := by
  unfold Numbers.expPart at h
  split at h
  · rename_i c t
    split at h
    · split at h
      rename_i neg r' hs
      have hs' : r' <:+ t := by
        split at hs
        · injection hs with _ hs; subst hs; exact List.suffix_cons _ _
        · injection hs with _ hs; subst hs; exact List.suffix_cons _ _
        · injection hs with _ hs; subst hs; exact List.suffix_refl _
      split at h
      · rename_i ds rest hz
        injection h with h1 h2; subst h2
        exact ((zeroPrefixableInt_last _ _ _ hz).trans_suffix hs').cons _
      · cases h
    · cases h
  · cases h

theorem floatLit_last (s r : Bytes) (l : Numbers.FloatLit) (h : Numbers.floatLit s = .ok l r) :
    LastNe r s := by
  unfold Numbers.floatLit at h
  split at h
  · rename_i neg sg ids r0 hd
    have hd' := (decInt_adv _ _ _ hd).1
    split at h
    · rename_i r1
      split at h
      · rename_i fds r2 hz
        have hz' := zeroPrefixableInt_last _ _ _ hz
        split at h
        · rename_i en eds r3 he
          injection h with h1 h2; subst h2
          exact (((expPart_last _ _ _ he).trans hz').cons _).trans_suffix hd'
        · injection h with h1 h2; subst h2
          exact (hz'.cons _).trans_suffix hd'
        · cases h
      · cases h
    · split at h
      · rename_i en eds r3 he
        injection h with h1 h2; subst h2
        exact (expPart_last _ _ _ he).trans_suffix hd'
      · cases h
      · cases h
  · cases h
  · cases h

theorem specialFloat_last (s r : Bytes) (b : Nat) (h : Numbers.specialFloat s = .ok b r) :
    LastNe r s := by
  unfold Numbers.specialFloat at h
  split at h
  rename_i neg t hs
  have hs' : t <:+ s := by
    split at hs
    · injection hs with _ hs; subst hs; exact List.suffix_cons _ _
    · injection hs with _ hs; subst hs; exact List.suffix_cons _ _
    · injection hs with _ hs; subst hs; exact List.suffix_refl _
  simp only [] at h
  split at h
  · rename_i t' hw
    injection h with h1 h2; subst h2
    exact (startsWith_last [0x69, 0x6E] 0x66 _ _ (by decide) hw).trans_suffix hs'
  · split at h
    · rename_i t' hw
      injection h with h1 h2; subst h2
      exact (startsWith_last [0x6E, 0x61] 0x6E _ _ (by decide) hw).trans_suffix hs'
    · cases h

theorem float_last (s r : Bytes) (b : Nat) (h : Numbers.float s = .ok b r) : LastNe r s := by
  unfold Numbers.float at h
  split at h
  · rename_i l rest hl
    simp only [] at h
    split at h
    · cases h
    · injection h with h1 h2; subst h2
      exact floatLit_last _ _ _ hl
  · cases h
  · exact specialFloat_last _ _ _ h

/-! ### date-times -/

theorem and_right {a b : Bool} (h : (a && b) = true) : b = true := by
  cases a <;> cases b <;> simp_all

theorem digits2_last (s r : Bytes) (v : Nat) (h : Datetime.digits2 s = some (v, r)) : LastNe r s := by
  unfold Datetime.digits2 at h
  split at h
  · split at h
    · rename_i hd
      injection h with h; injection h with h1 h2; subst h2
      exact (lastNe_tail _ (digit_ne_lf (and_right hd))).cons _
    · cases h
  · cases h

theorem takeDigits_orEq (s : Bytes) : OrEq (Datetime.takeDigits s).2 s := by
  induction s with
  | nil => exact Or.inl rfl
  | cons b t ih =>
    unfold Datetime.takeDigits
    split
    · rename_i hb
      exact Or.inr (ih.cons (digit_ne_lf hb))
    · exact Or.inl rfl

theorem takeDigits_last (s : Bytes) (h : (Datetime.takeDigits s).1 ≠ []) :
    LastNe (Datetime.takeDigits s).2 s := by
  cases s with
  | nil => exact absurd rfl h
  | cons b t =>
    unfold Datetime.takeDigits at h ⊢
    split
    · rename_i hb
      exact (takeDigits_orEq t).cons (digit_ne_lf hb)
    · rename_i hb
      rw [if_neg hb] at h
      exact absurd rfl h

theorem secfracOpt_orEq (s : Bytes) : OrEq (Datetime.Doc.secfracOpt s).2 s := by
  unfold Datetime.Doc.secfracOpt
  split
  · rename_i t
    split
    · exact Or.inl rfl
    · rename_i ds t' hne ht
      have := takeDigits_last t (by
        rw [ht]
        intro e
        exact hne e)
      rw [ht] at this
      exact Or.inr (this.cons _)
  · exact Or.inl rfl

theorem fullDate_last (s r : Bytes) (d : Datetime.Date) (h : Datetime.Doc.fullDate s = .ok d r) :
    LastNe r s := by
  unfold Datetime.Doc.fullDate at h
  split at h
  · cases h
  · rename_i year r0 h4
    have a4 := (digits4_adv _ _ _ h4).1
    split at h
    · rename_i r1
      split at h
      · cases h
      · rename_i month r2 hm
        have am := (digits2_adv _ _ _ hm).1
        split at h
        · cases h
        · split at h
          · rename_i r3
            split at h
            · cases h
            · rename_i day r4 hd
              have ad := digits2_last _ _ _ hd
              split at h
              · cases h
              · split at h
                · cases h
                · injection h with h1 h2; subst h2
                  exact (((ad.cons _).trans_suffix am).cons _).trans_suffix a4
          · cases h
    · cases h

theorem partialTime_last (s r : Bytes) (t : Datetime.Time) (h : Datetime.Doc.partialTime s = .ok t r) :
    LastNe r s := by
  unfold Datetime.Doc.partialTime at h
  split at h
  · cases h
  · rename_i hour r0 hh
    have ah := (digits2_adv _ _ _ hh).1
    split at h
    · cases h
    · split at h
      · rename_i r1
        split at h
        · cases h
        · rename_i minute r2 hm
          have am := (digits2_adv _ _ _ hm).1
          split at h
          · cases h
          · split at h
            · rename_i r3
              split at h
              · cases h
              · rename_i second r4 hs
                have as := digits2_last _ _ _ hs
                split at h
                · cases h
                · have hf := secfracOpt_orEq r4
                  split at h
                  rename_i ns r5 hfe
                  rw [hfe] at hf
                  injection h with h1 h2; subst h2
                  exact (((((hf.trans_lastNe as).cons _).trans_suffix am).cons _).trans_suffix ah)
            · cases h
      · cases h

theorem timeOffset_last (s r : Bytes) (o : Datetime.Offset) (h : Datetime.Doc.timeOffset s = .ok o r) :
    LastNe r s := by
  unfold Datetime.Doc.timeOffset at h
  split at h
  · cases h
  · rename_i c t
    split at h
    · rename_i hc
      injection h with h1 h2; subst h2
      refine lastNe_tail _ ?_
      intro e; subst e; exact absurd hc (by decide)
    · split at h
      · split at h
        · cases h
        · rename_i hh r1 hd
          have ah := (digits2_adv _ _ _ hd).1
          split at h
          · cases h
          · split at h
            · rename_i r2
              split at h
              · cases h
              · rename_i m r3 hm
                have am := digits2_last _ _ _ hm
                split at h
                · cases h
                · have fin := fun (r' : Bytes) (e : r3 = r') =>
                    e ▸ (((am.cons _).trans_suffix ah).cons c)
                  simp only [] at h
                  repeat' split at h
                  all_goals first
                    | (injection h with h1 h2; exact fin _ h2)
                    | cases h
            · cases h
      · cases h

theorem dateTime_last (s r : Bytes) (d : Datetime.Datetime) (h : Datetime.Doc.dateTime s = .ok d r) :
    LastNe r s := by
  unfold Datetime.Doc.dateTime at h
  split at h
  · rename_i dd r0 hd
    have ad := fullDate_last _ _ _ hd
    split at h
    · rename_i c r1
      split at h
      · split at h
        · rename_i t r2 ht
          have at' := partialTime_last _ _ _ ht
          split at h
          · rename_i o r3 ho
            injection h with h1 h2; subst h2
            exact (((timeOffset_last _ _ _ ho).trans at').cons _).trans ad
          · injection h with h1 h2; subst h2
            exact (at'.cons _).trans ad
          · cases h
        · injection h with h1 h2; subst h2; exact ad
        · cases h
      · injection h with h1 h2; subst h2; exact ad
    · injection h with h1 h2; subst h2; exact ad
  · cases h
  · split at h
    · rename_i t r1 ht
      injection h with h1 h2; subst h2
      exact partialTime_last _ _ _ ht
    · cases h
    · cases h

/-! ### scalar values -/

theorem scalar_lastNe (d : Nat) (s r : Bytes) (v : Val) (h : Value.value 1 d s = .ok v r) :
    LastNe r s := by
  unfold Value.value at h
  split at h
  · cases h
  · rename_i b t
    split at h
    · obtain ⟨w, hw⟩ := map_ok _ _ _ _ h
      exact string_last _ _ _ hw
    · split at h
      · split at h
        · cases h
        · rw [arrayValues_zero] at h
          cases h
      · split at h
        · split at h
          · cases h
          · rw [inlineKeyvals_zero] at h
            cases h
        · split at h
          · split at h
            · rename_i dtv r1 hd
              injection h with h1 h2; subst h2
              exact dateTime_last _ _ _ hd
            · cases h
            · split at h
              · rename_i bits r1 hf
                injection h with h1 h2; subst h2
                exact float_last _ _ _ hf
              · cases h
              · obtain ⟨w, hw⟩ := map_ok _ _ _ _ h
                exact integer_last _ _ _ hw
          · split at h
            · obtain ⟨w, hw⟩ := map_ok _ _ _ _ h
              exact integer_last _ _ _ hw
            · split at h
              · obtain ⟨w, hw⟩ := map_ok _ _ _ _ h
                exact float_last _ _ _ hw
              · split at h
                · obtain ⟨w, hw⟩ := map_ok _ _ _ _ h
                  exact keyword_last _ [0x74, 0x72, 0x75] 0x65 _ _ (by decide) rfl hw
                · split at h
                  · obtain ⟨w, hw⟩ := map_ok _ _ _ _ h
                    exact keyword_last _ [0x66, 0x61, 0x6C, 0x73] 0x65 _ _ (by decide) rfl hw
                  · split at h
                    · split at h
                      · rename_i r1 hs
                        injection h with h1 h2; subst h2
                        exact startsWith_last [0x69, 0x6E] 0x66 _ _ (by decide) hs
                      · cases h
                    · split at h
                      · split at h
                        · rename_i r1 hs
                          injection h with h1 h2; subst h2
                          exact startsWith_last [0x6E, 0x61] 0x6E _ _ (by decide) hs
                        · cases h
                      · cases h

/-- the text consumed by a scalar token never ends with a line feed -/
theorem scalar_last_ne_lf (d : Nat) (s r t : Bytes) (v : Val)
    (h : Value.value 1 d s = .ok v r) (hs : s = t ++ r) : t.getLast? ≠ some 0x0A :=
  (scalar_lastNe d s r v h).getLast hs

/-- moreover the consumed text is not empty -/
theorem scalar_consumed_ne_nil (d : Nat) (s r t : Bytes) (v : Val)
    (h : Value.value 1 d s = .ok v r) (hs : s = t ++ r) : t ≠ [] := by
  intro e; subst e
  have := (scalar_adv d s r v h).2
  simp only [List.nil_append] at hs
  subst hs
  omega

end TomlVerif.Lemmas.LastByte03
