import TomlVerif.Lemmas.Tiling03MoreOrdTree
/-! C03, documents whose sections are NOT in pre-order — the class `ordRunV` (= `nestRunV` with
    the header check `pathOkO` instead of `pathOk`), the parse-state invariant `OInv`,
    `finalize_table` and the header line. -/
namespace TomlVerif.Lemmas.Tiling03More
open TomlVerif TomlVerif.Spec TomlVerif.Model TomlVerif.Model.Strings TomlVerif.Model.Value
open TomlVerif.Model.Cst TomlVerif.Model.Encode TomlVerif.Lemmas.Suffix03 TomlVerif.Lemmas.Cst03
open TomlVerif.Lemmas.LastByte03 TomlVerif.Lemmas.Tiling03 TomlVerif.Lemmas.Tiling03Hdr
open TomlVerif.Lemmas.Tiling03Nest

/-! ### the class -/

/-- the header check for one reading of the line (`a`: as `[[…]]`): `r` is the text after the
    opening bracket(s), `st1` the state after `finalize_table` -/
def hdrChkO (inp : Bytes) (a : Bool) (st1 : CState) (r : Bytes) : Bool :=
  match ckeyPath inp.length r with
  | .ok ks _ =>
    (match splitLast ks with
     | some (pp, key) => pathOkO inp a key st1.root pp
     | none => true)
  | _ => true

/-- the check of a header line (`hdrLineOk` with `pathOkO`) -/
def hdrLineOkO (inp : Bytes) (st : CState) (s : Bytes) : Bool :=
  match finalizeTable st with
  | none => true
  | some st1 =>
    (match s with
     | 0x5B :: 0x5B :: r => hdrChkO inp true st1 r
     | _ => true) &&
    (match s with
     | 0x5B :: r => hdrChkO inp false st1 r
     | _ => true)

/-- the run checker: `runOkV` with `hdrLineOkO` at header lines -/
def runOkO (inp : Bytes) : Nat → CState → Bytes → Bool
  | 0, _, _ => true
  | fuel + 1, st, s =>
    let n := inp.length
    match s with
    | [] => true
    | b :: r =>
      if b == 0x23 then
        let r1 := dropComment r
        match r1 with
        | [] => true
        | _ => match newline? r1 with
          | some r2 =>
            let (st', r3) := parseWs n (onWs st (pos n s) (pos n r2)) r2
            runOkO inp fuel st' r3
          | none => true
      else if b == 0x5B then
        hdrLineOkO inp st s &&
        (match ctableLine n st s with
         | some (st', r1) =>
           let (st'', r2) := parseWs n st' r1
           runOkO inp fuel st'' r2
         | none => true)
      else if b == 0x0A || b == 0x0D then
        match newline? s with
        | some r1 =>
          let (st', r2) := parseWs n (onWs st (pos n s) (pos n r1)) r1
          runOkO inp fuel st' r2
        | none => true
      else
        kvLineOkV inp st s &&
        (match ckeyvalLine n st s with
         | some (st', r1) =>
           let (st'', r2) := parseWs n st' r1
           runOkO inp fuel st'' r2
         | none => true)

/-- the source-side class: the checked run of `parse_document`, sections in any order -/
def ordRunV (s : Bytes) : Bool :=
  let n := s.length
  let s0 := Doc.stripBom s
  let (st0, s1) := parseWs n {} s0
  runOkO s (s1.length + 1) st0 s1

/-! ### bodies have no summary -/

mutual
theorem bodyOkU_ns (f : Bytes → Bytes) (inp : Bytes) : ∀ (items : Items), bodyOkU items = true →
    ∀ X, nsItems f inp items X = []
  | [], _, _ => rfl
  | (k, .value v) :: r, h, X => by
    simp only [bodyOkU, Bool.and_eq_true] at h
    rw [nsItems]; exact bodyOkU_ns f inp r h.2 X
  | (k, .table t) :: r, h, X => by
    simp only [bodyOkU, Bool.and_eq_true] at h
    rw [nsItems, bodyTblU_ns f inp t h.1, bodyOkU_ns f inp r h.2 X]; rfl
  | (k, .aot _ _) :: r, h, _ => by simp [bodyOkU] at h
theorem bodyTblU_ns (f : Bytes → Bytes) (inp : Bytes) : ∀ (t : CTbl), bodyTblU t = true →
    ∀ X a, nsTbl f inp t X a = []
  | .mk items imp dot p dec sp, h, X, a => by
    simp only [bodyTblU, Bool.and_eq_true] at h
    rw [nsTbl, bodyOkU_ns f inp items h.2 X]
    simp [hdN, CTbl.dotted, h.1]
end

/-! ### the invariant -/

/-- what the printer will write for the tables of the state -/
def stTextO (f : Bytes → Bytes) (inp : Bytes) (st : CState) : Bytes :=
  if st.currentPath.isEmpty then encodeBody f inp (valuesTbl st.current.items [])
  else rootTextO f inp st.root ++ entText f inp st.current st.currentPath st.currentIsArray

/-- after a header: the root has the path of the header, the current table is the section being
    read -/
def HdrPhO (inp : Bytes) (st : CState) : Prop :=
  ∃ pp key items q lead trail sp, st.currentPath = pp ++ [key] ∧
    st.current = .mk items false false (some q) (Decor.new lead trail) sp ∧ bodyOkU items = true ∧
    SpineO inp st.currentIsArray key st.root pp

/-- positions: the root has no position and no decor; every table of the root with a position has
    a prefix decor and lies before `st.position`, every table without position is invisible; after
    a header the current table is at `st.position` -/
def PInvO (f : Bytes → Bytes) (inp : Bytes) (st : CState) : Prop :=
  st.root.pos = none ∧ st.root.decor.pre = none ∧ st.root.decor.suf = none ∧
  (∀ x ∈ nsItems f inp st.root.items [], x.2.1 = true ∧ x.1 < st.position) ∧
  (st.currentPath ≠ [] → st.current.pos = some st.position)

def OInv (f : Bytes → Bytes) (inp base : Bytes) (st : CState) (s : Bytes) : Prop :=
  (RootPhU st ∨ HdrPhO inp st) ∧ TxtOf inp base st.trailing (stTextO f inp st) s ∧ PInvO f inp st

theorem stTextO_congr (f : Bytes → Bytes) (inp : Bytes) (st st' : CState) (h1 : st'.root = st.root)
    (h2 : st'.current = st.current) (h3 : st'.currentPath = st.currentPath)
    (h4 : st'.currentIsArray = st.currentIsArray) : stTextO f inp st' = stTextO f inp st := by
  unfold stTextO
  rw [h1, h2, h3, h4]

theorem oinv_onWs (f : Bytes → Bytes) (inp base : Bytes) (st : CState) (w s' : Bytes)
    (h : OInv f inp base st (w ++ s')) :
    OInv f inp base (onWs st (pos inp.length (w ++ s')) (pos inp.length s')) s' := by
  obtain ⟨e1, e2, e3, e4, e5⟩ := onWs_fields st (pos inp.length (w ++ s')) (pos inp.length s')
  obtain ⟨hsh, htx, hP⟩ := h
  refine ⟨?_, ?_, ?_⟩
  · unfold RootPhU HdrPhO; rw [e1, e2, e3, e4]; exact hsh
  · rw [stTextO_congr f inp st _ e1 e2 e3 e4]
    exact txtOf_onWs inp base st _ w s' htx
  · unfold PInvO; rw [e1, e2, e3, e5]; exact hP

theorem oinv_consume (f : Bytes → Bytes) (inp base : Bytes) (st : CState) (s s' : Bytes) (hs : s' <:+ s)
    (h : OInv f inp base st s) : OInv f inp base (onWs st (pos inp.length s) (pos inp.length s')) s' := by
  obtain ⟨w, hw⟩ := hs
  subst hw
  exact oinv_onWs f inp base st w s' h

theorem oinv_parseWs (f : Bytes → Bytes) (inp base : Bytes) (st : CState) (s : Bytes)
    (h : OInv f inp base st s) :
    OInv f inp base (parseWs inp.length st s).1 (parseWs inp.length st s).2 :=
  oinv_consume f inp base st s (dropWs s) (Cst03.dropWs_suffix s) h

/-! ### `finalize_table` -/

theorem mem_pairsN {s : NS} {y : Nat × Bytes} (h : y ∈ pairsN s) : ∃ x ∈ s, y = (x.1, x.2.2) := by
  unfold pairsN at h
  obtain ⟨x, hx, e⟩ := List.mem_map.1 h
  exact ⟨x, hx, e.symm⟩

theorem finalize_ord (f : Bytes → Bytes) (inp : Bytes) (st st1 : CState) (hfin : finalizeTable st = some st1)
    (hsh : RootPhU st ∨ HdrPhO inp st) (hP : PInvO f inp st) :
    rootTextO f inp st1.root = stTextO f inp st ∧ st1.root.dotted = false ∧
    st1.trailing = st.trailing ∧ st1.position = st.position ∧ st1.current = CTbl.empty ∧
    st1.root.pos = none ∧ st1.root.decor.pre = none ∧ st1.root.decor.suf = none ∧
    (∀ x ∈ nsItems f inp st1.root.items [], x.2.1 = true ∧ x.1 ≤ st.position) := by
  rcases finalize_cases st st1 hfin with ⟨hp, _, e⟩ | ⟨pp', key', root', hp, hd, e⟩
  · subst e
    rcases hsh with ⟨_, _, items, imp, sp, a3, a4⟩ | ⟨pp, key, _, _, _, _, _, b1, _⟩
    · simp only []
      rw [a3]
      refine ⟨?_, (by first | rfl | trivial), (by first | rfl | trivial), (by first | rfl | trivial), (by first | rfl | trivial), (by first | rfl | trivial), (by first | rfl | trivial), (by first | rfl | trivial), ?_⟩
      · simp only [stTextO, hp, List.isEmpty_nil, if_true, rootTextO, CTbl.items, a3]
        rw [bodyOkU_ns f inp items a4, entText_root]
        simp [pairsN, sortP, sortG, flatP, CTbl.items]
      · simp only [CTbl.items]
        rw [bodyOkU_ns f inp items a4]
        intro x hx; cases hx
    · rw [hp] at b1; exact absurd b1.symm (by simp)
  · subst e
    rcases hsh with ⟨_, a2, _⟩ | ⟨pp, key, items, q, lead, trail, sp, b1, b2, b3, b4⟩
    · rw [a2] at hp; exact absurd hp.symm (by simp)
    · rw [b1] at hp
      obtain ⟨e1, e2⟩ := snoc_inj hp
      subst e1; subst e2
      obtain ⟨p1, p2, p3, p4, p5⟩ := hP
      have hne : st.currentPath ≠ [] := by rw [b1]; simp
      have hq : q = st.position := by
        have := p5 hne
        rw [b2] at this
        simpa [CTbl.pos] using this
      subst hq
      have hcd : st.current.dotted = false := by rw [b2]; rfl
      have hcq : st.current.pos = some st.position := p5 hne
      have hbody : ∀ X, nsItems f inp st.current.items X = [] := by
        intro X; rw [b2]; exact bodyOkU_ns f inp items b3 X
      obtain ⟨⟨l1, l2, i1, i2⟩, i3⟩ := fin_spineO f inp st.currentIsArray key st.current st.position hcd hcq hbody
        pp st.root root' [] [] b4 .nil hd
      have hs := descend_setItems _ (finFn_setItems st.currentIsArray key st.current) pp _ _ _ hd
      have hpre : st.current.decor.pre.isSome = true := by rw [b2]; rfl
      simp only []
      refine ⟨?_, by rw [hs]; simpa using spineO_dotted b4, (by first | rfl | trivial), (by first | rfl | trivial), (by first | rfl | trivial), by rw [hs]; exact p1,
        by rw [hs]; exact p2, by rw [hs]; exact p3, ?_⟩
      · have hne' : st.currentPath.isEmpty = false := by rw [b1]; cases pp <;> rfl
        simp only [stTextO, hne', Bool.false_eq_true, if_false, rootTextO]
        rw [entText_tbl_congr f inp st.root root' [] false (by rw [hs]; simp) (by rw [hs]; simp) i3,
          i2, i1, pairsN_append, pairsN_append, pairsN_append]
        have hmax : ∀ y ∈ pairsN l1 ++ pairsN l2, y.1 < st.position := by
          intro y hy
          rw [← pairsN_append] at hy
          obtain ⟨x, hx, e⟩ := mem_pairsN hy
          rw [e]
          exact (p4 x (by rw [i1]; exact hx)).2
        have hsort := sortP_new_max (st.position, entText f inp st.current ([] ++ pp ++ [key]) st.currentIsArray)
          (pairsN l1) (pairsN l2) hmax
        have hone : pairsN [(st.position, st.current.decor.pre.isSome,
            entText f inp st.current ([] ++ pp ++ [key]) st.currentIsArray)]
            = [(st.position, entText f inp st.current ([] ++ pp ++ [key]) st.currentIsArray)] := rfl
        rw [hone, hsort, flatP_append, b1]
        simp [flatP, List.append_assoc]
      · intro x hx
        rw [i2] at hx
        simp only [List.mem_append, List.mem_singleton] at hx
        rcases hx with (hx | hx) | hx
        · have := p4 x (by rw [i1]; exact List.mem_append_left _ hx)
          exact ⟨this.1, Nat.le_of_lt this.2⟩
        · subst hx; exact ⟨hpre, Nat.le_refl _⟩
        · have := p4 x (by rw [i1]; exact List.mem_append_right _ hx)
          exact ⟨this.1, Nat.le_of_lt this.2⟩

/-! ### the header line -/

theorem hdrLineOkO_use (inp : Bytes) (st st1 : CState) (a : Bool) (r rest : Bytes) (ks pp : List CKey) (key : CKey)
    (hok : hdrLineOkO inp st ((if a then [0x5B, 0x5B] else [0x5B]) ++ r) = true)
    (hfin : finalizeTable st = some st1) (hk : ckeyPath inp.length r = .ok ks rest)
    (hsl : splitLast ks = some (pp, key)) : pathOkO inp a key st1.root pp = true := by
  unfold hdrLineOkO at hok
  rw [hfin] at hok
  simp only [Bool.and_eq_true] at hok
  cases a with
  | true =>
    have h1 := hok.1
    simp only [if_true, List.cons_append, List.nil_append, hdrChkO, hk, hsl] at h1
    exact h1
  | false =>
    have h2 := hok.2
    simp only [Bool.false_eq_true, if_false, List.cons_append, List.nil_append, hdrChkO, hk, hsl] at h2
    exact h2

/-- the root after `start_table` / `start_array_table` -/
theorem start_ord (f : Bytes → Bytes) (inp : Bytes) (a : Bool) (key : CKey) (pp : List CKey) (t t' : CTbl)
    (hok : pathOkO inp a key t pp = true)
    (hd : descend t pp false (if a then arrFn key else eraseFn key) = some t') :
    SpineO inp a key t' pp ∧ rootTextO f inp t' = rootTextO f inp t ∧ t'.pos = t.pos ∧ t'.decor = t.decor ∧
    nsItems f inp t'.items [] = nsItems f inp t.items [] ∧ (a = false → findTable key.key t pp = none) := by
  obtain ⟨i1, i2, i3, i4⟩ := start_spineO inp a key pp t t' hok hd
  have hs := descend_setItems _ (startFn_setItems a key) pp _ _ _ hd
  refine ⟨i1, ?_, by rw [hs]; simp [CTbl.setItems, CTbl.pos], by rw [hs]; simp, i3 f [], i4⟩
  unfold rootTextO
  rw [i3 f [], entText_tbl_congr f inp t t' [] false (by rw [hs]; simp) (by rw [hs]; simp) i2]

theorem header_step_ord (f : Bytes → Bytes) (inp base : Bytes) (hf : FixOn f inp)
    (st st' : CState) (s r3 : Bytes)
    (h : ctableLine inp.length st s = some (st', r3)) (hok : hdrLineOkO inp st s = true)
    (hI : OInv f inp base st s) : OInv f inp base st' r3 := by
  obtain ⟨isArr, r, ks, r2, hsr, hk, hlt, ho⟩ := table_frame _ _ _ _ _ h
  clear h
  obtain ⟨hsh, htx, hP⟩ := hI
  subst hsr
  cases isArr with
  | false =>
    simp only [Bool.false_eq_true, if_false] at ho hk
    unfold onStdHeader at ho
    split at ho
    · rename_i st1 hfin
      obtain ⟨f1, f2, f3, f4, f5, f6, f7, f8, f9⟩ := finalize_ord f inp st st1 hfin hsh hP
      obtain ⟨pp, key, root', hks, _, hroot, hst'⟩ := startTable_cases _ _ _ _ _ ho
      clear ho
      simp only [] at hroot
      have hsl : splitLast ks = some (pp, key) := by rw [hks]; exact vsplitLast_snoc pp key
      have hpo := hdrLineOkO_use inp st st1 false r _ ks pp key hok hfin hk hsl
      obtain ⟨i1, hroottext, i3, i4, i5, i6⟩ := start_ord f inp false key pp st1.root root' hpo hroot
      have hft := i6 rfl
      have hne : ks ≠ [] := by rw [hks]; simp
      have hpe : ks.isEmpty = false := by rw [hks]; cases pp <;> rfl
      subst hst'
      refine ⟨Or.inr ⟨pp, key, [], st1.position + 1, takeTrailing st1.trailing, rawBetween inp.length r2 (trailEnd r2),
        some (pos inp.length ([0x5B] ++ r), pos inp.length r2), hks, ?_, rfl, i1⟩, ?_, ?_⟩
      · show CTbl.mk ((findTable key.key st1.root pp).getD st1.current).items false false _ _ _ = _
        rw [hft, f5]; rfl
      · have hT : stTextO f inp
            { root := root', trailing := none, position := st1.position + 1,
              current := .mk ((findTable key.key st1.root pp).getD st1.current).items false false
                (some (st1.position + 1)) (Decor.new (takeTrailing st1.trailing) (rawBetween inp.length r2 (trailEnd r2)))
                (some (pos inp.length ([0x5B] ++ r), pos inp.length r2)),
              currentIsArray := false, currentPath := ks }
            = stTextO f inp st ++ hdrText f inp
                (Decor.new (takeTrailing st.trailing) (rawBetween inp.length r2 (trailEnd r2))) ks false := by
          have hit : (CTbl.empty).items = [] := rfl
          rw [stTextO]
          simp only [hpe, Bool.false_eq_true, if_false, hft, Option.getD_none, f5, hit]
          rw [hroottext, f1, entText_explicit, f3]
          simp [valuesTbl, encodeBody]
        simp only [] at hT ⊢
        rw [hT]
        exact header_txt_n f inp base hf st.trailing false _ r r2 r3 ks rfl hk hlt hne _ htx
      · refine ⟨by simp only []; rw [i3]; exact f6, by simp only []; rw [i4]; exact f7,
          by simp only []; rw [i4]; exact f8, ?_, fun _ => rfl⟩
        simp only []
        rw [i5]
        intro x hx
        have := f9 x hx
        exact ⟨this.1, by omega⟩
    · cases ho
  | true =>
    simp only [if_true] at ho hk
    unfold onArrayHeader at ho
    split at ho
    · rename_i st1 hfin
      obtain ⟨f1, f2, f3, f4, f5, f6, f7, f8, f9⟩ := finalize_ord f inp st st1 hfin hsh hP
      obtain ⟨pp, key, root', hks, hroot, hst'⟩ := startArrayTable_cases _ _ _ _ _ ho
      clear ho
      simp only [] at hroot
      have hsl : splitLast ks = some (pp, key) := by rw [hks]; exact vsplitLast_snoc pp key
      have hpo := hdrLineOkO_use inp st st1 true r _ ks pp key hok hfin hk hsl
      obtain ⟨i1, hroottext, i3, i4, i5, _⟩ := start_ord f inp true key pp st1.root root' hpo hroot
      have hne : ks ≠ [] := by rw [hks]; simp
      have hpe : ks.isEmpty = false := by rw [hks]; cases pp <;> rfl
      subst hst'
      refine ⟨Or.inr ⟨pp, key, [], st1.position + 1, takeTrailing st1.trailing, rawBetween inp.length r2 (trailEnd r2),
        some (pos inp.length ([0x5B, 0x5B] ++ r), pos inp.length r2), hks, ?_, rfl, i1⟩, ?_, ?_⟩
      · show CTbl.mk st1.current.items false false _ _ _ = _
        rw [f5]; rfl
      · have hT : stTextO f inp
            { root := root', trailing := none, position := st1.position + 1,
              current := .mk st1.current.items false false
                (some (st1.position + 1)) (Decor.new (takeTrailing st1.trailing) (rawBetween inp.length r2 (trailEnd r2)))
                (some (pos inp.length ([0x5B, 0x5B] ++ r), pos inp.length r2)),
              currentIsArray := true, currentPath := ks }
            = stTextO f inp st ++ hdrText f inp
                (Decor.new (takeTrailing st.trailing) (rawBetween inp.length r2 (trailEnd r2))) ks true := by
          have hit : (CTbl.empty).items = [] := rfl
          rw [stTextO]
          simp only [hpe, Bool.false_eq_true, if_false, f5, hit]
          rw [hroottext, f1, entText_explicit, f3]
          simp [valuesTbl, encodeBody]
        simp only [] at hT ⊢
        rw [hT]
        exact header_txt_n f inp base hf st.trailing true _ r r2 r3 ks rfl hk hlt hne _ htx
      · refine ⟨by simp only []; rw [i3]; exact f6, by simp only []; rw [i4]; exact f7,
          by simp only []; rw [i4]; exact f8, ?_, fun _ => rfl⟩
        simp only []
        rw [i5]
        intro x hx
        have := f9 x hx
        exact ⟨this.1, by omega⟩
    · cases ho

end TomlVerif.Lemmas.Tiling03More
