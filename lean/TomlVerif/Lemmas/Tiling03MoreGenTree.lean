import TomlVerif.Lemmas.Tiling03MoreGenDefs
/-! C03, same data, the join class — the tree side: the current table is `base ++ body`, `base` the
    taken-over sub-tables (`onlySubs`), `body` a `bodyOkN` body; a key/value line works on `body`
    (`descend_base`, `kv_descendG`). -/
namespace TomlVerif.Lemmas.Tiling03More.Gen
open TomlVerif TomlVerif.Spec TomlVerif.Model TomlVerif.Model.Strings TomlVerif.Model.Value
open TomlVerif.Model.Cst TomlVerif.Model.Encode TomlVerif.Lemmas.Suffix03 TomlVerif.Lemmas.Cst03
open TomlVerif.Lemmas.LastByte03 TomlVerif.Lemmas.Tiling03 TomlVerif.Lemmas.Tiling03Hdr
open TomlVerif.Lemmas.Tiling03Nest TomlVerif.Lemmas.Tiling03More TomlVerif.Lemmas.Tiling03More.VS
open TomlVerif.Lemmas.Tiling03More.Tko TomlVerif.Lemmas.Tiling03More.Nad

theorem onlySubs_no_dotted (k : Bytes) (sub : CTbl) : ∀ (base : Items), onlySubs base = true →
    clookup k base = some (.table sub) → sub.dotted = false
  | [], _, h => by simp [clookup] at h
  | (k0, it) :: r, hb, h => by
    simp only [onlySubs, List.all_cons, Bool.and_eq_true] at hb
    unfold clookup at h
    split at h
    · injection h with h
      subst h
      simpa using hb.1
    · exact onlySubs_no_dotted k sub r (by simpa [onlySubs] using hb.2) h

theorem onlySubs_no_value (k : Bytes) (v : CVal) : ∀ (base : Items), onlySubs base = true →
    clookup k base = some (.value v) → False
  | [], _, h => by simp [clookup] at h
  | (k0, it) :: r, hb, h => by
    simp only [onlySubs, List.all_cons, Bool.and_eq_true] at hb
    unfold clookup at h
    split at h
    · injection h with h
      subst h
      simp at hb
    · exact onlySubs_no_value k v r (by simpa [onlySubs] using hb.2) h

theorem creplace_append_none (k : Bytes) (x : CItem) (body : Items) : ∀ (base : Items), clookup k base = none →
    creplace k x (base ++ body) = base ++ creplace k x body
  | [], _ => rfl
  | (k0, v) :: r, h => by
    unfold clookup at h
    split at h
    · cases h
    · rename_i hk
      simp only [List.cons_append, creplace, hk]
      rw [creplace_append_none k x body r h]; rfl

theorem cset_append_none (k : CKey) (x : CItem) (base body : Items) (h : clookup k.key base = none) :
    cset k x (base ++ body) = base ++ cset k x body := by
  unfold cset
  rw [clookup_append_none _ _ _ h]
  cases clookup k.key body with
  | none => simp
  | some y => exact creplace_append_none _ _ _ _ h

/-- `descend` below a first segment that is not in `base` does not see `base` -/
theorem descend_base (t : CTbl) (base body : Items) (k : CKey) (ks : List CKey) (d : Bool) (g : CTbl → Option CTbl)
    (c : CTbl) (hi : t.items = base ++ body) (hb : clookup k.key base = none)
    (hd : descend t (k :: ks) d g = some c) :
    ∃ c', descend (t.setItems body) (k :: ks) d g = some c' ∧ c = t.setItems (base ++ c'.items) := by
  unfold descend at hd ⊢
  simp only [setItems_items] at hd ⊢
  rw [hi, clookup_append_none _ _ _ hb] at hd
  generalize (clookup k.key body).getD (.table (newImplicit d)) = entry at hd ⊢
  cases entry with
  | value v => cases hd
  | aot ts sp =>
    dsimp only at hd ⊢
    by_cases hc : (d && !ks.isEmpty) = true
    · simp only [hc, if_true] at hd; cases hd
    · simp only [hc, Bool.false_eq_true, if_false] at hd ⊢
      cases hm : modifyLast ts (fun last => descend last ks d g) with
      | none => rw [hm] at hd; cases hd
      | some ts' =>
        rw [hm] at hd
        dsimp only at hd ⊢
        injection hd with hd
        refine ⟨_, rfl, ?_⟩
        rw [← hd, cset_append_none _ _ _ _ hb, setItems_items]
  | table sub =>
    dsimp only at hd ⊢
    by_cases hc : (d && !sub.implicit) = true
    · simp only [hc, if_true] at hd; cases hd
    · simp only [hc, Bool.false_eq_true, if_false] at hd ⊢
      cases hm : descend sub ks d g with
      | none => rw [hm] at hd; cases hd
      | some sub' =>
        rw [hm] at hd
        dsimp only at hd ⊢
        injection hd with hd
        refine ⟨_, rfl, ?_⟩
        rw [← hd, cset_append_none _ _ _ _ hb, setItems_items]

theorem bodyOkN_U : ∀ (items : Items), bodyOkN items = true → bodyOkU items = true
  | [], _ => rfl
  | (k, .value v) :: r, h => by
    simp only [bodyOkN, Bool.and_eq_true] at h
    simp only [bodyOkU, Bool.and_eq_true]
    exact ⟨h.1.2, bodyOkN_U r h.2⟩
  | (k, .table (.mk its imp dot p dec sp)) :: r, h => by
    simp only [bodyOkN, bodyTblN, Bool.and_eq_true] at h
    simp only [bodyOkU, bodyTblU, Bool.and_eq_true]
    exact ⟨⟨h.1.2.1.1.1.1, bodyOkN_U its h.1.2.2⟩, bodyOkN_U r h.2⟩
  | (k, .aot _ _) :: r, h => by simp [bodyOkN] at h

theorem mixOk_append (inp : Bytes) (a b : Items) : MixOk inp (a ++ b) ↔ MixOk inp a ∧ MixOk inp b := by
  constructor
  · intro h
    exact ⟨⟨fun k v hm => h.1 k v (List.mem_append_left _ hm), fun k t hm => h.2 k t (List.mem_append_left _ hm)⟩,
      ⟨fun k v hm => h.1 k v (List.mem_append_right _ hm), fun k t hm => h.2 k t (List.mem_append_right _ hm)⟩⟩
  · rintro ⟨h1, h2⟩
    refine ⟨fun k v hm => ?_, fun k t hm hd => ?_⟩
    · rcases List.mem_append.1 hm with hm | hm
      · exact h1.1 k v hm
      · exact h2.1 k v hm
    · rcases List.mem_append.1 hm with hm | hm
      · exact h1.2 k t hm hd
      · exact h2.2 k t hm hd

theorem mixOk_body (inp : Bytes) : ∀ (items : Items), bodyOkU items = true → bodyG inp items → MixOk inp items
  | [], _, _ => mixOk_nil inp
  | (k, .value v) :: r, h, hg => by
    simp only [bodyOkU, Bool.and_eq_true] at h
    have hg' : bodyG inp r := by
      intro x hx; exact hg x (by simpa [dkItems] using hx)
    have := mixOk_body inp r h.2 hg'
    have e : (k, CItem.value v) :: r = [(k, .value v)] ++ r := rfl
    rw [e]
    refine (mixOk_append inp _ _).2 ⟨⟨fun k' v' hm => ?_, fun k' t hm _ => by simp at hm⟩, this⟩
    simp only [List.mem_singleton, Prod.mk.injEq, CItem.value.injEq] at hm
    rw [hm.2]; exact h.1
  | (k, .table t) :: r, h, hg => by
    simp only [bodyOkU, Bool.and_eq_true] at h
    rw [bodyTblU_eq] at h
    simp only [Bool.and_eq_true] at h
    have hg' : bodyG inp r := by
      intro x hx; exact hg x (by simp only [dkItems]; exact List.mem_cons_of_mem _ (List.mem_append_right _ hx))
    have hgt : bodyG inp t.items := by
      intro x hx; exact hg x (by simp only [dkItems, dkTbl_eq]; exact List.mem_cons_of_mem _ (List.mem_append_left _ hx))
    have hk : GKey inp k := hg k (by simp [dkItems])
    have := mixOk_body inp r h.2 hg'
    have e : (k, CItem.table t) :: r = [(k, .table t)] ++ r := rfl
    rw [e]
    refine (mixOk_append inp _ _).2 ⟨⟨fun k' v' hm => by simp at hm, fun k' t' hm _ => ?_⟩, this⟩
    simp only [List.mem_singleton, Prod.mk.injEq, CItem.table.injEq] at hm
    rw [hm.1, hm.2]; exact ⟨hk, h.1.2, hgt⟩
  | (k, .aot _ _) :: r, h, _ => by simp [bodyOkU] at h

theorem nodupK_disj : ∀ (base body : Items), nodupK (base ++ body) = true → ∀ x ∈ body, clookup x.1.key base = none
  | [], _, _, _, _ => rfl
  | (k0, v) :: r, body, h, x, hx => by
    simp only [List.cons_append, nodupK, Bool.and_eq_true] at h
    have h1 : clookup k0.key (r ++ body) = none := by simpa using h.1
    have hne := clookup_none_mem k0.key (r ++ body) h1 x (List.mem_append_right _ hx)
    have hne' : (k0.key == x.1.key) = false := by
      cases hb : k0.key == x.1.key with
      | false => rfl
      | true => exact absurd (by simpa using hb : k0.key = x.1.key).symm hne
    simp only [clookup, hne']
    exact nodupK_disj r body h.2 x hx

theorem clookup_append_none_left (k : Bytes) : ∀ (a b : Items), clookup k (a ++ b) = none → clookup k a = none
  | [], _, _ => rfl
  | (k0, v) :: r, b, h => by
    simp only [List.cons_append, clookup] at h ⊢
    split
    · rename_i hk; simp [hk] at h
    · rename_i hk; simp only [hk] at h; exact clookup_append_none_left k r b h

/-- a key/value line on a current table `base ++ body` -/
theorem kv_descendG (inp : Bytes) (g : CTbl → Option CTbl) (key' : CKey) (v : CVal)
    (hv : undotted v = true)
    (hg : ∀ p p', g p = some p' → p' = p.setItems (p.items ++ [(key', .value v)]) ∧ clookup key'.key p.items = none)
    (path : List CKey) (t c : CTbl) (base body : Items) (hi : t.items = base ++ body) (hbase : onlySubs base = true)
    (hok : dottedOkN t path = true) (hbn : bodyOkN body = true) (hbg : bodyG inp body)
    (hpath : ∀ k ∈ path, GKey inp k) (hd : descend t path true g = some c) :
    ∃ body', c = t.setItems (base ++ body') ∧ bodyOkN body' = true ∧ bodyG inp body' ∧
      ∃ X L1 L2, valuesTbl body [] = L1 ++ L2 ∧ valuesTbl body' [] = L1 ++ [(X ++ [key'], v)] ++ L2 ∧
        keysOf X = keysOf path ∧ ∀ k ∈ X, GKey inp k := by
  cases path with
  | nil =>
    rw [descend_nil] at hd
    obtain ⟨e, hnew⟩ := hg _ _ hd
    subst e
    rw [hi] at hnew
    have hnb : clookup key'.key body = none := by
      rw [← clookup_append_none _ _ _ (clookup_append_none_left _ _ _ hnew)]; exact hnew
    refine ⟨body ++ [(key', .value v)], by rw [hi, List.append_assoc], ?_, ?_, [], valuesTbl body [], [], by simp, ?_, rfl,
      fun k hk => by cases hk⟩
    · exact bodyOkN_snoc key' _ (by simpa [itemOkN] using hv) _ hbn hnb
    · exact (bodyG_snoc_value inp _ _ _).2 hbg
    · rw [valuesTbl_append, valuesTbl_value_atU key' v hv]; simp
  | cons k ks =>
    have hkb : clookup k.key base = none := by
      cases hl : clookup k.key base with
      | none => rfl
      | some y =>
        simp only [dottedOkN] at hok
        rw [hi, clookup_append_some _ _ _ _ hl] at hok
        cases y with
        | value _ => cases hok
        | aot _ _ => cases hok
        | table sub =>
          simp only [Bool.and_eq_true] at hok
          have := onlySubs_no_dotted _ _ _ hbase hl
          rw [this] at hok; cases hok.1
    obtain ⟨c', hd', ec⟩ := descend_base t base body k ks true g c hi hkb hd
    have hok' : dottedOkN (t.setItems body) (k :: ks) = true := by
      simp only [dottedOkN, setItems_items] at hok ⊢
      rw [hi, clookup_append_none _ _ _ hkb] at hok
      exact hok
    obtain ⟨k1, k2, k2n, k2g, X, L1, L2, k3a, k3, k4, k5⟩ := kv_descendN inp g key' v hv hg (k :: ks) (t.setItems body) c' []
      hok' (by rw [setItems_items]; exact bodyOkN_U _ hbn) (by rw [setItems_items]; exact hbn)
      (by rw [setItems_items]; exact hbg) hpath hd'
    rw [setItems_items] at k3a
    simp only [List.nil_append] at k3
    exact ⟨c'.items, ec, k2n, k2g, X, L1, L2, k3a, k3, k4, k5⟩

end TomlVerif.Lemmas.Tiling03More.Gen
