import TomlVerif.Lemmas.DeSpanned14
/-! Lemmas for Props/C14Spanned.lean, part 2: the induction over the wrapper grammar for `T14_spanned_ranges`. -/
namespace TomlVerif.Lemmas.DeSpanned14
open TomlVerif TomlVerif.Model TomlVerif.Model.DeTyped TomlVerif.Model.Cst TomlVerif.Model.DeLocated
open TomlVerif.Model.DeSpanned TomlVerif.Lemmas.DeLocated15 TomlVerif.Lemmas.Cst03

theorem liftV_ok {α} (r : R α) (a : α) (h : liftV r = .ok a) : r = .ok a := by
  cases r with
  | ok b => simpa [liftV] using h
  | error e => simp [liftV, vfail] at h

theorem unitOnlySp_ranges : ∀ (vs : SVariants) (s : Bytes) (d : SDec), unitOnlySp vs s = .ok d → ranges d = []
  | .nil, s, d, h => by simp [unitOnlySp, fail] at h
  | .cons n sh r, s, d, h => by
    unfold unitOnlySp at h
    split at h
    · cases sh with
      | unit => simp only [Except.ok.injEq] at h; subst h; rfl
      | newtype t => simp [fail] at h
    · exact unitOnlySp_ranges r s d h

theorem decodeStrSp_ranges (t : STy) (s : Bytes) (d : SDec) (h : decodeStrSp t s = .ok d) : ranges d = [] := by
  cases t with
  | plain t =>
    unfold decodeStrSp at h
    simp only [] at h
    cases hd : decodeStrDe t s with
    | ok x => rw [hd] at h; simp only [rmap, Except.ok.injEq] at h; subst h; rfl
    | error e => rw [hd] at h; simp [rmap] at h
  | enum vs => unfold decodeStrSp at h; simp only [] at h; exact unitOnlySp_ranges vs s d h
  | _ => simp [decodeStrSp, fail] at h

/-- what an entry of a derived struct contributes -/
def EntryGood (src : LSrc) (d : SDec) : Prop :=
  match src with
  | .item _ i => GoodAll i (ranges d)
  | .str _ => ranges d = []

theorem entryGood_to_good (it : CItem) (es : List (Bytes × LSrc)) (h : locMapEntries it = some es) (key : Bytes) (src : LSrc)
    (hm : (key, src) ∈ es) (d : SDec) (he : EntryGood src d) : GoodAll it (ranges d) := by
  cases src with
  | str s => simp only [EntryGood] at he; intro x hx; rw [he] at hx; cases hx
  | item k i =>
    obtain ⟨ces, hc, hmem⟩ := srcs_item_mem it es h key k i hm
    intro x hx
    exact Good.entry hc hmem (he x hx)

mutual
theorem ranges_ty (fl : TomlValue.Flavour) : ∀ (t : STy) (it : CItem) (d : SDec), decodeSp fl t it = .ok d →
    GoodAll it (ranges d)
  | .plain t, it, d, h => by
    unfold decodeSp at h
    obtain ⟨a, _, rfl⟩ := lmap_ok _ _ _ h
    intro s hs; simp [ranges] at hs
  | .spanned t, it, d, h => by
    unfold decodeSp at h
    cases hsp : itemSpan it with
    | none => rw [hsp] at h; cases hs : it.span <;> simp [atSpan, vfail, visitorErr] at h
    | some ab =>
      obtain ⟨a, b⟩ := ab
      rw [hsp] at h
      simp only [] at h
      obtain ⟨x, hx, rfl⟩ := lmap_ok _ _ _ h
      intro s hs
      simp only [ranges, List.mem_cons] at hs
      rcases hs with hs | hs
      · subst hs; exact ⟨it, .refl it, Or.inl hsp⟩
      · exact ranges_ty fl t it x hx s hs
  | .option t, it, d, h => by
    unfold decodeSp at h
    obtain ⟨x, hx, rfl⟩ := lmap_ok _ _ _ (atSpan_ok _ _ _ h)
    simpa [ranges] using ranges_ty fl t it x hx
  | .newtype t, it, d, h => by
    unfold decodeSp at h
    obtain ⟨x, hx, rfl⟩ := lmap_ok _ _ _ (atSpan_ok _ _ _ h)
    simpa [ranges] using ranges_ty fl t it x hx
  | .seq t, it, d, h => by
    unfold decodeSp at h
    have h := atSpan_ok _ _ _ h
    cases hl : citemElems it with
    | none => rw [hl] at h; simp [vfail] at h
    | some l =>
      rw [hl] at h
      simp only [] at h
      obtain ⟨r, hr, rfl⟩ := lmap_ok _ _ _ h
      intro s hs
      simp only [ranges] at hs
      obtain ⟨x, hx, hsx⟩ := mem_rangesL hs
      obtain ⟨a, ha, hf⟩ := mapL_ok _ l r hr x hx
      exact Good.elem hl ha (ranges_ty fl t a x (atSpan_ok _ _ _ hf) s hsx)
  | .map kt t, it, d, h => by
    unfold decodeSp at h
    have h := atSpan_ok _ _ _ h
    cases hl : locMapEntries it with
    | none => rw [hl] at h; simp [vfail] at h
    | some es =>
      rw [hl] at h
      simp only [] at h
      obtain ⟨r, hr, rfl⟩ := lmap_ok _ _ _ h
      intro s hs
      simp only [ranges] at hs
      obtain ⟨kd, hkd, hsx⟩ := mem_rangesM hs
      obtain ⟨kv, hkv, hf⟩ := mapL_ok _ es r hr kd hkd
      obtain ⟨key, src⟩ := kv
      cases src with
      | item k i =>
        simp only [] at hf
        obtain ⟨ces, hc, hmem⟩ := srcs_item_mem it es hl key k i hkv
        cases hk : atSpan (keySpan k) (decodeKey kt k.key (keySpan k)) with
        | error e => rw [hk] at hf; cases hf
        | ok key0 =>
          rw [hk] at hf
          simp only [] at hf
          obtain ⟨x, hx, rfl⟩ := lmap_ok _ _ _ hf
          rcases hsx with hsx | hsx
          · have := keyRanges_of kt k.key (keySpan k) key0 (atSpan_ok _ _ _ hk) s hsx
            exact ⟨it, .refl it, Or.inr ⟨ces, k, i, hc, hmem, this⟩⟩
          · exact Good.entry hc hmem (ranges_ty fl t i x (inEntry_ok _ _ _ _ hx) s hsx)
      | str s0 =>
        simp only [] at hf
        cases hk : decodeKeyStr kt key with
        | error e => rw [hk] at hf; cases hf
        | ok key0 =>
          rw [hk] at hf
          simp only [] at hf
          obtain ⟨x, hx, rfl⟩ := lmap_ok _ _ _ hf
          have hk0 : keyRanges key0 = [] := by
            cases kt <;> simp [decodeKeyStr, vfail] at hk
            subst hk; rfl
          have hx0 := decodeStrSp_ranges t s0 x (liftV_ok _ _ hx)
          simp only [hk0, hx0] at hsx
          rcases hsx with hsx | hsx <;> cases hsx
  | .struct fs, it, d, h => by
    unfold decodeSp at h
    have h := atSpan_ok _ _ _ h
    cases hl : locMapEntries it with
    | some es =>
      rw [hl] at h
      simp only [] at h
      cases hw : walkG visitorErr fs.hasName (fun k src => decodeSpEntry fl fs k src) [] es with
      | error e => rw [hw] at h; cases h
      | ok ds =>
        rw [hw] at h
        simp only [] at h
        obtain ⟨l, hfill, rfl⟩ := lmap_ok _ _ _ h
        intro s hs
        simp only [ranges] at hs
        obtain ⟨kd, hkd, hsx⟩ := mem_rangesN (fillSp_ranges fs ds l hfill s hs)
        obtain ⟨kv, hkv, hf⟩ := walkG_ok _ _ es [] ds hw kd hkd
        exact entryGood_to_good it es hl kv.1 kv.2 hkv kd.2 (ranges_entry fl fs kv.1 kv.2 kd.2 hf) s hsx
    | none =>
      rw [hl] at h
      simp only [] at h
      cases hle : citemElems it with
      | none => rw [hle] at h; simp [vfail] at h
      | some l =>
        rw [hle] at h
        simp only [] at h
        obtain ⟨r, hr, rfl⟩ := lmap_ok _ _ _ h
        intro s hs
        simp only [ranges] at hs
        obtain ⟨x, hx, hg⟩ := ranges_fseq fl fs l r hr s hs
        exact Good.elem hle hx hg
  | .enum vs, it, d, h => by
    unfold decodeSp at h
    have h := atSpan_ok _ _ _ h
    split at h
    · rw [unitOnlySp_ranges vs _ d (liftV_ok _ _ h)]
      intro s hs; cases hs
    · cases hc : citemEntries it with
      | none => rw [hc] at h; simp [failAt] at h
      | some es =>
        rw [hc] at h
        match es, hc, h with
        | [], _, h => simp [failAt] at h
        | [(k, p)], hc, h =>
          simp only [] at h
          intro s hs
          exact Good.entry hc (List.mem_cons_self ..) (ranges_variants fl vs k p d h s hs)
        | _ :: _ :: _, _, h => simp [failAt] at h
theorem ranges_entry (fl : TomlValue.Flavour) : ∀ (fs : SFields) (k : Bytes) (src : LSrc) (d : SDec),
    decodeSpEntry fl fs k src = .ok (some d) → EntryGood src d
  | .nil, k, src, d, h => by unfold decodeSpEntry at h; simp at h
  | .cons name t dflt r, k, src, d, h => by
    unfold decodeSpEntry at h
    split at h
    · obtain ⟨x, hx, hd⟩ := lmap_ok _ _ _ h
      simp only [Option.some.injEq] at hd
      subst hd
      cases src with
      | item key i => exact ranges_ty fl t i d (inEntry_ok _ _ _ _ hx)
      | str s => exact decodeStrSp_ranges t s d (liftV_ok _ _ hx)
    · exact ranges_entry fl r k src d h
theorem ranges_fseq (fl : TomlValue.Flavour) : ∀ (fs : SFields) (l : List CItem) (r : List (Bytes × SDec)),
    decodeSpFieldsSeq fl fs l = .ok r → ∀ s ∈ rangesN r, ∃ x ∈ l, Good x s
  | .nil, l, r, h, s, hs => by
    unfold decodeSpFieldsSeq at h; simp only [Except.ok.injEq] at h; subst h; simp [rangesN] at hs
  | .cons name t dflt rest, [], r, h, s, hs => by
    unfold decodeSpFieldsSeq at h
    split at h
    · obtain ⟨x, hx, rfl⟩ := lmap_ok _ _ _ h
      simp only [rangesN, ranges, List.nil_append] at hs
      obtain ⟨y, hy, _⟩ := ranges_fseq fl rest [] x hx s hs
      cases hy
    · simp [vfail] at h
  | .cons name t dflt rest, i :: l, r, h, s, hs => by
    unfold decodeSpFieldsSeq at h
    obtain ⟨a, tl, ha, htl, rfl⟩ := lcons_ok _ _ _ h
    obtain ⟨x, hx, rfl⟩ := lmap_ok _ _ _ ha
    simp only [rangesN, List.mem_append] at hs
    rcases hs with hs | hs
    · exact ⟨i, List.mem_cons_self .., ranges_ty fl t i x (atSpan_ok _ _ _ hx) s hs⟩
    · obtain ⟨y, hy, hg⟩ := ranges_fseq fl rest l tl htl s hs
      exact ⟨y, List.mem_cons_of_mem _ hy, hg⟩
theorem ranges_variants (fl : TomlValue.Flavour) : ∀ (vs : SVariants) (k : CKey) (p : CItem) (d : SDec),
    decodeSpVariants fl vs k p = .ok d → GoodAll p (ranges d)
  | .nil, k, p, d, h => by unfold decodeSpVariants at h; simp [failAt] at h
  | .cons name sh r, k, p, d, h => by
    unfold decodeSpVariants at h
    split at h
    · exact ranges_shape fl sh name p d h
    · exact ranges_variants fl r k p d h
theorem ranges_shape (fl : TomlValue.Flavour) : ∀ (sh : SShape) (n : Bytes) (p : CItem) (d : SDec),
    decodeSpShape fl sh n p = .ok d → GoodAll p (ranges d)
  | .unit, n, p, d, h => by
    unfold decodeSpShape at h
    obtain ⟨x, _, rfl⟩ := lmap_ok _ _ _ h
    intro s hs; simp [ranges] at hs
  | .newtype t, n, p, d, h => by
    unfold decodeSpShape at h
    obtain ⟨x, hx, rfl⟩ := lmap_ok _ _ _ h
    simpa [ranges] using ranges_ty fl t p x hx
end

end TomlVerif.Lemmas.DeSpanned14
