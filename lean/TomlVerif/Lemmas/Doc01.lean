import TomlVerif.Spec.AstDoc
import TomlVerif.Model.Doc
import TomlVerif.Props.C01Values
import TomlVerif.Lemmas.Fuel04
/-! Completeness of the line driver (`keyvalLine`, `tableLine`, `lines`, `parseDocument`) over the
    document syntax of `Spec/AstDoc.lean`. -/
namespace TomlVerif.Lemmas.Doc01
open TomlVerif TomlVerif.Spec TomlVerif.Model TomlVerif.Model.Strings TomlVerif.Model.Value
open TomlVerif.Model.State TomlVerif.Model.Doc
open TomlVerif.Spec.AstValue TomlVerif.Spec.AstDoc TomlVerif.Lemmas.Value01 TomlVerif.Lemmas.State09
open TomlVerif.Lemmas.Fuel04 (dropWs_len)

/-! ## key segments -/

theorem simpleKey_head (s k r : Bytes) (h : Key.simpleKey s = .ok k r) :
    ∃ b t, s = b :: t ∧ (b = 0x22 ∨ b = 0x27 ∨ isUnquotedChar b = true) := by
  cases s with
  | nil => simp [Key.simpleKey] at h
  | cons b t =>
    refine ⟨b, t, rfl, ?_⟩
    by_cases h1 : b = 0x22
    · exact Or.inl h1
    by_cases h2 : b = 0x27
    · exact Or.inr (Or.inl h2)
    refine Or.inr (Or.inr ?_)
    cases hu : isUnquotedChar b with
    | true => rfl
    | false =>
      simp [Key.simpleKey, h1, h2, Key.unquotedKey, Key.takeUnquoted, hu] at h

theorem keyhead_facts : ∀ b : UInt8, (b = 0x22 ∨ b = 0x27 ∨ isUnquotedChar b = true) →
    isWschar b = false ∧ b ≠ 0x23 ∧ b ≠ 0x5B ∧ b ≠ 0x0A ∧ b ≠ 0x0D ∧ b ≠ 0xEF := forall_byte (by decide +kernel)

/-- the token of a key segment starts with a quote or a bare-key character -/
theorem seg_tok_head (k : KeySeg) (hk : KeySegOK k) :
    ∃ b t, k.tok = b :: t ∧ (b = 0x22 ∨ b = 0x27 ∨ isUnquotedChar b = true) := by
  have h := hk.2.2 [] (by intro x r h; cases h)
  rw [List.append_nil] at h
  exact simpleKey_head _ _ _ h

theorem dropWs_seg (k : KeySeg) (hk : KeySegOK k) (Z : Bytes) :
    dropWs (k.render ++ Z) = k.tok ++ (k.post ++ Z) := by
  obtain ⟨b, t, ht, hb⟩ := seg_tok_head k hk
  simp only [KeySeg.render, List.append_assoc]
  rw [dropWs_allws _ _ hk.1, ht]
  exact dropWs_head _ _ (keyhead_facts b hb).1

/-- one component of a dotted key, followed by something that is not a blank or bare-key character -/
theorem seg_component (k : KeySeg) (hk : KeySegOK k) (Z : Bytes)
    (hZ : ∀ x r, Z = x :: r → isUnquotedChar x = false ∧ isWschar x = false) :
    Key.simpleKey (dropWs (k.render ++ Z)) = .ok k.name (k.post ++ Z) ∧ dropWs (k.post ++ Z) = Z := by
  have hf : KeyFollow (k.post ++ Z) := by
    intro x r he
    cases hp : k.post with
    | nil => rw [hp] at he; exact (hZ x r he).1
    | cons y t =>
      rw [hp] at he
      simp at he
      rw [← he.1]
      exact ws_not_unquoted y (hk.2.1 y (by simp [hp]))
  refine ⟨by rw [dropWs_seg k hk]; exact hk.2.2 _ hf, ?_⟩
  rw [dropWs_allws _ _ hk.2.1]
  cases Z with
  | nil => rfl
  | cons x r => exact dropWs_head _ _ (hZ x r rfl).2

theorem dot_facts : isUnquotedChar 0x2E = false ∧ isWschar 0x2E = false := by decide

/-- `key`: the components of a dotted key are collected in order -/
theorem keyPathAux_path : ∀ (more : List KeySeg) (k : KeySeg) (acc : List Bytes) (fuel : Nat) (Y : Bytes),
    KeySegOK k → (∀ x ∈ more, KeySegOK x) → more.length < fuel → PathFollow Y →
    keyPathAux fuel (k.render ++ (renderSep more ++ Y)) acc =
      .ok (acc ++ k.name :: more.map KeySeg.name) Y := by
  intro more
  induction more with
  | nil =>
    intro k acc fuel Y hk _ hf hY
    obtain ⟨f, rfl⟩ : ∃ f, fuel = f + 1 := ⟨fuel - 1, by omega⟩
    obtain ⟨e1, e2⟩ := seg_component k hk Y (fun x r h => ⟨(hY x r h).1, (hY x r h).2.1⟩)
    conv => lhs; unfold keyPathAux
    simp only [renderSep, List.nil_append, e1, e2]
    cases Y with
    | nil => simp
    | cons x r =>
      have := (hY x r rfl).2.2
      split
      · rename_i r2 heq
        injection heq with h1 _
        exact absurd h1 this
      · simp
  | cons k' ms ih =>
    intro k acc fuel Y hk hm hf hY
    obtain ⟨f, rfl⟩ : ∃ f, fuel = f + 1 := ⟨fuel - 1, by omega⟩
    simp only [List.length_cons] at hf
    obtain ⟨e1, e2⟩ := seg_component k hk (0x2E :: (k'.render ++ (renderSep ms ++ Y)))
      (by intro x r h; injection h with h _; subst h; exact dot_facts)
    have h := ih k' (acc ++ [k.name]) f Y (hm k' (by simp)) (fun x hx => hm x (by simp [hx])) (by omega) hY
    conv => lhs; unfold keyPathAux
    simp only [renderSep, List.cons_append, List.append_assoc, e1, e2, h]
    simp

theorem renderSep_length (more : List KeySeg) : more.length ≤ (renderSep more).length := by
  induction more with
  | nil => simp [renderSep]
  | cons k ms ih => simp [renderSep]; omega

/-- a dotted key followed by `=`, `]` or the end of the input -/
theorem keyPath_path (p : KeyPath) (Y : Bytes) (hp : p.OK) (hY : PathFollow Y) :
    keyPath (p.render ++ Y) = .ok p.names Y := by
  obtain ⟨h1, h2, h3⟩ := hp
  have hl := renderSep_length p.more
  have h := keyPathAux_path p.more p.first [] ((p.render ++ Y).length + 1) Y h1 h2
    (by simp [KeyPath.render]; omega) hY
  unfold keyPath
  simp only [KeyPath.render, List.append_assoc] at h ⊢
  rw [h]
  have : ¬ LIMIT ≤ (p.first.name :: p.more.map KeySeg.name).length := by simp; omega
  simp only [List.nil_append, this, if_false, KeyPath.names]

theorem pathFollow_eq (r : Bytes) : PathFollow (0x3D :: r) := by
  intro x t h; injection h with h _; subst h; decide

theorem pathFollow_close (r : Bytes) : PathFollow (0x5D :: r) := by
  intro x t h; injection h with h _; subst h; decide

theorem splitLast_names (p : KeyPath) : Value.splitLast p.names = some (p.path, p.last) :=
  splitLast_splitKeys _ _

theorem names_length (p : KeyPath) : p.names.length = p.more.length + 1 := by
  simp [KeyPath.names]

/-- the rendering of a dotted key starts with a blank, a quote or a bare-key character -/
theorem path_head (p : KeyPath) (hp : p.OK) (Z : Bytes) :
    ∃ b t, p.render ++ Z = b :: t ∧ (isWschar b = true ∨ b = 0x22 ∨ b = 0x27 ∨ isUnquotedChar b = true) := by
  obtain ⟨b, t, ht, hb⟩ := seg_tok_head p.first hp.1
  cases hpre : p.first.pre with
  | nil =>
    refine ⟨b, t ++ (p.first.post ++ (renderSep p.more ++ Z)), ?_, Or.inr hb⟩
    simp [KeyPath.render, KeySeg.render, hpre, ht]
  | cons x r =>
    refine ⟨x, r ++ (p.first.tok ++ (p.first.post ++ (renderSep p.more ++ Z))), ?_, Or.inl (hp.1.1 x (by simp [hpre]))⟩
    simp [KeyPath.render, KeySeg.render, hpre]

theorem pathhead_facts : ∀ b : UInt8, (isWschar b = true ∨ b = 0x22 ∨ b = 0x27 ∨ isUnquotedChar b = true) →
    b ≠ 0x5B ∧ b ≠ 0xEF := forall_byte (by decide +kernel)


/-! ## line ends -/

/-- what follows the last token of a line: a line end and the rest of the document, or nothing -/
inductive LineEnd : Bytes → Bytes → Prop where
  | nl (c : Bool) (more : Bytes) : LineEnd (nlBytes c ++ more) more
  | eof : LineEnd [] []

theorem lineTrailing_end (w2 : Bytes) (cm : Option Bytes) (T more : Bytes) (hw : AllWs w2) (hc : CommentOK cm)
    (hT : LineEnd T more) : lineTrailing (w2 ++ (commentBytes cm ++ T)) = .ok () more := by
  cases hT with
  | nl c more => exact lineTrailing_nl w2 cm c more hw hc
  | eof => rw [List.append_nil]; exact lineTrailing_eof w2 cm hw hc

theorem followS_end (w2 : Bytes) (cm : Option Bytes) (T more : Bytes) (hw : AllWs w2) (hT : LineEnd T more) :
    ValFollowS (w2 ++ (commentBytes cm ++ T)) := by
  apply followS_ws_append _ _ hw
  cases cm with
  | some body => exact followS_of_head 0x23 _ (by decide) (by decide)
  | none =>
    cases hT with
    | eof => exact ⟨trivial, by intro b r h; cases h⟩
    | nl c more =>
      cases c
      · exact followS_of_head 0x0A _ (by decide) (by decide)
      · exact followS_of_head 0x0D _ (by decide) (by decide)

/-! ## key/value lines -/

theorem keyvalLine_end (st : ParseState) (p : KeyPath) (w1 : Bytes) (v : AVal) (w2 : Bytes) (cm : Option Bytes)
    (T more : Bytes) (hwf : (Line.keyval p w1 v w2 cm).WF) (hT : LineEnd T more) :
    keyvalLine st ((Line.keyval p w1 v w2 cm).render ++ T) =
      (onKeyval st p.path p.last (sem v)).map fun st' => (st', more) := by
  obtain ⟨hp, hw1, hv, hd, hw2, hc⟩ := hwf
  have e0 : (Line.keyval p w1 v w2 cm).render ++ T =
      p.render ++ 0x3D :: (w1 ++ (render v ++ (w2 ++ (commentBytes cm ++ T)))) := by
    simp [Line.render]
  have e1 := keyPath_path p (0x3D :: (w1 ++ (render v ++ (w2 ++ (commentBytes cm ++ T))))) hp (pathFollow_eq _)
  have e2 : dropWs (w1 ++ (render v ++ (w2 ++ (commentBytes cm ++ T)))) = render v ++ (w2 ++ (commentBytes cm ++ T)) := by
    rw [dropWs_allws _ _ hw1]; exact dropWs_stop _ (noTrivia_render v hv _)
  have e3 := Props.C01Values.T01_array_complete v hv (p.names.length - 1)
    (3 * (w1 ++ (render v ++ (w2 ++ (commentBytes cm ++ T)))).length + 4) (w2 ++ (commentBytes cm ++ T))
    (by rw [names_length]; simpa using hd) (followS_end w2 cm T more hw2 hT) (by simp; omega)
  have e4 := lineTrailing_end w2 cm T more hw2 hc hT
  have e5 : ¬ LIMIT ≤ p.names.length - 1 := by rw [names_length]; have := hp.2.2; omega
  rw [e0]
  unfold keyvalLine
  simp only [e1, e5, if_false, e2, e3, e4, splitLast_names]

/-! ## headers -/

theorem tableLine_std (st : ParseState) (r r2 r3 : Bytes) (ks : List Bytes) (hne : ∀ t, r ≠ 0x5B :: t)
    (hk : keyPath r = .ok ks (0x5D :: r2)) (hl : lineTrailing r2 = .ok () r3) :
    tableLine st (0x5B :: r) = (onStdHeader st ks).map fun st' => (st', r3) := by
  have hr : r.isEmpty = false := by
    cases r with
    | nil => simp [keyPath, keyPathAux, dropWs, Key.simpleKey] at hk
    | cons b t => rfl
  unfold tableLine
  split
  · rename_i t heq
    injection heq with _ heq
    exact absurd heq (hne _)
  · rename_i t heq
    injection heq with _ heq
    subst heq
    simp only [hr, hk, hl]
    simp
  · rename_i h1 h2
    exact absurd rfl (h2 r)

theorem tableLine_aot (st : ParseState) (r r2 r3 : Bytes) (ks : List Bytes)
    (hk : keyPath r = .ok ks (0x5D :: 0x5D :: r2)) (hl : lineTrailing r2 = .ok () r3) :
    tableLine st (0x5B :: 0x5B :: r) = (onArrayHeader st ks).map fun st' => (st', r3) := by
  unfold tableLine
  simp only [hk, hl]

theorem path_not_open (p : KeyPath) (hp : p.OK) (Z : Bytes) : ∀ t, p.render ++ Z ≠ 0x5B :: t := by
  intro t h
  obtain ⟨b, t', he, hb⟩ := path_head p hp Z
  rw [he] at h
  injection h with h _
  exact (pathhead_facts b hb).1 h

theorem stdLine_end (st : ParseState) (p : KeyPath) (w2 : Bytes) (cm : Option Bytes) (T more : Bytes)
    (hp : p.OK) (hw2 : AllWs w2) (hc : CommentOK cm) (hT : LineEnd T more) :
    tableLine st (0x5B :: (p.render ++ 0x5D :: (w2 ++ (commentBytes cm ++ T)))) =
      (onStdHeader st p.names).map fun st' => (st', more) :=
  tableLine_std st _ _ _ _ (path_not_open p hp _) (keyPath_path p _ hp (pathFollow_close _))
    (lineTrailing_end w2 cm T more hw2 hc hT)

theorem aotLine_end (st : ParseState) (p : KeyPath) (w2 : Bytes) (cm : Option Bytes) (T more : Bytes)
    (hp : p.OK) (hw2 : AllWs w2) (hc : CommentOK cm) (hT : LineEnd T more) :
    tableLine st (0x5B :: 0x5B :: (p.render ++ 0x5D :: 0x5D :: (w2 ++ (commentBytes cm ++ T)))) =
      (onArrayHeader st p.names).map fun st' => (st', more) :=
  tableLine_aot st _ _ _ _ (keyPath_path p _ hp (pathFollow_close _)) (lineTrailing_end w2 cm T more hw2 hc hT)


/-! ## the statement loop -/

/-- the effect of one line on the state: the step of its statement, if it has one -/
def stepLine (st : ParseState) (l : Line) : Option ParseState :=
  match l.stmt with
  | none => some st
  | some s => step st s

theorem lines_nil (f : Nat) (st : ParseState) : lines (f + 1) st [] = some st := by
  simp [lines]

theorem lines_keyval (f : Nat) (st : ParseState) (b : UInt8) (t : Bytes) (h1 : b ≠ 0x23) (h2 : b ≠ 0x5B)
    (h3 : b ≠ 0x0A) (h4 : b ≠ 0x0D) :
    lines (f + 1) st (b :: t) = match keyvalLine st (b :: t) with
      | some (st', r1) => lines f st' (dropWs r1)
      | none => none := by
  conv => lhs; unfold lines
  simp [h1, h2, h3, h4]
  cases keyvalLine st (b :: t) <;> rfl

theorem lines_table (f : Nat) (st : ParseState) (t : Bytes) :
    lines (f + 1) st (0x5B :: t) = match tableLine st (0x5B :: t) with
      | some (st', r1) => lines f st' (dropWs r1)
      | none => none := by
  conv => lhs; unfold lines
  simp
  cases tableLine st (0x5B :: t) <;> rfl

theorem lines_blank_nl (f : Nat) (st : ParseState) (ws : Bytes) (c : Bool) (more : Bytes) (hw : AllWs ws) :
    lines (f + 1) st (dropWs (ws ++ (nlBytes c ++ more))) = lines f st (dropWs more) := by
  rw [dropWs_allws _ _ hw]
  cases c <;> simp [nlBytes, lines, dropWs, isWschar, newline?]

theorem lines_comment_nl (f : Nat) (st : ParseState) (ws body : Bytes) (c : Bool) (more : Bytes) (hw : AllWs ws)
    (hb : ∀ b ∈ body, isNonEol b = true) :
    lines (f + 1) st (dropWs (ws ++ (0x23 :: (body ++ (nlBytes c ++ more))))) = lines f st (dropWs more) := by
  rw [dropWs_allws _ _ hw, dropWs_head _ _ (by decide)]
  conv => lhs; unfold lines
  simp only [dropComment_body body c more hb, newline_nl]
  cases c <;> simp [nlBytes]

theorem lines_comment_eof (f : Nat) (st : ParseState) (ws body : Bytes) (hw : AllWs ws)
    (hb : ∀ b ∈ body, isNonEol b = true) :
    lines (f + 1) st (dropWs (ws ++ (0x23 :: body))) = some st := by
  rw [dropWs_allws _ _ hw, dropWs_head _ _ (by decide)]
  conv => lhs; unfold lines
  simp only [dropComment_all body hb]
  simp

/-- the same dotted key without the blanks before its first component -/
def stripPre (p : KeyPath) : KeyPath := ⟨⟨[], p.first.tok, p.first.name, p.first.post⟩, p.more⟩

theorem stripPre_ok (p : KeyPath) (hp : p.OK) : (stripPre p).OK :=
  ⟨⟨(by intro b hb; cases hb), hp.1.2.1, hp.1.2.2⟩, hp.2.1, hp.2.2⟩

theorem dropWs_path (p : KeyPath) (hp : p.OK) (Z : Bytes) : dropWs (p.render ++ Z) = (stripPre p).render ++ Z := by
  have := dropWs_seg p.first hp.1 (renderSep p.more ++ Z)
  simp only [KeyPath.render, List.append_assoc, stripPre, KeySeg.render, List.nil_append] at this ⊢
  exact this

theorem lines_keyval_line (f : Nat) (st : ParseState) (p : KeyPath) (w1 : Bytes) (v : AVal) (w2 : Bytes)
    (cm : Option Bytes) (T more : Bytes) (hwf : (Line.keyval p w1 v w2 cm).WF) (hT : LineEnd T more) :
    lines (f + 1) st (dropWs ((Line.keyval p w1 v w2 cm).render ++ T)) =
      (onKeyval st p.path p.last (sem v)).bind fun st' => lines f st' (dropWs more) := by
  obtain ⟨hp, hrest⟩ := hwf
  have hwf' : (Line.keyval (stripPre p) w1 v w2 cm).WF := ⟨stripPre_ok p hp, hrest⟩
  have e0 : dropWs ((Line.keyval p w1 v w2 cm).render ++ T) = (Line.keyval (stripPre p) w1 v w2 cm).render ++ T := by
    simp only [Line.render, List.append_assoc]
    exact dropWs_path p hp _
  have e1 := keyvalLine_end st (stripPre p) w1 v w2 cm T more hwf' hT
  obtain ⟨b, t, ht, hb⟩ := seg_tok_head p.first hp.1
  have hf := keyhead_facts b hb
  have e2 : ∃ t', (Line.keyval (stripPre p) w1 v w2 cm).render ++ T = b :: t' := by
    simp only [Line.render, KeyPath.render, KeySeg.render, stripPre, ht, List.nil_append, List.cons_append]
    exact ⟨_, rfl⟩
  obtain ⟨t', e2⟩ := e2
  rw [e0]
  rw [e2] at e1 ⊢
  rw [lines_keyval f st b t' hf.2.1 hf.2.2.1 hf.2.2.2.1 hf.2.2.2.2.1, e1]
  have : (stripPre p).path = p.path ∧ (stripPre p).last = p.last := ⟨rfl, rfl⟩
  rw [this.1, this.2]
  cases onKeyval st p.path p.last (sem v) <;> rfl

theorem lines_std_line (f : Nat) (st : ParseState) (ws : Bytes) (p : KeyPath) (w2 : Bytes)
    (cm : Option Bytes) (T more : Bytes) (hwf : (Line.std ws p w2 cm).WF) (hT : LineEnd T more) :
    lines (f + 1) st (dropWs ((Line.std ws p w2 cm).render ++ T)) =
      (onStdHeader st p.names).bind fun st' => lines f st' (dropWs more) := by
  obtain ⟨hws, hp, hw2, hc⟩ := hwf
  have e0 : dropWs ((Line.std ws p w2 cm).render ++ T) = 0x5B :: (p.render ++ 0x5D :: (w2 ++ (commentBytes cm ++ T))) := by
    simp only [Line.render, List.append_assoc, List.cons_append]
    rw [dropWs_allws _ _ hws]
    exact dropWs_head _ _ (by decide)
  rw [e0, lines_table, stdLine_end st p w2 cm T more hp hw2 hc hT]
  cases onStdHeader st p.names <;> rfl

theorem lines_aot_line (f : Nat) (st : ParseState) (ws : Bytes) (p : KeyPath) (w2 : Bytes)
    (cm : Option Bytes) (T more : Bytes) (hwf : (Line.aot ws p w2 cm).WF) (hT : LineEnd T more) :
    lines (f + 1) st (dropWs ((Line.aot ws p w2 cm).render ++ T)) =
      (onArrayHeader st p.names).bind fun st' => lines f st' (dropWs more) := by
  obtain ⟨hws, hp, hw2, hc⟩ := hwf
  have e0 : dropWs ((Line.aot ws p w2 cm).render ++ T) =
      0x5B :: 0x5B :: (p.render ++ 0x5D :: 0x5D :: (w2 ++ (commentBytes cm ++ T))) := by
    simp only [Line.render, List.append_assoc, List.cons_append]
    rw [dropWs_allws _ _ hws]
    exact dropWs_head _ _ (by decide)
  rw [e0, lines_table, aotLine_end st p w2 cm T more hp hw2 hc hT]
  cases onArrayHeader st p.names <;> rfl

/-- a line followed by a line end: the loop performs the step of the line and goes on after the line end -/
theorem lines_line_nl (f : Nat) (st : ParseState) (l : Line) (c : Bool) (more : Bytes) (hwf : l.WF) :
    lines (f + 1) st (dropWs (l.render ++ (nlBytes c ++ more))) =
      (stepLine st l).bind fun st' => lines f st' (dropWs more) := by
  cases l with
  | blank ws => exact lines_blank_nl f st ws c more hwf
  | comment ws body =>
    have := lines_comment_nl f st ws body c more hwf.1 hwf.2
    simpa [Line.render, stepLine, Line.stmt] using this
  | keyval p w1 v w2 cm => exact lines_keyval_line f st p w1 v w2 cm _ more hwf (.nl c more)
  | std ws p w2 cm => exact lines_std_line f st ws p w2 cm _ more hwf (.nl c more)
  | aot ws p w2 cm => exact lines_aot_line f st ws p w2 cm _ more hwf (.nl c more)

/-- blanks are dropped only from the front -/
theorem dropWs_append_len (A B : Bytes) (hB : ∀ b t, B = b :: t → isWschar b = false) :
    B.length ≤ (dropWs (A ++ B)).length := by
  induction A with
  | nil =>
    cases B with
    | nil => simp
    | cons b t => rw [List.nil_append, dropWs_head _ _ (hB b t rfl)]; omega
  | cons a A ih =>
    simp only [List.cons_append, dropWs]
    split
    · exact ih
    · simp; omega

theorem nl_head (c : Bool) (X : Bytes) : ∀ b t, nlBytes c ++ X = b :: t → isWschar b = false := by
  intro b t h
  cases c <;> simp [nlBytes] at h <;> rw [← h.1] <;> decide

/-- a last line without line end -/
theorem lines_line_eof (f : Nat) (st : ParseState) (l : Line) (hwf : l.WF) (hf : (dropWs l.render).length ≤ f) :
    lines (f + 1) st (dropWs l.render) = stepLine st l := by
  cases l with
  | blank ws =>
    have := dropWs_allws ws [] hwf
    simp only [List.append_nil] at this
    simp only [Line.render, this, dropWs, lines_nil]
    rfl
  | comment ws body => exact lines_comment_eof f st ws body hwf.1 hwf.2
  | keyval p w1 v w2 cm =>
    have h := lines_keyval_line f st p w1 v w2 cm [] [] hwf .eof
    rw [List.append_nil] at h
    rw [h]
    obtain ⟨g, rfl⟩ : ∃ g, f = g + 1 := ⟨f - 1, by
      simp only [Line.render] at hf
      rw [dropWs_path p hwf.1] at hf
      simp at hf; omega⟩
    simp only [dropWs, lines_nil, stepLine, Line.stmt, step]
    cases onKeyval st p.path p.last (sem v) <;> rfl
  | std ws p w2 cm =>
    have h := lines_std_line f st ws p w2 cm [] [] hwf .eof
    rw [List.append_nil] at h
    rw [h]
    obtain ⟨g, rfl⟩ : ∃ g, f = g + 1 := ⟨f - 1, by
      simp only [Line.render] at hf
      rw [dropWs_allws _ _ hwf.1, dropWs_head _ _ (by decide)] at hf
      simp at hf; omega⟩
    simp only [dropWs, lines_nil, stepLine, Line.stmt, step]
    cases onStdHeader st p.names <;> rfl
  | aot ws p w2 cm =>
    have h := lines_aot_line f st ws p w2 cm [] [] hwf .eof
    rw [List.append_nil] at h
    rw [h]
    obtain ⟨g, rfl⟩ : ∃ g, f = g + 1 := ⟨f - 1, by
      simp only [Line.render] at hf
      rw [dropWs_allws _ _ hwf.1, dropWs_head _ _ (by decide)] at hf
      simp at hf; omega⟩
    simp only [dropWs, lines_nil, stepLine, Line.stmt, step]
    cases onArrayHeader st p.names <;> rfl

theorem nlBytes_pos (c : Bool) : 0 < (nlBytes c).length := by cases c <;> simp [nlBytes]

/-- the loop over a rendered document follows `run` over its statements -/
theorem lines_run : ∀ (ls : List (Line × Bool)) (last : Option Line) (st : ParseState) (fuel : Nat),
    (∀ p ∈ ls, p.1.WF) → (∀ l, last = some l → l.WF) →
    (dropWs (renderLines ls ++ renderLast last)).length < fuel →
    lines fuel st (dropWs (renderLines ls ++ renderLast last)) = run st (stmtsLines ls ++ stmtsLast last) := by
  intro ls
  induction ls with
  | nil =>
    intro last st fuel _ hl hf
    obtain ⟨f, rfl⟩ : ∃ f, fuel = f + 1 := ⟨fuel - 1, by omega⟩
    cases last with
    | none => simp [renderLines, renderLast, stmtsLines, stmtsLast, dropWs, lines_nil, run]
    | some l =>
      simp only [renderLines, renderLast, List.nil_append, stmtsLines, stmtsLast] at hf ⊢
      rw [lines_line_eof f st l (hl l rfl) (by omega)]
      unfold stepLine
      cases l.stmt with
      | none => rfl
      | some s => simp only [run]; cases step st s <;> rfl
  | cons lc ls ih =>
    intro last st fuel hls hl hf
    obtain ⟨l, c⟩ := lc
    obtain ⟨f, rfl⟩ : ∃ f, fuel = f + 1 := ⟨fuel - 1, by omega⟩
    have hpos := nlBytes_pos c
    simp only [renderLines, List.append_assoc] at hf ⊢
    have h1 := dropWs_append_len l.render (nlBytes c ++ (renderLines ls ++ renderLast last)) (nl_head c _)
    have h2 := dropWs_len (renderLines ls ++ renderLast last)
    simp only [List.length_append] at h1 h2
    rw [lines_line_nl f st l c _ (hls (l, c) (by simp))]
    have ih' := fun st' => ih last st' f (fun p hp => hls p (by simp [hp])) hl (by omega)
    unfold stepLine
    simp only [stmtsLines]
    cases hs : l.stmt with
    | none => simp only [Option.bind]; exact ih' st
    | some s =>
      simp only [List.cons_append, run]
      cases step st s with
      | none => rfl
      | some st' => simp only [Option.bind]; exact ih' st'

/-! ## the document -/

theorem ws_not_ef : ∀ b : UInt8, isWschar b = true → b ≠ 0xEF := forall_byte (by decide +kernel)

theorem ws_then (ws : Bytes) (hw : AllWs ws) (c : UInt8) (hc : c ≠ 0xEF) (X : Bytes) :
    ∀ b t, ws ++ c :: X = b :: t → b ≠ 0xEF := by
  intro b t h
  cases ws with
  | nil => injection h with h _; rw [← h]; exact hc
  | cons x r => injection h with h _; rw [← h]; exact ws_not_ef x (hw x (by simp))

/-- no line starts with the first byte of a byte-order mark -/
theorem line_head (l : Line) (hwf : l.WF) (Z : Bytes) (hZ : ∀ b t, Z = b :: t → b ≠ 0xEF) :
    ∀ b t, l.render ++ Z = b :: t → b ≠ 0xEF := by
  intro b t h
  cases l with
  | blank ws =>
    cases ws with
    | nil => exact hZ b t h
    | cons x r => injection h with h _; rw [← h]; exact ws_not_ef x (hwf x (by simp))
  | comment ws body =>
    simp only [Line.render, List.append_assoc, List.cons_append] at h
    exact ws_then ws hwf.1 0x23 (by decide) _ b t h
  | keyval p w1 v w2 cm =>
    simp only [Line.render, List.append_assoc] at h
    obtain ⟨b', t', he, hb⟩ := path_head p hwf.1 (0x3D :: (w1 ++ (render v ++ (w2 ++ commentBytes cm))) ++ Z)
    rw [he] at h
    injection h with h _
    rw [← h]
    exact (pathhead_facts b' hb).2
  | std ws p w2 cm =>
    simp only [Line.render, List.append_assoc, List.cons_append] at h
    exact ws_then ws hwf.1 0x5B (by decide) _ b t h
  | aot ws p w2 cm =>
    simp only [Line.render, List.append_assoc, List.cons_append] at h
    exact ws_then ws hwf.1 0x5B (by decide) _ b t h

theorem body_head (ls : List (Line × Bool)) (last : Option Line) (hls : ∀ p ∈ ls, p.1.WF)
    (hl : ∀ l, last = some l → l.WF) : ∀ b t, renderLines ls ++ renderLast last = b :: t → b ≠ 0xEF := by
  cases ls with
  | nil =>
    cases last with
    | none => intro b t h; cases h
    | some l =>
      intro b t h
      have := line_head l (hl l rfl) [] (by intro b t h; cases h) b t
      rw [List.append_nil] at this
      exact this h
  | cons lc ls =>
    obtain ⟨l, c⟩ := lc
    intro b t h
    simp only [renderLines, List.append_assoc] at h
    refine line_head l (hls (l, c) (by simp)) _ ?_ b t h
    intro b t h
    cases c <;> simp [nlBytes] at h <;> rw [← h.1] <;> decide

theorem stripBom_noop (s : Bytes) (h : ∀ b t, s = b :: t → b ≠ 0xEF) : stripBom s = s := by
  unfold stripBom
  split
  · exact absurd rfl (h _ _ rfl)
  · rfl

theorem stripBom_render (d : Doc) (hwf : d.WF) : stripBom d.render = renderLines d.lines ++ renderLast d.last := by
  unfold Doc.render bomBytes
  cases d.bom with
  | true =>
    simp only [if_true, List.cons_append, List.nil_append]
    rfl
  | false =>
    simp only [Bool.false_eq_true, if_false, List.nil_append]
    exact stripBom_noop _ (body_head d.lines d.last hwf.1 hwf.2)

/-- a rendered document is parsed as the run of its statements from the initial state -/
theorem parseDocument_render (d : Doc) (hwf : d.WF) :
    parseDocument d.render = (run {} d.stmts).bind intoDocument := by
  unfold parseDocument
  simp only [stripBom_render d hwf]
  rw [lines_run d.lines d.last {} _ hwf.1 hwf.2 (by omega)]
  unfold Doc.stmts
  cases run {} (stmtsLines d.lines ++ stmtsLast d.last) <;> rfl

end TomlVerif.Lemmas.Doc01
