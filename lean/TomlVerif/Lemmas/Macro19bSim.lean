import TomlVerif.Lemmas.Macro19bRef
/-! C19: characterisation of `Sim` (equality of `toml::Value`s with tables compared as maps): it is an
    equivalence relation, it is equality on scalars, element-wise on arrays, lookup-wise on tables; and the
    operations the macro uses on tables and arrays (`aset`, append of an element) respect it. -/
namespace TomlVerif.Lemmas.Macro19b
open TomlVerif TomlVerif.Model TomlVerif.Model.Macro TomlVerif.Model.State TomlVerif.Lemmas.State09

/-! ## `OptRel`, `ListRel` -/

theorem optRel_refl {r : MVal → MVal → Prop} (h : ∀ a, r a a) (x : Option MVal) : OptRel r x x := by
  cases x with
  | none => trivial
  | some a => exact h a

theorem optRel_symm {r : MVal → MVal → Prop} (h : ∀ a b, r a b → r b a) (x y : Option MVal)
    (hxy : OptRel r x y) : OptRel r y x := by
  cases x <;> cases y <;> simp only [OptRel] at hxy ⊢
  exact h _ _ hxy

theorem optRel_trans {r : MVal → MVal → Prop} (h : ∀ a b c, r a b → r b c → r a c) (x y z : Option MVal)
    (hxy : OptRel r x y) (hyz : OptRel r y z) : OptRel r x z := by
  cases x <;> cases y <;> cases z <;> simp only [OptRel] at hxy hyz ⊢
  exact h _ _ _ hxy hyz

theorem optRel_mono {r s : MVal → MVal → Prop} (h : ∀ a b, r a b → s a b) (x y : Option MVal)
    (hxy : OptRel r x y) : OptRel s x y := by
  cases x <;> cases y <;> simp only [OptRel] at hxy ⊢
  exact h _ _ hxy

theorem listRel_refl {r : MVal → MVal → Prop} (h : ∀ a, r a a) (xs : List MVal) : ListRel r xs xs := by
  induction xs with
  | nil => trivial
  | cons a x ih => exact ⟨h a, ih⟩

theorem listRel_symm {r : MVal → MVal → Prop} (h : ∀ a b, r a b → r b a) (xs ys : List MVal)
    (hxy : ListRel r xs ys) : ListRel r ys xs := by
  induction xs generalizing ys with
  | nil => cases ys with
    | nil => trivial
    | cons b y => simp only [ListRel] at hxy
  | cons a x ih => cases ys with
    | nil => simp only [ListRel] at hxy
    | cons b y => exact ⟨h _ _ hxy.1, ih y hxy.2⟩

theorem listRel_trans {r : MVal → MVal → Prop} (h : ∀ a b c, r a b → r b c → r a c) (xs ys zs : List MVal)
    (hxy : ListRel r xs ys) (hyz : ListRel r ys zs) : ListRel r xs zs := by
  induction xs generalizing ys zs with
  | nil => cases ys with
    | nil => exact hyz
    | cons b y => simp only [ListRel] at hxy
  | cons a x ih => cases ys with
    | nil => simp only [ListRel] at hxy
    | cons b y => cases zs with
      | nil => simp only [ListRel] at hyz
      | cons c z => exact ⟨h _ _ _ hxy.1 hyz.1, ih y z hxy.2 hyz.2⟩

theorem listRel_mono {r s : MVal → MVal → Prop} (h : ∀ a b, r a b → s a b) (xs ys : List MVal)
    (hxy : ListRel r xs ys) : ListRel s xs ys := by
  induction xs generalizing ys with
  | nil => cases ys with
    | nil => trivial
    | cons b y => simp only [ListRel] at hxy
  | cons a x ih => cases ys with
    | nil => simp only [ListRel] at hxy
    | cons b y => exact ⟨h _ _ hxy.1, ih y hxy.2⟩

theorem listRel_length {r : MVal → MVal → Prop} (xs ys : List MVal) (h : ListRel r xs ys) :
    xs.length = ys.length := by
  induction xs generalizing ys with
  | nil => cases ys with
    | nil => rfl
    | cons b y => simp only [ListRel] at h
  | cons a x ih => cases ys with
    | nil => simp only [ListRel] at h
    | cons b y => simp [ih y h.2]

theorem listRel_append {r : MVal → MVal → Prop} (xs ys xs' ys' : List MVal)
    (h : ListRel r xs ys) (h' : ListRel r xs' ys') : ListRel r (xs ++ xs') (ys ++ ys') := by
  induction xs generalizing ys with
  | nil => cases ys with
    | nil => exact h'
    | cons b y => simp only [ListRel] at h
  | cons a x ih => cases ys with
    | nil => simp only [ListRel] at h
    | cons b y => exact ⟨h.1, ih y h.2⟩

theorem listRel_append_inv {r : MVal → MVal → Prop} (xs ys xs' ys' : List MVal)
    (hl : xs.length = ys.length) (h : ListRel r (xs ++ xs') (ys ++ ys')) :
    ListRel r xs ys ∧ ListRel r xs' ys' := by
  induction xs generalizing ys with
  | nil => cases ys with
    | nil => exact ⟨trivial, h⟩
    | cons b y => simp at hl
  | cons a x ih => cases ys with
    | nil => simp at hl
    | cons b y =>
      have := ih y (by simpa using hl) h.2
      exact ⟨⟨h.1, this.1⟩, this.2⟩

/-- two related lists are both empty, or both end in related elements after related prefixes -/
theorem listRel_snoc_cases {r : MVal → MVal → Prop} (xs ys : List MVal) (h : ListRel r xs ys) :
    (xs = [] ∧ ys = []) ∨
    ∃ xi a yi b, xs = xi ++ [a] ∧ ys = yi ++ [b] ∧ ListRel r xi yi ∧ r a b := by
  have hl := listRel_length xs ys h
  rcases List.eq_nil_or_concat xs with hx | ⟨xi, a, hx⟩
  · subst hx
    cases ys with
    | nil => exact Or.inl ⟨rfl, rfl⟩
    | cons b y => simp at hl
  · rcases List.eq_nil_or_concat ys with hy | ⟨yi, b, hy⟩
    · subst hx; subst hy; simp at hl
    · right
      rw [List.concat_eq_append] at hx hy
      subst hx; subst hy
      have hl' : xi.length = yi.length := by simpa using hl
      obtain ⟨h1, h2⟩ := listRel_append_inv xi yi [a] [b] hl' h
      exact ⟨xi, a, yi, b, rfl, rfl, h1, h2.1⟩

/-! ## `simN` at each depth is an equivalence -/

theorem simN_refl (n : Nat) (a : MVal) : simN n a a := by
  induction n generalizing a with
  | zero => trivial
  | succ n ih =>
    cases a with
    | tbl xs => exact fun k => optRel_refl ih _
    | arr xs => exact listRel_refl ih xs
    | str s => rfl
    | int i => rfl
    | float b => rfl
    | bool b => rfl
    | dt d => rfl

/-- shape of the right-hand side when the left one is a table -/
theorem simN_tbl_left (n : Nat) (xs : List (Bytes × MVal)) (b : MVal) (h : simN (n + 1) (.tbl xs) b) :
    ∃ ys, b = .tbl ys ∧ ∀ k, OptRel (simN n) (alookup k xs) (alookup k ys) := by
  cases b with
  | tbl ys => exact ⟨ys, rfl, h⟩
  | arr ys => cases h
  | str s => cases h
  | int i => cases h
  | float b => cases h
  | bool b => cases h
  | dt d => cases h

theorem simN_arr_left (n : Nat) (xs : List MVal) (b : MVal) (h : simN (n + 1) (.arr xs) b) :
    ∃ ys, b = .arr ys ∧ ListRel (simN n) xs ys := by
  cases b with
  | arr ys => exact ⟨ys, rfl, h⟩
  | tbl ys => cases h
  | str s => cases h
  | int i => cases h
  | float b => cases h
  | bool b => cases h
  | dt d => cases h

/-- a value that is neither a table nor an array -/
def IsScalar : MVal → Prop
  | .tbl _ => False
  | .arr _ => False
  | _ => True

theorem simN_scalar_left (n : Nat) (a b : MVal) (ha : IsScalar a) (h : simN (n + 1) a b) : a = b := by
  cases a with
  | tbl xs => cases ha
  | arr xs => cases ha
  | str s => exact h
  | int i => exact h
  | float x => exact h
  | bool x => exact h
  | dt d => exact h

theorem simN_symm (n : Nat) (a b : MVal) (h : simN n a b) : simN n b a := by
  induction n generalizing a b with
  | zero => trivial
  | succ n ih =>
    cases a with
    | tbl xs =>
      obtain ⟨ys, e, h'⟩ := simN_tbl_left n xs b h
      subst e
      exact fun k => optRel_symm ih _ _ (h' k)
    | arr xs =>
      obtain ⟨ys, e, h'⟩ := simN_arr_left n xs b h
      subst e
      exact listRel_symm ih _ _ h'
    | str s => have := simN_scalar_left n (.str s) b trivial h; subst this; exact simN_refl _ _
    | int i => have := simN_scalar_left n (.int i) b trivial h; subst this; exact simN_refl _ _
    | float x => have := simN_scalar_left n (.float x) b trivial h; subst this; exact simN_refl _ _
    | bool x => have := simN_scalar_left n (.bool x) b trivial h; subst this; exact simN_refl _ _
    | dt d => have := simN_scalar_left n (.dt d) b trivial h; subst this; exact simN_refl _ _

theorem simN_trans (n : Nat) (a b c : MVal) (hab : simN n a b) (hbc : simN n b c) : simN n a c := by
  induction n generalizing a b c with
  | zero => trivial
  | succ n ih =>
    cases a with
    | tbl xs =>
      obtain ⟨ys, e, h1⟩ := simN_tbl_left n xs b hab
      subst e
      obtain ⟨zs, e, h2⟩ := simN_tbl_left n ys c hbc
      subst e
      exact fun k => optRel_trans ih _ _ _ (h1 k) (h2 k)
    | arr xs =>
      obtain ⟨ys, e, h1⟩ := simN_arr_left n xs b hab
      subst e
      obtain ⟨zs, e, h2⟩ := simN_arr_left n ys c hbc
      subst e
      exact listRel_trans ih _ _ _ h1 h2
    | str s => have := simN_scalar_left n (.str s) b trivial hab; subst this; exact hbc
    | int i => have := simN_scalar_left n (.int i) b trivial hab; subst this; exact hbc
    | float x => have := simN_scalar_left n (.float x) b trivial hab; subst this; exact hbc
    | bool x => have := simN_scalar_left n (.bool x) b trivial hab; subst this; exact hbc
    | dt d => have := simN_scalar_left n (.dt d) b trivial hab; subst this; exact hbc

/-! ## `Sim` -/

theorem sim_refl (a : MVal) : Sim a a := fun n => simN_refl n a
theorem sim_symm {a b : MVal} (h : Sim a b) : Sim b a := fun n => simN_symm n a b (h n)
theorem sim_trans {a b c : MVal} (h1 : Sim a b) (h2 : Sim b c) : Sim a c := fun n => simN_trans n a b c (h1 n) (h2 n)

theorem sim_of_eq {a b : MVal} (h : a = b) : Sim a b := h ▸ sim_refl a

theorem optRel_sim_iff (x y : Option MVal) : OptRel Sim x y ↔ ∀ n, OptRel (simN n) x y := by
  cases x <;> cases y <;> simp only [OptRel]
  · simp
  · exact ⟨fun h => h.elim, fun h => h 0⟩
  · exact ⟨fun h => h.elim, fun h => h 0⟩
  · rfl

theorem listRel_sim_iff (xs ys : List MVal) : ListRel Sim xs ys ↔ ∀ n, ListRel (simN n) xs ys := by
  induction xs generalizing ys with
  | nil => cases ys with
    | nil => simp [ListRel]
    | cons b y => simp [ListRel]
  | cons a x ih => cases ys with
    | nil => simp [ListRel]
    | cons b y =>
      simp only [ListRel, ih y]
      exact ⟨fun h n => ⟨h.1 n, h.2 n⟩, fun h => ⟨fun n => (h n).1, fun n => (h n).2⟩⟩

/-- tables are compared as maps -/
theorem sim_tbl (xs ys : List (Bytes × MVal)) :
    Sim (.tbl xs) (.tbl ys) ↔ ∀ k, OptRel Sim (alookup k xs) (alookup k ys) := by
  constructor
  · intro h k
    rw [optRel_sim_iff]
    intro n
    exact h (n + 1) k
  · intro h n
    cases n with
    | zero => trivial
    | succ n => exact fun k => (optRel_sim_iff _ _).1 (h k) n

/-- arrays are compared element by element -/
theorem sim_arr (xs ys : List MVal) : Sim (.arr xs) (.arr ys) ↔ ListRel Sim xs ys := by
  constructor
  · intro h
    rw [listRel_sim_iff]
    intro n
    exact h (n + 1)
  · intro h n
    cases n with
    | zero => trivial
    | succ n => exact (listRel_sim_iff _ _).1 h n

theorem sim_tbl_left (xs : List (Bytes × MVal)) (b : MVal) (h : Sim (.tbl xs) b) : ∃ ys, b = .tbl ys := by
  obtain ⟨ys, e, _⟩ := simN_tbl_left 0 xs b (h 1)
  exact ⟨ys, e⟩

theorem sim_arr_left (xs : List MVal) (b : MVal) (h : Sim (.arr xs) b) : ∃ ys, b = .arr ys := by
  obtain ⟨ys, e, _⟩ := simN_arr_left 0 xs b (h 1)
  exact ⟨ys, e⟩

theorem sim_scalar_left (a b : MVal) (ha : IsScalar a) (h : Sim a b) : a = b :=
  simN_scalar_left 0 a b ha (h 1)

theorem sim_int (a : Int) (b : MVal) : Sim (.int a) b ↔ b = .int a :=
  ⟨fun h => (sim_scalar_left (.int a) b trivial h).symm, fun h => h ▸ sim_refl _⟩
theorem sim_str (a : Bytes) (b : MVal) : Sim (.str a) b ↔ b = .str a :=
  ⟨fun h => (sim_scalar_left (.str a) b trivial h).symm, fun h => h ▸ sim_refl _⟩
theorem sim_float (a : Nat) (b : MVal) : Sim (.float a) b ↔ b = .float a :=
  ⟨fun h => (sim_scalar_left (.float a) b trivial h).symm, fun h => h ▸ sim_refl _⟩
theorem sim_bool (a : Bool) (b : MVal) : Sim (.bool a) b ↔ b = .bool a :=
  ⟨fun h => (sim_scalar_left (.bool a) b trivial h).symm, fun h => h ▸ sim_refl _⟩
theorem sim_dt (a : Datetime.Datetime) (b : MVal) : Sim (.dt a) b ↔ b = .dt a :=
  ⟨fun h => (sim_scalar_left (.dt a) b trivial h).symm, fun h => h ▸ sim_refl _⟩

/-- the three shapes of related values -/
theorem sim_cases (a b : MVal) (h : Sim a b) :
    (∃ xs ys, a = .tbl xs ∧ b = .tbl ys ∧ ∀ k, OptRel Sim (alookup k xs) (alookup k ys)) ∨
    (∃ xs ys, a = .arr xs ∧ b = .arr ys ∧ ListRel Sim xs ys) ∨
    (IsScalar a ∧ a = b) := by
  cases a with
  | tbl xs =>
    obtain ⟨ys, e⟩ := sim_tbl_left xs b h
    subst e
    exact Or.inl ⟨xs, ys, rfl, rfl, (sim_tbl xs ys).1 h⟩
  | arr xs =>
    obtain ⟨ys, e⟩ := sim_arr_left xs b h
    subst e
    exact Or.inr (Or.inl ⟨xs, ys, rfl, rfl, (sim_arr xs ys).1 h⟩)
  | str s => exact Or.inr (Or.inr ⟨trivial, sim_scalar_left (.str s) b trivial h⟩)
  | int i => exact Or.inr (Or.inr ⟨trivial, sim_scalar_left (.int i) b trivial h⟩)
  | float x => exact Or.inr (Or.inr ⟨trivial, sim_scalar_left (.float x) b trivial h⟩)
  | bool x => exact Or.inr (Or.inr ⟨trivial, sim_scalar_left (.bool x) b trivial h⟩)
  | dt d => exact Or.inr (Or.inr ⟨trivial, sim_scalar_left (.dt d) b trivial h⟩)

/-! ## operations that respect `Sim` -/

/-- `IndexMap::insert` on related tables with related values -/
theorem sim_aset (key : Bytes) (c c' : MVal) (xs ys : List (Bytes × MVal))
    (h : Sim (.tbl xs) (.tbl ys)) (hc : Sim c c') : Sim (.tbl (aset key c xs)) (.tbl (aset key c' ys)) := by
  rw [sim_tbl] at h ⊢
  intro k
  by_cases hk : k = key
  · subst hk
    rw [alookup_aset_same, alookup_aset_same]
    exact hc
  · rw [alookup_aset_other _ _ _ _ hk, alookup_aset_other _ _ _ _ hk]
    exact h k

/-- erasing a key and appending it again is `insert`, up to the order of keys -/
theorem sim_erase_append (key : Bytes) (v : MVal) (xs : List (Bytes × MVal)) (hn : (xs.map Prod.fst).Nodup) :
    Sim (.tbl (aset key v xs)) (.tbl (aerase key xs ++ [(key, v)])) := by
  rw [sim_tbl]
  intro k
  by_cases hk : k = key
  · subst hk
    rw [alookup_aset_same, alookup_append_new _ _ _ (alookup_aerase_same _ _ hn)]
    exact sim_refl v
  · rw [alookup_aset_other _ _ _ _ hk, alookup_append_other _ _ _ _ hk, alookup_aerase_other _ _ _ hk]
    exact optRel_refl sim_refl _

theorem sim_arr_snoc (xs ys : List MVal) (a b : MVal) (h : ListRel Sim xs ys) (hab : Sim a b) :
    Sim (.arr (xs ++ [a])) (.arr (ys ++ [b])) := by
  rw [sim_arr]
  exact listRel_append xs ys [a] [b] h ⟨hab, trivial⟩

theorem sim_lookup_getD (key : Bytes) (xs ys : List (Bytes × MVal)) (h : Sim (.tbl xs) (.tbl ys)) :
    Sim ((alookup key xs).getD emptyTbl) ((alookup key ys).getD emptyTbl) := by
  have := (sim_tbl xs ys).1 h key
  cases hx : alookup key xs <;> cases hy : alookup key ys <;> simp only [hx, hy, OptRel] at this
  · exact sim_refl _
  · exact this

end TomlVerif.Lemmas.Macro19b
