import TomlVerif.Lemmas.TypedGapsValue
/-! C07, reading back, `toml::Value` INSIDE a typed value, part 2: the induction over the type grammar of
    `Lemmas/SerTyped07e.lean` (`core`) WITHOUT the hypothesis `hasValue ty = false`, for the default build of the map
    (`BTreeMap`, `Flavour.sorted`; `WellTyped` describes the values of that build: `valueOk` asks for ascending keys).

    `normDecV cf ty d` is `normDec cf ty d` (Model/SerTyped.lean) with one more clause: a `toml::Value` leaf `v` comes back
    as `mapF (leafF cf) v` — itself, every double after the serializer's `copysign` on a NaN and the transport `cf`.
    For types without `toml::Value` the two agree (`normDecV_eq`). The cases other than `.value` are those of `core`,
    verbatim. -/
namespace TomlVerif.Lemmas.TypedGaps
open TomlVerif TomlVerif.Model TomlVerif.Model.TomlValue TomlVerif.Model.DeRoutes TomlVerif.Model.DeTyped
open TomlVerif.Model.SerTyped TomlVerif.Model.Ser TomlVerif.Spec TomlVerif.Spec.Serde
open TomlVerif.Spec.OrderedPlain (KeysDistinct)
open TomlVerif.Lemmas.Order18 (alookup_perm keysDistinct_perm)
open TomlVerif.Lemmas.RoundTrip17 (KSorted ksorted_nodup ksorted_perm_eq sortedInsert_new)
open TomlVerif.Lemmas.SerTyped07

mutual
/-- what comes back, `toml::Value` leaves included: `g64` / `g32` / `lf` say what an `f64` / `f32` / `toml::Value` leaf comes back as -/
def normDecV (g64 g32 : Nat → Nat) (lf : TV → TV) : Ty → Dec → Dec
  | .f64, .f64 b => .f64 (g64 b)
  | .f32, .f32 b => .f32 (g32 b)
  | .value, .value v => .value (lf v)
  | .option t, .some d => .some (normDecV g64 g32 lf t d)
  | .seq t, .seq l => .seq (l.map (normDecV g64 g32 lf t))
  | .tuple ts, .tuple l => .tuple (normTysV g64 g32 lf ts l)
  | .map t, .map l =>
    .map ((l.filter fun kd => !isNoneDec kd.2).map fun kd : Bytes × Dec => (kd.1, normDecV g64 g32 lf t kd.2))
  | .newtype t, .newtype d => .newtype (normDecV g64 g32 lf t d)
  | .struct fs, .struct l => .struct (normFieldsV g64 g32 lf fs l)
  | .enum vs, d => normVariantsV g64 g32 lf vs d
  | _, d => d
def normTysV (g64 g32 : Nat → Nat) (lf : TV → TV) : Tys → List Dec → List Dec
  | .cons t r, d :: l => normDecV g64 g32 lf t d :: normTysV g64 g32 lf r l
  | _, _ => []
def normFieldsV (g64 g32 : Nat → Nat) (lf : TV → TV) : Fields → List (Bytes × Dec) → List (Bytes × Dec)
  | .cons name t dflt r, (_, d) :: l =>
    (name, if dflt && isNoneDec d then .dflt else normDecV g64 g32 lf t d) :: normFieldsV g64 g32 lf r l
  | _, _ => []
def normShapeV (g64 g32 : Nat → Nat) (lf : TV → TV) : Shape → Dec → Dec
  | .newtype t, .vNewtype n d => .vNewtype n (normDecV g64 g32 lf t d)
  | .tuple ts, .vTuple n l => .vTuple n (normTysV g64 g32 lf ts l)
  | .struct fs, .vStruct n l => .vStruct n (normFieldsV g64 g32 lf fs l)
  | _, d => d
def normVariantsV (g64 g32 : Nat → Nat) (lf : TV → TV) : Variants → Dec → Dec
  | .nil, d => d
  | .cons name s r, d =>
    match d with
    | .vUnit n => if name == n then normShapeV g64 g32 lf s d else normVariantsV g64 g32 lf r d
    | .vNewtype n _ => if name == n then normShapeV g64 g32 lf s d else normVariantsV g64 g32 lf r d
    | .vTuple n _ => if name == n then normShapeV g64 g32 lf s d else normVariantsV g64 g32 lf r d
    | .vStruct n _ => if name == n then normShapeV g64 g32 lf s d else normVariantsV g64 g32 lf r d
    | _ => d
end

/-- what an `f32` comes back as: it travels as a double and returns through `as f32` -/
def f32F (cf : Nat → Nat) : Nat → Nat := fun b => f64ToF32 (cf (clearNanSign (f32to64 b)))

/-- what a `toml::Value` leaf comes back as in the default build: itself, its doubles after `leafF cf` -/
def leafS (cf : Nat → Nat) : TV → TV := mapF (leafF cf)

section
variable (nm : Bytes) (cf : Nat → Nat)

/-- the statement for one type -/
def CoreV (t : Ty) : Prop :=
  ∀ (d : Dec) (v : SVal) (x : V) (w : TV), WellTyped t d = true → serOf nm t d = some v → serValue v = .ok x →
    Sim cf x w → Good Flavour.sorted t w (normDecV (leafF cf) (f32F cf) (leafS cf) t d)

theorem core_listV (t : Ty) (ih : CoreV nm cf t) : ∀ (l : List Dec) (vs : List SVal) (xs : List V) (ws : List TV),
    l.all (WellTyped t) = true → mapO (serOf nm t) l = some vs → serSeq vs = .ok xs → SimList cf xs ws →
    GoodList Flavour.sorted t ws (l.map (normDecV (leafF cf) (f32F cf) (leafS cf) t))
  | [], vs, xs, ws, _, hs, hx, hsim => by
    simp only [mapO, Option.some.injEq] at hs
    subst hs
    rw [serSeq_nil xs hx] at hsim
    simp only [SimList] at hsim
    subst hsim
    simp [GoodList]
  | d :: l, vs, xs, ws, hwt, hs, hx, hsim => by
    simp only [List.all_cons, Bool.and_eq_true] at hwt
    obtain ⟨v, vs', hvs, hv, hvs'⟩ := mapO_cons _ _ _ _ hs
    subst hvs
    obtain ⟨x, xs', hxs, hx1, hx2⟩ := serSeq_cons _ _ _ hx
    subst hxs
    simp only [SimList] at hsim
    obtain ⟨y, ws', hws, hy, hws'⟩ := hsim
    subst hws
    simp only [List.map_cons, GoodList]
    exact ⟨ih d v x y hwt.1 hv hx1 hy, core_listV t ih l vs' xs' ws' hwt.2 hvs' hx2 hws'⟩

/-- the entries `serialize_entry` adds for a map with pairwise distinct string keys: none for a `None` value -/
theorem core_pairsV (t : Ty) (ih : CoreV nm cf t) : ∀ (l : List (Bytes × Dec)) (kvs : List (SVal × SVal))
    (acc out : List (Bytes × V)),
    (l.all fun kd => WellTyped t kd.2) = true → (l.map Prod.fst).Nodup → (∀ k ∈ l.map Prod.fst, k ∉ acc.map Prod.fst) →
    mapO (fun kd : Bytes × Dec => (serOf nm t kd.2).map fun v => (SVal.str kd.1, v)) l = some kvs →
    serMap kvs acc = .ok out →
    ∃ img, out = acc ++ img ∧ ∀ es0, SimKVs cf img es0 →
      GoodPairs Flavour.sorted t es0 ((l.filter fun kd => !isNoneDec kd.2).map fun kd : Bytes × Dec => (kd.1, normDecV (leafF cf) (f32F cf) (leafS cf) t kd.2))
  | [], kvs, acc, out, _, _, _, hs, hx => by
    simp only [mapO, Option.some.injEq] at hs
    subst hs
    simp only [serMap, Except.ok.injEq] at hx
    refine ⟨[], by simp [hx], ?_⟩
    intro es0 h
    simp only [SimKVs] at h
    subst h
    simp [GoodPairs]
  | (k, d) :: l, kvs, acc, out, hwt, hn, hd, hs, hx => by
    simp only [List.all_cons, Bool.and_eq_true] at hwt
    simp only [List.map_cons, List.nodup_cons] at hn
    obtain ⟨kv, kvs', hkvs, hkv, hkvs'⟩ := mapO_cons _ _ _ _ hs
    subst hkvs
    simp only [Option.map_eq_some_iff] at hkv
    obtain ⟨v, hv, hkv⟩ := hkv
    subst hkv
    obtain ⟨hnone, _⟩ := serOf_isNone nm t d v hv
    unfold serMap at hx
    simp only [serKey] at hx
    split at hx
    · -- a `None` value: the entry is skipped
      have hdn : isNoneDec d = true := by rw [← hnone]; rfl
      obtain ⟨img, ho, hi⟩ := core_pairsV t ih l kvs' acc out hwt.2 hn.2 (fun k' hk' => hd k' (by simp [hk'])) hkvs' hx
      refine ⟨img, ho, ?_⟩
      intro es0 h
      simp only [List.filter_cons, hdn, Bool.not_true, Bool.false_eq_true, if_false]
      exact hi es0 h
    · rename_i hnot
      have hns : isNoneS v = false := by
        cases hq : isNoneS v with
        | false => rfl
        | true => exact absurd (isNoneS_eq v hq) (by intro e; exact hnot e)
      have hdn : isNoneDec d = false := by rw [← hnone]; exact hns
      split at hx
      · cases hx
      · rename_i x hxv
        rw [aset_new k x acc (hd k (by simp))] at hx
        obtain ⟨img, ho, hi⟩ := core_pairsV t ih l kvs' (acc ++ [(k, x)]) out hwt.2 hn.2
          (by intro k' hk' hm
              simp only [List.map_append, List.map_cons, List.map_nil, List.mem_append, List.mem_singleton] at hm
              rcases hm with hm | hm
              · exact hd k' (by simp [hk']) hm
              · subst hm; exact hn.1 hk') hkvs' hx
        refine ⟨(k, x) :: img, by simp [ho], ?_⟩
        intro es0 h
        simp only [SimKVs] at h
        obtain ⟨y, es', he, hy, hr⟩ := h
        subst he
        simp only [List.filter_cons, hdn, Bool.not_false, if_true, List.map_cons, GoodPairs]
        exact ⟨trivial, ih d v x y hwt.1 hv hxv hy, hi es' hr⟩

end

mutual
theorem coreV (nm : Bytes) (hnm : (nm == dtName) = false) (cf : Nat → Nat) :
    ∀ ty : Ty, WfTy ty = true → CoreV nm cf ty
  | .bool, _ => by
    unfold CoreV; intro d v x w hwt hs hx hsim
    cases d <;> simp [WellTyped] at hwt
    simp only [serOf, Option.some.injEq] at hs; subst hs
    simp only [serValue, Except.ok.injEq] at hx; subst hx
    simp only [Sim] at hsim; subst hsim
    simp only [normDecV]
    exact good_scalar Flavour.sorted .bool rfl _ _ rfl
  | .int lo hi, _ => by
    unfold CoreV; intro d v x w hwt hs hx hsim
    cases d <;> simp [WellTyped] at hwt
    rename_i n
    simp only [serOf, Option.some.injEq] at hs; subst hs
    simp only [serValue, widthOf_not128, Bool.false_eq_true, if_false] at hx
    split at hx
    · cases hx
    · rename_i hnot
      injection hx with hx; subst hx
      simp only [Sim] at hsim; subst hsim
      simp only [normDecV]
      apply good_scalar Flavour.sorted _ rfl
      have hhi : n ≤ hi := by
        rcases hwt.2 with h | h
        · exact h
        · rw [widthOf_u64 lo hi h.1]
          simp only [h.1, beq_self_eq_true, Bool.true_and, decide_eq_true_eq] at hnot
          exact Int.not_lt.1 hnot
      simp [presValue, visitScalar, hwt.1, hhi]
  | .f64, _ => by
    unfold CoreV; intro d v x w hwt hs hx hsim
    cases d <;> simp [WellTyped] at hwt
    simp only [serOf, Option.some.injEq] at hs; subst hs
    simp only [serValue, Except.ok.injEq] at hx; subst hx
    simp only [Sim] at hsim; subst hsim
    simp only [normDecV]
    exact good_scalar Flavour.sorted .f64 rfl _ _ rfl
  | .f32, _ => by
    unfold CoreV; intro d v x w hwt hs hx hsim
    cases d <;> simp [WellTyped] at hwt
    simp only [serOf, Option.some.injEq] at hs; subst hs
    simp only [serValue, Except.ok.injEq] at hx; subst hx
    simp only [Sim] at hsim; subst hsim
    simp only [normDecV]
    exact good_scalar Flavour.sorted .f32 rfl _ _ rfl
  | .string, _ => by
    unfold CoreV; intro d v x w hwt hs hx hsim
    cases d <;> simp [WellTyped] at hwt
    simp only [serOf, Option.some.injEq] at hs; subst hs
    simp only [serValue, Except.ok.injEq] at hx; subst hx
    simp only [Sim] at hsim; subst hsim
    simp only [normDecV]
    exact good_scalar Flavour.sorted .string rfl _ _ rfl
  | .char, _ => by
    unfold CoreV; intro d v x w hwt hs hx hsim
    cases d <;> simp [WellTyped] at hwt
    rename_i s
    unfold isChar at hwt
    split at hwt
    · rename_i cp hcp
      simp only [Bool.and_eq_true, beq_iff_eq] at hwt
      simp only [serOf, hcp, Option.map_some, Option.some.injEq] at hs; subst hs
      simp only [serValue, hwt.1.2, Except.ok.injEq] at hx; subst hx
      simp only [Sim] at hsim; subst hsim
      simp only [normDecV]
      apply good_scalar Flavour.sorted .char rfl
      simp [presValue, visitScalar, hwt.2]
    · cases hwt
  | .unit, _ => by
    unfold CoreV; intro d v x w hwt hs hx hsim
    cases d <;> simp [WellTyped] at hwt
    simp only [serOf, Option.some.injEq] at hs; subst hs
    simp [serValue] at hx
  | .datetime, _ => by
    unfold CoreV; intro d v x w hwt hs hx hsim
    cases d <;> simp [WellTyped] at hwt
    rename_i dd
    simp only [serOf, Option.some.injEq] at hs; subst hs
    rw [serValue_dt dd hwt] at hx
    injection hx with hx; subst hx
    simp only [Sim] at hsim; subst hsim
    simp only [normDecV]
    exact good_datetime Flavour.sorted dd hwt
  | .date, _ => by
    unfold CoreV; intro d v x w hwt hs hx hsim
    cases d <;> simp only [WellTyped, Bool.false_eq_true, Bool.and_eq_true] at hwt
    rename_i dd
    simp only [serOf, Option.some.injEq] at hs; subst hs
    rw [serValue_dt dd hwt.1.1.1] at hx
    injection hx with hx; subst hx
    simp only [Sim] at hsim; subst hsim
    simp only [normDecV]
    exact good_date Flavour.sorted dd hwt.1.1.1 (by simp [hwt.1.1.2, hwt.1.2, hwt.2])
  | .time, _ => by
    unfold CoreV; intro d v x w hwt hs hx hsim
    cases d <;> simp only [WellTyped, Bool.false_eq_true, Bool.and_eq_true] at hwt
    rename_i dd
    simp only [serOf, Option.some.injEq] at hs; subst hs
    rw [serValue_dt dd hwt.1.1.1] at hx
    injection hx with hx; subst hx
    simp only [Sim] at hsim; subst hsim
    simp only [normDecV]
    exact good_time Flavour.sorted dd hwt.1.1.1 (by simp [hwt.1.1.2, hwt.1.2, hwt.2])
  | .value, _ => by
    unfold CoreV; intro d v x w hwt hs hx hsim
    cases d <;> simp only [WellTyped, Bool.false_eq_true] at hwt
    rename_i tv
    simp only [serOf, Option.some.injEq] at hs; subst hs
    simp only [normDecV, leafS]
    exact good_value cf tv hwt x w hx hsim
  | .ignored, _ => by
    unfold CoreV; intro d v x w hwt hs hx hsim
    cases d <;> simp [WellTyped] at hwt
  | .option t, hwf => by
    unfold CoreV; intro d v x w hwt hs hx hsim
    have ih := coreV nm hnm cf t (by simpa [WfTy] using hwf)
    cases d <;> simp [WellTyped] at hwt
    · simp only [serOf, Option.some.injEq] at hs; subst hs
      simp [serValue] at hx
    · rename_i d'
      simp only [serOf, Option.map_eq_some_iff] at hs
      obtain ⟨v', hv', rfl⟩ := hs
      simp only [serValue] at hx
      simp only [normDecV]
      exact good_option Flavour.sorted t w _ (ih d' v' x w hwt hv' hx hsim)
  | .newtype t, hwf => by
    unfold CoreV; intro d v x w hwt hs hx hsim
    have ih := coreV nm hnm cf t (by simpa [WfTy] using hwf)
    cases d <;> simp [WellTyped] at hwt
    rename_i d'
    simp only [serOf, Option.map_eq_some_iff] at hs
    obtain ⟨v', hv', rfl⟩ := hs
    simp only [serValue] at hx
    simp only [normDecV]
    exact good_newtype Flavour.sorted t w _ (ih d' v' x w hwt hv' hx hsim)
  | .seq t, hwf => by
    unfold CoreV; intro d v x w hwt hs hx hsim
    have ih := coreV nm hnm cf t (by simpa [WfTy] using hwf)
    cases d <;> simp only [WellTyped, Bool.false_eq_true] at hwt
    rename_i l
    simp only [serOf, Option.map_eq_some_iff] at hs
    obtain ⟨vs, hvs, rfl⟩ := hs
    simp only [serValue] at hx
    split at hx
    · rename_i xs hxs
      injection hx with hx; subst hx
      simp only [Sim] at hsim
      obtain ⟨ws, rfl, hws⟩ := hsim
      simp only [normDecV]
      exact good_seq Flavour.sorted t ws _ (core_listV nm cf t ih l vs xs ws hwt hvs hxs hws)
    · cases hx
  | .tuple ts, hwf => by
    unfold CoreV; intro d v x w hwt hs hx hsim
    cases d <;> simp only [WellTyped, Bool.false_eq_true] at hwt
    rename_i l
    simp only [serOf, Option.map_eq_some_iff] at hs
    obtain ⟨vs, hvs, rfl⟩ := hs
    simp only [serValue] at hx
    split at hx
    · rename_i xs hxs
      injection hx with hx; subst hx
      simp only [Sim] at hsim
      obtain ⟨ws, rfl, hws⟩ := hsim
      simp only [normDecV]
      exact good_tuple Flavour.sorted ts ws _
        (core_tysV nm hnm cf ts (by simpa [WfTy] using hwf) l vs xs ws hwt hvs hxs hws)
    · cases hx
  | .map t, hwf => by
    unfold CoreV; intro d v x w hwt hs hx hsim
    have ih := coreV nm hnm cf t (by simpa [WfTy] using hwf)
    cases d <;> simp only [WellTyped, Bool.false_eq_true, Bool.and_eq_true] at hwt
    rename_i l
    simp only [serOf, Option.map_eq_some_iff] at hs
    obtain ⟨kvs, hkvs, rfl⟩ := hs
    simp only [serValue] at hx
    split at hx
    · rename_i out hout
      injection hx with hx; subst hx
      simp only [Sim] at hsim
      obtain ⟨es, es0, rfl, hp, hkv⟩ := hsim
      have hks : KSorted l := ascending_ksorted l hwt.1
      obtain ⟨img, ho, hi⟩ := core_pairsV nm cf t ih l kvs [] out hwt.2 (ksorted_nodup l hks) (by simp) hkvs hout
      simp only [List.nil_append] at ho
      subst ho
      obtain ⟨nds, hpn, hg⟩ := goodPairs_perm Flavour.sorted t hp _ (hi es0 hkv)
      have := good_map Flavour.sorted t es nds hg
      rw [collectSorted_of_sorted _ nds (ksorted_norm l _ (normDecV (leafF cf) (f32F cf) (leafS cf) t) hks) hpn] at this
      simp only [normDecV]
      exact this
    · cases hx
  | .struct fs, hwf => by
    unfold CoreV; intro d v x w hwt hs hx hsim
    simp only [WfTy, Bool.and_eq_true] at hwf
    cases d <;> simp only [WellTyped, Bool.false_eq_true] at hwt
    rename_i l
    simp only [serOf, Option.map_eq_some_iff] at hs
    obtain ⟨fields, hfields, rfl⟩ := hs
    simp only [serValue, hnm, Bool.false_eq_true, if_false] at hx
    split at hx
    · rename_i out hout
      injection hx with hx; subst hx
      simp only [Sim] at hsim
      obtain ⟨es, es0, rfl, hp, hkv⟩ := hsim
      have hdist := distinct_nodup _ hwf.1
      obtain ⟨_, hd, hg⟩ := struct_finish cf Flavour.sorted fs fields out es es0 (normFieldsV (leafF cf) (f32F cf) (leafS cf) fs l) hdist
        (serOfFields_keys nm fs l fields hfields) hout hp hkv
        (fun img es' himg h1 h2 => core_fieldsV nm hnm cf fs hwf.2 hdist
          l fields img es' hwt hfields himg h1 h2)
      simp only [normDecV]
      exact good_struct Flavour.sorted fs es _ hd hg
    · cases hx
  | .enum vs, hwf => by
    unfold CoreV; intro d v x w hwt hs hx hsim
    simp only [WfTy, Bool.and_eq_true] at hwf
    simp only [WellTyped] at hwt
    simp only [serOf] at hs
    simp only [normDecV]
    obtain ⟨n, hn⟩ := wellTypedVariants_name vs d hwt
    rcases core_variantsV nm hnm cf vs hwf.2 d n v x w hn hwt hs hx hsim with
      ⟨rfl, h⟩ | ⟨p, rfl, h⟩
    · exact good_enum_str Flavour.sorted vs n _ h
    · exact good_enum_tbl Flavour.sorted vs n p _ h
theorem core_tysV (nm : Bytes) (hnm : (nm == dtName) = false) (cf : Nat → Nat) :
    ∀ ts : Tys, WfTys ts = true →
      ∀ (l : List Dec) (vs : List SVal) (xs : List V) (ws : List TV), WellTypedTys ts l = true →
        serOfTys nm ts l = some vs → serSeq vs = .ok xs → SimList cf xs ws → GoodTys Flavour.sorted ts ws (normTysV (leafF cf) (f32F cf) (leafS cf) ts l)
  | .nil, _, l, vs, xs, ws, hwt, hs, hx, hsim => by
    cases l with
    | cons _ _ => simp [WellTypedTys] at hwt
    | nil =>
      simp only [serOfTys, Option.some.injEq] at hs; subst hs
      rw [serSeq_nil xs hx] at hsim
      simp only [SimList] at hsim; subst hsim
      simp [GoodTys, normTysV]
  | .cons t r, hwf, l, vs, xs, ws, hwt, hs, hx, hsim => by
    simp only [WfTys, Bool.and_eq_true] at hwf
    cases l with
    | nil => simp [WellTypedTys] at hwt
    | cons d l =>
      simp only [WellTypedTys, Bool.and_eq_true] at hwt
      unfold serOfTys at hs
      split at hs
      · rename_i v vs' hv1 hvs'
        injection hs with hs; subst hs
        obtain ⟨x, xs', rfl, hx1, hx2⟩ := serSeq_cons _ _ _ hx
        simp only [SimList] at hsim
        obtain ⟨y, ws', rfl, hy, hws'⟩ := hsim
        simp only [normTysV, GoodTys]
        exact ⟨coreV nm hnm cf t hwf.1 d v x y hwt.1 hv1 hx1 hy,
          core_tysV nm hnm cf r hwf.2 l vs' xs' ws' hwt.2 hvs' hx2 hws'⟩
      · cases hs
theorem core_fieldsV (nm : Bytes) (hnm : (nm == dtName) = false) (cf : Nat → Nat) :
    ∀ fs : Fields, WfFields fs = true → (Fields.names fs).Nodup →
      ∀ (l : List (Bytes × Dec)) (fields : List (Bytes × SVal)) (img : List (Bytes × V)) (es : List (Bytes × TV)),
        WellTypedFields fs l = true → serOfFields nm fs l = some fields → FieldsImg fields img →
        (∀ k x, (k, x) ∈ img → ∃ y, alookup k es = some y ∧ Sim cf x y) →
        (∀ k ∈ Fields.names fs, k ∉ img.map Prod.fst → alookup k es = none) →
        GoodFields Flavour.sorted fs es (normFieldsV (leafF cf) (f32F cf) (leafS cf) fs l)
  | .nil, _, _, l, fields, img, es, hwt, hs, himg, h1, h2 => by
    cases l with
    | cons _ _ => simp [WellTypedFields] at hwt
    | nil => simp [GoodFields, normFieldsV]
  | .cons name t dflt r, hwf, hnd, l, fields, img, es, hwt, hs, himg, h1, h2 => by
    simp only [WfFields, Bool.and_eq_true] at hwf
    simp only [Fields.names, List.nodup_cons] at hnd
    cases l with
    | nil => simp [WellTypedFields] at hwt
    | cons kd l =>
      obtain ⟨k, d⟩ := kd
      simp only [WellTypedFields, Bool.and_eq_true] at hwt
      unfold serOfFields at hs
      split at hs
      · rename_i v vs hv1 hvs
        injection hs with hs; subst hs
        obtain ⟨hnone, hopt⟩ := serOf_isNone nm t d v hv1
        have hkeys := serOfFields_keys nm r l vs hvs
        simp only [FieldsImg] at himg
        simp only [normFieldsV, GoodFields]
        refine ⟨_, _, rfl, ?_, ?_⟩
        · split at himg
          · -- `None`: the field is skipped
            rename_i hn
            have hdn : isNoneDec d = true := by rw [← hnone]; exact hn
            obtain ⟨t', rfl⟩ := hopt hdn
            have hd := isNoneDec_eq d hdn
            subst hd
            have hnot : name ∉ img.map Prod.fst := fun hm => hnd.1 (hkeys ▸ fieldsImg_keys vs img himg name hm)
            rw [h2 name (by simp [Fields.names]) hnot]
            cases dflt with
            | true => simp [isNoneDec]
            | false => simp [isNoneDec, missingField, normDecV]
          · rename_i hn
            have hdn : isNoneDec d = false := by rw [← hnone]; simpa using hn
            obtain ⟨x, img', rfl, hx, _⟩ := himg
            obtain ⟨y, hy, hsim⟩ := h1 name x (by simp)
            rw [hy]
            simp only [hdn, Bool.and_false, Bool.false_eq_true, if_false]
            exact coreV nm hnm cf t hwf.1 d v x y hwt.1.2 hv1 hx hsim
        · split at himg
          · exact core_fieldsV nm hnm cf r hwf.2 hnd.2 l vs img es hwt.2 hvs himg h1
              (fun k' hk' hn' => h2 k' (by simp [Fields.names, hk']) hn')
          · obtain ⟨x, img', rfl, _, himg'⟩ := himg
            exact core_fieldsV nm hnm cf r hwf.2 hnd.2 l vs img' es hwt.2 hvs himg'
              (fun k' x' hm => h1 k' x' (by simp [hm]))
              (fun k' hk' hn' => h2 k' (by simp [Fields.names, hk']) (by
                simp only [List.map_cons, List.mem_cons, not_or]
                exact ⟨fun e => hnd.1 (e ▸ hk'), hn'⟩))
      · cases hs
theorem core_shapeV (nm : Bytes) (hnm : (nm == dtName) = false) (cf : Nat → Nat) :
    ∀ s : Shape, WfShape s = true →
      ∀ (name : Bytes) (d : Dec) (v : SVal) (x : V) (w : TV), WellTypedShape s d = true → variantName d = some name →
        serOfShape nm s name d = some v → serValue v = .ok x → Sim cf x w →
        (w = .str name ∧ s = .unit ∧ normShapeV (leafF cf) (f32F cf) (leafS cf) s d = .vUnit name) ∨
          (∃ p, w = .tbl [(name, p)] ∧ GoodShape Flavour.sorted s name p (normShapeV (leafF cf) (f32F cf) (leafS cf) s d))
  | .unit, _, name, d, v, x, w, hwt, hname, hs, hx, hsim => by
    cases d <;> simp [WellTypedShape] at hwt
    simp only [variantName, Option.some.injEq] at hname; subst hname
    simp only [serOfShape, Option.some.injEq] at hs; subst hs
    simp only [serValue, Except.ok.injEq] at hx; subst hx
    simp only [Sim] at hsim; subst hsim
    exact .inl ⟨rfl, rfl, by simp [normShapeV]⟩
  | .newtype t, hwf, name, d, v, x, w, hwt, hname, hs, hx, hsim => by
    cases d <;> simp only [WellTypedShape, Bool.false_eq_true] at hwt
    rename_i n d'
    simp only [variantName, Option.some.injEq] at hname; subst hname
    simp only [serOfShape, Option.map_eq_some_iff] at hs
    obtain ⟨v', hv', rfl⟩ := hs
    simp only [serValue] at hx
    split at hx
    · rename_i x' hx'
      injection hx with hx; subst hx
      simp only [Sim, SimKVs] at hsim
      obtain ⟨es, es0, rfl, hp, y, es', rfl, hy, rfl⟩ := hsim
      rw [List.perm_singleton.1 hp]
      refine .inr ⟨y, rfl, ?_⟩
      simp only [normShapeV, GoodShape]
      exact ⟨_, rfl, coreV nm hnm cf t (by simpa [WfShape] using hwf)
        d' v' x' y hwt hv' hx' hy⟩
    · cases hx
  | .tuple ts, hwf, name, d, v, x, w, hwt, hname, hs, hx, hsim => by
    cases d <;> simp only [WellTypedShape, Bool.false_eq_true] at hwt
    rename_i n l
    simp only [variantName, Option.some.injEq] at hname; subst hname
    simp only [serOfShape, Option.map_eq_some_iff] at hs
    obtain ⟨vs, hvs, rfl⟩ := hs
    simp only [serValue] at hx
    split at hx
    · rename_i xs hxs
      injection hx with hx; subst hx
      simp only [Sim, SimKVs] at hsim
      obtain ⟨es, es0, rfl, hp, y, es', rfl, ⟨ws, rfl, hws⟩, rfl⟩ := hsim
      rw [List.perm_singleton.1 hp]
      refine .inr ⟨_, rfl, ?_⟩
      simp only [normShapeV, GoodShape]
      exact ⟨ws, _, rfl, rfl, core_tysV nm hnm cf ts (by simpa [WfShape] using hwf)
        l vs xs ws hwt hvs hxs hws⟩
    · cases hx
  | .struct fs, hwf, name, d, v, x, w, hwt, hname, hs, hx, hsim => by
    simp only [WfShape, Bool.and_eq_true] at hwf
    cases d <;> simp only [WellTypedShape, Bool.false_eq_true] at hwt
    rename_i n l
    simp only [variantName, Option.some.injEq] at hname; subst hname
    simp only [serOfShape, Option.map_eq_some_iff] at hs
    obtain ⟨fields, hfields, rfl⟩ := hs
    simp only [serValue] at hx
    split at hx
    · rename_i out hout
      injection hx with hx; subst hx
      simp only [Sim, SimKVs] at hsim
      obtain ⟨es, es0, rfl, hp, y, es', rfl, ⟨es1, es2, rfl, hp1, hkv⟩, rfl⟩ := hsim
      rw [List.perm_singleton.1 hp]
      refine .inr ⟨_, rfl, ?_⟩
      have hdist := distinct_nodup _ hwf.1
      obtain ⟨hk, hd, hg⟩ := struct_finish cf Flavour.sorted fs fields out es1 es2 (normFieldsV (leafF cf) (f32F cf) (leafS cf) fs l) hdist
        (serOfFields_keys nm fs l fields hfields) hout hp1 hkv
        (fun img es' himg h1 h2 => core_fieldsV nm hnm cf fs hwf.2 hdist
          l fields img es' hwt hfields himg h1 h2)
      simp only [normShapeV, GoodShape]
      exact ⟨es1, _, rfl, rfl, hk, hd, hg⟩
    · cases hx
theorem core_variantsV (nm : Bytes) (hnm : (nm == dtName) = false) (cf : Nat → Nat) :
    ∀ vs : Variants, WfVariants vs = true →
      ∀ (d : Dec) (n : Bytes) (v : SVal) (x : V) (w : TV), variantName d = some n → WellTypedVariants vs d = true →
        serOfVariants nm vs d = some v → serValue v = .ok x → Sim cf x w →
        VariantGoal Flavour.sorted vs n w (normVariantsV (leafF cf) (f32F cf) (leafS cf) vs d)
  | .nil, _, d, n, v, x, w, _, hwt, _, _, _ => by simp [WellTypedVariants] at hwt
  | .cons name s r, hwf, d, n, v, x, w, hn, hwt, hs, hx, hsim => by
    simp only [WfVariants, Bool.and_eq_true] at hwf
    have key : (if name == n then WellTypedShape s d else WellTypedVariants r d) = true →
        (if name == n then serOfShape nm s name d else serOfVariants nm r d) = some v →
        VariantGoal Flavour.sorted (.cons name s r) n w
          (if name == n then normShapeV (leafF cf) (f32F cf) (leafS cf) s d else normVariantsV (leafF cf) (f32F cf) (leafS cf) r d) := by
      intro hwt' hs'
      by_cases hnn : (name == n) = true
      · simp only [hnn, if_true] at hwt' hs' ⊢
        have hname : name = n := by simpa using hnn
        subst hname
        rcases core_shapeV nm hnm cf s hwf.1 name d v x w hwt' hn hs' hx hsim with
          ⟨rfl, rfl, hnorm⟩ | ⟨p, rfl, hg⟩
        · refine .inl ⟨rfl, ?_⟩
          rw [hnorm]
          simp [unitOnlyVariant]
        · refine .inr ⟨p, rfl, ?_⟩
          simp only [GoodVariants, beq_self_eq_true, if_true]
          exact hg
      · simp only [hnn, Bool.false_eq_true, if_false] at hwt' hs' ⊢
        rcases core_variantsV nm hnm cf r hwf.2 d n v x w hn hwt' hs' hx hsim with
          ⟨rfl, h⟩ | ⟨p, rfl, h⟩
        · refine .inl ⟨rfl, ?_⟩
          simp only [unitOnlyVariant, hnn, Bool.false_eq_true, if_false]
          exact h
        · refine .inr ⟨p, rfl, ?_⟩
          simp only [GoodVariants, hnn, Bool.false_eq_true, if_false]
          exact h
    cases d <;> simp only [variantName, Option.some.injEq] at hn <;> try (exact absurd hn (by simp))
    all_goals
      subst hn
      simp only [WellTypedVariants] at hwt
      simp only [serOfVariants] at hs
      simp only [normVariantsV]
      exact key hwt hs
end

/-! ## `normDecV` extends `normDec` -/

mutual
theorem normDecV_eq (cf : Nat → Nat) (lf : TV → TV) : ∀ ty : Ty, hasValue ty = false → ∀ d : Dec, normDecV (leafF cf) (f32F cf) lf ty d = normDec cf ty d
  | .value, h, _ => by simp [hasValue] at h
  | .bool, _, d => by cases d <;> simp [normDecV, normDec]
  | .int _ _, _, d => by cases d <;> simp [normDecV, normDec]
  | .f64, _, d => by cases d <;> simp [normDecV, normDec, leafF]
  | .f32, _, d => by cases d <;> simp [normDecV, normDec, f32F]
  | .string, _, d => by cases d <;> simp [normDecV, normDec]
  | .char, _, d => by cases d <;> simp [normDecV, normDec]
  | .unit, _, d => by cases d <;> simp [normDecV, normDec]
  | .datetime, _, d => by cases d <;> simp [normDecV, normDec]
  | .date, _, d => by cases d <;> simp [normDecV, normDec]
  | .time, _, d => by cases d <;> simp [normDecV, normDec]
  | .ignored, _, d => by cases d <;> simp [normDecV, normDec]
  | .option t, h, d => by
    have ih := normDecV_eq cf lf t (by simpa [hasValue] using h)
    cases d <;> simp [normDecV, normDec, ih]
  | .newtype t, h, d => by
    have ih := normDecV_eq cf lf t (by simpa [hasValue] using h)
    cases d <;> simp [normDecV, normDec, ih]
  | .seq t, h, d => by
    have ih := normDecV_eq cf lf t (by simpa [hasValue] using h)
    cases d <;> simp [normDecV, normDec, ih]
  | .map t, h, d => by
    have ih := normDecV_eq cf lf t (by simpa [hasValue] using h)
    cases d <;> simp [normDecV, normDec, ih]
  | .tuple ts, h, d => by
    have ih := normTysV_eq cf lf ts (by simpa [hasValue] using h)
    cases d <;> simp [normDecV, normDec, ih]
  | .struct fs, h, d => by
    have ih := normFieldsV_eq cf lf fs (by simpa [hasValue] using h)
    cases d <;> simp [normDecV, normDec, ih]
  | .enum vs, h, d => by
    have ih := normVariantsV_eq cf lf vs (by simpa [hasValue] using h)
    simp [normDecV, normDec, ih]
theorem normTysV_eq (cf : Nat → Nat) (lf : TV → TV) : ∀ ts : Tys, hasValueTys ts = false → ∀ l, normTysV (leafF cf) (f32F cf) lf ts l = normTys cf ts l
  | .nil, _, l => by simp [normTysV, normTys]
  | .cons t r, h, l => by
    simp only [hasValueTys, Bool.or_eq_false_iff] at h
    cases l with
    | nil => simp [normTysV, normTys]
    | cons d l => simp [normTysV, normTys, normDecV_eq cf lf t h.1, normTysV_eq cf lf r h.2]
theorem normFieldsV_eq (cf : Nat → Nat) (lf : TV → TV) : ∀ fs : Fields, hasValueFields fs = false →
    ∀ l, normFieldsV (leafF cf) (f32F cf) lf fs l = normFields cf fs l
  | .nil, _, l => by simp [normFieldsV, normFields]
  | .cons name t dflt r, h, l => by
    simp only [hasValueFields, Bool.or_eq_false_iff] at h
    cases l with
    | nil => simp [normFieldsV, normFields]
    | cons kd l => obtain ⟨k, d⟩ := kd; simp [normFieldsV, normFields, normDecV_eq cf lf t h.1, normFieldsV_eq cf lf r h.2]
theorem normShapeV_eq (cf : Nat → Nat) (lf : TV → TV) : ∀ s : Shape, hasValueShape s = false → ∀ d, normShapeV (leafF cf) (f32F cf) lf s d = normShape cf s d
  | .unit, _, d => by cases d <;> simp [normShapeV, normShape]
  | .newtype t, h, d => by
    have ih := normDecV_eq cf lf t (by simpa [hasValueShape] using h)
    cases d <;> simp [normShapeV, normShape, ih]
  | .tuple ts, h, d => by
    have ih := normTysV_eq cf lf ts (by simpa [hasValueShape] using h)
    cases d <;> simp [normShapeV, normShape, ih]
  | .struct fs, h, d => by
    have ih := normFieldsV_eq cf lf fs (by simpa [hasValueShape] using h)
    cases d <;> simp [normShapeV, normShape, ih]
theorem normVariantsV_eq (cf : Nat → Nat) (lf : TV → TV) : ∀ vs : Variants, hasValueVariants vs = false →
    ∀ d, normVariantsV (leafF cf) (f32F cf) lf vs d = normVariants cf vs d
  | .nil, _, d => by simp [normVariantsV, normVariants]
  | .cons name s r, h, d => by
    simp only [hasValueVariants, Bool.or_eq_false_iff] at h
    have a := normShapeV_eq cf lf s h.1
    have b := normVariantsV_eq cf lf r h.2
    cases d <;> simp [normVariantsV, normVariants, a, b]
end

end TomlVerif.Lemmas.TypedGaps
