import TomlVerif.Lemmas.Depth05DocA
import TomlVerif.Model.Doc
/-! Nesting depth of the decoded document tree (C05, document level), part B: the definition state machine keeps the
    invariant of part A through `descend`, every handler and the line driver; hence the table `parse_document` returns
    nests at most `3 * LIMIT - 2` deep. -/
namespace TomlVerif.Lemmas.Depth05Doc
open TomlVerif TomlVerif.Spec TomlVerif.Model TomlVerif.Model.Value TomlVerif.Model.State TomlVerif.Model.Doc
open TomlVerif.Lemmas.Depth05 TomlVerif.Lemmas.State09

/-! ## `descend` -/

theorem setItems_dotted (t : Tbl) (l : List (Bytes × Item)) : (t.setItems l).dotted = t.dotted := rfl

/-- `descend` keeps the `dotted` flag of the table it starts from -/
theorem descend_dotted (t t' : Tbl) (path : List Bytes) (d : Bool) (f : Tbl → Option Tbl)
    (h : descend t path d f = some t') (hf : ∀ u u', f u = some u' → u'.dotted = u.dotted) : t'.dotted = t.dotted := by
  cases path with
  | nil => exact hf t t' (by simpa [descend] using h)
  | cons k ks =>
    rcases descend_cons_some t t' k ks d f h with ⟨sub, sub', _, _, _, ht⟩ | ⟨init, l, l', _, _, _, ht⟩ <;>
      subst ht <;> rfl

/-- a header path: every table it passes or makes sits fewer than `LIMIT` keys below the root -/
theorem descend_ok_false (t t' : Tbl) (path : List Bytes) (f : Tbl → Option Tbl) (n d : Nat)
    (h : descend t path false f = some t') (hw : OkTbl t n d) (hlen : n + path.length < LIMIT)
    (hfd : ∀ u u', f u = some u' → u'.dotted = u.dotted)
    (hf : ∀ u u' d', OkTbl u (n + path.length) d' → f u = some u' → OkTbl u' (n + path.length) d') :
    OkTbl t' n d := by
  induction path generalizing t t' n d with
  | nil => exact hf t t' d hw (by simpa [descend] using h)
  | cons k ks ih =>
    have e : n + 1 + ks.length = n + (k :: ks).length := by simp; omega
    have hlen' : n + 1 + ks.length < LIMIT := by rw [e]; exact hlen
    have hf' : ∀ u u' d', OkTbl u (n + 1 + ks.length) d' → f u = some u' → OkTbl u' (n + 1 + ks.length) d' := by
      rw [e]; exact hf
    rcases descend_cons_some t t' k ks false f h with ⟨sub, sub', he, _, hs, ht⟩ | ⟨init, l, l', ha, _, hs, ht⟩
    · have hsub : OkItem (.table sub) n d := by
        cases hx : alookup k t.items with
        | none =>
          simp [hx] at he; subst he
          rw [okItem_table]
          refine ⟨fun hd => by simp [newImplicit, Tbl.dotted] at hd, fun _ => ⟨by omega, okTbl_of_nil _ _ _ rfl⟩⟩
        | some it => simp [hx] at he; subst he; exact ok_item t n d k _ hw hx
      have hdot : sub'.dotted = sub.dotted := descend_dotted sub sub' ks false f hs hfd
      subst ht
      refine ok_aset t n d k _ hw ?_
      rw [okItem_table] at hsub ⊢
      rw [hdot]
      refine ⟨fun hd => ?_, fun hd => ?_⟩
      · obtain ⟨h1, h2⟩ := hsub.1 hd
        exact ⟨h1, ih sub sub' (n + 1) (d + 1) hs h2 hlen' hf'⟩
      · obtain ⟨h1, h2⟩ := hsub.2 hd
        exact ⟨h1, ih sub sub' (n + 1) 0 hs h2 hlen' hf'⟩
    · obtain ⟨h1, hall⟩ := (okItem_aot _ n d).1 (ok_item t n d k _ hw ha)
      subst ht
      refine ok_aset t n d k _ hw ((okItem_aot _ n d).2 ⟨h1, ?_⟩)
      intro m hm
      rcases List.mem_append.1 hm with hm | hm
      · exact hall m (List.mem_append_left _ hm)
      · simp at hm; rw [hm]; exact ih l l' (n + 1) 0 hs (hall l (by simp)) hlen' hf'

/-- a dotted key path followed by a value of nesting `x`: the dotted tables on the way and the value stay below
    the limit together -/
theorem descend_ok_true (x : Nat) (t t' : Tbl) (path : List Bytes) (f : Tbl → Option Tbl) (n d : Nat)
    (h : descend t path true f = some t') (hw : OkTbl t n d) (hlen : d + path.length + x < LIMIT)
    (hfd : ∀ u u', f u = some u' → u'.dotted = u.dotted)
    (hf : ∀ u u' n' d', OkTbl u n' d' → d' + x < LIMIT → f u = some u' → OkTbl u' n' d') :
    OkTbl t' n d := by
  induction path generalizing t t' n d with
  | nil => exact hf t t' n d hw (by simpa using hlen) (by simpa [descend] using h)
  | cons k ks ih =>
    have hl : d + (ks.length + 1) + x < LIMIT := by simpa using hlen
    rcases descend_cons_some t t' k ks true f h with ⟨sub, sub', he, _, hs, ht⟩ | ⟨init, l, l', ha, _, hs, ht⟩
    · have hsub : OkItem (.table sub) n d := by
        cases hx : alookup k t.items with
        | none =>
          simp [hx] at he; subst he
          rw [okItem_table]
          refine ⟨fun _ => ⟨by omega, okTbl_of_nil _ _ _ rfl⟩, fun hd => by simp [newImplicit, Tbl.dotted] at hd⟩
        | some it => simp [hx] at he; subst he; exact ok_item t n d k _ hw hx
      have hdot : sub'.dotted = sub.dotted := descend_dotted sub sub' ks true f hs hfd
      subst ht
      refine ok_aset t n d k _ hw ?_
      rw [okItem_table] at hsub ⊢
      rw [hdot]
      refine ⟨fun hd => ?_, fun hd => ?_⟩
      · obtain ⟨h1, h2⟩ := hsub.1 hd
        exact ⟨h1, ih sub sub' (n + 1) (d + 1) hs h2 (by omega)⟩
      · obtain ⟨h1, h2⟩ := hsub.2 hd
        exact ⟨h1, ih sub sub' (n + 1) 0 hs h2 (by omega)⟩
    · obtain ⟨h1, hall⟩ := (okItem_aot _ n d).1 (ok_item t n d k _ hw ha)
      subst ht
      refine ok_aset t n d k _ hw ((okItem_aot _ n d).2 ⟨h1, ?_⟩)
      intro m hm
      rcases List.mem_append.1 hm with hm | hm
      · exact hall m (List.mem_append_left _ hm)
      · simp at hm; rw [hm]; exact ih l l' (n + 1) 0 hs (hall l (by simp)) (by omega)

theorem lookupTbl_ok (t u : Tbl) (p : List Bytes) (n d : Nat) (h : OkTbl t n d) (hl : lookupTbl t p = some u) :
    ∃ d', OkTbl u (n + p.length) d' := by
  induction p generalizing t n d with
  | nil => simp [lookupTbl] at hl; subst hl; exact ⟨d, h⟩
  | cons k ks ih =>
    have e : n + 1 + ks.length = n + (k :: ks).length := by simp; omega
    rw [← e]
    rw [lookupTbl] at hl
    cases ha : alookup k t.items with
    | none => simp [ha] at hl
    | some it =>
      have hi := ok_item t n d k it h ha
      cases it with
      | value x => simp [ha] at hl
      | table sub =>
        simp only [ha] at hl
        rw [okItem_table] at hi
        cases hd : sub.dotted with
        | true => exact ih sub (n + 1) (d + 1) (hi.1 hd).2 hl
        | false => exact ih sub (n + 1) 0 (hi.2 hd).2 hl
      | aot ts =>
        simp only [ha] at hl
        cases hg : ts.getLast? with
        | none => simp [hg] at hl
        | some l =>
          simp only [hg] at hl
          exact ih l (n + 1) 0 (((okItem_aot ts n d).1 hi).2 l (List.mem_of_getLast? hg)) hl

/-! ## the handlers -/

/-- the finalized part sits at the root; the open section was made by a header of fewer than `LIMIT` keys -/
structure Inv (st : ParseState) : Prop where
  root : OkTbl st.root 0 0
  cur : OkTbl st.current st.currentPath.length 0
  len : st.currentPath.length < LIMIT
  dot : st.current.dotted = false

theorem inv_init : Inv {} :=
  ⟨okTbl_of_nil _ _ _ rfl, okTbl_of_nil _ _ _ rfl, by simp [LIMIT], rfl⟩

theorem onKeyval_ok (st st' : ParseState) (path : List Bytes) (key : Bytes) (v : Val) (hi : Inv st)
    (hv : path.length + nest v < LIMIT) (h : onKeyval st path key v = some st') : Inv st' := by
  obtain ⟨c, hd, hst⟩ := onKeyval_some st st' path key v h
  subst hst
  have hfd : ∀ u u', kvF path key v u = some u' → u'.dotted = u.dotted := by
    intro u u' hk
    obtain ⟨_, e, _⟩ := kvF_some _ _ _ _ _ hk
    subst e; rfl
  refine ⟨hi.root, ?_, hi.len, ?_⟩
  · refine descend_ok_true (nest v) _ _ _ _ _ 0 hd hi.cur (by omega) hfd ?_
    intro u u' n' d' hu hdv hk
    obtain ⟨_, e, _⟩ := kvF_some _ _ _ _ _ hk
    subst e
    exact ok_append u n' d' key _ hu ((okItem_value v n' d').2 hdv)
  · show c.dotted = false
    rw [descend_dotted _ _ _ _ _ hd hfd]; exact hi.dot

theorem finF_dotted (isArray : Bool) (key : Bytes) (cur u u' : Tbl) (h : finF isArray key cur u = some u') :
    u'.dotted = u.dotted := by
  unfold finF at h
  cases isArray with
  | true =>
    simp at h
    obtain ⟨ts, _, e⟩ := finArrF_some _ _ _ _ h
    subst e; rfl
  | false =>
    simp at h
    rcases finStdF_some _ _ _ _ h with ⟨_, e⟩ | ⟨t0, _, _, e⟩ <;> subst e <;> rfl

theorem finF_ok (isArray : Bool) (key : Bytes) (cur u u' : Tbl) (m d' : Nat) (hm : m + 1 < LIMIT)
    (hc : OkTbl cur (m + 1) 0) (hcd : cur.dotted = false) (hu : OkTbl u m d')
    (h : finF isArray key cur u = some u') : OkTbl u' m d' := by
  have hci : OkItem (.table cur) m d' := by
    rw [okItem_table]
    exact ⟨fun hd => (by rw [hcd] at hd; cases hd), fun _ => ⟨hm, hc⟩⟩
  unfold finF at h
  cases isArray with
  | true =>
    simp at h
    obtain ⟨ts, he, e⟩ := finArrF_some _ _ _ _ h
    subst e
    have hts : ∀ t ∈ ts, OkTbl t (m + 1) 0 := by
      cases hx : alookup key u.items with
      | none => simp [hx] at he; subst he; simp
      | some it => simp [hx] at he; subst he; exact ((okItem_aot ts m d').1 (ok_item u m d' key _ hu hx)).2
    refine ok_aset u m d' key _ hu ((okItem_aot _ m d').2 ⟨hm, ?_⟩)
    intro t ht
    rcases List.mem_append.1 ht with ht | ht
    · exact hts t ht
    · simp at ht; subst ht; exact hc
  | false =>
    simp at h
    rcases finStdF_some _ _ _ _ h with ⟨_, e⟩ | ⟨t0, _, _, e⟩
    · subst e; exact ok_append u m d' key _ hu hci
    · subst e; exact ok_areplace u m d' key _ hu hci

theorem finalizeTable_ok (st sf : ParseState) (hi : Inv st) (h : finalizeTable st = some sf) : Inv sf := by
  rcases finalizeTable_some st sf h with ⟨hp, _, hst⟩ | ⟨pp, key, root', hp, hd, hst⟩
  · subst hst
    have := hi.cur; rw [hp] at this
    exact ⟨this, okTbl_of_nil _ _ _ rfl, by simp [LIMIT], rfl⟩
  · subst hst
    have hl := hi.len; rw [hp] at hl; simp at hl
    have hc := hi.cur; rw [hp] at hc; simp at hc
    refine ⟨?_, okTbl_of_nil _ _ _ rfl, by simp [LIMIT], rfl⟩
    refine descend_ok_false _ _ _ _ 0 0 hd hi.root (by omega) (fun u u' hf => finF_dotted _ _ _ _ _ hf) ?_
    intro u u' d' hu hf
    exact finF_ok _ _ _ _ _ _ d' (by omega) (by simpa using hc) hi.dot hu hf

theorem find_ok (key : Bytes) (root cur : Tbl) (pp : List Bytes) (hr : OkTbl root 0 0) (hc : cur.items = []) :
    OkTbl ((startTable.find key root pp).getD cur) (pp.length + 1) 0 := by
  rw [find_eq]
  have hcur : OkTbl cur (pp.length + 1) 0 := okTbl_of_nil _ _ _ hc
  cases hl : lookupTbl root pp with
  | none => simpa using hcur
  | some u =>
    obtain ⟨d', hu⟩ := lookupTbl_ok root u pp 0 0 hr hl
    simp only [Nat.zero_add] at hu
    simp only [Option.bind_some, tableAt]
    cases ha : alookup key u.items with
    | none => simpa using hcur
    | some it =>
      cases it with
      | value x => simpa using hcur
      | aot ts => simpa using hcur
      | table x =>
        have hx := (okItem_table x pp.length d').1 (ok_item u _ _ key _ hu ha)
        show OkTbl x (pp.length + 1) 0
        cases hd : x.dotted with
        | true => exact okTbl_zero _ _ _ (hx.1 hd).2
        | false => exact (hx.2 hd).2

theorem startTable_ok (st st' : ParseState) (path : List Bytes) (hi : Inv st) (hc : st.current.items = [])
    (hlen : path.length < LIMIT) (h : startTable st path = some st') : Inv st' := by
  obtain ⟨pp, key, r0, root', hp, hprobe, herase, hst⟩ := startTable_some st st' path h
  subst hst
  have hl : pp.length + 1 < LIMIT := by rw [hp] at hlen; simpa using hlen
  refine ⟨?_, ?_, hlen, rfl⟩
  · refine descend_ok_false _ _ _ _ 0 0 herase hi.root (by omega) ?_ ?_
    · intro u u' he; simp [eraseF] at he; subst he; rfl
    · intro u u' d' hu he
      simp [eraseF] at he; subst he
      exact ok_aerase u _ d' key hu
  · show OkTbl (Tbl.mk ((startTable.find key st.root pp).getD st.current).items false false _) path.length 0
    have e : path.length = pp.length + 1 := by rw [hp]; simp
    rw [e]
    exact okTbl_congr_items ((startTable.find key st.root pp).getD st.current) _ _ _ rfl
      (find_ok key st.root st.current pp hi.root hc)

theorem arrStartF_ok (key : Bytes) (u u' : Tbl) (m d' : Nat) (hm : m + 1 < LIMIT) (hu : OkTbl u m d')
    (h : arrStartF key u = some u') : OkTbl u' m d' ∧ u'.dotted = u.dotted := by
  unfold arrStartF at h
  split at h
  · simp at h; subst h; exact ⟨hu, rfl⟩
  · simp at h
  · simp at h; subst h
    exact ⟨ok_append u m d' key _ hu ((okItem_aot [] m d').2 ⟨hm, by simp⟩), rfl⟩

theorem arrStartF_dotted (key : Bytes) (u u' : Tbl) (h : arrStartF key u = some u') : u'.dotted = u.dotted := by
  unfold arrStartF at h
  split at h
  · simp at h; subst h; rfl
  · simp at h
  · simp at h; subst h; rfl

theorem startArrayTable_ok (st st' : ParseState) (path : List Bytes) (hi : Inv st) (hc : st.current.items = [])
    (hlen : path.length < LIMIT) (h : startArrayTable st path = some st') : Inv st' := by
  obtain ⟨pp, key, root', hp, hd, hst⟩ := startArrayTable_some st st' path h
  subst hst
  have hl : pp.length + 1 < LIMIT := by rw [hp] at hlen; simpa using hlen
  refine ⟨?_, ?_, hlen, rfl⟩
  · refine descend_ok_false _ _ _ _ 0 0 hd hi.root (by omega) (fun u u' he => arrStartF_dotted key u u' he) ?_
    intro u u' d' hu he
    exact (arrStartF_ok key u u' _ d' (by omega) hu he).1
  · show OkTbl (Tbl.mk st.current.items false false _) path.length 0
    exact okTbl_of_nil _ _ _ hc

theorem onStdHeader_ok (st st' : ParseState) (path : List Bytes) (hi : Inv st) (hlen : path.length < LIMIT)
    (h : onStdHeader st path = some st') : Inv st' := by
  unfold onStdHeader at h
  cases hf : finalizeTable st with
  | none => simp [hf] at h
  | some sf =>
    simp only [hf] at h
    have hc : sf.current.items = [] := by rw [(finalize_fields st sf hf).1]; rfl
    exact startTable_ok sf st' path (finalizeTable_ok st sf hi hf) hc hlen h

theorem onArrayHeader_ok (st st' : ParseState) (path : List Bytes) (hi : Inv st) (hlen : path.length < LIMIT)
    (h : onArrayHeader st path = some st') : Inv st' := by
  unfold onArrayHeader at h
  cases hf : finalizeTable st with
  | none => simp [hf] at h
  | some sf =>
    simp only [hf] at h
    have hc : sf.current.items = [] := by rw [(finalize_fields st sf hf).1]; rfl
    exact startArrayTable_ok sf st' path (finalizeTable_ok st sf hi hf) hc hlen h

theorem intoDocument_ok (st : ParseState) (T : Tbl) (hi : Inv st) (h : intoDocument st = some T) : OkTbl T 0 0 := by
  unfold intoDocument at h
  cases hf : finalizeTable st with
  | none => simp [hf] at h
  | some sf =>
    simp [hf] at h; subst h
    exact (finalizeTable_ok st sf hi hf).root

/-! ## the line driver -/

theorem keyvalLine_ok (st st' : ParseState) (s r : Bytes) (hi : Inv st) (h : keyvalLine st s = some (st', r)) :
    Inv st' := by
  unfold keyvalLine at h
  split at h
  · rename_i ks r0 hk
    split at h
    · cases h
    · rename_i hlim
      split at h
      · rename_i r1
        split at h
        · rename_i v r2 hv
          split at h
          · split at h
            · rename_i path key hs
              cases ho : onKeyval st path key v with
              | none => simp [ho] at h
              | some st1 =>
                simp [ho] at h
                obtain ⟨e, _⟩ := h; subst e
                have hd : ks.length - 1 < LIMIT := by omega
                have hn := (depthInv _).1 _ _ _ _ hv hd
                have hl := splitLast_length ks path key hs
                exact onKeyval_ok st st1 path key v hi (by omega) ho
            · cases h
          · cases h
        · cases h
      · cases h
  · cases h

theorem tableLine_ok (st st' : ParseState) (s r : Bytes) (hi : Inv st) (h : tableLine st s = some (st', r)) :
    Inv st' := by
  unfold tableLine at h
  split at h
  · rename_i r0
    split at h
    · rename_i ks r1 hk
      split at h
      · split at h
        · cases ho : onArrayHeader st ks with
          | none => simp [ho] at h
          | some st1 =>
            simp [ho] at h
            obtain ⟨e, _⟩ := h; subst e
            exact onArrayHeader_ok st st1 ks hi (keyPath_len _ _ _ hk).2 ho
        · cases h
      · cases h
    · cases h
  · rename_i r0 _
    split at h
    · cases h
    · split at h
      · rename_i ks r1 hk
        split at h
        · split at h
          · cases ho : onStdHeader st ks with
            | none => simp [ho] at h
            | some st1 =>
              simp [ho] at h
              obtain ⟨e, _⟩ := h; subst e
              exact onStdHeader_ok st st1 ks hi (keyPath_len _ _ _ hk).2 ho
          · cases h
        · cases h
      · cases h
  · cases h

theorem lines_ok (fuel : Nat) (st st' : ParseState) (s : Bytes) (hi : Inv st) (h : lines fuel st s = some st') :
    Inv st' := by
  induction fuel generalizing st s with
  | zero => simp [lines] at h
  | succ fuel ih =>
    unfold lines at h
    split at h
    · injection h with h; subst h; exact hi
    · rename_i b r
      split at h
      · simp only [] at h
        split at h
        · injection h with h; subst h; exact hi
        · split at h
          · exact ih st _ hi h
          · cases h
      · split at h
        · split at h
          · rename_i st1 r1 ht
            exact ih st1 _ (tableLine_ok st st1 _ r1 hi ht) h
          · cases h
        · split at h
          · split at h
            · exact ih st _ hi h
            · cases h
          · split at h
            · rename_i st1 r1 hk
              exact ih st1 _ (keyvalLine_ok st st1 _ r1 hi hk) h
            · cases h

theorem parseDocument_ok (s : Bytes) (T : Tbl) (h : parseDocument s = some T) : OkTbl T 0 0 := by
  unfold parseDocument at h
  simp only [] at h
  split at h
  · rename_i st hl
    exact intoDocument_ok st T (lines_ok _ {} st _ inv_init hl) h
  · cases h

end TomlVerif.Lemmas.Depth05Doc
