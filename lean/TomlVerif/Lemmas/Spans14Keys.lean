import TomlVerif.Lemmas.Cst03
/-! C14 (document level): span bounds of the key parsers. Every offset is `pos n s = n - s.length`;
    the bounds only need length comparisons between the remaining inputs. -/
namespace TomlVerif.Lemmas.Spans14
open TomlVerif TomlVerif.Spec TomlVerif.Model TomlVerif.Model.Strings TomlVerif.Model.Value
open TomlVerif.Model.Cst TomlVerif.Lemmas.Cst03

/-! ### offsets and lengths -/

theorem pos_mono {n : Nat} {s r : Bytes} (h : r.length ≤ s.length) : pos n s ≤ pos n r := by
  unfold pos; omega

theorem pos_le (n : Nat) (s : Bytes) : pos n s ≤ n := by unfold pos; omega

theorem dropWs_len (s : Bytes) : (dropWs s).length ≤ s.length :=
  (Cst03.dropWs_suffix s).length_le

theorem dropComment_len (s : Bytes) : (dropComment s).length ≤ s.length :=
  (Cst03.dropComment_suffix s).length_le

theorem newline?_len {s r : Bytes} (h : newline? s = some r) : r.length < s.length :=
  (Cst03.newline?_suffix s r h).2

theorem wsCommentNewline_len {fuel : Nat} {s r : Bytes} (h : wsCommentNewline fuel s = some r) :
    r.length ≤ s.length :=
  (wsCommentNewline_suffix fuel s r h).length_le

theorem trailEnd_len (s : Bytes) : (trailEnd s).length ≤ s.length := (trailEnd_suffix s).length_le

theorem lineTrailing_len {s r : Bytes} (h : lineTrailing s = .ok () r) : r.length ≤ (trailEnd s).length :=
  (lineTrailing_suffix s r h).length_le

/-- the span of a piece between two remaining inputs, between two outer remaining inputs -/
theorem rb_allW (n : Nat) (a s r b : Bytes) (h1 : s.length ≤ a.length) (h2 : r.length ≤ s.length)
    (h3 : b.length ≤ r.length) : AllW (pos n a) (pos n b) (rawSp (rawBetween n s r)) :=
  rawBetween_allW n _ _ s r (pos_mono h1) (pos_mono h2) (pos_mono h3)

theorem _root_.TomlVerif.Lemmas.Cst03.AllW.mono_pos {n : Nat} {a s r b : Bytes} {l : List Span} (h : AllW (pos n s) (pos n r) l)
    (h1 : s.length ≤ a.length) (h3 : b.length ≤ r.length) : AllW (pos n a) (pos n b) l :=
  h.mono (pos_mono h1) (pos_mono h3)

theorem withSpan_allW {lo hi a b : Nat} (h : Within lo hi (a, b)) : AllW lo hi (rawSp (Raw.withSpan a b)) := by
  unfold Raw.withSpan
  split
  · exact AllW.nil _ _
  · intro sp hm
    simp [rawSp] at hm
    subst hm
    exact h

theorem _root_.TomlVerif.Lemmas.Cst03.AllW.single {lo hi : Nat} {sp : Span} (h : Within lo hi sp) : AllW lo hi [sp] := by
  intro x hx
  simp at hx
  subst hx
  exact h

theorem _root_.TomlVerif.Lemmas.Cst03.AllW.left {lo hi : Nat} {a b : List Span} (h : AllW lo hi (a ++ b)) : AllW lo hi a :=
  fun sp hm => h sp (List.mem_append_left _ hm)

theorem _root_.TomlVerif.Lemmas.Cst03.AllW.right {lo hi : Nat} {a b : List Span} (h : AllW lo hi (a ++ b)) : AllW lo hi b :=
  fun sp hm => h sp (List.mem_append_right _ hm)

theorem decorSp_default : decorSp {} = [] := rfl

theorem decorSp_empty : decorSp emptyDecor = [] := rfl

theorem decorSp_new (a b : Raw) : decorSp (Decor.new a b) = rawSp a ++ rawSp b := rfl

/-! ### `splitLast` -/

theorem splitLast_some {α} : ∀ (l i : List α) (x : α), Value.splitLast l = some (i, x) → l = i ++ [x]
  | [], i, x, h => by simp [Value.splitLast] at h
  | [a], i, x, h => by
    simp [Value.splitLast] at h
    obtain ⟨h1, h2⟩ := h; subst h1; subst h2; rfl
  | a :: b :: r, i, x, h => by
    rw [Value.splitLast] at h
    · cases hs : Value.splitLast (b :: r) with
      | none => simp [hs] at h
      | some pr =>
        obtain ⟨i', l'⟩ := pr
        simp [hs] at h
        obtain ⟨h1, h2⟩ := h; subst h1; subst h2
        rw [splitLast_some (b :: r) i' l' hs]; rfl
    · intro hx; cases hx

/-! ### spans of key lists -/

theorem keysSpans_append (a b : List CKey) : keysSpans (a ++ b) = keysSpans a ++ keysSpans b := by
  induction a with
  | nil => rfl
  | cons k r ih => simp [keysSpans, ih]

theorem keysSpans_single (k : CKey) : keysSpans [k] = keySpans k := by simp [keysSpans]

theorem mem_keysSpans {sp : Span} {ks : List CKey} : sp ∈ keysSpans ks ↔ ∃ k ∈ ks, sp ∈ keySpans k := by
  induction ks with
  | nil => simp [keysSpans]
  | cons k r ih => simp [keysSpans, ih]

/-! ### `ckeyPathAux`, `fixLeaf`, `ckeyPath` -/

theorem ckeyPathAux_spans (n : Nat) : ∀ (fuel : Nat) (s : Bytes) (acc ks : List CKey) (r : Bytes),
    ckeyPathAux n fuel s acc = .ok ks r →
    ∃ new, ks = acc ++ new ∧ r.length < s.length ∧ AllW (pos n s) (pos n r) (keysSpans new) := by
  intro fuel
  induction fuel with
  | zero => intro s acc ks r h; unfold ckeyPathAux at h; cases h
  | succ fuel ih =>
    intro s acc ks r h
    unfold ckeyPathAux at h
    simp only [] at h
    split at h
    · rename_i k r0 hk
      have h0 := (Suffix03.simpleKey_adv _ _ _ hk).2
      have l1 := dropWs_len s
      have l2 := dropWs_len r0
      obtain ⟨ck, hck⟩ : ∃ ck : CKey, ck = CKey.mk k (rawBetween n (dropWs s) r0) {}
          (Decor.new (rawBetween n s (dropWs s)) (rawBetween n r0 (dropWs r0))) := ⟨_, rfl⟩
      rw [← hck] at h
      have hckS : AllW (pos n s) (pos n (dropWs r0)) (keySpans ck) := by
        subst hck
        simp only [keySpans, decorSp_default, decorSp_new, List.append_nil]
        refine AllW.append (rb_allW _ _ _ _ _ l1 (by omega) l2) (AllW.append ?_ ?_)
        · exact rb_allW _ _ _ _ _ (Nat.le_refl _) l1 (by omega)
        · exact rb_allW _ _ _ _ _ (by omega) l2 (Nat.le_refl _)
      have base : ∃ new, acc ++ [ck] = acc ++ new ∧ (dropWs r0).length < s.length ∧
          AllW (pos n s) (pos n (dropWs r0)) (keysSpans new) :=
        ⟨[ck], rfl, by omega, by rw [keysSpans_single]; exact hckS⟩
      split at h
      · rename_i r2 heq
        have l3 : (dropWs r0).length = r2.length + 1 := by rw [heq]; simp
        split at h
        · injection h with h1 h2; subst h1; subst h2; exact base
        · rename_i other hne
          cases hres : ckeyPathAux n fuel r2 (acc ++ [ck]) with
          | bt => exact absurd hres (by simpa using hne)
          | cut => rw [hres] at h; cases h
          | ok ks' r' =>
            rw [hres] at h
            injection h with h1 h2; subst h1; subst h2
            obtain ⟨new, hnew, hlen, hsp⟩ := ih _ _ _ _ hres
            refine ⟨ck :: new, by rw [hnew]; simp, by omega, ?_⟩
            simp only [keysSpans]
            exact AllW.append (hckS.mono (Nat.le_refl _) (pos_mono (by omega)))
              (hsp.mono (pos_mono (by omega)) (Nat.le_refl _))
      · injection h with h1 h2; subst h1; subst h2; exact base
    · cases h
    · cases h

/-- the first key gives up its dotted prefix -/
def takePre (k : CKey) : Raw × CKey :=
  match k.dotted.pre with
  | some p => (p, { k with dotted := { k.dotted with pre := some .empty } })
  | none => (.empty, k)

/-- the last key gives up its dotted suffix -/
def takeSuf (k : CKey) : Raw × CKey :=
  match k.dotted.suf with
  | some q => (q, { k with dotted := { k.dotted with suf := some .empty } })
  | none => (.empty, k)

theorem fixLeaf_cons (first : CKey) (rest : List CKey) :
    fixLeaf (first :: rest) =
      match Value.splitLast ((takePre first).2 :: rest) with
      | none => (takePre first).2 :: rest
      | some (init, last) => init ++ [{ (takeSuf last).2 with leaf := Decor.new (takePre first).1 (takeSuf last).1 }] := by
  unfold fixLeaf
  simp only []
  cases hp : first.dotted.pre with
  | none =>
    simp only [takePre, hp]
    cases hsl : Value.splitLast (first :: rest) with
    | none => rfl
    | some pr =>
      obtain ⟨init, last⟩ := pr
      simp only []
      cases hq : last.dotted.suf with
      | none => simp only [takeSuf, hq]
      | some q => simp only [takeSuf, hq]
  | some p =>
    simp only [takePre, hp]
    generalize (CKey.mk first.key first.repr first.leaf ⟨some Raw.empty, first.dotted.suf⟩) = f'
    cases hsl : Value.splitLast (f' :: rest) with
    | none => rfl
    | some pr =>
      obtain ⟨init, last⟩ := pr
      simp only []
      cases hq : last.dotted.suf with
      | none => simp only [takeSuf, hq]
      | some q => simp only [takeSuf, hq]

theorem takePre_spans (k : CKey) :
    (∀ sp ∈ rawSp (takePre k).1, sp ∈ keySpans k) ∧ (∀ sp ∈ keySpans (takePre k).2, sp ∈ keySpans k) := by
  unfold takePre
  cases hp : k.dotted.pre with
  | none => simp [rawSp]
  | some p =>
    simp only [keySpans, decorSp, hp, optRawSp, rawSp]
    constructor
    · intro sp hm; simp [hm]
    · intro sp hm; simp at hm ⊢; rcases hm with hm | hm | hm | hm <;> simp [hm]

theorem takeSuf_spans (k : CKey) :
    (∀ sp ∈ rawSp (takeSuf k).1, sp ∈ keySpans k) ∧
    (∀ sp ∈ rawSp (takeSuf k).2.repr ++ decorSp (takeSuf k).2.dotted, sp ∈ keySpans k) := by
  unfold takeSuf
  cases hp : k.dotted.suf with
  | none => simp [rawSp, keySpans]; intro a b hm; rcases hm with hm | hm <;> simp [hm]
  | some p =>
    simp only [keySpans, decorSp, hp, optRawSp, rawSp]
    constructor
    · intro sp hm; simp [hm]
    · intro sp hm; simp at hm ⊢; rcases hm with hm | hm <;> simp [hm]

theorem fixLeaf_spans (ks : List CKey) : ∀ sp ∈ keysSpans (fixLeaf ks), sp ∈ keysSpans ks := by
  intro sp hm
  cases ks with
  | nil => exact hm
  | cons first rest =>
    rw [fixLeaf_cons] at hm
    have hfirst := takePre_spans first
    have hsub : ∀ sp ∈ keysSpans ((takePre first).2 :: rest), sp ∈ keysSpans (first :: rest) := by
      intro sp hm
      simp only [keysSpans, List.mem_append] at hm ⊢
      rcases hm with hm | hm
      · exact Or.inl (hfirst.2 sp hm)
      · exact Or.inr hm
    split at hm
    · exact hsub sp hm
    · rename_i init last hsl
      have hl := splitLast_some _ _ _ hsl
      have hlast : ∀ sp ∈ keySpans last, sp ∈ keysSpans (first :: rest) := by
        intro sp hm
        apply hsub
        rw [hl, keysSpans_append, keysSpans_single]
        exact List.mem_append_right _ hm
      have hinit : ∀ sp ∈ keysSpans init, sp ∈ keysSpans (first :: rest) := by
        intro sp hm
        apply hsub
        rw [hl, keysSpans_append]
        exact List.mem_append_left _ hm
      rw [keysSpans_append, keysSpans_single, List.mem_append] at hm
      rcases hm with hm | hm
      · exact hinit sp hm
      · have hs := takeSuf_spans last
        simp only [keySpans, decorSp_new, List.mem_append] at hm
        rcases hm with (hm | hm | hm) | hm
        · exact hlast sp (hs.2 sp (List.mem_append_left _ hm))
        · simp only [keysSpans, List.mem_append]
          exact Or.inl (hfirst.1 sp hm)
        · exact hlast sp (hs.1 sp hm)
        · exact hlast sp (hs.2 sp (List.mem_append_right _ hm))

theorem ckeyPath_spans (n : Nat) (s : Bytes) (ks : List CKey) (r : Bytes) (h : ckeyPath n s = .ok ks r) :
    r.length < s.length ∧ AllW (pos n s) (pos n r) (keysSpans ks) := by
  unfold ckeyPath at h
  cases hk : ckeyPathAux n (s.length + 1) s [] with
  | ok ks0 r0 =>
    rw [hk] at h
    simp only [] at h
    split at h
    · cases h
    · injection h with h1 h2; subst h1; subst h2
      obtain ⟨new, hnew, hlen, hsp⟩ := ckeyPathAux_spans n _ _ _ _ _ hk
      simp only [List.nil_append] at hnew
      subst hnew
      exact ⟨hlen, hsp.of_subset (fixLeaf_spans _)⟩
  | bt => rw [hk] at h; cases h
  | cut => rw [hk] at h; cases h

end TomlVerif.Lemmas.Spans14
