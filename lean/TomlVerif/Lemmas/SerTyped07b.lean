import TomlVerif.Lemmas.SerTyped07
/-! C07, reading back, part 2 (decoder side): introduction rules of `Good` for maps, derived structs and derived enums. -/
namespace TomlVerif.Lemmas.SerTyped07
open TomlVerif TomlVerif.Model TomlVerif.Model.TomlValue TomlVerif.Model.DeRoutes TomlVerif.Model.DeTyped
open TomlVerif.Model.DeText (presOfItem presOfVal presOfTbl presOfVals presOfValPairs presOfTbls presOfItems)
open TomlVerif.Model.SerTyped TomlVerif.Lemmas.DeTyped13 TomlVerif.Lemmas.DeRoutes13

/-! ## maps -/

theorem goodPairs_edit (fl : Flavour) (t : Ty) (c : EditCfg) (f : Bytes × ESrc → R (Bytes × Dec))
    (hf : ∀ k i, f (k, ESrc.item i) = rmap (fun d => (k, d)) (decodeEdit c fl t i)) :
    ∀ (es : List (Bytes × Item)) (nds : List (Bytes × Dec)),
    GoodPairs fl t (pairsTV es) nds → mapE f (es.map fun kv => (kv.1, ESrc.item kv.2)) = .ok nds
  | [], [], _ => rfl
  | [], _ :: _, h => by simp [pairsTV, GoodPairs] at h
  | _ :: _, [], h => by simp [pairsTV, GoodPairs] at h
  | (k, i) :: es, (k', d) :: ds, h => by
    simp only [pairsTV, List.map_cons, GoodPairs] at h
    obtain ⟨hk, hg, hr⟩ := h
    subst hk
    have ih := goodPairs_edit fl t c f hf es ds hr
    simp only [List.map_cons, mapE]
    rw [ih, hf, hg.1 c i rfl]; rfl

theorem goodPairs_value (fl : Flavour) (t : Ty) (cv : ValueCfg) : ∀ (es : List (Bytes × TV)) (nds : List (Bytes × Dec)),
    GoodPairs fl t es nds →
    mapE (fun kv : Bytes × TV => rmap (fun d => (kv.1, d)) (decodeValue cv fl t kv.2)) es = .ok nds
  | [], [], _ => rfl
  | [], _ :: _, h => by simp [GoodPairs] at h
  | _ :: _, [], h => by simp [GoodPairs] at h
  | (k, w) :: es, (k', d) :: ds, h => by
    simp only [GoodPairs] at h
    obtain ⟨hk, hg, hr⟩ := h
    subst hk
    simp only [mapE]
    rw [goodPairs_value fl t cv es ds hr, hg.2 cv]; rfl

theorem good_map (fl : Flavour) (t : Ty) (es : List (Bytes × TV)) (nds : List (Bytes × Dec))
    (h : GoodPairs fl t es nds) : Good fl (.map t) (.tbl es) (.map (collectSorted [] nds)) := by
  constructor
  · intro c it hit
    obtain ⟨es0, hk, he⟩ := kind_of_tbl hit
    obtain ⟨_, _, h3, _⟩ := view_entries hk
    unfold decodeEdit
    subst he
    rw [h3]
    simp only []
    rw [goodPairs_edit fl t c _ (fun k i => rfl) es0 nds h]; rfl
  · intro cv
    unfold decodeValue
    simp only [valueMapEntries]
    rw [goodPairs_value fl t cv es nds h]; rfl

/-! ## derived structs -/

theorem goodFields_edit (fl : Flavour) (c : EditCfg) : ∀ (fs : Fields) (es : List (Bytes × Item)) (nds : List (Bytes × Dec)),
    GoodFields fl fs (pairsTV es) nds →
    decodeEditFields c fl fs (es.map fun kv => (kv.1, ESrc.item kv.2)) = .ok nds
  | .nil, es, nds, h => by simp only [GoodFields] at h; rw [decodeEditFields, h]
  | .cons name t dflt r, es, nds, h => by
    simp only [GoodFields] at h
    obtain ⟨nd, rest, hn, hm, hr⟩ := h
    subst hn
    rw [decodeEditFields, goodFields_edit fl c r es rest hr, alookup_map]
    rw [pairsTV, alookup_map] at hm
    cases hl : alookup name es with
    | none =>
      rw [hl] at hm
      simp only [Option.map_none] at hm ⊢
      cases dflt with
      | true => simp only [if_true] at hm; subst hm; rfl
      | false => simp only [Bool.false_eq_true, if_false] at hm ⊢; rw [hm]; rfl
    | some i =>
      rw [hl] at hm
      simp only [Option.map_some] at hm ⊢
      rw [hm.1 c i rfl]; rfl

theorem goodFields_value (fl : Flavour) (cv : ValueCfg) : ∀ (fs : Fields) (es : List (Bytes × TV)) (nds : List (Bytes × Dec)),
    GoodFields fl fs es nds → decodeValueFields cv fl fs es = .ok nds
  | .nil, es, nds, h => by simp only [GoodFields] at h; rw [decodeValueFields, h]
  | .cons name t dflt r, es, nds, h => by
    simp only [GoodFields] at h
    obtain ⟨nd, rest, hn, hm, hr⟩ := h
    subst hn
    rw [decodeValueFields, goodFields_value fl cv r es rest hr]
    cases hl : alookup name es with
    | none =>
      rw [hl] at hm
      simp only at hm ⊢
      cases dflt with
      | true => simp only [if_true] at hm; subst hm; rfl
      | false => simp only [Bool.false_eq_true, if_false] at hm ⊢; rw [hm]; rfl
    | some w =>
      rw [hl] at hm
      simp only at hm ⊢
      rw [hm.2 cv]; rfl

/-- the body shared by `deserialize_struct` and `struct_variant` on a table -/
theorem struct_body_edit (fl : Flavour) (c : EditCfg) (fs : Fields) (W : List (Bytes × Dec) → Dec) (it : Item)
    (es : List (Bytes × TV)) (nds : List (Bytes × Dec)) (hit : plainItem it = .tbl es)
    (hd : dupField fs (es.map Prod.fst) = false) (h : GoodFields fl fs es nds) :
    (match editMapEntries it with
     | some es =>
       if dupField fs (es.map Prod.fst) then fail else
       rmap W (decodeEditFields c fl fs es)
     | none =>
       match itemElems it with
       | some l =>
         rmap W (decodeEditFieldsSeq c fl fs l)
       | none => fail) = .ok (W nds) := by
  obtain ⟨es0, hk, he⟩ := kind_of_tbl hit
  obtain ⟨_, _, h3, _⟩ := view_entries hk
  subst he
  rw [h3]
  rw [pairsTV_keys] at hd
  simp only [srcKeys, hd, Bool.false_eq_true, if_false, goodFields_edit fl c fs es0 nds h]; rfl

theorem struct_body_value (fl : Flavour) (cv : ValueCfg) (fs : Fields) (W : List (Bytes × Dec) → Dec)
    (es : List (Bytes × TV)) (nds : List (Bytes × Dec))
    (hd : dupField fs (es.map Prod.fst) = false) (h : GoodFields fl fs es nds) :
    (match valueMapEntries (.tbl es) with
     | some es =>
       if dupField fs (es.map Prod.fst) then fail else
       rmap W (decodeValueFields cv fl fs es)
     | none =>
       match TV.tbl es with
       | .arr l =>
         if cv.trailingCheck && l.length > fs.length then fail else
         rmap W (decodeValueFieldsSeq cv fl fs l)
       | _ => (fail : R Dec)) = .ok (W nds) := by
  simp only [valueMapEntries, hd, Bool.false_eq_true, if_false, goodFields_value fl cv fs es nds h]; rfl

theorem good_struct (fl : Flavour) (fs : Fields) (es : List (Bytes × TV)) (nds : List (Bytes × Dec))
    (hd : dupField fs (es.map Prod.fst) = false) (h : GoodFields fl fs es nds) :
    Good fl (.struct fs) (.tbl es) (.struct nds) := by
  constructor
  · intro c it hit
    unfold decodeEdit
    exact struct_body_edit fl c fs Dec.struct it es nds hit hd h
  · intro cv
    unfold decodeValue
    exact struct_body_value fl cv fs Dec.struct es nds hd h

/-- no key names a field twice when the keys are pairwise distinct -/
theorem dupField_nodup (fs : Fields) : ∀ ks : List Bytes, ks.Nodup → dupField fs ks = false
  | [], _ => rfl
  | k :: r, h => by
    rw [List.nodup_cons] at h
    have : r.contains k = false := by
      cases hc : r.contains k with
      | false => rfl
      | true => exact absurd (by simpa using hc) h.1
    simp [dupField, dupField_nodup fs r h.2]
    intro _; exact h.1

/-! ## derived enums -/

theorem good_enum_str (fl : Flavour) (vs : Variants) (s : Bytes) (nd : Dec) (h : unitOnlyVariant vs s = .ok nd) :
    Good fl (.enum vs) (.str s) nd := by
  constructor
  · intro c it hit
    rw [item_of_str hit]
    unfold decodeEdit
    exact h
  · intro cv
    unfold decodeValue
    exact h

/-- a payload below the variant key, of the shape the serializers produce for that kind of variant -/
def GoodShape (fl : Flavour) : Shape → Bytes → TV → Dec → Prop
  | .unit, _, _, _ => False
  | .newtype t, n, p, nd => ∃ nd', nd = .vNewtype n nd' ∧ Good fl t p nd'
  | .tuple ts, n, p, nd => ∃ ws nds, p = .arr ws ∧ nd = .vTuple n nds ∧ GoodTys fl ts ws nds
  | .struct fs, n, p, nd => ∃ es nds, p = .tbl es ∧ nd = .vStruct n nds ∧
      (∀ k ∈ es.map Prod.fst, fs.hasName k = true) ∧ dupField fs (es.map Prod.fst) = false ∧ GoodFields fl fs es nds

def GoodVariants (fl : Flavour) : Variants → Bytes → TV → Dec → Prop
  | .nil, _, _, _ => False
  | .cons name s r, k, p, nd => if name == k then GoodShape fl s name p nd else GoodVariants fl r k p nd

theorem any_not_hasName (fs : Fields) : ∀ (es : List (Bytes × Item)),
    (∀ k ∈ es.map Prod.fst, fs.hasName k = true) → (es.any fun kv => !fs.hasName kv.1) = false
  | [], _ => rfl
  | (k, i) :: r, h => by
    simp only [List.any_cons, Bool.or_eq_false_iff, Bool.not_eq_false']
    exact ⟨h k (by simp), any_not_hasName fs r (fun k' hk' => h k' (by simp at hk' ⊢; exact .inr hk'))⟩

theorem goodShape_edit (fl : Flavour) (c : EditCfg) (s : Shape) (n : Bytes) (i : Item) (nd : Dec)
    (h : GoodShape fl s n (plainItem i) nd) : decodeEditShape c fl s n i = .ok nd := by
  cases s with
  | unit => simp [GoodShape] at h
  | newtype t =>
    obtain ⟨nd', hn, hg⟩ := h
    unfold decodeEditShape
    rw [hg.1 c i rfl, hn]; rfl
  | tuple ts =>
    obtain ⟨ws, nds, hp, hn, hg⟩ := h
    obtain ⟨l, hk, hl⟩ := kind_of_arr hp
    obtain ⟨h1, _⟩ := view_elems hk
    unfold decodeEditShape
    subst hl
    have hlen := goodTys_length fl ts _ nds hg
    rw [List.length_map] at hlen
    rw [h1]
    simp only [hlen, beq_self_eq_true, if_true, goodTys_edit fl c ts l nds hg, hn]; rfl
  | struct fs =>
    obtain ⟨es, nds, hp, hn, hkeys, hd, hg⟩ := h
    unfold decodeEditShape
    have hbody := struct_body_edit fl c fs (Dec.vStruct n) i es nds hp hd hg
    obtain ⟨es0, hk, he⟩ := kind_of_tbl hp
    obtain ⟨_, h2, _⟩ := view_entries hk
    subst he
    rw [pairsTV_keys] at hkeys
    rw [h2]
    simp only [any_not_hasName fs es0 hkeys, Bool.and_false, Bool.false_eq_true, if_false]
    rw [hn]; exact hbody

theorem goodShape_value (fl : Flavour) (cv : ValueCfg) (s : Shape) (n : Bytes) (p : TV) (nd : Dec)
    (h : GoodShape fl s n p nd) : decodeValueShape cv fl s n p = .ok nd := by
  cases s with
  | unit => simp [GoodShape] at h
  | newtype t =>
    obtain ⟨nd', hn, hg⟩ := h
    unfold decodeValueShape
    rw [hg.2 cv, hn]; rfl
  | tuple ts =>
    obtain ⟨ws, nds, hp, hn, hg⟩ := h
    subst hp
    unfold decodeValueShape
    have hlen := goodTys_length fl ts _ nds hg
    simp only [hlen, beq_self_eq_true, if_true, goodTys_value fl cv ts ws nds hg, hn]; rfl
  | struct fs =>
    obtain ⟨es, nds, hp, hn, hkeys, hd, hg⟩ := h
    subst hp
    unfold decodeValueShape
    rw [hn]; exact struct_body_value fl cv fs (Dec.vStruct n) es nds hd hg

theorem goodVariants_edit (fl : Flavour) (c : EditCfg) : ∀ (vs : Variants) (k : Bytes) (i : Item) (nd : Dec),
    GoodVariants fl vs k (plainItem i) nd → decodeEditVariants c fl vs k i = .ok nd
  | .nil, _, _, _, h => by simp [GoodVariants] at h
  | .cons name s r, k, i, nd, h => by
    rw [decodeEditVariants]
    simp only [GoodVariants] at h
    split
    · rename_i hn; rw [if_pos hn] at h; exact goodShape_edit fl c s name i nd h
    · rename_i hn; rw [if_neg hn] at h; exact goodVariants_edit fl c r k i nd h

theorem goodVariants_value (fl : Flavour) (cv : ValueCfg) : ∀ (vs : Variants) (k : Bytes) (p : TV) (nd : Dec),
    GoodVariants fl vs k p nd → decodeValueVariants cv fl vs k p = .ok nd
  | .nil, _, _, _, h => by simp [GoodVariants] at h
  | .cons name s r, k, p, nd, h => by
    rw [decodeValueVariants]
    simp only [GoodVariants] at h
    split
    · rename_i hn; rw [if_pos hn] at h; exact goodShape_value fl cv s name p nd h
    · rename_i hn; rw [if_neg hn] at h; exact goodVariants_value fl cv r k p nd h

theorem good_enum_tbl (fl : Flavour) (vs : Variants) (k : Bytes) (p : TV) (nd : Dec)
    (h : GoodVariants fl vs k p nd) : Good fl (.enum vs) (.tbl [(k, p)]) nd := by
  constructor
  · intro c it hit
    obtain ⟨es0, hk, he⟩ := kind_of_tbl hit
    obtain ⟨_, h2, _, h4, _⟩ := view_entries hk
    unfold decodeEdit
    match es0, he, h2 with
    | [(k', i)], he, h2 =>
      simp only [pairsTV, List.map_cons, List.map_nil, List.cons.injEq, Prod.mk.injEq, and_true] at he
      obtain ⟨hk', hp⟩ := he
      subst hk' hp
      split
      · exact absurd rfl (h4 _)
      · rw [h2]; exact goodVariants_edit fl c vs _ i nd h
    | [], he, _ => simp [pairsTV] at he
    | _ :: _ :: _, he, _ => simp [pairsTV] at he
  · intro cv
    unfold decodeValue
    exact goodVariants_value fl cv vs k p nd h

end TomlVerif.Lemmas.SerTyped07
