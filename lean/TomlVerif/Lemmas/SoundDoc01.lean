import TomlVerif.Lemmas.SoundDoc01Ast
import TomlVerif.Lemmas.Doc01
import TomlVerif.Props.C01Sound
/-! Soundness of the line driver (`lineTrailing`, `keyvalLine`, `tableLine`, `lines`, `parseDocument`) with
    respect to the document syntax `QDoc` of `Lemmas/SoundDoc01Ast.lean`: converse of `Lemmas/Doc01.lean`. -/
namespace TomlVerif.Lemmas.SoundDoc01
open TomlVerif TomlVerif.Spec TomlVerif.Model TomlVerif.Model.Strings TomlVerif.Model.Value
open TomlVerif.Model.State TomlVerif.Model.Doc
open TomlVerif.Spec.AstValue TomlVerif.Spec.AstValueQ TomlVerif.Spec.AstDoc TomlVerif.Spec.AstDocQ
open TomlVerif.Lemmas.Value01 TomlVerif.Lemmas.State09 TomlVerif.Lemmas.Sound01
open TomlVerif.Lemmas.Doc01 (LineEnd)

/-! ## (a) line ends -/

theorem allWs_nil : AllWs [] := by intro b hb; cases hb
theorem commentOK_none : CommentOK none := by intro body h; cases h
theorem commentOK_some (body : Bytes) (h : ∀ b ∈ body, isNonEol b = true) : CommentOK (some body) := by
  intro b hb; injection hb with hb; subst hb; exact h

/-- `newline / eof` -/
def lineEndK (s2 : Bytes) : Res Unit :=
  match s2 with
  | [] => .ok () []
  | _ => match newline? s2 with
    | some r => .ok () r
    | none => .bt

/-- `[comment]` -/
def afterHash : Bytes → Bytes
  | 0x23 :: r => dropComment r
  | s => s

theorem afterHash_noHash (s : Bytes) (h : ∀ r, s = 0x23 :: r → False) : afterHash s = s := by
  unfold afterHash
  split
  · rename_i r; exact (h r rfl).elim
  · rfl

theorem lineTrailing_shape (s : Bytes) : lineTrailing s = lineEndK (afterHash (dropWs s)) := by
  unfold lineTrailing
  simp only []
  generalize dropWs s = s1
  by_cases hx : ∃ r, s1 = 0x23 :: r
  · obtain ⟨r, rfl⟩ := hx; rfl
  · rw [afterHash_noHash s1 (fun r hr => hx ⟨r, hr⟩)]
    cases s1 with
    | nil => rfl
    | cons b t =>
      have hb : b ≠ 0x23 := fun hb => hx ⟨t, by rw [hb]⟩
      simp [hb, lineEndK]
      cases newline? (b :: t) <;> rfl

theorem afterHash_other (b : UInt8) (t : Bytes) (hb : b ≠ 0x23) : afterHash (b :: t) = b :: t := by
  unfold afterHash
  split
  · rename_i heq; injection heq with h1 _; exact absurd h1 hb
  · rfl

/-- what is left after blanks and an optional comment is empty or starts with a line end -/
theorem lineEnd_of (s2 r : Bytes) (h : lineEndK s2 = .ok () r) : LineEnd s2 r := by
  unfold lineEndK at h
  split at h
  · injection h with _ h; subst h; exact .eof
  · split at h
    · rename_i r' hnl
      injection h with _ h; subst h
      obtain ⟨c, ec⟩ := newline_split _ _ hnl
      rw [ec]; exact .nl c _
    · cases h

/-- **`line_trailing`, soundness** (converse of `lineTrailing_nl` / `lineTrailing_eof`): what it consumes is
    `ws [comment]` followed by a line end or the end of the input -/
theorem lineTrailing_sound (s r : Bytes) (h : lineTrailing s = .ok () r) :
    ∃ (w2 : Bytes) (cm : Option Bytes) (T : Bytes), AllWs w2 ∧ CommentOK cm ∧
      s = w2 ++ (commentBytes cm ++ T) ∧ LineEnd T r := by
  obtain ⟨w, hw, es, _⟩ := dropWs_split s
  rw [lineTrailing_shape] at h
  cases hs1 : dropWs s with
  | nil =>
    rw [hs1] at h es
    exact ⟨w, none, [], hw, commentOK_none, by simpa [commentBytes] using es, lineEnd_of [] r h⟩
  | cons b t =>
    rw [hs1] at h es
    by_cases hb : b = 0x23
    · subst hb
      obtain ⟨body, hbody, eb⟩ := dropComment_split t
      refine ⟨w, some body, dropComment t, hw, commentOK_some body hbody, ?_, lineEnd_of _ r h⟩
      rw [es, commentBytes, List.cons_append, ← eb]
    · rw [afterHash_other b t hb] at h
      exact ⟨w, none, b :: t, hw, commentOK_none, by simpa [commentBytes] using es, lineEnd_of _ r h⟩

/-! ## (b) `key = value` lines -/

theorem keys_length (k : QDKey) : k.keys.length - 1 = k.more.length := by simp [QDKey.keys]

/-- **`key = value` lines, soundness**: what `parse_keyval` accepts is a dotted key of the grammar, `=`, blanks,
    a well-formed value nested below the limit, blanks, an optional comment, and a line end or the end of the input;
    the state callback gets the decoded key split into table path and last component, and the value the tree denotes -/
theorem keyvalLine_sound (st st' : ParseState) (s r3 : Bytes) (h : keyvalLine st s = some (st', r3)) :
    ∃ (k : QDKey) (w1 : Bytes) (v : QVal) (w2 : Bytes) (cm : Option Bytes) (T : Bytes),
      (QLine.keyval k w1 v w2 cm).WF ∧ s = (QLine.keyval k w1 v w2 cm).render ++ T ∧ LineEnd T r3 ∧
      onKeyval st k.path k.last (semQ v) = some st' := by
  unfold keyvalLine at h
  split at h
  · rename_i ks r hk
    obtain ⟨k, hkwf, es, rfl⟩ := keyPath_sound _ _ _ hk
    split at h
    · cases h
    · split at h
      · rename_i r1
        split at h
        · rename_i v r2 hv
          split at h
          · rename_i r3' hlt
            split at h
            · rename_i path key hsl
              rw [TomlVerif.Lemmas.Sound01C.splitLast_keysQ k] at hsl
              injection hsl with hsl
              injection hsl with hp hkey
              subst hp hkey
              cases ho : onKeyval st k.path k.last v with
              | none => rw [ho] at h; cases h
              | some st1 =>
                rw [ho] at h
                simp only [Option.map_some] at h
                injection h with h
                injection h with h1 h2
                subst h1 h2
                obtain ⟨w1, hw1, er1, _⟩ := dropWs_split r1
                have hd : k.keys.length - 1 < LIMIT := by rw [keys_length]; have := hkwf.2.2; omega
                obtain ⟨a, hwa, ea, hsem, hdep⟩ :=
                  TomlVerif.Props.C01Sound.T01_value_sound_depth _ _ _ _ _ hv hd
                obtain ⟨w2, cm, T, hw2, hcm, er2, hT⟩ := lineTrailing_sound _ _ hlt
                subst hsem
                refine ⟨k, w1, a, w2, cm, T, ⟨hkwf, hw1, hwa, by rw [keys_length] at hdep; exact hdep, hw2, hcm⟩, ?_, hT, ho⟩
                rw [es, er1, ea, er2]
                simp [QLine.render]
            · cases h
          · cases h
        · cases h
      · cases h
  · cases h

/-! ## (c) header lines -/

theorem map_pair_some {α β : Type} (o : Option α) (r r' : β) (a : α)
    (h : (o.map fun x => (x, r)) = some (a, r')) : o = some a ∧ r = r' := by
  cases o with
  | none => cases h
  | some x =>
    simp only [Option.map_some] at h
    injection h with h
    injection h with h1 h2
    exact ⟨by rw [h1], h2⟩

/-- **header lines, soundness**: what `table` accepts is `[ key ]` or `[[ key ]]` with a dotted key of the grammar,
    then blanks, an optional comment, and a line end or the end of the input; the state callback gets the decoded key -/
theorem tableLine_sound (st st' : ParseState) (s r3 : Bytes) (h : tableLine st s = some (st', r3)) :
    ∃ (k : QDKey) (w2 : Bytes) (cm : Option Bytes) (T : Bytes), k.WF ∧ AllWs w2 ∧ CommentOK cm ∧ LineEnd T r3 ∧
      ((s = (QLine.std [] k w2 cm).render ++ T ∧ onStdHeader st k.keys = some st') ∨
       (s = (QLine.aot [] k w2 cm).render ++ T ∧ onArrayHeader st k.keys = some st')) := by
  unfold tableLine at h
  split at h
  · rename_i r
    split at h
    · rename_i ks r1 hk
      obtain ⟨k, hkwf, es, rfl⟩ := keyPath_sound _ _ _ hk
      split at h
      · rename_i r2
        split at h
        · rename_i r3' hlt
          obtain ⟨ho, rfl⟩ := map_pair_some _ _ _ _ h
          obtain ⟨w2, cm, T, hw2, hcm, er2, hT⟩ := lineTrailing_sound _ _ hlt
          refine ⟨k, w2, cm, T, hkwf, hw2, hcm, hT, Or.inr ⟨?_, ho⟩⟩
          rw [es, er2]; simp [QLine.render]
        · cases h
      · cases h
    · cases h
  · rename_i r _
    split at h
    · cases h
    · split at h
      · rename_i ks r1 hk
        obtain ⟨k, hkwf, es, rfl⟩ := keyPath_sound _ _ _ hk
        split at h
        · rename_i r2
          split at h
          · rename_i r3' hlt
            obtain ⟨ho, rfl⟩ := map_pair_some _ _ _ _ h
            obtain ⟨w2, cm, T, hw2, hcm, er2, hT⟩ := lineTrailing_sound _ _ hlt
            refine ⟨k, w2, cm, T, hkwf, hw2, hcm, hT, Or.inl ⟨?_, ho⟩⟩
            rw [es, er2]; simp [QLine.render]
          · cases h
        · cases h
      · cases h
  · cases h

/-! ## (d) the statement loop -/

theorem allWs_append (a b : Bytes) (ha : AllWs a) (hb : AllWs b) : AllWs (a ++ b) := by
  intro x hx
  rcases List.mem_append.1 hx with h | h
  · exact ha x h
  · exact hb x h

/-- blanks in front of a dotted key belong to its first component -/
def keyAddWs (ws : Bytes) (k : QDKey) : QDKey := ⟨⟨ws ++ k.first.pre, k.first.raw, k.first.key, k.first.post⟩, k.more⟩

/-- the same line with more blanks in front -/
def addWs (ws : Bytes) : QLine → QLine
  | .blank w => .blank (ws ++ w)
  | .comment w body => .comment (ws ++ w) body
  | .keyval k w1 v w2 cm => .keyval (keyAddWs ws k) w1 v w2 cm
  | .std w k w2 cm => .std (ws ++ w) k w2 cm
  | .aot w k w2 cm => .aot (ws ++ w) k w2 cm

theorem keyAddWs_render (ws : Bytes) (k : QDKey) : (keyAddWs ws k).render = ws ++ k.render := by
  simp [keyAddWs, QDKey.render, QKey.render]

theorem keyAddWs_wf (ws : Bytes) (k : QDKey) (hws : AllWs ws) (hk : k.WF) : (keyAddWs ws k).WF :=
  ⟨⟨allWs_append _ _ hws hk.1.1, hk.1.2.1, hk.1.2.2⟩, hk.2.1, hk.2.2⟩

theorem addWs_render (ws : Bytes) (l : QLine) : (addWs ws l).render = ws ++ l.render := by
  cases l <;> simp [addWs, QLine.render, keyAddWs_render]

theorem addWs_wf (ws : Bytes) (l : QLine) (hws : AllWs ws) (h : l.WF) : (addWs ws l).WF := by
  cases l with
  | blank w => exact allWs_append _ _ hws h
  | comment w body => exact ⟨allWs_append _ _ hws h.1, h.2⟩
  | keyval k w1 v w2 cm => exact ⟨keyAddWs_wf ws k hws h.1, h.2⟩
  | std w k w2 cm => exact ⟨allWs_append _ _ hws h.1, h.2⟩
  | aot w k w2 cm => exact ⟨allWs_append _ _ hws h.1, h.2⟩

theorem addWs_stmt (ws : Bytes) (l : QLine) : (addWs ws l).stmt = l.stmt := by
  cases l <;> rfl

/-- the effect of one line on the state: the step of its statement, if it has one -/
def stepLineQ (st : ParseState) (l : QLine) : Option ParseState :=
  match l.stmt with
  | none => some st
  | some s => step st s

theorem stepLineQ_addWs (st : ParseState) (ws : Bytes) (l : QLine) : stepLineQ st (addWs ws l) = stepLineQ st l := by
  unfold stepLineQ; rw [addWs_stmt]

/-- the text is the rendering of well-formed lines whose statements lead from `st` to `st'` -/
def LinesGoal (st st' : ParseState) (s : Bytes) : Prop :=
  ∃ (ls : List (QLine × Bool)) (last : Option QLine), (∀ p ∈ ls, p.1.WF) ∧ (∀ l, last = some l → l.WF) ∧
    s = renderLinesQ ls ++ renderLastQ last ∧ run st (stmtsLinesQ ls ++ stmtsLastQ last) = some st'

theorem finish_eof (st st' : ParseState) (l : QLine) (hwf : l.WF) (hstep : stepLineQ st l = some st') :
    LinesGoal st st' l.render := by
  refine ⟨[], some l, (by intro p hp; cases hp), (by intro l' hl; injection hl with hl; subst hl; exact hwf),
    by simp [renderLinesQ, renderLastQ], ?_⟩
  unfold stepLineQ at hstep
  simp only [stmtsLinesQ, stmtsLastQ, List.nil_append]
  cases hs : l.stmt with
  | none => rw [hs] at hstep; simpa [run] using hstep
  | some x => rw [hs] at hstep; simp only [run, hstep]

theorem finish_nl (st st1 st' : ParseState) (l : QLine) (c : Bool) (more : Bytes) (hwf : l.WF)
    (hstep : stepLineQ st l = some st1) (hmore : LinesGoal st1 st' more) :
    LinesGoal st st' (l.render ++ (nlBytes c ++ more)) := by
  obtain ⟨ls, last, h1, h2, h3, h4⟩ := hmore
  refine ⟨(l, c) :: ls, last, ?_, h2, by simp [renderLinesQ, h3], ?_⟩
  · intro p hp
    rcases List.mem_cons.1 hp with rfl | hp
    · exact hwf
    · exact h1 p hp
  · unfold stepLineQ at hstep
    simp only [stmtsLinesQ]
    cases hs : l.stmt with
    | none =>
      rw [hs] at hstep
      injection hstep with hstep
      subst hstep
      exact h4
    | some x =>
      rw [hs] at hstep
      simp only [List.cons_append, run, hstep]
      exact h4

theorem lines_zero (st : ParseState) (s : Bytes) : lines 0 st s = none := by
  unfold lines; rfl

theorem lines_nil_eq (f : Nat) (st st' : ParseState) (h : lines f st [] = some st') : st = st' := by
  cases f with
  | zero => rw [lines_zero] at h; cases h
  | succ f => rw [TomlVerif.Lemmas.Doc01.lines_nil] at h; injection h

/-- a line followed by a line end and the rest of the loop, or by nothing -/
theorem finish (f : Nat) (ih : ∀ (st st' : ParseState) (s : Bytes), lines f st (dropWs s) = some st' → LinesGoal st st' s)
    (st st1 st' : ParseState) (l : QLine) (T r1 : Bytes) (hwf : l.WF) (hstep : stepLineQ st l = some st1)
    (hT : LineEnd T r1) (hl : lines f st1 (dropWs r1) = some st') : LinesGoal st st' (l.render ++ T) := by
  cases hT with
  | nl c => exact finish_nl st st1 st' l c r1 hwf hstep (ih st1 st' r1 hl)
  | eof =>
    have := lines_nil_eq f st1 st' hl
    subst this
    rw [List.append_nil]
    exact finish_eof st st1 l hwf hstep

/-- **(d) the statement loop, soundness**: if the loop accepts, the text is the rendering of well-formed lines
    (`ws`, comment, `key = value`, `[table]`, `[[array]]`, each ended by LF or CRLF, the last one possibly without line
    end) and `run` on their statements reaches the same state -/
theorem lines_sound : ∀ (fuel : Nat) (st st' : ParseState) (s : Bytes),
    lines fuel st (dropWs s) = some st' → LinesGoal st st' s := by
  intro fuel
  induction fuel with
  | zero => intro st st' s h; rw [lines_zero] at h; cases h
  | succ f ih =>
    intro st st' s h
    obtain ⟨ws, hws, es, hhd⟩ := dropWs_split s
    cases hs1 : dropWs s with
    | nil =>
      rw [hs1] at h es
      have := lines_nil_eq _ _ _ h
      subst this
      rw [List.append_nil] at es
      rw [es]
      exact finish_eof st st (.blank ws) hws rfl
    | cons b r =>
      rw [hs1] at h es
      rw [lines] at h
      simp only [] at h
      split at h
      · -- comment
        rename_i hb
        have hb' : b = 0x23 := by simpa using hb
        subst hb'
        obtain ⟨body, hbody, eb⟩ := dropComment_split r
        have hwf : (QLine.comment ws body).WF := ⟨hws, hbody⟩
        have hT : ∃ T r1, r = body ++ T ∧ LineEnd T r1 ∧ (T = [] → st = st') ∧
            (T ≠ [] → lines f st (dropWs r1) = some st') := by
          split at h
          · rename_i hdc
            injection h with h
            exact ⟨[], [], by rw [eb, hdc], .eof, fun _ => h, fun hne => absurd rfl hne⟩
          · rename_i hne
            split at h
            · rename_i r2 hnl
              obtain ⟨c, ec⟩ := newline_split _ _ hnl
              refine ⟨nlBytes c ++ r2, r2, by rw [← ec]; exact eb, .nl c r2, ?_, fun _ => h⟩
              intro he
              cases c <;> simp [nlBytes] at he
            · cases h
        obtain ⟨T, r1, er, hT, h1, h2⟩ := hT
        have e : s = (QLine.comment ws body).render ++ T := by
          rw [es, er]; simp [QLine.render]
        rw [e]
        cases hT with
        | eof =>
          have := h1 rfl
          subst this
          rw [List.append_nil]
          exact finish_eof st st _ hwf rfl
        | nl c =>
          have hne : nlBytes c ++ r1 ≠ [] := by cases c <;> simp [nlBytes]
          exact finish_nl st st st' _ c r1 hwf rfl (ih st st' r1 (h2 hne))
      · split at h
        · -- header
          rename_i hb0 hb
          have hb' : b = 0x5B := by simpa using hb
          subst hb'
          split at h
          · rename_i st1 r1 htl
            obtain ⟨k, w2, cm, T, hkwf, hw2, hcm, hT, hor⟩ := tableLine_sound _ _ _ _ htl
            rcases hor with ⟨e, ho⟩ | ⟨e, ho⟩
            · have hwf : (QLine.std [] k w2 cm).WF := ⟨allWs_nil, hkwf, hw2, hcm⟩
              have := finish f ih st st1 st' (addWs ws (.std [] k w2 cm)) T r1 (addWs_wf _ _ hws hwf)
                (by rw [stepLineQ_addWs]; exact ho) hT h
              rw [addWs_render, List.append_assoc, ← e, ← es] at this
              exact this
            · have hwf : (QLine.aot [] k w2 cm).WF := ⟨allWs_nil, hkwf, hw2, hcm⟩
              have := finish f ih st st1 st' (addWs ws (.aot [] k w2 cm)) T r1 (addWs_wf _ _ hws hwf)
                (by rw [stepLineQ_addWs]; exact ho) hT h
              rw [addWs_render, List.append_assoc, ← e, ← es] at this
              exact this
          · cases h
        · split at h
          · -- empty line
            split at h
            · rename_i r1 hnl
              obtain ⟨c, ec⟩ := newline_split _ _ hnl
              have := finish_nl st st st' (.blank ws) c r1 hws rfl (ih st st' r1 h)
              rw [QLine.render, ← ec, ← es] at this
              exact this
            · cases h
          · -- key = value
            split at h
            · rename_i st1 r1 hkv
              obtain ⟨k, w1, v, w2, cm, T, hwf, e, hT, ho⟩ := keyvalLine_sound _ _ _ _ hkv
              have := finish f ih st st1 st' (addWs ws (.keyval k w1 v w2 cm)) T r1 (addWs_wf _ _ hws hwf)
                (by rw [stepLineQ_addWs]; exact ho) hT h
              rw [addWs_render, List.append_assoc, ← e, ← es] at this
              exact this
            · cases h

/-! ## (e) the document -/

theorem stripBom_cases (s : Bytes) : (∃ r, s = 0xEF :: 0xBB :: 0xBF :: r ∧ stripBom s = r) ∨ stripBom s = s := by
  unfold stripBom
  split
  · exact Or.inl ⟨_, rfl, rfl⟩
  · exact Or.inr rfl

/-- **soundness of `parse_document`**: an accepted text is the rendering of a well-formed document of the grammar
    (with byte-order mark exactly when the text starts with one), and the result is what the definition state machine
    makes of its statements -/
theorem parseDocument_sound (s : Bytes) (t : Tbl) (h : parseDocument s = some t) :
    ∃ d : QDoc, d.WF ∧ d.render = s ∧ (run {} d.stmts).bind intoDocument = some t := by
  unfold parseDocument at h
  simp only [] at h
  split at h
  · rename_i st hl
    obtain ⟨ls, last, h1, h2, h3, h4⟩ := lines_sound _ _ _ _ hl
    rcases stripBom_cases s with ⟨r, es, eb⟩ | eb
    · refine ⟨⟨true, ls, last⟩, ⟨h1, h2⟩, ?_, ?_⟩
      · rw [eb] at h3
        rw [es, h3]; rfl
      · show (run {} (stmtsLinesQ ls ++ stmtsLastQ last)).bind intoDocument = some t
        rw [h4]; exact h
    · refine ⟨⟨false, ls, last⟩, ⟨h1, h2⟩, ?_, ?_⟩
      · rw [eb] at h3
        rw [h3]; rfl
      · show (run {} (stmtsLinesQ ls ++ stmtsLastQ last)).bind intoDocument = some t
        rw [h4]; exact h
  · cases h

end TomlVerif.Lemmas.SoundDoc01
