import TomlVerif.Lemmas.Tiling03MoreOrdSum
/-! C03, documents whose sections are NOT in pre-order — tree lemmas: the header check `pathOkO`
    (`pathOk` without "names the last item"), the path predicate `SpineO` (`SpineP` with the item
    at ANY index), and the two `descend` runs of a header on the summary `nsItems`:
    `start_table` / `start_array_table` leave it unchanged, `finalize_table` inserts the triple of
    the finished table somewhere. -/
namespace TomlVerif.Lemmas.Tiling03More
open TomlVerif TomlVerif.Spec TomlVerif.Model TomlVerif.Model.Strings TomlVerif.Model.Value
open TomlVerif.Model.Cst TomlVerif.Model.Encode TomlVerif.Lemmas.Suffix03 TomlVerif.Lemmas.Cst03
open TomlVerif.Lemmas.LastByte03 TomlVerif.Lemmas.Tiling03 TomlVerif.Lemmas.Tiling03Hdr
open TomlVerif.Lemmas.Tiling03Nest

/-- the spelling check of a segment that names an existing entry -/
def segChk (inp : Bytes) (leaf : Bool) (k : CKey) (items : Items) : Bool :=
  match ckeyOf k.key items with
  | some k' => if leaf then sameLeaf inp k k' else sameSeg inp k k'
  | none => false

/-- the header check, on the root after `finalize_table`, for a header with parent path `pp` and
    last key `key` (`a`: `[[…]]`): every segment that names an existing table (at ANY place among
    the items of its parent) is spelled like the stored key, no table on the way is a dotted-key
    table, a segment naming an array of tables goes to its last element; the last key is new, or
    (for `[[…]]`) names an array of tables with the same spelling.  (A `[t]` header on an existing
    implicit table `t` — which the parser accepts, moving `t` to the end of its parent — is
    excluded, as in `pathOk`.) -/
def pathOkO (inp : Bytes) (a : Bool) (key : CKey) : CTbl → List CKey → Bool
  | t, [] => !t.dotted && (match clookup key.key t.items with
      | none => true
      | some (.aot _ _) => a && segChk inp true key t.items
      | some _ => false)
  | t, k :: ks => !t.dotted && (match clookup k.key t.items with
      | none => true
      | some (.table sub) => segChk inp false k t.items && pathOkO inp a key sub ks
      | some (.aot ts _) => segChk inp false k t.items &&
          (match ts.reverse with
           | l :: _ => pathOkO inp a key l ks
           | [] => false)
      | some (.value _) => false)

/-! ### item lists: an entry at any place -/

theorem clookup_split (k : Bytes) : ∀ (items : Items) (it : CItem), clookup k items = some it →
    ∃ A k' B, items = A ++ (k', it) :: B ∧ clookup k A = none ∧ (k'.key == k) = true ∧
      ckeyOf k items = some k'
  | [], _, h => by simp [clookup] at h
  | (k0, v) :: r, it, h => by
    unfold clookup at h
    split at h
    · rename_i hk
      injection h with h
      subst h
      exact ⟨[], k0, r, rfl, rfl, hk, by simp [ckeyOf, hk]⟩
    · rename_i hk
      obtain ⟨A, k', B, e1, e2, e3, e4⟩ := clookup_split k r it h
      refine ⟨(k0, v) :: A, k', B, by rw [e1]; rfl, ?_, e3, ?_⟩
      · simp only [clookup, hk]; exact e2
      · simp only [ckeyOf, hk]; exact e4

theorem clookup_mid (k : Bytes) (A B : Items) (k' : CKey) (it : CItem) (hk : (k'.key == k) = true)
    (hn : clookup k A = none) : clookup k (A ++ (k', it) :: B) = some it := by
  rw [clookup_append_none _ _ _ hn]
  simp [clookup, hk]

theorem creplace_mid (k : Bytes) (x y : CItem) (k' : CKey) (B : Items) (hk : (k'.key == k) = true) :
    ∀ A : Items, clookup k A = none → creplace k x (A ++ (k', y) :: B) = A ++ (k', x) :: B
  | [], _ => by simp [creplace, hk]
  | (k2, v) :: r, h => by
    unfold clookup at h
    split at h
    · cases h
    · rename_i hk2
      simp only [List.cons_append, creplace, hk2]
      rw [creplace_mid k x y k' B hk r h]; rfl

theorem cset_mid (k k' : CKey) (x y : CItem) (A B : Items) (hk : (k'.key == k.key) = true)
    (hn : clookup k.key A = none) : cset k x (A ++ (k', y) :: B) = A ++ (k', x) :: B := by
  unfold cset
  rw [clookup_mid _ _ _ _ _ hk hn]
  exact creplace_mid _ _ _ _ _ hk A hn

theorem valuesTbl_mid_table (A B : Items) (k : CKey) (c : CTbl) (hc : c.dotted = false) (p : List CKey) :
    valuesTbl (A ++ (k, .table c) :: B) p = valuesTbl A p ++ valuesTbl B p := by
  rw [valuesTbl_append]
  obtain ⟨items, imp, dot, q, dec, sp⟩ := c
  simp only [CTbl.dotted] at hc
  subst hc
  simp [valuesTbl, valuesDotted]

theorem valuesTbl_mid_aot (A B : Items) (k : CKey) (ts : List CTbl) (asp : Option Span) (p : List CKey) :
    valuesTbl (A ++ (k, .aot ts asp) :: B) p = valuesTbl A p ++ valuesTbl B p := by
  rw [valuesTbl_append]
  simp [valuesTbl]

/-! ### the summary of one table -/

theorem hdN_setItems (f : Bytes → Bytes) (inp : Bytes) (t : CTbl) (I : Items) (P : List CKey) (a : Bool)
    (h : valuesTbl I [] = valuesTbl t.items []) : hdN f inp (t.setItems I) P a = hdN f inp t P a := by
  have ht : entText f inp (t.setItems I) P a = entText f inp t P a := by
    have := entText_setItems f inp t I t.items P a h
    rw [setItems_self] at this
    exact this
  unfold hdN
  rw [ht]
  obtain ⟨items, imp, dot, p, dec, sp⟩ := t
  simp only [CTbl.items] at h
  simp only [CTbl.setItems, CTbl.dotted, CTbl.pos, CTbl.decor, CTbl.implicit, CTbl.items, invis, h]
  cases dot <;> cases p <;> rfl

theorem nsTbl_setItems (f : Bytes → Bytes) (inp : Bytes) (t t' : CTbl) (P : List CKey) (a : Bool)
    (h1 : t' = t.setItems t'.items) (h2 : valuesTbl t'.items [] = valuesTbl t.items []) :
    nsTbl f inp t' P a = hdN f inp t P a ++ nsItems f inp t'.items P := by
  rw [nsTbl_eq, h1, hdN_setItems f inp t _ P a h2]

theorem hdN_some (f : Bytes → Bytes) (inp : Bytes) (t : CTbl) (P : List CKey) (a : Bool) (q : Nat)
    (hd : t.dotted = false) (hq : t.pos = some q) :
    hdN f inp t P a = [(q, t.decor.pre.isSome, entText f inp t P a)] := by
  simp [hdN, hd, hq]

theorem hdN_newImplicit (f : Bytes → Bytes) (inp : Bytes) (P : List CKey) :
    hdN f inp (newImplicit false) P false = [] := by
  simp [hdN, newImplicit, invis, CTbl.dotted, CTbl.pos, CTbl.implicit, CTbl.items, valuesTbl]

/-! ### the path of a header in the root -/

/-- following `pp` from `t`, every segment spelled like the stored key and found at some place
    among the items, reaches the table where `key` is new (`a = false`) or names an array of
    tables spelled like `key` (`a = true`); every table on the way is undotted -/
def SpineO (inp : Bytes) (a : Bool) (key : CKey) : CTbl → List CKey → Prop
  | t, [] => t.dotted = false ∧
      (if a then ∃ A k' ts asp B, t.items = A ++ (k', .aot ts asp) :: B ∧ (k'.key == key.key) = true ∧
          clookup key.key A = none ∧ sameLeaf inp key k' = true
       else clookup key.key t.items = none)
  | t, k :: ks => t.dotted = false ∧ ∃ A k' B, clookup k.key A = none ∧ (k'.key == k.key) = true ∧
      sameSeg inp k k' = true ∧
      ((∃ sub, t.items = A ++ (k', .table sub) :: B ∧ SpineO inp a key sub ks) ∨
       (∃ tsI l asp, t.items = A ++ (k', .aot (tsI ++ [l]) asp) :: B ∧ SpineO inp a key l ks))

theorem spineO_dotted {inp : Bytes} {a : Bool} {key : CKey} {t : CTbl} {pp : List CKey}
    (h : SpineO inp a key t pp) : t.dotted = false := by
  cases pp with
  | nil => exact h.1
  | cons k ks => exact h.1

theorem pathOkO_dotted {inp : Bytes} {a : Bool} {key : CKey} {t : CTbl} {pp : List CKey}
    (h : pathOkO inp a key t pp = true) : t.dotted = false := by
  cases pp <;> simp only [pathOkO, Bool.and_eq_true, Bool.not_eq_true'] at h <;> exact h.1

theorem pathOkO_empty (inp : Bytes) (a : Bool) (key : CKey) (t : CTbl) (hi : t.items = []) (hd : t.dotted = false) :
    ∀ pp, pathOkO inp a key t pp = true
  | [] => by simp [pathOkO, hi, hd, clookup]
  | k :: ks => by simp [pathOkO, hi, hd, clookup]

/-- `start_table` / `start_array_table` on a root that passes the header check: the new root has
    the path of the header and the same summary -/
theorem start_spineO (inp : Bytes) (a : Bool) (key : CKey) :
    ∀ (pp : List CKey) (t t' : CTbl), pathOkO inp a key t pp = true →
      descend t pp false (if a then arrFn key else eraseFn key) = some t' →
      SpineO inp a key t' pp ∧ valuesTbl t'.items [] = valuesTbl t.items [] ∧
      (∀ f P, nsItems f inp t'.items P = nsItems f inp t.items P) ∧
      (a = false → findTable key.key t pp = none) := by
  intro pp
  induction pp with
  | nil =>
    intro t t' hok hd
    rw [descend_nil] at hd
    simp only [pathOkO, Bool.and_eq_true, Bool.not_eq_true'] at hok
    obtain ⟨hdot, hok⟩ := hok
    cases hl : clookup key.key t.items with
    | none =>
      cases a with
      | false =>
        simp only [Bool.false_eq_true, if_false] at hd
        unfold eraseFn at hd
        injection hd with hd
        rw [cerase_of_none _ _ hl, setItems_self] at hd
        subst hd
        refine ⟨⟨hdot, by simpa using hl⟩, rfl, fun _ _ => rfl, ?_⟩
        intro _
        simp [findTable, hl]
      | true =>
        simp only [if_true] at hd
        unfold arrFn at hd
        rw [hl] at hd
        simp only [] at hd
        injection hd with hd
        subst hd
        refine ⟨⟨by simpa using hdot, ?_⟩, ?_, ?_, ?_⟩
        · simp only [if_true, setItems_items]
          exact ⟨t.items, key, [], none, [], rfl, by simp, hl, sameLeaf_refl inp key⟩
        · rw [setItems_items]; exact valuesTbl_snoc_aot _ _ _ _ _
        · intro f P
          rw [setItems_items, nsItems_append]
          simp [nsItems, nsAot]
        · intro h; cases h
    | some y =>
      rw [hl] at hok
      cases y with
      | value v => simp at hok
      | table sub => simp at hok
      | aot ts asp =>
        simp only [Bool.and_eq_true] at hok
        obtain ⟨ha, hok⟩ := hok
        subst ha
        simp only [if_true] at hd
        obtain ⟨A, k', B, e1, e2, e3, e4⟩ := clookup_split _ _ _ hl
        simp only [segChk, e4, if_true] at hok
        unfold arrFn at hd
        rw [hl] at hd
        simp only [] at hd
        injection hd with hd
        subst hd
        refine ⟨⟨hdot, ?_⟩, rfl, fun _ _ => rfl, ?_⟩
        · simp only [if_true]
          exact ⟨A, k', ts, asp, B, e1, e3, e2, hok⟩
        · intro h; cases h
  | cons k ks ih =>
    intro t t' hok hd
    simp only [pathOkO, Bool.and_eq_true, Bool.not_eq_true'] at hok
    obtain ⟨hdot, hok⟩ := hok
    obtain ⟨x, et', hx⟩ := descend_cons_shape _ _ _ _ _ _ hd
    cases hl : clookup k.key t.items with
    | none =>
      rw [hl] at hx
      simp only [Option.getD_none] at hx
      rcases hx with ⟨sub, sub', e1, hd', e2⟩ | ⟨_, _, _, _, e1, _⟩
      · injection e1 with e1
        subst e1; subst e2
        obtain ⟨i1, i2, i3, i4⟩ := ih _ _ (pathOkO_empty inp a key _ rfl rfl ks) hd'
        have hs := descend_setItems _ (startFn_setItems a key) ks _ _ _ hd'
        rw [cset_none _ _ _ hl] at et'
        subst et'
        have hsd : sub'.dotted = false := spineO_dotted i1
        refine ⟨⟨by simpa using hdot, t.items, k, [], hl, by simp, sameSeg_refl inp k, Or.inl ⟨sub', by simp, i1⟩⟩,
          ?_, ?_, ?_⟩
        · rw [setItems_items]; exact valuesTbl_snoc_table _ _ _ hsd _
        · intro f P
          rw [setItems_items, nsItems_append]
          simp only [nsItems, List.append_nil]
          rw [nsTbl_setItems f inp _ _ _ _ hs i2, hdN_newImplicit, i3 f]
          simp [newImplicit, CTbl.items, nsItems]
        · intro _
          simp [findTable, hl]
      · cases e1
    | some y =>
      rw [hl] at hok hx
      simp only [Option.getD_some] at hx
      obtain ⟨A, k', B, e1, e2, e3, e4⟩ := clookup_split _ _ _ hl
      have e3' : (k'.key == k.key) = true := e3
      cases y with
      | value v => simp at hok
      | table sub =>
        simp only [Bool.and_eq_true, segChk, e4, Bool.false_eq_true, if_false] at hok
        rcases hx with ⟨sub0, sub', e5, hd', e6⟩ | ⟨_, _, _, _, e5, _⟩
        · injection e5 with e5
          subst e5; subst e6
          obtain ⟨i1, i2, i3, i4⟩ := ih _ _ hok.2 hd'
          have hs := descend_setItems _ (startFn_setItems a key) ks _ _ _ hd'
          have hsd : sub'.dotted = false := spineO_dotted i1
          have hsd0 : sub.dotted = false := pathOkO_dotted hok.2
          have hcs : cset k (.table sub') t.items = A ++ (k', .table sub') :: B := by
            rw [e1]; exact cset_mid _ _ _ _ _ _ e3' e2
          rw [hcs] at et'
          subst et'
          refine ⟨⟨by simpa using hdot, A, k', B, e2, e3', hok.1, Or.inl ⟨sub', by simp, i1⟩⟩, ?_, ?_, ?_⟩
          · rw [setItems_items, e1, valuesTbl_mid_table _ _ _ _ hsd, valuesTbl_mid_table _ _ _ _ hsd0]
          · intro f P
            rw [setItems_items, e1, nsItems_append, nsItems_append]
            simp only [nsItems]
            rw [nsTbl_setItems f inp _ _ _ _ hs i2, i3 f, nsTbl_eq f inp sub]
          · intro ha
            simp only [findTable, hl]
            exact i4 ha
        · cases e5
      | aot ts asp =>
        simp only [Bool.and_eq_true, segChk, e4, Bool.false_eq_true, if_false] at hok
        rcases hx with ⟨_, _, e5, _, _⟩ | ⟨tsI, l, l', asp', e5, hd', e6⟩
        · cases e5
        · injection e5 with e5 e5'
          subst e5; subst e5'; subst e6
          have hrev : (tsI ++ [l]).reverse = l :: tsI.reverse := by simp
          obtain ⟨hseg, hok2⟩ := hok
          rw [hrev] at hok2
          simp only [] at hok2
          obtain ⟨i1, i2, i3, i4⟩ := ih _ _ hok2 hd'
          have hs := descend_setItems _ (startFn_setItems a key) ks _ _ _ hd'
          have hcs : cset k (.aot (tsI ++ [l']) asp) t.items = A ++ (k', .aot (tsI ++ [l']) asp) :: B := by
            rw [e1]; exact cset_mid _ _ _ _ _ _ e3' e2
          rw [hcs] at et'
          subst et'
          refine ⟨⟨by simpa using hdot, A, k', B, e2, e3', hseg, Or.inr ⟨tsI, l', asp, by simp, i1⟩⟩, ?_, ?_, ?_⟩
          · rw [setItems_items, e1, valuesTbl_mid_aot, valuesTbl_mid_aot]
          · intro f P
            rw [setItems_items, e1, nsItems_append, nsItems_append]
            simp only [nsItems]
            rw [nsAot_append, nsAot_append]
            simp only [nsAot, List.append_nil]
            rw [nsTbl_setItems f inp _ _ _ _ hs i2, i3 f, nsTbl_eq f inp l]
          · intro ha
            simp only [findTable, hl, hrev]
            exact i4 ha

/-- `finalize_table` along the path: the triple of the finished table is inserted into the
    summary, under the key path as the header spelled it -/
theorem fin_spineO (f : Bytes → Bytes) (inp : Bytes) (a : Bool) (key : CKey) (cur : CTbl) (q : Nat)
    (hcd : cur.dotted = false) (hq : cur.pos = some q) (hbody : ∀ X, nsItems f inp cur.items X = []) :
    ∀ (pp : List CKey) (t t' : CTbl) (P Q : List CKey), SpineO inp a key t pp → SegsEq f inp P Q →
      descend t pp false (if a then finArr key cur else finStd key cur) = some t' →
      (∃ l1 l2, nsItems f inp t.items P = l1 ++ l2 ∧
        nsItems f inp t'.items P = l1 ++ [(q, cur.decor.pre.isSome, entText f inp cur (Q ++ pp ++ [key]) a)] ++ l2) ∧
      valuesTbl t'.items [] = valuesTbl t.items [] := by
  have hcur : ∀ X b, nsTbl f inp cur X b = [(q, cur.decor.pre.isSome, entText f inp cur X b)] := by
    intro X b
    rw [nsTbl_eq, hbody, hdN_some f inp cur X b q hcd hq]; simp
  intro pp
  induction pp with
  | nil =>
    intro t t' P Q hsp hPQ hd
    rw [descend_nil] at hd
    obtain ⟨hdot, hsp⟩ := hsp
    cases a with
    | false =>
      simp only [Bool.false_eq_true, if_false] at hd hsp
      unfold finStd at hd
      rw [hsp] at hd
      simp only [] at hd
      injection hd with hd
      subst hd
      refine ⟨⟨nsItems f inp t.items P, [], by simp, ?_⟩, ?_⟩
      · rw [setItems_items, nsItems_append]
        simp only [nsItems, List.append_nil, hcur]
        rw [entText_path_congr f inp cur (P ++ [key]) (Q ++ [key]) false (snoc_ne_nil _ _) (snoc_ne_nil _ _)
          (encodeKeyPath_congr f inp P Q key key [] [] hPQ (LeafEq.refl f inp key))]
      · rw [setItems_items]; exact valuesTbl_snoc_table _ _ _ hcd _
    | true =>
      simp only [if_true] at hd hsp
      obtain ⟨A, k', ts, asp, B, e1, e2, e3, e4⟩ := hsp
      have hl : clookup key.key t.items = some (.aot ts asp) := by
        rw [e1]; exact clookup_mid _ _ _ _ _ e2 e3
      unfold finArr at hd
      rw [hl] at hd
      simp only [Option.getD_some] at hd
      injection hd with hd
      rw [e1, cset_mid _ _ _ _ _ _ e2 e3] at hd
      subst hd
      refine ⟨⟨nsItems f inp A P ++ nsAot f inp ts (P ++ [k']), nsItems f inp B P, ?_, ?_⟩, ?_⟩
      · rw [e1, nsItems_append]
        simp only [nsItems, List.append_assoc]
      · rw [setItems_items, nsItems_append]
        simp only [nsItems]
        rw [nsAot_append]
        simp only [nsAot, List.append_nil, hcur, List.append_assoc]
        rw [entText_path_congr f inp cur (P ++ [k']) (Q ++ [key]) true (snoc_ne_nil _ _) (snoc_ne_nil _ _)
          (encodeKeyPath_congr f inp P Q k' key [] [] hPQ (sameLeaf_leafEq f inp key k' e4).symm)]
      · rw [setItems_items, e1, valuesTbl_mid_aot, valuesTbl_mid_aot]
  | cons k ks ih =>
    intro t t' P Q hsp hPQ hd
    obtain ⟨hdot, A, k', B, e3, e2, hseg, hsp⟩ := hsp
    obtain ⟨x, et', hx⟩ := descend_cons_shape _ _ _ _ _ _ hd
    have hPQ' : SegsEq f inp (P ++ [k']) (Q ++ [k]) := hPQ.snoc (sameSeg_segEq f inp k k' hseg).symm
    have hlist : Q ++ [k] ++ ks ++ [key] = Q ++ k :: ks ++ [key] := by simp
    rcases hsp with ⟨sub, e1, hsub⟩ | ⟨tsI, l, asp, e1, hsub⟩
    · have hl : clookup k.key t.items = some (.table sub) := by
        rw [e1]; exact clookup_mid _ _ _ _ _ e2 e3
      rw [hl] at hx
      simp only [Option.getD_some] at hx
      rcases hx with ⟨sub0, sub', e5, hd', e6⟩ | ⟨_, _, _, _, e5, _⟩
      · injection e5 with e5
        subst e5; subst e6
        obtain ⟨⟨l1, l2, i1, i2⟩, i3⟩ := ih _ _ (P ++ [k']) (Q ++ [k]) hsub hPQ' hd'
        have hs := descend_setItems _ (finFn_setItems a key cur) ks _ _ _ hd'
        have hsd : sub.dotted = false := spineO_dotted hsub
        have hsd' : sub'.dotted = false := by rw [hs]; simpa using hsd
        rw [e1, cset_mid _ _ _ _ _ _ e2 e3] at et'
        subst et'
        refine ⟨⟨nsItems f inp A P ++ hdN f inp sub (P ++ [k']) false ++ l1, l2 ++ nsItems f inp B P, ?_, ?_⟩, ?_⟩
        · rw [e1, nsItems_append]
          simp only [nsItems]
          rw [nsTbl_eq, i1]
          simp only [List.append_assoc]
        · rw [setItems_items, nsItems_append]
          simp only [nsItems]
          rw [nsTbl_setItems f inp _ _ _ _ hs i3, i2, hlist]
          simp only [List.append_assoc]
        · rw [setItems_items, e1, valuesTbl_mid_table _ _ _ _ hsd', valuesTbl_mid_table _ _ _ _ hsd]
      · cases e5
    · have hl : clookup k.key t.items = some (.aot (tsI ++ [l]) asp) := by
        rw [e1]; exact clookup_mid _ _ _ _ _ e2 e3
      rw [hl] at hx
      simp only [Option.getD_some] at hx
      rcases hx with ⟨_, _, e5, _, _⟩ | ⟨tsI0, l0, l', asp', e5, hd', e6⟩
      · cases e5
      · injection e5 with e5 e5'
        obtain ⟨e7, e8⟩ := snoc_inj e5
        subst e7; subst e8; subst e5'; subst e6
        obtain ⟨⟨l1, l2, i1, i2⟩, i3⟩ := ih _ _ (P ++ [k']) (Q ++ [k]) hsub hPQ' hd'
        have hs := descend_setItems _ (finFn_setItems a key cur) ks _ _ _ hd'
        rw [e1, cset_mid _ _ _ _ _ _ e2 e3] at et'
        subst et'
        refine ⟨⟨nsItems f inp A P ++ nsAot f inp tsI (P ++ [k']) ++ hdN f inp l (P ++ [k']) true ++ l1,
          l2 ++ nsItems f inp B P, ?_, ?_⟩, ?_⟩
        · rw [e1, nsItems_append]
          simp only [nsItems]
          rw [nsAot_append]
          simp only [nsAot, List.append_nil]
          rw [nsTbl_eq, i1]
          simp only [List.append_assoc]
        · rw [setItems_items, nsItems_append]
          simp only [nsItems]
          rw [nsAot_append]
          simp only [nsAot, List.append_nil]
          rw [nsTbl_setItems f inp _ _ _ _ hs i3, i2, hlist]
          simp only [List.append_assoc]
        · rw [setItems_items, e1, valuesTbl_mid_aot, valuesTbl_mid_aot]

end TomlVerif.Lemmas.Tiling03More
