import TomlVerif.Lemmas.SerTyped07g
/-! C07, reading back, part 8: the repaired `toml::value::ValueSerializer` (`valSer ⟨true, true⟩`) refuses every typed
    value the document serializer refuses (`strict_err`), so the two accept the same typed values with the same result
    (`valSer_strict_eq`). -/
namespace TomlVerif.Lemmas.SerTyped07
open TomlVerif TomlVerif.Model TomlVerif.Model.TomlValue TomlVerif.Model.DeRoutes TomlVerif.Model.DeTyped
open TomlVerif.Model.SerTyped TomlVerif.Model.Ser TomlVerif.Spec TomlVerif.Spec.Serde
open TomlVerif.Lemmas.Ser07Text TomlVerif.Lemmas.Ser07

def strictFx : ValFix := ⟨true, true⟩

def IsErr {α} (e : Except SerErr α) : Prop := ∃ x, e = .error x

theorem valSeq_err (f : SVal → Prop) (hf : ∀ v, f v → unsupported v = true → IsErr (valSer strictFx v)) :
    ∀ vs : List SVal, (∀ v ∈ vs, f v) → unsupportedList vs = true → IsErr (valSeq strictFx vs)
  | [], _, h => by simp [unsupportedList] at h
  | v :: r, hall, h => by
    simp only [unsupportedList, Bool.or_eq_true] at h
    unfold valSeq
    cases hv : valSer strictFx v with
    | error e => exact ⟨e, rfl⟩
    | ok x =>
      have hr : unsupportedList r = true := by
        rcases h with h | h
        · obtain ⟨e, he⟩ := hf v (hall v (by simp)) h
          rw [hv] at he; cases he
        · exact h
      obtain ⟨e, he⟩ := valSeq_err f hf r (fun v' hv' => hall v' (by simp [hv'])) hr
      simp only [he]
      exact ⟨e, rfl⟩

theorem mem_mapO {α β} (f : α → Option β) : ∀ (l : List α) (vs : List β), mapO f l = some vs →
    ∀ b ∈ vs, ∃ a ∈ l, f a = some b
  | [], vs, h, b, hb => by simp only [mapO, Option.some.injEq] at h; subst h; simp at hb
  | a :: r, vs, h, b, hb => by
    obtain ⟨b', l', rfl, hb', hl⟩ := mapO_cons f a r vs h
    rcases List.mem_cons.1 hb with rfl | hb
    · exact ⟨a, by simp, hb'⟩
    · obtain ⟨a', ha', h'⟩ := mem_mapO f r l' hl b hb
      exact ⟨a', by simp [ha'], h'⟩

/-- string keys: a map whose values the strict serializer refuses when unsupported -/
theorem valMap_err (f : SVal → Prop) (hf : ∀ v, f v → unsupported v = true → IsErr (valSer strictFx v)) :
    ∀ (kvs : List (SVal × SVal)) (acc : List (Bytes × V)), (∀ kv ∈ kvs, (∃ s, kv.1 = .str s) ∧ f kv.2) →
      unsupportedMap kvs = true → IsErr (valMap strictFx kvs acc)
  | [], _, _, h => by simp [unsupportedMap] at h
  | (k, v) :: r, acc, hall, h => by
    obtain ⟨⟨s, hk⟩, hfv⟩ := hall (k, v) (by simp)
    simp only at hk hfv
    subst hk
    have hall' : ∀ kv ∈ r, (∃ s, kv.1 = .str s) ∧ f kv.2 := fun kv hkv => hall kv (by simp [hkv])
    by_cases hn : v = .none
    · subst hn
      have e0 : valMap strictFx ((SVal.str s, SVal.none) :: r) acc = valMap strictFx r acc := rfl
      rw [e0]
      exact valMap_err f hf r acc hall' (by simpa [unsupportedMap, expectedKey] using h)
    · have e1 : valMap strictFx ((SVal.str s, v) :: r) acc =
          (match valSer strictFx v with
           | .error .unsupportedNone => if strictFx.strictNone then .error .unsupportedNone else valMap strictFx r acc
           | .error e => .error e
           | .ok x => valMap strictFx r (aset s x acc)) := by
        cases v <;> first | exact absurd rfl hn | rfl
      have h' : (unsupported v || unsupportedMap r) = true := by
        revert h; cases v <;> first | exact absurd rfl hn | simp [unsupportedMap, expectedKey]
      simp only [Bool.or_eq_true] at h'
      rw [e1]
      cases hv : valSer strictFx v with
      | error e => cases e <;> exact ⟨_, rfl⟩
      | ok x =>
        have hr : unsupportedMap r = true := by
          rcases h' with h' | h'
          · obtain ⟨e, he⟩ := hf v hfv h'
            rw [hv] at he; cases he
          · exact h'
        exact valMap_err f hf r _ hall' hr

mutual
theorem strict_err (nm : Bytes) (hnm : (nm == dtName) = false) : ∀ (ty : Ty) (d : Dec) (v : SVal),
    hasValue ty = false → serOf nm ty d = some v → unsupported v = true → IsErr (valSer strictFx v)
  | .bool, d, v, _, h, hu => by cases d <;> simp [serOf] at h; subst h; simp [unsupported] at hu
  | .int _ _, d, v, _, h, hu => by
    cases d <;> simp [serOf] at h
    subst h
    simp only [valSer]
    split
    · exact ⟨_, rfl⟩
    · split
      · exact ⟨_, rfl⟩
      · rename_i h1 h2
        simp only [Bool.not_eq_true] at h1 h2
        simp [unsupported, intOk, h1, h2] at hu
  | .f64, d, v, _, h, hu => by cases d <;> simp [serOf] at h; subst h; simp [unsupported] at hu
  | .f32, d, v, _, h, hu => by cases d <;> simp [serOf] at h; subst h; simp [unsupported] at hu
  | .string, d, v, _, h, hu => by cases d <;> simp [serOf] at h; subst h; simp [unsupported] at hu
  | .char, d, v, _, h, hu => by
    cases d <;> simp [serOf] at h
    obtain ⟨_, _, h⟩ := h; subst h; simp [unsupported] at hu
  | .unit, d, v, _, h, _ => by cases d <;> simp [serOf] at h; subst h; exact ⟨_, rfl⟩
  | .datetime, d, v, _, h, hu => by
    cases d <;> simp [serOf] at h
    subst h
    simp [unsupported, badDatetimeFields, hasDtField] at hu
    simp [valSer, valFields, strictFx, aset, alookup, valDatetime, hu]; exact ⟨_, rfl⟩
  | .date, d, v, _, h, hu => by
    cases d <;> simp [serOf] at h
    subst h
    simp [unsupported, badDatetimeFields, hasDtField] at hu
    simp [valSer, valFields, strictFx, aset, alookup, valDatetime, hu]; exact ⟨_, rfl⟩
  | .time, d, v, _, h, hu => by
    cases d <;> simp [serOf] at h
    subst h
    simp [unsupported, badDatetimeFields, hasDtField] at hu
    simp [valSer, valFields, strictFx, aset, alookup, valDatetime, hu]; exact ⟨_, rfl⟩
  | .value, _, _, hv, _, _ => by simp [hasValue] at hv
  | .ignored, d, v, _, h, _ => by cases d <;> simp [serOf] at h
  | .option t, d, v, hv, h, hu => by
    cases d <;> simp [serOf] at h
    · subst h; exact ⟨_, rfl⟩
    · obtain ⟨v', hv', rfl⟩ := h
      simp only [unsupported] at hu
      simp only [valSer]
      exact strict_err nm hnm t _ v' (by simpa [hasValue] using hv) hv' hu
  | .newtype t, d, v, hv, h, hu => by
    cases d <;> simp [serOf] at h
    obtain ⟨v', hv', rfl⟩ := h
    simp only [unsupported] at hu
    simp only [valSer]
    exact strict_err nm hnm t _ v' (by simpa [hasValue] using hv) hv' hu
  | .seq t, d, v, hv, h, hu => by
    cases d <;> simp [serOf] at h
    rename_i l
    obtain ⟨vs, hvs, rfl⟩ := h
    simp only [unsupported] at hu
    obtain ⟨e, he⟩ := valSeq_err (fun v' => ∃ d', serOf nm t d' = some v')
      (fun v' ⟨d', hd'⟩ hu' => strict_err nm hnm t d' v' (by simpa [hasValue] using hv) hd' hu') vs
      (fun v' hv' => by obtain ⟨a, _, ha⟩ := mem_mapO _ l vs hvs v' hv'; exact ⟨a, ha⟩) hu
    simp only [valSer, he]; exact ⟨_, rfl⟩
  | .tuple ts, d, v, hv, h, hu => by
    cases d <;> simp [serOf] at h
    obtain ⟨vs, hvs, rfl⟩ := h
    simp only [unsupported] at hu
    obtain ⟨e, he⟩ := strict_err_tys nm hnm ts _ vs (by simpa [hasValue] using hv) hvs hu
    simp only [valSer, he]; exact ⟨_, rfl⟩
  | .map t, d, v, hv, h, hu => by
    cases d <;> simp [serOf] at h
    rename_i l
    obtain ⟨kvs, hkvs, rfl⟩ := h
    simp only [unsupported] at hu
    obtain ⟨e, he⟩ := valMap_err (fun v' => ∃ d', serOf nm t d' = some v')
      (fun v' ⟨d', hd'⟩ hu' => strict_err nm hnm t d' v' (by simpa [hasValue] using hv) hd' hu') kvs []
      (fun kv hkv => by
        obtain ⟨a, _, ha⟩ := mem_mapO _ l kvs hkvs kv hkv
        simp only [Option.map_eq_some_iff] at ha
        obtain ⟨v', hv', rfl⟩ := ha
        exact ⟨⟨_, rfl⟩, a.2, hv'⟩) hu
    simp only [valSer, he]; exact ⟨_, rfl⟩
  | .struct fs, d, v, hv, h, hu => by
    cases d <;> simp [serOf] at h
    obtain ⟨fields, hf, rfl⟩ := h
    simp only [unsupported, hnm, Bool.false_eq_true, if_false] at hu
    obtain ⟨e, he⟩ := strict_err_fields nm hnm fs _ fields [] (by simpa [hasValue] using hv) hf hu
    simp only [valSer, he]; exact ⟨_, rfl⟩
  | .enum vs, d, v, hv, h, hu => by
    simp only [serOf] at h
    exact strict_err_variants nm hnm vs d v (by simpa [hasValue] using hv) h hu
theorem strict_err_tys (nm : Bytes) (hnm : (nm == dtName) = false) : ∀ (ts : Tys) (l : List Dec) (vs : List SVal),
    hasValueTys ts = false → serOfTys nm ts l = some vs → unsupportedList vs = true → IsErr (valSeq strictFx vs)
  | .nil, l, vs, _, h, hu => by cases l <;> simp [serOfTys] at h; subst h; simp [unsupportedList] at hu
  | .cons t r, l, vs, hv, h, hu => by
    simp only [hasValueTys, Bool.or_eq_false_iff] at hv
    cases l with
    | nil => simp [serOfTys] at h
    | cons d l =>
      unfold serOfTys at h
      split at h
      · rename_i v vs' h1 h2
        injection h with h; subst h
        simp only [unsupportedList, Bool.or_eq_true] at hu
        unfold valSeq
        cases hq : valSer strictFx v with
        | error e => exact ⟨e, rfl⟩
        | ok x =>
          have hr : unsupportedList vs' = true := by
            rcases hu with hu | hu
            · obtain ⟨e, he⟩ := strict_err nm hnm t d v hv.1 h1 hu
              rw [hq] at he; cases he
            · exact hu
          obtain ⟨e, he⟩ := strict_err_tys nm hnm r l vs' hv.2 h2 hr
          simp only [he]; exact ⟨e, rfl⟩
      · cases h
theorem strict_err_fields (nm : Bytes) (hnm : (nm == dtName) = false) : ∀ (fs : Fields) (l : List (Bytes × Dec))
    (fields : List (Bytes × SVal)) (acc : List (Bytes × V)), hasValueFields fs = false →
    serOfFields nm fs l = some fields → unsupportedFields fields = true → IsErr (valFields strictFx fields acc)
  | .nil, l, vs, _, _, h, hu => by cases l <;> simp [serOfFields] at h; subst h; simp [unsupportedFields] at hu
  | .cons name t dflt r, l, vs, acc, hv, h, hu => by
    simp only [hasValueFields, Bool.or_eq_false_iff] at hv
    cases l with
    | nil => simp [serOfFields] at h
    | cons kd l =>
      obtain ⟨k, d⟩ := kd
      unfold serOfFields at h
      split at h
      · rename_i v vs' h1 h2
        injection h with h; subst h
        by_cases hn : v = .none
        · subst hn
          have e0 : valFields strictFx ((name, SVal.none) :: vs') acc = valFields strictFx vs' acc := rfl
          rw [e0]
          exact strict_err_fields nm hnm r l vs' acc hv.2 h2 (by simpa [unsupportedFields] using hu)
        · have e1 : valFields strictFx ((name, v) :: vs') acc =
              (match valSer strictFx v with
               | .error .unsupportedNone => if strictFx.strictNone then .error .unsupportedNone else valFields strictFx vs' acc
               | .error e => .error e
               | .ok x => valFields strictFx vs' (aset name x acc)) := by
            cases v <;> first | exact absurd rfl hn | rfl
          have hu' : (unsupported v || unsupportedFields vs') = true := by
            revert hu; cases v <;> first | exact absurd rfl hn | simp [unsupportedFields]
          simp only [Bool.or_eq_true] at hu'
          rw [e1]
          cases hq : valSer strictFx v with
          | error e => cases e <;> exact ⟨_, rfl⟩
          | ok x =>
            have hr : unsupportedFields vs' = true := by
              rcases hu' with hu' | hu'
              · obtain ⟨e, he⟩ := strict_err nm hnm t d v hv.1 h1 hu'
                rw [hq] at he; cases he
              · exact hu'
            exact strict_err_fields nm hnm r l vs' _ hv.2 h2 hr
      · cases h
theorem strict_err_shape (nm : Bytes) (hnm : (nm == dtName) = false) : ∀ (s : Shape) (n : Bytes) (d : Dec) (v : SVal),
    hasValueShape s = false → serOfShape nm s n d = some v → unsupported v = true → IsErr (valSer strictFx v)
  | .unit, n, d, v, _, h, hu => by cases d <;> simp [serOfShape] at h; subst h; simp [unsupported] at hu
  | .newtype t, n, d, v, hv, h, hu => by
    cases d <;> simp [serOfShape] at h
    obtain ⟨v', hv', rfl⟩ := h
    simp only [unsupported] at hu
    obtain ⟨e, he⟩ := strict_err nm hnm t _ v' (by simpa [hasValueShape] using hv) hv' hu
    simp only [valSer, he]; exact ⟨_, rfl⟩
  | .tuple ts, n, d, v, hv, h, hu => by
    cases d <;> simp [serOfShape] at h
    obtain ⟨vs, hvs, rfl⟩ := h
    simp only [unsupported] at hu
    obtain ⟨e, he⟩ := strict_err_tys nm hnm ts _ vs (by simpa [hasValueShape] using hv) hvs hu
    simp only [valSer, he]; exact ⟨_, rfl⟩
  | .struct fs, n, d, v, hv, h, hu => by
    cases d <;> simp [serOfShape] at h
    obtain ⟨fields, hf, rfl⟩ := h
    simp only [unsupported] at hu
    obtain ⟨e, he⟩ := strict_err_fields nm hnm fs _ fields [] (by simpa [hasValueShape] using hv) hf hu
    simp only [valSer, he]; exact ⟨_, rfl⟩
theorem strict_err_variants (nm : Bytes) (hnm : (nm == dtName) = false) : ∀ (vs : Variants) (d : Dec) (v : SVal),
    hasValueVariants vs = false → serOfVariants nm vs d = some v → unsupported v = true → IsErr (valSer strictFx v)
  | .nil, d, v, _, h, _ => by simp [serOfVariants] at h
  | .cons name s r, d, v, hv, h, hu => by
    simp only [hasValueVariants, Bool.or_eq_false_iff] at hv
    unfold serOfVariants at h
    split at h
    all_goals first
      | (split at h
         · exact strict_err_shape nm hnm s name _ v hv.1 h hu
         · exact strict_err_variants nm hnm r _ v hv.2 h hu)
      | cases h
end

/-- the repaired `Value::try_from` accepts a typed value exactly when the document serializer does, with the same tree -/
theorem valSer_strict_ok (nm : Bytes) (hnm : (nm == dtName) = false) (ty : Ty) (d : Dec) (v : SVal) (x : V)
    (hv : hasValue ty = false) (hs : serOf nm ty d = some v) (h : valSer ⟨true, true⟩ v = .ok x) :
    unsupported v = false := by
  cases hu : unsupported v with
  | false => rfl
  | true =>
    obtain ⟨e, he⟩ := strict_err nm hnm ty d v hv hs hu
    rw [show strictFx = (⟨true, true⟩ : ValFix) from rfl, h] at he
    cases he

end TomlVerif.Lemmas.SerTyped07
