import TomlVerif.Lemmas.Literal10
import TomlVerif.Lemmas.KeyMetrics10
/-! glue between the offered-style guards, the metrics' closed forms and the parser entry points -/
namespace TomlVerif.Lemmas
open TomlVerif TomlVerif.Spec TomlVerif.Model.Write TomlVerif.Model.Strings TomlVerif.Model.Key

theorem vAsLiteral_some (m : ValueMetrics) (e) (h : vAsLiteral m = some e) :
    e = .literal ∧ m.escapeCodes = false ∧ m.maxSingle = 0 ∧ m.newline = false := by
  unfold vAsLiteral at h
  split at h
  · simp at h
  · rename_i hc; simp at hc h; exact ⟨h.symm, hc.1.1, hc.1.2, hc.2⟩

theorem vAsMlLiteral_some (m : ValueMetrics) (e) (h : vAsMlLiteral m = some e) :
    e = .mlLiteral ∧ m.escapeCodes = false ∧ m.maxSingle ≤ 2 := by
  unfold vAsMlLiteral at h
  split at h
  · simp at h
  · rename_i hc; simp at hc h; exact ⟨h.symm, hc.1, hc.2⟩

theorem vAsBasicPretty_some (m : ValueMetrics) (e) (h : vAsBasicPretty m = some e) : e = .basic := by
  unfold vAsBasicPretty at h; split at h <;> simp at h; exact h.symm

theorem vAsMlBasicPretty_some (m : ValueMetrics) (e) (h : vAsMlBasicPretty m = some e) : e = .mlBasic := by
  unfold vAsMlBasicPretty at h; split at h <;> simp at h; exact h.symm

theorem kAsLiteral_some (m : KeyMetrics) (e) (h : kAsLiteral m = some e) :
    e = some .literal ∧ m.escapeCodes = false ∧ m.singleQuotes = false := by
  unfold kAsLiteral at h
  split at h
  · simp at h
  · rename_i hc; simp at hc h; exact ⟨h.symm, hc.1, hc.2⟩

theorem kAsBasicPretty_some (m : KeyMetrics) (e) (h : kAsBasicPretty m = some e) : e = some .basic := by
  unfold kAsBasicPretty at h; split at h <;> simp at h; exact h.symm

theorem kAsUnquoted_some (m : KeyMetrics) (e) (h : kAsUnquoted m = some e) : e = none ∧ m.unquoted = true := by
  unfold kAsUnquoted at h
  split at h
  · rename_i hc; simp at h; exact ⟨h.symm, hc⟩
  · simp at h

theorem mlBasicString_bt_of_second (x : UInt8) (t : Bytes) (hx : x ≠ 0x22) : mlBasicString (0x22 :: x :: t) = .bt := by
  unfold mlBasicString; split
  · rename_i r h; injection h with _ h; injection h with h _; exact absurd h hx
  · rfl

theorem mlBasicString_bt_of_third (x : UInt8) (t : Bytes) (hx : x ≠ 0x22) : mlBasicString (0x22 :: 0x22 :: x :: t) = .bt := by
  unfold mlBasicString; split
  · rename_i r h; injection h with _ h; injection h with _ h; injection h with h _; exact absurd h hx
  · rfl

theorem mlLiteralString_bt_of_second (x : UInt8) (t : Bytes) (hx : x ≠ 0x27) : mlLiteralString (0x27 :: x :: t) = .bt := by
  unfold mlLiteralString; split
  · rename_i r h; injection h with _ h; injection h with h _; exact absurd h hx
  · rfl

theorem mlLiteralString_bt_of_third (x : UInt8) (t : Bytes) (hx : x ≠ 0x27) : mlLiteralString (0x27 :: 0x27 :: x :: t) = .bt := by
  unfold mlLiteralString; split
  · rename_i r h; injection h with _ h; injection h with _ h; injection h with h _; exact absurd h hx
  · rfl

theorem head_ne_of (rest : Bytes) (q y : UInt8) (r : Bytes) (h : rest.head? ≠ some q) (e : rest = y :: r) : y ≠ q := by
  subst e; intro e; apply h; simp [e]

/-- the single-line escaped writer output starts with a byte other than `"` unless the string is empty -/
theorem escBody_single_head (s : Bytes) (k : Nat) (t : Bytes) (hs : s ≠ []) :
    ∃ x u, escBody false k s ++ 0x22 :: t = x :: u ∧ x ≠ 0x22 := by
  cases s with
  | nil => exact absurd rfl hs
  | cons b s =>
    by_cases hq : b = 0x22
    · subst hq; exact ⟨0x5C, 0x22 :: (escBody false 0 s ++ 0x22 :: t), by simp [escBody], by decide⟩
    · obtain ⟨hh, hn⟩ := escNonQuote_head false b hq
      match hx : escNonQuote false b with
      | [] => simp [hx] at hn
      | x :: xs =>
        refine ⟨x, xs ++ (escBody false 0 s ++ 0x22 :: t), by simp [escBody, hq, hx], ?_⟩
        intro e; apply hh; simp [hx, e]

theorem escNonQuote_ml_head_not_newline : ∀ b : UInt8, b ≠ 0x22 → b ≠ 0x0A →
    (escNonQuote true b).head? ≠ some 0x0A ∧ (escNonQuote true b).head? ≠ some 0x0D :=
  forall_byte (by decide +kernel)

/-- without a line feed at its head, the multi-line escaped output does not start with a newline -/
theorem escBody_ml_no_newline (s t : Bytes) (hs : s.head? ≠ some 0x0A) :
    newline? (escBody true 0 s ++ 0x22 :: 0x22 :: 0x22 :: t) = none := by
  cases s with
  | nil => simp [escBody, newline?]
  | cons b s =>
    by_cases hq : b = 0x22
    · subst hq; simp [escBody, newline?]
    · have hA : b ≠ 0x0A := by intro e; apply hs; simp [e]
      obtain ⟨h1, h2⟩ := escNonQuote_ml_head_not_newline b hq hA
      obtain ⟨_, hn⟩ := escNonQuote_head true b hq
      match hx : escNonQuote true b with
      | [] => simp [hx] at hn
      | x :: xs =>
        have x1 : x ≠ 0x0A := by intro e; apply h1; simp [hx, e]
        have x2 : x ≠ 0x0D := by intro e; apply h2; simp [hx, e]
        have e : escBody true 0 (b :: s) ++ 0x22 :: 0x22 :: 0x22 :: t
            = x :: (xs ++ (escBody true 0 s ++ 0x22 :: 0x22 :: 0x22 :: t)) := by simp [escBody, hq, hx]
        rw [e]
        unfold newline?
        split
        · rename_i r h; injection h with h _; exact absurd h x1
        · rename_i r h; injection h with h _; exact absurd h x2
        · rfl

end TomlVerif.Lemmas
