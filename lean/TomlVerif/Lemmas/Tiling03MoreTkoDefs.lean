import TomlVerif.Lemmas.Tiling03MoreTkoBase
/-! C03, same data with `[t]` taking over an implicit table — the class `tkoRun`: `adjRun` where a
    `[t]` header may name an existing table `t` that is implicit and not a dotted-key table (the
    parser's own condition, `probeFn`), provided `t` is spelled like the stored key as a path
    segment (`sameSeg`, so that the headers of its sub-tables are printed as before) and holds only
    sub-tables and arrays of tables (`onlySubs`; always the case for a table the parser made
    implicitly).  Inclusion `adjRun ⊆ tkoRun`. -/
namespace TomlVerif.Lemmas.Tiling03More.Tko
open TomlVerif TomlVerif.Spec TomlVerif.Model TomlVerif.Model.Strings TomlVerif.Model.Value
open TomlVerif.Model.Cst TomlVerif.Model.Encode TomlVerif.Lemmas.Suffix03 TomlVerif.Lemmas.Cst03
open TomlVerif.Lemmas.LastByte03 TomlVerif.Lemmas.Tiling03 TomlVerif.Lemmas.Tiling03Hdr
open TomlVerif.Lemmas.Tiling03Nest

/-- only non-dotted sub-tables and arrays of tables -/
def onlySubs (items : Items) : Bool :=
  items.all fun kv => match kv.2 with
    | .table s => !s.dotted
    | .aot _ _ => true
    | .value _ => false

/-- `pathOkA` where the last key of a `[…]` header may also name an implicit, non-dotted table
    (take-over), spelled like the stored key and holding sub-tables only -/
def pathOkT (inp : Bytes) (a : Bool) (key : CKey) : CTbl → List CKey → Bool
  | t, [] => !t.dotted && (match clookup key.key t.items with
      | none => true
      | some (.aot _ _) => a
      | some (.table t') => !a && t'.implicit && !t'.dotted && segChk inp false key t.items && onlySubs t'.items
      | some (.value _) => false)
  | t, k :: ks => !t.dotted && (match clookup k.key t.items with
      | none => true
      | some (.table sub) => pathOkT inp a key sub ks
      | some (.aot ts _) =>
          (match ts.reverse with
           | l :: _ => pathOkT inp a key l ks
           | [] => false)
      | some (.value _) => false)

def hdrChkT (inp : Bytes) (a : Bool) (st1 : CState) (r : Bytes) : Bool :=
  match ckeyPath inp.length r with
  | .ok ks _ =>
    (match splitLast ks with
     | some (pp, key) => pathOkT inp a key st1.root pp
     | none => true)
  | _ => true

def hdrLineOkT (inp : Bytes) (st : CState) (s : Bytes) : Bool :=
  match finalizeTable st with
  | none => true
  | some st1 =>
    (match s with
     | 0x5B :: 0x5B :: r => hdrChkT inp true st1 r
     | _ => true) &&
    (match s with
     | 0x5B :: r => hdrChkT inp false st1 r
     | _ => true)

def runOkT (inp : Bytes) : Nat → CState → Bytes → Bool
  | 0, _, _ => true
  | fuel + 1, st, s =>
    let n := inp.length
    match s with
    | [] => true
    | b :: r =>
      if b == 0x23 then
        let r1 := dropComment r
        match r1 with
        | [] => true
        | _ => match newline? r1 with
          | some r2 =>
            let (st', r3) := parseWs n (onWs st (pos n s) (pos n r2)) r2
            runOkT inp fuel st' r3
          | none => true
      else if b == 0x5B then
        hdrLineOkT inp st s &&
        (match ctableLine n st s with
         | some (st', r1) =>
           let (st'', r2) := parseWs n st' r1
           runOkT inp fuel st'' r2
         | none => true)
      else if b == 0x0A || b == 0x0D then
        match newline? s with
        | some r1 =>
          let (st', r2) := parseWs n (onWs st (pos n s) (pos n r1)) r1
          runOkT inp fuel st' r2
        | none => true
      else
        kvLineOkA inp st s &&
        (match ckeyvalLine n st s with
         | some (st', r1) =>
           let (st'', r2) := parseWs n st' r1
           runOkT inp fuel st'' r2
         | none => true)

/-- the class: the checked run of `parse_document`, structure only -/
def tkoRun (s : Bytes) : Bool :=
  let n := s.length
  let s0 := Doc.stripBom s
  let (st0, s1) := parseWs n {} s0
  runOkT s (s1.length + 1) st0 s1

/-! ### `adjRun ⊆ tkoRun` -/

theorem pathOkA_T (inp : Bytes) (a : Bool) (key : CKey) : ∀ (pp : List CKey) (t : CTbl),
    pathOkA a key t pp = true → pathOkT inp a key t pp = true
  | [], t, h => by
    simp only [pathOkA, Bool.and_eq_true] at h
    simp only [pathOkT, Bool.and_eq_true]
    refine ⟨h.1, ?_⟩
    have h2 := h.2
    cases hl : clookup key.key t.items with
    | none => rfl
    | some y =>
      rw [hl] at h2
      cases y with
      | value v => simp at h2
      | table sub => simp at h2
      | aot ts asp => exact h2
  | k :: ks, t, h => by
    simp only [pathOkA, Bool.and_eq_true] at h
    simp only [pathOkT, Bool.and_eq_true]
    refine ⟨h.1, ?_⟩
    have h2 := h.2
    cases hl : clookup k.key t.items with
    | none => rfl
    | some y =>
      rw [hl] at h2
      cases y with
      | value v => simp at h2
      | table sub => exact pathOkA_T inp a key ks sub h2
      | aot ts asp =>
        simp only [] at h2 ⊢
        split at h2
        · rename_i l rest hrev
          simp only [hrev]
          exact pathOkA_T inp a key ks l h2
        · cases h2

theorem hdrChkA_T (inp : Bytes) (a : Bool) (st1 : CState) (r : Bytes) (h : hdrChkA inp a st1 r = true) :
    hdrChkT inp a st1 r = true := by
  unfold hdrChkA at h
  unfold hdrChkT
  split
  · rename_i ks rest hk
    rw [hk] at h
    simp only [] at h ⊢
    split
    · rename_i pp key hsl
      rw [hsl] at h
      exact pathOkA_T inp a key pp _ h
    · rfl
  · rfl

theorem hdrLineOkA_T (inp : Bytes) (st : CState) (s : Bytes) (h : hdrLineOkA inp st s = true) :
    hdrLineOkT inp st s = true := by
  unfold hdrLineOkA at h
  unfold hdrLineOkT
  split
  · rfl
  · rename_i st1 hfin
    rw [hfin] at h
    simp only [Bool.and_eq_true] at h ⊢
    refine ⟨?_, ?_⟩
    · have h1 := h.1
      split
      · rename_i r; exact hdrChkA_T inp true st1 r h1
      · rfl
    · have h2 := h.2
      split
      · rename_i r; exact hdrChkA_T inp false st1 r h2
      · rfl

theorem runOkA_T (inp : Bytes) : ∀ (fuel : Nat) (st : CState) (s : Bytes),
    runOkA inp fuel st s = true → runOkT inp fuel st s = true := by
  intro fuel
  induction fuel with
  | zero => intro st s _; unfold runOkT; rfl
  | succ fuel ih =>
    intro st s h
    unfold runOkA at h
    unfold runOkT
    cases s with
    | nil => rfl
    | cons b r =>
      simp only [] at h ⊢
      by_cases hb1 : (b == 0x23) = true
      · simp only [hb1, if_true] at h ⊢
        cases hdc : dropComment r with
        | nil => simp only []
        | cons c1 r1 =>
          simp only [hdc] at h ⊢
          cases hnl : newline? (c1 :: r1) with
          | none => simp only []
          | some r2 =>
            simp only [hnl] at h ⊢
            exact ih _ _ h
      · simp only [hb1, Bool.false_eq_true, if_false] at h ⊢
        by_cases hb2 : (b == 0x5B) = true
        · simp only [hb2, if_true, Bool.and_eq_true] at h ⊢
          refine ⟨hdrLineOkA_T inp st _ h.1, ?_⟩
          cases hl : ctableLine inp.length st (b :: r) with
          | none => simp only []
          | some pr =>
            obtain ⟨st', r1⟩ := pr
            have h2 := h.2
            simp only [hl] at h2 ⊢
            exact ih _ _ h2
        · simp only [hb2, Bool.false_eq_true, if_false] at h ⊢
          by_cases hb3 : (b == 0x0A || b == 0x0D) = true
          · simp only [hb3, if_true] at h ⊢
            cases hnl : newline? (b :: r) with
            | none => simp only []
            | some r1 =>
              simp only [hnl] at h ⊢
              exact ih _ _ h
          · simp only [hb3, Bool.false_eq_true, if_false, Bool.and_eq_true] at h ⊢
            refine ⟨h.1, ?_⟩
            cases hl : ckeyvalLine inp.length st (b :: r) with
            | none => simp only []
            | some pr =>
              obtain ⟨st', r1⟩ := pr
              have h2 := h.2
              simp only [hl] at h2 ⊢
              exact ih _ _ h2

theorem adjRun_T (s : Bytes) (h : adjRun s = true) : tkoRun s = true := by
  unfold adjRun at h
  unfold tkoRun
  simp only [] at h ⊢
  exact runOkA_T s _ _ _ h

end TomlVerif.Lemmas.Tiling03More.Tko
