import TomlVerif.Lemmas.SerTyped07c
/-! C07, reading back, part 4: THE induction over the type grammar. For a value `d` of a declarable type `ty` (no
    `toml::Value` inside, see part 6), `serOf nm ty d = some v` and `serValue v = .ok x` (the `toml_edit` value
    serializer accepted it), every deserializer of either family, handed data `w` that holds `x` (`Sim`: up to `cf` on
    doubles and the order of table entries), returns `normDec cf ty d` (`core`). -/
namespace TomlVerif.Lemmas.SerTyped07
open TomlVerif TomlVerif.Model TomlVerif.Model.TomlValue TomlVerif.Model.DeRoutes TomlVerif.Model.DeTyped
open TomlVerif.Model.SerTyped TomlVerif.Model.Ser TomlVerif.Spec TomlVerif.Spec.Serde
open TomlVerif.Spec.OrderedPlain (KeysDistinct)
open TomlVerif.Lemmas.Order18 (alookup_perm keysDistinct_perm)
open TomlVerif.Lemmas.RoundTrip17 (KSorted ksorted_nodup ksorted_perm_eq sortedInsert_new)

/-! ## `None` is recognisable on both sides -/

theorem svalOfSer_notNone (s : Ser) : isNoneS (svalOfSer s) = false := by
  cases s <;> simp [svalOfSer, isNoneS]

theorem serOfShape_notNone (nm : Bytes) (s : Shape) (n : Bytes) (d : Dec) (v : SVal) (h : serOfShape nm s n d = some v) :
    isNoneS v = false := by
  cases s <;> cases d <;> simp [serOfShape] at h
  · subst h; rfl
  · obtain ⟨_, _, h⟩ := h; subst h; rfl
  · obtain ⟨_, _, h⟩ := h; subst h; rfl
  · obtain ⟨_, _, h⟩ := h; subst h; rfl

theorem serOfVariants_notNone (nm : Bytes) : ∀ (vs : Variants) (d : Dec) (v : SVal), serOfVariants nm vs d = some v →
    isNoneS v = false
  | .nil, d, v, h => by simp [serOfVariants] at h
  | .cons name s r, d, v, h => by
    unfold serOfVariants at h
    split at h
    all_goals first
      | (split at h
         · exact serOfShape_notNone nm s name _ v h
         · exact serOfVariants_notNone nm r _ v h)
      | cases h

theorem serOfVariants_dnone (nm : Bytes) : ∀ vs, serOfVariants nm vs .none = none
  | .nil => by simp [serOfVariants]
  | .cons _ _ _ => by simp [serOfVariants]

set_option maxHeartbeats 1000000 in
/-- the serde call is `serialize_none` exactly for the value `None` (of an `Option` type) -/
theorem serOf_isNone (nm : Bytes) (t : Ty) (d : Dec) (v : SVal) (h : serOf nm t d = some v) :
    isNoneS v = isNoneDec d ∧ (isNoneDec d = true → ∃ t', t = .option t') := by
  cases t <;> cases d <;> simp [serOf] at h <;>
    first
    | (subst h; simp [isNoneS, isNoneDec]; done)
    | (obtain ⟨_, _, h⟩ := h; subst h; simp [isNoneS, isNoneDec]; done)
    | (simp [isNoneDec, serOfVariants_notNone nm _ _ v h]; done)
    | (simp [isNoneDec, h.symm ▸ svalOfSer_notNone _]; done)
    | (rw [serOfVariants_dnone] at h; cases h)

theorem isNoneS_eq (v : SVal) (h : isNoneS v = true) : v = .none := by
  cases v <;> simp [isNoneS] at h ⊢

theorem isNoneDec_eq (d : Dec) (h : isNoneDec d = true) : d = .none := by
  cases d <;> simp [isNoneDec] at h ⊢

/-! ## inversions -/

theorem mapO_cons {α β} (f : α → Option β) (a : α) (r : List α) (l : List β) (h : mapO f (a :: r) = some l) :
    ∃ b l', l = b :: l' ∧ f a = some b ∧ mapO f r = some l' := by
  unfold mapO at h
  split at h
  · rename_i b l' hb hl
    injection h with h
    exact ⟨b, l', h.symm, hb, hl⟩
  · cases h

theorem serSeq_cons (v : SVal) (vs : List SVal) (xs : List V) (h : serSeq (v :: vs) = .ok xs) :
    ∃ x xs', xs = x :: xs' ∧ serValue v = .ok x ∧ serSeq vs = .ok xs' := by
  unfold serSeq at h
  split at h
  · cases h
  · rename_i x hx
    split at h
    · rename_i l hl
      injection h with h
      exact ⟨x, l, h.symm, hx, hl⟩
    · cases h

theorem serSeq_nil (xs : List V) (h : serSeq [] = .ok xs) : xs = [] := by
  simp only [serSeq, Except.ok.injEq] at h; exact h.symm

theorem serOfFields_keys (nm : Bytes) : ∀ (fs : Fields) (l : List (Bytes × Dec)) (fields : List (Bytes × SVal)),
    serOfFields nm fs l = some fields → fields.map Prod.fst = Fields.names fs
  | .nil, [], fields, h => by simp only [serOfFields, Option.some.injEq] at h; subst h; rfl
  | .nil, _ :: _, _, h => by simp [serOfFields] at h
  | .cons _ _ _ _, [], _, h => by simp [serOfFields] at h
  | .cons name t dflt r, (k, d) :: l, fields, h => by
    unfold serOfFields at h
    split at h
    · rename_i v vs hv hvs
      injection h with h
      subst h
      simp [Fields.names, serOfFields_keys nm r l vs hvs]
    · cases h

/-! ## sequences and maps, given the statement for the element type -/

section
variable (nm : Bytes) (cf : Nat → Nat) (fl : Flavour)

/-- the statement for one type -/
def Core (t : Ty) : Prop :=
  ∀ (d : Dec) (v : SVal) (x : V) (w : TV), WellTyped t d = true → serOf nm t d = some v → serValue v = .ok x →
    Sim cf x w → Good fl t w (normDec cf t d)

theorem core_list (t : Ty) (ih : Core nm cf fl t) : ∀ (l : List Dec) (vs : List SVal) (xs : List V) (ws : List TV),
    l.all (WellTyped t) = true → mapO (serOf nm t) l = some vs → serSeq vs = .ok xs → SimList cf xs ws →
    GoodList fl t ws (l.map (normDec cf t))
  | [], vs, xs, ws, _, hs, hx, hsim => by
    simp only [mapO, Option.some.injEq] at hs
    subst hs
    rw [serSeq_nil xs hx] at hsim
    simp only [SimList] at hsim
    subst hsim
    simp [GoodList]
  | d :: l, vs, xs, ws, hwt, hs, hx, hsim => by
    simp only [List.all_cons, Bool.and_eq_true] at hwt
    obtain ⟨v, vs', hvs, hv, hvs'⟩ := mapO_cons _ _ _ _ hs
    subst hvs
    obtain ⟨x, xs', hxs, hx1, hx2⟩ := serSeq_cons _ _ _ hx
    subst hxs
    simp only [SimList] at hsim
    obtain ⟨y, ws', hws, hy, hws'⟩ := hsim
    subst hws
    simp only [List.map_cons, GoodList]
    exact ⟨ih d v x y hwt.1 hv hx1 hy, core_list t ih l vs' xs' ws' hwt.2 hvs' hx2 hws'⟩

/-- the entries `serialize_entry` adds for a map with pairwise distinct string keys: none for a `None` value -/
theorem core_pairs (t : Ty) (ih : Core nm cf fl t) : ∀ (l : List (Bytes × Dec)) (kvs : List (SVal × SVal))
    (acc out : List (Bytes × V)),
    (l.all fun kd => WellTyped t kd.2) = true → (l.map Prod.fst).Nodup → (∀ k ∈ l.map Prod.fst, k ∉ acc.map Prod.fst) →
    mapO (fun kd : Bytes × Dec => (serOf nm t kd.2).map fun v => (SVal.str kd.1, v)) l = some kvs →
    serMap kvs acc = .ok out →
    ∃ img, out = acc ++ img ∧ ∀ es0, SimKVs cf img es0 →
      GoodPairs fl t es0 ((l.filter fun kd => !isNoneDec kd.2).map fun kd : Bytes × Dec => (kd.1, normDec cf t kd.2))
  | [], kvs, acc, out, _, _, _, hs, hx => by
    simp only [mapO, Option.some.injEq] at hs
    subst hs
    simp only [serMap, Except.ok.injEq] at hx
    refine ⟨[], by simp [hx], ?_⟩
    intro es0 h
    simp only [SimKVs] at h
    subst h
    simp [GoodPairs]
  | (k, d) :: l, kvs, acc, out, hwt, hn, hd, hs, hx => by
    simp only [List.all_cons, Bool.and_eq_true] at hwt
    simp only [List.map_cons, List.nodup_cons] at hn
    obtain ⟨kv, kvs', hkvs, hkv, hkvs'⟩ := mapO_cons _ _ _ _ hs
    subst hkvs
    simp only [Option.map_eq_some_iff] at hkv
    obtain ⟨v, hv, hkv⟩ := hkv
    subst hkv
    obtain ⟨hnone, _⟩ := serOf_isNone nm t d v hv
    unfold serMap at hx
    simp only [serKey] at hx
    split at hx
    · -- a `None` value: the entry is skipped
      have hdn : isNoneDec d = true := by rw [← hnone]; rfl
      obtain ⟨img, ho, hi⟩ := core_pairs t ih l kvs' acc out hwt.2 hn.2 (fun k' hk' => hd k' (by simp [hk'])) hkvs' hx
      refine ⟨img, ho, ?_⟩
      intro es0 h
      simp only [List.filter_cons, hdn, Bool.not_true, Bool.false_eq_true, if_false]
      exact hi es0 h
    · rename_i hnot
      have hns : isNoneS v = false := by
        cases hq : isNoneS v with
        | false => rfl
        | true => exact absurd (isNoneS_eq v hq) (by intro e; exact hnot e)
      have hdn : isNoneDec d = false := by rw [← hnone]; exact hns
      split at hx
      · cases hx
      · rename_i x hxv
        rw [aset_new k x acc (hd k (by simp))] at hx
        obtain ⟨img, ho, hi⟩ := core_pairs t ih l kvs' (acc ++ [(k, x)]) out hwt.2 hn.2
          (by intro k' hk' hm
              simp only [List.map_append, List.map_cons, List.map_nil, List.mem_append, List.mem_singleton] at hm
              rcases hm with hm | hm
              · exact hd k' (by simp [hk']) hm
              · subst hm; exact hn.1 hk') hkvs' hx
        refine ⟨(k, x) :: img, by simp [ho], ?_⟩
        intro es0 h
        simp only [SimKVs] at h
        obtain ⟨y, es', he, hy, hr⟩ := h
        subst he
        simp only [List.filter_cons, hdn, Bool.not_false, if_true, List.map_cons, GoodPairs]
        exact ⟨trivial, ih d v x y hwt.1 hv hxv hy, hi es' hr⟩

/-- the closing step shared by a derived struct and a struct variant: the table `es` (entries in any order) against
the fields -/
theorem struct_finish (fs : Fields) (fields : List (Bytes × SVal)) (out : List (Bytes × V)) (es es0 : List (Bytes × TV))
    (nds : List (Bytes × Dec))
    (hdist : (Fields.names fs).Nodup) (hkeys : fields.map Prod.fst = Fields.names fs)
    (hser : serFields fields [] = .ok out) (hp : es.Perm es0) (hsim : SimKVs cf out es0)
    (hcore : ∀ (img : List (Bytes × V)) (es : List (Bytes × TV)), FieldsImg fields img →
      (∀ k x, (k, x) ∈ img → ∃ y, alookup k es = some y ∧ Sim cf x y) →
      (∀ k ∈ Fields.names fs, k ∉ img.map Prod.fst → alookup k es = none) → GoodFields fl fs es nds) :
    (∀ k ∈ es.map Prod.fst, fs.hasName k = true) ∧ dupField fs (es.map Prod.fst) = false ∧ GoodFields fl fs es nds := by
  obtain ⟨img, ho, himg⟩ := serFields_spec fields [] out (hkeys ▸ hdist) (by simp) hser
  simp only [List.nil_append] at ho
  subst ho
  have hk0 : es0.map Prod.fst = out.map Prod.fst := simKVs_keys cf out es0 hsim
  have hnd_out : (out.map Prod.fst).Nodup := fieldsImg_nodup fields out himg (hkeys ▸ hdist)
  have hnd0 : (es0.map Prod.fst).Nodup := hk0 ▸ hnd_out
  have hpk : (es.map Prod.fst).Perm (es0.map Prod.fst) := hp.map Prod.fst
  have hnd : (es.map Prod.fst).Nodup := (hpk.nodup_iff).2 hnd0
  have hkd : KeysDistinct es := (keysDistinct_iff es).2 hnd
  refine ⟨?_, dupField_nodup fs _ hnd, ?_⟩
  · intro k hk
    rw [hasName_iff, ← hkeys]
    exact fieldsImg_keys fields out himg k (hk0 ▸ hpk.subset hk)
  · apply hcore out es himg
    · intro k x hm
      obtain ⟨y, hy, hs⟩ := simKVs_mem cf out es0 hsim k x hm
      refine ⟨y, ?_, hs⟩
      rw [alookup_perm k hp hkd]
      exact alookup_of_mem es0 k y hnd0 hy
    · intro k _ hk
      apply alookup_none_of_not_mem
      intro hm
      exact hk (hk0 ▸ hpk.subset hm)

end

/-! ## scalars -/

theorem widthOf_not128 (lo hi : Int) : is128 (widthOf lo hi) = false := by
  unfold widthOf
  repeat' split
  all_goals rfl

theorem widthOf_u64 (lo hi : Int) (h : widthOf lo hi = .u64) : hi = i64Max := by
  unfold widthOf at h
  split at h
  · rename_i h1; simp only [Bool.and_eq_true, beq_iff_eq] at h1; exact h1.2
  · repeat' split at h
    all_goals cases h

def variantName : Dec → Option Bytes
  | .vUnit n => some n
  | .vNewtype n _ => some n
  | .vTuple n _ => some n
  | .vStruct n _ => some n
  | _ => none

end TomlVerif.Lemmas.SerTyped07
