import TomlVerif.Lemmas.Ser07TextVal
/-! C07 at the TEXT level, part 3: layer (c) of `Props/C17RoundTrip.lean` with the parsed table observed as plain DATA.

    `Lemmas/RoundTrip17d.lean` shows that the definition state machine accepts the statements `emitDoc` lists and
    that the deserializer PRESENTS the table it builds (`presOfTbl`) as the tree in document order.  A presentation
    shows a date-time as the private one-entry map, so it does not determine the parsed table; here the conclusion is
    about the table itself, read as plain data (`dataTbl`, `Lemmas/Ser07Text.lean`).  The claims and their proofs are
    those of `RoundTrip17d` with `presOf…` replaced by `data…`; the state-machine lemmas of `RoundTrip17c` and the
    key lemmas of `RoundTrip17d` are reused. -/
namespace TomlVerif.Lemmas.Ser07TextF
open TomlVerif.Model.DeText
open TomlVerif TomlVerif.Spec TomlVerif.Spec.Serde TomlVerif.Model TomlVerif.Model.TomlValue TomlVerif.Model.DeRoutes
open TomlVerif.Model.State
open TomlVerif.Lemmas.State09 TomlVerif.Lemmas.Encode06d
open TomlVerif.Lemmas.RoundTrip17 TomlVerif.Lemmas.Ser07Text

mutual
/-- a `toml::Value`-shaped tree as plain data -/
def vOf : TV → V
  | .str s => .sc (.str s)
  | .int n => .sc (.int n)
  | .float b => .sc (.float b)
  | .bool b => .sc (.bool b)
  | .dt d => .sc (.dt d)
  | .arr l => .arr (vOfList l)
  | .tbl items => .inl (vOfPs items)
def vOfList : List TV → List V
  | [] => []
  | v :: r => vOf v :: vOfList r
def vOfPs : List (Bytes × TV) → List (Bytes × V)
  | [] => []
  | (k, v) :: r => (k, vOf v) :: vOfPs r
end

mutual
theorem dataVal_valOf : ∀ v : TV, dataVal (valOf v) = vOf v
  | .str _ => by simp [valOf, dataVal, vOf]
  | .int _ => by simp [valOf, dataVal, vOf]
  | .float _ => by simp [valOf, dataVal, vOf]
  | .bool _ => by simp [valOf, dataVal, vOf]
  | .dt _ => by simp [valOf, dataVal, vOf]
  | .arr l => by simp [valOf, dataVal, vOf, dataVals_valOf l]
  | .tbl items => by simp [valOf, dataVal, vOf, dataPairs_valOf items]
theorem dataVals_valOf : ∀ l : List TV, dataVals (valOfList l) = vOfList l
  | [] => by simp [valOfList, dataVals, vOfList]
  | v :: r => by simp [valOfList, dataVals, vOfList, dataVal_valOf v, dataVals_valOf r]
theorem dataPairs_valOf : ∀ l : List (Bytes × TV), dataPairs (valOfPairs l) = vOfPs l
  | [] => by simp [valOfPairs, dataPairs, vOfPs]
  | (k, v) :: r => by simp [valOfPairs, dataPairs, vOfPs, dataVal_valOf v, dataPairs_valOf r]
end

theorem dataItems_valItemsTV (l : List (Bytes × TV)) : dataItems (valItemsTV l) = vOfPs l := by
  induction l with
  | nil => simp [valItemsTV, dataItems, vOfPs]
  | cons x r ih => obtain ⟨k, v⟩ := x; simp [valItemsTV, dataItems, dataItem, vOfPs, dataVal_valOf, ih]

theorem dataItems_append (a b : List (Bytes × Item)) : dataItems (a ++ b) = dataItems a ++ dataItems b := by
  induction a with
  | nil => rfl
  | cons x r ih => obtain ⟨k, i⟩ := x; simp [dataItems, ih]

theorem vOfPs_append (a b : List (Bytes × TV)) : vOfPs (a ++ b) = vOfPs a ++ vOfPs b := by
  induction a with
  | nil => rfl
  | cons x r ih => obtain ⟨k, i⟩ := x; simp [vOfPs, ih]

theorem dataTbls_append (a b : List Tbl) : dataTbls (a ++ b) = dataTbls a ++ dataTbls b := by
  induction a with
  | nil => rfl
  | cons x r ih => simp [dataTbls, ih]


/-- the sub-tables and arrays of tables of a table that exists (its values are already there) -/
def ClaimSubsD (items : List (Bytes × TV)) : Prop :=
  ∀ st V W P, intoDocument st = some V → lookupTbl V P = some W →
    (∀ k ∈ subKeys items, k ∉ W.items.map Prod.fst) → (subKeys items).Nodup →
    ∃ st' its, run st ((emitSubs P items).map stmtOf) = some st' ∧
      intoDocument st' = descend V P false (appendF its) ∧ dataItems its = vOfPs (docSubs items)

/-- the same for a table whose header the printer hid (non-empty, no values of its own) and that does not exist
    yet: the first thing printed below it creates it as an implicit table -/
def ClaimSubsHD (items : List (Bytes × TV)) : Prop :=
  items ≠ [] → ownValues items = [] → (subKeys items).Nodup →
  ∀ st V U A R key, intoDocument st = some V → lookupTbl V A = some U → alookup (headKey R key) U.items = none →
    ∃ st' its, run st ((emitSubs (A ++ R ++ [key]) items).map stmtOf) = some st' ∧
      intoDocument st' = descend V A false (appendF [nest R key (.table (.mk its true false none))]) ∧
      dataItems its = vOfPs (docSubs items)

/-- one entry printed as a table or as an array of tables, below tables `R` that may not exist yet -/
def ClaimItemD (v : TV) : Prop :=
  ∀ st V U A R key, intoDocument st = some V → lookupTbl V A = some U → alookup (headKey R key) U.items = none →
    ∃ st' I, run st ((emitItem (A ++ R ++ [key]) v).map stmtOf) = some st' ∧
      intoDocument st' = descend V A false (appendF [nest R key I]) ∧
      dataItems [(key, I)] = vOfPs (docItem key v)

/-- further elements of an array of tables -/
def ClaimAotMoreD (l : List TV) : Prop :=
  ∀ st V W P key pre, intoDocument st = some V → lookupTbl V P = some W → alookup key W.items = some (.aot pre) →
    ∃ st' ts', run st ((emitAot (P ++ [key]) l).map stmtOf) = some st' ∧
      intoDocument st' = descend V P false (setF key (.aot (pre ++ ts'))) ∧ dataTbls ts' = vOfList (docAot l)

/-! ## steps -/

/-- the sub-tables of a table that was just put under a fresh chain -/
theorem subs_underD (wrap : Tbl → Item) (hw : Through wrap) (items : List (Bytes × TV)) (hs : ClaimSubsD items)
    (st1 : ParseState) (V U T0 : Tbl) (A R : List Bytes) (key : Bytes)
    (hU : lookupTbl V A = some U) (hk : alookup (headKey R key) U.items = none)
    (hdoc1 : intoDocument st1 = descend V A false (appendF [nest R key (wrap T0)]))
    (hkeys : ∀ k ∈ subKeys items, k ∉ T0.items.map Prod.fst) (hn : (subKeys items).Nodup) :
    ∃ st2 its, run st1 ((emitSubs (A ++ R ++ [key]) items).map stmtOf) = some st2 ∧
      intoDocument st2 = descend V A false (appendF [nest R key (wrap (T0.setItems (T0.items ++ its)))]) ∧
      dataItems its = vOfPs (docSubs items) := by
  obtain ⟨V1, hV1, hl1⟩ := descend_some V U _ A (appendF [nest R key (wrap T0)]) hU rfl
  obtain ⟨hlu, hau⟩ := lookup_nest R key (wrap T0) U hk
  have hlook : lookupTbl V1 (A ++ R ++ [key]) = some T0 := by
    rw [lookupTbl_append, lookupTbl_append, hl1]
    simp only [Option.bind, hlu]
    exact hw.look _ T0 key hau
  obtain ⟨st2, its, hrun2, hdoc2, hp⟩ := hs st1 V1 T0 (A ++ R ++ [key]) (hdoc1.trans hV1) hlook hkeys hn
  refine ⟨st2, its, hrun2, ?_, hp⟩
  rw [hdoc2, descend_append_false]
  exact descend_under V V1 U A R key (wrap T0) _ _ hU hk hV1 (by rw [hw.desc _ T0 key _ hau]; rfl)

/-- a table whose header is printed -/
theorem item_visibleD (items : List (Bytes × TV)) (hn : (items.map Prod.fst).Nodup) (hs : ClaimSubsD items)
    (hvis : (!items.isEmpty && (ownValues items).isEmpty) = false) : ClaimItemD (.tbl items) := by
  intro st V U A R key hV hU hk
  obtain ⟨hn1, hn2, hn3⟩ := keys_split items hn
  obtain ⟨st1, n, hrun1, hdoc1⟩ := std_block_free st V U A R key (ownValues items) hV hU hk hn2
  obtain ⟨st2, its, hrun2, hdoc2, hp⟩ := subs_underD Item.table through_table items hs st1 V U
    (.mk (valItemsTV (ownValues items)) false false (some n)) A R key hU hk hdoc1
    (by intro k hkm; simpa [Tbl.items, valItemsTV_keys] using hn3 k hkm) hn1
  refine ⟨st2, _, ?_, hdoc2, ?_⟩
  · have hpe : (A ++ R ++ [key]).isEmpty = false := by simp
    have e : (emitItem (A ++ R ++ [key]) (.tbl items)).map stmtOf =
        (State09.Stmt.std (A ++ R ++ [key]) :: kvS (ownValues items)) ++ (emitSubs (A ++ R ++ [key]) items).map stmtOf := by
      rw [emitItem, tableStmts, headerOf]
      simp only [hpe, hvis, Bool.false_eq_true, if_false]
      simp [stmtOf, ownKvs_stmts]
    rw [e, run_append, hrun1]
    exact hrun2
  · simp [dataItems, dataItem, dataTbl, docItem, vOfPs, vOf, Tbl.setItems, Tbl.items,
      dataItems_append, vOfPs_append, dataItems_valItemsTV, hp]

/-- a table whose header is hidden -/
theorem item_hiddenD (items : List (Bytes × TV)) (hn : (items.map Prod.fst).Nodup) (hs : ClaimSubsHD items)
    (hhid : (!items.isEmpty && (ownValues items).isEmpty) = true) : ClaimItemD (.tbl items) := by
  intro st V U A R key hV hU hk
  simp only [Bool.and_eq_true, Bool.not_eq_eq_eq_not, Bool.not_true, List.isEmpty_eq_false_iff, List.isEmpty_iff] at hhid
  obtain ⟨hn1, _, _⟩ := keys_split items hn
  obtain ⟨st', its, hrun, hdoc, hp⟩ := hs hhid.1 hhid.2 hn1 st V U A R key hV hU hk
  refine ⟨st', _, ?_, hdoc, ?_⟩
  · have hpe : (A ++ R ++ [key]).isEmpty = false := by simp
    have hkv : ownKvs items = [] := by simp [ownKvs, hhid.2]
    have hne : items.isEmpty = false := by simpa using hhid.1
    rw [emitItem, tableStmts, headerOf]
    simp only [hpe, hkv, hhid.2, hne, Bool.false_eq_true, if_false, List.isEmpty_nil, Bool.not_false, Bool.and_self,
      if_true, List.nil_append]
    exact hrun
  · simp [dataItems, dataItem, dataTbl, docItem, vOfPs, vOf, hhid.2, hp]

theorem subs_nilD : ClaimSubsD [] := by
  intro st V W P hV hW _ _
  refine ⟨st, [], by simp [emitSubs, run], ?_, by simp [docSubs, dataItems, vOfPs]⟩
  rw [hV, descend_id V W P _ hW (by simp [appendF, setItems_self])]

theorem subs_valueD (k : Bytes) (v : TV) (r : List (Bytes × TV)) (hv : (kindOf v == .value) = true)
    (hr : ClaimSubsD r) : ClaimSubsD ((k, v) :: r) := by
  intro st V W P hV hW hk hn
  have e1 : subKeys ((k, v) :: r) = subKeys r := by simp [subKeys, List.filter_cons, hv]
  rw [e1] at hk hn
  obtain ⟨st', its, h1, h2, h3⟩ := hr st V W P hV hW hk hn
  refine ⟨st', its, ?_, h2, ?_⟩
  · rw [emitSubs, emitItem_value _ v hv]; exact h1
  · rw [docSubs, docItem_value k v hv]; exact h3

theorem subs_itemD (k : Bytes) (v : TV) (r : List (Bytes × TV)) (hv : (kindOf v == .value) = false)
    (hi : ClaimItemD v) (hr : ClaimSubsD r) : ClaimSubsD ((k, v) :: r) := by
  intro st V W P hV hW hk hn
  have e1 : subKeys ((k, v) :: r) = k :: subKeys r := by simp [subKeys, List.filter_cons, hv]
  rw [e1] at hk hn
  have hkW : alookup k W.items = none := (alookup_none_iff _ _).2 (hk k (by simp))
  obtain ⟨st1, I, hrun1, hdoc1, hp1⟩ := hi st V W P [] k hV hW hkW
  simp only [nest, List.append_nil] at hdoc1 hrun1
  obtain ⟨V1, hV1, hl1⟩ := descend_some V W _ P (appendF [(k, I)]) hW rfl
  obtain ⟨st2, its, hrun2, hdoc2, hp2⟩ := hr st1 V1 _ P (hdoc1.trans hV1) hl1 (keys_after W k _ _ hk hn)
    (List.nodup_cons.1 hn).2
  refine ⟨st2, (k, I) :: its, ?_, ?_, ?_⟩
  · simp only [emitSubs, List.map_append, run_append, hrun1, Option.bind]
    exact hrun2
  · rw [hdoc2]
    refine descend_then V V1 W P _ _ _ hV1 hW ?_
    simp [appendF, Tbl.setItems, Tbl.items, Tbl.implicit, Tbl.dotted, Tbl.pos]
  · simp only [docSubs, vOfPs_append]
    rw [← hp1, ← hp2]
    simp [dataItems]

/-- the first entry of a hidden table creates it; the others find it there -/
theorem subsH_consD (k : Bytes) (v : TV) (r : List (Bytes × TV)) (hi : ClaimItemD v) (hr : ClaimSubsD r) :
    ClaimSubsHD ((k, v) :: r) := by
  intro _ hown hn st V U A R key hV hU hk
  have hv : (kindOf v == .value) = false := by
    cases h : kindOf v == .value with
    | false => rfl
    | true => simp [ownValues, List.filter_cons, h] at hown
  have e1 : subKeys ((k, v) :: r) = k :: subKeys r := by simp [subKeys, List.filter_cons, hv]
  rw [e1] at hn
  have hk' : alookup (headKey (R ++ [key]) k) U.items = none := by rw [headKey_append]; exact hk
  obtain ⟨st1, I, hrun1, hdoc1, hp1⟩ := hi st V U A (R ++ [key]) k hV hU hk'
  rw [nest_append] at hdoc1
  rw [← List.append_assoc] at hrun1
  obtain ⟨st2, its, hrun2, hdoc2, hp2⟩ := subs_underD Item.table through_table r hr st1 V U
    (.mk [(k, I)] true false none) A R key hU hk hdoc1
    (by intro a ha hm
        simp only [Tbl.items, List.map_cons, List.map_nil, List.mem_singleton] at hm
        subst hm; exact (List.nodup_cons.1 hn).1 ha)
    (List.nodup_cons.1 hn).2
  refine ⟨st2, (k, I) :: its, ?_, ?_, ?_⟩
  · simp only [emitSubs, List.map_append, run_append, hrun1, Option.bind]
    exact hrun2
  · rw [hdoc2]; rfl
  · simp only [docSubs, vOfPs_append]
    rw [← hp1, ← hp2]
    simp [dataItems]

/-! ### arrays of tables -/

theorem aotMore_nilD : ClaimAotMoreD [] := by
  intro st V W P key pre hV hW hk
  refine ⟨st, [], by simp [emitAot, run], ?_, by simp [docAot, dataTbls, vOfList]⟩
  rw [hV, descend_id V W P _ hW (by simp [setF, aset_self _ _ _ hk, setItems_self])]

theorem aotMore_skipD (v : TV) (r : List TV) (hv : v.isTable = false) (hr : ClaimAotMoreD r) : ClaimAotMoreD (v :: r) := by
  intro st V W P key pre hV hW hk
  obtain ⟨st', ts', h1, h2, h3⟩ := hr st V W P key pre hV hW hk
  refine ⟨st', ts', ?_, h2, ?_⟩
  · cases v <;> first | (simp only [emitAot]; exact h1) | (simp [TV.isTable] at hv)
  · cases v <;> first | (simp only [docAot]; exact h3) | (simp [TV.isTable] at hv)

theorem aotMore_tblD (items : List (Bytes × TV)) (r : List TV) (hn : (items.map Prod.fst).Nodup)
    (hs : ClaimSubsD items) (hr : ClaimAotMoreD r) : ClaimAotMoreD (.tbl items :: r) := by
  intro st V W P key pre hV hW hk
  obtain ⟨hn1, hn2, hn3⟩ := keys_split items hn
  obtain ⟨st1, n, hrun1, hdoc1⟩ := arr_block_more st V W P key (ownValues items) pre hV hW hk hn2
  -- the element is there; its sub-tables
  obtain ⟨V1, hV1, hl1⟩ := descend_some V W _ P
    (setF key (.aot (pre ++ [.mk (valItemsTV (ownValues items)) false false (some n)]))) hW rfl
  have ha1 : alookup key (W.setItems (aset key (.aot (pre ++ [.mk (valItemsTV (ownValues items)) false false (some n)])) W.items)).items
      = some (.aot (pre ++ [.mk (valItemsTV (ownValues items)) false false (some n)])) := by
    simp [alookup_aset_same]
  have hlook : lookupTbl V1 (P ++ [key]) = some (.mk (valItemsTV (ownValues items)) false false (some n)) := by
    rw [lookupTbl_append, hl1]
    exact (through_aot pre).look _ _ key ha1
  obtain ⟨st2, its, hrun2, hdoc2, hp2⟩ := hs st1 V1 _ (P ++ [key]) (hdoc1.trans hV1) hlook
    (by intro k hkm; simpa [Tbl.items, valItemsTV_keys] using hn3 k hkm) hn1
  have hdoc2' : intoDocument st2 = descend V P false
      (setF key (.aot (pre ++ [.mk (valItemsTV (ownValues items) ++ its) false false (some n)]))) := by
    rw [hdoc2, descend_append_false]
    refine descend_then V V1 W P _ _ _ hV1 hW ?_
    simp only [setF, Option.bind]
    rw [(through_aot pre).desc _ _ key _ ha1]
    simp [appendF, aset_aset, Tbl.setItems, Tbl.items, Tbl.implicit, Tbl.dotted, Tbl.pos]
  -- the remaining elements
  obtain ⟨V2, hV2, hl2⟩ := descend_some V W _ P
    (setF key (.aot (pre ++ [.mk (valItemsTV (ownValues items) ++ its) false false (some n)]))) hW rfl
  obtain ⟨st3, ts', hrun3, hdoc3, hp3⟩ := hr st2 V2 _ P key
    (pre ++ [.mk (valItemsTV (ownValues items) ++ its) false false (some n)]) (hdoc2'.trans hV2) hl2
    (by simp [alookup_aset_same])
  refine ⟨st3, .mk (valItemsTV (ownValues items) ++ its) false false (some n) :: ts', ?_, ?_, ?_⟩
  · have hpe : (P ++ [key]).isEmpty = false := by simp
    have e : (emitAot (P ++ [key]) (.tbl items :: r)).map stmtOf =
        (State09.Stmt.arr (P ++ [key]) :: kvS (ownValues items)) ++ ((emitSubs (P ++ [key]) items).map stmtOf ++
          (emitAot (P ++ [key]) r).map stmtOf) := by
      rw [emitAot, tableStmts, headerOf]
      simp only [hpe, Bool.false_eq_true, if_false, if_true]
      simp [stmtOf, ownKvs_stmts]
    rw [e, run_append, hrun1]
    simp only [Option.bind, run_append, hrun2]
    exact hrun3
  · rw [hdoc3]
    refine descend_then V V2 W P _ _ _ hV2 hW ?_
    simp [setF, aset_aset, Tbl.setItems, Tbl.items, Tbl.implicit, Tbl.dotted, Tbl.pos]
  · simp [dataTbls, dataTbl, docAot, vOfList, vOf, dataItems_append, vOfPs_append,
      dataItems_valItemsTV, hp2, hp3]

/-- an array of tables: the first element creates the array (and the tables above it), the others extend it -/
theorem item_aotD (items : List (Bytes × TV)) (r : List TV) (hn : (items.map Prod.fst).Nodup)
    (hall : r.all TV.isTable = true) (hs : ClaimSubsD items) (hr : ClaimAotMoreD r) : ClaimItemD (.arr (.tbl items :: r)) := by
  intro st V U A R key hV hU hk
  have haot : isAotList (.tbl items :: r) = true := by simp [isAotList, TV.isTable, hall]
  obtain ⟨hn1, hn2, hn3⟩ := keys_split items hn
  obtain ⟨st1, n, hrun1, hdoc1⟩ := arr_block_free st V U A R key (ownValues items) hV hU hk hn2
  obtain ⟨st2, its, hrun2, hdoc2, hp2⟩ := subs_underD (fun T => Item.aot ([] ++ [T])) (through_aot []) items hs st1 V U
    (.mk (valItemsTV (ownValues items)) false false (some n)) A R key hU hk hdoc1
    (by intro k hkm; simpa [Tbl.items, valItemsTV_keys] using hn3 k hkm) hn1
  simp only [List.nil_append] at hdoc2
  -- the remaining elements, below the (now existing) table at `A ++ R`
  obtain ⟨V2, hV2, hl2⟩ := descend_some V U _ A
    (appendF [nest R key (.aot [.mk (valItemsTV (ownValues items) ++ its) false false (some n)])]) hU rfl
  obtain ⟨hlu, hau⟩ := lookup_nest R key (.aot [.mk (valItemsTV (ownValues items) ++ its) false false (some n)]) U hk
  have hlook : lookupTbl V2 (A ++ R) = some (under R key (.aot [.mk (valItemsTV (ownValues items) ++ its) false false (some n)]) U) := by
    rw [lookupTbl_append, hl2]; exact hlu
  have hdoc2' : intoDocument st2 = some V2 := by
    rw [hdoc2]; exact hV2
  obtain ⟨st3, ts', hrun3, hdoc3, hp3⟩ := hr st2 V2 _ (A ++ R) key _ hdoc2' hlook hau
  refine ⟨st3, .aot (.mk (valItemsTV (ownValues items) ++ its) false false (some n) :: ts'), ?_, ?_, ?_⟩
  · have hpe : (A ++ R ++ [key]).isEmpty = false := by simp
    have e : (emitItem (A ++ R ++ [key]) (.arr (.tbl items :: r))).map stmtOf =
        (State09.Stmt.arr (A ++ R ++ [key]) :: kvS (ownValues items)) ++ ((emitSubs (A ++ R ++ [key]) items).map stmtOf ++
          (emitAot (A ++ R ++ [key]) r).map stmtOf) := by
      rw [emitItem]
      simp only [haot, if_true]
      rw [emitAot, tableStmts, headerOf]
      simp only [hpe, Bool.false_eq_true, if_false, if_true]
      simp [stmtOf, ownKvs_stmts]
    rw [e, run_append, hrun1]
    simp only [Option.bind, run_append, hrun2]
    exact hrun3
  · rw [hdoc3]
    exact descend_under V V2 U A R key _ _ _ hU hk hV2 rfl
  · simp only [docItem, haot, if_true]
    simp [dataItems, dataItem, dataTbls, dataTbl, docAot, vOfPs, vOfList, vOf,
      dataItems_append, vOfPs_append, dataItems_valItemsTV, hp2, hp3]

/-! ## the induction -/

mutual
theorem claim_subsD (fl : FloatText) : ∀ items : List (Bytes × TV), OkFPs fl items → ClaimSubsD items ∧ ClaimSubsHD items
  | [], _ => ⟨subs_nilD, fun h => absurd rfl h⟩
  | (k, v) :: r, h => by
    rw [OkFPs] at h
    have hr := (claim_subsD fl r h.2).1
    cases hv : kindOf v == .value with
    | true =>
      refine ⟨subs_valueD k v r hv hr, ?_⟩
      intro _ hown
      simp [ownValues, List.filter_cons, hv] at hown
    | false =>
      have hi := claim_itemD fl v h.1 hv
      exact ⟨subs_itemD k v r hv hi hr, subsH_consD k v r hi hr⟩
theorem claim_itemD (fl : FloatText) : ∀ v : TV, OkF fl v → (kindOf v == .value) = false → ClaimItemD v
  | .tbl items, h, _ => by
    rw [OkF] at h
    have hs := claim_subsD fl items h.1
    cases hvis : (!items.isEmpty && (ownValues items).isEmpty) with
    | false => exact item_visibleD items h.2.1 hs.1 hvis
    | true => exact item_hiddenD items h.2.1 hs.2 hvis
  | .arr [], _, hk => by simp [kindOf, isAotList] at hk
  | .arr (.tbl items :: r), h, hk => by
    rw [OkF, OkFs, OkF] at h
    have hall : r.all TV.isTable = true := by
      cases ha : isAotList (.tbl items :: r) with
      | false => simp [kindOf, ha] at hk
      | true => simpa [isAotList, TV.isTable] using ha
    exact item_aotD items r h.1.2.1 hall (claim_subsD fl items h.1.1).1 (claim_aotMoreD fl r h.2)
  | .arr (.str _ :: r), _, hk => by simp [kindOf, isAotList, TV.isTable] at hk
  | .arr (.int _ :: r), _, hk => by simp [kindOf, isAotList, TV.isTable] at hk
  | .arr (.float _ :: r), _, hk => by simp [kindOf, isAotList, TV.isTable] at hk
  | .arr (.bool _ :: r), _, hk => by simp [kindOf, isAotList, TV.isTable] at hk
  | .arr (.dt _ :: r), _, hk => by simp [kindOf, isAotList, TV.isTable] at hk
  | .arr (.arr _ :: r), _, hk => by simp [kindOf, isAotList, TV.isTable] at hk
  | .str _, _, hk => by simp [kindOf] at hk
  | .int _, _, hk => by simp [kindOf] at hk
  | .float _, _, hk => by simp [kindOf] at hk
  | .bool _, _, hk => by simp [kindOf] at hk
  | .dt _, _, hk => by simp [kindOf] at hk
theorem claim_aotMoreD (fl : FloatText) : ∀ l : List TV, OkFs fl l → ClaimAotMoreD l
  | [], _ => aotMore_nilD
  | .tbl items :: r, h => by
    rw [OkFs, OkF] at h
    exact aotMore_tblD items r h.1.2.1 (claim_subsD fl items h.1.1).1 (claim_aotMoreD fl r h.2)
  | .str _ :: r, h => by rw [OkFs] at h; exact aotMore_skipD _ r rfl (claim_aotMoreD fl r h.2)
  | .int _ :: r, h => by rw [OkFs] at h; exact aotMore_skipD _ r rfl (claim_aotMoreD fl r h.2)
  | .float _ :: r, h => by rw [OkFs] at h; exact aotMore_skipD _ r rfl (claim_aotMoreD fl r h.2)
  | .bool _ :: r, h => by rw [OkFs] at h; exact aotMore_skipD _ r rfl (claim_aotMoreD fl r h.2)
  | .dt _ :: r, h => by rw [OkFs] at h; exact aotMore_skipD _ r rfl (claim_aotMoreD fl r h.2)
  | .arr _ :: r, h => by rw [OkFs] at h; exact aotMore_skipD _ r rfl (claim_aotMoreD fl r h.2)
end

/-! ## the document -/

/-- **the definition state machine on the statements of a tree**: it accepts them, and the deserializer presents
    the table it builds as the tree in document order -/
theorem run_emitDocD (fl : FloatText) (items : List (Bytes × TV)) (h : OkFPs fl items) (hn : (items.map Prod.fst).Nodup) :
    ∃ T, (run {} ((emitDoc items).map stmtOf)).bind intoDocument = some T ∧
      dataTbl T = vOfPs (docTbl items) := by
  obtain ⟨hn1, hn2, hn3⟩ := keys_split items hn
  have e : (emitDoc items).map stmtOf = kvS (ownValues items) ++ (emitSubs [] items).map stmtOf := by
    simp [emitDoc, tableStmts, headerOf, ownKvs_stmts]
  rw [e, run_append, run_kvS (ownValues items) {} rfl hn2 (by simp [Tbl.items, Tbl.empty])]
  simp only [Option.bind]
  have hV0 := intoDocument_root
    { ({} : ParseState) with current := ({} : ParseState).current.setItems (({} : ParseState).current.items ++ valItemsTV (ownValues items)) }
    rfl rfl
  obtain ⟨st', its, hrun, hdoc, hp⟩ := (claim_subsD fl items h).1 _ _ _ [] hV0 rfl
    (by intro k hk; simpa [Tbl.items, Tbl.empty, Tbl.setItems, valItemsTV_keys] using hn3 k hk) hn1
  rw [hrun]
  simp only [hdoc, descend, appendF]
  refine ⟨_, rfl, ?_⟩
  simp [dataTbl, Tbl.setItems, Tbl.items, Tbl.empty, dataItems_append, dataItems_valItemsTV, hp, docTbl,
    vOfPs_append]


end TomlVerif.Lemmas.Ser07TextF
