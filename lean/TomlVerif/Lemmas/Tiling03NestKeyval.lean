import TomlVerif.Lemmas.Tiling03NestState
/-! C03, nested documents — the key/value line, with dotted keys: `descend` along adjacent
    dotted keys appends one entry to the flattened body, under the key path as the line spelled
    it; the text of a key/value line with any number of key segments. -/
namespace TomlVerif.Lemmas.Tiling03Nest
open TomlVerif TomlVerif.Spec TomlVerif.Model TomlVerif.Model.Strings TomlVerif.Model.Value
open TomlVerif.Model.Cst TomlVerif.Model.Encode TomlVerif.Lemmas.Suffix03 TomlVerif.Lemmas.Cst03
open TomlVerif.Lemmas.LastByte03 TomlVerif.Lemmas.Tiling03 TomlVerif.Lemmas.Tiling03Hdr

/-! ### the flattened body under `descend` -/

theorem valuesTbl_value_at (k : CKey) (v : CVal) (h : simpleVal v = true) (P : List CKey) :
    valuesTbl [(k, .value v)] P = [(P ++ [k], v)] := by
  cases v with
  | scalar a b c => simp [valuesTbl]
  | arr a b c d e => simp [valuesTbl]
  | inl sub pre imp dot dec sp =>
    have : dot = false := by simp [simpleVal] at h; exact h.1.2
    subst this
    simp [valuesTbl]

theorem valuesTbl_snoc_dotted (init : Items) (k : CKey) (c : CTbl) (hc : c.dotted = true) (P : List CKey) :
    valuesTbl (init ++ [(k, .table c)]) P = valuesTbl init P ++ valuesTbl c.items (P ++ [k]) := by
  rw [valuesTbl_append]
  obtain ⟨items, imp, dot, q, dec, sp⟩ := c
  simp only [CTbl.dotted] at hc
  subst hc
  simp [valuesTbl, valuesDotted, CTbl.items]

theorem bodyTbl_eq (t : CTbl) : bodyTbl t = (t.dotted && bodyOk t.items) := by
  cases t; rfl

theorem bodyOk_snoc_table (init : Items) (k : CKey) (c : CTbl) :
    bodyOk (init ++ [(k, .table c)]) = (bodyOk init && (c.dotted && bodyOk c.items)) := by
  rw [bodyOk_append]; simp [bodyOk, bodyTbl_eq]

theorem dottedOk_empty (inp : Bytes) (t : CTbl) (h : t.items = []) : ∀ path, dottedOk inp t path = true
  | [] => rfl
  | k :: ks => by simp [dottedOk, h, clookup]

theorem dottedOk_items (inp : Bytes) (t t' : CTbl) (h : t'.items = t.items) :
    ∀ path, dottedOk inp t' path = dottedOk inp t path
  | [] => rfl
  | k :: ks => by simp only [dottedOk, h]

theorem setItems_eq_dotted (c t : CTbl) (h : c = t.setItems c.items) : c.dotted = t.dotted := by
  rw [h]; simp

theorem kv_descend (f : Bytes → Bytes) (inp : Bytes) (g : CTbl → Option CTbl) (key' : CKey) (v : CVal)
    (hv : simpleVal v = true)
    (hg : ∀ p p', g p = some p' → p' = p.setItems (p.items ++ [(key', .value v)])) :
    ∀ (path : List CKey) (t c : CTbl) (P Q : List CKey), dottedOk inp t path = true → bodyOk t.items = true →
      SegsEq f inp P Q → descend t path true g = some c →
      c = t.setItems c.items ∧ bodyOk c.items = true ∧
      ∃ X, valuesTbl c.items P = valuesTbl t.items P ++ [(X, v)] ∧
        ∀ dp ds, encodeKeyPath f inp X dp ds = encodeKeyPath f inp (Q ++ path ++ [key']) dp ds := by
  intro path
  induction path with
  | nil =>
    intro t c P Q _ hb hPQ hd
    rw [descend_nil] at hd
    have e := hg _ _ hd
    subst e
    refine ⟨by simp, ?_, P ++ [key'], ?_, ?_⟩
    · rw [setItems_items, bodyOk_append, hb]; simp [bodyOk, hv]
    · rw [setItems_items, valuesTbl_append, valuesTbl_value_at key' v hv]
    · intro dp ds
      rw [List.append_nil]
      exact encodeKeyPath_congr f inp P Q key' key' dp ds hPQ (LeafEq.refl f inp key')
  | cons k ks ih =>
    intro t c P Q hok hb hPQ hd
    obtain ⟨x, ec, hx⟩ := descend_cons_shape _ _ _ _ _ _ hd
    have hlist : ∀ (k0 : CKey), Q ++ [k0] ++ ks ++ [key'] = Q ++ k0 :: ks ++ [key'] := by intro k0; simp
    simp only [dottedOk] at hok
    cases hl : clookup k.key t.items with
    | none =>
      rw [hl] at hx
      simp only [Option.getD_none] at hx
      rcases hx with ⟨sub, sub', e1, hd', e2⟩ | ⟨_, _, _, _, e1, _⟩
      · injection e1 with e1
        subst e1; subst e2
        obtain ⟨i1, i2, X, i3, i4⟩ := ih _ _ (P ++ [k]) (Q ++ [k]) (dottedOk_empty inp _ rfl ks) rfl
          (hPQ.snoc (SegEq.refl f inp k)) hd'
        have hsd : sub'.dotted = true := by rw [setItems_eq_dotted _ _ i1]; rfl
        rw [cset_none _ _ _ hl] at ec
        subst ec
        refine ⟨by simp, ?_, X, ?_, ?_⟩
        · rw [setItems_items, bodyOk_snoc_table, hb, hsd, i2]; rfl
        · rw [setItems_items, valuesTbl_snoc_dotted _ _ _ hsd, i3]
          simp [newImplicit, CTbl.items, valuesTbl]
        · intro dp ds
          rw [i4, hlist]
      · cases e1
    | some y =>
      rw [hl] at hok hx
      simp only [Option.getD_some] at hx hok
      split at hok
      · rename_i init k' sub hle
        obtain ⟨e1, e2, e3, e4⟩ := lastEntry_some _ _ _ _ _ hle
        simp only [Bool.and_eq_true] at hok
        obtain ⟨⟨hseg, hsubd⟩, hok2⟩ := hok
        rw [hl] at e4
        injection e4 with e4
        subst e4
        rcases hx with ⟨sub0, sub', e5, hd', e6⟩ | ⟨_, _, _, _, e5, _⟩
        · injection e5 with e5
          subst e5; subst e6
          have hbs : bodyOk sub.items = true := by
            rw [e1, bodyOk_snoc_table] at hb
            simp only [Bool.and_eq_true] at hb
            exact hb.2.2
          have hbi : bodyOk init = true := by
            rw [e1, bodyOk_snoc_table] at hb
            simp only [Bool.and_eq_true] at hb
            exact hb.1
          obtain ⟨i1, i2, X, i3, i4⟩ := ih _ _ (P ++ [k']) (Q ++ [k]) hok2 hbs
            (hPQ.snoc (sameSeg_segEq f inp k k' hseg).symm) hd'
          have hsd : sub'.dotted = true := by rw [setItems_eq_dotted _ _ i1]; exact hsubd
          have hcs : cset k (.table sub') t.items = init ++ [(k', .table sub')] := by
            rw [e1]; exact cset_last _ _ _ _ _ e2 e3
          rw [hcs] at ec
          subst ec
          refine ⟨by simp, ?_, X, ?_, ?_⟩
          · rw [setItems_items, bodyOk_snoc_table, hbi, hsd, i2]; rfl
          · rw [setItems_items, valuesTbl_snoc_dotted _ _ _ hsd, i3, e1, valuesTbl_snoc_dotted _ _ _ hsubd]
            simp [List.append_assoc]
          · intro dp ds
            rw [i4, hlist]
        · cases e5
      · cases hok

/-! ### key paths: the leaf prefix -/

/-- everything `encode_key_path` writes after the leaf prefix -/
def kpTail (f : Bytes → Bytes) (inp : Bytes) (path : List CKey) (L : CKey) (ds : Bytes) : Bytes :=
  match path with
  | [] => encodeKey inp L ++ suffixEncode f inp L.leaf ds
  | k :: r => encodeKey inp k ++ suffixEncode f inp k.dotted [] ++
      (segsText f inp r false ++ [0x2E] ++ prefixEncode f inp L.dotted [] ++ encodeKey inp L ++ suffixEncode f inp L.leaf ds)

theorem encodeKeyPath_split (f : Bytes → Bytes) (inp : Bytes) (path : List CKey) (L : CKey) (dp ds : Bytes) :
    encodeKeyPath f inp (path ++ [L]) dp ds = prefixEncode f inp L.leaf dp ++ kpTail f inp path L ds := by
  unfold encodeKeyPath
  simp only [List.getLast?_append, List.getLast?_singleton, Option.some_or]
  rw [encodeKeyPathAux_snoc]
  cases path with
  | nil => simp [kpTail, List.append_assoc]
  | cons k r =>
    simp only [if_true, kpTail]
    rw [encodeKeyPathAux_tail]
    simp only [List.append_assoc]

theorem kpTail_kvKey (f : Bytes → Bytes) (inp : Bytes) (path : List CKey) (st : CState) (key : CKey) (ds : Bytes) :
    kpTail f inp path (kvKey st key) ds = kpTail f inp path key ds := by
  cases path <;> simp [kpTail, kvKey, encodeKey, suffixEncode]

/-- the first key `ckeyPathAux` adds records the leading white space as its dotted prefix -/
theorem ckeyPathAux_first (inp : Bytes) (fuel : Nat) (s : Bytes) (acc ks : List CKey) (r : Bytes) (hs : s <:+ inp)
    (h : ckeyPathAux inp.length fuel s acc = .ok ks r) :
    ∃ k rest, ks = acc ++ k :: rest ∧ k.dotted.pre = some (rawBetween inp.length s (dropWs s)) := by
  cases fuel with
  | zero => unfold ckeyPathAux at h; cases h
  | succ fuel =>
    unfold ckeyPathAux at h
    simp only [] at h
    split at h
    · rename_i k r0 hk
      obtain ⟨hsuf, _⟩ := simpleKey_suffix _ _ _ hk
      have hr0 : r0 <:+ inp := (hsuf.trans (Cst03.dropWs_suffix s)).trans hs
      split at h
      · rename_i r2 heq
        have hr2 : r2 <:+ inp := (List.suffix_cons _ r2).trans (heq ▸ ((Cst03.dropWs_suffix r0).trans hr0))
        split at h
        · injection h with h1 h2; subst h1
          exact ⟨_, [], rfl, rfl⟩
        · rename_i other hne
          cases hres : ckeyPathAux inp.length fuel r2 _ with
          | bt => exact absurd hres (by simpa using hne)
          | cut => rw [hres] at h; cases h
          | ok ks' r' =>
            rw [hres] at h
            injection h with h1 h2; subst h1
            obtain ⟨new, e1, _, _, _⟩ := ckeyPathAux_tiling id inp (FixOn.id inp) _ _ _ _ _ hr2 hres
            exact ⟨{ key := k, repr := rawBetween inp.length (dropWs s) r0,
                     dotted := Decor.new (rawBetween inp.length s (dropWs s)) (rawBetween inp.length r0 (dropWs r0)) },
              new, by rw [e1]; simp, rfl⟩
      · injection h with h1 h2; subst h1
        exact ⟨_, [], rfl, rfl⟩
    · cases h
    · cases h

theorem splitLast_cons_some {α} (a : α) (l : List α) : ∃ i x, splitLast (a :: l) = some (i, x) := by
  cases h : splitLast (a :: l) with
  | none => have := vsplitLast_none _ h; cases this
  | some p => exact ⟨p.1, p.2, rfl⟩

theorem fixLeaf_leafPre (first : CKey) (rest path : List CKey) (key : CKey) (p : Raw)
    (hp : first.dotted.pre = some p) (h : splitLast (fixLeaf (first :: rest)) = some (path, key)) :
    key.leaf.pre = some p := by
  unfold fixLeaf at h
  simp only [hp] at h
  obtain ⟨i, x, hsl⟩ := splitLast_cons_some { first with dotted := { first.dotted with pre := some .empty } } rest
  rw [hsl] at h
  simp only [] at h
  rw [vsplitLast_snoc] at h
  injection h with h
  simp only [Prod.mk.injEq] at h
  rw [← h.2]
  rfl

theorem ckeyPath_leafPre (inp s r : Bytes) (ks path : List CKey) (key : CKey) (hs : s <:+ inp)
    (h : ckeyPath inp.length s = .ok ks r) (hsl : splitLast ks = some (path, key)) :
    key.leaf.pre = some (rawBetween inp.length s (dropWs s)) := by
  unfold ckeyPath at h
  cases hk : ckeyPathAux inp.length (s.length + 1) s [] with
  | bt => rw [hk] at h; cases h
  | cut => rw [hk] at h; cases h
  | ok ks0 r0 =>
    rw [hk] at h
    simp only [] at h
    split at h
    · cases h
    · injection h with h1 h2
      obtain ⟨k, rest, e1, e2⟩ := ckeyPathAux_first inp _ s [] ks0 r0 hs hk
      simp only [List.nil_append] at e1
      subst e1
      rw [← h1] at hsl
      exact fixLeaf_leafPre k rest path key _ e2 hsl

/-! ### the text of a key/value line -/

theorem keyval_text_n (f : Bytes → Bytes) (inp : Bytes) (hf : FixOn f inp) (st : CState) (s r1 r2 r3 tr : Bytes)
    (ks path : List CKey) (key : CKey) (v : CVal)
    (hk : ckeyPath inp.length s = .ok ks (0x3D :: r1))
    (hv : cvalue inp.length (3 * r1.length + 4) (ks.length - 1) (dropWs r1) = .ok v r2)
    (hlt : lineTrailing r2 = .ok () r3) (hsl : splitLast ks = some (path, key))
    (hsv : simpleVal v = true)
    (h5 : TrailIs inp.length st.trailing tr s) (htrs : tr ++ s <:+ inp) :
    ∃ line e, s = line ++ e ++ r3 ∧ LineEnd (trailEnd r2) e r3 ∧ (∃ t b, line = t ++ [b] ∧ b ≠ 0x0A) ∧
      encodeKeyPath f inp (path ++ [kvKey st key]) [] [0x20] ++ [0x3D]
        ++ encodeValue f inp (kvVal inp.length v r1 r2) [0x20] [] = tr ++ line := by
  have hs : s <:+ inp := (List.suffix_append tr s).trans htrs
  have hks := vsplitLast_some _ _ _ hsl
  have hkp := ckeyPath_tiling f inp hf s _ ks hs hk [] [0x20]
  have hleaf := ckeyPath_leafPre inp s _ ks path key hs hk hsl
  obtain ⟨kw1, hkw1⟩ := Cst03.dropWs_suffix s
  have hr1 : r1 <:+ inp := ((List.suffix_cons _ r1).trans (ckeyPath_suffix _ _ _ _ hk).1).trans hs
  obtain ⟨w1, hw1⟩ := Cst03.dropWs_suffix r1
  have hr1' : dropWs r1 <:+ inp := (Cst03.dropWs_suffix r1).trans hr1
  obtain ⟨tv, htv, htvne, hdec, hvt⟩ := cvalue_tiling_simple f inp hf _ _ _ _ _ hr1' hv
  have hr2 : r2 <:+ inp := (htv ▸ suffix_of_append tv r2).trans hr1'
  obtain ⟨te, hte⟩ := trailEnd_suffix r2
  obtain ⟨e, he⟩ := lineTrailing_lineEnd r2 r3 hlt
  have hval : encodeValue f inp (kvVal inp.length v r1 r2) [0x20] [] = w1 ++ tv ++ te := by
    unfold kvVal
    rw [encodeValue_setDecor f hf.nil inp v _ _ hdec [0x20] [] [] [], hvt hsv [] [],
      encRaw_fix hf, encRaw_fix hf,
      rawText_between inp r1 w1 (dropWs r1) hr1 hw1.symm,
      rawText_between inp r2 te (trailEnd r2) hr2 hte.symm]
  -- the key path as the source has it, and as the printer writes it with the pending trivia
  have hsrc : encodeKeyPath f inp ks [] [0x20] = kw1 ++ kpTail f inp path key [0x20] := by
    rw [hks, encodeKeyPath_split]
    simp only [prefixEncode, hleaf]
    rw [encRaw_fix hf, rawText_between inp s kw1 (dropWs s) hs hkw1.symm]
  have hprt : encodeKeyPath f inp (path ++ [kvKey st key]) [] [0x20] = tr ++ kw1 ++ kpTail f inp path key [0x20] := by
    rw [encodeKeyPath_split, kpTail_kvKey]
    have hl' : (kvKey st key).leaf.pre = some (takeTrailing (mergeSpan st.trailing (rawBetween inp.length s (dropWs s)).span)) := by
      unfold kvKey; simp only [hleaf]
    simp only [prefixEncode, hl']
    rw [encRaw_fix hf, mergePre_text inp st.trailing tr s kw1 (dropWs s) h5 htrs hkw1.symm]
  generalize kpTail f inp path key [0x20] = kt at hsrc hprt
  have hstext : s = kw1 ++ kt ++ [0x3D] ++ w1 ++ tv ++ te ++ trailEnd r2 := by
    conv => lhs; rw [hkp, hsrc]
    simp only [List.append_assoc, List.cons_append, List.nil_append]
    rw [hte, ← htv, hw1]
  refine ⟨kw1 ++ kt ++ [0x3D] ++ w1 ++ tv ++ te, e, ?_, he, ?_, ?_⟩
  · rw [List.append_assoc, ← lineEnd_split he]; exact hstext
  · have l1 : LastNe r2 (dropWs r1) := cvalue_lastNe inp _ _ _ _ _ hr1' hv
    have l2 : LastNe (trailEnd r2) (dropWs r1) := (trailEnd_orEq r2).trans_lastNe l1
    obtain ⟨t, b, ht, hb⟩ := l2
    refine ⟨kw1 ++ kt ++ [0x3D] ++ w1 ++ t, b, ?_, hb⟩
    have e1 : tv ++ te ++ trailEnd r2 = t ++ [b] ++ trailEnd r2 := by
      rw [List.append_assoc, hte, ← htv, ht]; simp
    have := List.append_cancel_right e1
    simp only [List.append_assoc] at this ⊢
    rw [this]
  · rw [hprt, hval]; simp [List.append_assoc]

end TomlVerif.Lemmas.Tiling03Nest
