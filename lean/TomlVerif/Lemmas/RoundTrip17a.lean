import TomlVerif.Model.DeText
import TomlVerif.Props.C01Sound
import TomlVerif.Props.C01Values
import TomlVerif.Props.C06
import TomlVerif.Lemmas.Sound01Trivia
/-! Round trip of `toml::Value` trees, layer (a): every inline value `renderVal` prints is read back by the
    value parser as the tree it was printed from (`value_renderVal`), both in the plain and in the pretty layout.

    The route: `qOf pretty v` is a syntax tree (`QVal`, the abstract syntax with quoted keys of
    `Lemmas/Sound01Ast.lean`) whose rendering is `renderVal fl pretty v` and whose denotation is `valOf v`; it is
    well formed for every tree that meets `OkV` — then `T01_value_completeQ`.

    `decodeValue` / `decodeTable` and the total `presOfVal` / `presOfItem` / `presOfTbl` they use are in
    `Model/DeText.lean`. -/
namespace TomlVerif.Lemmas.RoundTrip17
open TomlVerif TomlVerif.Spec TomlVerif.Model TomlVerif.Model.TomlValue TomlVerif.Model.DeRoutes
open TomlVerif.Model.Value TomlVerif.Model.Strings
open TomlVerif.Spec.AstValue TomlVerif.Spec.AstValueQ
open TomlVerif.Model.DeText

/-! ## the parsed value of an inline tree -/

mutual
/-- the `toml_edit` value the parser builds for the text of `v` (inline tables in printed order) -/
def valOf : TV → Val
  | .str s => .str s
  | .int n => .int n
  | .float b => .float b
  | .bool b => .bool b
  | .dt d => .dt d
  | .arr l => .arr (valOfList l)
  | .tbl items => .inl (valOfPairs items) false false
def valOfList : List TV → List Val
  | [] => []
  | v :: r => valOf v :: valOfList r
def valOfPairs : List (Bytes × TV) → List (Bytes × Val)
  | [] => []
  | (k, v) :: r => (k, valOf v) :: valOfPairs r
end

/-! ## well-formed trees -/

/-- a date-time the printer can print and the parser reads back -/
def DtOk (d : Datetime.Datetime) : Prop :=
  Props.C12.FieldsInRange d ∧ ∀ x, d.date = some x → x.year ≤ 9999

mutual
/-- what the round trip needs of a tree: integers in the `i64` range, no float (the float printer is a parameter
    of the model), date-times with fields in range, in every table pairwise distinct keys none of which is the
    private date-time key -/
def OkV : TV → Prop
  | .str _ => True
  | .int n => Numbers.inI64 n = true
  | .float _ => False
  | .bool _ => True
  | .dt d => DtOk d
  | .arr l => OkVs l
  | .tbl items => OkPs items ∧ (items.map Prod.fst).Nodup ∧ FIELD ∉ items.map Prod.fst
def OkVs : List TV → Prop
  | [] => True
  | v :: r => OkV v ∧ OkVs r
def OkPs : List (Bytes × TV) → Prop
  | [] => True
  | (_, v) :: r => OkV v ∧ OkPs r
end

mutual
/-- nesting of containers -/
def depthTV : TV → Nat
  | .arr l => 1 + depthTVs l
  | .tbl items => 1 + depthTVPs items
  | _ => 0
def depthTVs : List TV → Nat
  | [] => 0
  | v :: r => max (depthTV v) (depthTVs r)
def depthTVPs : List (Bytes × TV) → Nat
  | [] => 0
  | (_, v) :: r => max (depthTV v) (depthTVPs r)
end

/-! ## scalar tokens -/

theorem strBytes_true : strBytes "true" = [0x74, 0x72, 0x75, 0x65] := by decide +kernel
theorem strBytes_false : strBytes "false" = [0x66, 0x61, 0x6C, 0x73, 0x65] := by decide +kernel

theorem scalarOK_writeInt (n : Int) (hn : Numbers.inI64 n = true) : ScalarOK ⟨Numbers.writeInt n, .int n⟩ := by
  have hsp := Lemmas.Numbers11.natDigits_spec n.natAbs
  have hg : Lemmas.Numbers11.GoodGroups isDigit [Numbers.natDigits n.natAbs] := by
    refine ⟨by simp, ?_⟩
    intro g hgm
    simp only [List.mem_singleton] at hgm
    subst hgm
    exact ⟨hsp.1, hsp.2.1⟩
  have hz : Lemmas.Numbers11.NoLeadingZero [Numbers.natDigits n.natAbs] := by
    intro g0 gs h; injection h with h1 h2; exact ⟨(hsp.2.2.2 g0 h1).2, h2.symm⟩
  have := Lemmas.Scalars01.scalarOK_dec (if n < 0 then some true else none) [Numbers.natDigits n.natAbs] hg hz
    (by rw [Lemmas.Numbers11.decValue_writeInt]; exact hn)
  rw [← Lemmas.Numbers11.writeInt_eq, Lemmas.Numbers11.decValue_writeInt] at this
  exact this

theorem scalarOK_str (s : Bytes) : ScalarOK ⟨(Write.writeValue .default s).getD [], .str s⟩ := by
  obtain ⟨q, t, e, _⟩ := Lemmas.Encode06.reprStr_spec s
  unfold Encode06.reprString at e
  cases hw : Write.writeValue .default s with
  | none => rw [hw] at e; cases e
  | some tok => exact Lemmas.Scalars01.scalarOK_string .default s tok hw

theorem keyText_renderKey (k : Bytes) : KeyText (renderKey k) k := by
  have h := Props.C06.T06_key k [] (by intro x r h; cases h)
  obtain ⟨raw, e, hk⟩ := Lemmas.Sound01.simpleKey_sound _ _ _ h
  simp only [List.append_nil] at e
  have : renderKey k = raw := e
  rw [this]; exact hk

/-! ## the syntax tree of a printed value -/

def scalarOf (v : TV) : ScalarTok :=
  match v with
  | .str s => ⟨(Write.writeValue .default s).getD [], .str s⟩
  | .int n => ⟨Numbers.writeInt n, .int n⟩
  | .float b => ⟨[], .float b⟩
  | .bool b => ⟨if b then strBytes "true" else strBytes "false", .bool b⟩
  | .dt d => ⟨Datetime.Std.display d, .dt d⟩
  | _ => ⟨[], .bool false⟩

def spKey (k : Bytes) : QDKey := ⟨⟨[0x20], renderKey k, k, [0x20]⟩, []⟩

mutual
def qOf (pretty : Bool) : TV → QVal
  | .arr l =>
    if !pretty || l.length ≤ 1 then .arr (qElems pretty true l) false []
    else .arr (qElemsMl pretty l) true [.nl false]
  | .tbl items => .inl (qPairs pretty items) []
  | .str s => .scalar (scalarOf (.str s))
  | .int n => .scalar (scalarOf (.int n))
  | .float b => .scalar (scalarOf (.float b))
  | .bool b => .scalar (scalarOf (.bool b))
  | .dt d => .scalar (scalarOf (.dt d))
def qElems (pretty : Bool) (first : Bool) : List TV → List (Wcn × QVal × Wcn)
  | [] => []
  | v :: r => ((if first then [] else [.ws [0x20]]), qOf pretty v, []) :: qElems pretty false r
def qElemsMl (pretty : Bool) : List TV → List (Wcn × QVal × Wcn)
  | [] => []
  | v :: r => ([.nl false, .ws [0x20, 0x20, 0x20, 0x20]], qOf pretty v, []) :: qElemsMl pretty r
def qPairs (pretty : Bool) : List (Bytes × TV) → List (QDKey × Bytes × QVal × Bytes)
  | [] => []
  | (k, v) :: r => (spKey k, [0x20], qOf pretty v, (if r.isEmpty then [0x20] else [])) :: qPairs pretty r
end

/-! ### rendering -/

theorem renderElems_cons_false (fl : FloatText) (p : Bool) (v : TV) (r : List TV) :
    renderElems fl p false (v :: r) = 0x2C :: 0x20 :: (renderVal fl p v ++ renderElems fl p false r) := by
  simp [renderElems, comma, sp]

mutual
theorem render_qOf (fl : FloatText) (p : Bool) : ∀ v : TV, hasFloat v = false → renderQ (qOf p v) = renderVal fl p v
  | .str s, _ => by simp [qOf, renderQ, scalarOf, renderVal]
  | .int n, _ => by simp [qOf, renderQ, scalarOf, renderVal]
  | .float b, h => by simp [hasFloat] at h
  | .bool b, _ => by simp [qOf, renderQ, scalarOf, renderVal]
  | .dt d, _ => by simp [qOf, renderQ, scalarOf, renderVal]
  | .arr l, h => by
    simp only [hasFloat] at h
    rw [qOf, renderVal]
    split
    · simp [renderQ, render_qElems fl p l h, renderWcn]
    · rename_i hc
      have hne : l ≠ [] := by
        intro e; subst e; simp at hc
      have h1 := (render_qElemsMl fl p l h).1 hne
      simp only [renderQ, if_true, renderWcn, Piece.render, nlBytes, Bool.false_eq_true, if_false, List.append_nil,
        List.cons_append, List.nil_append]
      rw [← h1]
      simp
  | .tbl items, h => by
    simp only [hasFloat] at h
    rw [qOf, renderVal]
    simp [renderQ, render_qPairs fl p items h]
theorem render_qElems (fl : FloatText) (p : Bool) : ∀ l : List TV, hasFloatList l = false →
    renderItemsQ (qElems p true l) = renderElems fl p true l ∧
    renderItemsSepQ (qElems p false l) = renderElems fl p false l
  | [], _ => by simp [qElems, renderItemsQ, renderItemsSepQ, renderElems]
  | v :: r, h => by
    simp only [hasFloatList, Bool.or_eq_false_iff] at h
    have h1 := render_qOf fl p v h.1
    have h2 := (render_qElems fl p r h.2).2
    constructor
    · simp [qElems, renderItemsQ, renderElems, renderWcn, h1, h2]
    · simp [qElems, renderItemsSepQ, renderElems, renderWcn, Piece.render, h1, h2, comma, sp]
theorem render_qElemsMl (fl : FloatText) (p : Bool) : ∀ l : List TV, hasFloatList l = false →
    (l ≠ [] → renderItemsQ (qElemsMl p l) ++ [0x2C] = renderElemsMl fl p l) ∧
    renderItemsSepQ (qElemsMl p l) ++ [0x2C] = 0x2C :: renderElemsMl fl p l
  | [], _ => by simp [qElemsMl, renderItemsSepQ, renderElemsMl]
  | v :: r, h => by
    simp only [hasFloatList, Bool.or_eq_false_iff] at h
    have h1 := render_qOf fl p v h.1
    have h2 := (render_qElemsMl fl p r h.2).2
    constructor
    · intro _
      simp [qElemsMl, renderItemsQ, renderElemsMl, renderWcn, Piece.render, nlBytes, h1, h2, prettyIndent, comma]
    · simp [qElemsMl, renderItemsSepQ, renderElemsMl, renderWcn, Piece.render, nlBytes, h1, h2, prettyIndent, comma]
theorem render_qPairs (fl : FloatText) (p : Bool) : ∀ l : List (Bytes × TV), hasFloatPairs l = false →
    renderPairsQ (qPairs p l) = renderInline fl p true l ∧
    renderPairsSepQ (qPairs p l) = renderInline fl p false l
  | [], _ => by simp [qPairs, renderPairsQ, renderPairsSepQ, renderInline]
  | (k, v) :: r, h => by
    simp only [hasFloatPairs, Bool.or_eq_false_iff] at h
    have h1 := render_qOf fl p v h.1
    have h2 := (render_qPairs fl p r h.2).2
    constructor
    · simp [qPairs, renderPairsQ, renderInline, spKey, QDKey.render, QKey.render, renderQKeySep, h1, h2, sp]
    · simp [qPairs, renderPairsSepQ, renderInline, spKey, QDKey.render, QKey.render, renderQKeySep, h1, h2, sp, comma]
end


/-! ### denotation -/

def plainOf : List (Bytes × TV) → List (List Bytes × Bytes × Val)
  | [] => []
  | (k, v) :: r => ([], k, valOf v) :: plainOf r

theorem keys_valOfPairs (l : List (Bytes × TV)) : (valOfPairs l).map Prod.fst = l.map Prod.fst := by
  induction l with
  | nil => rfl
  | cons x r ih => obtain ⟨k, v⟩ := x; simp [valOfPairs, ih]

theorem tableFromPairs_plainOf : ∀ (l : List (Bytes × TV)) (acc : List (Bytes × Val)),
    (l.map Prod.fst).Nodup → (∀ k ∈ l.map Prod.fst, k ∉ acc.map Prod.fst) →
    tableFromPairs (plainOf l) acc = some (acc ++ valOfPairs l) := by
  intro l
  induction l with
  | nil => intro acc _ _; simp [plainOf, tableFromPairs, valOfPairs]
  | cons x l ih =>
    obtain ⟨k, v⟩ := x
    intro acc hn ha
    simp only [List.map_cons, List.nodup_cons] at hn
    have hk : k ∉ acc.map Prod.fst := ha k (by simp)
    simp only [plainOf, tableFromPairs, List.isEmpty_nil, inlInsert, Lemmas.Value01.alookup_none _ _ hk, valOfPairs]
    simp only [Bool.false_eq_true, if_false, beq_iff_eq]
    rw [ih (acc ++ [(k, valOf v)]) hn.2]
    · simp
    · intro k' hk' hmem
      simp only [List.map_append, List.map_cons, List.map_nil, List.mem_append, List.mem_singleton] at hmem
      rcases hmem with hmem | hmem
      · exact ha k' (by simp [hk']) hmem
      · subst hmem; exact hn.1 hk'

theorem spKey_path (k : Bytes) : (spKey k).path = [] ∧ (spKey k).last = k := by
  simp [spKey, QDKey.path, QDKey.last, splitKeys]

mutual
theorem sem_qOf (p : Bool) : ∀ v : TV, OkV v → semQ (qOf p v) = valOf v
  | .str s, _ => by simp [qOf, semQ, scalarOf, valOf]
  | .int n, _ => by simp [qOf, semQ, scalarOf, valOf]
  | .float b, h => by simp [OkV] at h
  | .bool b, _ => by simp [qOf, semQ, scalarOf, valOf]
  | .dt d, _ => by simp [qOf, semQ, scalarOf, valOf]
  | .arr l, h => by
    rw [OkV] at h
    rw [qOf, valOf]
    split
    · simp [semQ, (sem_qElems p l h).1]
    · simp [semQ, (sem_qElems p l h).2]
  | .tbl items, h => by
    rw [OkV] at h
    rw [qOf, valOf]
    simp only [semQ, flat_qPairs p items h.1]
    rw [tableFromPairs_plainOf items [] h.2.1 (by simp)]
    simp
theorem sem_qElems (p : Bool) : ∀ l : List TV, OkVs l →
    (∀ first, semItemsQ (qElems p first l) = valOfList l) ∧ semItemsQ (qElemsMl p l) = valOfList l
  | [], _ => by simp [qElems, qElemsMl, semItemsQ, valOfList]
  | v :: r, h => by
    rw [OkVs] at h
    have h1 := sem_qOf p v h.1
    have h2 := sem_qElems p r h.2
    exact ⟨fun first => by simp [qElems, semItemsQ, valOfList, h1, h2.1], by simp [qElemsMl, semItemsQ, valOfList, h1, h2.2]⟩
theorem flat_qPairs (p : Bool) : ∀ l : List (Bytes × TV), OkPs l → flatPairsQ (qPairs p l) = plainOf l
  | [], _ => by simp [qPairs, flatPairsQ, plainOf]
  | (k, v) :: r, h => by
    rw [OkPs] at h
    simp [qPairs, flatPairsQ, plainOf, (spKey_path k).1, (spKey_path k).2, sem_qOf p v h.1, flat_qPairs p r h.2]
end

mutual
theorem depth_qOf (p : Bool) : ∀ v : TV, depthQ (qOf p v) = depthTV v
  | .str s => by simp [qOf, depthQ, depthTV]
  | .int n => by simp [qOf, depthQ, depthTV]
  | .float b => by simp [qOf, depthQ, depthTV]
  | .bool b => by simp [qOf, depthQ, depthTV]
  | .dt d => by simp [qOf, depthQ, depthTV]
  | .arr l => by
    rw [qOf, depthTV]
    split
    · simp [depthQ, (depth_qElems p l).1]
    · simp [depthQ, (depth_qElems p l).2]
  | .tbl items => by
    rw [qOf, depthTV]
    simp [depthQ, depth_qPairs p items]
theorem depth_qElems (p : Bool) : ∀ l : List TV,
    (∀ first, depthItemsQ (qElems p first l) = depthTVs l) ∧ depthItemsQ (qElemsMl p l) = depthTVs l
  | [] => by simp [qElems, qElemsMl, depthItemsQ, depthTVs]
  | v :: r => by
    have h1 := depth_qOf p v
    have h2 := depth_qElems p r
    exact ⟨fun first => by simp [qElems, depthItemsQ, depthTVs, h1, h2.1], by simp [qElemsMl, depthItemsQ, depthTVs, h1, h2.2]⟩
theorem depth_qPairs (p : Bool) : ∀ l : List (Bytes × TV), depthPairsQ (qPairs p l) = depthTVPs l
  | [] => by simp [qPairs, depthPairsQ, depthTVPs]
  | (k, v) :: r => by
    simp [qPairs, depthPairsQ, depthTVPs, depth_qOf p v, depth_qPairs p r, spKey]
end

/-! ### well-formedness -/

theorem allWs_nil : AllWs [] := by intro b hb; cases hb
theorem allWs_sp : AllWs [0x20] := by intro b hb; simp at hb; subst hb; decide

theorem spKey_wf (k : Bytes) : (spKey k).WF :=
  ⟨⟨allWs_sp, allWs_sp, keyText_renderKey k⟩, (by intro x hx; cases hx), (by simp [spKey, LIMIT])⟩

theorem wcn_sp : WcnWF [.ws [0x20]] := by
  intro p hp; simp at hp; subst hp; exact allWs_sp
theorem wcn_nil : WcnWF [] := by intro p hp; cases hp
theorem wcn_nl : WcnWF [.nl false] := by intro p hp; simp at hp; subst hp; trivial
theorem wcn_indent : WcnWF [.nl false, .ws [0x20, 0x20, 0x20, 0x20]] := by
  intro p hp
  simp at hp
  rcases hp with rfl | rfl
  · trivial
  · intro b hb; simp at hb; subst hb; decide

mutual
theorem wf_qOf (p : Bool) : ∀ v : TV, OkV v → WFQ (qOf p v)
  | .str s, _ => by rw [qOf, WFQ]; exact scalarOK_str s
  | .int n, h => by rw [qOf, WFQ]; exact scalarOK_writeInt n (by simpa [OkV] using h)
  | .float b, h => by simp [OkV] at h
  | .bool b, _ => by
    rw [qOf, WFQ]
    cases b
    · simp only [scalarOf, strBytes_false, Bool.false_eq_true, if_false]; exact Lemmas.Value01.scalarOK_false
    · simp only [scalarOf, strBytes_true, if_true]; exact Lemmas.Value01.scalarOK_true
  | .dt d, h => by
    rw [qOf, WFQ]
    rw [OkV] at h
    exact Lemmas.Scalars01.scalarOK_datetime d h.1 h.2
  | .arr l, h => by
    rw [OkV] at h
    rw [qOf]
    split
    · rw [WFQ]; exact ⟨(wf_qElems p l h).1 true, wcn_nil, fun _ => rfl⟩
    · rename_i hc
      rw [WFQ]
      refine ⟨(wf_qElems p l h).2, wcn_nl, ?_⟩
      intro e
      cases l with
      | nil => simp at hc
      | cons v r => simp [qElemsMl] at e
  | .tbl items, h => by
    rw [OkV] at h
    rw [qOf, WFQ]
    refine ⟨wf_qPairs p items h.1, allWs_nil, ?_⟩
    rw [flat_qPairs p items h.1, tableFromPairs_plainOf items [] h.2.1 (by simp)]
    rfl
theorem wf_qElems (p : Bool) : ∀ l : List TV, OkVs l →
    (∀ first, WFItemsQ (qElems p first l)) ∧ WFItemsQ (qElemsMl p l)
  | [], _ => by simp [qElems, qElemsMl, WFItemsQ]
  | v :: r, h => by
    rw [OkVs] at h
    have h1 := wf_qOf p v h.1
    have h2 := wf_qElems p r h.2
    refine ⟨fun first => ?_, ?_⟩
    · rw [qElems, WFItemsQ]
      exact ⟨by cases first <;> simp [wcn_nil, wcn_sp], h1, wcn_nil, h2.1 false⟩
    · rw [qElemsMl, WFItemsQ]
      exact ⟨wcn_indent, h1, wcn_nil, h2.2⟩
theorem wf_qPairs (p : Bool) : ∀ l : List (Bytes × TV), OkPs l → WFPairsQ (qPairs p l)
  | [], _ => by simp [qPairs, WFPairsQ]
  | (k, v) :: r, h => by
    rw [OkPs] at h
    rw [qPairs, WFPairsQ]
    exact ⟨spKey_wf k, allWs_sp, wf_qOf p v h.1, by cases r <;> simp [allWs_nil, allWs_sp], wf_qPairs p r h.2⟩
end

mutual
theorem okV_noFloat : ∀ v : TV, OkV v → hasFloat v = false
  | .str s, _ => by simp [hasFloat]
  | .int n, _ => by simp [hasFloat]
  | .float b, h => by simp [OkV] at h
  | .bool b, _ => by simp [hasFloat]
  | .dt d, _ => by simp [hasFloat]
  | .arr l, h => by rw [OkV] at h; rw [hasFloat]; exact okVs_noFloat l h
  | .tbl items, h => by rw [OkV] at h; rw [hasFloat]; exact okPs_noFloat items h.1
theorem okVs_noFloat : ∀ l : List TV, OkVs l → hasFloatList l = false
  | [], _ => by simp [hasFloatList]
  | v :: r, h => by rw [OkVs] at h; simp [hasFloatList, okV_noFloat v h.1, okVs_noFloat r h.2]
theorem okPs_noFloat : ∀ l : List (Bytes × TV), OkPs l → hasFloatPairs l = false
  | [], _ => by simp [hasFloatPairs]
  | (k, v) :: r, h => by rw [OkPs] at h; simp [hasFloatPairs, okV_noFloat v h.1, okPs_noFloat r h.2]
end

/-- **layer (a)**: the text `renderVal` prints for a well-formed tree — plain or pretty, with any float printer
    (the tree holds no float) — is read back by `value`, at any recursion depth that leaves room for the tree's own
    nesting and in any context in which a value may end, as exactly that tree, consuming exactly the text. -/
theorem value_renderVal (fl : FloatText) (p : Bool) (v : TV) (h : OkV v) (d fuel : Nat) (rest : Bytes)
    (hd : d + depthTV v < LIMIT) (hr : ValFollowS rest) (hf : 2 * (renderVal fl p v).length ≤ fuel) :
    value fuel d (renderVal fl p v ++ rest) = .ok (valOf v) rest := by
  have hq := Props.C01Sound.T01_value_completeQ (qOf p v) (wf_qOf p v h) d fuel rest
    (by rw [depth_qOf]; exact hd) hr (by rw [render_qOf fl p v (okV_noFloat v h)]; exact hf)
  rw [render_qOf fl p v (okV_noFloat v h), sem_qOf p v h] at hq
  exact hq

/-- the head of a printed value is not trivia and no value may end before it -/
theorem renderVal_head (fl : FloatText) (p : Bool) (v : TV) (h : OkV v) :
    ∃ b r, renderVal fl p v = b :: r ∧ isFollowByte b = false := by
  obtain ⟨b, r, e, hb⟩ := Lemmas.Sound01C.render_headQ (qOf p v) (wf_qOf p v h)
  rw [render_qOf fl p v (okV_noFloat v h)] at e
  exact ⟨b, r, e, hb⟩

end TomlVerif.Lemmas.RoundTrip17
