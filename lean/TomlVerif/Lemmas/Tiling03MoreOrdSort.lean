import TomlVerif.Lemmas.Tiling03MoreDocMain
/-! C03, documents whose sections are NOT in pre-order — the sorting half: facts about the stable
    insertion sort of the printer (`sortEntries`), stated once for any key function (`insG`,
    `sortG`) and instantiated for the entries of `visit_nested_tables` and for lists of
    `(position, text)` pairs:
    the result is sorted; sorting commutes with maps that keep the key and (on the sorted result)
    with filters; an element whose key is larger than all others goes to the end. -/
namespace TomlVerif.Lemmas.Tiling03More
open TomlVerif TomlVerif.Spec TomlVerif.Model TomlVerif.Model.Strings TomlVerif.Model.Value
open TomlVerif.Model.Cst TomlVerif.Model.Encode TomlVerif.Lemmas.Suffix03 TomlVerif.Lemmas.Cst03
open TomlVerif.Lemmas.LastByte03 TomlVerif.Lemmas.Tiling03 TomlVerif.Lemmas.Tiling03Hdr
open TomlVerif.Lemmas.Tiling03Nest

/-! ### the generic stable insertion sort -/

section generic
variable {α : Type} (key : α → Nat)

/-- `insertEntry` for any key -/
def insG (e : α) : List α → List α
  | [] => [e]
  | x :: r => if key e ≤ key x then e :: x :: r else x :: insG e r

/-- `sortEntries` for any key -/
def sortG (l : List α) : List α := l.foldr (insG key) []

theorem sortG_cons (e : α) (l : List α) : sortG key (e :: l) = insG key e (sortG key l) := rfl

theorem insG_cons (e x : α) (r : List α) :
    insG key e (x :: r) = if key e ≤ key x then e :: x :: r else x :: insG key e r := rfl

theorem mem_insG (e x : α) : ∀ l : List α, x ∈ insG key e l ↔ x = e ∨ x ∈ l
  | [] => by simp [insG]
  | y :: r => by
    unfold insG
    split
    · simp
    · simp only [List.mem_cons, mem_insG e x r]
      constructor
      · rintro (h | h | h)
        · exact Or.inr (Or.inl h)
        · exact Or.inl h
        · exact Or.inr (Or.inr h)
      · rintro (h | h | h)
        · exact Or.inr (Or.inl h)
        · exact Or.inl h
        · exact Or.inr (Or.inr h)

theorem mem_sortG (x : α) : ∀ l : List α, x ∈ sortG key l ↔ x ∈ l
  | [] => by simp [sortG]
  | e :: r => by
    rw [sortG_cons, mem_insG, mem_sortG x r]; simp

/-- sorted: keys do not decrease -/
def SortedG (l : List α) : Prop := l.Pairwise (fun a b => key a ≤ key b)

theorem sortedG_insG (e : α) : ∀ l : List α, SortedG key l → SortedG key (insG key e l)
  | [], _ => by simp [insG, SortedG]
  | x :: r, h => by
    unfold SortedG at h ⊢
    rw [List.pairwise_cons] at h
    unfold insG
    split
    · rename_i hle
      rw [List.pairwise_cons, List.pairwise_cons]
      refine ⟨?_, h.1, h.2⟩
      intro y hy
      rcases List.mem_cons.1 hy with hy | hy
      · subst hy; exact hle
      · exact Nat.le_trans hle (h.1 y hy)
    · rename_i hle
      rw [List.pairwise_cons]
      refine ⟨?_, sortedG_insG e r h.2⟩
      intro y hy
      rcases (mem_insG key e y r).1 hy with hy | hy
      · subst hy; omega
      · exact h.1 y hy

theorem sortedG_sortG : ∀ l : List α, SortedG key (sortG key l)
  | [] => List.Pairwise.nil
  | e :: r => by rw [sortG_cons]; exact sortedG_insG key e _ (sortedG_sortG r)

/-- below everything: goes first -/
theorem insG_le_all (e : α) : ∀ l : List α, (∀ y ∈ l, key e ≤ key y) → insG key e l = e :: l
  | [], _ => rfl
  | x :: r, h => by
    unfold insG
    rw [if_pos (h x (by simp))]

/-- above everything: goes last -/
theorem insG_gt_all (e : α) : ∀ l : List α, (∀ y ∈ l, key y < key e) → insG key e l = l ++ [e]
  | [], _ => rfl
  | x :: r, h => by
    unfold insG
    have hx := h x (by simp)
    rw [if_neg (by omega), insG_gt_all e r (fun y hy => h y (List.mem_cons_of_mem _ hy))]
    rfl

theorem insG_snoc_max (x e : α) (hxe : key x ≤ key e) : ∀ m : List α,
    insG key x (m ++ [e]) = insG key x m ++ [e]
  | [] => by simp [insG, hxe]
  | y :: r => by
    simp only [List.cons_append, insG]
    split
    · rfl
    · rw [insG_snoc_max x e hxe r]; rfl

/-- an element with the largest key so far ends up last, wherever it stands -/
theorem sortG_new_max (e : α) : ∀ (l1 l2 : List α), (∀ x ∈ l1 ++ l2, key x < key e) →
    sortG key (l1 ++ [e] ++ l2) = sortG key (l1 ++ l2) ++ [e]
  | [], l2, h => by
    simp only [List.nil_append, List.singleton_append, sortG_cons]
    exact insG_gt_all key e _ (fun y hy => h y (by simpa using (mem_sortG key y l2).1 hy))
  | x :: r, l2, h => by
    have hx := h x (by simp)
    have ih := sortG_new_max e r l2 (fun y hy => h y (by
      simp only [List.cons_append, List.mem_cons]; exact Or.inr hy))
    simp only [List.cons_append, sortG_cons] at ih ⊢
    rw [ih, insG_snoc_max key x e (by omega)]

/-- filtering a sorted list after an insertion -/
theorem insG_filter (p : α → Bool) (e : α) : ∀ l : List α, SortedG key l →
    (insG key e l).filter p = if p e then insG key e (l.filter p) else l.filter p
  | [], _ => by
    cases hp : p e <;> simp [insG, List.filter, hp]
  | x :: r, h => by
    unfold SortedG at h
    rw [List.pairwise_cons] at h
    have ih := insG_filter p e r h.2
    rw [insG_cons]
    by_cases hle : key e ≤ key x
    · rw [if_pos hle]
      cases hp : p e with
      | false => simp [List.filter_cons, hp]
      | true =>
        simp only [if_true]
        rw [List.filter_cons, hp, if_pos rfl]
        rw [insG_le_all key e ((x :: r).filter p)]
        intro y hy
        have hy' := (List.mem_filter.1 hy).1
        rcases List.mem_cons.1 hy' with hy' | hy'
        · subst hy'; exact hle
        · exact Nat.le_trans hle (h.1 y hy')
    · rw [if_neg hle, List.filter_cons, ih]
      cases hpx : p x with
      | false =>
        simp only [Bool.false_eq_true, if_false, List.filter_cons, hpx]
      | true =>
        simp only [if_true, List.filter_cons, hpx]
        cases hp : p e with
        | false => simp
        | true =>
          simp only [if_true]
          rw [insG_cons, if_neg hle]

theorem sortG_filter (p : α → Bool) : ∀ l : List α, sortG key (l.filter p) = (sortG key l).filter p
  | [] => rfl
  | e :: r => by
    rw [sortG_cons, insG_filter key p e _ (sortedG_sortG key r), ← sortG_filter p r, List.filter_cons]
    cases hp : p e with
    | false => simp
    | true => simp [sortG_cons]

end generic

section maps
variable {α β : Type} (ka : α → Nat) (kb : β → Nat) (g : α → β) (hg : ∀ x, kb (g x) = ka x)
include hg

theorem map_insG (e : α) : ∀ l : List α, (insG ka e l).map g = insG kb (g e) (l.map g)
  | [] => rfl
  | x :: r => by
    simp only [insG, List.map_cons, hg]
    split
    · rfl
    · rw [List.map_cons, map_insG e r]

theorem map_sortG : ∀ l : List α, (sortG ka l).map g = sortG kb (l.map g)
  | [] => rfl
  | e :: r => by
    rw [sortG_cons, map_insG ka kb g hg, map_sortG r]; rfl

end maps

/-! ### entries and `(position, text)` pairs -/

theorem insertEntry_insG (e : Entry) : ∀ l : List Entry, insertEntry e l = insG Entry.pos e l
  | [] => rfl
  | x :: r => by
    simp only [insertEntry, insG, insertEntry_insG e r]

theorem sortEntries_sortG : ∀ l : List Entry, sortEntries l = sortG Entry.pos l
  | [] => rfl
  | e :: r => by
    have ih := sortEntries_sortG r
    unfold sortEntries at ih ⊢
    rw [List.foldr_cons, ih, insertEntry_insG]; rfl

abbrev PT := List (Nat × Bytes)

/-- the stable sort by position of a list of `(position, text)` pairs -/
def sortP (l : PT) : PT := sortG (fun x => x.1) l

/-- the texts concatenated -/
def flatP : PT → Bytes
  | [] => []
  | x :: r => x.2 ++ flatP r

theorem flatP_append : ∀ (a b : PT), flatP (a ++ b) = flatP a ++ flatP b
  | [], b => rfl
  | x :: r, b => by simp [flatP, flatP_append r b, List.append_assoc]

/-- position and text of an entry -/
def toPair (f : Bytes → Bytes) (inp : Bytes) (e : Entry) : Nat × Bytes :=
  (e.pos, entText f inp e.tbl e.path e.isArr)

theorem entsText_flatP (f : Bytes → Bytes) (inp : Bytes) : ∀ l : List Entry,
    entsText f inp l = flatP (l.map (toPair f inp))
  | [] => rfl
  | e :: r => by simp [entsText, flatP, toPair, entsText_flatP f inp r]

theorem sortEntries_pairs (f : Bytes → Bytes) (inp : Bytes) (l : List Entry) :
    (sortEntries l).map (toPair f inp) = sortP (l.map (toPair f inp)) := by
  rw [sortEntries_sortG]
  exact map_sortG Entry.pos (fun x : Nat × Bytes => x.1) (toPair f inp) (fun _ => rfl) l

theorem entsText_filter (f : Bytes → Bytes) (inp : Bytes) (p : Entry → Bool) : ∀ l : List Entry,
    (∀ e ∈ l, p e = false → entText f inp e.tbl e.path e.isArr = []) →
    entsText f inp (l.filter p) = entsText f inp l
  | [], _ => rfl
  | e :: r, h => by
    have ih := entsText_filter f inp p r (fun x hx => h x (List.mem_cons_of_mem _ hx))
    rw [List.filter_cons]
    cases hp : p e with
    | true => simp [entsText, ih]
    | false =>
      simp only [Bool.false_eq_true, if_false, entsText, ih]
      rw [h e (by simp) hp]; rfl

/-- entries without text can be dropped before sorting -/
theorem entsText_sort_filter (f : Bytes → Bytes) (inp : Bytes) (p : Entry → Bool) (l : List Entry)
    (h : ∀ e ∈ l, p e = false → entText f inp e.tbl e.path e.isArr = []) :
    entsText f inp (sortEntries l) = flatP (sortP ((l.filter p).map (toPair f inp))) := by
  rw [← sortEntries_pairs, ← entsText_flatP, sortEntries_sortG, sortEntries_sortG, sortG_filter,
    entsText_filter]
  intro e he
  exact h e ((mem_sortG Entry.pos e l).1 he)

theorem sortEntries_all (p : Entry → Bool) (l : List Entry) : (sortEntries l).all p = l.all p := by
  rw [sortEntries_sortG]
  cases h : l.all p with
  | true =>
    rw [List.all_eq_true] at h ⊢
    intro x hx
    exact h x ((mem_sortG Entry.pos x l).1 hx)
  | false =>
    cases h2 : (sortG Entry.pos l).all p with
    | false => rfl
    | true =>
      rw [List.all_eq_true] at h2
      have : l.all p = true := by
        rw [List.all_eq_true]
        intro x hx
        exact h2 x ((mem_sortG Entry.pos x l).2 hx)
      rw [this] at h; cases h

/-- the entry of the root (position 0) stays first -/
theorem sortEntries_first (e : Entry) (l : List Entry) (he : e.pos = 0) :
    sortEntries (e :: l) = e :: sortEntries l := by
  rw [sortEntries_sortG, sortEntries_sortG, sortG_cons]
  exact insG_le_all Entry.pos e _ (fun y _ => by rw [he]; exact Nat.zero_le _)

/-- an element with the largest position so far ends up last, wherever it stands in the list -/
theorem sortP_new_max (e : Nat × Bytes) (l1 l2 : PT) (h : ∀ x ∈ l1 ++ l2, x.1 < e.1) :
    sortP (l1 ++ [e] ++ l2) = sortP (l1 ++ l2) ++ [e] :=
  sortG_new_max (fun x : Nat × Bytes => x.1) e l1 l2 h

/-- the hypotheses on concrete lists: an unsorted list, a filter, a new maximum in the middle -/
example : sortP [(3, [1]), (1, [2]), (2, [3])] = [(1, [2]), (2, [3]), (3, [1])] ∧
    sortP ([(3, [1]), (1, [2])] ++ [(7, [9])] ++ [(2, [3])]) = sortP ([(3, [1]), (1, [2])] ++ [(2, [3])]) ++ [(7, [9])] ∧
    sortP ([(3, [1]), (1, []), (2, [3])].filter (fun x => !x.2.isEmpty)) =
      (sortP [(3, [1]), (1, []), (2, [3])]).filter (fun x => !x.2.isEmpty) := by decide +kernel

end TomlVerif.Lemmas.Tiling03More
