import TomlVerif.Lemmas.TypedGapsCore
/-! C07, reading back, `toml::Value` inside a typed value, part 3: the date-time structs among the serde calls of a typed
    value are those `toml_datetime` produces, `toml::Value` leaves included (`serOf_wfDatetime` of
    Lemmas/SerTyped07g.lean without `hasValue ty = false`). -/
namespace TomlVerif.Lemmas.TypedGaps
open TomlVerif TomlVerif.Model TomlVerif.Model.TomlValue TomlVerif.Model.DeRoutes TomlVerif.Model.DeTyped
open TomlVerif.Model.SerTyped TomlVerif.Model.Ser TomlVerif.Spec TomlVerif.Spec.Serde
open TomlVerif.Lemmas.Ser07Text TomlVerif.Lemmas.Ser07
open TomlVerif.Lemmas.SerTyped07
open TomlVerif.Lemmas.RoundTrip17 (mem_serOrder)

theorem dtShapeMap_leaf : ∀ M : List (Bytes × TV), (∀ e ∈ M, dtShape true (svalOfSer (serCalls e.2)) = true) →
    dtShapeMap true (svalOfSerMap (M.map fun e => (e.1, serCalls e.2))) = true
  | [], _ => rfl
  | (k, v) :: r, h => by
    simp only [List.map_cons, svalOfSerMap, dtShapeMap, Bool.and_eq_true]
    exact ⟨h (k, v) (by simp), dtShapeMap_leaf r (fun e he => h e (by simp [he]))⟩

mutual
/-- the calls of `impl Serialize for Value` hold the private struct only as `Datetime::serialize` produces it -/
theorem dtShape_leaf : ∀ v : TV, dtShape true (svalOfSer (serCalls v)) = true
  | .str _ => rfl
  | .int _ => rfl
  | .float _ => rfl
  | .bool _ => rfl
  | .dt d => by
    have h1 : (NAME == dtName) = true := by decide
    have h2 : (FIELD == dtField) = true := by decide
    simp [serCalls, svalOfSer, svalOfSerFields, dtShape, isDtFields, h1, h2]
  | .arr l => by
    simp only [serCalls, svalOfSer, dtShape]
    exact dtShape_leafList l
  | .tbl items => by
    simp only [serCalls, svalOfSer, dtShape, serOrderSer_serCallsPairs]
    exact dtShapeMap_leaf _ (fun e he => dtShape_leafPairs items e ((mem_serOrder items e).1 he))
theorem dtShape_leafList : ∀ l : List TV, dtShapeList true (svalOfSerList (serCallsList l)) = true
  | [] => rfl
  | v :: r => by
    simp only [serCallsList, svalOfSerList, dtShapeList, Bool.and_eq_true]
    exact ⟨dtShape_leaf v, dtShape_leafList r⟩
theorem dtShape_leafPairs : ∀ l : List (Bytes × TV), ∀ e ∈ l, dtShape true (svalOfSer (serCalls e.2)) = true
  | [], e, he => by cases he
  | (k, a) :: r, e, he => by
    rcases List.mem_cons.1 he with he | he
    · rw [he]; exact dtShape_leaf a
    · exact dtShape_leafPairs r e he
end

mutual
theorem serOf_wfDatetimeV (nm : Bytes) (hnm : (nm == dtName) = false) : ∀ (ty : Ty) (d : Dec) (v : SVal),
    serOf nm ty d = some v → dtShape true v = true
  | .bool, d, v, h => by cases d <;> simp [serOf] at h; subst h; rfl
  | .int _ _, d, v, h => by cases d <;> simp [serOf] at h; subst h; rfl
  | .f64, d, v, h => by cases d <;> simp [serOf] at h; subst h; rfl
  | .f32, d, v, h => by cases d <;> simp [serOf] at h; subst h; rfl
  | .string, d, v, h => by cases d <;> simp [serOf] at h; subst h; rfl
  | .char, d, v, h => by
    cases d <;> simp [serOf] at h
    obtain ⟨_, _, h⟩ := h; subst h; rfl
  | .unit, d, v, h => by cases d <;> simp [serOf] at h; subst h; rfl
  | .datetime, d, v, h => by
    cases d <;> simp [serOf] at h; subst h; simp [dtShape, isDtFields]
  | .date, d, v, h => by
    cases d <;> simp [serOf] at h; subst h; simp [dtShape, isDtFields]
  | .time, d, v, h => by
    cases d <;> simp [serOf] at h; subst h; simp [dtShape, isDtFields]
  | .value, d, v, h => by
    cases d <;> simp [serOf] at h
    subst h
    exact dtShape_leaf _
  | .ignored, d, v, h => by cases d <;> simp [serOf] at h
  | .option t, d, v, h => by
    cases d <;> simp [serOf] at h
    · subst h; rfl
    · obtain ⟨v', hv', rfl⟩ := h
      simp only [dtShape]
      exact serOf_wfDatetimeV nm hnm t _ v' hv'
  | .newtype t, d, v, h => by
    cases d <;> simp [serOf] at h
    obtain ⟨v', hv', rfl⟩ := h
    simp only [dtShape]
    exact serOf_wfDatetimeV nm hnm t _ v' hv'
  | .seq t, d, v, h => by
    cases d <;> simp [serOf] at h
    obtain ⟨vs, hvs, rfl⟩ := h
    simp only [dtShape]
    exact dtShapeList_mapO _ (fun a v' ha => serOf_wfDatetimeV nm hnm t a v' ha) _ vs hvs
  | .tuple ts, d, v, h => by
    cases d <;> simp [serOf] at h
    obtain ⟨vs, hvs, rfl⟩ := h
    simp only [dtShape]
    exact serOfTys_wfV nm hnm ts _ vs hvs
  | .map t, d, v, h => by
    cases d <;> simp [serOf] at h
    obtain ⟨kvs, hkvs, rfl⟩ := h
    simp only [dtShape]
    refine dtShapeMap_mapO _ ?_ _ kvs hkvs
    intro a kv ha
    simp only [Option.map_eq_some_iff] at ha
    obtain ⟨v', hv', rfl⟩ := ha
    exact serOf_wfDatetimeV nm hnm t a.2 v' hv'
  | .struct fs, d, v, h => by
    cases d <;> simp [serOf] at h
    obtain ⟨fields, hf, rfl⟩ := h
    simp only [dtShape, hnm, Bool.false_eq_true, if_false]
    exact serOfFields_wfV nm hnm fs _ fields hf
  | .enum vs, d, v, h => by
    simp only [serOf] at h
    exact serOfVariants_wfV nm hnm vs d v h
theorem serOfTys_wfV (nm : Bytes) (hnm : (nm == dtName) = false) : ∀ (ts : Tys) (l : List Dec) (vs : List SVal),
    serOfTys nm ts l = some vs → dtShapeList true vs = true
  | .nil, l, vs, h => by cases l <;> simp [serOfTys] at h; subst h; rfl
  | .cons t r, l, vs, h => by
    cases l with
    | nil => simp [serOfTys] at h
    | cons d l =>
      unfold serOfTys at h
      split at h
      · rename_i v vs' h1 h2
        injection h with h; subst h
        simp [dtShapeList, serOf_wfDatetimeV nm hnm t d v h1, serOfTys_wfV nm hnm r l vs' h2]
      · cases h
theorem serOfFields_wfV (nm : Bytes) (hnm : (nm == dtName) = false) : ∀ (fs : Fields) (l : List (Bytes × Dec))
    (fields : List (Bytes × SVal)), serOfFields nm fs l = some fields →
    dtShapeFields true fields = true
  | .nil, l, vs, h => by cases l <;> simp [serOfFields] at h; subst h; rfl
  | .cons name t dflt r, l, vs, h => by
    cases l with
    | nil => simp [serOfFields] at h
    | cons kd l =>
      obtain ⟨k, d⟩ := kd
      unfold serOfFields at h
      split at h
      · rename_i v vs' h1 h2
        injection h with h; subst h
        simp [dtShapeFields, serOf_wfDatetimeV nm hnm t d v h1, serOfFields_wfV nm hnm r l vs' h2]
      · cases h
theorem serOfShape_wfV (nm : Bytes) (hnm : (nm == dtName) = false) : ∀ (s : Shape) (n : Bytes) (d : Dec) (v : SVal),
    serOfShape nm s n d = some v → dtShape true v = true
  | .unit, n, d, v, h => by cases d <;> simp [serOfShape] at h; subst h; rfl
  | .newtype t, n, d, v, h => by
    cases d <;> simp [serOfShape] at h
    obtain ⟨v', hv', rfl⟩ := h
    simp only [dtShape]
    exact serOf_wfDatetimeV nm hnm t _ v' hv'
  | .tuple ts, n, d, v, h => by
    cases d <;> simp [serOfShape] at h
    obtain ⟨vs, hvs, rfl⟩ := h
    simp only [dtShape]
    exact serOfTys_wfV nm hnm ts _ vs hvs
  | .struct fs, n, d, v, h => by
    cases d <;> simp [serOfShape] at h
    obtain ⟨fields, hf, rfl⟩ := h
    simp only [dtShape]
    exact serOfFields_wfV nm hnm fs _ fields hf
theorem serOfVariants_wfV (nm : Bytes) (hnm : (nm == dtName) = false) : ∀ (vs : Variants) (d : Dec) (v : SVal),
    serOfVariants nm vs d = some v → dtShape true v = true
  | .nil, d, v, h => by simp [serOfVariants] at h
  | .cons name s r, d, v, h => by
    unfold serOfVariants at h
    split at h
    all_goals first
      | (split at h
         · exact serOfShape_wfV nm hnm s name _ v h
         · exact serOfVariants_wfV nm hnm r _ v h)
      | cases h
end

end TomlVerif.Lemmas.TypedGaps
