import TomlVerif.Model.Containers
/-! Helper lemmas for C16: the `IndexMap` primitives of the model against the operations of the
    reference ordered map under the abstraction `abs`. -/
namespace TomlVerif.Lemmas.Containers16
open TomlVerif.Spec.OrdMap TomlVerif.Model.Containers

/-- `Item::None` ↦ reserved position -/
def slotOpt : Slot → Option Val
  | .placeholder => none
  | .item v => some v

def absE (e : Nat × Slot) : Nat × Option Val := (e.1, slotOpt e.2)

/-- abstraction: the model's `IndexMap<Key, Item>` as a reference map with reserved positions -/
def abs (m : Items) : RMap Val := m.map absE

def optSlot (o : Option Val) : Option Slot := o.map Slot.item

@[simp] theorem abs_nil : abs [] = [] := rfl
@[simp] theorem abs_cons (e : Nat × Slot) (m : Items) : abs (e :: m) = absE e :: abs m := rfl
@[simp] theorem absE_fst (e : Nat × Slot) : (absE e).1 = e.1 := rfl
@[simp] theorem absE_snd (e : Nat × Slot) : (absE e).2 = slotOpt e.2 := rfl
theorem abs_append (a b : Items) : abs (a ++ b) = abs a ++ abs b := by simp [abs]

/-! ### lookups -/

theorem slotOf_abs (m : Items) (k : Nat) : slotOf (abs m) k = (imGet m k).map slotOpt := by
  induction m with
  | nil => rfl
  | cons e m ih =>
    simp only [abs_cons, slotOf, List.find?, absE_fst, imGet] at *
    by_cases h : e.1 == k <;> simp [h, ih]

theorem hasPos_abs (m : Items) (k : Nat) : hasPos (abs m) k = (imGet m k).isSome := by
  simp [hasPos, slotOf_abs]

theorem get_abs (m : Items) (k : Nat) : get (abs m) k = (imGet m k).bind slotOpt := by
  unfold TomlVerif.Spec.OrdMap.get
  rw [slotOf_abs]
  cases imGet m k <;> rfl

theorem optSlot_get_abs (m : Items) (k : Nat) : optSlot (get (abs m) k) = vis (imGet m k) := by
  rw [get_abs]
  cases h : imGet m k with
  | none => rfl
  | some s => cases s <;> rfl

theorem contains_abs (m : Items) (k : Nat) : contains (abs m) k = dHas m k := by
  simp only [contains, get_abs, dHas]
  cases h : imGet m k with
  | none => rfl
  | some s => cases s <;> rfl

/-! ### writes -/

theorem put_abs_set (m : Items) (k : Nat) (s : Slot) (h : (imGet m k).isSome) :
    put (abs m) k (slotOpt s) = abs (imSet m k s) := by
  induction m with
  | nil => simp [imGet] at h
  | cons e m ih =>
    simp only [abs_cons, put, absE_fst, imSet]
    by_cases hk : e.1 == k
    · simp [hk, absE]
    · simp only [imGet, hk] at h
      simp [hk, ih h]

theorem put_abs_push (m : Items) (k : Nat) (s : Slot) (h : imGet m k = none) :
    put (abs m) k (slotOpt s) = abs (imPush m k s) := by
  induction m with
  | nil => simp [put, imPush, abs, absE]
  | cons e m ih =>
    simp only [abs_cons, put, absE_fst]
    by_cases hk : e.1 == k
    · simp [imGet, hk] at h
    · simp only [imGet, hk] at h
      have := ih h
      simp only [imPush] at this ⊢
      simp [hk, this]

theorem put_abs (m : Items) (k : Nat) (s : Slot) : put (abs m) k (slotOpt s) = abs (imInsert m k s).1 := by
  unfold imInsert
  cases h : imGet m k with
  | none => exact put_abs_push m k s h
  | some old => exact put_abs_set m k s (by simp [h])

theorem imInsert_snd (m : Items) (k : Nat) (s : Slot) : (imInsert m k s).2 = imGet m k := by
  unfold imInsert
  cases imGet m k <;> rfl

theorem shiftRemove_snd {S : Type} (m : IMap S) (k : Nat) : (imShiftRemove m k).2 = imGet m k := by
  induction m with
  | nil => rfl
  | cons e m ih =>
    simp only [imShiftRemove, imGet]
    by_cases hk : e.1 == k <;> simp [hk, ih]

theorem eraseP_abs (m : Items) (k : Nat) :
    (abs m).eraseP (fun e => e.1 == k) = abs (imShiftRemove m k).1 := by
  induction m with
  | nil => rfl
  | cons e m ih =>
    simp only [abs_cons, imShiftRemove]
    by_cases hk : e.1 == k
    · simp [hk]
    · simp [hk, ih]

theorem reserve_abs (m : Items) (k : Nat) (h : imGet m k = none) :
    reserve (abs m) k = abs (imPush m k .placeholder) := by
  unfold reserve
  rw [hasPos_abs, h]
  simp [imPush, abs_append, abs, absE, slotOpt]

theorem reserve_abs_some (m : Items) (k : Nat) (s : Slot) (h : imGet m k = some s) :
    reserve (abs m) k = abs m := by
  unfold reserve
  rw [hasPos_abs, h]
  simp

/-! ### iteration -/

theorem entries_abs (m : Items) :
    (entries (abs m)).map (fun e => (e.1, Slot.item e.2)) = iterVis m := by
  induction m with
  | nil => rfl
  | cons e m ih =>
    obtain ⟨k, s⟩ := e
    cases s with
    | placeholder => simpa [entries, iterVis, absE, slotOpt, Slot.isNone] using ih
    | item v => simpa [entries, iterVis, absE, slotOpt, Slot.isNone] using ih

theorem len_abs (m : Items) : len (abs m) = (iterVis m).length := by
  rw [← entries_abs]; simp [len]

theorem keys_abs (m : Items) : keys (abs m) = (iterVis m).map (·.1) := by
  rw [← entries_abs]; simp [keys, Function.comp_def]

theorem iterVis_idem (m : Items) : iterVis (iterVis m) = iterVis m := by
  simp [iterVis, List.filter_filter]

theorem isEmpty_abs (m : Items) : isEmpty (abs m) = ((iterVis m).length == 0) := by
  rw [← entries_abs]
  simp only [isEmpty, List.length_map]
  cases entries (abs m) <;> rfl

/-! ### stable sort under a map -/

theorem map_orderedInsert {α β : Type} (f : α → β) (le : α → α → Bool) (le' : β → β → Bool)
    (h : ∀ a b, le a b = le' (f a) (f b)) (x : α) (l : List α) :
    (orderedInsert le x l).map f = orderedInsert le' (f x) (l.map f) := by
  induction l with
  | nil => rfl
  | cons y ys ih =>
    simp only [orderedInsert, List.map_cons, ← h]
    by_cases hxy : le x y <;> simp [hxy, ih]

theorem map_stableSort {α β : Type} (f : α → β) (le : α → α → Bool) (le' : β → β → Bool)
    (h : ∀ a b, le a b = le' (f a) (f b)) (l : List α) :
    (stableSort le l).map f = stableSort le' (l.map f) := by
  induction l with
  | nil => rfl
  | cons x xs ih => simp only [stableSort, List.map_cons, map_orderedInsert f le le' h, ih]

theorem sortKeys_abs (m : Items) : abs (imSortKeys m) = sortKeys (abs m) := by
  unfold abs imSortKeys sortKeys
  exact map_stableSort absE (fun a b => decide (a.1 ≤ b.1)) (fun a b => decide (a.1 ≤ b.1)) (fun _ _ => rfl) m

/-! ### extend -/

theorem extend_abs (kvs : List (Nat × Val)) (m : Items) :
    extend (abs m) kvs = abs (imExtend m (kvs.map fun kv => (kv.1, Slot.item kv.2))) := by
  induction kvs generalizing m with
  | nil => rfl
  | cons kv kvs ih =>
    simp only [extend, List.foldl_cons, imExtend, List.map_cons] at *
    have : put (abs m) kv.1 (some kv.2) = abs (imInsert m kv.1 (Slot.item kv.2)).1 := put_abs m kv.1 (.item kv.2)
    rw [this]
    exact ih _

/-! ### membership through the primitives (for invariants) -/

theorem mem_orderedInsert {α : Type} (le : α → α → Bool) (x y : α) (l : List α) :
    y ∈ orderedInsert le x l ↔ y = x ∨ y ∈ l := by
  induction l with
  | nil => simp [orderedInsert]
  | cons z zs ih =>
    simp only [orderedInsert]
    by_cases h : le x z
    · simp [h]
    · simp only [h, Bool.false_eq_true, ↓reduceIte, List.mem_cons, ih]
      constructor
      · rintro (h | h | h) <;> simp [h]
      · rintro (h | h | h) <;> simp [h]

theorem mem_stableSort {α : Type} (le : α → α → Bool) (y : α) (l : List α) :
    y ∈ stableSort le l ↔ y ∈ l := by
  induction l with
  | nil => simp [stableSort]
  | cons x xs ih => simp [stableSort, mem_orderedInsert, ih]

theorem mem_imSet {S : Type} (m : IMap S) (k : Nat) (s : S) (e : Nat × S) (h : e ∈ imSet m k s) :
    e ∈ m ∨ e.2 = s := by
  induction m with
  | nil => simp [imSet] at h
  | cons x m ih =>
    simp only [imSet] at h
    by_cases hk : x.1 == k
    · simp only [hk, ↓reduceIte, List.mem_cons] at h
      rcases h with h | h
      · right; rw [h]
      · left; simp [h]
    · simp only [hk, Bool.false_eq_true, ↓reduceIte, List.mem_cons] at h
      rcases h with h | h
      · left; simp [h]
      · rcases ih h with h | h
        · left; simp [h]
        · right; exact h

theorem mem_shiftRemove {S : Type} (m : IMap S) (k : Nat) (e : Nat × S) (h : e ∈ (imShiftRemove m k).1) :
    e ∈ m := by
  induction m with
  | nil => simp [imShiftRemove] at h
  | cons x m ih =>
    simp only [imShiftRemove] at h
    by_cases hk : x.1 == k
    · simp only [hk, ↓reduceIte] at h; simp [h]
    · simp only [hk, Bool.false_eq_true, ↓reduceIte, List.mem_cons] at h
      rcases h with h | h
      · simp [h]
      · simp [ih h]

theorem mem_imGet {S : Type} (m : IMap S) (k : Nat) (s : S) (h : imGet m k = some s) : ∃ k', (k', s) ∈ m := by
  induction m with
  | nil => simp [imGet] at h
  | cons x m ih =>
    simp only [imGet] at h
    by_cases hk : x.1 == k
    · simp only [hk, ↓reduceIte, Option.some.injEq] at h
      exact ⟨x.1, by rw [← h]; simp⟩
    · simp only [hk, Bool.false_eq_true, ↓reduceIte] at h
      obtain ⟨k', h'⟩ := ih h
      exact ⟨k', by simp [h']⟩

/-! ### vectors under a map -/

theorem map_insertIdx {α β : Type} (f : α → β) (l : List α) (i : Nat) (x : α) :
    (l.insertIdx i x).map f = (l.map f).insertIdx i (f x) := by
  induction l generalizing i with
  | nil => cases i <;> simp [List.insertIdx_zero, List.insertIdx_succ_nil]
  | cons y ys ih =>
    cases i with
    | zero => simp [List.insertIdx_zero]
    | succ i => simp [List.insertIdx_succ_cons, ih]

theorem map_eraseIdx {α β : Type} (f : α → β) (l : List α) (i : Nat) :
    (l.eraseIdx i).map f = (l.map f).eraseIdx i := by
  induction l generalizing i with
  | nil => simp
  | cons y ys ih =>
    cases i with
    | zero => simp
    | succ i => simp [List.eraseIdx_cons_succ, ih]

theorem imGet_key_mem {S : Type} (m : IMap S) (k : Nat) (s : S) (h : imGet m k = some s) : (k, s) ∈ m := by
  induction m with
  | nil => simp [imGet] at h
  | cons x m ih =>
    simp only [imGet] at h
    by_cases hk : x.1 == k
    · simp only [hk, ↓reduceIte, Option.some.injEq] at h
      have : x.1 = k := by simpa using hk
      simp [← h, ← this]
    · simp only [hk, Bool.false_eq_true, ↓reduceIte] at h
      simp [ih h]

/-! ### `toml::Map`: `MapImpl` against the plain ordered map -/

theorem pget_eq (m : MapImpl) (k : Nat) : pget m k = imGet m k := by
  induction m with
  | nil => rfl
  | cons e m ih =>
    simp only [pget, List.find?, imGet] at *
    by_cases h : e.1 == k <;> simp [h, ih]

theorem imSet_eq_pputEnd (m : MapImpl) (k v : Nat) (h : (imGet m k).isSome) : imSet m k v = pputEnd m k v := by
  induction m with
  | nil => simp [imGet] at h
  | cons e m ih =>
    simp only [imSet, pputEnd]
    by_cases hk : e.1 == k
    · simp [hk]
    · simp only [imGet, hk] at h
      simp [hk, ih h]

theorem imPush_eq_pputEnd (m : MapImpl) (k v : Nat) (h : imGet m k = none) : imPush m k v = pputEnd m k v := by
  induction m with
  | nil => rfl
  | cons e m ih =>
    simp only [pputEnd]
    by_cases hk : e.1 == k
    · simp [imGet, hk] at h
    · simp only [imGet, hk] at h
      have := ih h
      simp only [imPush] at this ⊢
      simp [hk, this]

theorem imInsert_fst_eq (m : MapImpl) (k v : Nat) : (imInsert m k v).1 = pputEnd m k v := by
  unfold imInsert
  cases h : imGet m k with
  | none => exact imPush_eq_pputEnd m k v h
  | some old => exact imSet_eq_pputEnd m k v (by simp [h])

theorem imInsert_snd_eq (m : MapImpl) (k v : Nat) : (imInsert m k v).2 = pget m k := by
  rw [pget_eq]; unfold imInsert
  cases imGet m k <;> rfl

theorem premove_eq (m : MapImpl) (k : Nat) : premove m k = (imShiftRemove m k).1 := by
  induction m with
  | nil => rfl
  | cons e m ih =>
    simp only [premove, imShiftRemove] at *
    by_cases hk : e.1 == k
    · simp [hk]
    · simp [hk, ih]

theorem btInsert_fst_eq (m : MapImpl) (k v : Nat) : (btInsert m k v).1 = pputSorted m k v := by
  induction m with
  | nil => rfl
  | cons e m ih =>
    simp only [btInsert, pputSorted]
    by_cases h1 : k < e.1
    · simp [h1]
    · by_cases h2 : e.1 == k <;> simp [h1, h2, ih]

theorem strictSorted_cons (e : Nat × Nat) (m : MapImpl) :
    StrictSorted (e :: m) ↔ (∀ x ∈ m, e.1 < x.1) ∧ StrictSorted m := by
  unfold StrictSorted
  exact List.pairwise_cons

theorem imGet_none_of_lt (m : MapImpl) (k : Nat) (h : ∀ x ∈ m, k < x.1) : imGet m k = none := by
  induction m with
  | nil => rfl
  | cons e m ih =>
    have h1 := h e (by simp)
    have hk : (e.1 == k) = false := by simp; omega
    simp only [imGet, hk, Bool.false_eq_true, ↓reduceIte]
    exact ih fun x hx => h x (by simp [hx])

theorem btInsert_snd_eq (m : MapImpl) (k v : Nat) (hs : StrictSorted m) : (btInsert m k v).2 = pget m k := by
  rw [pget_eq]
  induction m with
  | nil => rfl
  | cons e m ih =>
    rw [strictSorted_cons] at hs
    simp only [btInsert]
    by_cases h1 : k < e.1
    · simp only [h1, ↓reduceIte]
      symm
      apply imGet_none_of_lt
      intro x hx
      simp only [List.mem_cons] at hx
      rcases hx with hx | hx
      · rw [hx]; exact h1
      · have := hs.1 x hx; omega
    · by_cases h2 : e.1 == k
      · simp [h1, h2, imGet]
      · simp [h1, h2, imGet, ih hs.2]

theorem mem_pputSorted (m : MapImpl) (k v : Nat) (x : Nat × Nat) (h : x ∈ pputSorted m k v) : x.1 = k ∨ x ∈ m := by
  induction m with
  | nil => simp [pputSorted] at h; left; rw [h]
  | cons e m ih =>
    simp only [pputSorted] at h
    by_cases h1 : k < e.1
    · simp only [h1, ↓reduceIte, List.mem_cons] at h
      rcases h with h | h | h
      · left; rw [h]
      · right; simp [h]
      · right; simp [h]
    · by_cases h2 : e.1 == k
      · simp only [h1, h2, ↓reduceIte, List.mem_cons] at h
        rcases h with h | h
        · left; rw [h]; simpa using h2
        · right; simp [h]
      · simp only [h1, h2, Bool.false_eq_true, ↓reduceIte, List.mem_cons] at h
        rcases h with h | h
        · right; simp [h]
        · rcases ih h with h | h
          · left; exact h
          · right; simp [h]

theorem strictSorted_pputSorted (m : MapImpl) (k v : Nat) (hs : StrictSorted m) : StrictSorted (pputSorted m k v) := by
  induction m with
  | nil => simp [pputSorted, StrictSorted]
  | cons e m ih =>
    have hs' := (strictSorted_cons e m).1 hs
    simp only [pputSorted]
    by_cases h1 : k < e.1
    · simp only [h1, ↓reduceIte]
      rw [strictSorted_cons]
      refine ⟨?_, hs⟩
      intro x hx
      simp only [List.mem_cons] at hx
      rcases hx with hx | hx
      · rw [hx]; exact h1
      · have := hs'.1 x hx; simp only; omega
    · by_cases h2 : e.1 == k
      · simp only [h1, h2, ↓reduceIte]
        rw [strictSorted_cons]
        exact ⟨hs'.1, hs'.2⟩
      · simp only [h1, h2, Bool.false_eq_true, ↓reduceIte]
        rw [strictSorted_cons]
        refine ⟨?_, ih hs'.2⟩
        intro x hx
        rcases mem_pputSorted m k v x hx with hx | hx
        · have : e.1 ≠ k := by simpa using h2
          omega
        · exact hs'.1 x hx

theorem imSet_eq_pputSorted (m : MapImpl) (k v : Nat) (hs : StrictSorted m) (h : (imGet m k).isSome) :
    imSet m k v = pputSorted m k v := by
  induction m with
  | nil => simp [imGet] at h
  | cons e m ih =>
    have hs' := (strictSorted_cons e m).1 hs
    simp only [imSet, pputSorted]
    by_cases h2 : e.1 == k
    · have : ¬ k < e.1 := by have : e.1 = k := by simpa using h2
                             omega
      simp [h2, this]
    · simp only [imGet, h2, Bool.false_eq_true, ↓reduceIte] at h
      have hlt : ¬ k < e.1 := by
        cases hg : imGet m k with
        | none => simp [hg] at h
        | some x =>
          have hk := imGet_key_mem m k x hg
          have := hs'.1 _ hk
          simp only at this; omega
      simp [h2, hlt, ih hs'.2 h]

/-! ### `stableSort` is a stable sort -/

/-- a tie class: `p` selects elements that are pairwise `le` (e.g. all elements with one sort key) -/
theorem filter_orderedInsert {α : Type} (le : α → α → Bool) (p : α → Bool)
    (hp : ∀ a z, p a = true → p z = true → le a z = true) (a : α) (s : List α) :
    (orderedInsert le a s).filter p = if p a then a :: s.filter p else s.filter p := by
  induction s with
  | nil => simp [orderedInsert, List.filter_cons]
  | cons y ys ih =>
    simp only [orderedInsert]
    by_cases h : le a y
    · simp only [h, ↓reduceIte, List.filter_cons]
    · simp only [h, Bool.false_eq_true, ↓reduceIte, List.filter_cons, ih]
      by_cases hy : p y
      · have hpa : p a = false := by
          cases hpa : p a with
          | false => rfl
          | true => exact absurd (hp a y hpa hy) h
        simp [hy, hpa]
      · simp [hy]

theorem filter_stableSort {α : Type} (le : α → α → Bool) (p : α → Bool)
    (hp : ∀ a z, p a = true → p z = true → le a z = true) (l : List α) :
    (stableSort le l).filter p = l.filter p := by
  induction l with
  | nil => rfl
  | cons x xs ih =>
    simp only [stableSort, filter_orderedInsert le p hp, ih, List.filter_cons]

theorem perm_orderedInsert {α : Type} (le : α → α → Bool) (x : α) (l : List α) :
    (orderedInsert le x l).Perm (x :: l) := by
  induction l with
  | nil => exact List.Perm.refl _
  | cons y ys ih =>
    simp only [orderedInsert]
    by_cases h : le x y
    · simp [h]
    · simp only [h, Bool.false_eq_true, ↓reduceIte]
      exact (List.Perm.cons y ih).trans (List.Perm.swap x y ys)

theorem perm_stableSort {α : Type} (le : α → α → Bool) (l : List α) : (stableSort le l).Perm l := by
  induction l with
  | nil => exact List.Perm.refl _
  | cons x xs ih => exact (perm_orderedInsert le x _).trans (List.Perm.cons x ih)

theorem sorted_orderedInsert {α : Type} (le : α → α → Bool)
    (total : ∀ a b, le a b = true ∨ le b a = true) (trans : ∀ a b c, le a b = true → le b c = true → le a c = true)
    (x : α) (s : List α) (hs : s.Pairwise fun a b => le a b = true) :
    (orderedInsert le x s).Pairwise fun a b => le a b = true := by
  induction s with
  | nil => simp [orderedInsert]
  | cons y ys ih =>
    rw [List.pairwise_cons] at hs
    simp only [orderedInsert]
    by_cases h : le x y
    · simp only [h, ↓reduceIte, List.pairwise_cons]
      refine ⟨?_, hs.1, hs.2⟩
      intro z hz
      simp only [List.mem_cons] at hz
      rcases hz with hz | hz
      · rw [hz]; exact h
      · exact trans x y z h (hs.1 z hz)
    · simp only [h, Bool.false_eq_true, ↓reduceIte, List.pairwise_cons]
      refine ⟨?_, ih hs.2⟩
      intro z hz
      rcases (mem_orderedInsert le x z ys).1 hz with hz | hz
      · rw [hz]
        rcases total x y with h' | h'
        · exact absurd h' h
        · exact h'
      · exact hs.1 z hz

theorem sorted_stableSort {α : Type} (le : α → α → Bool)
    (total : ∀ a b, le a b = true ∨ le b a = true) (trans : ∀ a b c, le a b = true → le b c = true → le a c = true)
    (l : List α) : (stableSort le l).Pairwise fun a b => le a b = true := by
  induction l with
  | nil => simp [stableSort]
  | cons x xs ih => exact sorted_orderedInsert le total trans x _ ih

/-! ### the Entry API: `entry(k)` as a classification of the key -/

/-- a key whose slot is not an `Item::None`: every configuration classifies it by the lookup and leaves the map alone -/
theorem entryOf_of_ne (fx : Fix) (d : Dialect) (m : Items) (k : Nat) (h : imGet m k ≠ some .placeholder) :
    entryOf fx d m k = (imGet m k, m) := by
  unfold entryOf
  cases hg : imGet m k with
  | none => rfl
  | some s => cases s with
    | placeholder => exact absurd hg h
    | item v => rfl

/-- repaired code: occupied iff a lookup finds a value -/
theorem entryOf_repaired (d : Dialect) (m : Items) (k : Nat) : entryOf repaired d m k = (vis (imGet m k), m) := by
  unfold entryOf
  cases hg : imGet m k with
  | none => rfl
  | some s => cases s with
    | placeholder => cases d <;> rfl
    | item v => rfl

/-- `entry(k)` leaves the map alone or (InlineTable) writes `{}` at the key's position -/
theorem entryOf_state (fx : Fix) (d : Dialect) (m : Items) (k : Nat) :
    (entryOf fx d m k).2 = m ∨ ((imGet m k).isSome ∧ (entryOf fx d m k).2 = imSet m k (.item .tbl)) := by
  unfold entryOf
  cases hg : imGet m k with
  | none => exact Or.inl rfl
  | some s => cases s with
    | placeholder =>
      cases d <;> cases fx.entOcc <;> cases fx.inlineEntry <;> first | exact Or.inl rfl | exact Or.inr ⟨rfl, rfl⟩
    | item v => exact Or.inl rfl

theorem orInsertStep_of_ne (fx : Fix) (d : Dialect) (m : Items) (k n : Nat) (h : imGet m k ≠ some .placeholder) :
    orInsertStep fx d m k n = orInsertStep repaired d m k n := by
  unfold orInsertStep
  cases hg : imGet m k with
  | none => rfl
  | some s => cases s with
    | placeholder => exact absurd hg h
    | item v => rfl

/-! ### `InlineTable::get_or_insert` -/

/-- with the repair (`fx.goi`), `get_or_insert(k, n)` is `entry(k).or_insert(n)` of the repaired `InlineTable` -/
theorem goiStep_eq_orInsertStep (fx : Fix) (m : Items) (k n : Nat) (h : fx.goi = true) :
    goiStep fx m k n = orInsertStep repaired .inline m k n := by
  unfold goiStep orInsertStep
  cases hg : imGet m k with
  | none => rfl
  | some s => cases s with
    | placeholder => simp [h, repaired]
    | item v => rfl

/-- a key whose slot is not an `Item::None`: the call does the same before and after the repair -/
theorem goiStep_of_ne (fx : Fix) (m : Items) (k n : Nat) (h : imGet m k ≠ some .placeholder) :
    goiStep fx m k n = goiStep repaired m k n := by
  unfold goiStep
  cases hg : imGet m k with
  | none => rfl
  | some s => cases s with
    | placeholder => exact absurd hg h
    | item v => rfl

/-- the state after the call: untouched, the value written at the key's position, or the pair appended -/
theorem goiStep_state (fx : Fix) (m : Items) (k n : Nat) :
    (goiStep fx m k n).2 = m ∨
    ((imGet m k).isSome ∧ (goiStep fx m k n).2 = imSet m k (.item (.int n))) ∨
    (imGet m k = none ∧ (goiStep fx m k n).2 = imPush m k (.item (.int n))) := by
  unfold goiStep
  cases hg : imGet m k with
  | none => exact Or.inr (Or.inr ⟨rfl, rfl⟩)
  | some s => cases s with
    | placeholder => cases fx.goi <;> first | exact Or.inl rfl | exact Or.inr (Or.inl ⟨rfl, rfl⟩)
    | item v => exact Or.inl rfl

theorem imGet_imSet_self {S : Type} (m : IMap S) (k : Nat) (s : S) (h : (imGet m k).isSome) :
    imGet (imSet m k s) k = some s := by
  induction m with
  | nil => simp [imGet] at h
  | cons e m ih =>
    simp only [imSet]
    by_cases hk : e.1 == k
    · simp [hk, imGet]
    · simp only [imGet, hk] at h
      simp [hk, imGet, ih h]

theorem imSet_imSet {S : Type} (m : IMap S) (k : Nat) (s t : S) : imSet (imSet m k s) k t = imSet m k t := by
  induction m with
  | nil => rfl
  | cons e m ih =>
    simp only [imSet]
    by_cases hk : e.1 == k
    · simp [hk, imSet]
    · simp [hk, imSet, ih]

end TomlVerif.Lemmas.Containers16
