import TomlVerif.Model.Macro
import TomlVerif.Lemmas.State09
/-! C19, shared definitions for whole documents.

    * `valM` / `tblM` — what the parser builds (`Val`, `Tbl` of Model/Tree.lean, the result of the table-building
      state machine of Model/State.lean), read as a `toml::Value`: flags and positions are forgotten, an inline
      table and a `[table]` both become `MVal.tbl`, an array of tables becomes an `MVal.arr` of tables.
    * `refStep` / `refRun` — the meaning of a statement list for the macro: the three helper functions of
      macros.rs folded over the statements (`insert_toml` below the current header path, `table_toml`,
      `push_toml`). No tokens, no arms, no fuel.
    * `Sim` — equality of `toml::Value`s: tables are compared as maps (`toml::Table` is a `BTreeMap`, the
      association lists of `MVal.tbl` are in insertion order), arrays element by element. -/
namespace TomlVerif.Lemmas.Macro19b
open TomlVerif TomlVerif.Model TomlVerif.Model.Macro TomlVerif.Model.State TomlVerif.Lemmas.State09

/-! ## parser tree → `toml::Value` -/

mutual
def valM : Val → MVal
  | .str s => .str s
  | .int n => .int n
  | .float b => .float b
  | .bool b => .bool b
  | .dt d => .dt d
  | .arr items => .arr (valsM items)
  | .inl items _ _ => .tbl (kvsM items)
def valsM : List Val → List MVal
  | [] => []
  | v :: r => valM v :: valsM r
def kvsM : List (Bytes × Val) → List (Bytes × MVal)
  | [] => []
  | (k, v) :: r => (k, valM v) :: kvsM r
end

mutual
def tblM : Tbl → MVal
  | .mk items _ _ _ => .tbl (itemsM items)
def itemM : Item → MVal
  | .value v => valM v
  | .table t => tblM t
  | .aot ts => .arr (tblsM ts)
def itemsM : List (Bytes × Item) → List (Bytes × MVal)
  | [] => []
  | (k, i) :: r => (k, itemM i) :: itemsM r
def tblsM : List Tbl → List MVal
  | [] => []
  | t :: r => tblM t :: tblsM r
end

/-! ## the macro's meaning of a statement list -/

/-- state of `@toplevel`: the root value and the path of the last header -/
abbrev MState := MVal × List Bytes

/-- one statement, as the three arms of `@toplevel` treat it -/
def refStep (keep : Bool) : MState → Stmt → Option MState
  | (root, path), .kv p k v => (insertToml root (path ++ (p ++ [k])) (valM v)).map fun r => (r, path)
  | (root, _), .std p => (headerTable keep root p).map fun r => (r, p)
  | (root, _), .arr p => (pushToml root p).map fun r => (r, p)

def refRunFrom (keep : Bool) : MState → List Stmt → Option MState
  | s, [] => some s
  | s, x :: r =>
    match refStep keep s x with
    | some s' => refRunFrom keep s' r
    | none => none

/-- the table `toml!` builds for a statement list (`none`: an `unwrap` panics) -/
def refRun (keep : Bool) (stmts : List Stmt) : Option MVal :=
  (refRunFrom keep (emptyTbl, []) stmts).map (·.1)

/-! ## equality of values, tables as maps -/

def OptRel (r : MVal → MVal → Prop) : Option MVal → Option MVal → Prop
  | some a, some b => r a b
  | none, none => True
  | _, _ => False

def ListRel (r : MVal → MVal → Prop) : List MVal → List MVal → Prop
  | [], [] => True
  | a :: x, b :: y => r a b ∧ ListRel r x y
  | _, _ => False

/-- agreement down to depth `n` -/
def simN : Nat → MVal → MVal → Prop
  | 0, _, _ => True
  | n + 1, .tbl xs, .tbl ys => ∀ k, OptRel (simN n) (alookup k xs) (alookup k ys)
  | n + 1, .arr xs, .arr ys => ListRel (simN n) xs ys
  | _ + 1, a, b => a = b

/-- the two values are the same `toml::Value`: same scalars, arrays equal element by element, tables with the
    same keys bound to the same values (whatever the order of insertion). See `sim_tbl`, `sim_arr`, `sim_scalar`
    for the characterisation. -/
def Sim (a b : MVal) : Prop := ∀ n, simN n a b

end TomlVerif.Lemmas.Macro19b
