import TomlVerif.Lemmas.TypedGapsCore
import TomlVerif.Lemmas.RoundTrip17h
/-! C07, reading back, `toml::Value` inside a typed value, the build with `preserve_order` (`IndexMap`,
    `Flavour.insertion`), part 1: the exact relation and the leaf.

    With an insertion-ordered map `Value`'s visitor keeps the order in which the document presents the entries, so what a
    `toml::Value` leaf comes back as depends on that order: the relation `Sim` of Lemmas/SerTyped07c.lean (entries of a
    table in ANY order) is too weak. `SimX cf x w` is `Sim cf x w` with the entries of every table in the serializer's
    order. A leaf `v` then comes back as `mapF (leafF cf) (normTV v)`: the three passes of `impl Serialize for Value`
    applied at every table (`normTV`), its doubles after `leafF cf`. -/
namespace TomlVerif.Lemmas.TypedGaps
open TomlVerif TomlVerif.Model TomlVerif.Model.TomlValue TomlVerif.Model.DeRoutes TomlVerif.Model.DeTyped
open TomlVerif.Model.SerTyped TomlVerif.Model.Ser TomlVerif.Spec TomlVerif.Spec.Serde
open TomlVerif.Spec.Encode06 (canonFloat)
open TomlVerif.Lemmas.SerTyped07 TomlVerif.Lemmas.DeTyped13 TomlVerif.Lemmas.DeRoutes13 TomlVerif.Lemmas.Ser07Text
open TomlVerif.Lemmas.RoundTrip17 (KSorted ksorted_nodup placeTV placeTVs placeTVPs mem_serOrder serOrder_keys_perm
  normTV normTVs normTVPs serOrder_normTVPs normTVPs_keys)

mutual
/-- `w` holds the data `x`, the entries of every table in the same order -/
def SimX (cf : Nat → Nat) : V → TV → Prop
  | .sc (.float b), w => w = .float (cf b)
  | .sc (.str s), w => w = .str s
  | .sc (.int n), w => w = .int n
  | .sc (.bool b), w => w = .bool b
  | .sc (.dt d), w => w = .dt d
  | .arr xs, w => ∃ ws, w = .arr ws ∧ SimXList cf xs ws
  | .inl kvs, w => ∃ es es0, w = .tbl es ∧ es = es0 ∧ SimXKVs cf kvs es0
def SimXList (cf : Nat → Nat) : List V → List TV → Prop
  | [], ws => ws = []
  | x :: r, ws => ∃ y ws', ws = y :: ws' ∧ SimX cf x y ∧ SimXList cf r ws'
def SimXKVs (cf : Nat → Nat) : List (Bytes × V) → List (Bytes × TV) → Prop
  | [], es => es = []
  | (k, x) :: r, es => ∃ y es', es = (k, y) :: es' ∧ SimX cf x y ∧ SimXKVs cf r es'
end

mutual
theorem simX_sim (cf : Nat → Nat) : ∀ (x : V) (w : TV), SimX cf x w → Sim cf x w
  | .sc (.float _), _, h => by simpa [SimX, Sim] using h
  | .sc (.str _), _, h => by simpa [SimX, Sim] using h
  | .sc (.int _), _, h => by simpa [SimX, Sim] using h
  | .sc (.bool _), _, h => by simpa [SimX, Sim] using h
  | .sc (.dt _), _, h => by simpa [SimX, Sim] using h
  | .arr xs, w, h => by
    simp only [SimX] at h
    obtain ⟨ws, rfl, hws⟩ := h
    simp only [Sim]
    exact ⟨ws, rfl, simXList_sim cf xs ws hws⟩
  | .inl kvs, w, h => by
    simp only [SimX] at h
    obtain ⟨es, es0, rfl, rfl, hkv⟩ := h
    simp only [Sim]
    exact ⟨es, es, rfl, List.Perm.refl _, simXKVs_sim cf kvs es hkv⟩
theorem simXList_sim (cf : Nat → Nat) : ∀ (xs : List V) (ws : List TV), SimXList cf xs ws → SimList cf xs ws
  | [], _, h => by simpa [SimXList, SimList] using h
  | x :: r, ws, h => by
    simp only [SimXList] at h
    obtain ⟨y, ws', rfl, hy, hr⟩ := h
    simp only [SimList]
    exact ⟨y, ws', rfl, simX_sim cf x y hy, simXList_sim cf r ws' hr⟩
theorem simXKVs_sim (cf : Nat → Nat) : ∀ (kvs : List (Bytes × V)) (es : List (Bytes × TV)), SimXKVs cf kvs es →
    SimKVs cf kvs es
  | [], _, h => by simpa [SimXKVs, SimKVs] using h
  | (k, x) :: r, es, h => by
    simp only [SimXKVs] at h
    obtain ⟨y, es', rfl, hy, hr⟩ := h
    simp only [SimKVs]
    exact ⟨y, es', rfl, simX_sim cf x y hy, simXKVs_sim cf r es' hr⟩
end

theorem simXKVs_keys (cf : Nat → Nat) (kvs : List (Bytes × V)) (es : List (Bytes × TV)) (h : SimXKVs cf kvs es) :
    es.map Prod.fst = kvs.map Prod.fst :=
  simKVs_keys cf kvs es (simXKVs_sim cf kvs es h)

theorem simXKVs_mem (cf : Nat → Nat) : ∀ (kvs : List (Bytes × V)) (es : List (Bytes × TV)),
    SimXKVs cf kvs es → ∀ k x, (k, x) ∈ kvs → ∃ y, (k, y) ∈ es ∧ SimX cf x y
  | [], _, _, k, x, hm => by simp at hm
  | (k', x') :: r, es, h, k, x, hm => by
    simp only [SimXKVs] at h
    obtain ⟨y, es', he, hs, hr⟩ := h
    subst he
    rcases List.mem_cons.1 hm with hm | hm
    · injection hm with h1 h2; subst h1 h2; exact ⟨y, by simp, hs⟩
    · obtain ⟨y', hy, hs'⟩ := simXKVs_mem cf r es' hr k x hm
      exact ⟨y', by simp [hy], hs'⟩

/-! ## the tree itself, and the tree with canonical NaNs -/

mutual
theorem simX_tvOf : ∀ x : V, SimX id x (tvOf x)
  | .sc (.str _) => by simp [SimX, tvOf]
  | .sc (.int _) => by simp [SimX, tvOf]
  | .sc (.float _) => by simp [SimX, tvOf]
  | .sc (.bool _) => by simp [SimX, tvOf]
  | .sc (.dt _) => by simp [SimX, tvOf]
  | .arr xs => by simp only [SimX, tvOf]; exact ⟨_, rfl, simXList_tvOf xs⟩
  | .inl kvs => by simp only [SimX, tvOf]; exact ⟨_, _, rfl, rfl, simXKVs_tvOf kvs⟩
theorem simXList_tvOf : ∀ xs : List V, SimXList id xs (tvList xs)
  | [] => by simp [SimXList, tvList]
  | x :: r => by simp only [SimXList, tvList]; exact ⟨_, _, rfl, simX_tvOf x, simXList_tvOf r⟩
theorem simXKVs_tvOf : ∀ kvs : List (Bytes × V), SimXKVs id kvs (tvKVs kvs)
  | [] => by simp [SimXKVs, tvKVs]
  | (k, x) :: r => by simp only [SimXKVs, tvKVs]; exact ⟨_, _, rfl, simX_tvOf x, simXKVs_tvOf r⟩
end

mutual
theorem simX_canon : ∀ x : V, SimX canonFloat x (tvOf (canonV x))
  | .sc (.str _) => by simp [SimX, tvOf, canonV, canonScalar]
  | .sc (.int _) => by simp [SimX, tvOf, canonV, canonScalar]
  | .sc (.float _) => by simp [SimX, tvOf, canonV, canonScalar]
  | .sc (.bool _) => by simp [SimX, tvOf, canonV, canonScalar]
  | .sc (.dt _) => by simp [SimX, tvOf, canonV, canonScalar]
  | .arr xs => by simp only [SimX, tvOf, canonV]; exact ⟨_, rfl, simXList_canon xs⟩
  | .inl kvs => by simp only [SimX, tvOf, canonV]; exact ⟨_, _, rfl, rfl, simXKVs_canon kvs⟩
theorem simXList_canon : ∀ xs : List V, SimXList canonFloat xs (tvList (canonVs xs))
  | [] => by simp [SimXList, tvList, canonVs]
  | x :: r => by simp only [SimXList, tvList, canonVs]; exact ⟨_, _, rfl, simX_canon x, simXList_canon r⟩
theorem simXKVs_canon : ∀ kvs : List (Bytes × V), SimXKVs canonFloat kvs (tvKVs (canonKVs kvs))
  | [] => by simp [SimXKVs, tvKVs, canonKVs]
  | (k, x) :: r => by simp only [SimXKVs, tvKVs, canonKVs]; exact ⟨_, _, rfl, simX_canon x, simXKVs_canon r⟩
end

/-! ## the leaf -/

/-- what a `toml::Value` leaf comes back as with `preserve_order`: the three passes at every table, doubles after
`leafF cf` -/
def leafI (cf : Nat → Nat) : TV → TV := fun v => mapF (leafF cf) (normTV v)

def LeafOkX (cf : Nat → Nat) (v : TV) : Prop :=
  ∀ (x : V) (w : TV), serValue (svalOfSer (serCalls v)) = .ok x → SimX cf x w → WfTV w ∧ w = leafI cf v

theorem leaf_pairsX (cf : Nat → Nat) : ∀ (M : List (Bytes × TV)) (img : List (Bytes × V)) (es0 : List (Bytes × TV)),
    (∀ e ∈ M, LeafOkX cf e.2) → ImgRel M img → SimXKVs cf img es0 →
    WfPs es0 ∧ es0 = mapFPs (leafF cf) (normTVPs M)
  | [], [], es0, _, _, hs => by
    simp only [SimXKVs] at hs; subst hs
    simp [WfPs, normTVPs, mapFPs]
  | [], _ :: _, _, _, hi, _ => by simp [ImgRel] at hi
  | _ :: _, [], _, _, hi, _ => by simp [ImgRel] at hi
  | (k, v) :: r, (k', x) :: r', es0, ih, hi, hs => by
    simp only [ImgRel] at hi
    obtain ⟨rfl, hx, hr⟩ := hi
    simp only [SimXKVs] at hs
    obtain ⟨y, es', rfl, hy, hr'⟩ := hs
    obtain ⟨h1, h2⟩ := ih (k', v) (by simp) x y hx hy
    obtain ⟨a, b⟩ := leaf_pairsX cf r r' es' (fun e he => ih e (by simp [he])) hr hr'
    simp only [WfPs, normTVPs, mapFPs]
    refine ⟨⟨h1, a⟩, ?_⟩
    rw [h2, b]; rfl

theorem leaf_listX (cf : Nat → Nat) : ∀ (l : List TV) (xs : List V) (ws : List TV),
    (∀ v ∈ l, LeafOkX cf v) → ImgRelList l xs → SimXList cf xs ws →
    WfVs ws ∧ ws = mapFs (leafF cf) (normTVs l)
  | [], [], ws, _, _, hs => by
    simp only [SimXList] at hs; subst hs
    simp [WfVs, normTVs, mapFs]
  | [], _ :: _, _, _, hi, _ => by simp [ImgRelList] at hi
  | _ :: _, [], _, _, hi, _ => by simp [ImgRelList] at hi
  | v :: r, x :: r', ws, ih, hi, hs => by
    simp only [ImgRelList] at hi
    obtain ⟨hx, hr⟩ := hi
    simp only [SimXList] at hs
    obtain ⟨y, ws', rfl, hy, hr'⟩ := hs
    obtain ⟨h1, h2⟩ := ih v (by simp) x y hx hy
    obtain ⟨a, b⟩ := leaf_listX cf r r' ws' (fun e he => ih e (by simp [he])) hr hr'
    simp only [WfVs, normTVs, mapFs]
    refine ⟨⟨h1, a⟩, ?_⟩
    rw [h2, b]; rfl

mutual
theorem leaf_okX (cf : Nat → Nat) : ∀ v : TV, valueOk v = true → LeafOkX cf v
  | .str s, _ => by
    intro x w hx hs
    simp only [serCalls, svalOfSer, serValue, Except.ok.injEq] at hx; subst hx
    simp only [SimX] at hs; subst hs
    simp [WfTV, leafI, normTV, mapF]
  | .int n, _ => by
    intro x w hx hs
    simp only [serCalls, svalOfSer, serValue, is128, Bool.false_eq_true, if_false] at hx
    have : (IntW.i64 == IntW.u64) = false := by decide
    simp only [this, Bool.false_and, Bool.false_eq_true, if_false, Except.ok.injEq] at hx; subst hx
    simp only [SimX] at hs; subst hs
    simp [WfTV, leafI, normTV, mapF]
  | .float b, _ => by
    intro x w hx hs
    simp only [serCalls, svalOfSer, serValue, Except.ok.injEq] at hx; subst hx
    simp only [SimX] at hs; subst hs
    simp [WfTV, leafI, normTV, mapF, leafF]
  | .bool b, _ => by
    intro x w hx hs
    simp only [serCalls, svalOfSer, serValue, Except.ok.injEq] at hx; subst hx
    simp only [SimX] at hs; subst hs
    simp [WfTV, leafI, normTV, mapF]
  | .dt d, h => by
    intro x w hx hs
    simp only [valueOk] at h
    simp only [serCalls, svalOfSer, svalOfSerFields] at hx
    rw [← dtName_eq, ← dtField_eq, serValue_dt d h] at hx
    injection hx with hx; subst hx
    simp only [SimX] at hs; subst hs
    simp only [dtOk, beq_iff_eq] at h
    simp [WfTV, leafI, normTV, mapF, h]
  | .arr l, h => by
    intro x w hx hs
    simp only [valueOk] at h
    simp only [serCalls, svalOfSer, serValue] at hx
    split at hx
    · rename_i xs hxs
      injection hx with hx; subst hx
      simp only [SimX] at hs
      obtain ⟨ws, rfl, hws⟩ := hs
      obtain ⟨a, b⟩ := leaf_listX cf l xs ws (leaf_okX_list cf l h) (serSeq_leaf l xs hxs) hws
      refine ⟨by rw [WfTV]; exact a, ?_⟩
      simp only [leafI, normTV, mapF, TV.arr.injEq]
      exact b
    · cases hx
  | .tbl items, h => by
    intro x w hx hs
    simp only [valueOk, Bool.and_eq_true, Bool.not_eq_true'] at h
    obtain ⟨⟨hasc, hnf⟩, hps⟩ := h
    have hks : KSorted items := ascending_ksorted items hasc
    have hnd : (items.map Prod.fst).Nodup := ksorted_nodup items hks
    have hfield : FIELD ∉ items.map Prod.fst := by
      intro hm
      have : (items.map Prod.fst).contains FIELD = true := by simpa using hm
      rw [this] at hnf; cases hnf
    simp only [serCalls, svalOfSer, serOrderSer_serCallsPairs, serValue] at hx
    split at hx
    · rename_i out hout
      injection hx with hx; subst hx
      have hndM : ((serOrder items).map Prod.fst).Nodup := ((serOrder_keys_perm items).nodup_iff).2 hnd
      obtain ⟨img, ho, hi⟩ := serMap_leaf (serOrder items) [] out hndM (by simp) hout
      simp only [List.nil_append] at ho; subst ho
      simp only [SimX] at hs
      obtain ⟨es, es0, rfl, rfl, hkv⟩ := hs
      have ihM : ∀ e ∈ serOrder items, LeafOkX cf e.2 :=
        fun e he => leaf_okX_pairs cf items hps e ((mem_serOrder items e).1 he)
      obtain ⟨a, b⟩ := leaf_pairsX cf (serOrder items) out es ihM hi hkv
      have hkeys : (es.map Prod.fst).Perm (items.map Prod.fst) := by
        rw [b, mapFPs_keys, normTVPs_keys]; exact serOrder_keys_perm items
      refine ⟨?_, ?_⟩
      · rw [WfTV]
        exact ⟨a, (hkeys.nodup_iff).2 hnd, fun hm => hfield (hkeys.subset hm)⟩
      · simp only [leafI, normTV, mapF, TV.tbl.injEq]
        rw [b, serOrder_normTVPs]
    · cases hx
theorem leaf_okX_list (cf : Nat → Nat) : ∀ l : List TV, valueOkList l = true → ∀ v ∈ l, LeafOkX cf v
  | [], _, v, hv => by cases hv
  | a :: r, h, v, hv => by
    simp only [valueOkList, Bool.and_eq_true] at h
    rcases List.mem_cons.1 hv with hv | hv
    · rw [hv]; exact leaf_okX cf a h.1
    · exact leaf_okX_list cf r h.2 v hv
theorem leaf_okX_pairs (cf : Nat → Nat) : ∀ l : List (Bytes × TV), valueOkPairs l = true → ∀ e ∈ l, LeafOkX cf e.2
  | [], _, e, he => by cases he
  | (k, a) :: r, h, e, he => by
    simp only [valueOkPairs, Bool.and_eq_true] at h
    rcases List.mem_cons.1 he with he | he
    · rw [he]; exact leaf_okX cf a h.1
    · exact leaf_okX_pairs cf r h.2 e he
end

/-- **the leaf rule, `preserve_order`** -/
theorem good_valueX (cf : Nat → Nat) (v : TV) (h : valueOk v = true) (x : V) (w : TV)
    (hx : serValue (svalOfSer (serCalls v)) = .ok x) (hs : SimX cf x w) :
    Good .insertion .value w (.value (leafI cf v)) := by
  obtain ⟨hw, hp⟩ := leaf_okX cf v h x w hx hs
  have hid : placeTV .insertion w = w := place_insertion_id w (wf_nodup w hw)
  constructor
  · intro c it hit
    subst hit
    unfold decodeEdit
    rw [value_of_item .insertion it hw, hid, hp]
    rfl
  · intro cv
    unfold decodeValue
    rw [show currentDtAsMap = true from rfl, presValue_true_eq, visit_presEdit_wf .insertion _ w hw, hid, hp]
    rfl

end TomlVerif.Lemmas.TypedGaps
