import TomlVerif.Lemmas.Refine08bFrame
import TomlVerif.Model.Encode
/-! The line of a key/value entry inside the document print: `visit_nested_tables` reaches every
    table a path of keys / indices leads to, lists the ones that are not dotted, the stable sort keeps
    them, `visit_table` prints the body of each with one line per key/value pair. So the line of an
    entry stored directly in a non-dotted table (the root, a `[header]` table, an element of an array
    of tables) is a contiguous piece of `to_string()`. -/
namespace TomlVerif.Lemmas.Refine08c
open TomlVerif TomlVerif.Model TomlVerif.Model.Cst TomlVerif.Model.Edit TomlVerif.Model.Encode
open TomlVerif.Lemmas.Edit08 TomlVerif.Lemmas.Refine08bFrame

/-! ### infix helpers -/

theorem infix_app_left {α} {a b : List α} (c : List α) (h : a <:+: b) : a <:+: b ++ c := by
  obtain ⟨s, t, h⟩ := h
  exact ⟨s, t ++ c, by simp [← h]⟩

theorem infix_app_right {α} {a c : List α} (b : List α) (h : a <:+: c) : a <:+: b ++ c := by
  obtain ⟨s, t, h⟩ := h
  exact ⟨b ++ s, t, by simp [← h]⟩

/-! ### a path that leads to a table never passes through a value -/

mutual
theorem lookupVal_not_tbl : ∀ (p : List Seg) (v : CVal) (T : CTbl), lookupVal p v ≠ some (.tbl T)
  | [], v, T, h => by simp [lookupVal] at h
  | _ :: _, .scalar _ _ _, _, h => by simp [lookupVal] at h
  | s :: q, .arr items _ _ _ _, T, h => by
    simp only [lookupVal] at h
    cases hi : s.idx with
    | none => simp [hi] at h
    | some i => simp only [hi] at h; exact lookupElems_not_tbl i q items T h
  | s :: q, .inl items _ _ _ _ _, T, h => by
    simp only [lookupVal] at h
    cases hi : s.key with
    | none => simp [hi] at h
    | some k => simp only [hi] at h; exact lookupKvs_not_tbl k q items T h
theorem lookupElems_not_tbl : ∀ (i : Nat) (q : List Seg) (items : List CVal) (T : CTbl),
    lookupElems i q items ≠ some (.tbl T)
  | _, _, [], _, h => by simp [lookupElems] at h
  | 0, q, v :: _, T, h => by simp only [lookupElems] at h; exact lookupVal_not_tbl q v T h
  | i + 1, q, _ :: rest, T, h => by simp only [lookupElems] at h; exact lookupElems_not_tbl i q rest T h
theorem lookupKvs_not_tbl (k : Bytes) : ∀ (q : List Seg) (items : List (CKey × CVal)) (T : CTbl),
    lookupKvs k q items ≠ some (.tbl T)
  | _, [], _, h => by simp [lookupKvs] at h
  | q, (k', v) :: rest, T, h => by
    simp only [lookupKvs] at h
    split at h
    · exact lookupVal_not_tbl q v T h
    · exact lookupKvs_not_tbl k q rest T h
end

/-! ### the entry at `p ++ [s]` is stored in the table at `p` -/

theorem lookupKItems_nil_mem (kk : Bytes) : ∀ (items : List (CKey × CItem)) (k : CKey) (v : CVal),
    lookupKItems kk [] items = some (some k, .val v) → (k, .value v) ∈ items
  | [], _, _, h => by simp [lookupKItems] at h
  | (k', it) :: rest, k, v, h => by
    simp only [lookupKItems] at h
    split at h
    · cases it with
      | value v0 =>
        simp only [lookupKItem, lookupKVal, Option.some.injEq, Prod.mk.injEq, Node.val.injEq] at h
        obtain ⟨rfl, rfl⟩ := h
        exact List.mem_cons_self
      | table t => simp [lookupKItem, lookupKTbl] at h
      | aot ts sp => simp [lookupKItem] at h
    · exact List.mem_cons_of_mem _ (lookupKItems_nil_mem kk rest k v h)

mutual
theorem emem_tbl : ∀ (ck : Option CKey) (p : List Seg) (s : Seg) (t T : CTbl) (k : CKey) (v : CVal),
    lookupTbl p t = some (.tbl T) → lookupKTbl ck (p ++ [s]) t = some (some k, .val v) → (k, .value v) ∈ T.items
  | ck, [], s, .mk items _ _ _ _ _, T, k, v, h1, h2 => by
    simp only [lookupTbl, Option.some.injEq, Node.tbl.injEq] at h1
    subst h1
    simp only [List.nil_append, lookupKTbl] at h2
    cases hi : s.key with
    | none => simp [hi] at h2
    | some kk =>
      simp only [hi] at h2
      exact lookupKItems_nil_mem kk items k v h2
  | ck, a :: q, s, .mk items _ _ _ _ _, T, k, v, h1, h2 => by
    simp only [lookupTbl] at h1
    simp only [List.cons_append, lookupKTbl] at h2
    cases hi : a.key with
    | none => simp [hi] at h1
    | some kk =>
      simp only [hi] at h1 h2
      exact emem_items kk q s items T k v h1 h2
theorem emem_items (kk : Bytes) : ∀ (q : List Seg) (s : Seg) (items : List (CKey × CItem)) (T : CTbl) (k : CKey)
    (v : CVal), lookupItems kk q items = some (.tbl T) → lookupKItems kk (q ++ [s]) items = some (some k, .val v) →
    (k, .value v) ∈ T.items
  | _, _, [], _, _, _, h1, _ => by simp [lookupItems] at h1
  | q, s, (k', it) :: rest, T, k, v, h1, h2 => by
    simp only [lookupItems] at h1
    simp only [lookupKItems] at h2
    split at h1
    · rename_i hk
      simp only [hk, if_true] at h2
      exact emem_item (some k') q s it T k v h1 h2
    · rename_i hk
      simp only [hk] at h2
      exact emem_items kk q s rest T k v h1 h2
theorem emem_item : ∀ (ck : Option CKey) (q : List Seg) (s : Seg) (it : CItem) (T : CTbl) (k : CKey) (v : CVal),
    lookupItem q it = some (.tbl T) → lookupKItem ck (q ++ [s]) it = some (some k, .val v) → (k, .value v) ∈ T.items
  | _, q, _, .value v0, T, _, _, h1, _ => by
    simp only [lookupItem] at h1
    exact absurd h1 (lookupVal_not_tbl q v0 T)
  | ck, q, s, .table t, T, k, v, h1, h2 => by
    simp only [lookupItem] at h1
    simp only [lookupKItem] at h2
    exact emem_tbl ck q s t T k v h1 h2
  | _, [], _, .aot ts sp, _, _, _, h1, _ => by simp [lookupItem] at h1
  | ck, a :: q, s, .aot ts sp, T, k, v, h1, h2 => by
    simp only [lookupItem] at h1
    simp only [List.cons_append, lookupKItem] at h2
    cases hi : a.idx with
    | none => simp [hi] at h1
    | some i =>
      simp only [hi] at h1 h2
      exact emem_nth i q s ts T k v h1 h2
theorem emem_nth : ∀ (i : Nat) (q : List Seg) (s : Seg) (ts : List CTbl) (T : CTbl) (k : CKey) (v : CVal),
    lookupNth i q ts = some (.tbl T) → lookupKNth i (q ++ [s]) ts = some (some k, .val v) → (k, .value v) ∈ T.items
  | _, _, _, [], _, _, _, h1, _ => by simp [lookupNth] at h1
  | 0, q, s, t :: _, T, k, v, h1, h2 => by
    simp only [lookupNth] at h1
    simp only [lookupKNth] at h2
    exact emem_tbl none q s t T k v h1 h2
  | i + 1, q, s, _ :: rest, T, k, v, h1, h2 => by
    simp only [lookupNth] at h1
    simp only [lookupKNth] at h2
    exact emem_nth i q s rest T k v h1 h2
end

/-! ### `visit_nested_tables` lists every non-dotted table a path leads to -/

mutual
theorem visitTbl_mono : ∀ (t : CTbl) (path : List CKey) (isArr : Bool) (st : Nat × List Entry),
    ∃ l, (visitTbl t path isArr st).2 = st.2 ++ l
  | .mk items imp dot p dec sp, path, isArr, st => by
    simp only [visitTbl]
    split
    · exact visitItems_mono items path st
    · obtain ⟨l, hl⟩ := visitItems_mono items path
        (p.getD st.1, st.2 ++ [⟨p.getD st.1, .mk items imp dot p dec sp, path, isArr⟩])
      refine ⟨⟨p.getD st.1, .mk items imp dot p dec sp, path, isArr⟩ :: l, ?_⟩
      rw [hl]; simp
theorem visitItems_mono : ∀ (items : List (CKey × CItem)) (path : List CKey) (st : Nat × List Entry),
    ∃ l, (visitItems items path st).2 = st.2 ++ l
  | [], _, st => ⟨[], by simp [visitItems]⟩
  | (k, .table t) :: r, path, st => by
    simp only [visitItems]
    obtain ⟨l1, h1⟩ := visitTbl_mono t (path ++ [k]) false st
    obtain ⟨l2, h2⟩ := visitItems_mono r path (visitTbl t (path ++ [k]) false st)
    exact ⟨l1 ++ l2, by rw [h2, h1, List.append_assoc]⟩
  | (k, .aot ts _) :: r, path, st => by
    simp only [visitItems]
    obtain ⟨l1, h1⟩ := visitAot_mono ts (path ++ [k]) st
    obtain ⟨l2, h2⟩ := visitItems_mono r path (visitAot ts (path ++ [k]) st)
    exact ⟨l1 ++ l2, by rw [h2, h1, List.append_assoc]⟩
  | (k, .value _) :: r, path, st => by
    simp only [visitItems]
    exact visitItems_mono r path st
theorem visitAot_mono : ∀ (ts : List CTbl) (path : List CKey) (st : Nat × List Entry),
    ∃ l, (visitAot ts path st).2 = st.2 ++ l
  | [], _, st => ⟨[], by simp [visitAot]⟩
  | t :: r, path, st => by
    simp only [visitAot]
    obtain ⟨l1, h1⟩ := visitTbl_mono t path true st
    obtain ⟨l2, h2⟩ := visitAot_mono r path (visitTbl t path true st)
    exact ⟨l1 ++ l2, by rw [h2, h1, List.append_assoc]⟩
end

theorem mem_visitItems_of_mem {e : Entry} {st : Nat × List Entry} (items : List (CKey × CItem)) (path : List CKey)
    (h : e ∈ st.2) : e ∈ (visitItems items path st).2 := by
  obtain ⟨l, hl⟩ := visitItems_mono items path st
  rw [hl]; exact List.mem_append_left _ h

theorem mem_visitAot_of_mem {e : Entry} {st : Nat × List Entry} (ts : List CTbl) (path : List CKey)
    (h : e ∈ st.2) : e ∈ (visitAot ts path st).2 := by
  obtain ⟨l, hl⟩ := visitAot_mono ts path st
  rw [hl]; exact List.mem_append_left _ h

mutual
theorem visit_tbl : ∀ (p : List Seg) (t T : CTbl) (path : List CKey) (isArr : Bool) (st : Nat × List Entry),
    lookupTbl p t = some (.tbl T) → T.dotted = false → ∃ e ∈ (visitTbl t path isArr st).2, e.tbl = T
  | [], .mk items imp dot p dec sp, T, path, isArr, st, h, hd => by
    simp only [lookupTbl, Option.some.injEq, Node.tbl.injEq] at h
    subst h
    have hd' : dot = false := hd
    subst hd'
    simp only [visitTbl, Bool.false_eq_true, if_false]
    exact ⟨⟨p.getD st.1, .mk items imp false p dec sp, path, isArr⟩,
      mem_visitItems_of_mem items path (by simp), rfl⟩
  | a :: q, .mk items imp dot p dec sp, T, path, isArr, st, h, hd => by
    simp only [lookupTbl] at h
    simp only [visitTbl]
    cases hi : a.key with
    | none => simp [hi] at h
    | some kk =>
      simp only [hi] at h
      exact visit_items kk q items T path _ h hd
theorem visit_items (kk : Bytes) : ∀ (q : List Seg) (items : List (CKey × CItem)) (T : CTbl) (path : List CKey)
    (st : Nat × List Entry), lookupItems kk q items = some (.tbl T) → T.dotted = false →
    ∃ e ∈ (visitItems items path st).2, e.tbl = T
  | _, [], _, _, _, h, _ => by simp [lookupItems] at h
  | q, (k', .table t) :: rest, T, path, st, h, hd => by
    simp only [lookupItems] at h
    simp only [visitItems]
    split at h
    · simp only [lookupItem] at h
      obtain ⟨e, he, het⟩ := visit_tbl q t T (path ++ [k']) false st h hd
      exact ⟨e, mem_visitItems_of_mem rest path he, het⟩
    · exact visit_items kk q rest T path _ h hd
  | q, (k', .value v) :: rest, T, path, st, h, hd => by
    simp only [lookupItems] at h
    simp only [visitItems]
    split at h
    · simp only [lookupItem] at h
      exact absurd h (lookupVal_not_tbl q v T)
    · exact visit_items kk q rest T path _ h hd
  | [], (k', .aot ts sp) :: rest, T, path, st, h, hd => by
    simp only [lookupItems] at h
    simp only [visitItems]
    split at h
    · simp [lookupItem] at h
    · exact visit_items kk [] rest T path _ h hd
  | a :: q, (k', .aot ts sp) :: rest, T, path, st, h, hd => by
    simp only [lookupItems] at h
    simp only [visitItems]
    split at h
    · simp only [lookupItem] at h
      cases hi : a.idx with
      | none => simp [hi] at h
      | some i =>
        simp only [hi] at h
        obtain ⟨e, he, het⟩ := visit_nth i q ts T (path ++ [k']) st h hd
        exact ⟨e, mem_visitItems_of_mem rest path he, het⟩
    · exact visit_items kk (a :: q) rest T path _ h hd
theorem visit_nth : ∀ (i : Nat) (q : List Seg) (ts : List CTbl) (T : CTbl) (path : List CKey)
    (st : Nat × List Entry), lookupNth i q ts = some (.tbl T) → T.dotted = false →
    ∃ e ∈ (visitAot ts path st).2, e.tbl = T
  | _, _, [], _, _, _, h, _ => by simp [lookupNth] at h
  | 0, q, t :: rest, T, path, st, h, hd => by
    simp only [lookupNth] at h
    simp only [visitAot]
    obtain ⟨e, he, het⟩ := visit_tbl q t T path true st h hd
    exact ⟨e, mem_visitAot_of_mem rest path he, het⟩
  | i + 1, q, t :: rest, T, path, st, h, hd => by
    simp only [lookupNth] at h
    simp only [visitAot]
    exact visit_nth i q rest T path _ h hd
end

/-! ### the stable sort keeps the entries -/

theorem mem_insertEntry (e x : Entry) : ∀ l : List Entry, x ∈ insertEntry e l ↔ x = e ∨ x ∈ l
  | [] => by simp [insertEntry]
  | y :: r => by
    simp only [insertEntry]
    split
    · simp
    · simp only [List.mem_cons, mem_insertEntry e x r]
      constructor
      · rintro (h | h | h)
        · exact .inr (.inl h)
        · exact .inl h
        · exact .inr (.inr h)
      · rintro (h | h | h)
        · exact .inr (.inl h)
        · exact .inl h
        · exact .inr (.inr h)

theorem mem_sortEntries (x : Entry) : ∀ l : List Entry, x ∈ sortEntries l ↔ x ∈ l
  | [] => by simp [sortEntries]
  | e :: r => by
    have ih := mem_sortEntries x r
    simp only [sortEntries, List.foldr_cons] at ih ⊢
    rw [mem_insertEntry, ih]
    simp

/-! ### the body of a table holds the line of each of its key/value pairs -/

/-- not a dotted inline table (those print as `k.x = …` lines, not as one `k = {…}` line) -/
def notDottedInl : CVal → Bool
  | .inl _ _ _ dot _ _ => !dot
  | _ => true

theorem valuesTbl_mem : ∀ (items : List (CKey × CItem)) (parent : List CKey) (k : CKey) (v : CVal),
    (k, CItem.value v) ∈ items → notDottedInl v = true → (parent ++ [k], v) ∈ valuesTbl items parent
  | [], _, _, _, h, _ => by cases h
  | (k', it) :: r, parent, k, v, h, hv => by
    rcases List.mem_cons.1 h with h | h
    · injection h with h1 h2
      subst h1; subst h2
      unfold valuesTbl
      apply List.mem_append_left
      cases v with
      | inl sub pre imp dot dec sp =>
        have : dot = false := by simpa [notDottedInl] using hv
        subst this
        simp
      | scalar _ _ _ => simp
      | arr _ _ _ _ _ => simp
    · unfold valuesTbl
      exact List.mem_append_right _ (valuesTbl_mem r parent k v h hv)

theorem encodeBody_mem (f : Bytes → Bytes) (inp : Bytes) : ∀ (l : List (List CKey × CVal)) (kp : List CKey) (v : CVal),
    (kp, v) ∈ l →
    (encodeKeyPath f inp kp [] [0x20] ++ [0x3D] ++ encodeValue f inp v [0x20] [] ++ [0x0A]) <:+: encodeBody f inp l
  | [], _, _, h => by cases h
  | (kp', v') :: r, kp, v, h => by
    simp only [encodeBody]
    rcases List.mem_cons.1 h with h | h
    · injection h with h1 h2
      subst h1; subst h2
      exact ⟨[], encodeBody f inp r, by simp⟩
    · exact infix_app_right _ (encodeBody_mem f inp r kp v h)

theorem visitTable_body (f : Bytes → Bytes) (inp : Bytes) (e : Entry) (ft : Bool) :
    encodeBody f inp (valuesTbl e.tbl.items []) <:+: (visitTable f inp e ft).1 := by
  simp only [visitTable]
  exact infix_app_right _ (List.infix_refl _)

theorem visitTables_mem (f : Bytes → Bytes) (inp : Bytes) : ∀ (l : List Entry) (e : Entry) (ft : Bool), e ∈ l →
    encodeBody f inp (valuesTbl e.tbl.items []) <:+: visitTables f inp l ft
  | [], _, _, h => by cases h
  | x :: r, e, ft, h => by
    simp only [visitTables]
    rcases List.mem_cons.1 h with h | h
    · subst h
      exact infix_app_left _ (visitTable_body f inp e ft)
    · exact infix_app_right _ (visitTables_mem f inp r e _ h)

/-- **the line of an entry is a piece of the printed document**: `(k, v)` stored directly in a
    non-dotted table `T` that a path leads to -/
theorem line_in_print (f : Bytes → Bytes) (inp : Bytes) (d : CDoc) (p : List Seg) (T : CTbl) (k : CKey) (v : CVal)
    (hT : lookupTbl p d.root = some (.tbl T)) (hd : T.dotted = false) (hm : (k, CItem.value v) ∈ T.items)
    (hv : notDottedInl v = true) :
    (encodeKeyPath f inp [k] [] [0x20] ++ [0x3D] ++ encodeValue f inp v [0x20] [] ++ [0x0A]) <:+: printDocG f inp d := by
  obtain ⟨e, he, het⟩ := visit_tbl p d.root T [] false (0, []) hT hd
  have he' := (mem_sortEntries e _).2 he
  have h1 := visitTables_mem f inp _ e true he'
  have h2 := encodeBody_mem f inp _ _ _ (valuesTbl_mem e.tbl.items [] k v (by rw [het]; exact hm) hv)
  simp only [List.nil_append] at h2
  simp only [printDocG]
  exact infix_app_left _ (infix_app_left _ (infix_app_right _ (h2.trans h1)))

/-! ### edits elsewhere keep a table a table, and its `dotted` flag -/

theorem diverge_snoc : ∀ (x p : List Seg) (s : Seg), Diverge x (p ++ [s]) → Diverge x p ∨ ∃ a r, x = p ++ a :: r
  | [], _, _, h => by cases h
  | a :: x', [], s, h => .inr ⟨a, x', rfl⟩
  | a :: x', b :: p', s, h => by
    rcases diverge_cons h with h1 | ⟨e, h2⟩
    · exact .inl (.here h1)
    · subst e
      rcases diverge_snoc x' p' s h2 with h3 | ⟨a', r, rfl⟩
      · exact .inl (.step h3)
      · exact .inr ⟨a', r, rfl⟩

variable (u : Upd)

mutual
theorem pass_tbl : ∀ (p : List Seg) (a : Seg) (r : List Seg) (t t' T : CTbl),
    updTbl u (p ++ a :: r) t = some t' → lookupTbl p t = some (.tbl T) →
    ∃ T', lookupTbl p t' = some (.tbl T') ∧ T'.dotted = T.dotted
  | [], a, r, .mk items imp dot ps dec sp, t', T, h, hl => by
    simp only [lookupTbl, Option.some.injEq, Node.tbl.injEq] at hl
    subst hl
    simp only [List.nil_append, updTbl] at h
    cases hi : a.key with
    | none => simp [hi] at h
    | some k =>
      simp only [hi] at h
      obtain ⟨items', _, rfl⟩ := Option.map_eq_some_iff.mp h
      exact ⟨_, rfl, rfl⟩
  | b :: p, a, r, .mk items imp dot ps dec sp, t', T, h, hl => by
    simp only [lookupTbl] at hl
    simp only [List.cons_append, updTbl] at h
    cases hi : b.key with
    | none => simp [hi] at h
    | some k =>
      simp only [hi] at h hl
      obtain ⟨items', hu, rfl⟩ := Option.map_eq_some_iff.mp h
      obtain ⟨T', h1, h2⟩ := pass_items k p a r items items' T hu hl
      exact ⟨T', by simp only [lookupTbl, hi]; exact h1, h2⟩
termination_by structural _ _ _ t => t
theorem pass_items (k : Bytes) : ∀ (p : List Seg) (a : Seg) (r : List Seg) (items items' : List (CKey × CItem))
    (T : CTbl), updItems u k (p ++ a :: r) items = some items' → lookupItems k p items = some (.tbl T) →
    ∃ T', lookupItems k p items' = some (.tbl T') ∧ T'.dotted = T.dotted
  | _, _, _, [], _, _, h, _ => by simp [updItems] at h
  | p, a, r, (k', it) :: rest, items', T, h, hl => by
    simp only [updItems] at h
    simp only [lookupItems] at hl
    split at h
    · rename_i hk
      simp only [hk, if_true] at hl
      obtain ⟨it', hu, rfl⟩ := Option.map_eq_some_iff.mp h
      obtain ⟨T', h1, h2⟩ := pass_item p a r it it' T hu hl
      exact ⟨T', by simp only [lookupItems, hk, if_true]; exact h1, h2⟩
    · rename_i hk
      simp only [hk] at hl
      obtain ⟨rest', hu, rfl⟩ := Option.map_eq_some_iff.mp h
      obtain ⟨T', h1, h2⟩ := pass_items k p a r rest rest' T hu hl
      exact ⟨T', by simp only [lookupItems, hk]; exact h1, h2⟩
termination_by structural _ _ _ items => items
theorem pass_item : ∀ (p : List Seg) (a : Seg) (r : List Seg) (it it' : CItem) (T : CTbl),
    updItem u (p ++ a :: r) it = some it' → lookupItem p it = some (.tbl T) →
    ∃ T', lookupItem p it' = some (.tbl T') ∧ T'.dotted = T.dotted
  | p, _, _, .value v, _, T, _, hl => by
    simp only [lookupItem] at hl
    exact absurd hl (lookupVal_not_tbl p v T)
  | p, a, r, .table t, it', T, h, hl => by
    simp only [updItem] at h
    simp only [lookupItem] at hl
    obtain ⟨t', hu, rfl⟩ := Option.map_eq_some_iff.mp h
    obtain ⟨T', h1, h2⟩ := pass_tbl p a r t t' T hu hl
    exact ⟨T', by simp only [lookupItem]; exact h1, h2⟩
  | [], _, _, .aot ts sp, _, _, _, hl => by simp [lookupItem] at hl
  | b :: p, a, r, .aot ts sp, it', T, h, hl => by
    simp only [List.cons_append, updItem] at h
    simp only [lookupItem] at hl
    cases hi : b.idx with
    | none => simp [hi] at h
    | some i =>
      simp only [hi] at h hl
      obtain ⟨ts', hu, rfl⟩ := Option.map_eq_some_iff.mp h
      obtain ⟨T', h1, h2⟩ := pass_nth i p a r ts ts' T hu hl
      exact ⟨T', by simp only [lookupItem, hi]; exact h1, h2⟩
termination_by structural _ _ _ it => it
theorem pass_nth : ∀ (i : Nat) (p : List Seg) (a : Seg) (r : List Seg) (ts ts' : List CTbl) (T : CTbl),
    updNth u i (p ++ a :: r) ts = some ts' → lookupNth i p ts = some (.tbl T) →
    ∃ T', lookupNth i p ts' = some (.tbl T') ∧ T'.dotted = T.dotted
  | _, _, _, _, [], _, _, h, _ => by simp [updNth] at h
  | 0, p, a, r, t :: rest, ts', T, h, hl => by
    simp only [updNth] at h
    simp only [lookupNth] at hl
    obtain ⟨t', hu, rfl⟩ := Option.map_eq_some_iff.mp h
    obtain ⟨T', h1, h2⟩ := pass_tbl p a r t t' T hu hl
    exact ⟨T', by simp only [lookupNth]; exact h1, h2⟩
  | i + 1, p, a, r, t :: rest, ts', T, h, hl => by
    simp only [updNth] at h
    simp only [lookupNth] at hl
    obtain ⟨rest', hu, rfl⟩ := Option.map_eq_some_iff.mp h
    obtain ⟨T', h1, h2⟩ := pass_nth i p a r rest rest' T hu hl
    exact ⟨T', by simp only [lookupNth]; exact h1, h2⟩
termination_by structural _ _ _ _ ts => ts
end

/-- a path update that leaves the entry `p ++ [s]` alone keeps the table at `p` a table, with its
    `dotted` flag -/
theorem upd_keeps_tbl (x : List Seg) (t t' : CTbl) (h : updTbl u x t = some t') (p : List Seg) (s : Seg)
    (hd : Diverge x (p ++ [s])) (T : CTbl) (hl : lookupTbl p t = some (.tbl T)) :
    ∃ T', lookupTbl p t' = some (.tbl T') ∧ T'.dotted = T.dotted := by
  rcases diverge_snoc x p s hd with hd | ⟨a, r, rfl⟩
  · exact ⟨T, by rw [frame_tbl u x t t' h p hd]; exact hl, rfl⟩
  · exact pass_tbl u p a r t t' T h hl

end TomlVerif.Lemmas.Refine08c
