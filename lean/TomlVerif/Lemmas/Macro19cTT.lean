import TomlVerif.Model.Macro
/-! C19 (text): the token-tree builder `parseTTs` inverts the flattening of token trees.
    `flatTTs ts` is the flat token sequence rustc's lexer produces for the trees `ts` (delimiters written out);
    `parseTTs (flatTTs ts) = some ts` for every list of trees. -/
namespace TomlVerif.Lemmas.Macro19c
open TomlVerif TomlVerif.Model TomlVerif.Model.Macro

mutual
/-- the flat tokens of a token tree -/
def flatTT : TT → List FTok
  | .tok t => [.t t]
  | .group d ts => .opn d :: (flatTTs ts ++ [.cls d])
def flatTTs : List TT → List FTok
  | [] => []
  | t :: r => flatTT t ++ flatTTs r
end

theorem flatTTs_append (a b : List TT) : flatTTs (a ++ b) = flatTTs a ++ flatTTs b := by
  induction a with
  | nil => simp [flatTTs]
  | cons t r ih => simp [flatTTs, ih]

theorem flatTTs_tok (t : Tok) : flatTTs [.tok t] = [.t t] := by simp [flatTTs, flatTT]
theorem flatTTs_group (d : Delim) (ts : List TT) : flatTTs [.group d ts] = .opn d :: (flatTTs ts ++ [.cls d]) := by
  simp [flatTTs, flatTT]

mutual
theorem flatTT_length : ∀ t : TT, (flatTT t).length = sizeTT t
  | .tok _ => by simp [flatTT, sizeTT]
  | .group d ts => by simp [flatTT, sizeTT, flatTTs_length ts]; omega
theorem flatTTs_length : ∀ ts : List TT, (flatTTs ts).length = sizeTTs ts
  | [] => by simp [flatTTs, sizeTTs]
  | t :: r => by simp [flatTTs, sizeTTs, flatTT_length t, flatTTs_length r]
end

mutual
theorem length_le_size : ∀ ts : List TT, ts.length ≤ sizeTTs ts
  | [] => by simp [sizeTTs]
  | t :: r => by
    have := length_le_size r
    have := one_le_sizeTT t
    simp [sizeTTs]; omega
theorem one_le_sizeTT : ∀ t : TT, 1 ≤ sizeTT t
  | .tok _ => by simp [sizeTT]
  | .group _ _ => by simp [sizeTT]; omega
end

mutual
/-- one tree: `parseSeq` pushes it and continues with one unit of fuel less -/
theorem parseSeq_tt : ∀ (t : TT) (n : Nat) (close : Option Delim) (rest : List FTok) (acc : List TT), sizeTT t ≤ n →
    parseSeq (n + 1) close (flatTT t ++ rest) acc = parseSeq n close rest (t :: acc)
  | .tok t, n, close, rest, acc, _ => by simp [flatTT, parseSeq]
  | .group d ts, n, close, rest, acc, h => by
    have hs : sizeTT (.group d ts) = 2 + sizeTTs ts := by simp [sizeTT]
    rw [hs] at h
    obtain ⟨m, rfl⟩ : ∃ m, n = m + 1 := ⟨n - 1, by omega⟩
    have hl := length_le_size ts
    have ih := parseSeq_tts ts m (some d) (.cls d :: rest) [] (by omega)
    have e : flatTT (.group d ts) ++ rest = .opn d :: (flatTTs ts ++ (.cls d :: rest)) := by simp [flatTT]
    rw [e, parseSeq, ih]
    obtain ⟨k, hk⟩ : ∃ k, m + 1 - ts.length = k + 1 := ⟨m - ts.length, by omega⟩
    rw [hk]
    simp [parseSeq]
/-- a list of trees -/
theorem parseSeq_tts : ∀ (ts : List TT) (n : Nat) (close : Option Delim) (rest : List FTok) (acc : List TT), sizeTTs ts ≤ n →
    parseSeq (n + 1) close (flatTTs ts ++ rest) acc = parseSeq (n + 1 - ts.length) close rest (ts.reverse ++ acc)
  | [], n, close, rest, acc, _ => by simp [flatTTs]
  | t :: r, n, close, rest, acc, h => by
    have hs : sizeTTs (t :: r) = sizeTT t + sizeTTs r := by simp [sizeTTs]
    rw [hs] at h
    have h1 := one_le_sizeTT t
    obtain ⟨m, rfl⟩ : ∃ m, n = m + 1 := ⟨n - 1, by omega⟩
    have e : flatTTs (t :: r) ++ rest = flatTT t ++ (flatTTs r ++ rest) := by simp [flatTTs]
    rw [e, parseSeq_tt t (m + 1) close _ acc (by omega), parseSeq_tts r m close rest (t :: acc) (by omega)]
    have : m + 1 + 1 - (t :: r).length = m + 1 - r.length := by simp
    rw [this]
    simp
end

/-- **the token-tree builder inverts flattening** -/
theorem parseTTs_flat (ts : List TT) : parseTTs (flatTTs ts) = some ts := by
  unfold parseTTs
  have h := parseSeq_tts ts (flatTTs ts).length none [] [] (by rw [flatTTs_length]; exact Nat.le_refl _)
  rw [List.append_nil] at h
  rw [h]
  have hl := length_le_size ts
  rw [flatTTs_length]
  obtain ⟨k, hk⟩ : ∃ k, sizeTTs ts + 1 - ts.length = k + 1 := ⟨sizeTTs ts - ts.length, by omega⟩
  rw [hk]
  simp [parseSeq]

/-- text → token trees, once the lexer's output is known -/
theorem tokens_of_lex (s : Bytes) (ts : List TT) (h : lex s = some (flatTTs ts)) : tokens s = some ts := by
  unfold tokens
  rw [h]
  exact parseTTs_flat ts

end TomlVerif.Lemmas.Macro19c
