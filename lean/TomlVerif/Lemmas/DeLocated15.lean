import TomlVerif.Model.DeLocated
/-! Lemmas for Props/C15Located.lean, part 1: forgetting the location (`toR`) commutes with every combinator of
    `Model/DeLocated.lean`; the spanned tree erases to the tree `decodeEdit` runs on. -/
namespace TomlVerif.Lemmas.DeLocated15
open TomlVerif TomlVerif.Model TomlVerif.Model.TomlValue TomlVerif.Model.DeRoutes TomlVerif.Model.DeText
open TomlVerif.Model.DeTyped TomlVerif.Model.Cst TomlVerif.Model.DeLocated

/-- forget where the error is -/
def toR {α} : LR α → R α
  | .ok a => .ok a
  | .error _ => fail

@[simp] theorem toR_ok {α} (a : α) : toR (.ok a : LR α) = .ok a := rfl
@[simp] theorem toR_error {α} (e : LErr) : toR (.error e : LR α) = fail := rfl
@[simp] theorem toR_vfail {α} : toR (vfail : LR α) = fail := rfl
@[simp] theorem toR_failAt {α} (sp : Option Span) : toR (failAt sp : LR α) = fail := rfl

theorem r_error {α} (e : Err) : (Except.error e : R α) = fail := by cases e; rfl

@[simp] theorem toR_atSpan {α} (sp : Option Span) (x : LR α) : toR (atSpan sp x) = toR x := by
  cases x <;> rfl

@[simp] theorem toR_inEntry {α} (sp : Option Span) (k : Bytes) (x : LR α) : toR (inEntry sp k x) = toR x := by
  cases x <;> rfl

@[simp] theorem toR_liftV {α} (x : R α) : toR (liftV x) = x := by
  cases x with
  | ok a => rfl
  | error e => cases e; rfl

@[simp] theorem toR_lmap {α β} (f : α → β) (x : LR α) : toR (lmap f x) = rmap f (toR x) := by
  cases x <;> rfl

@[simp] theorem toR_lcons {α} (a : LR α) (l : LR (List α)) : toR (lcons a l) = rcons (toR a) (toR l) := by
  cases a <;> cases l <;> rfl

theorem toR_mapL {α β γ} (f : α → LR β) (g : γ → R β) (er : α → γ) :
    ∀ l : List α, (∀ a ∈ l, toR (f a) = g (er a)) → toR (mapL f l) = mapE g (l.map er)
  | [], _ => rfl
  | a :: r, h => by
    simp only [mapL, List.map_cons, mapE, toR_lcons]
    rw [h a (List.mem_cons_self ..), toR_mapL f g er r fun x hx => h x (List.mem_cons_of_mem _ hx)]

/-! ### the tree -/

theorem eraseItems_eq_map : ∀ es : List (CKey × CItem), eraseItems es = es.map fun kv => (kv.1.key, eraseItem kv.2)
  | [] => by simp [eraseItems]
  | (k, i) :: r => by simp [eraseItems, eraseItems_eq_map r]

theorem eraseKvs_eq_map : ∀ es : List (CKey × CVal), eraseKvs es = es.map fun kv => (kv.1.key, eraseVal kv.2)
  | [] => by simp [eraseKvs]
  | (k, i) :: r => by simp [eraseKvs, eraseKvs_eq_map r]

theorem eraseVals_eq_map : ∀ l : List CVal, eraseVals l = l.map eraseVal
  | [] => by simp [eraseVals]
  | v :: r => by simp [eraseVals, eraseVals_eq_map r]

theorem eraseTbls_eq_map : ∀ l : List CTbl, eraseTbls l = l.map eraseTbl
  | [] => by simp [eraseTbls]
  | v :: r => by simp [eraseTbls, eraseTbls_eq_map r]

def eraseEntries (es : List (CKey × CItem)) : List (Bytes × Item) := es.map fun kv => (kv.1.key, eraseItem kv.2)

theorem itemEntries_erase (it : CItem) : itemEntries (eraseItem it) = (citemEntries it).map eraseEntries := by
  cases it with
  | value v =>
    cases v with
    | scalar v r d =>
      cases v <;> simp [eraseItem, eraseVal, itemEntries, citemEntries, eraseEntries, Function.comp_def, bareItem, bareKey]
    | arr items t c d sp => simp [eraseItem, eraseVal, itemEntries, citemEntries]
    | inl items p i dt d sp =>
      simp [eraseItem, eraseVal, itemEntries, citemEntries, eraseKvs_eq_map, eraseEntries, Function.comp_def]
  | table t =>
    cases t with
    | mk items i d p dc sp => simp [eraseItem, eraseTbl, itemEntries, citemEntries, eraseItems_eq_map, eraseEntries, Tbl.items, CTbl.items]
  | aot ts sp => simp [eraseItem, itemEntries, citemEntries]

theorem itemElems_erase (it : CItem) : itemElems (eraseItem it) = (citemElems it).map fun l => l.map eraseItem := by
  cases it with
  | value v =>
    cases v with
    | scalar v r d => cases v <;> simp [eraseItem, eraseVal, itemElems, citemElems, Function.comp_def, bareItem]
    | arr items t c d sp =>
      simp [eraseItem, eraseVal, itemElems, citemElems, eraseVals_eq_map, Function.comp_def]
    | inl items p i dt d sp => simp [eraseItem, eraseVal, itemElems, citemElems]
  | table t => simp [eraseItem, itemElems, citemElems]
  | aot ts sp => simp [eraseItem, itemElems, citemElems, eraseTbls_eq_map, Function.comp_def]

def eraseSrc : LSrc → ESrc
  | .item _ i => .item (eraseItem i)
  | .str s => .str s

def eraseSrcs (es : List (Bytes × LSrc)) : List (Bytes × ESrc) := es.map fun kv => (kv.1, eraseSrc kv.2)

theorem editMapEntries_erase (it : CItem) : editMapEntries (eraseItem it) = (locMapEntries it).map eraseSrcs := by
  unfold locMapEntries
  cases h : eraseItem it with
  | value v =>
    cases v with
    | dt d => simp [editMapEntries, eraseSrcs, eraseSrc]
    | str s => simp [editMapEntries, ← h, itemEntries_erase, eraseSrcs, eraseSrc, eraseEntries, Function.comp_def]
    | int s => simp [editMapEntries, ← h, itemEntries_erase, eraseSrcs, eraseSrc, eraseEntries, Function.comp_def]
    | float s => simp [editMapEntries, ← h, itemEntries_erase, eraseSrcs, eraseSrc, eraseEntries, Function.comp_def]
    | bool s => simp [editMapEntries, ← h, itemEntries_erase, eraseSrcs, eraseSrc, eraseEntries, Function.comp_def]
    | arr s => simp [editMapEntries, ← h, itemEntries_erase, eraseSrcs, eraseSrc, eraseEntries, Function.comp_def]
    | inl s a b => simp [editMapEntries, ← h, itemEntries_erase, eraseSrcs, eraseSrc, eraseEntries, Function.comp_def]
  | table t => simp [editMapEntries, ← h, itemEntries_erase, eraseSrcs, eraseSrc, eraseEntries, Function.comp_def]
  | aot ts => simp [editMapEntries, ← h, itemEntries_erase, eraseSrcs, eraseSrc, eraseEntries, Function.comp_def]

end TomlVerif.Lemmas.DeLocated15
