import TomlVerif.Model.Visit
import TomlVerif.Spec.Preorder
/-! Lemmas for C20: the default walks against the pre-order enumeration; the integer rewrite. -/
namespace TomlVerif.Lemmas.Visit20
open TomlVerif TomlVerif.Model TomlVerif.Model.Visit TomlVerif.Spec.Preorder

/-- the node a hook call stands for; the four dispatch hooks (`visit_document`, `visit_item`,
    `visit_table_like`, `visit_value`) stand for none -/
def nodeOf : Ev → Option Node
  | .kv k => some (.pair k)
  | .str s => some (.str s)
  | .int n => some (.int n)
  | .float b => some (.float b)
  | .bool b => some (.bool b)
  | .dt d => some (.dt d)
  | .array => some .array
  | .inline => some .inlineTable
  | .table => some .table
  | .aot => some .arrayOfTables
  | .doc | .item | .tablelike | .value => none

/-- a trace restricted to its node events -/
def nodeEvents (evs : List Ev) : List Node := evs.filterMap nodeOf

/-- the hook calls the default walk makes on arriving at one node -/
def hooks : Node → List Ev
  | .pair k => [.kv k, .item]
  | .str s => [.value, .str s]
  | .int n => [.value, .int n]
  | .float b => [.value, .float b]
  | .bool b => [.value, .bool b]
  | .dt d => [.value, .dt d]
  | .array => [.value, .array]
  | .inlineTable => [.value, .inline, .tablelike]
  | .table => [.table, .tablelike]
  | .arrayOfTables => [.aot]

theorem nodeEvents_hooks (n : Node) : nodeEvents (hooks n) = [n] := by
  cases n <;> rfl

theorem nodeEvents_append (a b : List Ev) : nodeEvents (a ++ b) = nodeEvents a ++ nodeEvents b := by
  simp [nodeEvents, List.filterMap_append]

theorem nodeEvents_flatMap_hooks (l : List Node) : nodeEvents (l.flatMap hooks) = l := by
  induction l with
  | nil => rfl
  | cons n r ih => simp [List.flatMap_cons, nodeEvents_append, nodeEvents_hooks, ih]

/-! ## the read-only walk is `hooks` over the pre-order -/

mutual
theorem visitValue_eq : ∀ v : Val, visitValue v = (preVal v).flatMap hooks
  | .str s => by simp [visitValue, preVal, hooks]
  | .int n => by simp [visitValue, preVal, hooks]
  | .float b => by simp [visitValue, preVal, hooks]
  | .bool b => by simp [visitValue, preVal, hooks]
  | .dt d => by simp [visitValue, preVal, hooks]
  | .arr vs => by simp [visitValue, preVal, hooks, visitArrayItems_eq vs]
  | .inl kvs _ _ => by simp [visitValue, preVal, hooks, visitInlineItems_eq kvs]
theorem visitArrayItems_eq : ∀ vs : List Val, visitArrayItems vs = (vs.flatMap preVal).flatMap hooks
  | [] => by simp [visitArrayItems]
  | v :: r => by simp [visitArrayItems, visitValue_eq v, visitArrayItems_eq r]
theorem visitInlineItems_eq : ∀ kvs : List (Bytes × Val),
    visitInlineItems kvs = (kvs.flatMap fun kv => .pair kv.1 :: preVal kv.2).flatMap hooks
  | [] => by simp [visitInlineItems]
  | (k, v) :: r => by simp [visitInlineItems, hooks, visitValue_eq v, visitInlineItems_eq r]
end

mutual
theorem visitItem_eq : ∀ i : Item, visitItem i = .item :: (preItem i).flatMap hooks
  | .value v => by simp [visitItem, preItem, visitValue_eq v]
  | .table t => by simp [visitItem, preItem, visitTable_eq t]
  | .aot ts => by simp [visitItem, preItem, hooks, visitAotItems_eq ts]
theorem visitTable_eq : ∀ t : Tbl, visitTable t = (preTbl t).flatMap hooks
  | .mk items _ _ _ => by simp [visitTable, preTbl, hooks, visitTableItems_eq items]
theorem visitTableItems_eq : ∀ items : List (Bytes × Item),
    visitTableItems items = (items.flatMap fun kv => .pair kv.1 :: preItem kv.2).flatMap hooks
  | [] => by simp [visitTableItems]
  | (k, i) :: r => by simp [visitTableItems, hooks, visitItem_eq i, visitTableItems_eq r]
theorem visitAotItems_eq : ∀ ts : List Tbl, visitAotItems ts = (ts.flatMap preTbl).flatMap hooks
  | [] => by simp [visitAotItems]
  | t :: r => by simp [visitAotItems, visitTable_eq t, visitAotItems_eq r]
end

/-! ## the mutable walk: same hook calls, whatever the integer hook does -/

mutual
theorem visitValueMut_snd (h : Int → Int) : ∀ v : Val, (visitValueMut h v).2 = visitValue v
  | .str s => by simp [visitValueMut, visitValue]
  | .int n => by simp [visitValueMut, visitValue]
  | .float b => by simp [visitValueMut, visitValue]
  | .bool b => by simp [visitValueMut, visitValue]
  | .dt d => by simp [visitValueMut, visitValue]
  | .arr vs => by simp [visitValueMut, visitValue, visitArrayItemsMut_snd h vs]
  | .inl kvs _ _ => by simp [visitValueMut, visitValue, visitInlineItemsMut_snd h kvs]
theorem visitArrayItemsMut_snd (h : Int → Int) : ∀ vs : List Val, (visitArrayItemsMut h vs).2 = visitArrayItems vs
  | [] => by simp [visitArrayItemsMut, visitArrayItems]
  | v :: r => by simp [visitArrayItemsMut, visitArrayItems, visitValueMut_snd h v, visitArrayItemsMut_snd h r]
theorem visitInlineItemsMut_snd (h : Int → Int) : ∀ kvs : List (Bytes × Val),
    (visitInlineItemsMut h kvs).2 = visitInlineItems kvs
  | [] => by simp [visitInlineItemsMut, visitInlineItems]
  | (k, v) :: r => by simp [visitInlineItemsMut, visitInlineItems, visitValueMut_snd h v, visitInlineItemsMut_snd h r]
end

mutual
theorem visitItemMut_snd (h : Int → Int) : ∀ i : Item, (visitItemMut h i).2 = visitItem i
  | .value v => by simp [visitItemMut, visitItem, visitValueMut_snd h v]
  | .table t => by simp [visitItemMut, visitItem, visitTableMut_snd h t]
  | .aot ts => by simp [visitItemMut, visitItem, visitAotItemsMut_snd h ts]
theorem visitTableMut_snd (h : Int → Int) : ∀ t : Tbl, (visitTableMut h t).2 = visitTable t
  | .mk items _ _ _ => by simp [visitTableMut, visitTable, visitTableItemsMut_snd h items]
theorem visitTableItemsMut_snd (h : Int → Int) : ∀ items : List (Bytes × Item),
    (visitTableItemsMut h items).2 = visitTableItems items
  | [] => by simp [visitTableItemsMut, visitTableItems]
  | (k, i) :: r => by simp [visitTableItemsMut, visitTableItems, visitItemMut_snd h i, visitTableItemsMut_snd h r]
theorem visitAotItemsMut_snd (h : Int → Int) : ∀ ts : List Tbl, (visitAotItemsMut h ts).2 = visitAotItems ts
  | [] => by simp [visitAotItemsMut, visitAotItems]
  | t :: r => by simp [visitAotItemsMut, visitAotItems, visitTableMut_snd h t, visitAotItemsMut_snd h r]
end

/-! ## the tree after the walk: integers mapped, skeleton kept -/

mutual
theorem intsVal_mut (h : Int → Int) : ∀ v : Val, intsVal (visitValueMut h v).1 = (intsVal v).map h
  | .str s => by simp [visitValueMut, intsVal]
  | .int n => by simp [visitValueMut, intsVal]
  | .float b => by simp [visitValueMut, intsVal]
  | .bool b => by simp [visitValueMut, intsVal]
  | .dt d => by simp [visitValueMut, intsVal]
  | .arr vs => by simp [visitValueMut, intsVal, intsVals_mut h vs]
  | .inl kvs _ _ => by simp [visitValueMut, intsVal, intsKVs_mut h kvs]
theorem intsVals_mut (h : Int → Int) : ∀ vs : List Val,
    (visitArrayItemsMut h vs).1.flatMap intsVal = (vs.flatMap intsVal).map h
  | [] => by simp [visitArrayItemsMut]
  | v :: r => by simp [visitArrayItemsMut, intsVal_mut h v, intsVals_mut h r]
theorem intsKVs_mut (h : Int → Int) : ∀ kvs : List (Bytes × Val),
    ((visitInlineItemsMut h kvs).1.flatMap fun kv => intsVal kv.2) = (kvs.flatMap fun kv => intsVal kv.2).map h
  | [] => by simp [visitInlineItemsMut]
  | (k, v) :: r => by simp [visitInlineItemsMut, intsVal_mut h v, intsKVs_mut h r]
end

mutual
theorem intsItem_mut (h : Int → Int) : ∀ i : Item, intsItem (visitItemMut h i).1 = (intsItem i).map h
  | .value v => by simp [visitItemMut, intsItem, intsVal_mut h v]
  | .table t => by simp [visitItemMut, intsItem, intsTbl_mut h t]
  | .aot ts => by simp [visitItemMut, intsItem, intsTbls_mut h ts]
theorem intsTbl_mut (h : Int → Int) : ∀ t : Tbl, intsTbl (visitTableMut h t).1 = (intsTbl t).map h
  | .mk items _ _ _ => by simp [visitTableMut, intsTbl, intsItems_mut h items]
theorem intsItems_mut (h : Int → Int) : ∀ items : List (Bytes × Item),
    ((visitTableItemsMut h items).1.flatMap fun kv => intsItem kv.2) = (items.flatMap fun kv => intsItem kv.2).map h
  | [] => by simp [visitTableItemsMut]
  | (k, i) :: r => by simp [visitTableItemsMut, intsItem_mut h i, intsItems_mut h r]
theorem intsTbls_mut (h : Int → Int) : ∀ ts : List Tbl,
    (visitAotItemsMut h ts).1.flatMap intsTbl = (ts.flatMap intsTbl).map h
  | [] => by simp [visitAotItemsMut]
  | t :: r => by simp [visitAotItemsMut, intsTbl_mut h t, intsTbls_mut h r]
end

mutual
theorem skelVal_mut (h : Int → Int) : ∀ v : Val, skelVal (visitValueMut h v).1 = skelVal v
  | .str s => by simp [visitValueMut, skelVal]
  | .int n => by simp [visitValueMut, skelVal]
  | .float b => by simp [visitValueMut, skelVal]
  | .bool b => by simp [visitValueMut, skelVal]
  | .dt d => by simp [visitValueMut, skelVal]
  | .arr vs => by simp [visitValueMut, skelVal, skelVals_mut h vs]
  | .inl kvs _ _ => by simp [visitValueMut, skelVal, skelKVs_mut h kvs]
theorem skelVals_mut (h : Int → Int) : ∀ vs : List Val,
    (visitArrayItemsMut h vs).1.map skelVal = vs.map skelVal
  | [] => by simp [visitArrayItemsMut]
  | v :: r => by simp [visitArrayItemsMut, skelVal_mut h v, skelVals_mut h r]
theorem skelKVs_mut (h : Int → Int) : ∀ kvs : List (Bytes × Val),
    ((visitInlineItemsMut h kvs).1.map fun kv => (kv.1, skelVal kv.2)) = kvs.map fun kv => (kv.1, skelVal kv.2)
  | [] => by simp [visitInlineItemsMut]
  | (k, v) :: r => by simp [visitInlineItemsMut, skelVal_mut h v, skelKVs_mut h r]
end

mutual
theorem skelItem_mut (h : Int → Int) : ∀ i : Item, skelItem (visitItemMut h i).1 = skelItem i
  | .value v => by simp [visitItemMut, skelItem, skelVal_mut h v]
  | .table t => by simp [visitItemMut, skelItem, skelTbl_mut h t]
  | .aot ts => by simp [visitItemMut, skelItem, skelTbls_mut h ts]
theorem skelTbl_mut (h : Int → Int) : ∀ t : Tbl, skelTbl (visitTableMut h t).1 = skelTbl t
  | .mk items _ _ _ => by simp [visitTableMut, skelTbl, skelItems_mut h items]
theorem skelItems_mut (h : Int → Int) : ∀ items : List (Bytes × Item),
    ((visitTableItemsMut h items).1.map fun kv => (kv.1, skelItem kv.2)) = items.map fun kv => (kv.1, skelItem kv.2)
  | [] => by simp [visitTableItemsMut]
  | (k, i) :: r => by simp [visitTableItemsMut, skelItem_mut h i, skelItems_mut h r]
theorem skelTbls_mut (h : Int → Int) : ∀ ts : List Tbl, (visitAotItemsMut h ts).1.map skelTbl = ts.map skelTbl
  | [] => by simp [visitAotItemsMut]
  | t :: r => by simp [visitAotItemsMut, skelTbl_mut h t, skelTbls_mut h r]
end

/-! ## the default hooks change nothing -/

mutual
theorem visitValueMut_id : ∀ v : Val, (visitValueMut id v).1 = v
  | .str s => by simp [visitValueMut]
  | .int n => by simp [visitValueMut]
  | .float b => by simp [visitValueMut]
  | .bool b => by simp [visitValueMut]
  | .dt d => by simp [visitValueMut]
  | .arr vs => by simp [visitValueMut, visitArrayItemsMut_id vs]
  | .inl kvs _ _ => by simp [visitValueMut, visitInlineItemsMut_id kvs]
theorem visitArrayItemsMut_id : ∀ vs : List Val, (visitArrayItemsMut id vs).1 = vs
  | [] => by simp [visitArrayItemsMut]
  | v :: r => by simp [visitArrayItemsMut, visitValueMut_id v, visitArrayItemsMut_id r]
theorem visitInlineItemsMut_id : ∀ kvs : List (Bytes × Val), (visitInlineItemsMut id kvs).1 = kvs
  | [] => by simp [visitInlineItemsMut]
  | (k, v) :: r => by simp [visitInlineItemsMut, visitValueMut_id v, visitInlineItemsMut_id r]
end

mutual
theorem visitItemMut_id : ∀ i : Item, (visitItemMut id i).1 = i
  | .value v => by simp [visitItemMut, visitValueMut_id v]
  | .table t => by simp [visitItemMut, visitTableMut_id t]
  | .aot ts => by simp [visitItemMut, visitAotItemsMut_id ts]
theorem visitTableMut_id : ∀ t : Tbl, (visitTableMut id t).1 = t
  | .mk items _ _ _ => by simp [visitTableMut, visitTableItemsMut_id items]
theorem visitTableItemsMut_id : ∀ items : List (Bytes × Item), (visitTableItemsMut id items).1 = items
  | [] => by simp [visitTableItemsMut]
  | (k, i) :: r => by simp [visitTableItemsMut, visitItemMut_id i, visitTableItemsMut_id r]
theorem visitAotItemsMut_id : ∀ ts : List Tbl, (visitAotItemsMut id ts).1 = ts
  | [] => by simp [visitAotItemsMut]
  | t :: r => by simp [visitAotItemsMut, visitTableMut_id t, visitAotItemsMut_id r]
end

end TomlVerif.Lemmas.Visit20
