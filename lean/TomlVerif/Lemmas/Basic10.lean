import TomlVerif.Model.Write
import TomlVerif.Model.Key
import TomlVerif.Lemmas.ByteDecide
/-! Round trip of the escaped writer through `basicBody` (single-line basic strings and keys). -/
namespace TomlVerif.Lemmas
open TomlVerif TomlVerif.Spec TomlVerif.Model.Write TomlVerif.Model.Strings

def isCtl (b : UInt8) : Bool := b ≤ 0x1F || b == 0x7F

/-- `\u00XY` written for a control byte decodes to that byte -/
theorem ctl_hex : ∀ b : UInt8, isCtl b = true →
    hexVal 0x30 = some 0 ∧ hexVal (hexUpper (b.toNat / 16)) = some (b.toNat / 16) ∧
    hexVal (hexUpper (b.toNat % 16)) = some (b.toNat % 16) ∧
    Utf8.isScalar (b.toNat / 16 * 16 + b.toNat % 16) = true ∧
    Utf8.encode (b.toNat / 16 * 16 + b.toNat % 16) = [b] :=
  forall_byte (by decide +kernel)

/-- a byte the escaped writer leaves alone is `basic-unescaped` -/
theorem raw_is_unescaped : ∀ b : UInt8, b ≠ 0x22 → b ≠ 0x08 → b ≠ 0x09 → b ≠ 0x0A → b ≠ 0x0C → b ≠ 0x0D →
    b ≠ 0x5C → isCtl b = false → isBasicUnescaped b = true :=
  forall_byte (by decide +kernel)

theorem special_not_unescaped : ∀ b : UInt8, (b = 0x22 ∨ b = 0x5C ∨ isCtl b = true ∨ b = 0x0A ∨ b = 0x0D) →
    isBasicUnescaped b = false ∨ b = 0x09 :=
  forall_byte (by decide +kernel)

theorem hexN4 (a b c d : UInt8) (va vb vc vd : Nat) (t : Bytes)
    (ha : hexVal a = some va) (hb : hexVal b = some vb) (hc : hexVal c = some vc) (hd : hexVal d = some vd) :
    hexN 4 (a :: b :: c :: d :: t) 0 = some ((((0 * 16 + va) * 16 + vb) * 16 + vc) * 16 + vd, t) := by
  simp [hexN, ha, hb, hc, hd]

/-- step lemma, single-line: the parser reads back one written non-quote byte -/
theorem basic_step (fuel : Nat) (b : UInt8) (tail acc : Bytes) (hq : b ≠ 0x22) :
    basicBody (fuel + 1) (escNonQuote false b ++ tail) acc = basicBody fuel tail (acc ++ [b]) := by
  by_cases h8 : b = 0x08
  · subst h8; simp [escNonQuote, basicBody, escapeSeqChar, isBasicUnescaped, isWschar, inR, isNonAscii]
  by_cases h9 : b = 0x09
  · subst h9; simp [escNonQuote, basicBody, escapeSeqChar, isBasicUnescaped, isWschar, inR, isNonAscii]
  by_cases hA : b = 0x0A
  · subst hA; simp [escNonQuote, basicBody, escapeSeqChar, isBasicUnescaped, isWschar, inR, isNonAscii]
  by_cases hC : b = 0x0C
  · subst hC; simp [escNonQuote, basicBody, escapeSeqChar, isBasicUnescaped, isWschar, inR, isNonAscii]
  by_cases hD : b = 0x0D
  · subst hD; simp [escNonQuote, basicBody, escapeSeqChar, isBasicUnescaped, isWschar, inR, isNonAscii]
  by_cases h5 : b = 0x5C
  · subst h5; simp [escNonQuote, basicBody, escapeSeqChar, isBasicUnescaped, isWschar, inR, isNonAscii]
  by_cases hc : isCtl b = true
  · obtain ⟨h0, hx, hy, hs, he⟩ := ctl_hex b hc
    have hne : isBasicUnescaped b = false := by
      rcases special_not_unescaped b (Or.inr (Or.inr (Or.inl hc))) with h | h
      · exact h
      · exact absurd h h9
    have hesc : escNonQuote false b = [0x5C, 0x75, 0x30, 0x30, hexUpper (b.toNat / 16), hexUpper (b.toNat % 16)] := by
      unfold isCtl at hc
      simp [escNonQuote, h8, h9, hA, hC, hD, h5, hc]
    rw [hesc]
    simp [basicBody, escapeSeqChar, hexescape, isBasicUnescaped, isWschar, inR, isNonAscii,
      hexN4 _ _ _ _ _ _ _ _ _ h0 h0 hx hy, hs, he]
  · have hc' : isCtl b = false := by simpa using hc
    have hu := raw_is_unescaped b hq h8 h9 hA hC hD h5 hc'
    have hesc : escNonQuote false b = [b] := by
      unfold isCtl at hc'
      simp [escNonQuote, h8, h9, hA, hC, hD, h5, hc']
    rw [hesc]
    simp [basicBody, hu]

theorem escNonQuote_length_pos (ml : Bool) : ∀ b : UInt8, 0 < (escNonQuote ml b).length := by
  cases ml
  · exact forall_byte (by decide +kernel)
  · exact forall_byte (by decide +kernel)

/-- single-line basic body: whatever `seq` the writer starts with, the parser reads back `s` -/
theorem basic_body_rt (s : Bytes) : ∀ (k fuel : Nat) (rest acc : Bytes),
    (escBody false k s ++ 0x22 :: rest).length < fuel →
    basicBody fuel (escBody false k s ++ 0x22 :: rest) acc = .ok (acc ++ s) rest := by
  induction s with
  | nil =>
    intro k fuel rest acc h
    cases fuel with
    | zero => simp at h
    | succ f => simp [escBody, basicBody, isBasicUnescaped, isWschar, inR, isNonAscii]
  | cons b s ih =>
    intro k fuel rest acc h
    cases fuel with
    | zero => simp at h
    | succ f =>
      by_cases hq : b = 0x22
      · subst hq
        have e : escBody false k (0x22 :: s) = 0x5C :: 0x22 :: escBody false 0 s := by simp [escBody]
        rw [e] at h ⊢
        simp only [List.cons_append]
        unfold basicBody
        simp only [isBasicUnescaped, isWschar, inR, isNonAscii, escapeSeqChar]
        simp
        rw [ih]
        · simp
        · simp at h ⊢; omega
      · have e : escBody false k (b :: s) = escNonQuote false b ++ escBody false 0 s := by
          simp [escBody, hq]
        rw [e, List.append_assoc] at h ⊢
        rw [basic_step _ _ _ _ hq, ih]
        · simp
        · have := escNonQuote_length_pos false b
          simp at h ⊢; omega

end TomlVerif.Lemmas
