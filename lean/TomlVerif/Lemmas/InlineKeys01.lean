import TomlVerif.Spec.AstValue
/-! Inline tables with dotted keys: when the entries can be assembled (`tableFromPairs` succeeds).
    Sufficient condition: no full key is a prefix of (or equal to) another. -/
namespace TomlVerif.Lemmas.InlineKeys01
open TomlVerif TomlVerif.Model TomlVerif.Model.Value

mutual
/-- full keys defined below key `k` holding value `v`: an implicit table (made by a dotted key) contributes
    the keys inside it, anything else is a definition of `k` itself -/
def leafKeysV (k : Bytes) : Val → List (List Bytes)
  | .inl sub imp _ => if imp then (leafKeys sub).map (k :: ·) else [[k]]
  | .str _ => [[k]]
  | .int _ => [[k]]
  | .float _ => [[k]]
  | .bool _ => [[k]]
  | .dt _ => [[k]]
  | .arr _ => [[k]]
def leafKeys : List (Bytes × Val) → List (List Bytes)
  | [] => []
  | (k, v) :: r => leafKeysV k v ++ leafKeys r
end

mutual
def GoodV : Val → Prop
  | .inl sub imp dot => imp = true → dot = true ∧ leafKeys sub ≠ [] ∧ GoodL sub
  | .str _ => True
  | .int _ => True
  | .float _ => True
  | .bool _ => True
  | .dt _ => True
  | .arr _ => True
def GoodL : List (Bytes × Val) → Prop
  | [] => True
  | (_, v) :: r => GoodV v ∧ GoodL r
end

def NotImplicit (v : Val) : Prop := ∀ sub d, v ≠ .inl sub true d

theorem leafKeysV_notImplicit (k : Bytes) (v : Val) (h : NotImplicit v) : leafKeysV k v = [[k]] := by
  cases v with
  | inl sub imp d =>
    cases imp with
    | true => exact absurd rfl (h sub d)
    | false => simp [leafKeysV]
  | _ => simp [leafKeysV]

theorem goodV_notImplicit (v : Val) (h : NotImplicit v) : GoodV v := by
  cases v with
  | inl sub imp d =>
    cases imp with
    | true => exact absurd rfl (h sub d)
    | false => simp [GoodV]
  | _ => simp [GoodV]

theorem leafKeys_append (a b : List (Bytes × Val)) : leafKeys (a ++ b) = leafKeys a ++ leafKeys b := by
  induction a with
  | nil => rfl
  | cons x a ih => obtain ⟨k, v⟩ := x; simp [leafKeys, ih]

theorem goodL_append (a b : List (Bytes × Val)) : GoodL (a ++ b) ↔ GoodL a ∧ GoodL b := by
  induction a with
  | nil => simp [GoodL]
  | cons x a ih => obtain ⟨k, v⟩ := x; simp [GoodL, ih, and_assoc]

theorem alookup_split (k : Bytes) (v0 : Val) : ∀ items : List (Bytes × Val), alookup k items = some v0 →
    ∃ before after, items = before ++ (k, v0) :: after ∧ ∀ v', areplace k v' items = before ++ (k, v') :: after := by
  intro items
  induction items with
  | nil => intro h; simp [alookup] at h
  | cons x items ih =>
    obtain ⟨k', v⟩ := x
    intro h
    unfold alookup at h
    by_cases hk : (k' == k) = true
    · simp only [hk, if_true] at h
      injection h with h
      subst h
      have : k' = k := by simpa using hk
      subst this
      exact ⟨[], items, rfl, fun v' => by simp [areplace]⟩
    · simp only [hk] at h
      obtain ⟨before, after, e, hr⟩ := ih h
      refine ⟨(k', v) :: before, after, by simp [e], fun v' => ?_⟩
      simp only [areplace, hk]
      simp [hr v']

/-- inserting a full key that is prefix-incomparable with every key present succeeds and adds exactly that key -/
theorem insert_ok : ∀ (path : List Bytes) (items : List (Bytes × Val)) (dot pe : Bool) (key : Bytes) (v : Val),
    GoodL items → NotImplicit v → (path = [] → dot ≠ pe) → (path ≠ [] → pe = false) →
    (∀ p ∈ leafKeys items, ¬ p <+: path ++ [key] ∧ ¬ path ++ [key] <+: p) →
    ∃ items', inlInsert items dot path pe key v = some items' ∧ GoodL items' ∧
      ∀ p, p ∈ leafKeys items' ↔ p ∈ leafKeys items ∨ p = path ++ [key] := by
  intro path
  induction path with
  | nil =>
    intro items dot pe key v hg hv hd _ hfree
    have hne : (dot == pe) = false := by
      have := hd rfl
      cases dot <;> cases pe <;> simp_all
    have hlk : alookup key items = none := by
      cases hl : alookup key items with
      | none => rfl
      | some v0 =>
        exfalso
        obtain ⟨before, after, e, _⟩ := alookup_split key v0 items hl
        have hsub : ∀ p ∈ leafKeysV key v0, p ∈ leafKeys items := by
          intro p hp; rw [e, leafKeys_append]; simp [leafKeys, hp]
        have hgv : GoodV v0 := by
          rw [e, goodL_append] at hg; exact hg.2.1
        cases v0 with
        | inl sub imp d =>
          cases imp with
          | false =>
            have := hfree [key] (hsub _ (by simp [leafKeysV]))
            exact this.1 (by simp)
          | true =>
            have hne := (hgv rfl).2.1
            cases hs : leafKeys sub with
            | nil => exact hne hs
            | cons p' r =>
              have := hfree (key :: p') (hsub _ (by simp [leafKeysV, hs]))
              exact this.2 (by simp)
        | _ =>
          have := hfree [key] (hsub _ (by simp [leafKeysV]))
          exact this.1 (by simp)
    refine ⟨items ++ [(key, v)], by simp [inlInsert, hne, hlk], ?_, ?_⟩
    · rw [goodL_append]; exact ⟨hg, by simp [GoodL, goodV_notImplicit v hv]⟩
    · intro p
      simp [leafKeys_append, leafKeys, leafKeysV_notImplicit key v hv]
  | cons k ks ih =>
    intro items dot pe key v hg hv _ hpe hfree
    have hpe' : pe = false := hpe (by simp)
    have hd' : ∀ (dot' : Bool), dot' = true → ks = [] → dot' ≠ pe := by
      intro dot' h1 _; rw [h1, hpe']; decide
    have hpe'' : ks ≠ [] → pe = false := fun _ => hpe'
    cases hl : alookup k items with
    | none =>
      obtain ⟨sub, hs, hgs, hks⟩ := ih [] true pe key v (by simp [GoodL]) hv (hd' true rfl) hpe''
        (by intro p hp; simp [leafKeys] at hp)
      refine ⟨items ++ [(k, .inl sub true true)], by simp [inlInsert, hl, hs], ?_, ?_⟩
      · rw [goodL_append]
        refine ⟨hg, ?_⟩
        refine ⟨?_, trivial⟩
        show GoodV (.inl sub true true)
        unfold GoodV
        intro _
        refine ⟨rfl, ?_, hgs⟩
        intro he
        have := (hks (ks ++ [key])).2 (Or.inr rfl)
        rw [he] at this; cases this
      · intro p
        simp only [leafKeys_append, leafKeys, leafKeysV, if_true, List.append_nil, List.mem_append, List.mem_map]
        constructor
        · rintro (h | ⟨p', hp', rfl⟩)
          · exact Or.inl h
          · rcases (hks p').1 hp' with h | h
            · simp [leafKeys] at h
            · right; simp [h]
        · rintro (h | h)
          · exact Or.inl h
          · right; exact ⟨ks ++ [key], (hks _).2 (Or.inr rfl), by simp [h]⟩
    | some v0 =>
      obtain ⟨before, after, e, hrep⟩ := alookup_split k v0 items hl
      have hsub : ∀ p ∈ leafKeysV k v0, p ∈ leafKeys items := by
        intro p hp; rw [e, leafKeys_append]; simp [leafKeys, hp]
      have hgsplit := hg
      rw [e, goodL_append] at hgsplit
      have hgv : GoodV v0 := hgsplit.2.1
      have leaf_contra : leafKeysV k v0 = [[k]] → False := by
        intro hlf
        have := hfree [k] (hsub _ (by simp [hlf]))
        exact this.1 (by simp [List.cons_prefix_cons])
      cases v0 with
      | inl sub imp d =>
        cases imp with
        | false => exact absurd (by simp [leafKeysV]) leaf_contra
        | true =>
          obtain ⟨hdt, _, hgsub⟩ := hgv rfl
          have hfree' : ∀ p ∈ leafKeys sub, ¬ p <+: ks ++ [key] ∧ ¬ ks ++ [key] <+: p := by
            intro p' hp'
            have := hfree (k :: p') (hsub _ (by simp [leafKeysV, hp']))
            simpa [List.cons_prefix_cons] using this
          obtain ⟨sub', hs, hgs, hks⟩ := ih sub d pe key v hgsub hv (hd' d hdt) hpe'' hfree'
          refine ⟨areplace k (.inl sub' true d) items, by simp [inlInsert, hl, hs], ?_, ?_⟩
          · rw [hrep, goodL_append]
            refine ⟨hgsplit.1, ?_, hgsplit.2.2⟩
            simp only [GoodV]
            intro _
            refine ⟨hdt, ?_, hgs⟩
            intro he
            have := (hks (ks ++ [key])).2 (Or.inr rfl)
            rw [he] at this; cases this
          · intro p
            rw [hrep, e]
            simp only [leafKeys_append, leafKeys, leafKeysV, if_true, List.mem_append, List.mem_map]
            constructor
            · rintro (h | ⟨p', hp', rfl⟩ | h)
              · exact Or.inl (Or.inl h)
              · rcases (hks p').1 hp' with h | h
                · exact Or.inl (Or.inr (Or.inl ⟨p', h, rfl⟩))
                · right; simp [h]
              · exact Or.inl (Or.inr (Or.inr h))
            · rintro ((h | ⟨p', hp', rfl⟩ | h) | h)
              · exact Or.inl h
              · exact Or.inr (Or.inl ⟨p', (hks p').2 (Or.inl hp'), rfl⟩)
              · exact Or.inr (Or.inr h)
              · exact Or.inr (Or.inl ⟨ks ++ [key], (hks _).2 (Or.inr rfl), by simp [h]⟩)
      | _ => exact absurd (by simp [leafKeysV]) leaf_contra

/-- neither full key is a prefix of the other (in particular they differ) -/
def Incomp (p q : List Bytes) : Prop := ¬ p <+: q ∧ ¬ q <+: p

def fullKey (e : List Bytes × Bytes × Val) : List Bytes := e.1 ++ [e.2.1]

/-- `table_from_pairs` succeeds on entries whose full keys are pairwise prefix-incomparable, and the table
    then defines exactly those keys -/
theorem tableFromPairs_ok : ∀ (l : List (List Bytes × Bytes × Val)) (acc : List (Bytes × Val)),
    GoodL acc → (∀ e ∈ l, NotImplicit e.2.2) → (l.map fullKey).Pairwise Incomp →
    (∀ e ∈ l, ∀ p ∈ leafKeys acc, Incomp p (fullKey e)) →
    ∃ items, tableFromPairs l acc = some items ∧ GoodL items ∧
      ∀ p, p ∈ leafKeys items ↔ p ∈ leafKeys acc ∨ p ∈ l.map fullKey := by
  intro l
  induction l with
  | nil => intro acc hg _ _ _; exact ⟨acc, rfl, hg, by simp⟩
  | cons e l ih =>
    obtain ⟨path, key, v⟩ := e
    intro acc hg hv hpw hacc
    simp only [List.map_cons, List.pairwise_cons] at hpw
    obtain ⟨acc', h1, hg', hk'⟩ := insert_ok path acc false path.isEmpty key v hg (hv (path, key, v) (by simp))
      (by intro h; subst h; simp) (by intro h; cases path with | nil => exact absurd rfl h | cons a b => rfl)
      (fun p hp => hacc (path, key, v) (by simp) p hp)
    obtain ⟨items, h2, hg'', hk''⟩ := ih acc' hg' (fun e he => hv e (by simp [he])) hpw.2
      (by
        intro e he p hp
        rcases (hk' p).1 hp with h | h
        · exact hacc e (by simp [he]) p h
        · rw [h]; exact hpw.1 (fullKey e) (List.mem_map.2 ⟨e, he, rfl⟩))
    refine ⟨items, by simp only [tableFromPairs, h1, h2], hg'', ?_⟩
    intro p
    rw [hk'' p, hk' p]
    simp [fullKey, or_assoc]

open TomlVerif.Spec TomlVerif.Spec.AstValue

theorem map_ok' {α β} (f : α → β) (x : Res α) (v : β) (r : Bytes) (h : x.map f = .ok v r) : ∃ a, v = f a := by
  cases x <;> simp [Res.map] at h
  exact ⟨_, h.1.symm⟩

/-- `value` never returns an implicit table -/
theorem value_notImplicit (fuel d : Nat) (s : Bytes) (v : Val) (rest : Bytes) (h : value fuel d s = .ok v rest) :
    NotImplicit v := by
  cases fuel with
  | zero => simp [value] at h
  | succ f =>
    intro sub dd he
    subst he
    unfold value at h
    have fin1 : ∀ {α} (x : Res α) (g : α → Val), (∀ a sub dd, g a ≠ .inl sub true dd) →
        x.map g = .ok (.inl sub true dd) rest → False := by
      intro α x g hg hm
      obtain ⟨a, e⟩ := map_ok' _ _ _ _ hm
      exact hg a sub dd e.symm
    repeat' split at h
    all_goals first
      | (simp at h; done)
      | exact fin1 _ _ (by intro a sub dd; simp) h

theorem splitKeys_append : ∀ (ks : List Bytes) (k : Bytes), (splitKeys k ks).1 ++ [(splitKeys k ks).2] = k :: ks := by
  intro ks
  induction ks with
  | nil => intro k; rfl
  | cons k' ks ih => intro k; simp [splitKeys, ih k']

theorem dkey_full (k : DKey) : k.path ++ [k.last] = k.keys := splitKeys_append _ _

theorem sem_notImplicit : ∀ a : AVal, WF a → NotImplicit (sem a)
  | .scalar t, h => by
    rw [WF] at h
    have := h.2 1 0 [] (by decide) ⟨trivial, by intro b r e; cases e⟩
    exact value_notImplicit _ _ _ _ _ this
  | .arr items tc tail, _ => by intro sub d e; simp [sem] at e
  | .inl items tail, _ => by intro sub d e; simp [sem] at e

theorem flatPairs_notImplicit : ∀ l : List (DKey × Bytes × AVal × Bytes), WFPairs l →
    ∀ e ∈ flatPairs l, NotImplicit e.2.2
  | [], _ => by intro e he; simp [flatPairs] at he
  | (k, w1, v, w2) :: l, h => by
    rw [WFPairs] at h
    intro e he
    simp only [flatPairs, List.mem_cons] at he
    rcases he with rfl | he
    · exact sem_notImplicit v h.2.2.1
    · exact flatPairs_notImplicit l h.2.2.2.2 e he

theorem flatPairs_fullKeys (l : List (DKey × Bytes × AVal × Bytes)) :
    (flatPairs l).map fullKey = l.map fun i => i.1.keys := by
  induction l with
  | nil => rfl
  | cons x l ih => obtain ⟨k, a, v, b⟩ := x; simp [flatPairs, fullKey, dkey_full, ih]

/-- an inline table whose (dotted) keys are pairwise prefix-incomparable can be assembled -/
theorem inl_assembles (l : List (DKey × Bytes × AVal × Bytes)) (hwf : WFPairs l)
    (hfree : (l.map fun i => i.1.keys).Pairwise Incomp) : (tableFromPairs (flatPairs l) []).isSome = true := by
  obtain ⟨items, h, _⟩ := tableFromPairs_ok (flatPairs l) [] (by simp [GoodL]) (flatPairs_notImplicit l hwf)
    (by rw [flatPairs_fullKeys]; exact hfree) (by intro e _ p hp; simp [leafKeys] at hp)
  rw [h]; rfl

/-! ## the converse: comparable keys are rejected -/

mutual
/-- the keys of every table reachable through implicit tables are distinct -/
def DistV : Val → Prop
  | .inl sub imp _ => imp = true → DistL sub
  | .str _ => True
  | .int _ => True
  | .float _ => True
  | .bool _ => True
  | .dt _ => True
  | .arr _ => True
def DistL : List (Bytes × Val) → Prop
  | [] => True
  | (k, v) :: r => k ∉ r.map Prod.fst ∧ DistV v ∧ DistL r
end

theorem distV_notImplicit (v : Val) (h : NotImplicit v) : DistV v := by
  cases v with
  | inl sub imp d =>
    cases imp with
    | true => exact absurd rfl (h sub d)
    | false => simp [DistV]
  | _ => simp [DistV]

theorem distL_append (a b : List (Bytes × Val)) :
    DistL (a ++ b) ↔ DistL a ∧ DistL b ∧ ∀ k ∈ a.map Prod.fst, k ∉ b.map Prod.fst := by
  induction a with
  | nil => simp [DistL]
  | cons x a ih =>
    obtain ⟨k, v⟩ := x
    simp only [List.cons_append, DistL, ih, List.map_append, List.mem_append, List.map_cons, List.mem_cons]
    constructor
    · rintro ⟨h1, h2, h3, h4, h5⟩
      refine ⟨⟨fun h => h1 (Or.inl h), h2, h3⟩, h4, ?_⟩
      rintro k' (rfl | hk')
      · exact fun h => h1 (Or.inr h)
      · exact h5 k' hk'
    · rintro ⟨⟨h1, h2, h3⟩, h4, h5⟩
      refine ⟨?_, h2, h3, h4, fun k' hk' => h5 k' (Or.inr hk')⟩
      rintro (h | h)
      · exact h1 h
      · exact h5 k (Or.inl rfl) h

theorem leafKeysV_head (k : Bytes) (v : Val) (p : List Bytes) (h : p ∈ leafKeysV k v) : ∃ p', p = k :: p' := by
  cases v with
  | inl sub imp d =>
    cases imp with
    | true => simp [leafKeysV] at h; obtain ⟨a, _, rfl⟩ := h; exact ⟨a, rfl⟩
    | false => simp [leafKeysV] at h; exact ⟨[], h⟩
  | _ => simp [leafKeysV] at h; exact ⟨[], h⟩

theorem leafKeys_mem (p : List Bytes) : ∀ items : List (Bytes × Val),
    p ∈ leafKeys items ↔ ∃ k v, (k, v) ∈ items ∧ p ∈ leafKeysV k v := by
  intro items
  induction items with
  | nil => simp [leafKeys]
  | cons x items ih =>
    obtain ⟨k, v⟩ := x
    simp only [leafKeys, List.mem_append, ih, List.mem_cons]
    constructor
    · rintro (h | ⟨k', v', hm, hp⟩)
      · exact ⟨k, v, Or.inl rfl, h⟩
      · exact ⟨k', v', Or.inr hm, hp⟩
    · rintro ⟨k', v', (h | hm), hp⟩
      · injection h with h1 h2; subst h1; subst h2; exact Or.inl hp
      · exact Or.inr ⟨k', v', hm, hp⟩

theorem alookup_of_mem (k : Bytes) (v : Val) : ∀ items : List (Bytes × Val), DistL items → (k, v) ∈ items →
    alookup k items = some v := by
  intro items
  induction items with
  | nil => intro _ h; cases h
  | cons x items ih =>
    obtain ⟨k', v'⟩ := x
    intro hd hm
    rw [DistL] at hd
    rcases List.mem_cons.1 hm with h | h
    · injection h with h1 h2; subst h1; subst h2; simp [alookup]
    · have hne : (k' == k) = false := by
        simp; intro e; subst e
        exact hd.1 (List.mem_map.2 ⟨(k', v), h, rfl⟩)
      simp only [alookup, hne]
      exact ih hd.2.2 h

theorem distV_of_mem (k : Bytes) (v : Val) : ∀ items : List (Bytes × Val), DistL items → (k, v) ∈ items → DistV v := by
  intro items
  induction items with
  | nil => intro _ h; cases h
  | cons x items ih =>
    obtain ⟨k', v'⟩ := x
    intro hd hm
    rw [DistL] at hd
    rcases List.mem_cons.1 hm with h | h
    · injection h with h1 h2; subst h1; subst h2; exact hd.2.1
    · exact ih hd.2.2 h

/-- inserting a full key that is a prefix of, an extension of, or equal to a key already present fails -/
theorem insert_fails : ∀ (path : List Bytes) (items : List (Bytes × Val)) (dot pe : Bool) (key : Bytes) (v : Val),
    DistL items → ∀ p ∈ leafKeys items, (p <+: path ++ [key] ∨ path ++ [key] <+: p) →
    inlInsert items dot path pe key v = none := by
  intro path
  induction path with
  | nil =>
    intro items dot pe key v hd p hp hc
    obtain ⟨k0, v0, hm, hpv⟩ := (leafKeys_mem p items).1 hp
    obtain ⟨p', rfl⟩ := leafKeysV_head k0 v0 p hpv
    have hk : k0 = key := by
      rcases hc with hc | hc
      · exact (List.cons_prefix_cons.1 hc).1
      · exact (List.cons_prefix_cons.1 hc).1.symm
    subst hk
    have hl := alookup_of_mem k0 v0 items hd hm
    unfold inlInsert
    split
    · rfl
    · simp [hl]
  | cons k ks ih =>
    intro items dot pe key v hd p hp hc
    obtain ⟨k0, v0, hm, hpv⟩ := (leafKeys_mem p items).1 hp
    obtain ⟨p', rfl⟩ := leafKeysV_head k0 v0 _ hpv
    have hk : k0 = k := by
      rcases hc with hc | hc
      · exact (List.cons_prefix_cons.1 hc).1
      · exact (List.cons_prefix_cons.1 hc).1.symm
    subst hk
    have hc' : p' <+: ks ++ [key] ∨ ks ++ [key] <+: p' := by
      simpa [List.cons_prefix_cons] using hc
    have hl := alookup_of_mem k0 v0 items hd hm
    have hdv := distV_of_mem k0 v0 items hd hm
    unfold inlInsert
    simp only [hl]
    cases v0 with
    | inl sub imp d =>
      cases imp with
      | false => simp
      | true =>
        have hp' : p' ∈ leafKeys sub := by
          simp [leafKeysV] at hpv; exact hpv
        simp [ih sub d pe key v (hdv rfl) p' hp' hc']
    | _ => rfl

theorem not_mem_of_alookup_none (k : Bytes) : ∀ items : List (Bytes × Val), alookup k items = none →
    k ∉ items.map Prod.fst := by
  intro items
  induction items with
  | nil => intro _ h; cases h
  | cons x items ih =>
    obtain ⟨k', v⟩ := x
    intro h
    unfold alookup at h
    by_cases hk : (k' == k) = true
    · simp [hk] at h
    · simp only [hk] at h
      simp only [List.map_cons, List.mem_cons, not_or]
      exact ⟨fun e => hk (by simp [e]), ih h⟩

/-- a successful insertion keeps keys distinct -/
theorem insert_dist : ∀ (path : List Bytes) (items items' : List (Bytes × Val)) (dot pe : Bool) (key : Bytes) (v : Val),
    inlInsert items dot path pe key v = some items' → DistL items → NotImplicit v → DistL items' := by
  intro path
  induction path with
  | nil =>
    intro items items' dot pe key v h hd hv
    unfold inlInsert at h
    split at h
    · cases h
    · split at h
      · cases h
      · rename_i hl
        injection h with h; subst h
        rw [distL_append]
        refine ⟨hd, by simp [DistL, distV_notImplicit v hv], ?_⟩
        intro k hk hk'
        simp at hk'
        subst hk'
        exact not_mem_of_alookup_none _ items hl hk
  | cons k ks ih =>
    intro items items' dot pe key v h hd hv
    unfold inlInsert at h
    split at h
    · rename_i hl
      split at h
      · rename_i sub hs
        injection h with h; subst h
        have hsub := ih [] sub true pe key v hs (by simp [DistL]) hv
        rw [distL_append]
        refine ⟨hd, ?_, ?_⟩
        · simp only [DistL, List.map_nil, List.not_mem_nil, not_false_eq_true, and_true, true_and]
          show DistV (.inl sub true true)
          unfold DistV; exact fun _ => hsub
        · intro k' hk' hk''
          simp at hk''
          subst hk''
          exact not_mem_of_alookup_none _ items hl hk'
      · cases h
    · rename_i sub imp d hl
      split at h
      · cases h
      · rename_i himp
        have himp' : imp = true := by simpa using himp
        subst himp'
        split at h
        · rename_i sub' hs
          injection h with h; subst h
          obtain ⟨before, after, e, hrep⟩ := alookup_split k _ items hl
          have hd0 := hd
          rw [e, distL_append] at hd0
          obtain ⟨hb, ha, hba⟩ := hd0
          rw [DistL] at ha
          have hsub' := ih sub sub' d pe key v hs (ha.2.1 rfl) hv
          rw [hrep, distL_append]
          refine ⟨hb, ?_, ?_⟩
          · rw [DistL]
            refine ⟨ha.1, ?_, ha.2.2⟩
            unfold DistV; exact fun _ => hsub'
          · simpa using hba
        · cases h
    · cases h

theorem tableFromPairs_only_if : ∀ (l : List (List Bytes × Bytes × Val)) (acc : List (Bytes × Val)),
    GoodL acc → DistL acc → (∀ e ∈ l, NotImplicit e.2.2) → (tableFromPairs l acc).isSome = true →
    (l.map fullKey).Pairwise Incomp ∧ ∀ e ∈ l, ∀ p ∈ leafKeys acc, Incomp p (fullKey e) := by
  intro l
  induction l with
  | nil => intro acc _ _ _ _; simp
  | cons e l ih =>
    obtain ⟨path, key, v⟩ := e
    intro acc hg hd hv hs
    unfold tableFromPairs at hs
    cases hi : inlInsert acc false path path.isEmpty key v with
    | none => rw [hi] at hs; cases hs
    | some acc' =>
      rw [hi] at hs
      simp only at hs
      have hfree : ∀ p ∈ leafKeys acc, Incomp p (path ++ [key]) := by
        intro p hp
        refine ⟨fun h1 => ?_, fun h2 => ?_⟩
        · have := insert_fails path acc false path.isEmpty key v hd p hp (Or.inl h1)
          rw [this] at hi; cases hi
        · have := insert_fails path acc false path.isEmpty key v hd p hp (Or.inr h2)
          rw [this] at hi; cases hi
      obtain ⟨acc'', h1, hg', hk'⟩ := insert_ok path acc false path.isEmpty key v hg (hv (path, key, v) (by simp))
        (by intro h; subst h; simp) (by intro h; cases path with | nil => exact absurd rfl h | cons a b => rfl) hfree
      rw [hi] at h1
      injection h1 with h1
      subst h1
      have hd' := insert_dist path acc acc' false path.isEmpty key v hi hd (hv (path, key, v) (by simp))
      obtain ⟨hpw, hall⟩ := ih acc' hg' hd' (fun e he => hv e (by simp [he])) hs
      refine ⟨?_, ?_⟩
      · simp only [List.map_cons, List.pairwise_cons]
        refine ⟨?_, hpw⟩
        intro q hq
        obtain ⟨e, he, rfl⟩ := List.mem_map.1 hq
        exact hall e he (path ++ [key]) ((hk' _).2 (Or.inr rfl))
      · intro e he p hp
        rcases List.mem_cons.1 he with rfl | he
        · exact hfree p hp
        · exact hall e he p ((hk' p).2 (Or.inl hp))

/-- **the duplicate check of inline tables**: the entries can be assembled exactly when no full key is a
    prefix of (or equal to) another -/
theorem tableFromPairs_iff (l : List (List Bytes × Bytes × Val)) (hv : ∀ e ∈ l, NotImplicit e.2.2) :
    (tableFromPairs l []).isSome = true ↔ (l.map fullKey).Pairwise Incomp := by
  constructor
  · intro h
    exact (tableFromPairs_only_if l [] (by simp [GoodL]) (by simp [DistL]) hv h).1
  · intro h
    obtain ⟨items, hi, _⟩ := tableFromPairs_ok l [] (by simp [GoodL]) hv h (by intro e _ p hp; simp [leafKeys] at hp)
    rw [hi]; rfl

open TomlVerif.Spec TomlVerif.Spec.AstValue

/-- an inline table of the syntax tree is well-formed exactly when its (dotted) keys are pairwise prefix-incomparable -/
theorem inl_assembles_iff (l : List (DKey × Bytes × AVal × Bytes)) (hwf : WFPairs l) :
    (tableFromPairs (flatPairs l) []).isSome = true ↔ (l.map fun i => i.1.keys).Pairwise Incomp := by
  rw [tableFromPairs_iff (flatPairs l) (flatPairs_notImplicit l hwf), flatPairs_fullKeys]

end TomlVerif.Lemmas.InlineKeys01
