import TomlVerif.Lemmas.Tiling03HdrHeader
import TomlVerif.Lemmas.Tiling03HdrCr
/-! The line loop and `parse_document` for flat documents with headers (C03), for any source
    (no CR-free hypothesis). -/
namespace TomlVerif.Lemmas.Tiling03Hdr
open TomlVerif TomlVerif.Spec TomlVerif.Model TomlVerif.Model.Strings TomlVerif.Model.Value
open TomlVerif.Model.Cst TomlVerif.Model.Encode TomlVerif.Lemmas.Suffix03 TomlVerif.Lemmas.Cst03
open TomlVerif.Lemmas.LastByte03 TomlVerif.Lemmas.Tiling03

theorem clines_inv (f : Bytes → Bytes) (inp base : Bytes) (hf : FixOn f inp) :
    ∀ (fuel : Nat) (st : CState) (s : Bytes) (stf : CState),
      clines inp.length fuel st s = some stf → Inv f inp base st s → Inv f inp base stf [] := by
  intro fuel
  induction fuel with
  | zero => intro st s stf h; unfold clines at h; cases h
  | succ fuel ih =>
    intro st s stf h hI
    unfold clines at h
    split at h
    · injection h with h; subst h; exact hI
    · rename_i b r
      split at h
      · -- comment
        simp only [] at h
        split at h
        · injection h with h; subst h
          have h1 := inv_consume f inp base st (b :: r) [] List.nil_suffix hI
          rw [pos_nil] at h1
          exact inv_parseWs f inp base _ [] h1
        · split at h
          · rename_i r2 hnl
            have hsuf : r2 <:+ b :: r :=
              ((Cst03.newline?_suffix _ _ hnl).1.trans (Cst03.dropComment_suffix r)).trans (List.suffix_cons b r)
            have h1 := inv_consume f inp base st (b :: r) r2 hsuf hI
            exact ih _ _ _ h (inv_parseWs f inp base _ r2 h1)
          · cases h
      · split at h
        · -- header
          split at h
          · rename_i st' r1 hl
            have h1 := header_step f inp base hf st st' (b :: r) r1 hl hI
            exact ih _ _ _ h (inv_parseWs f inp base _ r1 h1)
          · cases h
        · split at h
          · -- blank line
            split at h
            · rename_i r1 hnl
              have h1 := inv_consume f inp base st (b :: r) r1 (Cst03.newline?_suffix _ _ hnl).1 hI
              exact ih _ _ _ h (inv_parseWs f inp base _ r1 h1)
            · cases h
          · -- key/value
            split at h
            · rename_i st' r1 hl
              have h1 := keyval_step f inp base hf st st' (b :: r) r1 hl hI
              exact ih _ _ _ h (inv_parseWs f inp base _ r1 h1)
            · cases h

theorem inv_init (f : Bytes → Bytes) (s base : Bytes) (hbase : s = base ++ Doc.stripBom s) :
    Inv f s base {} (Doc.stripBom s) := by
  refine ⟨⟨rfl, fun _ => rfl, ?_⟩, Or.inl ⟨Or.inl ⟨rfl, rfl, [], false, some (0, 0), rfl, rfl⟩, ?_⟩⟩
  · intro _ key hp; cases hp
  · refine ⟨[], [], [], [], Or.inl ⟨rfl, rfl⟩, by simpa using hbase, rfl, .nil, Or.inl rfl⟩

/-- the result for flat documents (`flatItems` of the root's item list): the text written by the
    printer over a decor transformation fixing the pieces of the source is the source without its
    BOM, with the CR of the CR LF ends of key/value and header lines dropped, plus a final LF when
    the last such line ended at the end of input -/
theorem hdr_doc_tiling (f : Bytes → Bytes) (s : Bytes) (d : CDoc) (hf : FixOn f s)
    (h : parseCst s = some d) (hflat : flatItems d.root.items = true) :
    ∃ out eol, printDocG f s d = out ++ eol ∧ EolRel out (Doc.stripBom s) ∧
      (eol = [] ∨ (eol = [0x0A] ∧ (Doc.stripBom s).getLast? ≠ some 0x0A)) := by
  obtain ⟨base, hbase⟩ := stripBom_split s
  unfold parseCst at h
  simp only [] at h
  split at h
  · rename_i stf hcl
    have h1 := inv_parseWs f s base _ _ (inv_init f s base hbase)
    obtain ⟨hg, h2⟩ := clines_inv f s base hf _ _ _ _ hcl h1
    unfold intoDocument at h
    split at h
    · rename_i st' hfin
      injection h with h; subst h
      obtain ⟨f1, _, _, _, _⟩ := finalize_frame stf st' hfin hg
      rcases h2 with ⟨hsh, htx⟩ | hB
      · obtain ⟨r1, rimp, rsp, e1, e2, e3, _, e5⟩ := finalize_good f s stf st' hfin hsh
        obtain ⟨src, out, tr, eol, g1, g2, g3, g4, g5⟩ := htx
        have htr : rawText s (takeTrailing stf.trailing) = tr :=
          trailIs_text s _ tr [] g1 ⟨base ++ src, by rw [g2]; simp [List.append_assoc]⟩
        have hs0 : Doc.stripBom s = src ++ tr := by
          have : base ++ Doc.stripBom s = base ++ (src ++ tr) := by
            rw [← hbase]; simpa [List.append_assoc] using g2
          exact List.append_cancel_left this
        have hp : printDocG f s { root := st'.root, trailing := takeTrailing st'.trailing } = out ++ eol ++ tr := by
          rw [e1, printDocG_flat f s r1 rimp rsp _ e2 e3, e5, g3, f1, encRaw_fix hf, htr]
        rcases g5 with g5 | ⟨g5, _, g6, g7⟩
        · subst g5
          refine ⟨out ++ tr, [], by rw [hp]; simp, ?_, Or.inl rfl⟩
          rw [hs0]; exact g4.append (EolRel.refl tr)
        · subst g5; subst g6
          refine ⟨out, [0x0A], by rw [hp]; simp, ?_, Or.inr ⟨rfl, ?_⟩⟩
          · rw [hs0, List.append_nil]; exact g4
          · rw [hs0, List.append_nil]; exact g7
      · have := anyW_notFlat _ (finalize_bad stf st' hfin hg hB)
        simp only [] at hflat
        rw [this] at hflat; cases hflat
    · cases h
  · cases h

end TomlVerif.Lemmas.Tiling03Hdr
