import TomlVerif.Lemmas.Tiling03MoreDocState
/-! C03, documents with dotted keys inside inline tables — the key/value line, the line loop,
    `parse_document`, and the inclusion `nestRun true ⊆ nestRunV`. -/
namespace TomlVerif.Lemmas.Tiling03More
open TomlVerif TomlVerif.Spec TomlVerif.Model TomlVerif.Model.Strings TomlVerif.Model.Value
open TomlVerif.Model.Cst TomlVerif.Model.Encode TomlVerif.Lemmas.Suffix03 TomlVerif.Lemmas.Cst03
open TomlVerif.Lemmas.LastByte03 TomlVerif.Lemmas.Tiling03 TomlVerif.Lemmas.Tiling03Hdr
open TomlVerif.Lemmas.Tiling03Nest

theorem kvLineOkV_use (inp : Bytes) (st : CState) (s r1 r2 : Bytes) (ks path : List CKey) (key : CKey)
    (v : CVal) (hok : kvLineOkV inp st s = true) (hk : ckeyPath inp.length s = .ok ks (0x3D :: r1))
    (hv : cvalue inp.length (3 * r1.length + 4) (ks.length - 1) (dropWs r1) = .ok v r2)
    (hsl : splitLast ks = some (path, key)) :
    okValue inp (3 * r1.length + 4) (ks.length - 1) (dropWs r1) = true ∧ dottedOk inp st.current path = true := by
  unfold kvLineOkV at hok
  rw [hk] at hok
  simp only [] at hok
  rw [hv] at hok
  simp only [hsl, Bool.and_eq_true] at hok
  exact hok

theorem nest_currentU {inp : Bytes} {st : CState} (h : RootPhU st ∨ HdrPhU inp st) :
    ∃ items imp p dec sp, st.current = .mk items imp false p dec sp ∧ bodyOkU items = true ∧
      (st.currentPath ≠ [] → imp = false) := by
  rcases h with ⟨_, a2, items, imp, sp, h1, h2⟩ | ⟨pp, key, items, q, lead, trail, sp, _, h1, h2, _⟩
  · exact ⟨items, imp, none, {}, sp, h1, h2, fun hne => absurd a2 hne⟩
  · exact ⟨items, false, some q, _, sp, h1, h2, fun _ => rfl⟩

theorem shape_setCurrent_nU (inp : Bytes) (st : CState) (items items' : Items) (imp : Bool) (p : Option Nat)
    (dec : Decor) (sp sp' : Option Span) (h : RootPhU st ∨ HdrPhU inp st) (hc : st.current = .mk items imp false p dec sp)
    (hs : bodyOkU items' = true) :
    RootPhU { st with current := .mk items' imp false p dec sp', trailing := none } ∨
    HdrPhU inp { st with current := .mk items' imp false p dec sp', trailing := none } := by
  rcases h with ⟨a1, a2, itemsA, impA, spA, a3, a4⟩ | ⟨pp, key, itemsB, q, lead, trail, spB, b1, b2, b3, b4⟩
  · left
    rw [hc] at a3
    injection a3 with e1 e2 e3 e4 e5 e6
    subst e2; subst e4; subst e5
    exact ⟨a1, a2, items', imp, sp', rfl, hs⟩
  · right
    rw [hc] at b2
    injection b2 with e1 e2 e3 e4 e5 e6
    subst e2; subst e4; subst e5
    exact ⟨pp, key, items', q, lead, trail, sp', b1, rfl, hs, b4⟩

theorem keyval_step_nestV (f : Bytes → Bytes) (inp base : Bytes) (hf : FixOn f inp)
    (st st' : CState) (s r3 : Bytes)
    (h : ckeyvalLine inp.length st s = some (st', r3)) (hok : kvLineOkV inp st s = true)
    (hI : NInvU f inp base st s) : NInvU f inp base st' r3 := by
  obtain ⟨ks, r1, v, r2, path, key, c, hk, hv, hlt, hsl, hd, he⟩ := keyval_frame _ _ _ _ _ h
  clear h
  subst he
  obtain ⟨hsh, htx⟩ := hI
  obtain ⟨hsv0, hdo⟩ := kvLineOkV_use inp st s r1 r2 ks path key v hok hk hv hsl
  obtain ⟨items, imp, p, dec, sp, hcur, hbody, himp⟩ := nest_currentU hsh
  have hcm := kvCur_mk st (kvVal inp.length v r1 r2) items imp false p dec sp hcur
  have hci : (kvCur st (kvVal inp.length v r1 r2)).items = items := by
    rw [(kvCur_fields st (kvVal inp.length v r1 r2)).1, hcur]; rfl
  obtain ⟨src, out, tr, eol, h1, h2, h3, h4, h5⟩ := htx
  have htrs : tr ++ s <:+ inp := ⟨base ++ src, by rw [h2]; simp [List.append_assoc]⟩
  have hs : s <:+ inp := (List.suffix_append tr s).trans htrs
  have hr1' : dropWs r1 <:+ inp :=
    ((Cst03.dropWs_suffix r1).trans ((List.suffix_cons _ r1).trans (ckeyPath_suffix _ _ _ _ hk).1)).trans hs
  obtain ⟨_, _, _, _, hund0, _, _⟩ := cvalue_tiling_dotted f inp hf _ _ _ _ _ hr1' hv
  have hund : undotted (kvVal inp.length v r1 r2) = true := by
    unfold kvVal; rw [undotted_setDecor]; exact hund0
  have hdo' : dottedOk inp (kvCur st (kvVal inp.length v r1 r2)) path = true := by
    rw [dottedOk_items inp st.current _ (by rw [hci, hcur]; rfl)]; exact hdo
  obtain ⟨k1, k2, X, k3, k4⟩ := kv_descendU f inp (kvFn path (kvKey st key) (kvVal inp.length v r1 r2)) (kvKey st key)
    (kvVal inp.length v r1 r2) hund (fun p p' hp => (kvFn_facts _ _ _ _ _ hp).1) path _ c [] [] hdo'
    (by rw [hci]; exact hbody) .nil hd
  obtain ⟨ci, hci2⟩ : ∃ ci, c.items = ci := ⟨_, rfl⟩
  rw [hci2] at k1 k2 k3
  rw [hci] at k3
  have hc' : c = .mk ci imp false p dec (kvCur st (kvVal inp.length v r1 r2)).span := by
    rw [k1]
    conv => lhs; rw [hcm]
    simp [CTbl.setItems, CTbl.dotted, CTbl.implicit, CTbl.pos, CTbl.decor, CTbl.span]
  clear k1
  subst hc'
  obtain ⟨H, hH1, hH2⟩ := stTextN_body f inp st items imp p dec sp hcur himp
  refine ⟨shape_setCurrent_nU inp st items ci imp p dec sp _ hsh hcur k2, ?_⟩
  have k4' := k4 [] [0x20]
  simp only [List.nil_append] at k4'
  have hT : stTextN f inp { st with current := .mk ci imp false p dec (kvCur st (kvVal inp.length v r1 r2)).span, trailing := none }
      = stTextN f inp st ++ (encodeKeyPath f inp (path ++ [kvKey st key]) [] [0x20] ++ [0x3D]
          ++ encodeValue f inp (kvVal inp.length v r1 r2) [0x20] [] ++ [0x0A]) := by
    rw [hH2, hH1, k3, encodeBody_append]
    simp only [encodeBody, k4', List.append_assoc, List.append_nil]
  simp only [] at hT ⊢
  rw [hT]
  obtain ⟨line, e, hs', hle, hl, htext⟩ := keyval_text_nV f inp hf st s r1 r2 r3 tr ks path key v hk hv hlt hsl hsv0 h1 htrs
  have := txtOf_line inp base _ s src out tr eol line e r3 _ h2 h3 h4 h5 hs' hle hl
  rw [htext]
  simpa [List.append_assoc] using this

/-! ### the line loop: text and positions together -/

theorem clines_ninvV (f : Bytes → Bytes) (inp base : Bytes) (hf : FixOn f inp) :
    ∀ (fuel : Nat) (st : CState) (s : Bytes) (stf : CState),
      clines inp.length fuel st s = some stf → runOkV inp fuel st s = true →
      NInvU f inp base st s → PInv st → NInvU f inp base stf [] ∧ PInv stf := by
  intro fuel
  induction fuel with
  | zero => intro st s stf h; unfold clines at h; cases h
  | succ fuel ih =>
    intro st s stf h hr hI hP
    unfold clines at h
    unfold runOkV at hr
    cases s with
    | nil =>
      simp only [] at h
      injection h with h; subst h; exact ⟨hI, hP⟩
    | cons b r =>
      simp only [] at h hr
      by_cases hb1 : (b == 0x23) = true
      · simp only [hb1, if_true] at h hr
        cases hdc : dropComment r with
        | nil =>
          simp only [hdc] at h
          injection h with h; subst h
          have h1 := ninv_consumeU f inp base st (b :: r) [] List.nil_suffix hI
          rw [pos_nil] at h1
          exact ⟨ninv_parseWsU f inp base _ [] h1, pinv_parseWs _ _ _ (pinv_onWs _ _ _ hP)⟩
        | cons c1 r1 =>
          simp only [hdc] at h hr
          cases hnl : newline? (c1 :: r1) with
          | none => simp only [hnl] at h; cases h
          | some r2 =>
            simp only [hnl] at h hr
            have hsuf : r2 <:+ b :: r := by
              have := (Cst03.newline?_suffix _ _ hnl).1
              rw [← hdc] at this
              exact (this.trans (Cst03.dropComment_suffix r)).trans (List.suffix_cons b r)
            have h1 := ninv_consumeU f inp base st (b :: r) r2 hsuf hI
            exact ih _ _ _ h hr (ninv_parseWsU f inp base _ r2 h1) (pinv_parseWs _ _ _ (pinv_onWs _ _ _ hP))
      · simp only [hb1, Bool.false_eq_true, if_false] at h hr
        by_cases hb2 : (b == 0x5B) = true
        · simp only [hb2, if_true, Bool.and_eq_true] at h hr
          cases hl : ctableLine inp.length st (b :: r) with
          | none => simp only [hl] at h; cases h
          | some pr =>
            obtain ⟨st', r1⟩ := pr
            simp only [hl] at h hr
            have h1 := header_step_nestU f inp base hf st st' (b :: r) r1 hl hr.1 hI
            have p1 := pinv_headerU inp st st' (b :: r) r1 hl hr.1 hI.1 hP
            exact ih _ _ _ h hr.2 (ninv_parseWsU f inp base _ r1 h1) (pinv_parseWs _ _ _ p1)
        · simp only [hb2, Bool.false_eq_true, if_false] at h hr
          by_cases hb3 : (b == 0x0A || b == 0x0D) = true
          · simp only [hb3, if_true] at h hr
            cases hnl : newline? (b :: r) with
            | none => simp only [hnl] at h; cases h
            | some r1 =>
              simp only [hnl] at h hr
              have h1 := ninv_consumeU f inp base st (b :: r) r1 (Cst03.newline?_suffix _ _ hnl).1 hI
              exact ih _ _ _ h hr (ninv_parseWsU f inp base _ r1 h1) (pinv_parseWs _ _ _ (pinv_onWs _ _ _ hP))
          · simp only [hb3, Bool.false_eq_true, if_false, Bool.and_eq_true] at h hr
            cases hl : ckeyvalLine inp.length st (b :: r) with
            | none => simp only [hl] at h; cases h
            | some pr =>
              obtain ⟨st', r1⟩ := pr
              simp only [hl] at h hr
              have h1 := keyval_step_nestV f inp base hf st st' (b :: r) r1 hl hr.1 hI
              have p1 := pinv_keyval inp.length st st' (b :: r) r1 hl hP
              exact ih _ _ _ h hr.2 (ninv_parseWsU f inp base _ r1 h1) (pinv_parseWs _ _ _ p1)

theorem ninv_initU (f : Bytes → Bytes) (s base : Bytes) (hbase : s = base ++ Doc.stripBom s) :
    NInvU f s base {} (Doc.stripBom s) := by
  refine ⟨Or.inl ⟨rfl, rfl, [], false, some (0, 0), rfl, rfl⟩, ?_⟩
  refine ⟨[], [], [], [], Or.inl ⟨rfl, rfl⟩, by simpa using hbase, rfl, .nil, Or.inl rfl⟩

/-- the result for the class `nestRunV`: the tree is in position order (`preorderDoc`) and the
    text written by the printer over a decor transformation fixing the pieces of the source is
    the source without its BOM, with the CR of the CR LF ends of key/value and header lines
    dropped, plus a final LF when the last such line ended at the end of input -/
theorem nest_doc_tilingV (f : Bytes → Bytes) (s : Bytes) (d : CDoc) (hf : FixOn f s)
    (h : parseCst s = some d) (hrun : nestRunV s = true) :
    preorderDoc d = true ∧
    ∃ out eol, printDocG f s d = out ++ eol ∧ EolRel out (Doc.stripBom s) ∧
      (eol = [] ∨ (eol = [0x0A] ∧ (Doc.stripBom s).getLast? ≠ some 0x0A)) := by
  obtain ⟨base, hbase⟩ := stripBom_split s
  unfold parseCst at h
  unfold nestRunV at hrun
  simp only [] at h hrun
  split at h
  · rename_i stf hcl
    have h1 := ninv_parseWsU f s base _ _ (ninv_initU f s base hbase)
    have p1 : PInv (parseWs s.length {} (Doc.stripBom s)).1 := pinv_parseWs _ _ _ pinv_init
    obtain ⟨⟨hsh, htx⟩, hP⟩ := clines_ninvV f s base hf _ _ _ _ hcl hrun h1 p1
    unfold intoDocument at h
    split at h
    · rename_i st' hfin
      injection h with h; subst h
      obtain ⟨q1, q2, q3, _, _⟩ := finalize_pinvU s stf st' hfin hsh hP
      have hpre : preorderDoc { root := st'.root, trailing := takeTrailing st'.trailing } = true :=
        preorder_of_good _ q1 q2 q3
      refine ⟨hpre, ?_⟩
      obtain ⟨f1, _, f3, _, _⟩ := finalize_nestU f s stf st' hfin hsh
      obtain ⟨src, out, tr, eol, g1, g2, g3, g4, g5⟩ := htx
      have htr : rawText s (takeTrailing stf.trailing) = tr :=
        trailIs_text s _ tr [] g1 ⟨base ++ src, by rw [g2]; simp [List.append_assoc]⟩
      have hs0 : Doc.stripBom s = src ++ tr := by
        have : base ++ Doc.stripBom s = base ++ (src ++ tr) := by
          rw [← hbase]; simpa [List.append_assoc] using g2
        exact List.append_cancel_left this
      have hp : printDocG f s { root := st'.root, trailing := takeTrailing st'.trailing } = out ++ eol ++ tr := by
        rw [printDocG_preorder f s _ hpre]
        simp only []
        rw [f1, g3, f3, encRaw_fix hf, htr]
      rcases g5 with g5 | ⟨g5, _, g6, g7⟩
      · subst g5
        refine ⟨out ++ tr, [], by rw [hp]; simp, ?_, Or.inl rfl⟩
        rw [hs0]; exact g4.append (EolRel.refl tr)
      · subst g5; subst g6
        refine ⟨out, [0x0A], by rw [hp]; simp, ?_, Or.inr ⟨rfl, ?_⟩⟩
        · rw [hs0, List.append_nil]; exact g4
        · rw [hs0, List.append_nil]; exact g7
    · cases h
  · cases h

/-! ### `nestRun true ⊆ nestRunV` -/

theorem ctableLine_rest (n : Nat) (st st' : CState) (s r3 : Bytes) (h : ctableLine n st s = some (st', r3)) :
    r3 <:+ s := by
  obtain ⟨isArr, r, ks, r2, hsr, hk, hlt, _⟩ := table_frame _ _ _ _ _ h
  subst hsr
  have h1 : r3 <:+ r2 := (lineTrailing_suffix _ _ hlt).trans (trailEnd_suffix r2)
  have h2 := (ckeyPath_suffix _ _ _ _ hk).1
  exact ((h1.trans (suffix_of_append _ r2)).trans h2).trans (suffix_of_append _ r)

theorem ckeyvalLine_rest (inp : Bytes) (st st' : CState) (s r3 : Bytes) (hs : s <:+ inp)
    (h : ckeyvalLine inp.length st s = some (st', r3)) : r3 <:+ s := by
  obtain ⟨ks, r1, v, r2, path, key, c, hk, hv, hlt, _, _, _⟩ := keyval_frame _ _ _ _ _ h
  have h1 : r3 <:+ r2 := (lineTrailing_suffix _ _ hlt).trans (trailEnd_suffix r2)
  have hr1 : dropWs r1 <:+ s :=
    (Cst03.dropWs_suffix r1).trans ((List.suffix_cons _ r1).trans (ckeyPath_suffix _ _ _ _ hk).1)
  obtain ⟨t, ht, _⟩ := cvalue_tiling inp _ _ _ _ _ (hr1.trans hs) hv
  exact (h1.trans (ht ▸ suffix_of_append t r2)).trans hr1

theorem kvLineOk_V (inp : Bytes) (st : CState) (s : Bytes) (hs : s <:+ inp) (h : kvLineOk inp true st s = true) :
    kvLineOkV inp st s = true := by
  unfold kvLineOk at h
  unfold kvLineOkV
  split
  · rename_i ks r1 hk
    rw [hk] at h
    simp only [] at h ⊢
    split
    · rename_i v r2 hv
      rw [hv] at h
      simp only [Bool.and_eq_true] at h ⊢
      have hr1' : dropWs r1 <:+ inp :=
        ((Cst03.dropWs_suffix r1).trans ((List.suffix_cons _ r1).trans (ckeyPath_suffix _ _ _ _ hk).1)).trans hs
      obtain ⟨_, _, _, _, _, _, hsimp⟩ := cvalue_tiling_dotted id inp (FixOn.id inp) _ _ _ _ _ hr1' hv
      refine ⟨hsimp h.1, ?_⟩
      have h2 := h.2
      split
      · rename_i path key hsl
        rw [hsl] at h2
        simp only [Bool.true_or, Bool.true_and] at h2
        exact h2
      · rfl
    · rfl
  · rfl

theorem runOk_V (inp : Bytes) : ∀ (fuel : Nat) (st : CState) (s : Bytes), s <:+ inp →
    runOk inp true fuel st s = true → runOkV inp fuel st s = true := by
  intro fuel
  induction fuel with
  | zero => intro st s _ _; unfold runOkV; rfl
  | succ fuel ih =>
    intro st s hs h
    unfold runOk at h
    unfold runOkV
    cases s with
    | nil => rfl
    | cons b r =>
      simp only [] at h ⊢
      by_cases hb1 : (b == 0x23) = true
      · simp only [hb1, if_true] at h ⊢
        cases hdc : dropComment r with
        | nil => simp only []
        | cons c1 r1 =>
          simp only [hdc] at h ⊢
          cases hnl : newline? (c1 :: r1) with
          | none => simp only []
          | some r2 =>
            simp only [hnl] at h ⊢
            have hsuf : r2 <:+ b :: r := by
              have := (Cst03.newline?_suffix _ _ hnl).1
              rw [← hdc] at this
              exact (this.trans (Cst03.dropComment_suffix r)).trans (List.suffix_cons b r)
            exact ih _ _ ((Cst03.dropWs_suffix r2).trans (hsuf.trans hs)) h
      · simp only [hb1, Bool.false_eq_true, if_false] at h ⊢
        by_cases hb2 : (b == 0x5B) = true
        · simp only [hb2, if_true, Bool.and_eq_true] at h ⊢
          refine ⟨h.1, ?_⟩
          cases hl : ctableLine inp.length st (b :: r) with
          | none => simp only []
          | some pr =>
            obtain ⟨st', r1⟩ := pr
            have h2 := h.2
            simp only [hl] at h2 ⊢
            exact ih _ _ ((Cst03.dropWs_suffix r1).trans ((ctableLine_rest _ _ _ _ _ hl).trans hs)) h2
        · simp only [hb2, Bool.false_eq_true, if_false] at h ⊢
          by_cases hb3 : (b == 0x0A || b == 0x0D) = true
          · simp only [hb3, if_true] at h ⊢
            cases hnl : newline? (b :: r) with
            | none => simp only []
            | some r1 =>
              simp only [hnl] at h ⊢
              exact ih _ _ ((Cst03.dropWs_suffix r1).trans ((Cst03.newline?_suffix _ _ hnl).1.trans hs)) h
          · simp only [hb3, Bool.false_eq_true, if_false, Bool.and_eq_true] at h ⊢
            refine ⟨kvLineOk_V inp st _ hs h.1, ?_⟩
            cases hl : ckeyvalLine inp.length st (b :: r) with
            | none => simp only []
            | some pr =>
              obtain ⟨st', r1⟩ := pr
              have h2 := h.2
              simp only [hl] at h2 ⊢
              exact ih _ _ ((Cst03.dropWs_suffix r1).trans ((ckeyvalLine_rest inp _ _ _ _ hs hl).trans hs)) h2

/-- the class of `T03_doc_tiling_source` is inside the new one -/
theorem nestRun_V (s : Bytes) (h : nestRun true s = true) : nestRunV s = true := by
  obtain ⟨base, hbase⟩ := stripBom_split s
  unfold nestRun at h
  unfold nestRunV
  simp only [] at h ⊢
  refine runOk_V s _ _ _ ?_ h
  exact (Cst03.dropWs_suffix _).trans ⟨base, hbase.symm⟩

/-! ### the hypotheses on a concrete line -/

/-- `k . l = { a.b = 1, a.c = [ {p.q = 2} ] } # c` as the first line of a document -/
def exLine : Bytes := strBytes "k . l = { a.b = 1, a.c = [ {p.q = 2} ] } # c\n"

/-- `kvLineOkV_use`, `keyval_text_nV`, `keyval_step_nestV`, `kvLineOk_V`: the line is accepted on
    the initial state, passes the new check and fails the old one (its value is not `simpleVal`);
    `ckeyvalLine_rest`: the rest is empty -/
example : ((ckeyvalLine exLine.length {} exLine).map fun p => p.2.isEmpty) = some true ∧
    kvLineOkV exLine {} exLine = true ∧ kvLineOk exLine true {} exLine = false ∧
    nestRunV exLine = true := by decide +kernel

/-- `runOk_V`, `nestRun_V`: a document of the old class -/
example : nestRun true (strBytes "a.b = {x = 1}\na.c = 2\n[t]\n") = true ∧
    nestRunV (strBytes "a.b = {x = 1}\na.c = 2\n[t]\n") = true := by decide +kernel

end TomlVerif.Lemmas.Tiling03More
