import TomlVerif.Lemmas.SoundDoc01Complete
/-! The statement sequence is a function of the text: `stmtsOfText` is the line driver of `Model/Doc.lean` with the
    state callbacks left out (it only collects the statements), and on the rendering of a well-formed `QDoc` it returns
    the statements of that tree (`stmtsOfText_render`).  Hence two well-formed trees of one text have the same
    statements (`stmts_unique`).  The loop of `Model/Doc.lean` is this one followed by `run` (`lines_factor`). -/
namespace TomlVerif.Lemmas.SoundDoc01U
open TomlVerif TomlVerif.Spec TomlVerif.Model TomlVerif.Model.Strings TomlVerif.Model.Value
open TomlVerif.Model.State TomlVerif.Model.Doc
open TomlVerif.Spec.AstValue TomlVerif.Spec.AstValueQ TomlVerif.Spec.AstDoc TomlVerif.Spec.AstDocQ
open TomlVerif.Lemmas.Value01 TomlVerif.Lemmas.State09 TomlVerif.Lemmas.Sound01 TomlVerif.Lemmas.Sound01C
open TomlVerif.Lemmas.Doc01 TomlVerif.Lemmas.SoundDoc01 TomlVerif.Lemmas.SoundDoc01C
open TomlVerif.Lemmas.Fuel04 (dropWs_len)

/-- `parse_keyval` without the state callback: the statement of the line and the rest -/
def keyvalStmt (s : Bytes) : Option (Stmt × Bytes) :=
  match keyPath s with
  | .ok ks r =>
    if LIMIT ≤ ks.length - 1 then none else
    match r with
    | 0x3D :: r1 =>
      match value (3 * r1.length + 4) (ks.length - 1) (dropWs r1) with
      | .ok v r2 =>
        match lineTrailing r2 with
        | .ok () r3 =>
          match Value.splitLast ks with
          | some (path, key) => some (.kv path key v, r3)
          | none => none
        | _ => none
      | _ => none
    | _ => none
  | _ => none

/-- `table` without the state callback -/
def tableStmt (s : Bytes) : Option (Stmt × Bytes) :=
  match s with
  | 0x5B :: 0x5B :: r =>
    match keyPath r with
    | .ok ks r1 =>
      match r1 with
      | 0x5D :: 0x5D :: r2 =>
        match lineTrailing r2 with
        | .ok () r3 => some (.arr ks, r3)
        | _ => none
      | _ => none
    | _ => none
  | 0x5B :: r =>
    if r.isEmpty then none else
    match keyPath r with
    | .ok ks r1 =>
      match r1 with
      | 0x5D :: r2 =>
        match lineTrailing r2 with
        | .ok () r3 => some (.std ks, r3)
        | _ => none
      | _ => none
    | _ => none
  | _ => none

/-- the statement loop without the state -/
def linesS : Nat → Bytes → Option (List Stmt)
  | 0, _ => none
  | fuel + 1, s =>
    match s with
    | [] => some []
    | b :: r =>
      if b == 0x23 then
        let r1 := dropComment r
        match r1 with
        | [] => some []
        | _ => match newline? r1 with
          | some r2 => linesS fuel (dropWs r2)
          | none => none
      else if b == 0x5B then
        match tableStmt s with
        | some (x, r1) => (linesS fuel (dropWs r1)).map fun l => x :: l
        | none => none
      else if b == 0x0A || b == 0x0D then
        match newline? s with
        | some r1 => linesS fuel (dropWs r1)
        | none => none
      else
        match keyvalStmt s with
        | some (x, r1) => (linesS fuel (dropWs r1)).map fun l => x :: l
        | none => none

/-- the statement sequence of a text, if it has the shape of a document -/
def stmtsOfText (s : Bytes) : Option (List Stmt) :=
  let s1 := dropWs (stripBom s)
  linesS (s1.length + 1) s1

/-! ## lines -/

theorem keyvalStmt_end (k : QDKey) (w1 : Bytes) (v : QVal) (w2 : Bytes) (cm : Option Bytes)
    (T more : Bytes) (hwf : (QLine.keyval k w1 v w2 cm).WF) (hT : LineEnd T more) :
    keyvalStmt ((QLine.keyval k w1 v w2 cm).render ++ T) = some (.kv k.path k.last (semQ v), more) := by
  obtain ⟨hk, hw1, hv, hd, hw2, hc⟩ := hwf
  have e0 : (QLine.keyval k w1 v w2 cm).render ++ T =
      k.render ++ 0x3D :: (w1 ++ (renderQ v ++ (w2 ++ (commentBytes cm ++ T)))) := by
    simp [QLine.render]
  have e1 := keyPath_dottedQ k (w1 ++ (renderQ v ++ (w2 ++ (commentBytes cm ++ T)))) hk
  have e2 : dropWs (w1 ++ (renderQ v ++ (w2 ++ (commentBytes cm ++ T)))) = renderQ v ++ (w2 ++ (commentBytes cm ++ T)) := by
    rw [dropWs_allws _ _ hw1]; exact dropWs_stop _ (noTrivia_renderQ v hv _)
  have e3 := val_okQ v hv (k.keys.length - 1)
    (3 * (w1 ++ (renderQ v ++ (w2 ++ (commentBytes cm ++ T)))).length + 4) (w2 ++ (commentBytes cm ++ T))
    (by rw [keys_length]; exact hd) (followS_end w2 cm T more hw2 hT) (by simp; omega)
  have e4 := lineTrailing_end w2 cm T more hw2 hc hT
  have e5 : ¬ LIMIT ≤ k.keys.length - 1 := by rw [keys_length]; have := hk.2.2; omega
  rw [e0]
  unfold keyvalStmt
  simp only [e1, e5, if_false, e2, e3, e4, splitLast_keysQ]

theorem tableStmt_std (r r2 r3 : Bytes) (ks : List Bytes) (hne : ∀ t, r ≠ 0x5B :: t)
    (hk : keyPath r = .ok ks (0x5D :: r2)) (hl : lineTrailing r2 = .ok () r3) :
    tableStmt (0x5B :: r) = some (.std ks, r3) := by
  have hr : r.isEmpty = false := by
    cases r with
    | nil => simp [keyPath, keyPathAux, dropWs, Key.simpleKey] at hk
    | cons b t => rfl
  unfold tableStmt
  split
  · rename_i t heq
    injection heq with _ heq
    exact absurd heq (hne _)
  · rename_i t heq
    injection heq with _ heq
    subst heq
    simp only [hr, hk, hl]
    simp
  · rename_i h1 h2
    exact absurd rfl (h2 r)

theorem tableStmt_aot (r r2 r3 : Bytes) (ks : List Bytes)
    (hk : keyPath r = .ok ks (0x5D :: 0x5D :: r2)) (hl : lineTrailing r2 = .ok () r3) :
    tableStmt (0x5B :: 0x5B :: r) = some (.arr ks, r3) := by
  unfold tableStmt
  simp only [hk, hl]

theorem stdStmt_end (k : QDKey) (w2 : Bytes) (cm : Option Bytes) (T more : Bytes)
    (hk : k.WF) (hw2 : AllWs w2) (hc : CommentOK cm) (hT : LineEnd T more) :
    tableStmt (0x5B :: (k.render ++ 0x5D :: (w2 ++ (commentBytes cm ++ T)))) = some (.std k.keys, more) := by
  have h1 := path_not_open (toKeyPath k) (toKeyPath_ok k hk) (0x5D :: (w2 ++ (commentBytes cm ++ T)))
  have h2 := keyPath_path (toKeyPath k) (0x5D :: (w2 ++ (commentBytes cm ++ T))) (toKeyPath_ok k hk) (pathFollow_close _)
  rw [toKeyPath_render] at h1 h2
  rw [toKeyPath_names] at h2
  exact tableStmt_std _ _ _ _ h1 h2 (lineTrailing_end w2 cm T more hw2 hc hT)

theorem aotStmt_end (k : QDKey) (w2 : Bytes) (cm : Option Bytes) (T more : Bytes)
    (hk : k.WF) (hw2 : AllWs w2) (hc : CommentOK cm) (hT : LineEnd T more) :
    tableStmt (0x5B :: 0x5B :: (k.render ++ 0x5D :: 0x5D :: (w2 ++ (commentBytes cm ++ T)))) = some (.arr k.keys, more) := by
  have h2 := keyPath_path (toKeyPath k) (0x5D :: 0x5D :: (w2 ++ (commentBytes cm ++ T))) (toKeyPath_ok k hk)
    (pathFollow_close _)
  rw [toKeyPath_render, toKeyPath_names] at h2
  exact tableStmt_aot _ _ _ _ h2 (lineTrailing_end w2 cm T more hw2 hc hT)

/-! ## the loop -/

theorem linesS_nil (f : Nat) : linesS (f + 1) [] = some [] := by simp [linesS]

theorem linesS_keyval (f : Nat) (b : UInt8) (t : Bytes) (h1 : b ≠ 0x23) (h2 : b ≠ 0x5B)
    (h3 : b ≠ 0x0A) (h4 : b ≠ 0x0D) :
    linesS (f + 1) (b :: t) = match keyvalStmt (b :: t) with
      | some (x, r1) => (linesS f (dropWs r1)).map fun l => x :: l
      | none => none := by
  conv => lhs; unfold linesS
  simp [h1, h2, h3, h4]

theorem linesS_table (f : Nat) (t : Bytes) :
    linesS (f + 1) (0x5B :: t) = match tableStmt (0x5B :: t) with
      | some (x, r1) => (linesS f (dropWs r1)).map fun l => x :: l
      | none => none := by
  conv => lhs; unfold linesS
  simp

theorem linesS_blank_nl (f : Nat) (ws : Bytes) (c : Bool) (more : Bytes) (hw : AllWs ws) :
    linesS (f + 1) (dropWs (ws ++ (nlBytes c ++ more))) = linesS f (dropWs more) := by
  rw [dropWs_allws _ _ hw]
  cases c <;> simp [nlBytes, linesS, dropWs, isWschar, newline?]

theorem linesS_comment_nl (f : Nat) (ws body : Bytes) (c : Bool) (more : Bytes) (hw : AllWs ws)
    (hb : ∀ b ∈ body, isNonEol b = true) :
    linesS (f + 1) (dropWs (ws ++ (0x23 :: (body ++ (nlBytes c ++ more))))) = linesS f (dropWs more) := by
  rw [dropWs_allws _ _ hw, dropWs_head _ _ (by decide)]
  conv => lhs; unfold linesS
  simp only [dropComment_body body c more hb, newline_nl]
  cases c <;> simp [nlBytes]

theorem linesS_comment_eof (f : Nat) (ws body : Bytes) (hw : AllWs ws)
    (hb : ∀ b ∈ body, isNonEol b = true) :
    linesS (f + 1) (dropWs (ws ++ (0x23 :: body))) = some [] := by
  rw [dropWs_allws _ _ hw, dropWs_head _ _ (by decide)]
  conv => lhs; unfold linesS
  simp only [dropComment_all body hb]
  simp

/-- the statement of a line in front of the statements of the rest -/
def consStmt (l : QLine) (rest : List Stmt) : List Stmt :=
  match l.stmt with
  | none => rest
  | some x => x :: rest

theorem linesS_keyval_line (f : Nat) (k : QDKey) (w1 : Bytes) (v : QVal) (w2 : Bytes)
    (cm : Option Bytes) (T more : Bytes) (hwf : (QLine.keyval k w1 v w2 cm).WF) (hT : LineEnd T more) :
    linesS (f + 1) (dropWs ((QLine.keyval k w1 v w2 cm).render ++ T)) =
      (linesS f (dropWs more)).map fun l => Stmt.kv k.path k.last (semQ v) :: l := by
  obtain ⟨hk, hrest⟩ := hwf
  have hwf' : (QLine.keyval (stripPreQ k) w1 v w2 cm).WF := ⟨stripPreQ_wf k hk, hrest⟩
  have e0 : dropWs ((QLine.keyval k w1 v w2 cm).render ++ T) = (QLine.keyval (stripPreQ k) w1 v w2 cm).render ++ T := by
    simp only [QLine.render, List.append_assoc]
    exact dropWs_pathQ k hk _
  have e1 := keyvalStmt_end (stripPreQ k) w1 v w2 cm T more hwf' hT
  obtain ⟨b, t, ht, hb⟩ := raw_head k.first hk.1
  have hf := keyhead_facts b hb
  have e2 : ∃ t', (QLine.keyval (stripPreQ k) w1 v w2 cm).render ++ T = b :: t' := by
    simp only [QLine.render, QDKey.render, QKey.render, stripPreQ, ht, List.nil_append, List.cons_append]
    exact ⟨_, rfl⟩
  obtain ⟨t', e2⟩ := e2
  rw [e0]
  rw [e2] at e1 ⊢
  rw [linesS_keyval f b t' hf.2.1 hf.2.2.1 hf.2.2.2.1 hf.2.2.2.2.1, e1]
  rfl

theorem linesS_std_line (f : Nat) (ws : Bytes) (k : QDKey) (w2 : Bytes)
    (cm : Option Bytes) (T more : Bytes) (hwf : (QLine.std ws k w2 cm).WF) (hT : LineEnd T more) :
    linesS (f + 1) (dropWs ((QLine.std ws k w2 cm).render ++ T)) =
      (linesS f (dropWs more)).map fun l => Stmt.std k.keys :: l := by
  obtain ⟨hws, hk, hw2, hc⟩ := hwf
  have e0 : dropWs ((QLine.std ws k w2 cm).render ++ T) = 0x5B :: (k.render ++ 0x5D :: (w2 ++ (commentBytes cm ++ T))) := by
    simp only [QLine.render, List.append_assoc, List.cons_append]
    rw [dropWs_allws _ _ hws]
    exact dropWs_head _ _ (by decide)
  rw [e0, linesS_table, stdStmt_end k w2 cm T more hk hw2 hc hT]

theorem linesS_aot_line (f : Nat) (ws : Bytes) (k : QDKey) (w2 : Bytes)
    (cm : Option Bytes) (T more : Bytes) (hwf : (QLine.aot ws k w2 cm).WF) (hT : LineEnd T more) :
    linesS (f + 1) (dropWs ((QLine.aot ws k w2 cm).render ++ T)) =
      (linesS f (dropWs more)).map fun l => Stmt.arr k.keys :: l := by
  obtain ⟨hws, hk, hw2, hc⟩ := hwf
  have e0 : dropWs ((QLine.aot ws k w2 cm).render ++ T) =
      0x5B :: 0x5B :: (k.render ++ 0x5D :: 0x5D :: (w2 ++ (commentBytes cm ++ T))) := by
    simp only [QLine.render, List.append_assoc, List.cons_append]
    rw [dropWs_allws _ _ hws]
    exact dropWs_head _ _ (by decide)
  rw [e0, linesS_table, aotStmt_end k w2 cm T more hk hw2 hc hT]

theorem linesS_line_nl (f : Nat) (l : QLine) (c : Bool) (more : Bytes) (hwf : l.WF) :
    linesS (f + 1) (dropWs (l.render ++ (nlBytes c ++ more))) = (linesS f (dropWs more)).map (consStmt l) := by
  cases l with
  | blank ws =>
    rw [QLine.render, linesS_blank_nl f ws c more hwf]
    cases linesS f (dropWs more) <;> rfl
  | comment ws body =>
    have := linesS_comment_nl f ws body c more hwf.1 hwf.2
    simp only [QLine.render, List.append_assoc, List.cons_append]
    rw [this]
    cases linesS f (dropWs more) <;> rfl
  | keyval k w1 v w2 cm => exact linesS_keyval_line f k w1 v w2 cm _ more hwf (.nl c more)
  | std ws k w2 cm => exact linesS_std_line f ws k w2 cm _ more hwf (.nl c more)
  | aot ws k w2 cm => exact linesS_aot_line f ws k w2 cm _ more hwf (.nl c more)

theorem linesS_line_eof (f : Nat) (l : QLine) (hwf : l.WF) (hf : (dropWs l.render).length ≤ f) :
    linesS (f + 1) (dropWs l.render) = some (consStmt l []) := by
  cases l with
  | blank ws =>
    have := dropWs_allws ws [] hwf
    simp only [List.append_nil] at this
    simp only [QLine.render, this, dropWs, linesS_nil]
    rfl
  | comment ws body => exact linesS_comment_eof f ws body hwf.1 hwf.2
  | keyval k w1 v w2 cm =>
    have h := linesS_keyval_line f k w1 v w2 cm [] [] hwf .eof
    rw [List.append_nil] at h
    rw [h]
    obtain ⟨g, rfl⟩ : ∃ g, f = g + 1 := ⟨f - 1, by
      simp only [QLine.render] at hf
      rw [dropWs_pathQ k hwf.1] at hf
      simp at hf; omega⟩
    simp only [dropWs, linesS_nil]
    rfl
  | std ws k w2 cm =>
    have h := linesS_std_line f ws k w2 cm [] [] hwf .eof
    rw [List.append_nil] at h
    rw [h]
    obtain ⟨g, rfl⟩ : ∃ g, f = g + 1 := ⟨f - 1, by
      simp only [QLine.render] at hf
      rw [dropWs_allws _ _ hwf.1, dropWs_head _ _ (by decide)] at hf
      simp at hf; omega⟩
    simp only [dropWs, linesS_nil]
    rfl
  | aot ws k w2 cm =>
    have h := linesS_aot_line f ws k w2 cm [] [] hwf .eof
    rw [List.append_nil] at h
    rw [h]
    obtain ⟨g, rfl⟩ : ∃ g, f = g + 1 := ⟨f - 1, by
      simp only [QLine.render] at hf
      rw [dropWs_allws _ _ hwf.1, dropWs_head _ _ (by decide)] at hf
      simp at hf; omega⟩
    simp only [dropWs, linesS_nil]
    rfl

/-- the stateless loop returns the statements of the tree -/
theorem linesS_run : ∀ (ls : List (QLine × Bool)) (last : Option QLine) (fuel : Nat),
    (∀ p ∈ ls, p.1.WF) → (∀ l, last = some l → l.WF) →
    (dropWs (renderLinesQ ls ++ renderLastQ last)).length < fuel →
    linesS fuel (dropWs (renderLinesQ ls ++ renderLastQ last)) = some (stmtsLinesQ ls ++ stmtsLastQ last) := by
  intro ls
  induction ls with
  | nil =>
    intro last fuel _ hl hf
    obtain ⟨f, rfl⟩ : ∃ f, fuel = f + 1 := ⟨fuel - 1, by omega⟩
    cases last with
    | none => simp [renderLinesQ, renderLastQ, stmtsLinesQ, stmtsLastQ, dropWs, linesS_nil]
    | some l =>
      simp only [renderLinesQ, renderLastQ, List.nil_append, stmtsLinesQ, stmtsLastQ] at hf ⊢
      rw [linesS_line_eof f l (hl l rfl) (by omega)]
      unfold consStmt
      cases l.stmt <;> rfl
  | cons lc ls ih =>
    intro last fuel hls hl hf
    obtain ⟨l, c⟩ := lc
    obtain ⟨f, rfl⟩ : ∃ f, fuel = f + 1 := ⟨fuel - 1, by omega⟩
    have hpos := nlBytes_pos c
    simp only [renderLinesQ, List.append_assoc] at hf ⊢
    have h1 := dropWs_append_len l.render (nlBytes c ++ (renderLinesQ ls ++ renderLastQ last)) (nl_head c _)
    have h2 := dropWs_len (renderLinesQ ls ++ renderLastQ last)
    simp only [List.length_append] at h1 h2
    rw [linesS_line_nl f l c _ (hls (l, c) (by simp)),
      ih last f (fun p hp => hls p (by simp [hp])) hl (by omega)]
    unfold consStmt
    simp only [stmtsLinesQ, Option.map_some]
    cases l.stmt <;> rfl

/-- **the statements are a function of the text** -/
theorem stmtsOfText_render (d : QDoc) (hwf : d.WF) : stmtsOfText d.render = some d.stmts := by
  unfold stmtsOfText
  simp only [stripBom_renderQ d hwf]
  exact linesS_run d.lines d.last _ hwf.1 hwf.2 (by omega)

theorem stmts_unique (d d' : QDoc) (h : d.WF) (h' : d'.WF) (e : d.render = d'.render) : d.stmts = d'.stmts := by
  have h1 := stmtsOfText_render d h
  have h2 := stmtsOfText_render d' h'
  rw [e, h2] at h1
  injection h1 with h1
  exact h1.symm

/-! ## the loop of `Model/Doc.lean` is the stateless loop followed by `run` -/

theorem keyvalLine_factor (st : ParseState) (s : Bytes) :
    keyvalLine st s = (keyvalStmt s).bind fun p => (step st p.1).map fun st' => (st', p.2) := by
  unfold keyvalLine keyvalStmt
  cases keyPath s with
  | ok ks r =>
    simp only []
    by_cases hl : LIMIT ≤ ks.length - 1
    · simp only [hl, if_true]; rfl
    · simp only [hl, if_false]
      cases r with
      | nil => rfl
      | cons b r1 =>
        by_cases hb : b = 0x3D
        · subst hb
          simp only []
          cases value (3 * r1.length + 4) (ks.length - 1) (dropWs r1) with
          | ok v r2 =>
            simp only []
            cases lineTrailing r2 with
            | ok u r3 =>
              simp only []
              cases Value.splitLast ks with
              | none => rfl
              | some p => rfl
            | bt => rfl
            | cut => rfl
          | bt => rfl
          | cut => rfl
        · simp [hb]
  | bt => rfl
  | cut => rfl

theorem tableLine_factor (st : ParseState) (s : Bytes) :
    tableLine st s = (tableStmt s).bind fun p => (step st p.1).map fun st' => (st', p.2) := by
  unfold tableLine tableStmt
  cases s with
  | nil => rfl
  | cons b r =>
    by_cases hb : b = 0x5B
    · subst hb
      cases r with
      | nil => rfl
      | cons c r' =>
        by_cases hc : c = 0x5B
        · subst hc
          simp only []
          cases keyPath r' with
          | ok ks r1 =>
            simp only []
            cases r1 with
            | nil => rfl
            | cons x r2 =>
              by_cases hx : x = 0x5D
              · subst hx
                cases r2 with
                | nil => rfl
                | cons y r3 =>
                  by_cases hy : y = 0x5D
                  · subst hy
                    simp only []
                    cases lineTrailing r3 with
                    | ok u r4 => rfl
                    | bt => rfl
                    | cut => rfl
                  · simp [hy]
              · simp [hx]
          | bt => rfl
          | cut => rfl
        · simp [hc]
          cases keyPath (c :: r') with
          | ok ks r1 =>
            simp only []
            cases r1 with
            | nil => rfl
            | cons x r2 =>
              by_cases hx : x = 0x5D
              · subst hx
                simp only []
                cases lineTrailing r2 with
                | ok u r3 => rfl
                | bt => rfl
                | cut => rfl
              · simp [hx]
          | bt => rfl
          | cut => rfl
    · simp [hb]

theorem linesS_zero (s : Bytes) : linesS 0 s = none := by unfold linesS; rfl

theorem run_cons (st : ParseState) (x : Stmt) (l : List Stmt) : run st (x :: l) = (step st x).bind fun st' => run st' l := by
  simp only [run]
  cases step st x <;> rfl

/-- `lines` = collect the statements, then run the state machine over them (a syntax error anywhere and a
    statement the state machine refuses both give `none`) -/
theorem lines_factor : ∀ (fuel : Nat) (st : ParseState) (s : Bytes),
    lines fuel st s = (linesS fuel s).bind (run st) := by
  intro fuel
  induction fuel with
  | zero => intro st s; rw [lines_zero, linesS_zero]; rfl
  | succ f ih =>
    intro st s
    cases s with
    | nil => rw [lines_nil, linesS_nil]; rfl
    | cons b r =>
      rw [lines, linesS]
      simp only []
      by_cases h1 : (b == 0x23) = true
      · simp only [h1, if_true]
        cases dropComment r with
        | nil => rfl
        | cons c r1 =>
          simp only []
          cases newline? (c :: r1) with
          | none => rfl
          | some r2 => exact ih st _
      · simp only [h1]
        by_cases h2 : (b == 0x5B) = true
        · simp only [h2, if_true]
          rw [tableLine_factor]
          cases tableStmt (b :: r) with
          | none => rfl
          | some p =>
            obtain ⟨x, r1⟩ := p
            simp only [Option.bind_some]
            cases hs : step st x with
            | none =>
              simp only [Option.map_none]
              cases linesS f (dropWs r1) with
              | none => rfl
              | some l => simp [run_cons, hs]
            | some st1 =>
              simp only [Option.map_some, ih st1]
              cases linesS f (dropWs r1) with
              | none => rfl
              | some l => simp [run_cons, hs]
        · simp only [h2]
          by_cases h3 : (b == 0x0A || b == 0x0D) = true
          · simp only [h3, if_true]
            cases newline? (b :: r) with
            | none => rfl
            | some r1 => exact ih st _
          · simp only [h3]
            rw [keyvalLine_factor]
            cases keyvalStmt (b :: r) with
            | none => rfl
            | some p =>
              obtain ⟨x, r1⟩ := p
              simp only [Option.bind_some]
              cases hs : step st x with
              | none =>
                simp only [Option.map_none]
                cases linesS f (dropWs r1) with
                | none => rfl
                | some l => simp [run_cons, hs]
              | some st1 =>
                simp only [Option.map_some, ih st1]
                cases linesS f (dropWs r1) with
                | none => rfl
                | some l => simp [run_cons, hs]

/-- **`parse_document` = statements of the text, then the definition state machine** -/
theorem parseDocument_factor (s : Bytes) :
    parseDocument s = (stmtsOfText s).bind fun l => (run {} l).bind intoDocument := by
  unfold parseDocument stmtsOfText
  simp only [lines_factor]
  cases linesS ((dropWs (stripBom s)).length + 1) (dropWs (stripBom s)) with
  | none => rfl
  | some l =>
    simp only [Option.bind_some]
    cases run {} l <;> rfl

/-! ## soundness of the stateless loop: `stmtsOfText` accepts only renderings of well-formed trees -/

theorem keyvalStmt_sound (x : Stmt) (s r3 : Bytes) (h : keyvalStmt s = some (x, r3)) :
    ∃ (k : QDKey) (w1 : Bytes) (v : QVal) (w2 : Bytes) (cm : Option Bytes) (T : Bytes),
      (QLine.keyval k w1 v w2 cm).WF ∧ s = (QLine.keyval k w1 v w2 cm).render ++ T ∧ LineEnd T r3 ∧
      x = .kv k.path k.last (semQ v) := by
  unfold keyvalStmt at h
  split at h
  · rename_i ks r hk
    obtain ⟨k, hkwf, es, rfl⟩ := keyPath_sound _ _ _ hk
    split at h
    · cases h
    · split at h
      · rename_i r1
        split at h
        · rename_i v r2 hv
          split at h
          · rename_i r3' hlt
            split at h
            · rename_i path key hsl
              rw [splitLast_keysQ k] at hsl
              injection hsl with hsl
              injection hsl with hp hkey
              subst hp hkey
              injection h with h
              injection h with h1 h2
              subst h1 h2
              obtain ⟨w1, hw1, er1, _⟩ := dropWs_split r1
              have hd : k.keys.length - 1 < LIMIT := by rw [keys_length]; have := hkwf.2.2; omega
              obtain ⟨a, hwa, ea, hsem, hdep⟩ :=
                TomlVerif.Props.C01Sound.T01_value_sound_depth _ _ _ _ _ hv hd
              obtain ⟨w2, cm, T, hw2, hcm, er2, hT⟩ := lineTrailing_sound _ _ hlt
              subst hsem
              refine ⟨k, w1, a, w2, cm, T, ⟨hkwf, hw1, hwa, by rw [keys_length] at hdep; exact hdep, hw2, hcm⟩, ?_, hT, rfl⟩
              rw [es, er1, ea, er2]
              simp [QLine.render]
            · cases h
          · cases h
        · cases h
      · cases h
  · cases h

theorem tableStmt_sound (x : Stmt) (s r3 : Bytes) (h : tableStmt s = some (x, r3)) :
    ∃ (k : QDKey) (w2 : Bytes) (cm : Option Bytes) (T : Bytes), k.WF ∧ AllWs w2 ∧ CommentOK cm ∧ LineEnd T r3 ∧
      ((s = (QLine.std [] k w2 cm).render ++ T ∧ x = .std k.keys) ∨
       (s = (QLine.aot [] k w2 cm).render ++ T ∧ x = .arr k.keys)) := by
  unfold tableStmt at h
  split at h
  · rename_i r
    split at h
    · rename_i ks r1 hk
      obtain ⟨k, hkwf, es, rfl⟩ := keyPath_sound _ _ _ hk
      split at h
      · rename_i r2
        split at h
        · rename_i r3' hlt
          injection h with h
          injection h with h1 h2
          subst h1 h2
          obtain ⟨w2, cm, T, hw2, hcm, er2, hT⟩ := lineTrailing_sound _ _ hlt
          refine ⟨k, w2, cm, T, hkwf, hw2, hcm, hT, Or.inr ⟨?_, rfl⟩⟩
          rw [es, er2]; simp [QLine.render]
        · cases h
      · cases h
    · cases h
  · rename_i r _
    split at h
    · cases h
    · split at h
      · rename_i ks r1 hk
        obtain ⟨k, hkwf, es, rfl⟩ := keyPath_sound _ _ _ hk
        split at h
        · rename_i r2
          split at h
          · rename_i r3' hlt
            injection h with h
            injection h with h1 h2
            subst h1 h2
            obtain ⟨w2, cm, T, hw2, hcm, er2, hT⟩ := lineTrailing_sound _ _ hlt
            refine ⟨k, w2, cm, T, hkwf, hw2, hcm, hT, Or.inl ⟨?_, rfl⟩⟩
            rw [es, er2]; simp [QLine.render]
          · cases h
        · cases h
      · cases h
  · cases h

/-- the text is the rendering of well-formed lines with the statements `l` -/
def LinesGoalS (l : List Stmt) (s : Bytes) : Prop :=
  ∃ (ls : List (QLine × Bool)) (last : Option QLine), (∀ p ∈ ls, p.1.WF) ∧ (∀ x, last = some x → x.WF) ∧
    s = renderLinesQ ls ++ renderLastQ last ∧ stmtsLinesQ ls ++ stmtsLastQ last = l

theorem consStmt_addWs (ws : Bytes) (l : QLine) (rest : List Stmt) : consStmt (addWs ws l) rest = consStmt l rest := by
  unfold consStmt; rw [addWs_stmt]

theorem finishS_eof (l : QLine) (hwf : l.WF) : LinesGoalS (consStmt l []) l.render := by
  refine ⟨[], some l, (by intro p hp; cases hp), (by intro l' hl; injection hl with hl; subst hl; exact hwf),
    by simp [renderLinesQ, renderLastQ], ?_⟩
  simp only [stmtsLinesQ, stmtsLastQ, List.nil_append, consStmt]
  cases l.stmt <;> rfl

theorem finishS_nl (l : QLine) (c : Bool) (more : Bytes) (rest : List Stmt) (hwf : l.WF)
    (hmore : LinesGoalS rest more) : LinesGoalS (consStmt l rest) (l.render ++ (nlBytes c ++ more)) := by
  obtain ⟨ls, last, h1, h2, h3, h4⟩ := hmore
  refine ⟨(l, c) :: ls, last, ?_, h2, by simp [renderLinesQ, h3], ?_⟩
  · intro p hp
    rcases List.mem_cons.1 hp with rfl | hp
    · exact hwf
    · exact h1 p hp
  · simp only [stmtsLinesQ, consStmt]
    cases l.stmt with
    | none => exact h4
    | some x => simp only [List.cons_append, h4]

theorem linesS_nil_eq (f : Nat) (l : List Stmt) (h : linesS f [] = some l) : l = [] := by
  cases f with
  | zero => rw [linesS_zero] at h; cases h
  | succ f => rw [linesS_nil] at h; injection h with h; exact h.symm

theorem finishS (f : Nat) (ih : ∀ (l : List Stmt) (s : Bytes), linesS f (dropWs s) = some l → LinesGoalS l s)
    (l : QLine) (T r1 : Bytes) (rest : List Stmt) (hwf : l.WF)
    (hT : LineEnd T r1) (hl : linesS f (dropWs r1) = some rest) : LinesGoalS (consStmt l rest) (l.render ++ T) := by
  cases hT with
  | nl c => exact finishS_nl l c r1 rest hwf (ih rest r1 hl)
  | eof =>
    have := linesS_nil_eq f rest hl
    subst this
    rw [List.append_nil]
    exact finishS_eof l hwf

theorem map_cons_some (o : Option (List Stmt)) (x : Stmt) (l : List Stmt)
    (h : (o.map fun r => x :: r) = some l) : ∃ rest, o = some rest ∧ l = x :: rest := by
  cases o with
  | none => cases h
  | some r => simp only [Option.map_some] at h; injection h with h; exact ⟨r, rfl, h.symm⟩

/-- whatever the stateless loop accepts is the rendering of well-formed lines, and it returns their statements -/
theorem linesS_sound : ∀ (fuel : Nat) (l : List Stmt) (s : Bytes),
    linesS fuel (dropWs s) = some l → LinesGoalS l s := by
  intro fuel
  induction fuel with
  | zero => intro l s h; rw [linesS_zero] at h; cases h
  | succ f ih =>
    intro l s h
    obtain ⟨ws, hws, es, hhd⟩ := dropWs_split s
    cases hs1 : dropWs s with
    | nil =>
      rw [hs1] at h es
      have := linesS_nil_eq _ _ h
      subst this
      rw [List.append_nil] at es
      rw [es]
      exact finishS_eof (.blank ws) hws
    | cons b r =>
      rw [hs1] at h es
      rw [linesS] at h
      simp only [] at h
      split at h
      · -- comment
        rename_i hb
        have hb' : b = 0x23 := by simpa using hb
        subst hb'
        obtain ⟨body, hbody, eb⟩ := dropComment_split r
        have hwf : (QLine.comment ws body).WF := ⟨hws, hbody⟩
        have hT : ∃ T r1, r = body ++ T ∧ LineEnd T r1 ∧ (T = [] → l = []) ∧
            (T ≠ [] → linesS f (dropWs r1) = some l) := by
          split at h
          · rename_i hdc
            injection h with h
            exact ⟨[], [], by rw [eb, hdc], .eof, fun _ => h.symm, fun hne => absurd rfl hne⟩
          · rename_i hne
            split at h
            · rename_i r2 hnl
              obtain ⟨c, ec⟩ := newline_split _ _ hnl
              refine ⟨nlBytes c ++ r2, r2, by rw [← ec]; exact eb, .nl c r2, ?_, fun _ => h⟩
              intro he
              cases c <;> simp [nlBytes] at he
            · cases h
        obtain ⟨T, r1, er, hT, h1, h2⟩ := hT
        have e : s = (QLine.comment ws body).render ++ T := by
          rw [es, er]; simp [QLine.render]
        rw [e]
        cases hT with
        | eof =>
          have := h1 rfl
          subst this
          rw [List.append_nil]
          exact finishS_eof _ hwf
        | nl c =>
          have hne : nlBytes c ++ r1 ≠ [] := by cases c <;> simp [nlBytes]
          exact finishS_nl _ c r1 l hwf (ih l r1 (h2 hne))
      · split at h
        · -- header
          rename_i hb0 hb
          have hb' : b = 0x5B := by simpa using hb
          subst hb'
          split at h
          · rename_i x r1 htl
            obtain ⟨rest, hrest, rfl⟩ := map_cons_some _ _ _ h
            obtain ⟨k, w2, cm, T, hkwf, hw2, hcm, hT, hor⟩ := tableStmt_sound _ _ _ htl
            rcases hor with ⟨e, rfl⟩ | ⟨e, rfl⟩
            · have hwf : (QLine.std [] k w2 cm).WF := ⟨allWs_nil, hkwf, hw2, hcm⟩
              have := finishS f ih (addWs ws (.std [] k w2 cm)) T r1 rest (addWs_wf _ _ hws hwf) hT hrest
              rw [addWs_render, List.append_assoc, ← e, ← es, consStmt_addWs] at this
              exact this
            · have hwf : (QLine.aot [] k w2 cm).WF := ⟨allWs_nil, hkwf, hw2, hcm⟩
              have := finishS f ih (addWs ws (.aot [] k w2 cm)) T r1 rest (addWs_wf _ _ hws hwf) hT hrest
              rw [addWs_render, List.append_assoc, ← e, ← es, consStmt_addWs] at this
              exact this
          · cases h
        · split at h
          · -- empty line
            split at h
            · rename_i r1 hnl
              obtain ⟨c, ec⟩ := newline_split _ _ hnl
              have := finishS_nl (.blank ws) c r1 l hws (ih l r1 h)
              rw [QLine.render, ← ec, ← es] at this
              exact this
            · cases h
          · -- key = value
            split at h
            · rename_i x r1 hkv
              obtain ⟨rest, hrest, rfl⟩ := map_cons_some _ _ _ h
              obtain ⟨k, w1, v, w2, cm, T, hwf, e, hT, rfl⟩ := keyvalStmt_sound _ _ _ hkv
              have := finishS f ih (addWs ws (.keyval k w1 v w2 cm)) T r1 rest (addWs_wf _ _ hws hwf) hT hrest
              rw [addWs_render, List.append_assoc, ← e, ← es, consStmt_addWs] at this
              exact this
            · cases h

/-- **the grammar, recognised**: `stmtsOfText` returns `l` exactly when the text is the rendering of a well-formed
    tree with statements `l` -/
theorem stmtsOfText_iff (s : Bytes) (l : List Stmt) :
    stmtsOfText s = some l ↔ ∃ d : QDoc, d.WF ∧ d.render = s ∧ d.stmts = l := by
  constructor
  · intro h
    unfold stmtsOfText at h
    simp only [] at h
    obtain ⟨ls, last, h1, h2, h3, h4⟩ := linesS_sound _ _ _ h
    rcases stripBom_cases s with ⟨r, es, eb⟩ | eb
    · refine ⟨⟨true, ls, last⟩, ⟨h1, h2⟩, ?_, h4⟩
      rw [eb] at h3
      rw [es, h3]; rfl
    · refine ⟨⟨false, ls, last⟩, ⟨h1, h2⟩, ?_, h4⟩
      rw [eb] at h3
      rw [h3]; rfl
  · rintro ⟨d, hwf, rfl, rfl⟩
    exact stmtsOfText_render d hwf

end TomlVerif.Lemmas.SoundDoc01U
