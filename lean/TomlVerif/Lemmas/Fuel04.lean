import TomlVerif.Model.Doc
/-! Fuel is never the reason for a rejection: beyond the bound the callers pass, the result of every
    fuelled loop of the model no longer depends on the fuel.  Part 1: lengths, strings, trivia, keys. -/
namespace TomlVerif.Lemmas.Fuel04
open TomlVerif TomlVerif.Spec TomlVerif.Model TomlVerif.Model.Strings TomlVerif.Model.Value

/-! ## the rest is never longer than the input -/

theorem newline_len (s r : Bytes) (h : newline? s = some r) : r.length < s.length := by
  unfold newline? at h
  split at h
  · injection h with h; subst h; simp
  · injection h with h; subst h; simp; omega
  · cases h

theorem dropWs_len (s : Bytes) : (dropWs s).length ≤ s.length := by
  induction s with
  | nil => simp [dropWs]
  | cons b r ih =>
    unfold dropWs
    split
    · simp; omega
    · simp

theorem dropWsNewline_len : ∀ (fuel : Nat) (s : Bytes), (dropWsNewline fuel s).length ≤ s.length := by
  intro fuel
  induction fuel with
  | zero => intro s; simp [dropWsNewline]
  | succ f ih =>
    intro s
    unfold dropWsNewline
    split
    · simp
    · rename_i b r
      split
      · have := ih r; simp; omega
      · split
        · rename_i r' hn
          have h1 := newline_len _ _ hn
          have h2 := ih r'
          omega
        · simp

theorem hexN_len : ∀ (n : Nat) (s : Bytes) (acc v : Nat) (r : Bytes), hexN n s acc = some (v, r) → r.length ≤ s.length := by
  intro n
  induction n with
  | zero => intro s acc v r h; simp [hexN] at h; rw [h.2]; omega
  | succ n ih =>
    intro s acc v r h
    cases s with
    | nil => simp [hexN] at h
    | cons b t =>
      unfold hexN at h
      split at h
      · have := ih _ _ _ _ h; simp; omega
      · cases h

theorem hexescape_len (n : Nat) (s c r : Bytes) (h : hexescape n s = .ok c r) : r.length ≤ s.length := by
  unfold hexescape at h
  split at h
  · rename_i cp r' hh
    split at h
    · injection h with _ h; subst h; exact hexN_len _ _ _ _ _ hh
    · cases h
  · cases h

theorem escapeSeqChar_len (s c r : Bytes) (h : escapeSeqChar s = .ok c r) : r.length < s.length := by
  unfold escapeSeqChar at h
  split at h
  · cases h
  · rename_i b t
    repeat' split at h
    all_goals first
      | (injection h with _ h; subst h; simp)
      | (have := hexescape_len _ _ _ _ h; simp; omega)
      | cases h

theorem mlbEscapedNl_len (fuel : Nat) (s r : Bytes) (h : mlbEscapedNl fuel s = some r) : r.length < s.length := by
  unfold mlbEscapedNl at h
  split at h
  · rename_i r' hn
    injection h with h; subst h
    have h1 := newline_len _ _ hn
    have h2 := dropWs_len s
    have h3 := dropWsNewline_len fuel r'
    omega
  · cases h

/-! ## strings -/

theorem basicBody_fuel : ∀ (f₁ f₂ : Nat) (s acc : Bytes), s.length < f₁ → s.length < f₂ →
    basicBody f₁ s acc = basicBody f₂ s acc := by
  intro f₁
  induction f₁ with
  | zero => intro f₂ s acc h; omega
  | succ g₁ ih =>
    intro f₂ s acc h1 h2
    obtain ⟨g₂, rfl⟩ : ∃ g, f₂ = g + 1 := ⟨f₂ - 1, by omega⟩
    cases s with
    | nil => simp [basicBody]
    | cons b r =>
      simp only [List.length_cons] at h1 h2
      unfold basicBody
      simp only []
      split
      · exact ih g₂ r _ (by omega) (by omega)
      · split
        · cases he : escapeSeqChar r with
          | ok c r' =>
            have := escapeSeqChar_len _ _ _ he
            simp only []
            exact ih g₂ r' _ (by omega) (by omega)
          | bt => rfl
          | cut => rfl
        · rfl

theorem mlBasicBody_fuel : ∀ (f₁ f₂ : Nat) (s acc : Bytes), s.length < f₁ → s.length < f₂ →
    mlBasicBody f₁ s acc = mlBasicBody f₂ s acc := by
  intro f₁
  induction f₁ with
  | zero => intro f₂ s acc h; omega
  | succ g₁ ih =>
    intro f₂ s acc h1 h2
    obtain ⟨g₂, rfl⟩ : ∃ g, f₂ = g + 1 := ⟨f₂ - 1, by omega⟩
    cases s with
    | nil => simp [mlBasicBody]
    | cons b r =>
      simp only [List.length_cons] at h1 h2
      unfold mlBasicBody
      simp only []
      split
      · exact ih g₂ r _ (by omega) (by omega)
      · split
        · cases hm : mlbEscapedNl (r.length + 1) r with
          | some r' =>
            have := mlbEscapedNl_len _ _ _ hm
            simp only []
            exact ih g₂ r' _ (by omega) (by omega)
          | none =>
            simp only []
            cases he : escapeSeqChar r with
            | ok c r' =>
              have := escapeSeqChar_len _ _ _ he
              simp only []
              exact ih g₂ r' _ (by omega) (by omega)
            | bt => rfl
            | cut => rfl
        · split
          · split
            · rfl
            · split
              · rfl
              · exact ih g₂ r _ (by omega) (by omega)
          · cases hn : newline? (b :: r) with
            | some r' =>
              have := newline_len _ _ hn
              simp only [List.length_cons] at this
              simp only []
              exact ih g₂ r' _ (by omega) (by omega)
            | none => rfl

theorem mlLiteralBody_fuel : ∀ (f₁ f₂ : Nat) (s acc : Bytes), s.length < f₁ → s.length < f₂ →
    mlLiteralBody f₁ s acc = mlLiteralBody f₂ s acc := by
  intro f₁
  induction f₁ with
  | zero => intro f₂ s acc h; omega
  | succ g₁ ih =>
    intro f₂ s acc h1 h2
    obtain ⟨g₂, rfl⟩ : ∃ g, f₂ = g + 1 := ⟨f₂ - 1, by omega⟩
    cases s with
    | nil => simp [mlLiteralBody]
    | cons b r =>
      simp only [List.length_cons] at h1 h2
      unfold mlLiteralBody
      simp only []
      split
      · exact ih g₂ r _ (by omega) (by omega)
      · split
        · split
          · rfl
          · split
            · rfl
            · exact ih g₂ r _ (by omega) (by omega)
        · cases hn : newline? (b :: r) with
          | some r' =>
            have := newline_len _ _ hn
            simp only [List.length_cons] at this
            simp only []
            exact ih g₂ r' _ (by omega) (by omega)
          | none => rfl


/-! ## trivia -/

theorem dropComment_len (s : Bytes) : (dropComment s).length ≤ s.length := by
  induction s with
  | nil => simp [dropComment]
  | cons b r ih =>
    unfold dropComment
    split
    · simp; omega
    · simp

theorem wcn_fuel : ∀ (f₁ f₂ : Nat) (s : Bytes), s.length < f₁ → s.length < f₂ →
    wsCommentNewline f₁ s = wsCommentNewline f₂ s := by
  intro f₁
  induction f₁ with
  | zero => intro f₂ s h; omega
  | succ g₁ ih =>
    intro f₂ s h1 h2
    obtain ⟨g₂, rfl⟩ : ∃ g, f₂ = g + 1 := ⟨f₂ - 1, by omega⟩
    unfold wsCommentNewline
    simp only []
    have hd := dropWs_len s
    cases hs : dropWs s with
    | nil => rfl
    | cons b r =>
      rw [hs] at hd
      simp only [List.length_cons] at hd
      simp only []
      split
      · cases hn : newline? (dropComment r) with
        | none => rfl
        | some r' =>
          have := newline_len _ _ hn
          have := dropComment_len r
          simp only []
          exact ih g₂ r' (by omega) (by omega)
      · split
        · cases hn : newline? (b :: r) with
          | none => rfl
          | some r' =>
            have := newline_len _ _ hn
            simp only [List.length_cons] at this
            simp only []
            exact ih g₂ r' (by omega) (by omega)
        · rfl

theorem wcn_len : ∀ (f : Nat) (s r : Bytes), wsCommentNewline f s = some r → r.length ≤ s.length := by
  intro f
  induction f with
  | zero => intro s r h; simp [wsCommentNewline] at h; subst h; omega
  | succ g ih =>
    intro s r h
    unfold wsCommentNewline at h
    simp only [] at h
    have hd := dropWs_len s
    cases hs : dropWs s with
    | nil => rw [hs] at h; simp at h; subst h; simp
    | cons b t =>
      rw [hs] at h hd
      simp only [List.length_cons] at hd
      simp only [] at h
      split at h
      · cases hn : newline? (dropComment t) with
        | none => rw [hn] at h; cases h
        | some r' =>
          rw [hn] at h
          simp only [] at h
          have := newline_len _ _ hn
          have := dropComment_len t
          have := ih _ _ h
          omega
      · split at h
        · cases hn : newline? (b :: t) with
          | none => rw [hn] at h; cases h
          | some r' =>
            rw [hn] at h
            simp only [] at h
            have := newline_len _ _ hn
            simp only [List.length_cons] at this
            have := ih _ _ h
            omega
        · injection h with h; subst h; simp; omega

/-! ## strings and keys consume at least one byte -/

theorem basicBody_len : ∀ (f : Nat) (s acc v r : Bytes), basicBody f s acc = .ok v r → r.length < s.length := by
  intro f
  induction f with
  | zero => intro s acc v r h; simp [basicBody] at h
  | succ g ih =>
    intro s acc v r h
    cases s with
    | nil => simp [basicBody] at h
    | cons b t =>
      unfold basicBody at h
      simp only [] at h
      split at h
      · have := ih _ _ _ _ h; simp; omega
      · split at h
        · cases he : escapeSeqChar t with
          | ok c r' =>
            rw [he] at h
            simp only [] at h
            have := escapeSeqChar_len _ _ _ he
            have := ih _ _ _ _ h
            simp; omega
          | bt => rw [he] at h; cases h
          | cut => rw [he] at h; cases h
        · split at h
          · injection h with _ h; subst h; simp
          · cases h

theorem basicString_len (s v r : Bytes) (h : basicString s = .ok v r) : r.length < s.length := by
  unfold basicString at h
  split at h
  · have := basicBody_len _ _ _ _ _ h; simp; omega
  · cases h

theorem takeLiteral_len (s : Bytes) : (takeLiteral s).2.length ≤ s.length := by
  induction s with
  | nil => simp [takeLiteral]
  | cons b r ih =>
    unfold takeLiteral
    split
    · simp; omega
    · simp

theorem literalString_len (s v r : Bytes) (h : literalString s = .ok v r) : r.length < s.length := by
  unfold literalString at h
  split at h
  · rename_i t
    split at h
    · rename_i body t' ht
      injection h with _ h; subst h
      have := takeLiteral_len t
      rw [ht] at this
      simp at this ⊢; omega
    · cases h
  · cases h

theorem takeUnquoted_len (s : Bytes) : (Key.takeUnquoted s).2.length ≤ s.length ∧
    ((Key.takeUnquoted s).1 ≠ [] → (Key.takeUnquoted s).2.length < s.length) := by
  induction s with
  | nil => simp [Key.takeUnquoted]
  | cons b r ih =>
    unfold Key.takeUnquoted
    split
    · simp; omega
    · simp

theorem unquotedKey_len (s v r : Bytes) (h : Key.unquotedKey s = .ok v r) : r.length < s.length := by
  unfold Key.unquotedKey at h
  split at h
  · cases h
  · rename_i k r' hne ht
    injection h with h1 h2; subst h1; subst h2
    have := (takeUnquoted_len s).2
    rw [ht] at this
    exact this (by intro hk; simp at hk; subst hk; exact hne rfl)

theorem simpleKey_len (s v r : Bytes) (h : Key.simpleKey s = .ok v r) : r.length < s.length := by
  unfold Key.simpleKey at h
  split at h
  · cases h
  · split at h
    · exact basicString_len _ _ _ h
    · split at h
      · exact literalString_len _ _ _ h
      · exact unquotedKey_len _ _ _ h

/-! ## dotted keys -/

theorem keyPathAux_fuel : ∀ (f₁ f₂ : Nat) (s : Bytes) (acc : List Bytes), s.length < f₁ → s.length < f₂ →
    keyPathAux f₁ s acc = keyPathAux f₂ s acc := by
  intro f₁
  induction f₁ with
  | zero => intro f₂ s acc h; omega
  | succ g₁ ih =>
    intro f₂ s acc h1 h2
    obtain ⟨g₂, rfl⟩ : ∃ g, f₂ = g + 1 := ⟨f₂ - 1, by omega⟩
    unfold keyPathAux
    cases hk : Key.simpleKey (dropWs s) with
    | bt => rfl
    | cut => rfl
    | ok k r =>
      have := simpleKey_len _ _ _ hk
      have := dropWs_len s
      have hd := dropWs_len r
      simp only []
      split
      · rename_i r2 heq
        rw [heq] at hd
        simp only [List.length_cons] at hd
        rw [ih g₂ r2 _ (by omega) (by omega)]
      · rfl


/-! ## the other string forms -/

theorem countLeading_le (q : Byte) (s : Bytes) : countLeading q s ≤ s.length := by
  induction s with
  | nil => simp [countLeading]
  | cons b r ih => unfold countLeading; split <;> simp <;> omega

theorem mlBasicBody_len : ∀ (f : Nat) (s acc v r : Bytes), mlBasicBody f s acc = .ok v r → r.length < s.length := by
  intro f
  induction f with
  | zero => intro s acc v r h; simp [mlBasicBody] at h
  | succ g ih =>
    intro s acc v r h
    cases s with
    | nil => simp [mlBasicBody] at h
    | cons b t =>
      unfold mlBasicBody at h
      simp only [] at h
      split at h
      · have := ih _ _ _ _ h; simp; omega
      · split at h
        · cases hm : mlbEscapedNl (t.length + 1) t with
          | some r' =>
            rw [hm] at h
            simp only [] at h
            have := mlbEscapedNl_len _ _ _ hm
            have := ih _ _ _ _ h
            simp; omega
          | none =>
            rw [hm] at h
            simp only [] at h
            cases he : escapeSeqChar t with
            | ok c r' =>
              rw [he] at h
              simp only [] at h
              have := escapeSeqChar_len _ _ _ he
              have := ih _ _ _ _ h
              simp; omega
            | bt => rw [he] at h; cases h
            | cut => rw [he] at h; cases h
        · split at h
          · split at h
            · rename_i h3
              injection h with _ h; subst h
              have := countLeading_le 0x22 (b :: t)
              simp only [List.length_drop, List.length_cons] at this ⊢
              omega
            · split at h
              · cases h
              · have := ih _ _ _ _ h; simp; omega
          · cases hn : newline? (b :: t) with
            | some r' =>
              rw [hn] at h
              simp only [] at h
              have := newline_len _ _ hn
              have := ih _ _ _ _ h
              omega
            | none => rw [hn] at h; cases h

theorem mlLiteralBody_len : ∀ (f : Nat) (s acc v r : Bytes), mlLiteralBody f s acc = .ok v r → r.length < s.length := by
  intro f
  induction f with
  | zero => intro s acc v r h; simp [mlLiteralBody] at h
  | succ g ih =>
    intro s acc v r h
    cases s with
    | nil => simp [mlLiteralBody] at h
    | cons b t =>
      unfold mlLiteralBody at h
      simp only [] at h
      split at h
      · have := ih _ _ _ _ h; simp; omega
      · split at h
        · split at h
          · rename_i h3
            injection h with _ h; subst h
            have := countLeading_le 0x27 (b :: t)
            simp only [List.length_drop, List.length_cons] at this ⊢
            omega
          · split at h
            · cases h
            · have := ih _ _ _ _ h; simp; omega
        · cases hn : newline? (b :: t) with
          | some r' =>
            rw [hn] at h
            simp only [] at h
            have := newline_len _ _ hn
            have := ih _ _ _ _ h
            omega
          | none => rw [hn] at h; cases h

theorem newline_getD_len (r : Bytes) : ((newline? r).getD r).length ≤ r.length := by
  cases hn : newline? r with
  | none => simp
  | some r' => have := newline_len _ _ hn; simp; omega

theorem mlBasicString_len (s v r : Bytes) (h : mlBasicString s = .ok v r) : r.length < s.length := by
  unfold mlBasicString at h
  split at h
  · rename_i t
    simp only [] at h
    have := mlBasicBody_len _ _ _ _ _ h
    have := newline_getD_len t
    simp; omega
  · cases h

theorem mlLiteralString_len (s v r : Bytes) (h : mlLiteralString s = .ok v r) : r.length < s.length := by
  unfold mlLiteralString at h
  split at h
  · rename_i t
    simp only [] at h
    have := mlLiteralBody_len _ _ _ _ _ h
    have := newline_getD_len t
    simp; omega
  · cases h

theorem string_len (s v r : Bytes) (h : Strings.string s = .ok v r) : r.length < s.length := by
  unfold Strings.string at h
  cases h1 : mlBasicString s with
  | ok v1 r1 => rw [h1] at h; simp only [] at h; rw [h] at h1; exact mlBasicString_len _ _ _ h1
  | cut => rw [h1] at h; cases h
  | bt =>
    rw [h1] at h; simp only [] at h
    cases h2 : basicString s with
    | ok v1 r1 => rw [h2] at h; simp only [] at h; rw [h] at h2; exact basicString_len _ _ _ h2
    | cut => rw [h2] at h; cases h
    | bt =>
      rw [h2] at h; simp only [] at h
      cases h3 : mlLiteralString s with
      | ok v1 r1 => rw [h3] at h; simp only [] at h; rw [h] at h3; exact mlLiteralString_len _ _ _ h3
      | cut => rw [h3] at h; cases h
      | bt => rw [h3] at h; simp only [] at h; exact literalString_len _ _ _ h


/-! ## `ws_newline` inside a line-ending backslash -/

theorem dropWsNewline_fuel : ∀ (f₁ f₂ : Nat) (s : Bytes), s.length < f₁ → s.length < f₂ →
    dropWsNewline f₁ s = dropWsNewline f₂ s := by
  intro f₁
  induction f₁ with
  | zero => intro f₂ s h; omega
  | succ g₁ ih =>
    intro f₂ s h1 h2
    obtain ⟨g₂, rfl⟩ : ∃ g, f₂ = g + 1 := ⟨f₂ - 1, by omega⟩
    cases s with
    | nil => simp [dropWsNewline]
    | cons b r =>
      simp only [List.length_cons] at h1 h2
      unfold dropWsNewline
      simp only []
      split
      · exact ih g₂ r (by omega) (by omega)
      · cases hn : newline? (b :: r) with
        | none => rfl
        | some r' =>
          have := newline_len _ _ hn
          simp only [List.length_cons] at this
          simp only []
          exact ih g₂ r' (by omega) (by omega)

theorem mlbEscapedNl_fuel (f₁ f₂ : Nat) (s : Bytes) (h1 : s.length ≤ f₁) (h2 : s.length ≤ f₂) :
    mlbEscapedNl f₁ s = mlbEscapedNl f₂ s := by
  unfold mlbEscapedNl
  cases hn : newline? (dropWs s) with
  | none => rfl
  | some r =>
    have := newline_len _ _ hn
    have := dropWs_len s
    simp only []
    rw [dropWsNewline_fuel f₁ f₂ r (by omega) (by omega)]

end TomlVerif.Lemmas.Fuel04
