import TomlVerif.Lemmas.SerTyped07f
/-! C07, reading back, part 7: facts about the serde calls `serOf` describes — date-time structs occur only as
    `toml_datetime` produces them (`serOf_wfDatetime`), the root is the date-time struct only for the date-time types
    (`serOf_datetimeRoot`) — and distinct keys of the serializer's tree as a `toml::Value`-shaped tree. -/
namespace TomlVerif.Lemmas.SerTyped07
open TomlVerif TomlVerif.Model TomlVerif.Model.TomlValue TomlVerif.Model.DeRoutes TomlVerif.Model.DeTyped
open TomlVerif.Model.SerTyped TomlVerif.Model.Ser TomlVerif.Spec TomlVerif.Spec.Serde
open TomlVerif.Lemmas.Ser07Text TomlVerif.Lemmas.Ser07
open TomlVerif.Lemmas.RoundTrip17 (NodupTV NodupVs NodupPs)

theorem dtShapeList_mapO {α} (f : α → Option SVal) (hf : ∀ a v, f a = some v → dtShape true v = true) :
    ∀ (l : List α) (vs : List SVal), mapO f l = some vs → dtShapeList true vs = true
  | [], vs, h => by simp only [mapO, Option.some.injEq] at h; subst h; rfl
  | a :: r, vs, h => by
    obtain ⟨b, l', rfl, hb, hl⟩ := mapO_cons f a r vs h
    simp [dtShapeList, hf a b hb, dtShapeList_mapO f hf r l' hl]

theorem dtShapeMap_mapO {α} (f : α → Option (SVal × SVal)) (hf : ∀ a kv, f a = some kv → dtShape true kv.2 = true) :
    ∀ (l : List α) (kvs : List (SVal × SVal)), mapO f l = some kvs → dtShapeMap true kvs = true
  | [], vs, h => by simp only [mapO, Option.some.injEq] at h; subst h; rfl
  | a :: r, vs, h => by
    obtain ⟨b, l', rfl, hb, hl⟩ := mapO_cons f a r vs h
    obtain ⟨k, v⟩ := b
    simp [dtShapeMap, hf a (k, v) hb, dtShapeMap_mapO f hf r l' hl]

mutual
theorem serOf_wfDatetime (nm : Bytes) (hnm : (nm == dtName) = false) : ∀ (ty : Ty) (d : Dec) (v : SVal),
    hasValue ty = false → serOf nm ty d = some v → dtShape true v = true
  | .bool, d, v, _, h => by cases d <;> simp [serOf] at h; subst h; rfl
  | .int _ _, d, v, _, h => by cases d <;> simp [serOf] at h; subst h; rfl
  | .f64, d, v, _, h => by cases d <;> simp [serOf] at h; subst h; rfl
  | .f32, d, v, _, h => by cases d <;> simp [serOf] at h; subst h; rfl
  | .string, d, v, _, h => by cases d <;> simp [serOf] at h; subst h; rfl
  | .char, d, v, _, h => by
    cases d <;> simp [serOf] at h
    obtain ⟨_, _, h⟩ := h; subst h; rfl
  | .unit, d, v, _, h => by cases d <;> simp [serOf] at h; subst h; rfl
  | .datetime, d, v, _, h => by
    cases d <;> simp [serOf] at h; subst h; simp [dtShape, isDtFields]
  | .date, d, v, _, h => by
    cases d <;> simp [serOf] at h; subst h; simp [dtShape, isDtFields]
  | .time, d, v, _, h => by
    cases d <;> simp [serOf] at h; subst h; simp [dtShape, isDtFields]
  | .value, _, _, hv, _ => by simp [hasValue] at hv
  | .ignored, d, v, _, h => by cases d <;> simp [serOf] at h
  | .option t, d, v, hv, h => by
    cases d <;> simp [serOf] at h
    · subst h; rfl
    · obtain ⟨v', hv', rfl⟩ := h
      simp only [dtShape]
      exact serOf_wfDatetime nm hnm t _ v' (by simpa [hasValue] using hv) hv'
  | .newtype t, d, v, hv, h => by
    cases d <;> simp [serOf] at h
    obtain ⟨v', hv', rfl⟩ := h
    simp only [dtShape]
    exact serOf_wfDatetime nm hnm t _ v' (by simpa [hasValue] using hv) hv'
  | .seq t, d, v, hv, h => by
    cases d <;> simp [serOf] at h
    obtain ⟨vs, hvs, rfl⟩ := h
    simp only [dtShape]
    exact dtShapeList_mapO _ (fun a v' ha => serOf_wfDatetime nm hnm t a v' (by simpa [hasValue] using hv) ha) _ vs hvs
  | .tuple ts, d, v, hv, h => by
    cases d <;> simp [serOf] at h
    obtain ⟨vs, hvs, rfl⟩ := h
    simp only [dtShape]
    exact serOfTys_wf nm hnm ts _ vs (by simpa [hasValue] using hv) hvs
  | .map t, d, v, hv, h => by
    cases d <;> simp [serOf] at h
    obtain ⟨kvs, hkvs, rfl⟩ := h
    simp only [dtShape]
    refine dtShapeMap_mapO _ ?_ _ kvs hkvs
    intro a kv ha
    simp only [Option.map_eq_some_iff] at ha
    obtain ⟨v', hv', rfl⟩ := ha
    exact serOf_wfDatetime nm hnm t a.2 v' (by simpa [hasValue] using hv) hv'
  | .struct fs, d, v, hv, h => by
    cases d <;> simp [serOf] at h
    obtain ⟨fields, hf, rfl⟩ := h
    simp only [dtShape, hnm, Bool.false_eq_true, if_false]
    exact serOfFields_wf nm hnm fs _ fields (by simpa [hasValue] using hv) hf
  | .enum vs, d, v, hv, h => by
    simp only [serOf] at h
    exact serOfVariants_wf nm hnm vs d v (by simpa [hasValue] using hv) h
theorem serOfTys_wf (nm : Bytes) (hnm : (nm == dtName) = false) : ∀ (ts : Tys) (l : List Dec) (vs : List SVal),
    hasValueTys ts = false → serOfTys nm ts l = some vs → dtShapeList true vs = true
  | .nil, l, vs, _, h => by cases l <;> simp [serOfTys] at h; subst h; rfl
  | .cons t r, l, vs, hv, h => by
    simp only [hasValueTys, Bool.or_eq_false_iff] at hv
    cases l with
    | nil => simp [serOfTys] at h
    | cons d l =>
      unfold serOfTys at h
      split at h
      · rename_i v vs' h1 h2
        injection h with h; subst h
        simp [dtShapeList, serOf_wfDatetime nm hnm t d v hv.1 h1, serOfTys_wf nm hnm r l vs' hv.2 h2]
      · cases h
theorem serOfFields_wf (nm : Bytes) (hnm : (nm == dtName) = false) : ∀ (fs : Fields) (l : List (Bytes × Dec))
    (fields : List (Bytes × SVal)), hasValueFields fs = false → serOfFields nm fs l = some fields →
    dtShapeFields true fields = true
  | .nil, l, vs, _, h => by cases l <;> simp [serOfFields] at h; subst h; rfl
  | .cons name t dflt r, l, vs, hv, h => by
    simp only [hasValueFields, Bool.or_eq_false_iff] at hv
    cases l with
    | nil => simp [serOfFields] at h
    | cons kd l =>
      obtain ⟨k, d⟩ := kd
      unfold serOfFields at h
      split at h
      · rename_i v vs' h1 h2
        injection h with h; subst h
        simp [dtShapeFields, serOf_wfDatetime nm hnm t d v hv.1 h1, serOfFields_wf nm hnm r l vs' hv.2 h2]
      · cases h
theorem serOfShape_wf (nm : Bytes) (hnm : (nm == dtName) = false) : ∀ (s : Shape) (n : Bytes) (d : Dec) (v : SVal),
    hasValueShape s = false → serOfShape nm s n d = some v → dtShape true v = true
  | .unit, n, d, v, _, h => by cases d <;> simp [serOfShape] at h; subst h; rfl
  | .newtype t, n, d, v, hv, h => by
    cases d <;> simp [serOfShape] at h
    obtain ⟨v', hv', rfl⟩ := h
    simp only [dtShape]
    exact serOf_wfDatetime nm hnm t _ v' (by simpa [hasValueShape] using hv) hv'
  | .tuple ts, n, d, v, hv, h => by
    cases d <;> simp [serOfShape] at h
    obtain ⟨vs, hvs, rfl⟩ := h
    simp only [dtShape]
    exact serOfTys_wf nm hnm ts _ vs (by simpa [hasValueShape] using hv) hvs
  | .struct fs, n, d, v, hv, h => by
    cases d <;> simp [serOfShape] at h
    obtain ⟨fields, hf, rfl⟩ := h
    simp only [dtShape]
    exact serOfFields_wf nm hnm fs _ fields (by simpa [hasValueShape] using hv) hf
theorem serOfVariants_wf (nm : Bytes) (hnm : (nm == dtName) = false) : ∀ (vs : Variants) (d : Dec) (v : SVal),
    hasValueVariants vs = false → serOfVariants nm vs d = some v → dtShape true v = true
  | .nil, d, v, _, h => by simp [serOfVariants] at h
  | .cons name s r, d, v, hv, h => by
    simp only [hasValueVariants, Bool.or_eq_false_iff] at hv
    unfold serOfVariants at h
    split at h
    all_goals first
      | (split at h
         · exact serOfShape_wf nm hnm s name _ v hv.1 h
         · exact serOfVariants_wf nm hnm r _ v hv.2 h)
      | cases h
end

/-- date-time types: the only ones whose `Serialize` impl hands over the private struct at the root -/
def isDtTy : Ty → Bool
  | .datetime => true
  | .date => true
  | .time => true
  | _ => false

theorem serOfShape_root (nm : Bytes) (s : Shape) (n : Bytes) (d : Dec) (v : SVal) (h : serOfShape nm s n d = some v) :
    datetimeRoot v = false := by
  cases s <;> cases d <;> simp [serOfShape] at h
  · subst h; rfl
  · obtain ⟨_, _, h⟩ := h; subst h; rfl
  · obtain ⟨_, _, h⟩ := h; subst h; rfl
  · obtain ⟨_, _, h⟩ := h; subst h; rfl

theorem serOfVariants_root (nm : Bytes) : ∀ (vs : Variants) (d : Dec) (v : SVal), serOfVariants nm vs d = some v →
    datetimeRoot v = false
  | .nil, d, v, h => by simp [serOfVariants] at h
  | .cons name s r, d, v, h => by
    unfold serOfVariants at h
    split at h
    all_goals first
      | (split at h
         · exact serOfShape_root nm s name _ v h
         · exact serOfVariants_root nm r _ v h)
      | cases h

set_option maxHeartbeats 1000000 in
theorem serOf_datetimeRoot (nm : Bytes) (hnm : (nm == dtName) = false) (t : Ty) (d : Dec) (v : SVal)
    (hv : hasValue t = false) (ht : isDtTy t = false) (h : serOf nm t d = some v) : datetimeRoot v = false := by
  cases t <;> cases d <;> simp [serOf] at h <;>
    first
    | (simp [isDtTy] at ht; done)
    | (simp [hasValue] at hv; done)
    | (subst h; simp [datetimeRoot]; done)
    | (obtain ⟨_, _, h⟩ := h; subst h; simp [datetimeRoot, hnm]; done)
    | (exact serOfVariants_root nm _ _ v h)
    | (rw [serOfVariants_dnone] at h; cases h)

/-! ## distinct keys -/

mutual
theorem nodupTV_tvOf : ∀ x : V, NodupS x → NodupTV (tvOf x)
  | .sc (.str _), _ => by simp [tvOf, NodupTV]
  | .sc (.int _), _ => by simp [tvOf, NodupTV]
  | .sc (.float _), _ => by simp [tvOf, NodupTV]
  | .sc (.bool _), _ => by simp [tvOf, NodupTV]
  | .sc (.dt _), _ => by simp [tvOf, NodupTV]
  | .arr xs, h => by simp only [NodupS] at h; simp only [tvOf, NodupTV]; exact nodupVs_tvList xs h
  | .inl kvs, h => by
    simp only [NodupS] at h
    simp only [tvOf, NodupTV, keys_tvKVs]
    exact ⟨h.2, nodupPs_tvKVs kvs h.1⟩
theorem nodupVs_tvList : ∀ xs : List V, NodupSs xs → NodupVs (tvList xs)
  | [], _ => by simp [tvList, NodupVs]
  | x :: r, h => by
    simp only [NodupSs] at h
    simp only [tvList, NodupVs]
    exact ⟨nodupTV_tvOf x h.1, nodupVs_tvList r h.2⟩
theorem nodupPs_tvKVs : ∀ kvs : List (Bytes × V), NodupSKVs kvs → NodupPs (tvKVs kvs)
  | [], _ => by simp [tvKVs, NodupPs]
  | (k, x) :: r, h => by
    simp only [NodupSKVs] at h
    simp only [tvKVs, NodupPs]
    exact ⟨nodupTV_tvOf x h.1, nodupPs_tvKVs r h.2⟩
end

end TomlVerif.Lemmas.SerTyped07
