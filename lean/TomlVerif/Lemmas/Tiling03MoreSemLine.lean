import TomlVerif.Lemmas.Tiling03MoreSemBody
/-! C03, same data — lines: the pending trivia (`TrivOK`: after `stripCr`, blank and comment lines
    with LF ends followed by blanks), and the printed text of a key/value line and of a header
    line as renderings of well-formed grammar lines (`QLine`) with the statement the parser
    executes. -/
namespace TomlVerif.Lemmas.Tiling03More
open TomlVerif TomlVerif.Spec TomlVerif.Model TomlVerif.Model.Strings TomlVerif.Model.Value
open TomlVerif.Model.Cst TomlVerif.Model.Encode TomlVerif.Lemmas.Suffix03 TomlVerif.Lemmas.Cst03
open TomlVerif.Lemmas.LastByte03 TomlVerif.Lemmas.Tiling03 TomlVerif.Lemmas.Tiling03Hdr
open TomlVerif.Lemmas.Tiling03Nest TomlVerif.Lemmas.Tiling03More.VS
open TomlVerif.Spec.AstValue TomlVerif.Spec.AstValueQ TomlVerif.Spec.AstDoc TomlVerif.Spec.AstDocQ
open TomlVerif.Lemmas.Value01 (commentBytes)
open TomlVerif.Lemmas.State09 (Stmt)

/-! ### trivia -/

/-- well-formed lines without statement -/
def TrivLines (tl : List (QLine × Bool)) : Prop := ∀ p ∈ tl, p.1.WF ∧ p.1.stmt = none

/-- the pending trivia, CRs dropped: blank / comment lines (LF ends), then blanks -/
def TrivOK (tr : Bytes) : Prop :=
  ∃ tl w, TrivLines tl ∧ AllWs w ∧ stripCr tr = renderLinesQ tl ++ w

/-- the trivia at the end of the document: the last piece may be a comment without line end -/
def TrivEnd (tr : Bytes) : Prop :=
  ∃ tl l, TrivLines tl ∧ QLine.WF l ∧ l.stmt = none ∧ stripCr tr = renderLinesQ tl ++ l.render

theorem trivLines_nil : TrivLines [] := by intro p hp; cases hp

theorem trivLines_snoc {tl : List (QLine × Bool)} {l : QLine} {c : Bool} (h : TrivLines tl) (hw : l.WF)
    (hs : l.stmt = none) : TrivLines (tl ++ [(l, c)]) := by
  intro p hp
  rcases List.mem_append.1 hp with hp | hp
  · exact h p hp
  · simp only [List.mem_singleton] at hp; subst hp; exact ⟨hw, hs⟩

theorem triv_nil : TrivOK [] := ⟨[], [], trivLines_nil, allWs_nil, rfl⟩

theorem allWs_append {a b : Bytes} (ha : AllWs a) (hb : AllWs b) : AllWs (a ++ b) := by
  intro x hx
  rcases List.mem_append.1 hx with hx | hx
  · exact ha x hx
  · exact hb x hx

theorem triv_ws (tr x : Bytes) (h : TrivOK tr) (hx : AllWs x) : TrivOK (tr ++ x) := by
  obtain ⟨tl, w, h1, h2, h3⟩ := h
  refine ⟨tl, w ++ x, h1, allWs_append h2 hx, ?_⟩
  rw [stripCr_append, h3, allWs_strip x hx, List.append_assoc]

theorem renderLinesQ_one (l : QLine) : renderLinesQ [(l, false)] = l.render ++ [0x0A] := by
  simp [renderLinesQ, nlBytes]

theorem newline?_piece (s r : Bytes) (h : newline? s = some r) :
    ∃ nl, s = nl ++ r ∧ stripCr nl = [0x0A] := by
  unfold newline? at h
  split at h
  · injection h with h; subst h; exact ⟨[0x0A], rfl, by decide⟩
  · injection h with h; subst h; exact ⟨[0x0D, 0x0A], rfl, by decide⟩
  · cases h

theorem triv_nl (tr nl : Bytes) (h : TrivOK tr) (hnl : stripCr nl = [0x0A]) : TrivOK (tr ++ nl) := by
  obtain ⟨tl, w, h1, h2, h3⟩ := h
  refine ⟨tl ++ [(.blank w, false)], [], trivLines_snoc (l := .blank w) h1 h2 rfl, allWs_nil, ?_⟩
  rw [stripCr_append, h3, hnl, renderLinesQ_append, renderLinesQ_one]
  simp [QLine.render]

theorem stripCr_comment (body : Bytes) (hb : ∀ b ∈ body, isNonEol b = true) :
    stripCr (0x23 :: body) = 0x23 :: body := by
  apply stripCr_of_noCr
  intro b hb'
  rcases List.mem_cons.1 hb' with e | e
  · subst e; decide
  · exact nonEol_noCr body hb b e

theorem triv_comment (tr body nl : Bytes) (h : TrivOK tr) (hb : ∀ b ∈ body, isNonEol b = true)
    (hnl : stripCr nl = [0x0A]) : TrivOK (tr ++ (0x23 :: body ++ nl)) := by
  obtain ⟨tl, w, h1, h2, h3⟩ := h
  refine ⟨tl ++ [(.comment w body, false)], [], trivLines_snoc (l := .comment w body) h1 ⟨h2, hb⟩ rfl, allWs_nil, ?_⟩
  rw [stripCr_append, stripCr_append, h3, hnl, stripCr_comment body hb, renderLinesQ_append, renderLinesQ_one]
  simp [QLine.render, List.append_assoc]

theorem triv_end (tr : Bytes) (h : TrivOK tr) : TrivEnd tr := by
  obtain ⟨tl, w, h1, h2, h3⟩ := h
  exact ⟨tl, .blank w, h1, h2, rfl, h3⟩

theorem triv_comment_eof (tr body : Bytes) (h : TrivOK tr) (hb : ∀ b ∈ body, isNonEol b = true) :
    TrivEnd (tr ++ 0x23 :: body) := by
  obtain ⟨tl, w, h1, h2, h3⟩ := h
  refine ⟨tl, .comment w body, h1, ⟨h2, hb⟩, rfl, ?_⟩
  rw [stripCr_append, h3, stripCr_comment body hb]
  simp [QLine.render, List.append_assoc]

/-! ### the end of a line -/

theorem trailEnd_split (s : Bytes) :
    ∃ w2 cm, AllWs w2 ∧ CommentOK cm ∧ s = w2 ++ commentBytes cm ++ trailEnd s := by
  obtain ⟨w, hw, es, _⟩ := Sound01.dropWs_split s
  unfold trailEnd
  simp only []
  split
  · rename_i r heq
    obtain ⟨body, hb, eb⟩ := Sound01.dropComment_split r
    refine ⟨w, some body, hw, ?_, ?_⟩
    · intro b' e; injection e with e; subst e; exact hb
    · conv => lhs; rw [es, heq, eb]
      simp [commentBytes, List.append_assoc]
  · exact ⟨w, none, hw, (fun b' e => by cases e), by simpa [commentBytes] using es⟩

theorem lineEnd_text (inp r2 : Bytes) (hr2 : r2 <:+ inp) :
    ∃ w2 cm, AllWs w2 ∧ CommentOK cm ∧
      encRaw stripCr inp (rawBetween inp.length r2 (trailEnd r2)) = w2 ++ commentBytes cm := by
  obtain ⟨w2, cm, h1, h2, h3⟩ := trailEnd_split r2
  refine ⟨w2, cm, h1, h2, ?_⟩
  simp only [encRaw]
  rw [rawText_between inp r2 (w2 ++ commentBytes cm) (trailEnd r2) hr2 h3, stripCr_append, allWs_strip w2 h1]
  cases cm with
  | none => rfl
  | some body => rw [show commentBytes (some body) = 0x23 :: body from rfl, stripCr_comment body (h2 body rfl)]

/-! ### limits -/

theorem ckeyPath_limit (n : Nat) (s r : Bytes) (ks : List CKey) (h : ckeyPath n s = .ok ks r) : ks.length < LIMIT := by
  unfold ckeyPath at h
  split at h
  · rename_i ks0 r0 _
    split at h
    · cases h
    · rename_i hl
      injection h with h1 _
      rw [← h1, fixLeaf_length]; omega
  · rename_i other _
    cases other <;> simp_all

theorem ckeyvalLine_limit (n : Nat) (st : CState) (s r : Bytes) (ks : List CKey) (p : CState × Bytes)
    (h : ckeyvalLine n st s = some p) (hk : ckeyPath n s = .ok ks r) : ks.length - 1 < LIMIT := by
  unfold ckeyvalLine at h
  rw [hk] at h
  simp only [] at h
  by_cases hl : LIMIT ≤ ks.length - 1
  · rw [if_pos hl] at h; cases h
  · omega

/-! ### keys -/

/-- a key without its leaf prefix -/
def key0 (k : CKey) : CKey := { k with leaf := { k.leaf with pre := none } }

theorem key0_GK (inp : Bytes) (k : CKey) (h : GKey inp k) : GKey inp (key0 k) := by
  refine ⟨h.1, h.2.1, ?_, ?_⟩
  · intro r hr; cases hr
  · intro r hr; exact h.2.2.2 r hr

theorem kpTail_key0 (f : Bytes → Bytes) (inp : Bytes) (path : List CKey) (key : CKey) (ds : Bytes) :
    kpTail f inp path (key0 key) ds = kpTail f inp path key ds := by
  cases path <;> simp [kpTail, key0, encodeKey, suffixEncode]

theorem qd_path_last (qd : QDKey) (pk : List Bytes) (k : Bytes) (h : qd.keys = pk ++ [k]) :
    qd.path = pk ∧ qd.last = k := by
  obtain ⟨h1, h2⟩ := splitKeys_dropLast (qd.more.map QKey.key) qd.first.key
  unfold QDKey.path QDKey.last
  have hk : qd.first.key :: qd.more.map QKey.key = pk ++ [k] := h
  rw [h1, h2, hk]
  simp

/-! ### the key/value line -/

theorem kv_line_q (inp : Bytes) (st : CState) (s r1 r2 tr : Bytes) (ks path X : List CKey) (key : CKey) (v : CVal)
    (hk : ckeyPath inp.length s = .ok ks (0x3D :: r1))
    (hv : cvalue inp.length (3 * r1.length + 4) (ks.length - 1) (dropWs r1) = .ok v r2)
    (hsl : splitLast ks = some (path, key)) (hlim : ks.length - 1 < LIMIT)
    (h5 : TrailIs inp.length st.trailing tr s) (htrs : tr ++ s <:+ inp) (htriv : TrivOK tr)
    (hX : keysOf X = keysOf path) (hXg : ∀ k ∈ X, GKey inp k) :
    ∃ tl line, TrivLines tl ∧ QLine.WF line ∧
      line.stmt = some (.kv (keysOf path) key.key (eraseVal v)) ∧
      encodeKeyPath stripCr inp (X ++ [kvKey st key]) [] [0x20] ++ [0x3D]
        ++ encodeValue stripCr inp (kvVal inp.length v r1 r2) [0x20] [] ++ [0x0A]
        = renderLinesQ (tl ++ [(line, false)]) := by
  have hs : s <:+ inp := (List.suffix_append tr s).trans htrs
  have hks := vsplitLast_some _ _ _ hsl
  have hkeyG : GKey inp key := ckeyPath_GK inp s _ ks hs hk key (by rw [hks]; simp)
  have hleaf := ckeyPath_leafPre inp s _ ks path key hs hk hsl
  obtain ⟨kw1, hkw1, ekw1, _⟩ := Sound01.dropWs_split s
  have hr1 : r1 <:+ inp := ((List.suffix_cons _ r1).trans (ckeyPath_suffix _ _ _ _ hk).1).trans hs
  obtain ⟨w1, hw1, ew1, _⟩ := Sound01.dropWs_split r1
  have hr1' : dropWs r1 <:+ inp := (Cst03.dropWs_suffix r1).trans hr1
  obtain ⟨tv, htv, _, hdec, _⟩ := cvalue_tiling inp _ _ _ _ _ hr1' hv
  have hr2 : r2 <:+ inp := (htv ▸ suffix_of_append tv r2).trans hr1'
  obtain ⟨q, q1, q2, q3, q4⟩ := cvalue_renderable inp _ _ _ _ _ hr1' hv
  obtain ⟨w2, cm, hw2, hcm, esuf⟩ := lineEnd_text inp r2 hr2
  obtain ⟨tl, w, t1, t2, t3⟩ := htriv
  -- the key
  have hall : ∀ k ∈ X ++ [key0 key], GKey inp k := by
    intro k hk'
    rcases List.mem_append.1 hk' with hk' | hk'
    · exact hXg k hk'
    · simp only [List.mem_singleton] at hk'; subst hk'; exact key0_GK inp key hkeyG
  obtain ⟨qd, d1, d2, d3, d4, d5⟩ := keyPath_q inp (w ++ kw1) [0x20] (allWs_append t2 hkw1) allWs_sp
    (X ++ [key0 key]) (by simp) hall
  have hlen : X.length + 1 = ks.length := by
    have := congrArg List.length hX
    simp only [keysOf, List.length_map] at this
    rw [hks, this]; simp
  have hqdwf : qd.WF := by
    refine ⟨d1, d2, ?_⟩
    have := ckeyPath_limit _ _ _ _ hk
    rw [d5]; simp only [List.length_append, List.length_singleton]; omega
  have hkeys : qd.keys = keysOf path ++ [key.key] := by
    rw [d4, keysOf_append, hX]; rfl
  obtain ⟨hp1, hp2⟩ := qd_path_last qd _ _ hkeys
  have hkp : encodeKeyPath stripCr inp (X ++ [kvKey st key]) [] [0x20] = renderLinesQ tl ++ qd.render := by
    rw [d3, encodeKeyPath_split, encodeKeyPath_split, kpTail_kvKey, kpTail_key0]
    have hl' : (kvKey st key).leaf.pre = some (takeTrailing (mergeSpan st.trailing (rawBetween inp.length s (dropWs s)).span)) := by
      unfold kvKey; simp only [hleaf]
    simp only [prefixEncode, hl', key0, encRaw]
    rw [mergePre_text inp st.trailing tr s kw1 (dropWs s) h5 htrs ekw1, stripCr_append, t3, allWs_strip kw1 hkw1]
    simp only [List.append_assoc]
  have hval : encodeValue stripCr inp (kvVal inp.length v r1 r2) [0x20] [] = w1 ++ (renderQ q ++ (w2 ++ commentBytes cm)) := by
    unfold kvVal
    rw [encodeValue_setDecor stripCr rfl inp v _ _ hdec [0x20] [] [] [], ← q2, esuf]
    simp only [encRaw]
    rw [rawText_between inp r1 w1 (dropWs r1) hr1 ew1, allWs_strip w1 hw1]
    simp only [List.append_assoc]
  refine ⟨tl, .keyval qd w1 q w2 cm, t1, ⟨hqdwf, hw1, q1, ?_, hw2, hcm⟩, ?_, ?_⟩
  · have hm : qd.more.length = ks.length - 1 := by
      simp only [List.length_append, List.length_singleton] at d5
      omega
    rw [hm]
    rcases q4 with q4 | q4
    · rw [q4]; omega
    · exact q4
  · simp only [QLine.stmt, hp1, hp2, q3]
  · rw [hkp, hval, renderLinesQ_append, renderLinesQ_one]
    simp only [QLine.render, List.append_assoc, List.cons_append, List.nil_append]

/-! ### the header line -/

theorem hdr_line_q (inp : Bytes) (a : Bool) (s r r2 tr : Bytes) (ks SP : List CKey) (trailing : Option Span)
    (hsr : s = (if a then [0x5B, 0x5B] else [0x5B]) ++ r)
    (hk : ckeyPath inp.length r = .ok ks ((if a then [0x5D, 0x5D] else [0x5D]) ++ r2))
    (h5 : TrailIs inp.length trailing tr s) (htrs : tr ++ s <:+ inp) (htriv : TrivOK tr)
    (hSP : keysOf SP = keysOf ks) (hSPg : ∀ k ∈ SP, GKey inp k) (hne : SP ≠ []) :
    ∃ tl line, TrivLines tl ∧ QLine.WF line ∧
      line.stmt = some (if a then .arr (keysOf ks) else .std (keysOf ks)) ∧
      hdrText stripCr inp (Decor.new (takeTrailing trailing) (rawBetween inp.length r2 (trailEnd r2))) SP a
        = renderLinesQ (tl ++ [(line, false)]) := by
  have hs : s <:+ inp := (List.suffix_append tr s).trans htrs
  have hr : r <:+ inp := (hsr ▸ suffix_of_append _ r).trans hs
  have hr2 : r2 <:+ inp := ((suffix_of_append _ r2).trans (ckeyPath_suffix _ _ _ _ hk).1).trans hr
  obtain ⟨w2, cm, hw2, hcm, esuf⟩ := lineEnd_text inp r2 hr2
  obtain ⟨tl, w, t1, t2, t3⟩ := htriv
  obtain ⟨qd, d1, d2, d3, d4, d5⟩ := keyPath_q inp [] [] allWs_nil allWs_nil SP hne hSPg
  have hlen : SP.length = ks.length := by
    have := congrArg List.length hSP
    simpa [keysOf] using this
  have hqdwf : qd.WF := by
    refine ⟨d1, d2, ?_⟩
    have := ckeyPath_limit _ _ _ _ hk
    rw [d5, hlen]; exact this
  have hlead : encRaw stripCr inp (takeTrailing trailing) = renderLinesQ tl ++ w := by
    simp only [encRaw]
    rw [trailIs_text inp trailing tr s h5 htrs, t3]
  have hpe : SP.isEmpty = false := by cases SP <;> simp_all
  have hkeys : qd.keys = keysOf ks := by rw [d4, hSP]
  cases a with
  | false =>
    refine ⟨tl, .std w qd w2 cm, t1, ⟨t2, hqdwf, hw2, hcm⟩, by simp [QLine.stmt, hkeys], ?_⟩
    simp only [hdrText, hpe, Bool.false_eq_true, if_false, prefixEncode, suffixEncode, Decor.new]
    rw [hlead, esuf, ← d3, renderLinesQ_append, renderLinesQ_one]
    simp only [QLine.render, List.append_assoc, List.cons_append, List.nil_append]
  | true =>
    refine ⟨tl, .aot w qd w2 cm, t1, ⟨t2, hqdwf, hw2, hcm⟩, by simp [QLine.stmt, hkeys], ?_⟩
    simp only [hdrText, hpe, Bool.false_eq_true, if_false, if_true, prefixEncode, suffixEncode, Decor.new]
    rw [hlead, esuf, ← d3, renderLinesQ_append, renderLinesQ_one]
    simp only [QLine.render, List.append_assoc, List.cons_append, List.nil_append]

end TomlVerif.Lemmas.Tiling03More
