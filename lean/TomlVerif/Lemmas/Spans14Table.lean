import TomlVerif.Lemmas.Spans14Value
/-! C14 (document level): the "all spans in range, all values nested" predicate on decorated tables
    and its preservation by `descend`, `findTable` and the `IndexMap` helpers. -/
namespace TomlVerif.Lemmas.Spans14
open TomlVerif TomlVerif.Spec TomlVerif.Model TomlVerif.Model.Strings TomlVerif.Model.Value
open TomlVerif.Model.Cst TomlVerif.Lemmas.Cst03

mutual
/-- every span recorded in the table lies in `[lo, hi]` (and is well-formed), every value nests -/
def TblOK (lo hi : Nat) : CTbl → Prop
  | .mk items _ _ _ d sp => ItemsOK lo hi items ∧ AllW lo hi (decorSp d) ∧ AllW lo hi (optSp sp)
def ItemsOK (lo hi : Nat) : List (CKey × CItem) → Prop
  | [] => True
  | (k, it) :: r => AllW lo hi (keySpans k) ∧ (match it with
      | .value v => AllW lo hi (valSpans v) ∧ NestV v
      | .table t => TblOK lo hi t
      | .aot ts sp => TblsOK lo hi ts ∧ AllW lo hi (optSp sp)) ∧ ItemsOK lo hi r
def TblsOK (lo hi : Nat) : List CTbl → Prop
  | [] => True
  | t :: r => TblOK lo hi t ∧ TblsOK lo hi r
end

def ItemOK (lo hi : Nat) : CItem → Prop
  | .value v => AllW lo hi (valSpans v) ∧ NestV v
  | .table t => TblOK lo hi t
  | .aot ts sp => TblsOK lo hi ts ∧ AllW lo hi (optSp sp)

/-- the entries of a table body -/
def IsOK (lo hi : Nat) (l : List (CKey × CItem)) : Prop :=
  AllKV (fun k => AllW lo hi (keySpans k)) (ItemOK lo hi) l

theorem ItemsOK_iff (lo hi : Nat) (l : List (CKey × CItem)) : ItemsOK lo hi l ↔ IsOK lo hi l := by
  unfold IsOK
  induction l with
  | nil => simp [ItemsOK, AllKV]
  | cons kv r ih =>
    obtain ⟨k, it⟩ := kv
    rw [AllKV.cons, ← ih]
    cases it <;> simp [ItemsOK, ItemOK, and_assoc]

theorem TblsOK_iff (lo hi : Nat) (l : List CTbl) : TblsOK lo hi l ↔ ∀ t ∈ l, TblOK lo hi t := by
  induction l with
  | nil => simp [TblsOK]
  | cons t r ih => simp [TblsOK, ih]

theorem TblOK_iff (lo hi : Nat) (t : CTbl) :
    TblOK lo hi t ↔ IsOK lo hi t.items ∧ AllW lo hi (decorSp t.decor) ∧ AllW lo hi (optSp t.span) := by
  cases t
  simp only [TblOK, ItemsOK_iff, CTbl.items, CTbl.decor, CTbl.span]

theorem TblOK_mk (lo hi : Nat) (items : List (CKey × CItem)) (i d : Bool) (p : Option Nat) (dec : Decor)
    (sp : Option Span) :
    TblOK lo hi (.mk items i d p dec sp) ↔ IsOK lo hi items ∧ AllW lo hi (decorSp dec) ∧ AllW lo hi (optSp sp) := by
  simp only [TblOK, ItemsOK_iff]

theorem TblOK_setItems (lo hi : Nat) (t : CTbl) (items : List (CKey × CItem)) :
    TblOK lo hi (t.setItems items) ↔ IsOK lo hi items ∧ AllW lo hi (decorSp t.decor) ∧ AllW lo hi (optSp t.span) := by
  cases t
  simp only [CTbl.setItems, TblOK, ItemsOK_iff, CTbl.decor, CTbl.span]

theorem TblOK_setSpan (lo hi : Nat) (t : CTbl) (sp : Option Span) :
    TblOK lo hi (t.setSpan sp) ↔ IsOK lo hi t.items ∧ AllW lo hi (decorSp t.decor) ∧ AllW lo hi (optSp sp) := by
  cases t
  simp only [CTbl.setSpan, TblOK, ItemsOK_iff, CTbl.items, CTbl.decor]

theorem span_setItems (t : CTbl) (items : List (CKey × CItem)) : (t.setItems items).span = t.span := by
  cases t; rfl

theorem optSp_allW {lo hi : Nat} {o : Option Span} : AllW lo hi (optSp o) ↔ ∀ e, o = some e → Within lo hi e := by
  cases o with
  | none => simp [optSp, AllW]
  | some e => simp [optSp, AllW]

theorem TblOK_empty (lo hi : Nat) : TblOK lo hi CTbl.empty := by
  simp only [CTbl.empty, TblOK, ItemsOK, decorSp_default, optSp]
  exact ⟨trivial, AllW.nil _ _, AllW.nil _ _⟩

theorem TblOK_newImplicit (lo hi : Nat) (d : Bool) : TblOK lo hi (newImplicit d) := by
  simp only [newImplicit, TblOK, ItemsOK, decorSp_default, optSp]
  exact ⟨trivial, AllW.nil _ _, AllW.nil _ _⟩

mutual
theorem TblOK.mono {lo hi lo' hi' : Nat} (h1 : lo' ≤ lo) (h2 : hi ≤ hi') : ∀ t : CTbl, TblOK lo hi t → TblOK lo' hi' t
  | .mk items _ _ _ d sp, h => by
    simp only [TblOK] at h ⊢
    exact ⟨ItemsOK.mono h1 h2 items h.1, h.2.1.mono h1 h2, h.2.2.mono h1 h2⟩
theorem ItemsOK.mono {lo hi lo' hi' : Nat} (h1 : lo' ≤ lo) (h2 : hi ≤ hi') :
    ∀ l : List (CKey × CItem), ItemsOK lo hi l → ItemsOK lo' hi' l
  | [], _ => by simp [ItemsOK]
  | (k, .value v) :: r, h => by
    simp only [ItemsOK] at h ⊢
    exact ⟨h.1.mono h1 h2, ⟨h.2.1.1.mono h1 h2, h.2.1.2⟩, ItemsOK.mono h1 h2 r h.2.2⟩
  | (k, .table t) :: r, h => by
    simp only [ItemsOK] at h ⊢
    exact ⟨h.1.mono h1 h2, TblOK.mono h1 h2 t h.2.1, ItemsOK.mono h1 h2 r h.2.2⟩
  | (k, .aot ts sp) :: r, h => by
    simp only [ItemsOK] at h ⊢
    exact ⟨h.1.mono h1 h2, ⟨TblsOK.mono h1 h2 ts h.2.1.1, h.2.1.2.mono h1 h2⟩, ItemsOK.mono h1 h2 r h.2.2⟩
theorem TblsOK.mono {lo hi lo' hi' : Nat} (h1 : lo' ≤ lo) (h2 : hi ≤ hi') :
    ∀ l : List CTbl, TblsOK lo hi l → TblsOK lo' hi' l
  | [], _ => by simp [TblsOK]
  | t :: r, h => by
    simp only [TblsOK] at h ⊢
    exact ⟨TblOK.mono h1 h2 t h.1, TblsOK.mono h1 h2 r h.2⟩
end

theorem ItemOK.mono {lo hi lo' hi' : Nat} (h1 : lo' ≤ lo) (h2 : hi ≤ hi') (it : CItem) (h : ItemOK lo hi it) :
    ItemOK lo' hi' it := by
  cases it with
  | value v => exact ⟨h.1.mono h1 h2, h.2⟩
  | table t => exact TblOK.mono h1 h2 t h
  | aot ts sp => exact ⟨TblsOK.mono h1 h2 ts h.1, h.2.mono h1 h2⟩

theorem IsOK.mono {lo hi lo' hi' : Nat} (h1 : lo' ≤ lo) (h2 : hi ≤ hi') {l : List (CKey × CItem)}
    (h : IsOK lo hi l) : IsOK lo' hi' l :=
  AllKV.imp h (fun _ x => x.mono h1 h2) (fun it x => ItemOK.mono h1 h2 it x)

mutual
/-- the predicate covers every span `allSpans` collects -/
theorem TblOK.spans {lo hi : Nat} : ∀ t : CTbl, TblOK lo hi t → AllW lo hi (tblSpans t)
  | .mk items _ _ _ d sp, h => by
    simp only [TblOK] at h
    simp only [tblSpans]
    exact AllW.append (AllW.append (ItemsOK.spans items h.1) h.2.1) h.2.2
theorem ItemsOK.spans {lo hi : Nat} : ∀ l : List (CKey × CItem), ItemsOK lo hi l → AllW lo hi (itemsSpans l)
  | [], _ => by simp [itemsSpans]; exact AllW.nil _ _
  | (k, .value v) :: r, h => by
    simp only [ItemsOK] at h
    simp only [itemsSpans]
    exact AllW.append (AllW.append h.1 h.2.1.1) (ItemsOK.spans r h.2.2)
  | (k, .table t) :: r, h => by
    simp only [ItemsOK] at h
    simp only [itemsSpans]
    exact AllW.append (AllW.append h.1 (TblOK.spans t h.2.1)) (ItemsOK.spans r h.2.2)
  | (k, .aot ts sp) :: r, h => by
    simp only [ItemsOK] at h
    simp only [itemsSpans]
    exact AllW.append (AllW.append h.1 (AllW.append (TblsOK.spans ts h.2.1.1) h.2.1.2)) (ItemsOK.spans r h.2.2)
theorem TblsOK.spans {lo hi : Nat} : ∀ l : List CTbl, TblsOK lo hi l → AllW lo hi (tblsSpans l)
  | [], _ => by simp [tblsSpans]; exact AllW.nil _ _
  | t :: r, h => by
    simp only [TblsOK] at h
    simp only [tblsSpans]
    exact AllW.append (TblOK.spans t h.1) (TblsOK.spans r h.2)
end

mutual
/-- every value stored anywhere in a table (through sub-tables and arrays of tables) -/
def tblVals : CTbl → List CVal
  | .mk items _ _ _ _ _ => itemsVals items
def itemsVals : List (CKey × CItem) → List CVal
  | [] => []
  | (_, it) :: r =>
    (match it with
      | .value v => [v]
      | .table t => tblVals t
      | .aot ts _ => tblsVals ts) ++ itemsVals r
def tblsVals : List CTbl → List CVal
  | [] => []
  | t :: r => tblVals t ++ tblsVals r
end

mutual
theorem TblOK.vals {lo hi : Nat} : ∀ t : CTbl, TblOK lo hi t → ∀ v ∈ tblVals t, AllW lo hi (valSpans v) ∧ NestV v
  | .mk items _ _ _ d sp, h => by
    simp only [TblOK] at h
    simp only [tblVals]
    exact ItemsOK.vals items h.1
theorem ItemsOK.vals {lo hi : Nat} : ∀ l : List (CKey × CItem), ItemsOK lo hi l →
    ∀ v ∈ itemsVals l, AllW lo hi (valSpans v) ∧ NestV v
  | [], _ => by simp [itemsVals]
  | (k, .value v) :: r, h => by
    simp only [ItemsOK] at h
    simp only [itemsVals]
    intro x hx
    rcases List.mem_append.1 hx with hx | hx
    · simp at hx; subst hx; exact h.2.1
    · exact ItemsOK.vals r h.2.2 x hx
  | (k, .table t) :: r, h => by
    simp only [ItemsOK] at h
    simp only [itemsVals]
    intro x hx
    rcases List.mem_append.1 hx with hx | hx
    · exact TblOK.vals t h.2.1 x hx
    · exact ItemsOK.vals r h.2.2 x hx
  | (k, .aot ts sp) :: r, h => by
    simp only [ItemsOK] at h
    simp only [itemsVals]
    intro x hx
    rcases List.mem_append.1 hx with hx | hx
    · exact TblsOK.vals ts h.2.1.1 x hx
    · exact ItemsOK.vals r h.2.2 x hx
theorem TblsOK.vals {lo hi : Nat} : ∀ l : List CTbl, TblsOK lo hi l →
    ∀ v ∈ tblsVals l, AllW lo hi (valSpans v) ∧ NestV v
  | [], _ => by simp [tblsVals]
  | t :: r, h => by
    simp only [TblsOK] at h
    simp only [tblsVals]
    intro x hx
    rcases List.mem_append.1 hx with hx | hx
    · exact TblOK.vals t h.1 x hx
    · exact TblsOK.vals r h.2 x hx
end

/-! ### `modifyLast`, `descend`, `findTable` -/

theorem modifyLast_some {ts ts' : List CTbl} {f : CTbl → Option CTbl} (h : modifyLast ts f = some ts') :
    ∃ init l l', ts = init ++ [l] ∧ f l = some l' ∧ ts' = init ++ [l'] := by
  unfold modifyLast at h
  split at h
  · cases h
  · rename_i l initRev hrev
    split at h
    · rename_i l' hf
      injection h with h
      refine ⟨initRev.reverse, l, l', ?_, hf, h.symm⟩
      have := congrArg List.reverse hrev
      simpa using this
    · cases h

theorem entry_ok {lo hi : Nat} {t : CTbl} (ht : TblOK lo hi t) (k : Bytes) (dotted : Bool) :
    ItemOK lo hi ((clookup k t.items).getD (.table (newImplicit dotted))) := by
  cases hl : clookup k t.items with
  | none => exact TblOK_newImplicit lo hi dotted
  | some e => exact AllKV.lookup ((TblOK_iff _ _ _).1 ht).1 hl

/-- `descend` keeps the predicate: the tables it walks through satisfy the (possibly stronger) input
    bound `hi1`, whatever `f` builds and the keys it may insert satisfy the output bound `hi2` -/
theorem descend_ok {lo hi1 hi2 : Nat} (h12 : hi1 ≤ hi2) (f : CTbl → Option CTbl)
    (hf : ∀ u u', TblOK lo hi1 u → f u = some u' → TblOK lo hi2 u') :
    ∀ (path : List CKey) (t : CTbl) (dotted : Bool) (t' : CTbl), AllW lo hi2 (keysSpans path) →
      TblOK lo hi1 t → descend t path dotted f = some t' → TblOK lo hi2 t' := by
  intro path
  induction path with
  | nil =>
    intro t dotted t' _ ht h
    unfold descend at h
    exact hf _ _ ht h
  | cons k ks ih =>
    intro t dotted t' hkeys ht h
    simp only [keysSpans] at hkeys
    have hent := entry_ok ht k.key dotted
    have ht2 := (TblOK_iff _ _ _).1 (TblOK.mono (Nat.le_refl lo) h12 t ht)
    unfold descend at h
    simp only [] at h
    generalize (clookup k.key t.items).getD (.table (newImplicit dotted)) = entry at h hent
    cases entry with
    | value v => cases h
    | aot ts sp =>
      simp only [] at h
      split at h
      · cases h
      · split at h
        · rename_i ts' hml
          injection h with h; subst h
          obtain ⟨init, l, l', e1, hfl, e2⟩ := modifyLast_some hml
          subst e1; subst e2
          have hts := (TblsOK_iff _ _ _).1 hent.1
          have hl' := ih _ _ _ hkeys.right (hts l (by simp)) hfl
          rw [TblOK_setItems]
          refine ⟨AllKV.cset ht2.1 hkeys.left ⟨?_, hent.2.mono (Nat.le_refl lo) h12⟩, ht2.2⟩
          rw [TblsOK_iff]
          intro x hx
          rcases List.mem_append.1 hx with hx | hx
          · exact TblOK.mono (Nat.le_refl lo) h12 x (hts x (List.mem_append_left _ hx))
          · simp at hx; subst hx; exact hl'
        · cases h
    | table sub =>
      simp only [] at h
      split at h
      · cases h
      · split at h
        · rename_i sub' hsub
          injection h with h; subst h
          have hs' := ih _ _ _ hkeys.right hent hsub
          rw [TblOK_setItems]
          exact ⟨AllKV.cset ht2.1 hkeys.left hs', ht2.2⟩
        · cases h

theorem descend_span (f : CTbl → Option CTbl) (hf : ∀ u u', f u = some u' → u'.span = u.span)
    (path : List CKey) (t : CTbl) (dotted : Bool) (t' : CTbl) (h : descend t path dotted f = some t') :
    t'.span = t.span := by
  cases path with
  | nil => unfold descend at h; exact hf _ _ h
  | cons k ks =>
    unfold descend at h
    simp only [] at h
    generalize (clookup k.key t.items).getD (.table (newImplicit dotted)) = entry at h
    cases entry with
    | value v => cases h
    | aot ts sp =>
      simp only [] at h
      split at h
      · cases h
      · split at h
        · injection h with h; subst h; exact span_setItems _ _
        · cases h
    | table sub =>
      simp only [] at h
      split at h
      · cases h
      · split at h
        · injection h with h; subst h; exact span_setItems _ _
        · cases h

theorem findTable_ok {lo hi : Nat} (key : Bytes) : ∀ (path : List CKey) (t x : CTbl), TblOK lo hi t →
    findTable key t path = some x → TblOK lo hi x := by
  intro path
  induction path with
  | nil =>
    intro t x ht h
    unfold findTable at h
    split at h
    · rename_i y hl
      injection h with h; subst h
      have hent : ItemOK lo hi (.table y) := AllKV.lookup ((TblOK_iff _ _ _).1 ht).1 hl
      exact hent
    · cases h
  | cons k ks ih =>
    intro t x ht h
    unfold findTable at h
    split at h
    · rename_i sub hl
      have hent : ItemOK lo hi (.table sub) := AllKV.lookup ((TblOK_iff _ _ _).1 ht).1 hl
      exact ih _ _ hent h
    · rename_i ts sp hl
      have hent : ItemOK lo hi (.aot ts sp) := AllKV.lookup ((TblOK_iff _ _ _).1 ht).1 hl
      split at h
      · rename_i l rest hrev
        have hmem : l ∈ ts := by
          have : l ∈ ts.reverse := by rw [hrev]; simp
          simpa using this
        exact ih _ _ ((TblsOK_iff _ _ _).1 hent.1 l hmem) h
      · cases h
    · cases h

end TomlVerif.Lemmas.Spans14
