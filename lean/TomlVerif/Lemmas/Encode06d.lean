import TomlVerif.Lemmas.Encode06c
/-! Helper lemmas for C06, documents, semantic side: what the definition state machine (`Model/State.lean`)
    makes of the statements of a preorder walk over a built table. The invariant is stated on the
    *virtual document* `intoDocument st` (the tree if the text ended here): a header followed by the
    values of its table appends one table (or one array element) at the header's parent, and the walk over
    a subtree appends the whole subtree. -/
namespace TomlVerif.Lemmas.Encode06d
open TomlVerif TomlVerif.Spec TomlVerif.Model TomlVerif.Model.Encode06 TomlVerif.Model.State
open TomlVerif.Lemmas.Encode06b TomlVerif.Lemmas.Encode06c TomlVerif.Props.C06 TomlVerif.Spec.Encode06
open TomlVerif.Lemmas.State09

/-! ## `descend` along an existing path -/

theorem setItems_self (t : Tbl) : t.setItems t.items = t := by cases t; rfl

theorem areplace_self {α : Type} (k : Bytes) (v : α) (l : List (Bytes × α)) (h : alookup k l = some v) :
    areplace k v l = l := by
  induction l with
  | nil => rfl
  | cons p r ih =>
    obtain ⟨k', v'⟩ := p
    by_cases hk : k' = k
    · simp [alookup, hk] at h; simp [areplace, hk, h]
    · simp [alookup, hk] at h; simp [areplace, hk, ih h]

theorem aset_self {α : Type} (k : Bytes) (v : α) (l : List (Bytes × α)) (h : alookup k l = some v) :
    aset k v l = l := by
  rw [aset_of_some k v v l h, areplace_self k v l h]

theorem getLast_split (ts : List Tbl) (l : Tbl) (h : ts.getLast? = some l) : ∃ init, ts = init ++ [l] := by
  have := List.getLast?_eq_some_iff.1 h
  exact this

/-- one step of `lookupTbl` inverted -/
theorem lookupTbl_cons_some (V W : Tbl) (k : Bytes) (ks : List Bytes) (h : lookupTbl V (k :: ks) = some W) :
    (∃ sub, alookup k V.items = some (.table sub) ∧ lookupTbl sub ks = some W) ∨
    (∃ init l, alookup k V.items = some (.aot (init ++ [l])) ∧ lookupTbl l ks = some W) := by
  simp only [lookupTbl] at h
  cases ha : alookup k V.items with
  | none => simp [ha] at h
  | some it =>
    cases it with
    | value v => simp [ha] at h
    | table sub => simp [ha] at h; exact Or.inl ⟨sub, rfl, h⟩
    | aot ts =>
      simp only [ha] at h
      cases hl : ts.getLast? with
      | none => simp [hl] at h
      | some l =>
        simp only [hl] at h
        obtain ⟨init, rfl⟩ := getLast_split ts l hl
        exact Or.inr ⟨init, l, rfl, h⟩

/-- along an existing path `descend` succeeds when the action does, and the result is found at the path -/
theorem descend_some (V W W' : Tbl) (P : List Bytes) (f : Tbl → Option Tbl) (h : lookupTbl V P = some W)
    (hf : f W = some W') : ∃ V', descend V P false f = some V' ∧ lookupTbl V' P = some W' := by
  induction P generalizing V with
  | nil =>
    simp only [lookupTbl, Option.some.injEq] at h; subst h
    exact ⟨W', by simpa [descend] using hf, rfl⟩
  | cons k ks ih =>
    rcases lookupTbl_cons_some V W k ks h with ⟨sub, ha, hs⟩ | ⟨init, l, ha, hs⟩
    · obtain ⟨s', h1, h2⟩ := ih sub hs
      refine ⟨V.setItems (aset k (.table s') V.items), ?_, ?_⟩
      · rw [descend_cons_table V sub k ks false f (by simp [ha]) rfl, h1]; rfl
      · simp [lookupTbl, alookup_aset_same, h2]
    · obtain ⟨l', h1, h2⟩ := ih l hs
      refine ⟨V.setItems (aset k (.aot (init ++ [l'])) V.items), ?_, ?_⟩
      · rw [descend_cons_aot V l init k ks false f ha rfl, h1]; rfl
      · simp [lookupTbl, alookup_aset_same, h2]

/-- an action that leaves the target alone leaves the tree alone -/
theorem descend_id (V W : Tbl) (P : List Bytes) (f : Tbl → Option Tbl) (h : lookupTbl V P = some W)
    (hf : f W = some W) : descend V P false f = some V := by
  induction P generalizing V with
  | nil =>
    simp only [lookupTbl, Option.some.injEq] at h; subst h
    simpa [descend] using hf
  | cons k ks ih =>
    rcases lookupTbl_cons_some V W k ks h with ⟨sub, ha, hs⟩ | ⟨init, l, ha, hs⟩
    · rw [descend_cons_table V sub k ks false f (by simp [ha]) rfl, ih sub hs]
      simp [aset_self _ _ _ ha, setItems_self]
    · rw [descend_cons_aot V l init k ks false f ha rfl, ih l hs]
      simp [aset_self _ _ _ ha, setItems_self]

theorem target_of_lookup (V W : Tbl) (P : List Bytes) (h : lookupTbl V P = some W) : target V P false = W := by
  simp [target, h]

/-- two actions that agree on the table found at the path -/
theorem descend_congr_at (V W : Tbl) (P : List Bytes) (f g : Tbl → Option Tbl) (h : lookupTbl V P = some W)
    (hfg : f W = g W) : descend V P false f = descend V P false g :=
  descend_congr V P false f g (by rw [target_of_lookup V W P h]; exact hfg)

/-- an action at the path after another one at the same path -/
theorem descend_then (V V1 W : Tbl) (P : List Bytes) (f g h : Tbl → Option Tbl) (hV1 : descend V P false f = some V1)
    (hW : lookupTbl V P = some W) (hfg : (f W).bind g = h W) : descend V1 P false g = descend V P false h := by
  rw [descend_descend V V1 P f g hV1]
  exact descend_congr_at V W P _ _ hW hfg


/-! ## the virtual document -/

theorem intoDocument_open (st : ParseState) (pp : List Bytes) (key : Bytes) (h : st.currentPath = pp ++ [key]) :
    intoDocument st = descend st.root pp false (finF st.currentIsArray key st.current) := by
  unfold intoDocument
  rw [finalizeTable_eq, h, splitLast_append]
  simp only []
  cases descend st.root pp false (finF st.currentIsArray key st.current) <;> rfl

theorem intoDocument_root (st : ParseState) (hp : st.currentPath = []) (hr : st.root.items = []) :
    intoDocument st = some st.current := by
  unfold intoDocument
  rw [finalizeTable_eq, hp]
  simp [splitLast, hr]

/-- closing the open table gives a state whose root is the virtual document -/
theorem finalize_of_into (st : ParseState) (V : Tbl) (h : intoDocument st = some V) :
    finalizeTable st = some { st with current := Tbl.empty, currentPath := [], root := V } := by
  unfold intoDocument at h
  cases hf : finalizeTable st with
  | none => simp [hf] at h
  | some sf =>
    simp [hf] at h
    rcases finalizeTable_some st sf hf with ⟨_, _, e⟩ | ⟨pp, key, root', _, _, e⟩
    · subst e; simp at h; subst h; rfl
    · subst e; simp at h; subst h; rfl

/-! ## key/value statements -/

def valItems : List (Bytes × DVal) → List (Bytes × Item)
  | [] => []
  | (k, v) :: r => (k, .value (canonValD v)) :: valItems r

theorem valItems_keys (l : List (Bytes × DVal)) : (valItems l).map Prod.fst = l.map Prod.fst := by
  induction l with
  | nil => rfl
  | cons x r ih => obtain ⟨k, v⟩ := x; simp [valItems, ih]

theorem run_kvs : ∀ (kvs : List (Bytes × DVal)) (st : ParseState), st.current.dotted = false →
    (kvs.map Prod.fst).Nodup → (∀ k ∈ kvs.map Prod.fst, k ∉ st.current.items.map Prod.fst) →
    run st (kvStmts kvs) = some { st with current := st.current.setItems (st.current.items ++ valItems kvs) } := by
  intro kvs
  induction kvs with
  | nil =>
    intro st _ _ _
    simp [kvStmts, run, valItems, setItems_self]
  | cons x r ih =>
    obtain ⟨k, v⟩ := x
    intro st hd hn ha
    simp only [List.map_cons, List.nodup_cons] at hn
    have hk : alookup k st.current.items = none := (alookup_none_iff _ _).2 (ha k (by simp))
    have h1 : step st (.kv [] k (canonValD v)) =
        some { st with current := st.current.setItems (st.current.items ++ [(k, .value (canonValD v))]) } := by
      simp [step, onKeyval, descend, hd, hk]
    simp only [kvStmts, run, h1]
    rw [ih _ (by simpa using hd) hn.2]
    · simp [valItems, Tbl.setItems, Tbl.items, Tbl.implicit, Tbl.dotted, Tbl.pos]
    · intro k' hk' hmem
      simp only [items_setItems, List.map_append, List.map_cons, List.map_nil, List.mem_append, List.mem_singleton] at hmem
      rcases hmem with hmem | hmem
      · exact ha k' (by simp [hk']) hmem
      · subst hmem; exact hn.1 hk'

/-! ## headers -/

def appendF (its : List (Bytes × Item)) : Tbl → Option Tbl := fun W => some (W.setItems (W.items ++ its))
def aotF (key : Bytes) (ts : List Tbl) : Tbl → Option Tbl := fun U => some (U.setItems (aset key (.aot ts) U.items))

/-- `[pp.key]` and the values of its table, from a state whose virtual document is `V`, when `key` is new
    in the table at `pp`: the open table holds the values, the root is `V` -/
theorem std_block (st : ParseState) (V U : Tbl) (pp : List Bytes) (key : Bytes) (kvs : List (Bytes × DVal))
    (hV : intoDocument st = some V) (hU : lookupTbl V pp = some U) (hk : alookup key U.items = none)
    (hn : (kvs.map Prod.fst).Nodup) :
    run st (.std (pp ++ [key]) :: kvStmts kvs) =
      some { st with root := V, position := st.position + 1,
                     current := .mk (valItems kvs) false false (some (st.position + 1)),
                     currentIsArray := false, currentPath := pp ++ [key] } := by
  have hfin := finalize_of_into st V hV
  have hprobe : descend V pp false (probeF key) = some V :=
    descend_id V U pp _ hU (by simp [probeF, hk])
  have herase : descend V pp false (eraseF key) = some V :=
    descend_id V U pp _ hU (by simp [eraseF, aerase_of_none _ _ hk, setItems_self])
  have hfind : startTable.find key V pp = none := by
    rw [find_eq, hU]; simp [tableAt, hk]
  have h1 : step st (.std (pp ++ [key])) =
      some { st with root := V, position := st.position + 1,
                     current := .mk [] false false (some (st.position + 1)),
                     currentIsArray := false, currentPath := pp ++ [key] } := by
    simp only [step, onStdHeader, hfin, startTable_eq, splitLast_append, hprobe, herase, hfind]
    rfl
  simp only [run, h1]
  rw [run_kvs kvs _ rfl hn (by simp [Tbl.items])]
  rfl

theorem std_block_doc (st : ParseState) (V U : Tbl) (pp : List Bytes) (key : Bytes) (kvs : List (Bytes × DVal))
    (hV : intoDocument st = some V) (hU : lookupTbl V pp = some U) (hk : alookup key U.items = none)
    (hn : (kvs.map Prod.fst).Nodup) :
    ∃ st1 n, run st (.std (pp ++ [key]) :: kvStmts kvs) = some st1 ∧
      intoDocument st1 = descend V pp false (appendF [(key, .table (.mk (valItems kvs) false false (some n)))]) := by
  refine ⟨_, st.position + 1, std_block st V U pp key kvs hV hU hk hn, ?_⟩
  rw [intoDocument_open _ pp key rfl]
  exact descend_congr_at V U pp _ _ hU (by simp [finF, finStdF, hk, appendF])

theorem startArrayTable_eq (st : ParseState) (pp : List Bytes) (key : Bytes) :
    startArrayTable st (pp ++ [key]) =
      (descend st.root pp false (arrStartF key)).map fun root' =>
        { st with root := root', position := st.position + 1,
                  current := .mk st.current.items false false (some (st.position + 1)),
                  currentIsArray := true, currentPath := pp ++ [key] } := by
  unfold startArrayTable
  rw [splitLast_append]
  simp only []
  show (match descend st.root pp false (arrStartF key) with | none => none | some root' => _) = _
  cases descend st.root pp false (arrStartF key) <;> rfl

/-- the same for `[[pp.key]]`, when `key` is new (`pre = []`) or holds the array elements `pre`: the element
    is appended -/
theorem arr_block_doc (st : ParseState) (V U : Tbl) (pp : List Bytes) (key : Bytes) (kvs : List (Bytes × DVal))
    (pre : List Tbl) (hV : intoDocument st = some V) (hU : lookupTbl V pp = some U)
    (hk : (alookup key U.items = none ∧ pre = []) ∨ alookup key U.items = some (.aot pre))
    (hn : (kvs.map Prod.fst).Nodup) :
    ∃ st1 n, run st (.arr (pp ++ [key]) :: kvStmts kvs) = some st1 ∧
      intoDocument st1 = descend V pp false (aotF key (pre ++ [.mk (valItems kvs) false false (some n)])) := by
  have hfin := finalize_of_into st V hV
  have hstart : ∃ U1, arrStartF key U = some U1 := by
    rcases hk with ⟨hk, _⟩ | hk <;> simp [arrStartF, hk]
  obtain ⟨U1, hU1⟩ := hstart
  obtain ⟨R, hR, _⟩ := descend_some V U U1 pp _ hU hU1
  have h1 : step st (.arr (pp ++ [key])) =
      some { st with root := R, position := st.position + 1,
                     current := .mk [] false false (some (st.position + 1)),
                     currentIsArray := true, currentPath := pp ++ [key] } := by
    simp only [step, onArrayHeader, hfin, startArrayTable_eq, hR]
    rfl
  have hrun : run st (.arr (pp ++ [key]) :: kvStmts kvs) =
      some { st with root := R, position := st.position + 1,
                     current := .mk (valItems kvs) false false (some (st.position + 1)),
                     currentIsArray := true, currentPath := pp ++ [key] } := by
    simp only [run, h1]
    rw [run_kvs kvs _ rfl hn (by simp [Tbl.items])]
    rfl
  refine ⟨_, st.position + 1, hrun, ?_⟩
  · rw [intoDocument_open _ pp key rfl]
    simp only [finF, if_true]
    refine descend_then V R U pp (arrStartF key) _ _ hR hU ?_
    rcases hk with ⟨hk, hp⟩ | hk
    · subst hp
      have e1 : arrStartF key U = some (U.setItems (U.items ++ [(key, .aot [])])) := by simp [arrStartF, hk]
      have e2 : alookup key (U.items ++ [(key, Item.aot [])]) = some (.aot []) := alookup_append_new _ _ _ hk
      rw [e1]
      simp only [Option.bind, finArrF, items_setItems, e2, Option.getD_some, aotF, List.nil_append]
      rw [aset_of_some _ _ _ _ e2, areplace_append_new _ _ _ _ hk, aset_of_none _ _ _ hk]
      rfl
    · simp [arrStartF, finArrF, hk, aotF]


/-! ## the walk -/

mutual
/-- `visit_nested_tables` when no table has a position: every entry gets position 0 -/
def visT : DTbl → List Bytes → Bool → List Visit
  | .mk items imp pos, path, isArray => ⟨0, .mk items imp pos, path, isArray⟩ :: visItems items path
def visItems : List (Bytes × DItem) → List Bytes → List Visit
  | [], _ => []
  | (k, .table t) :: r, path => visT t (path ++ [k]) false ++ visItems r path
  | (k, .aot ts) :: r, path => visAot ts (path ++ [k]) ++ visItems r path
  | (_, .value _) :: r, path => visItems r path
def visAot : List DTbl → List Bytes → List Visit
  | [], _ => []
  | t :: r, path => visT t path true ++ visAot r path
end

mutual
/-- everything the walk needs of a built table at nesting `n` (`n` = length of its header path) -/
def OkI : DItem → Nat → Prop
  | .value v, _ => BodyValOk v
  | .table t, n => OkT t (n + 1)
  | .aot ts, n => ts ≠ [] ∧ OkTs ts (n + 1)
def OkT : DTbl → Nat → Prop
  | .mk items imp pos, n => imp = false ∧ pos = none ∧ n < Value.LIMIT ∧ (items.map Prod.fst).Nodup ∧ OkItems items n
def OkTs : List DTbl → Nat → Prop
  | [], _ => True
  | t :: r, n => OkT t n ∧ OkTs r n
def OkItems : List (Bytes × DItem) → Nat → Prop
  | [], _ => True
  | (_, i) :: r, n => OkI i n ∧ OkItems r n
end

theorem stmtsVs_append (a b : List Visit) : stmtsVs (a ++ b) = stmtsVs a ++ stmtsVs b := by
  induction a with
  | nil => rfl
  | cons v r ih => simp [stmtsVs, ih]

/-- the keys of the sub-tables and arrays of tables -/
def tableKeys : List (Bytes × DItem) → List Bytes
  | [] => []
  | (_, .value _) :: r => tableKeys r
  | (k, _) :: r => k :: tableKeys r

theorem keys_split : ∀ items : List (Bytes × DItem), (items.map Prod.fst).Nodup →
    (tableKeys items).Nodup ∧ ((getValues items).map Prod.fst).Nodup ∧
    (∀ k ∈ tableKeys items, k ∈ items.map Prod.fst) ∧ (∀ k ∈ (getValues items).map Prod.fst, k ∈ items.map Prod.fst) ∧
    (∀ k ∈ tableKeys items, k ∉ (getValues items).map Prod.fst) := by
  intro items
  induction items with
  | nil => intro _; simp [tableKeys, getValues]
  | cons x r ih =>
    obtain ⟨k, i⟩ := x
    intro hn
    simp only [List.map_cons, List.nodup_cons] at hn
    obtain ⟨h1, h2, h3, h4, h5⟩ := ih hn.2
    cases i with
    | value v =>
      simp only [tableKeys, getValues, List.map_cons, List.nodup_cons, List.mem_cons]
      refine ⟨h1, ⟨fun hk => hn.1 (h4 k hk), h2⟩, fun a ha => Or.inr (h3 a ha), ?_, ?_⟩
      · intro a ha
        rcases ha with ha | ha
        · exact Or.inl ha
        · exact Or.inr (h4 a ha)
      · intro a ha hc
        rcases hc with hc | hc
        · subst hc; exact hn.1 (h3 a ha)
        · exact h5 a ha hc
    | table t =>
      simp only [tableKeys, getValues, List.map_cons, List.nodup_cons, List.mem_cons]
      refine ⟨⟨fun hk => hn.1 (h3 k hk), h1⟩, h2, ?_, fun a ha => Or.inr (h4 a ha), ?_⟩
      · intro a ha
        rcases ha with ha | ha
        · exact Or.inl ha
        · exact Or.inr (h3 a ha)
      · intro a ha hc
        rcases ha with ha | ha
        · subst ha; exact hn.1 (h4 a hc)
        · exact h5 a ha hc
    | aot ts =>
      simp only [tableKeys, getValues, List.map_cons, List.nodup_cons, List.mem_cons]
      refine ⟨⟨fun hk => hn.1 (h3 k hk), h1⟩, h2, ?_, fun a ha => Or.inr (h4 a ha), ?_⟩
      · intro a ha
        rcases ha with ha | ha
        · exact Or.inl ha
        · exact Or.inr (h3 a ha)
      · intro a ha hc
        rcases ha with ha | ha
        · subst ha; exact hn.1 (h4 a hc)
        · exact h5 a ha hc

/-! ## erasing flags -/

mutual
theorem eraseVal_canon : ∀ v : DVal, eraseVal (canonValD v) = canonValD v
  | .arr items dec => by simp [canonValD, eraseVal, eraseVals_canon items]
  | .inl items dec => by simp [canonValD, eraseVal, erasePairs_canon items]
  | .str s dec => by simp [canonValD, valOf, eraseVal]
  | .int n dec => by simp [canonValD, valOf, eraseVal]
  | .float b x dec => by simp [canonValD, eraseVal]
  | .bool b dec => by simp [canonValD, valOf, eraseVal]
  | .dt x dec => by simp [canonValD, valOf, eraseVal]
theorem eraseVals_canon : ∀ l : List DVal, eraseVals (canonValsD l) = canonValsD l
  | [] => by simp [canonValsD, eraseVals]
  | v :: r => by simp [canonValsD, eraseVals, eraseVal_canon v, eraseVals_canon r]
theorem erasePairs_canon : ∀ l : List (Bytes × DVal), erasePairs (canonPairsD l) = canonPairsD l
  | [] => by simp [canonPairsD, erasePairs]
  | (k, v) :: r => by simp [canonPairsD, erasePairs, eraseVal_canon v, erasePairs_canon r]
end

theorem eraseItems_append (a b : List (Bytes × Item)) : eraseItems (a ++ b) = eraseItems a ++ eraseItems b := by
  induction a with
  | nil => rfl
  | cons x r ih => obtain ⟨k, i⟩ := x; simp [eraseItems, ih]

theorem eraseItems_valItems (items : List (Bytes × DItem)) :
    eraseItems (valItems (getValues items)) = expectValues items := by
  induction items with
  | nil => rfl
  | cons x r ih =>
    obtain ⟨k, i⟩ := x
    cases i <;> simp [getValues, valItems, eraseItems, expectValues, eraseItem, eraseVal_canon, ih]

theorem eraseTbls_append (a b : List Tbl) : eraseTbls (a ++ b) = eraseTbls a ++ eraseTbls b := by
  induction a with
  | nil => rfl
  | cons x r ih => simp [eraseTbls, ih]


/-! ## the claims -/

/-- a sub-table under a new key: the walk over it appends the whole table -/
def ClaimStd (s : DTbl) : Prop :=
  ∀ st V U pp key, intoDocument st = some V → lookupTbl V pp = some U → alookup key U.items = none →
    ∃ st' T', run st (stmtsVs (visT s (pp ++ [key]) false)) = some st' ∧
      intoDocument st' = descend V pp false (appendF [(key, .table T')]) ∧ eraseTbl T' = expectT s

/-- an element of an array of tables: the walk over it appends the whole element -/
def ClaimArr (s : DTbl) : Prop :=
  ∀ st V U pp key pre, intoDocument st = some V → lookupTbl V pp = some U →
    ((alookup key U.items = none ∧ pre = []) ∨ alookup key U.items = some (.aot pre)) →
    ∃ st' T', run st (stmtsVs (visT s (pp ++ [key]) true)) = some st' ∧
      intoDocument st' = descend V pp false (aotF key (pre ++ [T'])) ∧ eraseTbl T' = expectT s

def ClaimAot (ts : List DTbl) : Prop :=
  ts ≠ [] → ∀ st V U pp key pre, intoDocument st = some V → lookupTbl V pp = some U →
    ((alookup key U.items = none ∧ pre = []) ∨ alookup key U.items = some (.aot pre)) →
    ∃ st' ts', run st (stmtsVs (visAot ts (pp ++ [key]))) = some st' ∧
      intoDocument st' = descend V pp false (aotF key (pre ++ ts')) ∧ eraseTbls ts' = expectTs ts

/-- the sub-tables and arrays of tables of a table whose values are already there -/
def ClaimItems (items : List (Bytes × DItem)) : Prop :=
  ∀ st V W P, intoDocument st = some V → lookupTbl V P = some W →
    (∀ k ∈ tableKeys items, k ∉ W.items.map Prod.fst) → (tableKeys items).Nodup →
    ∃ st' its, run st (stmtsVs (visItems items P)) = some st' ∧
      intoDocument st' = descend V P false (appendF its) ∧ eraseItems its = expectTables items

theorem visT_stmts (items : List (Bytes × DItem)) (imp : Bool) (pos : Option Nat) (pp : List Bytes) (key : Bytes)
    (isArray : Bool) :
    stmtsVs (visT (.mk items imp pos) (pp ++ [key]) isArray) =
      (hdrStmt isArray (pp ++ [key]) :: kvStmts (getValues items)) ++ stmtsVs (visItems items (pp ++ [key])) := by
  have : (pp ++ [key]).isEmpty = false := by cases pp <;> rfl
  simp [visT, stmtsVs, stmtsV, this, DTbl.items]

theorem tbl_std (items : List (Bytes × DItem)) (imp : Bool) (pos : Option Nat) (hn : (items.map Prod.fst).Nodup)
    (hit : ClaimItems items) : ClaimStd (.mk items imp pos) := by
  intro st V U pp key hV hU hk
  obtain ⟨hn1, hn2, _, _, hn5⟩ := keys_split items hn
  obtain ⟨st1, n, hrun1, hdoc1⟩ := std_block_doc st V U pp key (getValues items) hV hU hk hn2
  obtain ⟨V1, hV1, hl1⟩ := descend_some V U _ pp (appendF [(key, .table (.mk (valItems (getValues items)) false false (some n)))])
    hU rfl
  have hlook : lookupTbl V1 (pp ++ [key]) = some (.mk (valItems (getValues items)) false false (some n)) := by
    rw [lookupTbl_append, hl1]
    simp [lookupTbl, alookup_append_new _ _ _ hk]
  obtain ⟨st2, its, hrun2, hdoc2, her⟩ := hit st1 V1 _ (pp ++ [key]) (hdoc1.trans hV1) hlook
    (by intro k hkm; simpa [Tbl.items, valItems_keys] using hn5 k hkm) hn1
  refine ⟨st2, .mk (valItems (getValues items) ++ its) false false (some n), ?_, ?_, ?_⟩
  · rw [visT_stmts, run_append]
    simp only [hdrStmt, Bool.false_eq_true, if_false, hrun1, Option.bind]
    exact hrun2
  · rw [hdoc2, descend_append_false]
    refine descend_then V V1 U pp _ _ _ hV1 hU ?_
    have e2 : alookup key (U.items ++ [(key, Item.table (.mk (valItems (getValues items)) false false (some n)))]) =
        some (.table (.mk (valItems (getValues items)) false false (some n))) := alookup_append_new _ _ _ hk
    simp only [appendF, Option.bind]
    rw [descend_cons_table _ (.mk (valItems (getValues items)) false false (some n)) key [] false _
      (by simp [e2]) rfl]
    simp only [descend, appendF, Option.map, items_setItems]
    rw [aset_of_some _ _ _ _ e2, areplace_append_new _ _ _ _ hk]
    rfl
  · simp [eraseTbl, expectT, eraseItems_append, eraseItems_valItems, her]

theorem tbl_arr (items : List (Bytes × DItem)) (imp : Bool) (pos : Option Nat) (hn : (items.map Prod.fst).Nodup)
    (hit : ClaimItems items) : ClaimArr (.mk items imp pos) := by
  intro st V U pp key pre hV hU hk
  obtain ⟨hn1, hn2, _, _, hn5⟩ := keys_split items hn
  obtain ⟨st1, n, hrun1, hdoc1⟩ := arr_block_doc st V U pp key (getValues items) pre hV hU hk hn2
  obtain ⟨V1, hV1, hl1⟩ := descend_some V U _ pp (aotF key (pre ++ [.mk (valItems (getValues items)) false false (some n)]))
    hU rfl
  have hlook : lookupTbl V1 (pp ++ [key]) = some (.mk (valItems (getValues items)) false false (some n)) := by
    rw [lookupTbl_append, hl1]
    simp [lookupTbl, alookup_aset_same]
  obtain ⟨st2, its, hrun2, hdoc2, her⟩ := hit st1 V1 _ (pp ++ [key]) (hdoc1.trans hV1) hlook
    (by intro k hkm; simpa [Tbl.items, valItems_keys] using hn5 k hkm) hn1
  refine ⟨st2, .mk (valItems (getValues items) ++ its) false false (some n), ?_, ?_, ?_⟩
  · rw [visT_stmts, run_append]
    simp only [hdrStmt, if_true, hrun1, Option.bind]
    exact hrun2
  · rw [hdoc2, descend_append_false]
    refine descend_then V V1 U pp _ _ _ hV1 hU ?_
    simp only [aotF, Option.bind]
    rw [descend_cons_aot _ (.mk (valItems (getValues items)) false false (some n)) pre key [] false _
      (by simp [alookup_aset_same]) rfl]
    simp only [descend, appendF, Option.map, items_setItems, aset_aset]
    rfl
  · simp [eraseTbl, expectT, eraseItems_append, eraseItems_valItems, her]

theorem items_nil : ClaimItems [] := by
  intro st V W P hV hW _ _
  refine ⟨st, [], by simp [visItems, stmtsVs, run], ?_, rfl⟩
  rw [hV, descend_id V W P _ hW (by simp [appendF, setItems_self])]

theorem items_value (k : Bytes) (v : DVal) (r : List (Bytes × DItem)) (hr : ClaimItems r) :
    ClaimItems ((k, .value v) :: r) := by
  intro st V W P hV hW hk hn
  obtain ⟨st', its, h1, h2, h3⟩ := hr st V W P hV hW (by simpa [tableKeys] using hk) (by simpa [tableKeys] using hn)
  exact ⟨st', its, by simpa [visItems] using h1, h2, by simpa [expectTables] using h3⟩

theorem keys_after (W : Tbl) (k : Bytes) (i : Item) (r : List Bytes) (hk : ∀ a ∈ k :: r, a ∉ W.items.map Prod.fst)
    (hn : (k :: r).Nodup) : ∀ a ∈ r, a ∉ (W.setItems (W.items ++ [(k, i)])).items.map Prod.fst := by
  intro a ha hm
  simp only [items_setItems, List.map_append, List.map_cons, List.map_nil, List.mem_append, List.mem_singleton] at hm
  rcases hm with hm | hm
  · exact hk a (by simp [ha]) hm
  · subst hm; exact (List.nodup_cons.1 hn).1 ha

theorem items_table (k : Bytes) (s : DTbl) (r : List (Bytes × DItem)) (hs : ClaimStd s) (hr : ClaimItems r) :
    ClaimItems ((k, .table s) :: r) := by
  intro st V W P hV hW hk hn
  simp only [tableKeys] at hk hn
  have hkW : alookup k W.items = none := (alookup_none_iff _ _).2 (hk k (by simp))
  obtain ⟨st1, T', hrun1, hdoc1, her1⟩ := hs st V W P k hV hW hkW
  obtain ⟨V1, hV1, hl1⟩ := descend_some V W _ P (appendF [(k, .table T')]) hW rfl
  obtain ⟨st2, its, hrun2, hdoc2, her2⟩ := hr st1 V1 _ P (hdoc1.trans hV1) hl1 (keys_after W k _ _ hk hn)
    (List.nodup_cons.1 hn).2
  refine ⟨st2, (k, .table T') :: its, ?_, ?_, ?_⟩
  · simp only [visItems, stmtsVs_append, run_append, hrun1, Option.bind]
    exact hrun2
  · rw [hdoc2]
    refine descend_then V V1 W P _ _ _ hV1 hW ?_
    simp [appendF, Tbl.setItems, Tbl.items, Tbl.implicit, Tbl.dotted, Tbl.pos]
  · simp [eraseItems, expectTables, eraseItem, expectI, her1, her2]

theorem items_aot (k : Bytes) (ts : List DTbl) (r : List (Bytes × DItem)) (hne : ts ≠ []) (hs : ClaimAot ts)
    (hr : ClaimItems r) : ClaimItems ((k, .aot ts) :: r) := by
  intro st V W P hV hW hk hn
  simp only [tableKeys] at hk hn
  have hkW : alookup k W.items = none := (alookup_none_iff _ _).2 (hk k (by simp))
  obtain ⟨st1, ts', hrun1, hdoc1, her1⟩ := hs hne st V W P k [] hV hW (Or.inl ⟨hkW, rfl⟩)
  have hcongr : descend V P false (aotF k ([] ++ ts')) = descend V P false (appendF [(k, .aot ts')]) :=
    descend_congr_at V W P _ _ hW (by simp [aotF, appendF, aset_of_none _ _ _ hkW])
  rw [hcongr] at hdoc1
  obtain ⟨V1, hV1, hl1⟩ := descend_some V W _ P (appendF [(k, .aot ts')]) hW rfl
  obtain ⟨st2, its, hrun2, hdoc2, her2⟩ := hr st1 V1 _ P (hdoc1.trans hV1) hl1 (keys_after W k _ _ hk hn)
    (List.nodup_cons.1 hn).2
  refine ⟨st2, (k, .aot ts') :: its, ?_, ?_, ?_⟩
  · simp only [visItems, stmtsVs_append, run_append, hrun1, Option.bind]
    exact hrun2
  · rw [hdoc2]
    refine descend_then V V1 W P _ _ _ hV1 hW ?_
    simp [appendF, Tbl.setItems, Tbl.items, Tbl.implicit, Tbl.dotted, Tbl.pos]
  · simp [eraseItems, expectTables, eraseItem, expectI, her1, her2]

theorem aot_step (t : DTbl) (r : List DTbl) (ht : ClaimArr t) (hr : ClaimAot r) : ClaimAot (t :: r) := by
  intro _ st V U pp key pre hV hU hk
  obtain ⟨st1, T', hrun1, hdoc1, her1⟩ := ht st V U pp key pre hV hU hk
  cases r with
  | nil =>
    refine ⟨st1, [T'], ?_, hdoc1, by simp [eraseTbls, expectTs, her1]⟩
    simpa [visAot] using hrun1
  | cons t2 r2 =>
    obtain ⟨V1, hV1, hl1⟩ := descend_some V U _ pp (aotF key (pre ++ [T'])) hU rfl
    obtain ⟨st2, ts', hrun2, hdoc2, her2⟩ := hr (by simp) st1 V1 _ pp key (pre ++ [T']) (hdoc1.trans hV1) hl1
      (Or.inr (by simp [alookup_aset_same]))
    refine ⟨st2, T' :: ts', ?_, ?_, ?_⟩
    · rw [visAot, stmtsVs_append, run_append, hrun1]
      exact hrun2
    · rw [hdoc2]
      refine descend_then V V1 U pp _ _ _ hV1 hU ?_
      simp [aotF, aset_aset, Tbl.setItems, Tbl.items, Tbl.implicit, Tbl.dotted, Tbl.pos]
    · simp [eraseTbls, expectTs, her1, her2]

mutual
theorem claim_tbl : ∀ (s : DTbl) (n : Nat), OkT s n → ClaimStd s ∧ ClaimArr s
  | .mk items imp pos, n, h => by
    rw [OkT] at h
    have hi := claim_items items n h.2.2.2.2
    exact ⟨tbl_std items imp pos h.2.2.2.1 hi, tbl_arr items imp pos h.2.2.2.1 hi⟩
theorem claim_items : ∀ (items : List (Bytes × DItem)) (n : Nat), OkItems items n → ClaimItems items
  | [], _, _ => items_nil
  | (k, .value v) :: r, n, h => by
    rw [OkItems] at h
    exact items_value k v r (claim_items r n h.2)
  | (k, .table s) :: r, n, h => by
    rw [OkItems, OkI] at h
    exact items_table k s r (claim_tbl s (n + 1) h.1).1 (claim_items r n h.2)
  | (k, .aot ts) :: r, n, h => by
    rw [OkItems, OkI] at h
    exact items_aot k ts r h.1.1 (claim_aot ts (n + 1) h.1.2) (claim_items r n h.2)
theorem claim_aot : ∀ (ts : List DTbl) (n : Nat), OkTs ts n → ClaimAot ts
  | [], _, _ => fun h => absurd rfl h
  | t :: r, n, h => by
    rw [OkTs] at h
    exact aot_step t r (claim_tbl t n h.1).2 (claim_aot r n h.2)
end

end TomlVerif.Lemmas.Encode06d
