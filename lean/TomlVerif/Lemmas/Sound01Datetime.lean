import TomlVerif.Lemmas.Sound01Numbers
/-! Locality of the date-time parser: what `date_time` returns depends only on the bytes it consumes when what
    follows may follow a value (`ValFollowS`); and whether it backtracks depends on at most five bytes. -/
namespace TomlVerif.Lemmas.Sound01
open TomlVerif TomlVerif.Spec TomlVerif.Model TomlVerif.Model.Strings TomlVerif.Model.Value
open TomlVerif.Spec.AstValue TomlVerif.Lemmas.Value01 TomlVerif.Lemmas.Scalars01
open TomlVerif.Model.Datetime TomlVerif.Lemmas.Datetime12

theorem digits2_split (s r : Bytes) (v : Nat) (h : digits2 s = some (v, r)) :
    ∃ a b, s = a :: b :: r ∧ isDigit a = true ∧ isDigit b = true ∧ v = dval a * 10 + dval b ∧
      ∀ r', digits2 (a :: b :: r') = some (v, r') := by
  unfold digits2 at h
  split at h
  · rename_i a b r0
    split at h
    · rename_i hd
      injection h with h
      injection h with h1 h2
      subst h1 h2
      simp only [Bool.and_eq_true] at hd
      exact ⟨a, b, rfl, hd.1, hd.2, rfl, fun r' => by simp [digits2, hd.1, hd.2]⟩
    · cases h
  · cases h

theorem digits4_split (s r : Bytes) (v : Nat) (h : digits4 s = some (v, r)) :
    ∃ a b c d, s = a :: b :: c :: d :: r ∧ isDigit a = true ∧ isDigit b = true ∧ isDigit c = true ∧ isDigit d = true ∧
      ∀ r', digits4 (a :: b :: c :: d :: r') = some (v, r') := by
  unfold digits4 at h
  split at h
  · rename_i a b c d r0
    split at h
    · rename_i hd
      injection h with h
      injection h with h1 h2
      subst h1 h2
      simp only [Bool.and_eq_true] at hd
      exact ⟨a, b, c, d, rfl, hd.1.1.1, hd.1.1.2, hd.1.2, hd.2, fun r' => by
        simp [digits4, hd.1.1.1, hd.1.1.2, hd.1.2, hd.2]⟩
    · cases h
  · cases h

/-! ## when the date-time parser backtracks -/

theorem fullDate_ne_bt (a b c d : Byte) (X : Bytes) (ha : isDigit a = true) (hb : isDigit b = true)
    (hc : isDigit c = true) (hd : isDigit d = true) : Doc.fullDate (a :: b :: c :: d :: 0x2D :: X) ≠ .bt := by
  intro h
  unfold Doc.fullDate at h
  simp only [digits4, ha, hb, hc, hd, Bool.and_self, if_true] at h
  repeat' (first | cases h | split at h)

theorem fullDate_bt_of (s : Bytes)
    (h : ∀ a b c d X, s = a :: b :: c :: d :: 0x2D :: X → isDigit a = true → isDigit b = true → isDigit c = true →
      isDigit d = true → False) : Doc.fullDate s = .bt := by
  unfold Doc.fullDate
  cases h4 : digits4 s with
  | none => rfl
  | some p =>
    obtain ⟨y, r⟩ := p
    obtain ⟨a, b, c, d, e, ha, hb, hc, hd, _⟩ := digits4_split _ _ _ h4
    simp only []
    split
    · rename_i r1
      exact absurd (h a b c d r1 e ha hb hc hd) id
    · rfl

theorem partialTime_ne_bt (a b : Byte) (X : Bytes) (ha : isDigit a = true) (hb : isDigit b = true)
    (hh : dval a * 10 + dval b ≤ 23) : Doc.partialTime (a :: b :: 0x3A :: X) ≠ .bt := by
  intro h
  unfold Doc.partialTime at h
  simp only [digits2, ha, hb, Bool.and_self, if_true] at h
  have : (!decide (dval a * 10 + dval b ≤ 23)) = false := by simp [hh]
  simp only [this] at h
  repeat' (first | cases h | contradiction | split at h)

theorem partialTime_bt_of (s : Bytes)
    (h : ∀ a b X, s = a :: b :: 0x3A :: X → isDigit a = true → isDigit b = true → dval a * 10 + dval b ≤ 23 → False) :
    Doc.partialTime s = .bt := by
  unfold Doc.partialTime
  cases h2 : digits2 s with
  | none => rfl
  | some p =>
    obtain ⟨hr, r⟩ := p
    obtain ⟨a, b, e, ha, hb, ev, _⟩ := digits2_split _ _ _ h2
    simp only []
    split
    · rfl
    · rename_i hle
      split
      · rename_i r1
        exact absurd (h a b r1 e ha hb (by rw [← ev]; simpa using hle)) id
      · rfl

theorem dateTime_bt_iff (s : Bytes) : Doc.dateTime s = .bt ↔ Doc.fullDate s = .bt ∧ Doc.partialTime s = .bt := by
  constructor
  · intro h
    unfold Doc.dateTime at h
    cases hf : Doc.fullDate s with
    | ok d r =>
      rw [hf] at h
      simp only [] at h
      repeat' (first | cases h | split at h)
    | cut => rw [hf] at h; cases h
    | bt =>
      rw [hf] at h
      simp only [] at h
      refine ⟨rfl, ?_⟩
      cases hp : Doc.partialTime s with
      | ok t r => rw [hp] at h; cases h
      | cut => rw [hp] at h; cases h
      | bt => rfl
  · rintro ⟨h1, h2⟩
    unfold Doc.dateTime
    rw [h1]
    simp only [h2]

/-- what follows cannot continue a date or a time: not a digit, `-`, `:` -/
def DtStops (rest : Bytes) : Prop := ∀ b r, rest = b :: r → isDigit b = false ∧ b ≠ 0x2D ∧ b ≠ 0x3A

/-- whether `date_time` backtracks is decided inside the token -/
theorem dateTime_bt_transfer (tok rest rest' : Bytes) (h : Doc.dateTime (tok ++ rest) = .bt) (hr : DtStops rest') :
    Doc.dateTime (tok ++ rest') = .bt := by
  rw [dateTime_bt_iff] at h ⊢
  constructor
  · apply fullDate_bt_of
    intro a b c d X e ha hb hc hd
    rcases tok with _ | ⟨t1, _ | ⟨t2, _ | ⟨t3, _ | ⟨t4, _ | ⟨t5, tok⟩⟩⟩⟩⟩
    · simp only [List.nil_append] at e
      have := (hr _ _ e).1; rw [ha] at this; cases this
    · simp only [List.cons_append, List.nil_append, List.cons.injEq] at e
      have := (hr _ _ e.2).1; rw [hb] at this; cases this
    · simp only [List.cons_append, List.nil_append, List.cons.injEq] at e
      have := (hr _ _ e.2.2).1; rw [hc] at this; cases this
    · simp only [List.cons_append, List.nil_append, List.cons.injEq] at e
      have := (hr _ _ e.2.2.2).1; rw [hd] at this; cases this
    · simp only [List.cons_append, List.nil_append, List.cons.injEq] at e
      exact (hr _ _ e.2.2.2.2).2.1 rfl
    · simp only [List.cons_append, List.cons.injEq] at e
      obtain ⟨rfl, rfl, rfl, rfl, rfl, _⟩ := e
      exact fullDate_ne_bt _ _ _ _ (tok ++ rest) ha hb hc hd (by simpa using h.1)
  · apply partialTime_bt_of
    intro a b X e ha hb hh
    rcases tok with _ | ⟨t1, _ | ⟨t2, _ | ⟨t3, tok⟩⟩⟩
    · simp only [List.nil_append] at e
      have := (hr _ _ e).1; rw [ha] at this; cases this
    · simp only [List.cons_append, List.nil_append, List.cons.injEq] at e
      have := (hr _ _ e.2).1; rw [hb] at this; cases this
    · simp only [List.cons_append, List.nil_append, List.cons.injEq] at e
      exact (hr _ _ e.2.2).2.2 rfl
    · simp only [List.cons_append, List.cons.injEq] at e
      obtain ⟨rfl, rfl, rfl, _⟩ := e
      exact partialTime_ne_bt _ _ (tok ++ rest) ha hb hh (by simpa using h.2)

theorem follow_dtstops : ∀ b : UInt8, isFollowByte b = true → isDigit b = false ∧ b ≠ 0x2D ∧ b ≠ 0x3A :=
  forall_byte (by decide +kernel)

theorem dtStops_of_follow (rest : Bytes) (hr : ValFollow rest) : DtStops rest := by
  intro b r e
  subst e
  exact follow_dtstops b hr

/-! ## locality of the successful parses -/

theorem fullDate_local (s r : Bytes) (d : Date) (h : Doc.fullDate s = .ok d r) :
    ∃ tok, s = tok ++ r ∧ (∃ a X, tok = a :: X ∧ isDigit a = true) ∧ ∀ r', Doc.fullDate (tok ++ r') = .ok d r' := by
  unfold Doc.fullDate at h
  cases h4 : digits4 s with
  | none => rw [h4] at h; cases h
  | some p =>
    obtain ⟨year, r0⟩ := p
    obtain ⟨a, b, c, dd, e4, ha, _, _, _, loc4⟩ := digits4_split _ _ _ h4
    rw [h4] at h
    simp only [] at h
    split at h
    · rename_i r1
      cases h2 : digits2 r1 with
      | none => rw [h2] at h; cases h
      | some p2 =>
        obtain ⟨month, r2⟩ := p2
        obtain ⟨m1, m2, e2, _, _, _, loc2⟩ := digits2_split _ _ _ h2
        rw [h2] at h
        simp only [] at h
        split at h
        · cases h
        · rename_i hm
          split at h
          · rename_i r3
            cases h2' : digits2 r3 with
            | none => rw [h2'] at h; cases h
            | some p3 =>
              obtain ⟨day, r4⟩ := p3
              obtain ⟨d1, d2, e3, _, _, _, loc3⟩ := digits2_split _ _ _ h2'
              rw [h2'] at h
              simp only [] at h
              split at h
              · cases h
              · rename_i hday
                split at h
                · cases h
                · rename_i hmax
                  injection h with h1 h2
                  subst h1 h2
                  refine ⟨[a, b, c, dd, 0x2D, m1, m2, 0x2D, d1, d2], by rw [e4, e2, e3]; simp, ⟨a, _, rfl, ha⟩, ?_⟩
                  intro r'
                  unfold Doc.fullDate
                  simp only [List.cons_append, List.nil_append, loc4, loc2]
                  rw [if_neg hm]
                  simp only [loc3]
                  rw [if_neg hday, if_neg hmax]
          · cases h
    · cases h

theorem takeDigits_eq (w : Bytes) : w = (takeDigits w).1 ++ (takeDigits w).2 := by
  induction w with
  | nil => simp [takeDigits]
  | cons a r ih =>
    rw [takeDigits_fst]
    by_cases h : isDigit a = true
    · simp only [h, if_true, List.cons_append]; rw [← ih]
    · simp [h]

theorem secfrac_local (s r : Bytes) (ns : Nat) (h : Doc.secfracOpt s = (ns, r)) :
    ∃ tok, s = tok ++ r ∧ (∀ c X, tok = c :: X → isDigit c = false) ∧
      ∀ r', TimeFollow r' → Doc.secfracOpt (tok ++ r') = (ns, r') := by
  have hnil : ∀ r0, (0, r0) = (ns, r) → ∃ tok, r0 = tok ++ r ∧ (∀ c X, tok = c :: X → isDigit c = false) ∧
      ∀ r', TimeFollow r' → Doc.secfracOpt (tok ++ r') = (ns, r') := by
    intro r0 e
    injection e with e1 e2
    subst e1 e2
    exact ⟨[], rfl, (fun c X e => by cases e), fun r' hr => secfracOpt_none r' hr⟩
  cases s with
  | nil => exact hnil [] (by rw [← h]; rfl)
  | cons b w =>
    by_cases hb : b = 0x2E
    · subst hb
      rw [secfracOpt_dot] at h
      by_cases hds : (takeDigits w).1 = []
      · rw [if_pos hds] at h
        exact hnil _ h
      · rw [if_neg hds] at h
        injection h with h1 h2
        subst h1 h2
        have hw := takeDigits_eq w
        have hsnd := takeDigits_snd w
        refine ⟨0x2E :: (takeDigits w).1, ?_, ?_, ?_⟩
        · rw [← hsnd]; simp only [List.cons_append]; rw [← hw]
        · intro c X e; injection e with e1 _; rw [← e1]; decide
        · intro r' hr
          have htd := takeDigits_append (takeDigits w).1 r' (takeDigits_all w) (fun b r'' e => (hr b r'' e).1)
          rw [List.cons_append, secfracOpt_dot, htd]
          simp only [hds, if_false, List.drop_left]
    · have : Doc.secfracOpt (b :: w) = (0, b :: w) := by
        unfold Doc.secfracOpt
        split
        · rename_i heq; injection heq with heq _; exact absurd heq hb
        · rfl
      rw [this] at h
      exact hnil _ h

theorem partialTime_local (s r : Bytes) (t : Time) (h : Doc.partialTime s = .ok t r) :
    ∃ tok, s = tok ++ r ∧ (∃ a b X, tok = a :: b :: 0x3A :: X ∧ isDigit a = true) ∧
      ∀ r', TimeFollow r' → Doc.partialTime (tok ++ r') = .ok t r' := by
  unfold Doc.partialTime at h
  cases h1 : digits2 s with
  | none => rw [h1] at h; cases h
  | some p =>
    obtain ⟨hour, r0⟩ := p
    obtain ⟨a, b, e1, ha, _, _, loc1⟩ := digits2_split _ _ _ h1
    rw [h1] at h
    simp only [] at h
    split at h
    · cases h
    · rename_i hh
      split at h
      · rename_i r1
        cases h2 : digits2 r1 with
        | none => rw [h2] at h; cases h
        | some p2 =>
          obtain ⟨minute, r2⟩ := p2
          obtain ⟨m1, m2, e2, _, _, _, loc2⟩ := digits2_split _ _ _ h2
          rw [h2] at h
          simp only [] at h
          split at h
          · cases h
          · rename_i hm
            split at h
            · rename_i r3
              cases h3 : digits2 r3 with
              | none => rw [h3] at h; cases h
              | some p3 =>
                obtain ⟨second, r4⟩ := p3
                obtain ⟨s1, s2, e3, _, _, _, loc3⟩ := digits2_split _ _ _ h3
                rw [h3] at h
                simp only [] at h
                split at h
                · cases h
                · rename_i hs
                  cases hsf : Doc.secfracOpt r4 with
                  | mk ns r5 =>
                    rw [hsf] at h
                    simp only [] at h
                    injection h with h1' h2'
                    subst h1' h2'
                    obtain ⟨tokF, eF, _, locF⟩ := secfrac_local _ _ _ hsf
                    refine ⟨a :: b :: 0x3A :: m1 :: m2 :: 0x3A :: s1 :: s2 :: tokF, by rw [e1, e2, e3, eF]; simp,
                      ⟨a, b, _, rfl, ha⟩, ?_⟩
                    intro r' hr
                    unfold Doc.partialTime
                    simp only [List.cons_append, loc1]
                    rw [if_neg hh]
                    simp only [loc2]
                    rw [if_neg hm]
                    simp only [loc3]
                    rw [if_neg hs]
                    simp only [locF r' hr]
            · cases h
      · cases h

theorem offset_head_facts : ∀ c : UInt8, (c == 0x5A || c == 0x7A) = true ∨ (c == 0x2B || c == 0x2D) = true →
    isDigit c = false ∧ c ≠ 0x2E :=
  forall_byte (by decide +kernel)

theorem timeOffset_local (s r : Bytes) (o : Offset) (h : Doc.timeOffset s = .ok o r) :
    ∃ tok, s = tok ++ r ∧ (∃ c X, tok = c :: X ∧ isDigit c = false ∧ c ≠ 0x2E) ∧
      ∀ r', Doc.timeOffset (tok ++ r') = .ok o r' := by
  unfold Doc.timeOffset at h
  split at h
  · cases h
  · rename_i c r0
    split at h
    · rename_i hz
      injection h with h1 h2
      subst h1 h2
      have hf := offset_head_facts c (Or.inl hz)
      exact ⟨[c], rfl, ⟨c, [], rfl, hf.1, hf.2⟩, fun r' => by simp only [List.cons_append, List.nil_append, Doc.timeOffset, hz, if_true]⟩
    · rename_i hz
      split at h
      · rename_i hpm
        have hf := offset_head_facts c (Or.inr hpm)
        cases h1 : digits2 r0 with
        | none => rw [h1] at h; cases h
        | some p =>
          obtain ⟨hh, r1⟩ := p
          obtain ⟨a, b, e1, _, _, _, loc1⟩ := digits2_split _ _ _ h1
          rw [h1] at h
          simp only [] at h
          split at h
          · cases h
          · rename_i hh23
            split at h
            · rename_i r2
              cases h2 : digits2 r2 with
              | none => rw [h2] at h; cases h
              | some p2 =>
                obtain ⟨mm, r3⟩ := p2
                obtain ⟨m1, m2, e2, _, _, _, loc2⟩ := digits2_split _ _ _ h2
                rw [h2] at h
                simp only [] at h
                split at h
                · cases h
                · rename_i hm59
                  generalize hsg : (if (c == 0x2B) = true then (1 : Int) else -1) = sg at h
                  split at h
                  · rename_i hrange
                    injection h with h1' h2'
                    subst h1' h2'
                    refine ⟨[c, a, b, 0x3A, m1, m2], by rw [e1, e2]; simp, ⟨c, _, rfl, hf.1, hf.2⟩, ?_⟩
                    intro r'
                    unfold Doc.timeOffset
                    simp only [List.cons_append, List.nil_append]
                    rw [if_neg hz, if_pos hpm]
                    simp only [loc1]
                    rw [if_neg hh23]
                    simp only [loc2]
                    rw [if_neg hm59]
                    simp only [hsg]
                    rw [if_pos hrange]
                  · cases h
            · cases h
      · cases h

theorem dateTime_dto (s r' r'' r3 : Bytes) (c : Byte) (d : Date) (t : Time) (o : Offset)
    (h1 : Doc.fullDate s = .ok d (c :: r')) (hc : Doc.isTimeDelim c = true) (h2 : Doc.partialTime r' = .ok t r'')
    (h3 : Doc.timeOffset r'' = .ok o r3) : Doc.dateTime s = .ok ⟨some d, some t, some o⟩ r3 := by
  unfold Doc.dateTime
  rw [h1]
  simp only [hc, if_true, h2, h3]

theorem dateTime_dt (s r' r'' : Bytes) (c : Byte) (d : Date) (t : Time)
    (h1 : Doc.fullDate s = .ok d (c :: r')) (hc : Doc.isTimeDelim c = true) (h2 : Doc.partialTime r' = .ok t r'')
    (h3 : Doc.timeOffset r'' = .bt) : Doc.dateTime s = .ok ⟨some d, some t, none⟩ r'' := by
  unfold Doc.dateTime
  rw [h1]
  simp only [hc, if_true, h2, h3]

theorem dateTime_d (s r : Bytes) (d : Date) (h1 : Doc.fullDate s = .ok d r)
    (h2 : ∀ c r', r = c :: r' → Doc.isTimeDelim c = true → Doc.partialTime r' = .bt) :
    Doc.dateTime s = .ok ⟨some d, none, none⟩ r := by
  unfold Doc.dateTime
  rw [h1]
  cases r with
  | nil => rfl
  | cons c r' =>
    simp only
    by_cases hc : Doc.isTimeDelim c = true
    · simp only [hc, if_true, h2 c r' rfl hc]
    · simp only [hc]
      rfl

theorem dateTime_t (s r : Bytes) (t : Time) (h1 : Doc.fullDate s = .bt) (h2 : Doc.partialTime s = .ok t r) :
    Doc.dateTime s = .ok ⟨none, some t, none⟩ r := by
  unfold Doc.dateTime
  rw [h1]
  simp only [h2]

/-- a date followed by something a value may end before is a date only -/
theorem date_only_follow (rest' : Bytes) (hr : ValFollowS rest') :
    ∀ c r', rest' = c :: r' → Doc.isTimeDelim c = true → Doc.partialTime r' = .bt := by
  intro c r' e hc
  subst e
  have hc' := (follow_dt_facts c hr.1).2.2.2.2 hc
  subst hc'
  exact partialTime_bt_nodigit r' (fun b r e => hr.2 b r (by rw [e]))

/-- **date-times**: before anything a value may end before, the consumed text is read back as the same date-time -/
theorem dateTime_local (s rest : Bytes) (dt : Datetime) (h : Doc.dateTime s = .ok dt rest) :
    ∃ tok, s = tok ++ rest ∧ (∃ a X, tok = a :: X ∧ isDigit a = true) ∧
      ∀ rest', ValFollowS rest' → Doc.dateTime (tok ++ rest') = .ok dt rest' := by
  cases hf : Doc.fullDate s with
  | cut => unfold Doc.dateTime at h; rw [hf] at h; cases h
  | bt =>
    unfold Doc.dateTime at h
    rw [hf] at h
    simp only [] at h
    cases hp : Doc.partialTime s with
    | bt => rw [hp] at h; cases h
    | cut => rw [hp] at h; cases h
    | ok t r =>
      rw [hp] at h
      simp only [] at h
      injection h with h1 h2
      subst h1 h2
      obtain ⟨tokT, eT, ⟨a, b, X, et, ha⟩, locT⟩ := partialTime_local _ _ _ hp
      refine ⟨tokT, eT, ⟨a, _, et, ha⟩, ?_⟩
      intro rest' hr
      refine dateTime_t _ _ _ ?_ (locT rest' (timeFollow_of_follow rest' hr.1))
      rw [et]
      exact fullDate_colon a b _
  | ok d r =>
    obtain ⟨tokD, eD, hhead, locD⟩ := fullDate_local _ _ _ hf
    have hdate : ∀ rest', ValFollowS rest' → Doc.dateTime (tokD ++ rest') = .ok ⟨some d, none, none⟩ rest' :=
      fun rest' hr => dateTime_d _ _ _ (locD rest') (date_only_follow rest' hr)
    unfold Doc.dateTime at h
    rw [hf] at h
    simp only [] at h
    cases r with
    | nil =>
      simp only [] at h
      injection h with h1 h2
      subst h1 h2
      exact ⟨tokD, eD, hhead, hdate⟩
    | cons c r' =>
      simp only [] at h
      by_cases hc : Doc.isTimeDelim c = true
      · simp only [hc, if_true] at h
        cases hp : Doc.partialTime r' with
        | cut => rw [hp] at h; cases h
        | bt =>
          rw [hp] at h
          simp only [] at h
          injection h with h1 h2
          subst h1 h2
          exact ⟨tokD, eD, hhead, hdate⟩
        | ok t r'' =>
          rw [hp] at h
          simp only [] at h
          obtain ⟨tokT, eT, _, locT⟩ := partialTime_local _ _ _ hp
          cases ho : Doc.timeOffset r'' with
          | cut => rw [ho] at h; cases h
          | bt =>
            rw [ho] at h
            simp only [] at h
            injection h with h1 h2
            subst h1 h2
            obtain ⟨a, X, et, ha⟩ := hhead
            refine ⟨tokD ++ c :: tokT, by rw [eD, eT]; simp, ⟨a, X ++ c :: tokT, by rw [et]; simp, ha⟩, ?_⟩
            intro rest' hr
            have happ : (tokD ++ c :: tokT) ++ rest' = tokD ++ (c :: (tokT ++ rest')) := by simp
            rw [happ]
            exact dateTime_dt _ _ _ _ _ _ (locD _) hc (locT rest' (timeFollow_of_follow rest' hr.1))
              (timeOffset_bt_follow rest' hr.1)
          | ok o r3 =>
            rw [ho] at h
            simp only [] at h
            injection h with h1 h2
            subst h1 h2
            obtain ⟨tokO, eO, ⟨co, XO, eto, hco1, hco2⟩, locO⟩ := timeOffset_local _ _ _ ho
            obtain ⟨a, X, et, ha⟩ := hhead
            refine ⟨tokD ++ c :: (tokT ++ tokO), by rw [eD, eT, eO]; simp, ⟨a, X ++ c :: (tokT ++ tokO), by rw [et]; simp, ha⟩, ?_⟩
            intro rest' _
            have happ : (tokD ++ c :: (tokT ++ tokO)) ++ rest' = tokD ++ (c :: (tokT ++ (tokO ++ rest'))) := by simp
            rw [happ]
            refine dateTime_dto _ _ _ _ _ _ _ _ (locD _) hc (locT _ ?_) (locO rest')
            intro b r'' e
            rw [eto] at e
            simp only [List.cons_append] at e
            injection e with e1 _
            rw [← e1]
            exact ⟨hco1, hco2⟩
      · simp only [hc] at h
        injection h with h1 h2
        subst h1 h2
        exact ⟨tokD, eD, hhead, hdate⟩

end TomlVerif.Lemmas.Sound01
