import TomlVerif.Lemmas.Tiling03MoreVSMain
/-! Value-level "same data" (C03): the `cvalue` step of the induction (scalars, arrays, inline tables —
    the inline table is reassembled from its flattened, regrouped entries by the rebuild lemma) and
    the renderability theorem. -/
namespace TomlVerif.Lemmas.Tiling03More.VS
open TomlVerif TomlVerif.Spec TomlVerif.Model TomlVerif.Model.Strings TomlVerif.Model.Value
open TomlVerif.Model.Cst TomlVerif.Model.Encode TomlVerif.Lemmas.Suffix03 TomlVerif.Lemmas.Cst03
open TomlVerif.Lemmas.Tiling03 TomlVerif.Spec.AstValue TomlVerif.Spec.AstValueQ TomlVerif.Lemmas.Spans14
open TomlVerif.Lemmas.Refine08c TomlVerif.Lemmas.Refine08bSem

theorem preP_nil (l : List STriple) : l.map (preP []) = l := by
  induction l with
  | nil => rfl
  | cons e l ih => obtain ⟨a, b, c⟩ := e; simp [preP, ih]

theorem GVal_imp (inp : Bytes) (D : Nat) : ∀ n v, GVal inp D n v → impInl v = false :=
  fun _ _ h => h.2.2.2.2.1

theorem GVal_leaf (inp : Bytes) (D : Nat) : ∀ n v, GVal inp D n v → LeafG v :=
  fun _ _ h => h.2.2.2

/-- the inline-table case: the item list built from the parsed entries, flattened and printed, is a
    list of well-formed pairs that `table_from_pairs` assembles into the erased item list -/
theorem inline_pairs (inp : Bytes) (d : Nat) (hlim : d + 1 < LIMIT) (kvs : List Triple) (items : VItems)
    (hit : ctableFromPairs kvs [] = some items) (hkvs : ∀ t ∈ kvs, TripleOK inp (d + 1) t) :
    ∃ pairs : List (QDKey × Bytes × QVal × Bytes), WFPairsQ pairs ∧
      renderPairsQ pairs = (encodeInl stripCr inp items [] 0 (countInl items)).1 ∧
      tableFromPairs (flatPairsQ pairs) [] = some (eraseKvs items) ∧ d + 1 + depthPairsQ pairs < LIMIT := by
  have hiok : IokL (GKey inp) (GVal inp (d + 1)) 0 items := by
    refine ctableFromPairs_Iok (GKey inp) (GVal inp (d + 1)) (GVal_imp inp (d + 1)) kvs [] items hit (by rw [IokL]; trivial) ?_
    intro t ht
    obtain ⟨h1, h2, h3, _⟩ := hkvs t ht
    exact ⟨h1, h2, h3, h3.2.2.2.1⟩
  have hent : ∀ e ∈ valuesInl items [], EOK inp (d + 1) e := by
    intro e he
    obtain ⟨rel, m, e1, e2, e3, e4⟩ := IokL_entries (GKey inp) (GVal inp (d + 1)) items 0 [] hiok e he
    simp only [List.nil_append] at e1
    exact ⟨m, by rw [e1]; omega, by rw [e1]; exact e3, e4⟩
  obtain ⟨pairs, p1, p2, p3, p4⟩ := entries_pairs inp (d + 1) (by omega) hlim (valuesInl items []) 0 (countInl items) hent
  simp only [bne_self_eq_false, Bool.false_eq_true, if_false] at p2
  have hpairsOK : PairsOK kvs := fun t ht => (hkvs t ht).2.2.2
  have herase := ctableFromPairs_erase kvs [] hpairsOK AllKV.nil
  rw [hit] at herase
  simp only [Option.map_some] at herase
  have hrb : RbL (eraseKvs items) := by
    refine tableFromPairs_Rb (eraseTriples kvs) (eraseKvs []) (eraseKvs items) herase.symm (by simp [eraseKvs, RbL]) ?_
    intro e he
    simp only [eraseTriples, List.mem_map] at he
    obtain ⟨t, ht, rfl⟩ := he
    exact (hkvs t ht).2.2.1.2.2.2.2.2
  have hflat : flatPairsQ pairs = sflat (eraseKvs items) := by
    rw [p3, valuesInl_sflat (GVal inp (d + 1)) (GVal_leaf inp (d + 1)) items 0 []
      (IokL_weaken (GKey inp) (fun _ => True) _ (fun _ _ => trivial) 0 items hiok)]
    exact preP_nil _
  refine ⟨pairs, p1, ?_, ?_, p4⟩
  · rw [p2, encodeInl_values]
  · rw [hflat]; exact tableFromPairs_rebuild _ hrb

theorem ctableFromPairs_nil_items (items : VItems) (h : ctableFromPairs [] [] = some items) : items = [] := by
  simp only [ctableFromPairs] at h; injection h with h; exact h.symm

theorem rstep1 (inp : Bytes) (fuel : Nat) (ih2 : R2 inp fuel) (ih4 : R4 inp fuel) : R1 inp (fuel + 1) := by
  intro d s v r hinp h
  have hP4 := (value_main inp fuel).2.2.2
  unfold cvalue at h
  split at h
  · cases h
  · rename_i b r0
    have hr0 : r0 <:+ inp := (List.suffix_cons b r0).trans hinp
    split at h
    · -- array
      split at h
      · cases h
      · rename_i hlim
        split at h
        · rename_i vs comma tr r1 hav
          obtain ⟨qitems, tail, hwf, htl, hren, htr, hsem, hdep⟩ := ih2 _ _ _ _ _ _ hr0 hav
          split at h
          · rename_i r2
            injection h with h1 h2; subst h2; subst h1
            refine ⟨⟨.arr qitems (comma && !vs.isEmpty) tail, ?_, ?_, ?_, ?_⟩, ?_⟩
            · rw [WFQ]
              refine ⟨hwf, htl, ?_⟩
              intro e
              subst e
              simp only [semItemsQ] at hsem
              cases vs with
              | nil => simp
              | cons a l => simp [eraseVals] at hsem
            · simp only [renderQ, core, CVal.setDecor, encodeValue, prefixEncode, suffixEncode, hren, htr]
              simp
            · simp [semQ, eraseVal, hsem]
            · right
              simp only [depthQ]
              omega
            · refine ⟨rfl, rfl, ?_⟩
              intro sub imp dot e
              simp [eraseVal] at e
          · cases h
        · cases h
    · split at h
      · -- inline table
        split at h
        · cases h
        · rename_i hlim
          split at h
          · rename_i kvs r1 hkv
            have hr1s := hP4 _ _ _ _ _ hr0 hkv
            have hr1 : r1 <:+ inp := hr1s.trans hr0
            obtain ⟨new, e1, e2, e3⟩ := ih4 _ _ _ _ _ hr0 hkv
            simp only [List.nil_append] at e1
            subst e1
            simp only [] at h
            split at h
            · cases h
            · rename_i items hit
              split at h
              · rename_i r2 heq
                injection h with h1' h2; subst h2; subst h1'
                obtain ⟨pairs, p1, p2, p3, p4⟩ := inline_pairs inp d (by omega) kvs items hit e3
                have hT : AllWs (encRaw stripCr inp (rawBetween inp.length r1 (dropWs r1))) := by
                  simp only [encRaw]
                  rw [allWs_strip _ (dropWs_rawText inp r1 hr1)]
                  exact dropWs_rawText inp r1 hr1
                have hcomm : encRaw stripCr inp (rawBetween inp.length r1 (dropWs r1)) ++ renderPairsQ pairs
                    = renderPairsQ pairs ++ encRaw stripCr inp (rawBetween inp.length r1 (dropWs r1)) := by
                  rcases e2 with e2 | e2
                  · subst e2
                    have := ctableFromPairs_nil_items items hit
                    subst this
                    rw [p2]
                    simp [encodeInl]
                  · rw [e2, rawBetween_self]
                    simp [encRaw, rawText, stripCr]
                refine ⟨⟨.inl pairs (encRaw stripCr inp (rawBetween inp.length r1 (dropWs r1))), ?_, ?_, ?_, ?_⟩, ?_⟩
                · rw [WFQ]
                  exact ⟨p1, hT, by rw [p3]; rfl⟩
                · simp only [renderQ, core, CVal.setDecor, encodeValue, prefixEncode, suffixEncode, ← p2]
                  simp only [List.nil_append, List.append_nil, List.append_assoc, List.cons_append]
                  rw [← List.append_assoc, ← List.append_assoc, hcomm]
                · simp [semQ, eraseVal, p3]
                · right
                  simp only [depthQ]
                  omega
                · refine ⟨rfl, rfl, ?_⟩
                  intro sub imp dot e
                  simp only [eraseVal] at e
                  injection e with _ e2 e3
                  exact ⟨e2.symm, e3.symm⟩
              · cases h
          · cases h
      · -- scalar
        split at h
        · rename_i v0 r1 hv
          injection h with h1 h2; subst h2; subst h1
          obtain ⟨a, hw, e, hsem, hdep⟩ := TomlVerif.Props.C01Sound.T01_value_sound 1 d (b :: r0) r1 v0 hv
          refine ⟨⟨a, hw, ?_, hsem, hdep⟩, rfl, rfl, SLeaf_notInl v0 (scalar_notInl d _ _ _ hv)⟩
          simp only [core, CVal.setDecor, encodeValue, prefixEncode, suffixEncode]
          rw [rawText_between inp (b :: r0) (renderQ a) r1 hinp e]
          simp
        · cases h
        · cases h

theorem rmain (inp : Bytes) : ∀ fuel : Nat, R1 inp fuel ∧ R2 inp fuel ∧ R3 inp fuel ∧ R4 inp fuel := by
  intro fuel
  induction fuel with
  | zero =>
    refine ⟨?_, ?_, ?_, ?_⟩
    · intro d s v r _ h; unfold cvalue at h; cases h
    · intro d s vs comma tr r _ h; unfold carrayValues at h; cases h
    · intro d s acc vs r _ h; unfold carrayElems at h; cases h
    · intro d s acc kvs r _ h; unfold cinlineKeyvals at h; cases h
  | succ fuel ih =>
    obtain ⟨ih1, ih2, ih3, ih4⟩ := ih
    exact ⟨rstep1 inp fuel ih2 ih4, rstep2 inp fuel ih3, rstep3 inp fuel ih1 ih3, rstep4 inp fuel ih1 ih4⟩

/-- **renderability of parsed values**: the printed text of a parsed value is the rendering of a
    well-formed grammar tree that denotes the erased value and nests below the limit -/
theorem cvalue_renderable (inp : Bytes) (fuel d : Nat) (s r : Bytes) (v : CVal) (hs : s <:+ inp)
    (h : cvalue inp.length fuel d s = .ok v r) :
    ∃ q : QVal, WFQ q ∧ renderQ q = encodeValue stripCr inp v [] [] ∧ semQ q = eraseVal v ∧
      (depthQ q = 0 ∨ d + depthQ q < LIMIT) := by
  obtain ⟨⟨q, h1, h2, h3, h4⟩, _⟩ := (rmain inp fuel).1 d s v r hs h
  obtain ⟨_, _, _, hdec, _⟩ := cvalue_tiling inp fuel d s r v hs h
  refine ⟨q, h1, ?_, h3, h4⟩
  rw [h2, encodeValue_core, hdec]
  simp [prefixEncode, suffixEncode, emptyDecor, Decor.new, encRaw, rawText, stripCr]

end TomlVerif.Lemmas.Tiling03More.VS
