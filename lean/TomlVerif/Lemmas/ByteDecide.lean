import TomlVerif.Basic
namespace TomlVerif

/-- lift a fact checked on all 256 byte values to every `UInt8` -/
theorem forall_byte {p : UInt8 → Prop} (h : ∀ n : Fin 256, p (UInt8.ofNat n.val)) : ∀ b, p b := by
  intro b
  have := h ⟨b.toNat, b.toNat_lt⟩
  simpa using this

end TomlVerif
