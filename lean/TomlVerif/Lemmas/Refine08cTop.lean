import TomlVerif.Lemmas.Refine08cPrint
import TomlVerif.Lemmas.Spans14Doc
/-! No table of a parsed document stores a dotted inline table directly (the parser creates dotted
    inline tables only inside inline tables), so every key/value entry of a parsed document prints as
    one line `k = v`. Same walk through the parse state as `Refine08cParse.lean`. -/
namespace TomlVerif.Lemmas.Refine08c
open TomlVerif TomlVerif.Spec TomlVerif.Model TomlVerif.Model.Strings TomlVerif.Model.Value
open TomlVerif.Model.Cst TomlVerif.Model.Edit TomlVerif.Lemmas.Cst03 TomlVerif.Lemmas.Spans14

mutual
/-- no value stored directly in the table, or in a table below it, is a dotted inline table -/
def TND : CTbl → Prop
  | .mk items _ _ _ _ _ => IND items
def IND : List (CKey × CItem) → Prop
  | [] => True
  | (_, it) :: r => (match it with
      | .value v => notDottedInl v = true
      | .table t => TND t
      | .aot ts _ => TsND ts) ∧ IND r
def TsND : List CTbl → Prop
  | [] => True
  | t :: r => TND t ∧ TsND r
end

def ItemND : CItem → Prop
  | .value v => notDottedInl v = true
  | .table t => TND t
  | .aot ts _ => TsND ts ∧ True

theorem IND_iff (l : List (CKey × CItem)) : IND l ↔ AllKV (fun _ => True) ItemND l := by
  induction l with
  | nil => simp [IND, AllKV]
  | cons kv r ih =>
    obtain ⟨k, it⟩ := kv
    rw [AllKV.cons, ← ih]
    cases it <;> simp [IND, ItemND]

theorem TsND_iff (l : List CTbl) : TsND l ↔ ∀ t ∈ l, TND t := by
  induction l with
  | nil => simp [TsND]
  | cons t r ih => simp [TsND, ih]

theorem TND_iff (t : CTbl) : TND t ↔ AllKV (fun _ => True) ItemND t.items := by
  cases t
  simp only [TND, IND_iff, CTbl.items]

theorem TND_mk (items : List (CKey × CItem)) (i d : Bool) (p : Option Nat) (dec : Decor) (sp : Option Span) :
    TND (.mk items i d p dec sp) ↔ AllKV (fun _ => True) ItemND items := TND_iff _

theorem TND_setItems (t : CTbl) (items : List (CKey × CItem)) :
    TND (t.setItems items) ↔ AllKV (fun _ => True) ItemND items := by
  cases t; exact TND_mk _ _ _ _ _ _

theorem TND_setSpan (t : CTbl) (sp : Option Span) : TND (t.setSpan sp) ↔ TND t := by
  cases t
  simp only [CTbl.setSpan, CTbl.items, CTbl.implicit, CTbl.dotted, CTbl.pos, CTbl.decor, TND_mk]

theorem notDottedInl_setDecor (v : CVal) (d : Decor) : notDottedInl (v.setDecor d) = notDottedInl v := by
  cases v <;> rfl

/-- what `value` returns is an array, a scalar or an inline table that is not dotted -/
theorem cvalue_notDotted (n fuel d : Nat) (s r : Bytes) (v : CVal) (h : cvalue n fuel d s = .ok v r) :
    notDottedInl v = true := by
  cases fuel with
  | zero => unfold cvalue at h; cases h
  | succ fuel =>
    unfold cvalue at h
    split at h
    · cases h
    · split at h
      · split at h
        · cases h
        · split at h
          · split at h
            · injection h with h1 h2; subst h1; rfl
            · cases h
          · cases h
      · split at h
        · split at h
          · cases h
          · split at h
            · simp only [] at h
              split at h
              · cases h
              · split at h
                · injection h with h1 h2; subst h1; rfl
                · cases h
            · cases h
        · split at h
          · injection h with h1 h2; subst h1; rfl
          · cases h
          · cases h

/-- the entries a path-and-membership lookup finds -/
theorem TND_mem {T : CTbl} (h : TND T) {k : CKey} {v : CVal} (hm : (k, CItem.value v) ∈ T.items) :
    notDottedInl v = true :=
  ((TND_iff T).1 h (k, .value v) hm).2

/-! ### the parse state -/

theorem TND_newImplicit (d : Bool) : TND (newImplicit d) := by
  simp only [newImplicit, TND_mk]; exact AllKV.nil

theorem TND_empty : TND CTbl.empty := by
  simp only [CTbl.empty, TND_mk]; exact AllKV.nil

theorem entry_nd {t : CTbl} (ht : TND t) (k : Bytes) (dotted : Bool) :
    ItemND ((clookup k t.items).getD (.table (newImplicit dotted))) := by
  cases hl : clookup k t.items with
  | none => exact TND_newImplicit dotted
  | some e => exact AllKV.lookup ((TND_iff _).1 ht) hl

theorem descend_nd (f : CTbl → Option CTbl) (hf : ∀ u u', TND u → f u = some u' → TND u') :
    ∀ (path : List CKey) (t : CTbl) (dotted : Bool) (t' : CTbl),
      TND t → descend t path dotted f = some t' → TND t' := by
  intro path
  induction path with
  | nil =>
    intro t dotted t' ht h
    unfold descend at h
    exact hf _ _ ht h
  | cons k ks ih =>
    intro t dotted t' ht h
    have hent := entry_nd ht k.key dotted
    have ht2 := (TND_iff _).1 ht
    unfold descend at h
    simp only [] at h
    generalize (clookup k.key t.items).getD (.table (newImplicit dotted)) = entry at h hent
    cases entry with
    | value v => cases h
    | aot ts sp =>
      simp only [] at h
      split at h
      · cases h
      · split at h
        · rename_i ts' hml
          injection h with h; subst h
          obtain ⟨init, l, l', e1, hfl, e2⟩ := modifyLast_some hml
          subst e1; subst e2
          have hts := (TsND_iff _).1 hent.1
          have hl' := ih _ _ _ (hts l (by simp)) hfl
          rw [TND_setItems]
          refine AllKV.cset ht2 trivial ⟨?_, trivial⟩
          rw [TsND_iff]
          intro x hx
          rcases List.mem_append.1 hx with hx | hx
          · exact hts x (List.mem_append_left _ hx)
          · simp at hx; subst hx; exact hl'
        · cases h
    | table sub =>
      simp only [] at h
      split at h
      · cases h
      · split at h
        · rename_i sub' hsub
          injection h with h; subst h
          have hs' : ItemND (.table sub') := ih _ _ _ hent hsub
          rw [TND_setItems]
          exact AllKV.cset ht2 trivial hs'
        · cases h

theorem findTable_nd (key : Bytes) : ∀ (path : List CKey) (t x : CTbl), TND t →
    findTable key t path = some x → TND x := by
  intro path
  induction path with
  | nil =>
    intro t x ht h
    unfold findTable at h
    split at h
    · rename_i y hl
      injection h with h; subst h
      have hent : ItemND (.table y) := AllKV.lookup ((TND_iff _).1 ht) hl
      exact hent
    · cases h
  | cons k ks ih =>
    intro t x ht h
    unfold findTable at h
    split at h
    · rename_i sub hl
      have hent : ItemND (.table sub) := AllKV.lookup ((TND_iff _).1 ht) hl
      exact ih _ _ hent h
    · rename_i ts sp hl
      have hent : ItemND (.aot ts sp) := AllKV.lookup ((TND_iff _).1 ht) hl
      split at h
      · rename_i l rest hrev
        have hmem : l ∈ ts := by
          have : l ∈ ts.reverse := by rw [hrev]; simp
          simpa using this
        exact ih _ _ ((TsND_iff _).1 hent.1 l hmem) h
      · cases h
    · cases h

/-- the invariant of the parse state: root and current table -/
structure NInv (st : CState) : Prop where
  root : TND st.root
  cur : TND st.current

theorem NInv.init : NInv {} := ⟨TND_empty, by rw [TND_mk]; exact AllKV.nil⟩

theorem onWs_ninv {st : CState} {a b : Nat} (h : NInv st) : NInv (onWs st a b) := by
  unfold onWs
  split <;> exact ⟨h.root, h.cur⟩

theorem onKeyval_ninv {st st' : CState} {path : List CKey} {key : CKey} {v : CVal}
    (hinv : NInv st) (hv : notDottedInl v = true) (h : onKeyval st path key v = some st') : NInv st' := by
  rw [onKeyval_eq] at h
  obtain ⟨c, hc, rfl⟩ := map_some h
  have hcur : TND (kvCur st v) := by
    unfold kvCur
    split
    · rw [TND_setSpan]; exact hinv.cur
    · exact hinv.cur
  have hf : ∀ u u', TND u → kvF (kvKey st key) v path u = some u' → TND u' := by
    intro u u' hu hfu
    unfold kvF at hfu
    split at hfu
    · cases hfu
    · split at hfu
      · cases hfu
      · injection hfu with hfu; subst hfu
        rw [TND_setItems]
        exact ((TND_iff _).1 hu).append (AllKV.single trivial hv)
  exact ⟨hinv.root, descend_nd _ hf path _ true c hcur hc⟩

theorem finalizeTable_nd {st st' : CState} (hinv : NInv st) (h : finalizeTable st = some st') :
    TND st'.root ∧ st'.current = CTbl.empty := by
  unfold finalizeTable at h
  simp only [] at h
  split at h
  · split at h
    · injection h with h; subst h
      exact ⟨hinv.cur, rfl⟩
    · cases h
  · rename_i parentPath key hsl
    split at h
    · obtain ⟨root', hd, rfl⟩ := map_some h
      refine ⟨?_, rfl⟩
      refine descend_nd _ ?_ parentPath _ false root' hinv.root hd
      intro u u' hu hfu
      have hu1 := (TND_iff _).1 hu
      have hent : ItemND ((clookup key.key u.items).getD (.aot [] none)) := by
        cases hl : clookup key.key u.items with
        | none => exact ⟨trivial, trivial⟩
        | some e => exact AllKV.lookup hu1 hl
      generalize (clookup key.key u.items).getD (.aot [] none) = entry at hfu hent
      cases entry with
      | value v => cases hfu
      | table t => cases hfu
      | aot ts sp =>
        simp only [] at hfu
        injection hfu with hfu; subst hfu
        have hts := (TsND_iff _).1 hent.1
        rw [TND_setItems]
        refine AllKV.cset hu1 trivial ⟨?_, trivial⟩
        rw [TsND_iff]
        intro x hx
        rcases List.mem_append.1 hx with hx | hx
        · exact hts x hx
        · simp at hx; subst hx; exact hinv.cur
    · obtain ⟨root', hd, rfl⟩ := map_some h
      refine ⟨?_, rfl⟩
      refine descend_nd _ ?_ parentPath _ false root' hinv.root hd
      intro u u' hu hfu
      have hu1 := (TND_iff _).1 hu
      have hcur : ItemND (.table st.current) := hinv.cur
      split at hfu
      · split at hfu
        · injection hfu with hfu; subst hfu
          rw [TND_setItems]
          exact AllKV.creplace hu1 hcur
        · cases hfu
      · cases hfu
      · injection hfu with hfu; subst hfu
        rw [TND_setItems]
        exact hu1.append (AllKV.single trivial hcur)

theorem startTable_nd {st st' : CState} {path : List CKey} {decor : Decor} {span : Span}
    (hroot : TND st.root) (hcur : TND st.current)
    (h : startTable st path decor span = some st') : NInv st' := by
  unfold startTable at h
  split at h
  · cases h
  · rename_i parentPath key hsl
    simp only [] at h
    split at h
    · cases h
    · split at h
      · cases h
      · rename_i root' hd
        injection h with h; subst h
        have hroot' : TND root' := by
          refine descend_nd _ ?_ parentPath _ false root' hroot hd
          intro u u' hu hfu
          injection hfu with hfu; subst hfu
          rw [TND_setItems]
          exact AllKV.cerase ((TND_iff _).1 hu)
        have hbase : TND ((findTable key.key st.root parentPath).getD st.current) := by
          cases hf : findTable key.key st.root parentPath with
          | none => exact hcur
          | some x => exact findTable_nd _ _ _ _ hroot hf
        refine ⟨hroot', ?_⟩
        show TND (.mk _ _ _ _ _ _)
        rw [TND_mk]
        exact (TND_iff _).1 hbase

theorem startArrayTable_nd {st st' : CState} {path : List CKey} {decor : Decor} {span : Span}
    (hroot : TND st.root) (hcur : TND st.current)
    (h : startArrayTable st path decor span = some st') : NInv st' := by
  unfold startArrayTable at h
  split at h
  · cases h
  · rename_i parentPath key hsl
    simp only [] at h
    split at h
    · cases h
    · rename_i root' hd
      injection h with h; subst h
      have hroot' : TND root' := by
        refine descend_nd _ ?_ parentPath _ false root' hroot hd
        intro u u' hu hfu
        split at hfu
        · injection hfu with hfu; subst hfu
          exact hu
        · cases hfu
        · injection hfu with hfu; subst hfu
          rw [TND_setItems]
          exact ((TND_iff _).1 hu).append (AllKV.single trivial ⟨trivial, trivial⟩)
      refine ⟨hroot', ?_⟩
      show TND (.mk _ _ _ _ _ _)
      rw [TND_mk]
      exact (TND_iff _).1 hcur

theorem onStdHeader_ninv {st st' : CState} {path : List CKey} {trailing : Raw} {span : Span}
    (hinv : NInv st) (h : onStdHeader st path trailing span = some st') : NInv st' := by
  unfold onStdHeader at h
  split at h
  · rename_i st1 hfin
    obtain ⟨hroot, hcur⟩ := finalizeTable_nd hinv hfin
    simp only [] at h
    refine startTable_nd (st := { st1 with trailing := none }) hroot ?_ h
    show TND st1.current
    rw [hcur]; exact TND_empty
  · cases h

theorem onArrayHeader_ninv {st st' : CState} {path : List CKey} {trailing : Raw} {span : Span}
    (hinv : NInv st) (h : onArrayHeader st path trailing span = some st') : NInv st' := by
  unfold onArrayHeader at h
  split at h
  · rename_i st1 hfin
    obtain ⟨hroot, hcur⟩ := finalizeTable_nd hinv hfin
    simp only [] at h
    refine startArrayTable_nd (st := { st1 with trailing := none }) hroot ?_ h
    show TND st1.current
    rw [hcur]; exact TND_empty
  · cases h

/-! ### the line driver -/

theorem ctableLine_ninv {n : Nat} {st st' : CState} {s r : Bytes} (hinv : NInv st)
    (h : ctableLine n st s = some (st', r)) : NInv st' := by
  unfold ctableLine at h
  split at h
  · split at h
    · split at h
      · split at h
        · obtain ⟨st1, hst1, heq⟩ := map_some h
          injection heq with e1 e2; subst e1
          exact onArrayHeader_ninv hinv hst1
        · cases h
      · cases h
    · cases h
  · split at h
    · cases h
    · split at h
      · split at h
        · split at h
          · obtain ⟨st1, hst1, heq⟩ := map_some h
            injection heq with e1 e2; subst e1
            exact onStdHeader_ninv hinv hst1
          · cases h
        · cases h
      · cases h
  · cases h

theorem ckeyvalLine_ninv {n : Nat} {st st' : CState} {s r : Bytes} (hinv : NInv st)
    (h : ckeyvalLine n st s = some (st', r)) : NInv st' := by
  unfold ckeyvalLine at h
  split at h
  · split at h
    · cases h
    · split at h
      · simp only [] at h
        split at h
        · rename_i v r2 hv
          have hvv := cvalue_notDotted _ _ _ _ _ _ hv
          split at h
          · split at h
            · obtain ⟨st1, hst1, heq⟩ := map_some h
              injection heq with e1 e2; subst e1
              refine onKeyval_ninv hinv ?_ hst1
              rw [notDottedInl_setDecor]; exact hvv
            · cases h
          · cases h
        · cases h
      · cases h
  · cases h

theorem parseWs_ninv {n : Nat} {st : CState} {s : Bytes} (hinv : NInv st) : NInv (parseWs n st s).1 :=
  onWs_ninv hinv

theorem clines_ninv (n : Nat) : ∀ (fuel : Nat) (st : CState) (s : Bytes) (st' : CState),
    NInv st → clines n fuel st s = some st' → NInv st' := by
  intro fuel
  induction fuel with
  | zero => intro st s st' _ h; unfold clines at h; cases h
  | succ fuel ih =>
    intro st s st' hinv h
    unfold clines at h
    split at h
    · injection h with h; subst h; exact hinv
    · rename_i b r
      split at h
      · simp only [] at h
        split at h
        · injection h with h; subst h
          exact parseWs_ninv (onWs_ninv hinv)
        · split at h
          · exact ih _ _ _ (parseWs_ninv (onWs_ninv hinv)) h
          · cases h
      · split at h
        · split at h
          · rename_i st1 r1 hline
            exact ih _ _ _ (parseWs_ninv (ctableLine_ninv hinv hline)) h
          · cases h
        · split at h
          · split at h
            · exact ih _ _ _ (parseWs_ninv (onWs_ninv hinv)) h
            · cases h
          · split at h
            · rename_i st1 r1 hline
              exact ih _ _ _ (parseWs_ninv (ckeyvalLine_ninv hinv hline)) h
            · cases h

/-- **no table of a parsed document stores a dotted inline table directly** (dotted inline tables
    only occur inside inline tables) -/
theorem parseCst_nd (s : Bytes) (d : CDoc) (h : parseCst s = some d) : TND d.root := by
  unfold parseCst at h
  simp only [] at h
  split at h
  · rename_i st hcl
    have h1 : NInv (parseWs s.length {} (Doc.stripBom s)).1 := parseWs_ninv NInv.init
    have h2 := clines_ninv _ _ _ _ _ h1 hcl
    unfold intoDocument at h
    split at h
    · rename_i st1 hfin
      injection h with h; subst h
      exact (finalizeTable_nd h2 hfin).1
    · cases h
  · cases h


/-! ### lookups -/

mutual
theorem look_nd_tbl : ∀ (p : List Seg) (t T : CTbl), lookupTbl p t = some (.tbl T) → TND t → TND T
  | [], t, T, h, hv => by
    simp only [lookupTbl, Option.some.injEq, Node.tbl.injEq] at h; subst h; exact hv
  | s :: q, .mk items _ _ _ _ _, T, h, hv => by
    simp only [lookupTbl] at h
    simp only [TND] at hv
    cases hi : s.key with
    | none => simp [hi] at h
    | some k =>
      simp only [hi] at h
      exact look_nd_items k q items T h hv
theorem look_nd_items (k : Bytes) : ∀ (q : List Seg) (items : List (CKey × CItem)) (T : CTbl),
    lookupItems k q items = some (.tbl T) → IND items → TND T
  | _, [], _, h, _ => by simp [lookupItems] at h
  | q, (k', .value v) :: rest, T, h, hv => by
    simp only [lookupItems] at h
    simp only [IND] at hv
    split at h
    · simp only [lookupItem] at h
      exact absurd h (lookupVal_not_tbl q v T)
    · exact look_nd_items k q rest T h hv.2
  | q, (k', .table t) :: rest, T, h, hv => by
    simp only [lookupItems] at h
    simp only [IND] at hv
    split at h
    · simp only [lookupItem] at h
      exact look_nd_tbl q t T h hv.1
    · exact look_nd_items k q rest T h hv.2
  | [], (k', .aot ts sp) :: rest, T, h, hv => by
    simp only [lookupItems] at h
    simp only [IND] at hv
    split at h
    · simp [lookupItem] at h
    · exact look_nd_items k [] rest T h hv.2
  | a :: q, (k', .aot ts sp) :: rest, T, h, hv => by
    simp only [lookupItems] at h
    simp only [IND] at hv
    split at h
    · simp only [lookupItem] at h
      cases hi : a.idx with
      | none => simp [hi] at h
      | some i =>
        simp only [hi] at h
        exact look_nd_nth i q ts T h hv.1
    · exact look_nd_items k (a :: q) rest T h hv.2
theorem look_nd_nth : ∀ (i : Nat) (q : List Seg) (ts : List CTbl) (T : CTbl),
    lookupNth i q ts = some (.tbl T) → TsND ts → TND T
  | _, _, [], _, h, _ => by simp [lookupNth] at h
  | 0, q, t :: _, T, h, hv => by
    simp only [lookupNth] at h
    simp only [TsND] at hv
    exact look_nd_tbl q t T h hv.1
  | i + 1, q, _ :: rest, T, h, hv => by
    simp only [lookupNth] at h
    simp only [TsND] at hv
    exact look_nd_nth i q rest T h hv.2
end

end TomlVerif.Lemmas.Refine08c
