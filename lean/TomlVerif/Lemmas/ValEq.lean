import TomlVerif.Model.Value
/-! A boolean equality test on `Val` with its soundness proof, so that concrete parser results can be
    checked by `decide +kernel` (`Val` is a nested inductive without a derived `DecidableEq`). -/
namespace TomlVerif.Lemmas.ValEq
open TomlVerif TomlVerif.Model

mutual
def beqV : Val → Val → Bool
  | .str a, .str b => a == b
  | .int a, .int b => a == b
  | .float a, .float b => a == b
  | .bool a, .bool b => a == b
  | .dt a, .dt b => a == b
  | .arr a, .arr b => beqL a b
  | .inl a i d, .inl b i' d' => beqP a b && i == i' && d == d'
  | _, _ => false
def beqL : List Val → List Val → Bool
  | [], [] => true
  | a :: r, b :: t => beqV a b && beqL r t
  | _, _ => false
def beqP : List (Bytes × Val) → List (Bytes × Val) → Bool
  | [], [] => true
  | (k, a) :: r, (k', b) :: t => k == k' && beqV a b && beqP r t
  | _, _ => false
end

mutual
theorem beqV_sound : ∀ a b : Val, beqV a b = true → a = b
  | .str a, b, h => by cases b <;> simp_all [beqV]
  | .int a, b, h => by cases b <;> simp_all [beqV]
  | .float a, b, h => by cases b <;> simp_all [beqV]
  | .bool a, b, h => by cases b <;> simp_all [beqV]
  | .dt a, b, h => by cases b <;> simp_all [beqV]
  | .arr a, b, h => by
    cases b <;> simp [beqV] at h
    rw [beqL_sound a _ h]
  | .inl a i d, b, h => by
    cases b <;> simp [beqV] at h
    rw [beqP_sound a _ h.1.1, h.1.2, h.2]
theorem beqL_sound : ∀ a b : List Val, beqL a b = true → a = b
  | [], b, h => by cases b <;> simp_all [beqL]
  | x :: r, b, h => by
    cases b with
    | nil => simp [beqL] at h
    | cons y t =>
      simp [beqL] at h
      rw [beqV_sound x y h.1, beqL_sound r t h.2]
theorem beqP_sound : ∀ a b : List (Bytes × Val), beqP a b = true → a = b
  | [], b, h => by cases b <;> simp_all [beqP]
  | (k, x) :: r, b, h => by
    cases b with
    | nil => simp [beqP] at h
    | cons y t =>
      obtain ⟨k', y⟩ := y
      simp [beqP] at h
      rw [h.1.1, beqV_sound x y h.1.2, beqP_sound r t h.2]
end

/-- `r` is `.ok v rest` -/
def okIs (r : Res Val) (v : Val) (rest : Bytes) : Bool :=
  match r with
  | .ok v' r' => beqV v' v && r' == rest
  | _ => false

theorem okIs_sound (r : Res Val) (v : Val) (rest : Bytes) (h : okIs r v rest = true) : r = .ok v rest := by
  cases r with
  | ok v' r' =>
    simp [okIs] at h
    rw [beqV_sound v' v h.1, h.2]
  | bt => simp [okIs] at h
  | cut => simp [okIs] at h

def someIs (r : Option Val) (v : Val) : Bool :=
  match r with
  | some v' => beqV v' v
  | none => false

theorem someIs_sound (r : Option Val) (v : Val) (h : someIs r v = true) : r = some v := by
  cases r with
  | some v' => simp [someIs] at h; rw [beqV_sound v' v h]
  | none => simp [someIs] at h

def someLIs (r : Option (List (Bytes × Val))) (v : List (Bytes × Val)) : Bool :=
  match r with
  | some v' => beqP v' v
  | none => false

theorem someLIs_sound (r : Option (List (Bytes × Val))) (v : List (Bytes × Val)) (h : someLIs r v = true) :
    r = some v := by
  cases r with
  | some v' => simp [someLIs] at h; rw [beqP_sound v' v h]
  | none => simp [someLIs] at h

end TomlVerif.Lemmas.ValEq
