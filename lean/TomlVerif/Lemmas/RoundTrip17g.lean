import TomlVerif.Lemmas.RoundTrip17f
/-! C17, map order, part 2: trees that differ only by the order of the entries of their tables (`PermTV`), trees
    whose tables are key-sorted (`SortedTV`, the values of the `BTreeMap` build), and what collecting every table
    into a `BTreeMap` (`placeTV .sorted`) does to them:

    * `permTV_place`: it sends `PermTV`-related trees with duplicate-free keys to the same tree;
    * `place_sorted_id`: it keeps a key-sorted tree as it is;
    * `place_is_sorted`: what it returns is key-sorted;
    * `perm_normTV`, `perm_docTbl`: the three passes of `impl Serialize for Value` and the document order only
      permute table entries. -/
namespace TomlVerif.Lemmas.RoundTrip17
open TomlVerif TomlVerif.Model TomlVerif.Model.TomlValue TomlVerif.Model.DeRoutes

/-! ## the relations -/

mutual
/-- `PermTV v w`: `v` and `w` differ only by the order of the entries of tables, at any depth (in tables below
    tables, in arrays, in inline tables): the least equivalence relation that is a congruence for arrays and
    tables and relates two tables holding the same entries in different orders -/
inductive PermTV : TV → TV → Prop
  | refl (v : TV) : PermTV v v
  | symm {v w : TV} : PermTV v w → PermTV w v
  | trans {u v w : TV} : PermTV u v → PermTV v w → PermTV u w
  | arr {l l' : List TV} : PermTVs l l' → PermTV (.arr l) (.arr l')
  | perm {a b : List (Bytes × TV)} : a.Perm b → PermTV (.tbl a) (.tbl b)
  | tbl {a b : List (Bytes × TV)} : PermTVPs a b → PermTV (.tbl a) (.tbl b)
/-- element by element -/
inductive PermTVs : List TV → List TV → Prop
  | nil : PermTVs [] []
  | cons {x y : TV} {r t : List TV} : PermTV x y → PermTVs r t → PermTVs (x :: r) (y :: t)
/-- entry by entry, same keys in the same order -/
inductive PermTVPs : List (Bytes × TV) → List (Bytes × TV) → Prop
  | nil : PermTVPs [] []
  | cons {k : Bytes} {x y : TV} {r t : List (Bytes × TV)} :
      PermTV x y → PermTVPs r t → PermTVPs ((k, x) :: r) ((k, y) :: t)
end

mutual
/-- in every table of the tree the keys are pairwise distinct (what a map is) -/
def NodupTV : TV → Prop
  | .arr l => NodupVs l
  | .tbl items => (items.map Prod.fst).Nodup ∧ NodupPs items
  | _ => True
def NodupVs : List TV → Prop
  | [] => True
  | v :: r => NodupTV v ∧ NodupVs r
def NodupPs : List (Bytes × TV) → Prop
  | [] => True
  | (_, v) :: r => NodupTV v ∧ NodupPs r
end

mutual
/-- in every table of the tree the keys are strictly increasing in `bytesLt` (Rust's `str` order): the shape of
    every `toml::Value` of the default (`BTreeMap`) build -/
def SortedTV : TV → Prop
  | .arr l => SortedVs l
  | .tbl items => KSorted items ∧ SortedPs items
  | _ => True
def SortedVs : List TV → Prop
  | [] => True
  | v :: r => SortedTV v ∧ SortedVs r
def SortedPs : List (Bytes × TV) → Prop
  | [] => True
  | (_, v) :: r => SortedTV v ∧ SortedPs r
end

theorem nodupPs_iff (l : List (Bytes × TV)) : NodupPs l ↔ ∀ e ∈ l, NodupTV e.2 := by
  induction l with
  | nil => simp [NodupPs]
  | cons x r ih => obtain ⟨k, v⟩ := x; simp [NodupPs, ih]

theorem sortedPs_iff (l : List (Bytes × TV)) : SortedPs l ↔ ∀ e ∈ l, SortedTV e.2 := by
  induction l with
  | nil => simp [SortedPs]
  | cons x r ih => obtain ⟨k, v⟩ := x; simp [SortedPs, ih]

mutual
theorem okV_nodup : ∀ v : TV, OkV v → NodupTV v
  | .str _, _ => by simp [NodupTV]
  | .int _, _ => by simp [NodupTV]
  | .float _, _ => by simp [NodupTV]
  | .bool _, _ => by simp [NodupTV]
  | .dt _, _ => by simp [NodupTV]
  | .arr l, h => by rw [OkV] at h; rw [NodupTV]; exact okVs_nodup l h
  | .tbl items, h => by rw [OkV] at h; rw [NodupTV]; exact ⟨h.2.1, okPs_nodup items h.1⟩
theorem okVs_nodup : ∀ l : List TV, OkVs l → NodupVs l
  | [], _ => by simp [NodupVs]
  | v :: r, h => by rw [OkVs] at h; rw [NodupVs]; exact ⟨okV_nodup v h.1, okVs_nodup r h.2⟩
theorem okPs_nodup : ∀ l : List (Bytes × TV), OkPs l → NodupPs l
  | [], _ => by simp [NodupPs]
  | (_, v) :: r, h => by rw [OkPs] at h; rw [NodupPs]; exact ⟨okV_nodup v h.1, okPs_nodup r h.2⟩
end

mutual
theorem sorted_nodup : ∀ v : TV, SortedTV v → NodupTV v
  | .str _, _ => by simp [NodupTV]
  | .int _, _ => by simp [NodupTV]
  | .float _, _ => by simp [NodupTV]
  | .bool _, _ => by simp [NodupTV]
  | .dt _, _ => by simp [NodupTV]
  | .arr l, h => by rw [SortedTV] at h; rw [NodupTV]; exact sortedVs_nodup l h
  | .tbl items, h => by
    rw [SortedTV] at h; rw [NodupTV]; exact ⟨ksorted_nodup items h.1, sortedPs_nodup items h.2⟩
theorem sortedVs_nodup : ∀ l : List TV, SortedVs l → NodupVs l
  | [], _ => by simp [NodupVs]
  | v :: r, h => by rw [SortedVs] at h; rw [NodupVs]; exact ⟨sorted_nodup v h.1, sortedVs_nodup r h.2⟩
theorem sortedPs_nodup : ∀ l : List (Bytes × TV), SortedPs l → NodupPs l
  | [], _ => by simp [NodupPs]
  | (_, v) :: r, h => by rw [SortedPs] at h; rw [NodupPs]; exact ⟨sorted_nodup v h.1, sortedPs_nodup r h.2⟩
end

/-! ## `placeTVPs` is a map -/

theorem placeTVPs_eq_map (fl : Flavour) (l : List (Bytes × TV)) :
    placeTVPs fl l = l.map fun e => (e.1, placeTV fl e.2) := by
  induction l with
  | nil => rfl
  | cons x r ih => obtain ⟨k, v⟩ := x; simp [placeTVPs, ih]

/-! ## collecting into `BTreeMap`s forgets the order of the entries -/

mutual
theorem permTV_place : ∀ {v w : TV}, PermTV v w →
    (NodupTV v ↔ NodupTV w) ∧ (NodupTV w → placeTV .sorted v = placeTV .sorted w)
  | _, _, .refl _ => ⟨Iff.rfl, fun _ => rfl⟩
  | _, _, .symm h => by
    obtain ⟨h1, h2⟩ := permTV_place h
    exact ⟨h1.symm, fun hn => (h2 (h1.1 hn)).symm⟩
  | _, _, .trans h1 h2 => by
    obtain ⟨a1, a2⟩ := permTV_place h1
    obtain ⟨b1, b2⟩ := permTV_place h2
    exact ⟨a1.trans b1, fun hn => (a2 (b1.2 hn)).trans (b2 hn)⟩
  | _, _, .arr h => by
    obtain ⟨a1, a2⟩ := permTVs_place h
    simp only [NodupTV, placeTV]
    exact ⟨a1, fun hn => by rw [a2 hn]⟩
  | _, _, .perm (a := a) (b := b) h => by
    have hk : (a.map Prod.fst).Nodup ↔ (b.map Prod.fst).Nodup := (h.map Prod.fst).nodup_iff
    have hp : NodupPs a ↔ NodupPs b := by
      rw [nodupPs_iff, nodupPs_iff]
      exact ⟨fun H e he => H e (h.symm.subset he), fun H e he => H e (h.subset he)⟩
    simp only [NodupTV, placeTV]
    refine ⟨by rw [hk, hp], fun hn => ?_⟩
    rw [insertAll_perm (placeTVPs .sorted b) (placeTVPs .sorted a) (by rw [placeTVPs_keys]; exact hn.1)
      (by rw [placeTVPs_eq_map, placeTVPs_eq_map]; exact h.map _)]
  | _, _, .tbl h => by
    obtain ⟨a0, a1, a2⟩ := permTVPs_place h
    simp only [NodupTV, placeTV]
    exact ⟨by rw [a0, a1], fun hn => by rw [a2 hn.2]⟩
theorem permTVs_place : ∀ {l l' : List TV}, PermTVs l l' →
    (NodupVs l ↔ NodupVs l') ∧ (NodupVs l' → placeTVs .sorted l = placeTVs .sorted l')
  | _, _, .nil => ⟨Iff.rfl, fun _ => rfl⟩
  | _, _, .cons h1 h2 => by
    obtain ⟨a1, a2⟩ := permTV_place h1
    obtain ⟨b1, b2⟩ := permTVs_place h2
    simp only [NodupVs, placeTVs]
    exact ⟨by rw [a1, b1], fun hn => by rw [a2 hn.1, b2 hn.2]⟩
theorem permTVPs_place : ∀ {l l' : List (Bytes × TV)}, PermTVPs l l' →
    l.map Prod.fst = l'.map Prod.fst ∧ (NodupPs l ↔ NodupPs l') ∧
      (NodupPs l' → placeTVPs .sorted l = placeTVPs .sorted l')
  | _, _, .nil => ⟨rfl, Iff.rfl, fun _ => rfl⟩
  | _, _, .cons h1 h2 => by
    obtain ⟨a1, a2⟩ := permTV_place h1
    obtain ⟨b0, b1, b2⟩ := permTVPs_place h2
    simp only [NodupPs, placeTVPs, List.map_cons]
    exact ⟨by rw [b0], by rw [a1, b1], fun hn => by rw [a2 hn.1, b2 hn.2]⟩
end

/-! ## key-sorted trees -/

mutual
/-- a `BTreeMap`-backed tree collected into `BTreeMap`s again is the same tree -/
theorem place_sorted_id : ∀ v : TV, SortedTV v → placeTV .sorted v = v
  | .str _, _ => by simp [placeTV]
  | .int _, _ => by simp [placeTV]
  | .float _, _ => by simp [placeTV]
  | .bool _, _ => by simp [placeTV]
  | .dt _, _ => by simp [placeTV]
  | .arr l, h => by rw [SortedTV] at h; rw [placeTV, placeVs_sorted_id l h]
  | .tbl items, h => by
    rw [SortedTV] at h
    rw [placeTV, placePs_sorted_id items h.2, insertAll_of_sorted items items h.1 (List.Perm.refl _)]
theorem placeVs_sorted_id : ∀ l : List TV, SortedVs l → placeTVs .sorted l = l
  | [], _ => by simp [placeTVs]
  | v :: r, h => by rw [SortedVs] at h; rw [placeTVs, place_sorted_id v h.1, placeVs_sorted_id r h.2]
theorem placePs_sorted_id : ∀ l : List (Bytes × TV), SortedPs l → placeTVPs .sorted l = l
  | [], _ => by simp [placeTVPs]
  | (k, v) :: r, h => by rw [SortedPs] at h; rw [placeTVPs, place_sorted_id v h.1, placePs_sorted_id r h.2]
end

mutual
/-- what collecting into `BTreeMap`s returns is key-sorted at every table -/
theorem place_is_sorted : ∀ v : TV, NodupTV v → SortedTV (placeTV .sorted v)
  | .str _, _ => by simp [placeTV, SortedTV]
  | .int _, _ => by simp [placeTV, SortedTV]
  | .float _, _ => by simp [placeTV, SortedTV]
  | .bool _, _ => by simp [placeTV, SortedTV]
  | .dt _, _ => by simp [placeTV, SortedTV]
  | .arr l, h => by rw [NodupTV] at h; rw [placeTV, SortedTV]; exact placeVs_is_sorted l h
  | .tbl items, h => by
    rw [NodupTV] at h
    obtain ⟨s1, s2⟩ := insertAll_sorted_nil (placeTVPs .sorted items) (by rw [placeTVPs_keys]; exact h.1)
    rw [placeTV, SortedTV]
    refine ⟨s1, ?_⟩
    rw [sortedPs_iff]
    intro e he
    exact (sortedPs_iff _).1 (placePs_is_sorted items h.2) e (s2.subset he)
theorem placeVs_is_sorted : ∀ l : List TV, NodupVs l → SortedVs (placeTVs .sorted l)
  | [], _ => by simp [placeTVs, SortedVs]
  | v :: r, h => by
    rw [NodupVs] at h; rw [placeTVs, SortedVs]; exact ⟨place_is_sorted v h.1, placeVs_is_sorted r h.2⟩
theorem placePs_is_sorted : ∀ l : List (Bytes × TV), NodupPs l → SortedPs (placeTVPs .sorted l)
  | [], _ => by simp [placeTVPs, SortedPs]
  | (k, v) :: r, h => by
    rw [NodupPs] at h; rw [placeTVPs, SortedPs]; exact ⟨place_is_sorted v h.1, placePs_is_sorted r h.2⟩
end

/-! ## congruence helpers -/

theorem permTVs_refl : ∀ l : List TV, PermTVs l l
  | [] => .nil
  | v :: r => .cons (.refl v) (permTVs_refl r)

theorem permTVPs_refl : ∀ l : List (Bytes × TV), PermTVPs l l
  | [] => .nil
  | (_, v) :: r => .cons (.refl v) (permTVPs_refl r)

theorem permTVPs_append {b b' : List (Bytes × TV)} (h2 : PermTVPs b b') :
    ∀ {a a' : List (Bytes × TV)}, PermTVPs a a' → PermTVPs (a ++ b) (a' ++ b')
  | _, _, .nil => h2
  | _, _, .cons hx hr => .cons hx (permTVPs_append h2 hr)

/-! ## the three passes and the document order only permute entries -/

mutual
theorem perm_normTV : ∀ v : TV, PermTV (normTV v) v
  | .str _ => by rw [normTV]; exact .refl _
  | .int _ => by rw [normTV]; exact .refl _
  | .float _ => by rw [normTV]; exact .refl _
  | .bool _ => by rw [normTV]; exact .refl _
  | .dt _ => by rw [normTV]; exact .refl _
  | .arr l => by rw [normTV]; exact .arr (perm_normTVs l)
  | .tbl items => by
    rw [normTV]
    exact .trans (.perm (TomlVerif.Lemmas.TomlValue17.filter3_perm _ _ _
      (fun e => TomlVerif.Lemmas.TomlValue17.pass_exactly_one e.2) _)) (.tbl (perm_normTVPs items))
theorem perm_normTVs : ∀ l : List TV, PermTVs (normTVs l) l
  | [] => by rw [normTVs]; exact .nil
  | v :: r => by rw [normTVs]; exact .cons (perm_normTV v) (perm_normTVs r)
theorem perm_normTVPs : ∀ l : List (Bytes × TV), PermTVPs (normTVPs l) l
  | [] => by rw [normTVPs]; exact .nil
  | (k, v) :: r => by rw [normTVPs]; exact .cons (perm_normTV v) (perm_normTVPs r)
end

/-- the entries printed as `[table]` / `[[array]]` sections -/
def subsOf (items : List (Bytes × TV)) : List (Bytes × TV) := items.filter fun e => !(kindOf e.2 == .value)

theorem own_subs_perm (items : List (Bytes × TV)) : (ownValues items ++ subsOf items).Perm items := by
  unfold ownValues subsOf
  exact List.filter_append_perm _ _

mutual
theorem perm_docSubs : ∀ items : List (Bytes × TV), PermTVPs (docSubs items) (subsOf items)
  | [] => by rw [docSubs]; exact .nil
  | (k, v) :: r => by
    rw [docSubs]
    have h1 := perm_docItem k v
    have h2 := perm_docSubs r
    have : subsOf ((k, v) :: r) = (if kindOf v == .value then [] else [(k, v)]) ++ subsOf r := by
      cases hv : kindOf v == .value <;> simp [subsOf, hv]
    rw [this]
    exact permTVPs_append h2 h1
theorem perm_docItem : ∀ (k : Bytes) (v : TV), PermTVPs (docItem k v) (if kindOf v == .value then [] else [(k, v)])
  | k, .tbl items => by
    rw [docItem]
    have : (kindOf (.tbl items) == Kind.value) = false := by simp [kindOf]
    rw [this]
    refine .cons ?_ .nil
    exact .trans (.tbl (permTVPs_append (perm_docSubs items) (permTVPs_refl _))) (.perm (own_subs_perm items))
  | k, .arr l => by
    rw [docItem]
    cases ha : isAotList l with
    | true =>
      have : (kindOf (.arr l) == Kind.value) = false := by simp [kindOf, ha]
      rw [this]
      simp only [if_true, Bool.false_eq_true, if_false]
      exact .cons (.arr (perm_docAot l (by simp [isAotList] at ha; simpa using ha.2))) .nil
    | false =>
      have : (kindOf (.arr l) == Kind.value) = true := by simp [kindOf, ha]
      rw [this]
      simp only [Bool.false_eq_true, if_false, if_true]
      exact .nil
  | _, .str _ => by simp only [docItem, kindOf]; exact .nil
  | _, .int _ => by simp only [docItem, kindOf]; exact .nil
  | _, .float _ => by simp only [docItem, kindOf]; exact .nil
  | _, .bool _ => by simp only [docItem, kindOf]; exact .nil
  | _, .dt _ => by simp only [docItem, kindOf]; exact .nil
theorem perm_docAot : ∀ l : List TV, (∀ v ∈ l, v.isTable = true) → PermTVs (docAot l) l
  | [], _ => by rw [docAot]; exact .nil
  | .tbl items :: r, h => by
    rw [docAot]
    refine .cons ?_ (perm_docAot r fun v hv => h v (List.mem_cons_of_mem _ hv))
    exact .trans (.tbl (permTVPs_append (perm_docSubs items) (permTVPs_refl _))) (.perm (own_subs_perm items))
  | .str _ :: r, h => by have := h _ (List.mem_cons_self ..); simp [TV.isTable] at this
  | .int _ :: r, h => by have := h _ (List.mem_cons_self ..); simp [TV.isTable] at this
  | .float _ :: r, h => by have := h _ (List.mem_cons_self ..); simp [TV.isTable] at this
  | .bool _ :: r, h => by have := h _ (List.mem_cons_self ..); simp [TV.isTable] at this
  | .dt _ :: r, h => by have := h _ (List.mem_cons_self ..); simp [TV.isTable] at this
  | .arr _ :: r, h => by have := h _ (List.mem_cons_self ..); simp [TV.isTable] at this
end

/-- a table in document order is a reordering of the table, at every depth -/
theorem perm_docTbl (items : List (Bytes × TV)) : PermTV (.tbl (docTbl items)) (.tbl items) := by
  unfold docTbl
  exact .trans (.tbl (permTVPs_append (perm_docSubs items) (permTVPs_refl _))) (.perm (own_subs_perm items))

/-! ## well-formedness and depth do not depend on the order of the entries -/

theorem depthTVPs_perm {a b : List (Bytes × TV)} (h : a.Perm b) : depthTVPs a = depthTVPs b := by
  have key : ∀ a b : List (Bytes × TV), a.Perm b → depthTVPs a ≤ depthTVPs b := fun a b h =>
    (depthTVPs_le a _).2 fun e he => (depthTVPs_le b _).1 (Nat.le_refl _) e (h.subset he)
  exact Nat.le_antisymm (key a b h) (key b a h.symm)

mutual
theorem permTV_ok : ∀ {v w : TV}, PermTV v w → (OkV v ↔ OkV w) ∧ depthTV v = depthTV w
  | _, _, .refl _ => ⟨Iff.rfl, rfl⟩
  | _, _, .symm h => by
    obtain ⟨h1, h2⟩ := permTV_ok h
    exact ⟨h1.symm, h2.symm⟩
  | _, _, .trans h1 h2 => by
    obtain ⟨a1, a2⟩ := permTV_ok h1
    obtain ⟨b1, b2⟩ := permTV_ok h2
    exact ⟨a1.trans b1, a2.trans b2⟩
  | _, _, .arr h => by
    obtain ⟨a1, a2⟩ := permTVs_ok h
    simp only [OkV, depthTV]
    exact ⟨a1, by rw [a2]⟩
  | _, _, .perm (a := a) (b := b) h => by
    have hk : (a.map Prod.fst).Nodup ↔ (b.map Prod.fst).Nodup := (h.map Prod.fst).nodup_iff
    have hf : FIELD ∈ a.map Prod.fst ↔ FIELD ∈ b.map Prod.fst := (h.map Prod.fst).mem_iff
    have hp : OkPs a ↔ OkPs b := by
      rw [okPs_iff, okPs_iff]
      exact ⟨fun H e he => H e (h.symm.subset he), fun H e he => H e (h.subset he)⟩
    simp only [OkV, depthTV]
    exact ⟨by rw [hk, hf, hp], by rw [depthTVPs_perm h]⟩
  | _, _, .tbl h => by
    obtain ⟨a0, a1, a2⟩ := permTVPs_ok h
    simp only [OkV, depthTV]
    exact ⟨by rw [a0, a1], by rw [a2]⟩
theorem permTVs_ok : ∀ {l l' : List TV}, PermTVs l l' → (OkVs l ↔ OkVs l') ∧ depthTVs l = depthTVs l'
  | _, _, .nil => ⟨Iff.rfl, rfl⟩
  | _, _, .cons h1 h2 => by
    obtain ⟨a1, a2⟩ := permTV_ok h1
    obtain ⟨b1, b2⟩ := permTVs_ok h2
    simp only [OkVs, depthTVs]
    exact ⟨by rw [a1, b1], by rw [a2, b2]⟩
theorem permTVPs_ok : ∀ {l l' : List (Bytes × TV)}, PermTVPs l l' →
    l.map Prod.fst = l'.map Prod.fst ∧ (OkPs l ↔ OkPs l') ∧ depthTVPs l = depthTVPs l'
  | _, _, .nil => ⟨rfl, Iff.rfl, rfl⟩
  | _, _, .cons h1 h2 => by
    obtain ⟨a1, a2⟩ := permTV_ok h1
    obtain ⟨b0, b1, b2⟩ := permTVPs_ok h2
    simp only [OkPs, depthTVPs, List.map_cons]
    exact ⟨by rw [b0], by rw [a1, b1], by rw [a2, b2]⟩
end

/-! ## the `BTreeMap` value built from a tree is a reordering of the tree -/

mutual
theorem perm_placeTV : ∀ u : TV, NodupTV u → PermTV (placeTV .sorted u) u
  | .str _, _ => by rw [placeTV]; exact .refl _
  | .int _, _ => by rw [placeTV]; exact .refl _
  | .float _, _ => by rw [placeTV]; exact .refl _
  | .bool _, _ => by rw [placeTV]; exact .refl _
  | .dt _, _ => by rw [placeTV]; exact .refl _
  | .arr l, h => by rw [NodupTV] at h; rw [placeTV]; exact .arr (perm_placeTVs l h)
  | .tbl items, h => by
    rw [NodupTV] at h
    rw [placeTV]
    exact .trans (.perm (insertAll_sorted_nil (placeTVPs .sorted items) (by rw [placeTVPs_keys]; exact h.1)).2)
      (.tbl (perm_placeTVPs items h.2))
theorem perm_placeTVs : ∀ l : List TV, NodupVs l → PermTVs (placeTVs .sorted l) l
  | [], _ => by rw [placeTVs]; exact .nil
  | v :: r, h => by rw [NodupVs] at h; rw [placeTVs]; exact .cons (perm_placeTV v h.1) (perm_placeTVs r h.2)
theorem perm_placeTVPs : ∀ l : List (Bytes × TV), NodupPs l → PermTVPs (placeTVPs .sorted l) l
  | [], _ => by rw [placeTVPs]; exact .nil
  | (k, v) :: r, h => by rw [NodupPs] at h; rw [placeTVPs]; exact .cons (perm_placeTV v h.1) (perm_placeTVPs r h.2)
end

end TomlVerif.Lemmas.RoundTrip17
