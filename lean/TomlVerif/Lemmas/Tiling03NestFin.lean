import TomlVerif.Lemmas.Tiling03NestTree
/-! C03, nested documents — `finalize_table` along the spine: the finished table's section is
    appended to the text of the root, under the key path as the header spelled it. -/
namespace TomlVerif.Lemmas.Tiling03Nest
open TomlVerif TomlVerif.Spec TomlVerif.Model TomlVerif.Model.Strings TomlVerif.Model.Value
open TomlVerif.Model.Cst TomlVerif.Model.Encode TomlVerif.Lemmas.Cst03 TomlVerif.Lemmas.Tiling03
open TomlVerif.Lemmas.Tiling03Hdr

theorem snoc_inj {α} {a b : List α} {x y : α} (h : a ++ [x] = b ++ [y]) : a = b ∧ x = y := by
  obtain ⟨h1, h2⟩ := List.append_inj' h rfl
  injection h2 with h2 _
  exact ⟨h1, h2⟩

theorem snoc_ne_nil {α} (a : List α) (x : α) : a ++ [x] ≠ [] := by simp

theorem fin_spine (f : Bytes → Bytes) (inp : Bytes) (a : Bool) (key : CKey) (cur : CTbl) (hcd : cur.dotted = false)
    (hbody : ∀ X, textItems f inp cur.items X = []) :
    ∀ (pp : List CKey) (t t' : CTbl) (P Q : List CKey) (a0 : Bool), SpineP inp a key t pp → SegsEq f inp P Q →
      descend t pp false (if a then finArr key cur else finStd key cur) = some t' →
      textTbl f inp t' P a0 = textTbl f inp t P a0 ++ entText f inp cur (Q ++ pp ++ [key]) a ∧
      t'.dotted = false := by
  intro pp
  induction pp with
  | nil =>
    intro t t' P Q a0 hsp hPQ hd
    rw [descend_nil] at hd
    obtain ⟨hdot, hsp⟩ := hsp
    have hcur : ∀ X b, textTbl f inp cur X b = entText f inp cur X b := by
      intro X b
      rw [textTbl_eq, hcd, hbody]; simp
    cases a with
    | false =>
      simp only [Bool.false_eq_true, if_false] at hd hsp
      unfold finStd at hd
      rw [hsp] at hd
      simp only [] at hd
      injection hd with hd
      subst hd
      refine ⟨?_, by simpa using hdot⟩
      rw [textTbl_last_table f inp t _ _ _ _ _ hdot hcd, setItems_self, textTbl_eq f inp t, hdot, hcur]
      simp only [Bool.false_eq_true, if_false, List.append_nil]
      rw [entText_path_congr f inp cur (P ++ [key]) (Q ++ [key]) false (snoc_ne_nil _ _) (snoc_ne_nil _ _)
        (encodeKeyPath_congr f inp P Q key key [] [] hPQ (LeafEq.refl f inp key))]
    | true =>
      simp only [if_true] at hd hsp
      obtain ⟨init, k', ts, asp, e1, e2, e3, e4⟩ := hsp
      have hl : clookup key.key t.items = some (.aot ts asp) := by
        rw [e1, clookup_append_none _ _ _ e3, clookup_single, e2]; rfl
      unfold finArr at hd
      rw [hl] at hd
      simp only [Option.getD_some] at hd
      injection hd with hd
      rw [e1, cset_last _ _ _ _ _ e2 e3] at hd
      subst hd
      refine ⟨?_, by simpa using hdot⟩
      rw [textTbl_last_aot f inp t _ _ _ _ _ _ hdot, textTbl_of_items f inp t _ e1,
        textTbl_last_aot f inp t _ _ _ _ _ _ hdot, textAot_append]
      simp only [textAot, List.append_nil, hcur, List.append_assoc]
      rw [entText_path_congr f inp cur (P ++ [k']) (Q ++ [key]) true (snoc_ne_nil _ _) (snoc_ne_nil _ _)
        (encodeKeyPath_congr f inp P Q k' key [] [] hPQ (sameLeaf_leafEq f inp key k' e4).symm)]
  | cons k ks ih =>
    intro t t' P Q a0 hsp hPQ hd
    obtain ⟨hdot, init, k', e3, e2, hseg, hsp⟩ := hsp
    obtain ⟨x, et', hx⟩ := descend_cons_shape _ _ _ _ _ _ hd
    have hPQ' : SegsEq f inp (P ++ [k']) (Q ++ [k]) := hPQ.snoc (sameSeg_segEq f inp k k' hseg).symm
    have hlist : Q ++ [k] ++ ks ++ [key] = Q ++ k :: ks ++ [key] := by simp
    rcases hsp with ⟨sub, e1, hsub⟩ | ⟨tsI, l, asp, e1, hsub⟩
    · have hl : clookup k.key t.items = some (.table sub) := by
        rw [e1, clookup_append_none _ _ _ e3, clookup_single, e2]; rfl
      rw [hl] at hx
      simp only [Option.getD_some] at hx
      rcases hx with ⟨sub0, sub', e5, hd', e6⟩ | ⟨_, _, _, _, e5, _⟩
      · injection e5 with e5
        subst e5; subst e6
        obtain ⟨i1, i2⟩ := ih _ _ (P ++ [k']) (Q ++ [k]) false hsub hPQ' hd'
        rw [e1, cset_last _ _ _ _ _ e2 e3] at et'
        subst et'
        refine ⟨?_, by simpa using hdot⟩
        rw [textTbl_last_table f inp t _ _ _ _ _ hdot i2, textTbl_of_items f inp t _ e1,
          textTbl_last_table f inp t _ _ _ _ _ hdot (spineP_dotted hsub), i1, hlist]
        simp only [List.append_assoc]
      · cases e5
    · have hl : clookup k.key t.items = some (.aot (tsI ++ [l]) asp) := by
        rw [e1, clookup_append_none _ _ _ e3, clookup_single, e2]; rfl
      rw [hl] at hx
      simp only [Option.getD_some] at hx
      rcases hx with ⟨_, _, e5, _, _⟩ | ⟨tsI0, l0, l', asp', e5, hd', e6⟩
      · cases e5
      · injection e5 with e5 e5'
        obtain ⟨e7, e8⟩ := snoc_inj e5
        subst e7; subst e8; subst e5'; subst e6
        obtain ⟨i1, i2⟩ := ih _ _ (P ++ [k']) (Q ++ [k]) true hsub hPQ' hd'
        rw [e1, cset_last _ _ _ _ _ e2 e3] at et'
        subst et'
        refine ⟨?_, by simpa using hdot⟩
        rw [textTbl_last_aot f inp t _ _ _ _ _ _ hdot, textTbl_of_items f inp t _ e1,
          textTbl_last_aot f inp t _ _ _ _ _ _ hdot, textAot_append, textAot_append]
        simp only [textAot, List.append_nil]
        rw [i1, hlist]
        simp only [List.append_assoc]

end TomlVerif.Lemmas.Tiling03Nest
