import TomlVerif.Lemmas.Tiling03MoreGen2Defs
/-! C03, same data, headers THROUGH dotted-key tables — tree lemmas.  The key invariant `gk2Items`
    (`gkItems` that also records the stored keys of the dotted-key tables), the path predicate
    `SpineA2` (`SpineA` without `t.dotted = false`), and the two `descend` runs of a header on the
    summary (`start_spineT2`, `fin_spineT2`: `start_spineT` / `fin_spineT` with `pathOkT2`). -/
namespace TomlVerif.Lemmas.Tiling03More.Gen
open TomlVerif TomlVerif.Spec TomlVerif.Model TomlVerif.Model.Strings TomlVerif.Model.Value
open TomlVerif.Model.Cst TomlVerif.Model.Encode TomlVerif.Lemmas.Suffix03 TomlVerif.Lemmas.Cst03
open TomlVerif.Lemmas.LastByte03 TomlVerif.Lemmas.Tiling03 TomlVerif.Lemmas.Tiling03Hdr
open TomlVerif.Lemmas.Tiling03Nest TomlVerif.Lemmas.Tiling03More TomlVerif.Lemmas.Tiling03More.VS
open TomlVerif.Lemmas.Tiling03More.Tko

/-! ### the key invariant, dotted-key tables included -/

mutual
/-- the keys of ALL tables (dotted-key tables included) and arrays of tables below a table -/
def hk2Tbl : CTbl → List CKey
  | .mk items _ _ _ _ _ => hk2Items items
def hk2Items : List (CKey × CItem) → List CKey
  | [] => []
  | (k, it) :: r =>
    match it with
    | .table t => k :: hk2Tbl t ++ hk2Items r
    | .aot ts _ => k :: hk2Aot ts ++ hk2Items r
    | .value _ => hk2Items r
def hk2Aot : List CTbl → List CKey
  | [] => []
  | t :: r => hk2Tbl t ++ hk2Aot r
end

theorem hk2Tbl_eq (t : CTbl) : hk2Tbl t = hk2Items t.items := by
  cases t; rw [hk2Tbl]; rfl

theorem hk2Items_append : ∀ (x y : Items), hk2Items (x ++ y) = hk2Items x ++ hk2Items y
  | [], y => by simp [hk2Items]
  | (k, .table t) :: r, y => by
    simp only [List.cons_append, hk2Items, hk2Items_append r y, List.append_assoc]
  | (k, .aot ts sp) :: r, y => by
    simp only [List.cons_append, hk2Items, hk2Items_append r y, List.append_assoc]
  | (k, .value v) :: r, y => by
    simp only [List.cons_append, hk2Items, hk2Items_append r y]

theorem hk2Aot_append : ∀ (x y : List CTbl), hk2Aot (x ++ y) = hk2Aot x ++ hk2Aot y
  | [], y => by simp [hk2Aot]
  | t :: r, y => by simp only [List.cons_append, hk2Aot, hk2Aot_append r y, List.append_assoc]

/-- the keys of all tables and arrays of tables below an item list are `GKey` -/
def gk2Items (inp : Bytes) (items : Items) : Prop := ∀ k ∈ hk2Items items, GKey inp k
def gk2Aot (inp : Bytes) (ts : List CTbl) : Prop := ∀ k ∈ hk2Aot ts, GKey inp k

theorem gk2_nil (inp : Bytes) : gk2Items inp [] := by intro k hk; cases hk
theorem gk2Aot_nil (inp : Bytes) : gk2Aot inp [] := by intro k hk; cases hk
theorem gk2_newImplicit (inp : Bytes) (d : Bool) : gk2Items inp (newImplicit d).items := gk2_nil inp

theorem gk2Items_append (inp : Bytes) (x y : Items) : gk2Items inp (x ++ y) ↔ gk2Items inp x ∧ gk2Items inp y := by
  unfold gk2Items
  rw [hk2Items_append]
  constructor
  · intro h; exact ⟨fun k hk => h k (List.mem_append_left _ hk), fun k hk => h k (List.mem_append_right _ hk)⟩
  · intro h k hk
    rcases List.mem_append.1 hk with hk | hk
    · exact h.1 k hk
    · exact h.2 k hk

theorem gk2_mid_table (inp : Bytes) (A B : Items) (k : CKey) (t : CTbl) :
    gk2Items inp (A ++ (k, .table t) :: B) ↔
      gk2Items inp A ∧ (GKey inp k ∧ gk2Items inp t.items) ∧ gk2Items inp B := by
  have hc : (k, CItem.table t) :: B = [(k, CItem.table t)] ++ B := rfl
  rw [hc, gk2Items_append, gk2Items_append]
  have : gk2Items inp [(k, CItem.table t)] ↔ (GKey inp k ∧ gk2Items inp t.items) := by
    unfold gk2Items
    simp only [hk2Items, List.append_nil, hk2Tbl_eq, List.mem_cons]
    constructor
    · intro h; exact ⟨h k (Or.inl rfl), fun x hx => h x (Or.inr hx)⟩
    · rintro ⟨h1, h2⟩ x (hx | hx)
      · subst hx; exact h1
      · exact h2 x hx
  rw [this]

theorem gk2_mid_aot (inp : Bytes) (A B : Items) (k : CKey) (ts : List CTbl) (asp : Option Span) :
    gk2Items inp (A ++ (k, .aot ts asp) :: B) ↔ gk2Items inp A ∧ (GKey inp k ∧ gk2Aot inp ts) ∧ gk2Items inp B := by
  have hc : (k, CItem.aot ts asp) :: B = [(k, CItem.aot ts asp)] ++ B := rfl
  rw [hc, gk2Items_append, gk2Items_append]
  have : gk2Items inp [(k, CItem.aot ts asp)] ↔ (GKey inp k ∧ gk2Aot inp ts) := by
    unfold gk2Items gk2Aot
    simp only [hk2Items, List.append_nil, List.mem_cons]
    constructor
    · intro h; exact ⟨h k (Or.inl rfl), fun x hx => h x (Or.inr hx)⟩
    · rintro ⟨h1, h2⟩ x (hx | hx)
      · subst hx; exact h1
      · exact h2 x hx
  rw [this]

theorem gk2Aot_snoc (inp : Bytes) (ts : List CTbl) (t : CTbl) :
    gk2Aot inp (ts ++ [t]) ↔ gk2Aot inp ts ∧ gk2Items inp t.items := by
  unfold gk2Aot gk2Items
  rw [hk2Aot_append]
  simp only [hk2Aot, List.append_nil, hk2Tbl_eq]
  constructor
  · intro h; exact ⟨fun k hk => h k (List.mem_append_left _ hk), fun k hk => h k (List.mem_append_right _ hk)⟩
  · intro h k hk
    rcases List.mem_append.1 hk with hk | hk
    · exact h.1 k hk
    · exact h.2 k hk

/-- in a body (values and dotted-key tables) the keys recorded are those of `bodyG` -/
theorem bodyOkU_hk2 : ∀ (items : Items), bodyOkU items = true → hk2Items items = dkItems items
  | [], _ => rfl
  | (k, .value v) :: r, h => by
    simp only [bodyOkU, Bool.and_eq_true] at h
    simp only [hk2Items, dkItems]; exact bodyOkU_hk2 r h.2
  | (k, .table (.mk its imp dot p dec sp)) :: r, h => by
    simp only [bodyOkU, bodyTblU, Bool.and_eq_true] at h
    simp only [hk2Items, dkItems, hk2Tbl, dkTbl]
    rw [bodyOkU_hk2 its h.1.2, bodyOkU_hk2 r h.2]
  | (k, .aot _ _) :: r, h => by simp [bodyOkU] at h

theorem bodyG_gk2 (inp : Bytes) (items : Items) (h : bodyOkU items = true) (hg : bodyG inp items) :
    gk2Items inp items := by
  unfold gk2Items; rw [bodyOkU_hk2 items h]; exact hg

/-! ### the flattened body of a table whose sub-table changed below the dotted keys -/

theorem valuesTbl_mid_tbl_congr (A B : Items) (k : CKey) (c c' : CTbl) (hd : c'.dotted = c.dotted)
    (h : ∀ P, valuesTbl c'.items P = valuesTbl c.items P) (P : List CKey) :
    valuesTbl (A ++ (k, .table c') :: B) P = valuesTbl (A ++ (k, .table c) :: B) P := by
  cases hc : c.dotted with
  | false =>
    rw [valuesTbl_mid_table _ _ _ _ hc, valuesTbl_mid_table _ _ _ _ (hd.trans hc)]
  | true =>
    rw [Nad.valuesTbl_mid_dotted _ _ _ _ hc, Nad.valuesTbl_mid_dotted _ _ _ _ (hd.trans hc), h]

/-! ### the path of a header in the root, with the stored keys, through any table -/

/-- `SpineA` without `t.dotted = false`: the tables on the way may be dotted-key tables -/
def SpineA2 (inp : Bytes) (a : Bool) (key : CKey) : CTbl → List CKey → List CKey → Prop
  | t, [], SP =>
      (if a then ∃ A k' ts asp B, t.items = A ++ (k', .aot ts asp) :: B ∧ (k'.key == key.key) = true ∧
          clookup key.key A = none ∧ SP = [k'] ∧ GKey inp k'
       else clookup key.key t.items = none ∧ SP = [key] ∧ GKey inp key)
  | t, k :: ks, SP => ∃ A k' B SP', clookup k.key A = none ∧ (k'.key == k.key) = true ∧
      GKey inp k' ∧ SP = k' :: SP' ∧
      ((∃ sub, t.items = A ++ (k', .table sub) :: B ∧ SpineA2 inp a key sub ks SP') ∨
       (∃ tsI l asp, t.items = A ++ (k', .aot (tsI ++ [l]) asp) :: B ∧ SpineA2 inp a key l ks SP'))

theorem spineA2_facts (inp : Bytes) (a : Bool) (key : CKey) : ∀ (pp : List CKey) (t : CTbl) (SP : List CKey),
    SpineA2 inp a key t pp SP → keysOf SP = keysOf (pp ++ [key]) ∧ (∀ k ∈ SP, GKey inp k) ∧ SP ≠ []
  | [], t, SP, h => by
    cases a with
    | true =>
      simp only [SpineA2, if_true] at h
      obtain ⟨A, k', ts, asp, B, _, e2, _, e4, e5⟩ := h
      subst e4
      refine ⟨by simp [keysOf, beq_key_eq e2], ?_, by simp⟩
      intro k hk; simp only [List.mem_singleton] at hk; subst hk; exact e5
    | false =>
      simp only [SpineA2, Bool.false_eq_true, if_false] at h
      obtain ⟨_, e4, e5⟩ := h
      subst e4
      refine ⟨rfl, ?_, by simp⟩
      intro k hk; simp only [List.mem_singleton] at hk; subst hk; exact e5
  | k :: ks, t, SP, h => by
    obtain ⟨A, k', B, SP', _, e2, e3, e4, h⟩ := h
    subst e4
    have ih : keysOf SP' = keysOf (ks ++ [key]) ∧ (∀ k ∈ SP', GKey inp k) ∧ SP' ≠ [] := by
      rcases h with ⟨sub, _, hs⟩ | ⟨tsI, l, asp, _, hs⟩
      · exact spineA2_facts inp a key ks sub SP' hs
      · exact spineA2_facts inp a key ks l SP' hs
    refine ⟨?_, ?_, by simp⟩
    · simp only [keysOf, List.map_cons, List.cons_append] at ih ⊢
      rw [ih.1, beq_key_eq e2]
    · intro x hx
      rcases List.mem_cons.1 hx with hx | hx
      · subst hx; exact e3
      · exact ih.2.1 x hx

theorem pathOkT2_empty (inp : Bytes) (a : Bool) (key : CKey) (t : CTbl) (hi : t.items = []) :
    ∀ pp, pathOkT2 inp a key t pp = true
  | [] => by simp [pathOkT2, hi, clookup]
  | k :: ks => by simp [pathOkT2, hi, clookup]

/-- `StartRes` with `SpineA2` and `gk2Items` -/
def StartRes2 (f : Bytes → Bytes) (inp : Bytes) (a : Bool) (key : CKey) (t t' : CTbl) (pp P : List CKey) : Prop :=
  ∃ SP Hd K l1 l2, SpineA2 inp a key t' pp SP ∧ (∀ x ∈ Hd, x.2.1 = false) ∧
    nsItems f inp t.items P = l1 ++ (Hd ++ K) ++ l2 ∧ nsItems f inp t'.items P = l1 ++ l2 ∧
    (findTable key.key t pp = none → K = [] ∧ Hd = []) ∧
    (∀ tk, findTable key.key t pp = some tk → a = false ∧ K = nsItems f inp tk.items (P ++ SP) ∧
      tk.dotted = false ∧ onlySubs tk.items = true ∧ gk2Items inp tk.items ∧ tiTbl tk = true)

theorem setItems_dotted_of (t t' : CTbl) (h : t' = t.setItems t'.items) : t'.dotted = t.dotted := by
  rw [h]; cases t; rfl

theorem start_spineT2 (f : Bytes → Bytes) (inp : Bytes) (a : Bool) (key : CKey) (hkey : GKey inp key) :
    ∀ (pp : List CKey) (t t' : CTbl) (P : List CKey), (∀ k ∈ pp, GKey inp k) → pathOkT2 inp a key t pp = true →
      gk2Items inp t.items → tiTbl t = true →
      descend t pp false (if a then arrFn key else eraseFn key) = some t' →
      StartRes2 f inp a key t t' pp P ∧ (∀ Q, valuesTbl t'.items Q = valuesTbl t.items Q) ∧ gk2Items inp t'.items := by
  intro pp
  induction pp with
  | nil =>
    intro t t' P _ hok hg hti hd
    obtain ⟨hnd, htis, _⟩ := tiTbl_parts t hti
    rw [descend_nil] at hd
    simp only [pathOkT2] at hok
    cases hl : clookup key.key t.items with
    | none =>
      have hft : findTable key.key t [] = none := by simp [findTable, hl]
      cases a with
      | false =>
        simp only [Bool.false_eq_true, if_false] at hd
        unfold eraseFn at hd
        injection hd with hd
        rw [cerase_of_none _ _ hl, setItems_self] at hd
        subst hd
        refine ⟨⟨[key], [], [], nsItems f inp t.items P, [], by simpa [SpineA2] using ⟨hl, hkey⟩,
          (fun x hx => by cases hx), by simp, by simp, fun _ => ⟨rfl, rfl⟩, ?_⟩, fun _ => rfl, hg⟩
        intro tk htk; rw [hft] at htk; cases htk
      | true =>
        simp only [if_true] at hd
        unfold arrFn at hd
        rw [hl] at hd
        simp only [] at hd
        injection hd with hd
        subst hd
        refine ⟨⟨[key], [], [], nsItems f inp t.items P, [], ?_,
          (fun x hx => by cases hx), by simp, ?_, fun _ => ⟨rfl, rfl⟩, ?_⟩, ?_, ?_⟩
        · simp only [SpineA2, if_true, setItems_items]
          exact ⟨t.items, key, [], none, [], rfl, by simp, hl, rfl, hkey⟩
        · rw [setItems_items, nsItems_append]
          simp [nsItems, nsAot]
        · intro tk htk; rw [hft] at htk; cases htk
        · intro Q; rw [setItems_items]; exact valuesTbl_snoc_aot _ _ _ _ _
        · rw [setItems_items]
          exact (gk2_mid_aot inp t.items [] key [] none).2 ⟨hg, ⟨hkey, gk2Aot_nil inp⟩, gk2_nil inp⟩
    | some y =>
      rw [hl] at hok
      obtain ⟨A, k', B, e1, e2, e3, e4⟩ := clookup_split _ _ _ hl
      cases y with
      | value v => simp at hok
      | aot ts asp =>
        have hft : findTable key.key t [] = none := by simp [findTable, hl]
        simp only [] at hok
        subst hok
        simp only [if_true] at hd
        unfold arrFn at hd
        rw [hl] at hd
        simp only [] at hd
        injection hd with hd
        subst hd
        have hk' : GKey inp k' := by
          rw [e1] at hg
          exact ((gk2_mid_aot inp A B k' ts asp).1 hg).2.1.1
        refine ⟨⟨[k'], [], [], nsItems f inp t.items P, [], ?_,
          (fun x hx => by cases hx), by simp, by simp, fun _ => ⟨rfl, rfl⟩, ?_⟩, fun _ => rfl, hg⟩
        · simp only [SpineA2, if_true]
          exact ⟨A, k', ts, asp, B, e1, e3, e2, rfl, hk'⟩
        · intro tk htk; rw [hft] at htk; cases htk
      | table tk =>
        have hft : findTable key.key t [] = some tk := by simp [findTable, hl]
        simp only [Bool.and_eq_true, Bool.not_eq_true', segChk, e4, Bool.false_eq_true, if_false] at hok
        obtain ⟨⟨⟨⟨ha, himp⟩, htd⟩, hseg⟩, hsubs⟩ := hok
        subst ha
        simp only [Bool.false_eq_true, if_false] at hd
        unfold eraseFn at hd
        injection hd with hd
        subst hd
        have hlk : clookup key.key (cerase key.key t.items) = none := clookup_cerase_self _ _ hnd
        have hce : cerase key.key t.items = A ++ B := by rw [e1]; exact cerase_mid _ _ _ _ e3 A e2
        have htk : tiTbl tk = true := ti_lookup _ _ _ htis hl
        obtain ⟨_, htki, hpos⟩ := tiTbl_parts tk htk
        rw [e1] at hg
        obtain ⟨g1, g2, g3⟩ := (gk2_mid_table inp A B k' tk).1 hg
        have g2' : gk2Items inp tk.items := g2.2
        have hcong : nsItems f inp tk.items (P ++ [k']) = nsItems f inp tk.items (P ++ [key]) :=
          nsItems_congr f inp tk.items _ _ ((SegsEq.refl f inp P).snoc (sameSeg_segEq f inp key k' hseg).symm)
        refine ⟨⟨[key], hdN f inp tk (P ++ [k']) false, nsItems f inp tk.items (P ++ [key]),
          nsItems f inp A P, nsItems f inp B P, ?_,
          hdN_flags_false f inp tk _ false (hpos himp), ?_, ?_, ?_, ?_⟩, ?_, ?_⟩
        · simp only [SpineA2, Bool.false_eq_true, if_false, setItems_items]
          exact ⟨hlk, trivial, hkey⟩
        · rw [e1, nsItems_append]
          simp only [nsItems]
          rw [nsTbl_eq, hcong]
          simp only [List.append_assoc]
        · rw [setItems_items, hce, nsItems_append]
        · intro h; rw [hft] at h; cases h
        · intro tk' h
          rw [hft] at h; injection h with h; subst h
          exact ⟨rfl, rfl, htd, hsubs, g2', htk⟩
        · intro Q; rw [setItems_items, hce, e1, valuesTbl_mid_table _ _ _ _ htd, valuesTbl_append]
        · rw [setItems_items, hce]
          exact (gk2Items_append inp A B).2 ⟨g1, g3⟩
  | cons k ks ih =>
    intro t t' P hpp hok hg hti hd
    obtain ⟨hnd, htis, _⟩ := tiTbl_parts t hti
    have hk : GKey inp k := hpp k (by simp)
    have hks : ∀ x ∈ ks, GKey inp x := fun x hx => hpp x (List.mem_cons_of_mem _ hx)
    simp only [pathOkT2] at hok
    obtain ⟨x, et', hx⟩ := descend_cons_shape _ _ _ _ _ _ hd
    cases hl : clookup k.key t.items with
    | none =>
      have hft : findTable key.key t (k :: ks) = none := by simp [findTable, hl]
      rw [hl] at hx
      simp only [Option.getD_none] at hx
      rcases hx with ⟨sub, sub', e1, hd', e2⟩ | ⟨_, _, _, _, e1, _⟩
      · injection e1 with e1
        subst e1; subst e2
        obtain ⟨⟨SP', Hd, K, l1, l2, i1, _, j1, j2, _, _⟩, i2, i4⟩ := ih (newImplicit false) _ (P ++ [k]) hks
          (pathOkT2_empty inp a key _ rfl ks) (gk2_newImplicit inp false) (tiTbl_newImplicit false) hd'
        have hs := descend_setItems _ (startFn_setItems a key) ks _ _ _ hd'
        have hnil : l1 ++ l2 = [] := by
          have : nsItems f inp (newImplicit false).items (P ++ [k]) = [] := rfl
          rw [this] at j1
          have h2 := (List.append_eq_nil_iff.1 j1.symm)
          have h3 := (List.append_eq_nil_iff.1 h2.1)
          rw [h3.1, h2.2]; rfl
        rw [cset_none _ _ _ hl] at et'
        subst et'
        have hsd : sub'.dotted = false := setItems_dotted_of _ _ hs
        refine ⟨⟨k :: SP', [], [], nsItems f inp t.items P, [], ⟨t.items, k, [], SP', hl, by simp, hk, rfl,
          Or.inl ⟨sub', by simp, i1⟩⟩, (fun x hx => by cases hx), by simp, ?_, fun _ => ⟨rfl, rfl⟩, ?_⟩, ?_, ?_⟩
        · rw [setItems_items, nsItems_append]
          simp only [nsItems, List.append_nil]
          rw [nsTbl_setItems f inp _ _ _ _ hs (i2 []), hdN_newImplicit, j2, hnil]
          simp
        · intro tk htk; rw [hft] at htk; cases htk
        · intro Q; rw [setItems_items]; exact valuesTbl_snoc_table _ _ _ hsd _
        · rw [setItems_items]
          exact (gk2_mid_table inp t.items [] k sub').2 ⟨hg, ⟨hk, i4⟩, gk2_nil inp⟩
      · cases e1
    | some y =>
      rw [hl] at hok hx
      simp only [Option.getD_some] at hx
      obtain ⟨A, k', B, e1, e2, e3, e4⟩ := clookup_split _ _ _ hl
      have e3' : (k'.key == k.key) = true := e3
      have hlist : ∀ SP', P ++ [k'] ++ SP' = P ++ k' :: SP' := by intro SP'; simp
      cases y with
      | value v => simp at hok
      | table sub =>
        have hft : findTable key.key t (k :: ks) = findTable key.key sub ks := by simp [findTable, hl]
        simp only [] at hok
        rcases hx with ⟨sub0, sub', e5, hd', e6⟩ | ⟨_, _, _, _, e5, _⟩
        · injection e5 with e5
          subst e5; subst e6
          obtain ⟨g1, ⟨hk', hgs⟩, g3⟩ := (gk2_mid_table inp A B k' sub).1 (e1 ▸ hg)
          have htsub : tiTbl sub = true := ti_lookup _ _ _ htis hl
          obtain ⟨⟨SP', Hd, K, l1, l2, i1, jh, j1, j2, j3, j4⟩, i2, i4⟩ := ih sub _ (P ++ [k']) hks hok hgs htsub hd'
          have hs := descend_setItems _ (startFn_setItems a key) ks _ _ _ hd'
          have hsd : sub'.dotted = sub.dotted := setItems_dotted_of _ _ hs
          have hcs : cset k (.table sub') t.items = A ++ (k', .table sub') :: B := by
            rw [e1]; exact cset_mid _ _ _ _ _ _ e3' e2
          rw [hcs] at et'
          subst et'
          refine ⟨⟨k' :: SP', Hd, K, nsItems f inp A P ++ hdN f inp sub (P ++ [k']) false ++ l1, l2 ++ nsItems f inp B P,
            ⟨A, k', B, SP', e2, e3', hk', rfl, Or.inl ⟨sub', by simp, i1⟩⟩, jh, ?_, ?_, ?_, ?_⟩, ?_, ?_⟩
          · rw [e1, nsItems_append]
            simp only [nsItems]
            rw [nsTbl_eq, j1]
            simp only [List.append_assoc]
          · rw [setItems_items, nsItems_append]
            simp only [nsItems]
            rw [nsTbl_setItems f inp _ _ _ _ hs (i2 []), j2]
            simp only [List.append_assoc]
          · intro h; rw [hft] at h; exact j3 h
          · intro tk h; rw [hft] at h
            have := j4 tk h
            rw [hlist] at this; exact this
          · intro Q; rw [setItems_items, e1]; exact valuesTbl_mid_tbl_congr A B k' sub sub' hsd i2 Q
          · rw [setItems_items]
            exact (gk2_mid_table inp A B k' sub').2 ⟨g1, ⟨hk', i4⟩, g3⟩
        · cases e5
      | aot ts asp =>
        simp only [] at hok
        rcases hx with ⟨_, _, e5, _, _⟩ | ⟨tsI, l, l', asp', e5, hd', e6⟩
        · cases e5
        · injection e5 with e5 e5'
          subst e5; subst e5'; subst e6
          have hrev : (tsI ++ [l]).reverse = l :: tsI.reverse := by simp
          have hft : findTable key.key t (k :: ks) = findTable key.key l ks := by simp [findTable, hl, hrev]
          rw [hrev] at hok
          simp only [] at hok
          rw [e1] at hg
          obtain ⟨g1, ⟨hk', g2⟩, g3⟩ := (gk2_mid_aot inp A B k' _ asp).1 hg
          obtain ⟨g2a, g2b⟩ := (gk2Aot_snoc inp tsI l).1 g2
          have htl : tiTbl l = true := by
            have := ti_lookup _ _ _ htis hl
            simp only [tiItem] at this
            rw [tiAot_append] at this
            simp only [Bool.and_eq_true, tiAot, Bool.and_true] at this
            exact this.2
          obtain ⟨⟨SP', Hd, K, l1, l2, i1, jh, j1, j2, j3, j4⟩, i2, i4⟩ := ih l _ (P ++ [k']) hks hok g2b htl hd'
          have hs := descend_setItems _ (startFn_setItems a key) ks _ _ _ hd'
          have hcs : cset k (.aot (tsI ++ [l']) asp) t.items = A ++ (k', .aot (tsI ++ [l']) asp) :: B := by
            rw [e1]; exact cset_mid _ _ _ _ _ _ e3' e2
          rw [hcs] at et'
          subst et'
          refine ⟨⟨k' :: SP', Hd, K, nsItems f inp A P ++ nsAot f inp tsI (P ++ [k']) ++ hdN f inp l (P ++ [k']) true ++ l1,
            l2 ++ nsItems f inp B P,
            ⟨A, k', B, SP', e2, e3', hk', rfl, Or.inr ⟨tsI, l', asp, by simp, i1⟩⟩, jh, ?_, ?_, ?_, ?_⟩, ?_, ?_⟩
          · rw [e1, nsItems_append]
            simp only [nsItems]
            rw [nsAot_append]
            simp only [nsAot, List.append_nil]
            rw [nsTbl_eq, j1]
            simp only [List.append_assoc]
          · rw [setItems_items, nsItems_append]
            simp only [nsItems]
            rw [nsAot_append]
            simp only [nsAot, List.append_nil]
            rw [nsTbl_setItems f inp _ _ _ _ hs (i2 []), j2]
            simp only [List.append_assoc]
          · intro h; rw [hft] at h; exact j3 h
          · intro tk h; rw [hft] at h
            have := j4 tk h
            rw [hlist] at this; exact this
          · intro Q; rw [setItems_items, e1, valuesTbl_mid_aot, valuesTbl_mid_aot]
          · rw [setItems_items]
            exact (gk2_mid_aot inp A B k' _ asp).2 ⟨g1, ⟨hk', (gk2Aot_snoc inp tsI l').2 ⟨g2a, i4⟩⟩, g3⟩

/-- `finalize_table` along the path (through any table): the summary of the finished table is
    inserted into the summary, under the STORED key path -/
theorem fin_spineT2 (f : Bytes → Bytes) (inp : Bytes) (a : Bool) (key : CKey) (cur : CTbl)
    (hcd : cur.dotted = false) (hgc : gk2Items inp cur.items) :
    ∀ (pp : List CKey) (t t' : CTbl) (P SP : List CKey), SpineA2 inp a key t pp SP → gk2Items inp t.items →
      descend t pp false (if a then finArr key cur else finStd key cur) = some t' →
      (∃ l1 l2, nsItems f inp t.items P = l1 ++ l2 ∧
        nsItems f inp t'.items P = l1 ++ nsTbl f inp cur (P ++ SP) a ++ l2) ∧
      (∀ Q, valuesTbl t'.items Q = valuesTbl t.items Q) ∧ gk2Items inp t'.items := by
  intro pp
  induction pp with
  | nil =>
    intro t t' P SP hsp hg hd
    rw [descend_nil] at hd
    cases a with
    | false =>
      simp only [SpineA2, Bool.false_eq_true, if_false] at hd hsp
      obtain ⟨hsp, eSP, hkey⟩ := hsp
      subst eSP
      unfold finStd at hd
      rw [hsp] at hd
      simp only [] at hd
      injection hd with hd
      subst hd
      refine ⟨⟨nsItems f inp t.items P, [], by simp, ?_⟩, ?_, ?_⟩
      · rw [setItems_items, nsItems_append]
        simp only [nsItems, List.append_nil]
      · intro Q; rw [setItems_items]; exact valuesTbl_snoc_table _ _ _ hcd _
      · rw [setItems_items]
        exact (gk2_mid_table inp t.items [] key cur).2 ⟨hg, ⟨hkey, hgc⟩, gk2_nil inp⟩
    | true =>
      simp only [SpineA2, if_true] at hd hsp
      obtain ⟨A, k', ts, asp, B, e1, e2, e3, eSP, hk'⟩ := hsp
      subst eSP
      have hl : clookup key.key t.items = some (.aot ts asp) := by
        rw [e1]; exact clookup_mid _ _ _ _ _ e2 e3
      unfold finArr at hd
      rw [hl] at hd
      simp only [Option.getD_some] at hd
      injection hd with hd
      rw [e1, cset_mid _ _ _ _ _ _ e2 e3] at hd
      subst hd
      rw [e1] at hg
      obtain ⟨g1, ⟨_, g2⟩, g3⟩ := (gk2_mid_aot inp A B k' ts asp).1 hg
      refine ⟨⟨nsItems f inp A P ++ nsAot f inp ts (P ++ [k']), nsItems f inp B P, ?_, ?_⟩, ?_, ?_⟩
      · rw [e1, nsItems_append]
        simp only [nsItems, List.append_assoc]
      · rw [setItems_items, nsItems_append]
        simp only [nsItems]
        rw [nsAot_append]
        simp only [nsAot, List.append_nil, List.append_assoc]
      · intro Q; rw [setItems_items, e1, valuesTbl_mid_aot, valuesTbl_mid_aot]
      · rw [setItems_items]
        exact (gk2_mid_aot inp A B k' _ _).2 ⟨g1, ⟨hk', (gk2Aot_snoc inp ts cur).2 ⟨g2, hgc⟩⟩, g3⟩
  | cons k ks ih =>
    intro t t' P SP hsp hg hd
    obtain ⟨A, k', B, SP', e3, e2, hk', eSP, hsp⟩ := hsp
    subst eSP
    obtain ⟨x, et', hx⟩ := descend_cons_shape _ _ _ _ _ _ hd
    have hlist : P ++ [k'] ++ SP' = P ++ k' :: SP' := by simp
    rcases hsp with ⟨sub, e1, hsub⟩ | ⟨tsI, l, asp, e1, hsub⟩
    · have hl : clookup k.key t.items = some (.table sub) := by
        rw [e1]; exact clookup_mid _ _ _ _ _ e2 e3
      rw [hl] at hx
      simp only [Option.getD_some] at hx
      rcases hx with ⟨sub0, sub', e5, hd', e6⟩ | ⟨_, _, _, _, e5, _⟩
      · injection e5 with e5
        subst e5; subst e6
        rw [e1] at hg
        obtain ⟨g1, ⟨_, g2'⟩, g3⟩ := (gk2_mid_table inp A B k' sub).1 hg
        obtain ⟨⟨l1, l2, i1, i2⟩, i3, i4⟩ := ih _ _ (P ++ [k']) SP' hsub g2' hd'
        have hs := descend_setItems _ (finFn_setItems a key cur) ks _ _ _ hd'
        have hsd' : sub'.dotted = sub.dotted := setItems_dotted_of _ _ hs
        rw [e1, cset_mid _ _ _ _ _ _ e2 e3] at et'
        subst et'
        refine ⟨⟨nsItems f inp A P ++ hdN f inp sub (P ++ [k']) false ++ l1, l2 ++ nsItems f inp B P, ?_, ?_⟩, ?_, ?_⟩
        · rw [e1, nsItems_append]
          simp only [nsItems]
          rw [nsTbl_eq, i1]
          simp only [List.append_assoc]
        · rw [setItems_items, nsItems_append]
          simp only [nsItems]
          rw [nsTbl_setItems f inp _ _ _ _ hs (i3 []), i2, hlist]
          simp only [List.append_assoc]
        · intro Q; rw [setItems_items, e1]; exact valuesTbl_mid_tbl_congr A B k' sub sub' hsd' i3 Q
        · rw [setItems_items]
          exact (gk2_mid_table inp A B k' sub').2 ⟨g1, ⟨hk', i4⟩, g3⟩
      · cases e5
    · have hl : clookup k.key t.items = some (.aot (tsI ++ [l]) asp) := by
        rw [e1]; exact clookup_mid _ _ _ _ _ e2 e3
      rw [hl] at hx
      simp only [Option.getD_some] at hx
      rcases hx with ⟨_, _, e5, _, _⟩ | ⟨tsI0, l0, l', asp', e5, hd', e6⟩
      · cases e5
      · injection e5 with e5 e5'
        obtain ⟨e7, e8⟩ := snoc_inj e5
        subst e7; subst e8; subst e5'; subst e6
        rw [e1] at hg
        obtain ⟨g1, ⟨_, g2⟩, g3⟩ := (gk2_mid_aot inp A B k' _ asp).1 hg
        obtain ⟨g2a, g2b⟩ := (gk2Aot_snoc inp tsI l).1 g2
        obtain ⟨⟨l1, l2, i1, i2⟩, i3, i4⟩ := ih _ _ (P ++ [k']) SP' hsub g2b hd'
        have hs := descend_setItems _ (finFn_setItems a key cur) ks _ _ _ hd'
        rw [e1, cset_mid _ _ _ _ _ _ e2 e3] at et'
        subst et'
        refine ⟨⟨nsItems f inp A P ++ nsAot f inp tsI (P ++ [k']) ++ hdN f inp l (P ++ [k']) true ++ l1,
          l2 ++ nsItems f inp B P, ?_, ?_⟩, ?_, ?_⟩
        · rw [e1, nsItems_append]
          simp only [nsItems]
          rw [nsAot_append]
          simp only [nsAot, List.append_nil]
          rw [nsTbl_eq, i1]
          simp only [List.append_assoc]
        · rw [setItems_items, nsItems_append]
          simp only [nsItems]
          rw [nsAot_append]
          simp only [nsAot, List.append_nil]
          rw [nsTbl_setItems f inp _ _ _ _ hs (i3 []), i2, hlist]
          simp only [List.append_assoc]
        · intro Q; rw [setItems_items, e1, valuesTbl_mid_aot, valuesTbl_mid_aot]
        · rw [setItems_items]
          exact (gk2_mid_aot inp A B k' _ asp).2 ⟨g1, ⟨hk', (gk2Aot_snoc inp tsI l').2 ⟨g2a, i4⟩⟩, g3⟩

end TomlVerif.Lemmas.Tiling03More.Gen
