import TomlVerif.Lemmas.Tiling03MoreSemMain
/-! C03, same data for NON-adjacent dotted keys — the class `nadRun`: `adjRun` with the adjacency
    check `dottedOkA` replaced by `dottedOkN` (a prefix segment that names an existing entry names
    a dotted-key table, anywhere in its table).  Inclusion `adjRun ⊆ nadRun`. -/
namespace TomlVerif.Lemmas.Tiling03More
open TomlVerif TomlVerif.Spec TomlVerif.Model TomlVerif.Model.Strings TomlVerif.Model.Value
open TomlVerif.Model.Cst TomlVerif.Model.Encode TomlVerif.Lemmas.Suffix03 TomlVerif.Lemmas.Cst03
open TomlVerif.Lemmas.LastByte03 TomlVerif.Lemmas.Tiling03 TomlVerif.Lemmas.Tiling03Hdr
open TomlVerif.Lemmas.Tiling03Nest

/-- dotted keys: every prefix segment that names an existing entry names a dotted-key table -/
def dottedOkN : CTbl → List CKey → Bool
  | _, [] => true
  | t, k :: ks => match clookup k.key t.items with
      | none => true
      | some (.table sub) => sub.dotted && dottedOkN sub ks
      | some _ => false

def kvLineOkN (inp : Bytes) (st : CState) (s : Bytes) : Bool :=
  match ckeyPath inp.length s with
  | .ok ks (0x3D :: r1) =>
    (match cvalue inp.length (3 * r1.length + 4) (ks.length - 1) (dropWs r1) with
     | .ok _ _ =>
       (match splitLast ks with
        | some (path, _) => dottedOkN st.current path
        | none => true)
     | _ => true)
  | _ => true

def runOkN (inp : Bytes) : Nat → CState → Bytes → Bool
  | 0, _, _ => true
  | fuel + 1, st, s =>
    let n := inp.length
    match s with
    | [] => true
    | b :: r =>
      if b == 0x23 then
        let r1 := dropComment r
        match r1 with
        | [] => true
        | _ => match newline? r1 with
          | some r2 =>
            let (st', r3) := parseWs n (onWs st (pos n s) (pos n r2)) r2
            runOkN inp fuel st' r3
          | none => true
      else if b == 0x5B then
        hdrLineOkA inp st s &&
        (match ctableLine n st s with
         | some (st', r1) =>
           let (st'', r2) := parseWs n st' r1
           runOkN inp fuel st'' r2
         | none => true)
      else if b == 0x0A || b == 0x0D then
        match newline? s with
        | some r1 =>
          let (st', r2) := parseWs n (onWs st (pos n s) (pos n r1)) r1
          runOkN inp fuel st' r2
        | none => true
      else
        kvLineOkN inp st s &&
        (match ckeyvalLine n st s with
         | some (st', r1) =>
           let (st'', r2) := parseWs n st' r1
           runOkN inp fuel st'' r2
         | none => true)

/-- the class: the checked run of `parse_document`, structure only, dotted keys in any order -/
def nadRun (s : Bytes) : Bool :=
  let n := s.length
  let s0 := Doc.stripBom s
  let (st0, s1) := parseWs n {} s0
  runOkN s (s1.length + 1) st0 s1

/-! ### `adjRun ⊆ nadRun` -/

theorem dottedOkA_N : ∀ (path : List CKey) (t : CTbl), dottedOkA t path = true → dottedOkN t path = true
  | [], _, _ => rfl
  | k :: ks, t, h => by
    simp only [dottedOkA] at h
    simp only [dottedOkN]
    cases hl : clookup k.key t.items with
    | none => rfl
    | some y =>
      rw [hl] at h
      simp only [] at h ⊢
      split at h
      · rename_i init k' sub hle
        obtain ⟨_, _, _, e4⟩ := lastEntry_some _ _ _ _ _ hle
        rw [hl] at e4
        injection e4 with e4
        subst e4
        simp only [Bool.and_eq_true] at h ⊢
        exact ⟨h.1, dottedOkA_N ks sub h.2⟩
      · cases h

theorem kvLineOkA_N (inp : Bytes) (st : CState) (s : Bytes) (h : kvLineOkA inp st s = true) :
    kvLineOkN inp st s = true := by
  unfold kvLineOkA at h
  unfold kvLineOkN
  split
  · rename_i ks r1 hk
    rw [hk] at h
    simp only [] at h ⊢
    split
    · rename_i v r2 hv
      rw [hv] at h
      simp only [] at h
      split
      · rename_i path key hsl
        rw [hsl] at h
        exact dottedOkA_N path _ h
      · rfl
    · rfl
  · rfl

theorem runOkA_N (inp : Bytes) : ∀ (fuel : Nat) (st : CState) (s : Bytes),
    runOkA inp fuel st s = true → runOkN inp fuel st s = true := by
  intro fuel
  induction fuel with
  | zero => intro st s _; unfold runOkN; rfl
  | succ fuel ih =>
    intro st s h
    unfold runOkA at h
    unfold runOkN
    cases s with
    | nil => rfl
    | cons b r =>
      simp only [] at h ⊢
      by_cases hb1 : (b == 0x23) = true
      · simp only [hb1, if_true] at h ⊢
        cases hdc : dropComment r with
        | nil => simp only []
        | cons c1 r1 =>
          simp only [hdc] at h ⊢
          cases hnl : newline? (c1 :: r1) with
          | none => simp only []
          | some r2 =>
            simp only [hnl] at h ⊢
            exact ih _ _ h
      · simp only [hb1, Bool.false_eq_true, if_false] at h ⊢
        by_cases hb2 : (b == 0x5B) = true
        · simp only [hb2, if_true, Bool.and_eq_true] at h ⊢
          refine ⟨h.1, ?_⟩
          cases hl : ctableLine inp.length st (b :: r) with
          | none => simp only []
          | some pr =>
            obtain ⟨st', r1⟩ := pr
            have h2 := h.2
            simp only [hl] at h2 ⊢
            exact ih _ _ h2
        · simp only [hb2, Bool.false_eq_true, if_false] at h ⊢
          by_cases hb3 : (b == 0x0A || b == 0x0D) = true
          · simp only [hb3, if_true] at h ⊢
            cases hnl : newline? (b :: r) with
            | none => simp only []
            | some r1 =>
              simp only [hnl] at h ⊢
              exact ih _ _ h
          · simp only [hb3, Bool.false_eq_true, if_false, Bool.and_eq_true] at h ⊢
            refine ⟨kvLineOkA_N inp st _ h.1, ?_⟩
            cases hl : ckeyvalLine inp.length st (b :: r) with
            | none => simp only []
            | some pr =>
              obtain ⟨st', r1⟩ := pr
              have h2 := h.2
              simp only [hl] at h2 ⊢
              exact ih _ _ h2

theorem adjRun_N (s : Bytes) (h : adjRun s = true) : nadRun s = true := by
  unfold adjRun at h
  unfold nadRun
  simp only [] at h ⊢
  exact runOkA_N s _ _ _ h

theorem dottedOkN_empty (t : CTbl) (h : t.items = []) : ∀ path, dottedOkN t path = true
  | [] => rfl
  | k :: ks => by simp [dottedOkN, h, clookup]

theorem dottedOkN_items (t t' : CTbl) (h : t'.items = t.items) :
    ∀ path, dottedOkN t' path = dottedOkN t path
  | [] => rfl
  | k :: ks => by simp only [dottedOkN, h]

end TomlVerif.Lemmas.Tiling03More
