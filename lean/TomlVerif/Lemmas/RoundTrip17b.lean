import TomlVerif.Lemmas.RoundTrip17a
import TomlVerif.Lemmas.Encode06c
/-! Round trip of `toml::Value` trees, layers (b)/(c), syntactic side: the statement loop of the parser on the
    text `renderStmts` prints performs exactly the statements printed (`lines_stmts`), so parsing the text is
    running the definition state machine over them (`parseDocument_stmts`). -/
namespace TomlVerif.Lemmas.RoundTrip17
open TomlVerif.Model.DeText
open TomlVerif TomlVerif.Spec TomlVerif.Model TomlVerif.Model.TomlValue TomlVerif.Model.DeRoutes
open TomlVerif.Model.Value TomlVerif.Model.Strings TomlVerif.Model.State TomlVerif.Model.Doc
open TomlVerif.Spec.AstValue TomlVerif.Spec.AstDoc TomlVerif.Lemmas.Value01 TomlVerif.Lemmas.Doc01
open TomlVerif.Lemmas.State09 TomlVerif.Lemmas.FuelValue04 TomlVerif.Lemmas.Encode06c
open TomlVerif.Model.Encode06 (encodeKeyPath encodeKeyPathAux DEFAULT_KEY_PATH_DECOR DEFAULT_KEY_DECOR reprKey)
open TomlVerif.Lemmas.Fuel04 (dropWs_len)

/-- the statement of the definition state machine a printed statement stands for -/
def stmtOf : TomlValue.Stmt → State09.Stmt
  | .header p => .std p
  | .aotHeader p => .arr p
  | .kv k v => .kv [] k (valOf v)

def StmtOk : TomlValue.Stmt → Prop
  | .header p => p ≠ [] ∧ p.length < LIMIT
  | .aotHeader p => p ≠ [] ∧ p.length < LIMIT
  | .kv _ v => OkV v ∧ depthTV v < LIMIT

/-! ## key/value lines -/

def kvLine (fl : FloatText) (p : Bool) (k : Bytes) (v : TV) : Bytes :=
  renderKey k ++ sp ++ [0x3D] ++ sp ++ renderVal fl p v ++ [0x0A]

theorem kvLine_eq (fl : FloatText) (p : Bool) (k : Bytes) (v : TV) (more : Bytes) :
    kvLine fl p k v ++ more = (bodyKey k).render ++ 0x3D :: ([0x20] ++ (renderVal fl p v ++ 0x0A :: more)) := by
  simp [kvLine, bodyKey, KeyPath.render, KeySeg.render, renderSep, sp, renderKey, reprKey]

theorem noTrivia_renderVal (fl : FloatText) (p : Bool) (v : TV) (h : OkV v) (X : Bytes) :
    NoTriviaHead (renderVal fl p v ++ X) := by
  obtain ⟨b, r, e, hb⟩ := renderVal_head fl p v h
  rw [e]; exact not_trivia_of_not_follow b hb

theorem keyvalLine_kv (fl : FloatText) (p : Bool) (st : ParseState) (k : Bytes) (v : TV) (more : Bytes)
    (hv : OkV v) (hd : depthTV v < LIMIT) :
    keyvalLine st (kvLine fl p k v ++ more) = (onKeyval st [] k (valOf v)).map fun st' => (st', more) := by
  rw [kvLine_eq]
  have e1 := keyPath_path (bodyKey k) (0x3D :: ([0x20] ++ (renderVal fl p v ++ 0x0A :: more))) (bodyKey_ok k) (pathFollow_eq _)
  have e2 : dropWs ([0x20] ++ (renderVal fl p v ++ 0x0A :: more)) = renderVal fl p v ++ 0x0A :: more := by
    rw [dropWs_allws _ _ allWs_sp]; exact dropWs_stop _ (noTrivia_renderVal fl p v hv _)
  have e3 : value (3 * ([0x20] ++ (renderVal fl p v ++ 0x0A :: more)).length + 4) ((bodyKey k).names.length - 1)
      (dropWs ([0x20] ++ (renderVal fl p v ++ 0x0A :: more))) = .ok (valOf v) (0x0A :: more) := by
    rw [e2]
    exact value_renderVal fl p v hv _ _ _ (by simp [bodyKey, KeyPath.names]; omega)
      (followS_of_head 0x0A _ (by decide) (by decide)) (by simp; omega)
  have e4 : lineTrailing (0x0A :: more) = .ok () more := by
    have := lineTrailing_nl [] none false more (by intro b hb; cases hb) (by intro body h; cases h)
    simpa [commentBytes, nlBytes] using this
  have e5 : ¬ LIMIT ≤ (bodyKey k).names.length - 1 := by simp [bodyKey, KeyPath.names, LIMIT]
  have e6 : Value.splitLast (bodyKey k).names = some ([], k) := rfl
  unfold keyvalLine
  simp only [e1, e5, if_false, e3, e4, e6]

theorem kvLine_head (fl : FloatText) (p : Bool) (k : Bytes) (v : TV) (more : Bytes) :
    ∃ b t, kvLine fl p k v ++ more = b :: t ∧ (b = 0x22 ∨ b = 0x27 ∨ isUnquotedChar b = true) := by
  obtain ⟨b, t, e, hb⟩ := reprKey_head k
  have e' : renderKey k = b :: t := e
  refine ⟨b, t ++ (sp ++ ([0x3D] ++ (sp ++ (renderVal fl p v ++ ([0x0A] ++ more))))), ?_, hb⟩
  simp [kvLine, e']

theorem lines_kvLine (fl : FloatText) (p : Bool) (f : Nat) (st : ParseState) (k : Bytes) (v : TV) (more : Bytes)
    (hv : OkV v) (hd : depthTV v < LIMIT) :
    lines (f + 1) st (kvLine fl p k v ++ more) =
      (onKeyval st [] k (valOf v)).bind fun st' => lines f st' (dropWs more) := by
  obtain ⟨b, t, e, hb⟩ := kvLine_head fl p k v more
  have hf := keyhead_facts b hb
  have e1 := keyvalLine_kv fl p st k v more hv hd
  rw [e] at e1 ⊢
  rw [lines_keyval f st b t hf.2.1 hf.2.2.1 hf.2.2.2.1 hf.2.2.2.2.1, e1]
  cases onKeyval st [] k (valOf v) <;> rfl

theorem dropWs_kvLine (fl : FloatText) (p : Bool) (k : Bytes) (v : TV) (more : Bytes) :
    dropWs (kvLine fl p k v ++ more) = kvLine fl p k v ++ more := by
  obtain ⟨b, t, e, hb⟩ := kvLine_head fl p k v more
  rw [e]; exact dropWs_head _ _ (keyhead_facts b hb).1

theorem kvLine_pos (fl : FloatText) (p : Bool) (k : Bytes) (v : TV) : 0 < (kvLine fl p k v).length := by
  simp only [kvLine, List.length_append, List.length_cons, List.length_nil]; omega

/-! ## headers -/

theorem joinWith_cons2 (sep a b : Bytes) (r : List Bytes) :
    joinWith sep (a :: b :: r) = a ++ sep ++ joinWith sep (b :: r) := rfl

theorem renderPath_eq : ∀ (k0 : Bytes) (ks : List Bytes),
    renderPath (k0 :: ks) = encodeKeyPath (k0 :: ks) DEFAULT_KEY_PATH_DECOR := by
  intro k0 ks
  rw [encodeKeyPath, encodeKeyPathAux]
  induction ks generalizing k0 with
  | nil => simp [renderPath, joinWith, DEFAULT_KEY_PATH_DECOR, encodeKeyPathAux, renderKey, reprKey]
  | cons k1 r ih =>
    have := ih k1
    simp only [renderPath, List.map_cons] at this ⊢
    rw [joinWith_cons2, this]
    simp [DEFAULT_KEY_PATH_DECOR, encodeKeyPathAux, renderKey, reprKey]

theorem header_eq (path : List Bytes) (hne : path ≠ []) :
    [0x5B] ++ renderPath path ++ [0x5D, 0x0A] = hdrLine false path ∧
    [0x5B, 0x5B] ++ renderPath path ++ [0x5D, 0x5D, 0x0A] = hdrLine true path := by
  cases path with
  | nil => exact absurd rfl hne
  | cons k0 ks => rw [renderPath_eq]; simp [hdrLine]

/-! ## the statement list -/

theorem renderStmts_kv (fl : FloatText) (p first : Bool) (k : Bytes) (v : TV) (r : List TomlValue.Stmt) :
    renderStmts fl p first (.kv k v :: r) = kvLine fl p k v ++ renderStmts fl p first r := by
  simp [renderStmts, kvLine]

theorem renderStmts_header (fl : FloatText) (p first : Bool) (path : List Bytes) (r : List TomlValue.Stmt)
    (hne : path ≠ []) :
    renderStmts fl p first (.header path :: r) =
      (if first then [] else [0x0A]) ++ (hdrLine false path ++ renderStmts fl p false r) := by
  rw [← (header_eq path hne).1]; simp [renderStmts]

theorem renderStmts_aot (fl : FloatText) (p first : Bool) (path : List Bytes) (r : List TomlValue.Stmt)
    (hne : path ≠ []) :
    renderStmts fl p first (.aotHeader path :: r) =
      (if first then [] else [0x0A]) ++ (hdrLine true path ++ renderStmts fl p false r) := by
  rw [← (header_eq path hne).2]; simp [renderStmts]

/-- a header line, with or without the blank line before it -/
theorem lines_header (f : Nat) (st : ParseState) (first isArray : Bool) (path : List Bytes) (more : Bytes)
    (hne : path ≠ []) (hlen : path.length < LIMIT)
    (hf : (dropWs ((if first then [] else [0x0A]) ++ (hdrLine isArray path ++ more))).length < f) :
    lines f st (dropWs ((if first then [] else [0x0A]) ++ (hdrLine isArray path ++ more))) =
      (step st (hdrStmt isArray path)).bind fun st' => lines f st' (dropWs more) := by
  have hpos := hdrLine_pos isArray path
  have hl := dropWs_len more
  have key : ∀ g, (hdrLine isArray path ++ more).length < g →
      lines g st (dropWs (hdrLine isArray path ++ more)) =
        (step st (hdrStmt isArray path)).bind fun st' => lines g st' (dropWs more) := by
    intro g hg
    obtain ⟨g0, rfl⟩ : ∃ g0, g = g0 + 1 := ⟨g - 1, by omega⟩
    rw [lines_hdr_line g0 st isArray path _ hne hlen]
    rw [List.length_append] at hg
    cases step st (hdrStmt isArray path) with
    | none => rfl
    | some st1 =>
      simp only [Option.bind]
      exact lines_fuel g0 (g0 + 1) st1 _ (by omega) (by omega)
  cases first with
  | true =>
    simp only [if_true, List.nil_append] at hf ⊢
    rw [dropWs_hdrLine] at hf
    exact key f hf
  | false =>
    simp only [Bool.false_eq_true, if_false, List.cons_append, List.nil_append] at hf ⊢
    rw [dropWs_head _ _ (by decide)] at hf ⊢
    obtain ⟨g, rfl⟩ : ∃ g, f = g + 1 := ⟨f - 1, by omega⟩
    have hb := lines_blank_nl g st [] false (hdrLine isArray path ++ more) (by intro b hb; cases hb)
    simp only [List.nil_append, nlBytes, Bool.false_eq_true, if_false, List.cons_append] at hb
    rw [dropWs_head _ _ (by decide)] at hb
    rw [hb]
    simp only [List.length_cons] at hf
    have h1 := key g (by omega)
    rw [h1]
    rw [List.length_append] at hf
    cases step st (hdrStmt isArray path) with
    | none => rfl
    | some st1 =>
      simp only [Option.bind]
      exact lines_fuel g (g + 1) st1 _ (by omega) (by omega)

theorem run_cons (st : ParseState) (s : State09.Stmt) (r : List State09.Stmt) :
    run st (s :: r) = (step st s).bind fun st' => run st' r := by
  simp only [run]
  cases step st s <;> rfl

/-- **the statement loop on the printed statements is the run of the statements** -/
theorem lines_stmts (fl : FloatText) (p : Bool) : ∀ (stmts : List TomlValue.Stmt) (first : Bool) (st : ParseState)
    (f : Nat), (∀ s ∈ stmts, StmtOk s) → (dropWs (renderStmts fl p first stmts)).length < f →
    lines f st (dropWs (renderStmts fl p first stmts)) = run st (stmts.map stmtOf) := by
  intro stmts
  induction stmts with
  | nil =>
    intro first st f _ hf
    obtain ⟨g, rfl⟩ : ∃ g, f = g + 1 := ⟨f - 1, by omega⟩
    simp [renderStmts, run, dropWs, lines]
  | cons s r ih =>
    intro first st f hok hf
    have hs := hok s (by simp)
    have hr : ∀ x ∈ r, StmtOk x := fun x hx => hok x (by simp [hx])
    cases s with
    | kv k v =>
      rw [StmtOk] at hs
      rw [renderStmts_kv, dropWs_kvLine] at hf ⊢
      obtain ⟨g, rfl⟩ : ∃ g, f = g + 1 := ⟨f - 1, by omega⟩
      rw [lines_kvLine fl p g st k v _ hs.1 hs.2]
      simp only [List.map_cons, stmtOf, run_cons, step]
      have hp := kvLine_pos fl p k v
      have hl := dropWs_len (renderStmts fl p first r)
      rw [List.length_append] at hf
      cases onKeyval st [] k (valOf v) with
      | none => rfl
      | some st1 =>
        simp only [Option.bind]
        rw [lines_fuel g (g + 1) st1 _ (by omega) (by omega)]
        exact ih first st1 (g + 1) hr (by omega)
    | header path =>
      rw [StmtOk] at hs
      rw [renderStmts_header fl p first path r hs.1] at hf ⊢
      rw [lines_header f st first false path _ hs.1 hs.2 hf]
      simp only [List.map_cons, stmtOf, run_cons, hdrStmt, Bool.false_eq_true, if_false]
      cases step st (.std path) with
      | none => rfl
      | some st1 =>
        simp only [Option.bind]
        refine ih false st1 f hr ?_
        have h1 := dropWs_dropWs_append_len ((if first then [] else [0x0A]) ++ hdrLine false path) (renderStmts fl p false r)
        rw [List.append_assoc] at h1
        omega
    | aotHeader path =>
      rw [StmtOk] at hs
      rw [renderStmts_aot fl p first path r hs.1] at hf ⊢
      rw [lines_header f st first true path _ hs.1 hs.2 hf]
      simp only [List.map_cons, stmtOf, run_cons, hdrStmt, if_true]
      cases step st (.arr path) with
      | none => rfl
      | some st1 =>
        simp only [Option.bind]
        refine ih false st1 f hr ?_
        have h1 := dropWs_dropWs_append_len ((if first then [] else [0x0A]) ++ hdrLine true path) (renderStmts fl p false r)
        rw [List.append_assoc] at h1
        omega

/-! ## no byte-order mark -/

theorem renderStmts_head (fl : FloatText) (p : Bool) : ∀ (stmts : List TomlValue.Stmt) (first : Bool),
    (∀ s ∈ stmts, StmtOk s) → ∀ b t, renderStmts fl p first stmts = b :: t → b ≠ 0xEF := by
  intro stmts first hok b t h
  cases stmts with
  | nil => simp [renderStmts] at h
  | cons s r =>
    have hs := hok s (by simp)
    cases s with
    | kv k v =>
      rw [renderStmts_kv] at h
      obtain ⟨b', t', e, hb'⟩ := kvLine_head fl p k v (renderStmts fl p first r)
      rw [e] at h
      injection h with h _
      rw [← h]
      exact (keyhead_facts b' hb').2.2.2.2.2
    | header path =>
      rw [StmtOk] at hs
      rw [renderStmts_header fl p first path r hs.1] at h
      cases first with
      | true =>
        simp only [if_true, List.nil_append] at h
        obtain ⟨t', e⟩ := hdrLine_head false path (renderStmts fl p false r)
        rw [e] at h
        injection h with h _
        rw [← h]; decide
      | false =>
        simp only [Bool.false_eq_true, if_false, List.cons_append] at h
        injection h with h _
        rw [← h]; decide
    | aotHeader path =>
      rw [StmtOk] at hs
      rw [renderStmts_aot fl p first path r hs.1] at h
      cases first with
      | true =>
        simp only [if_true, List.nil_append] at h
        obtain ⟨t', e⟩ := hdrLine_head true path (renderStmts fl p false r)
        rw [e] at h
        injection h with h _
        rw [← h]; decide
      | false =>
        simp only [Bool.false_eq_true, if_false, List.cons_append] at h
        injection h with h _
        rw [← h]; decide

/-- **the parser on the printed statements**: the run of the statements, then `into_document` -/
theorem parseDocument_stmts (fl : FloatText) (p first : Bool) (stmts : List TomlValue.Stmt)
    (h : ∀ s ∈ stmts, StmtOk s) :
    parseDocument (renderStmts fl p first stmts) = (run {} (stmts.map stmtOf)).bind intoDocument := by
  unfold parseDocument
  simp only [stripBom_noop _ (renderStmts_head fl p stmts first h)]
  rw [lines_stmts fl p stmts first {} _ h (by omega)]
  cases run {} (stmts.map stmtOf) <;> rfl

end TomlVerif.Lemmas.RoundTrip17
