import TomlVerif.Spec.AstString
import TomlVerif.Model.Strings
import TomlVerif.Lemmas.Guards10
/-! Helper lemmas for C02 (strings): every grammar-conformant spelling decodes to its specified value. -/
namespace TomlVerif.Lemmas.S02
open TomlVerif TomlVerif.Spec TomlVerif.Spec.AstString TomlVerif.Model.Strings TomlVerif.Lemmas

/-! ### hex digits -/

theorem hexVal_of_hexdig : ∀ b : UInt8, isHexdig b = true → hexVal b = some (hexDigitVal b) :=
  forall_byte (by decide +kernel)

theorem hexVal_none_of_not_hexdig : ∀ b : UInt8, isHexdig b = false → hexVal b = none :=
  forall_byte (by decide +kernel)

theorem hexdig_of_hexVal : ∀ b : UInt8, ∀ v, hexVal b = some v → isHexdig b = true ∧ v = hexDigitVal b := by
  intro b v h
  by_cases hb : isHexdig b = true
  · rw [hexVal_of_hexdig b hb] at h; injection h with h; exact ⟨hb, h.symm⟩
  · have : isHexdig b = false := by simpa using hb
    rw [hexVal_none_of_not_hexdig b this] at h; cases h

theorem hexN_digits (ds : Bytes) : ∀ (r : Bytes) (acc : Nat), ds.all isHexdig = true →
    hexN ds.length (ds ++ r) acc = some (ds.foldl (fun a d => a * 16 + hexDigitVal d) acc, r) := by
  induction ds with
  | nil => intro r acc _; simp [hexN]
  | cons d ds ih =>
    intro r acc h
    simp only [List.all_cons, Bool.and_eq_true] at h
    simp [hexN, hexVal_of_hexdig d h.1, ih r _ h.2]

theorem hexN_inv : ∀ (n : Nat) (s : Bytes) (acc cp : Nat) (r : Bytes), hexN n s acc = some (cp, r) →
    ∃ ds : Bytes, ds.length = n ∧ ds.all isHexdig = true ∧ s = ds ++ r ∧
      cp = ds.foldl (fun a d => a * 16 + hexDigitVal d) acc := by
  intro n
  induction n with
  | zero =>
    intro s acc cp r h
    simp [hexN] at h
    exact ⟨[], rfl, rfl, by simp [h.2], by simp [h.1]⟩
  | succ n ih =>
    intro s acc cp r h
    cases s with
    | nil => simp [hexN] at h
    | cons b t =>
      unfold hexN at h
      cases hv : hexVal b with
      | none => simp [hv] at h
      | some v =>
        simp only [hv] at h
        obtain ⟨hb, hv'⟩ := hexdig_of_hexVal b v hv
        obtain ⟨ds, hl, ha, hs, hc⟩ := ih t _ cp r h
        refine ⟨b :: ds, by simp [hl], by simp [hb, ha], by simp [hs], ?_⟩
        simp [hc, hv']

/-- `hexescape` on `n` hex digits (either case): the UTF-8 encoding exactly when the value is a scalar value -/
theorem hexescape_digits (ds r : Bytes) (h : ds.all isHexdig = true) :
    hexescape ds.length (ds ++ r) =
      if Utf8.isScalar (hexValue ds) then .ok (Utf8.encode (hexValue ds)) r else .cut := by
  have e : hexN ds.length (ds ++ r) 0 = some (hexValue ds, r) := hexN_digits ds r 0 h
  unfold hexescape
  rw [e]

/-! ### escapes -/

theorem escMeaning_cases : ∀ c : UInt8, (escMeaning c).isSome = true →
    c = 0x22 ∨ c = 0x5C ∨ c = 0x62 ∨ c = 0x66 ∨ c = 0x6E ∨ c = 0x72 ∨ c = 0x74 :=
  forall_byte (by decide +kernel)

theorem escMeaning_none_cases : ∀ c : UInt8, escMeaning c = none →
    c ≠ 0x22 ∧ c ≠ 0x5C ∧ c ≠ 0x62 ∧ c ≠ 0x66 ∧ c ≠ 0x6E ∧ c ≠ 0x72 ∧ c ≠ 0x74 :=
  forall_byte (by decide +kernel)

/-- the parser's escape table is the specification's -/
theorem escapeSeqChar_table (c : UInt8) (r : Bytes) :
    escapeSeqChar (c :: r) =
      match escMeaning c with
      | some v => .ok [v] r
      | none => if c = 0x75 then hexescape 4 r else if c = 0x55 then hexescape 8 r else .cut := by
  cases hm : escMeaning c with
  | some v =>
    have := escMeaning_cases c (by simp [hm])
    rcases this with h | h | h | h | h | h | h <;> subst h <;>
      (simp [escMeaning] at hm; subst hm; simp [escapeSeqChar])
  | none =>
    obtain ⟨h1, h2, h3, h4, h5, h6, h7⟩ := escMeaning_none_cases c hm
    simp [escapeSeqChar, h1, h2, h3, h4, h5, h6, h7]

/-- a well-formed escape is decoded to its meaning -/
theorem escapeSeqChar_wf (e : Escaped) (t : Bytes) (h : e.wf = true) :
    escapeSeqChar (e.tail ++ t) = .ok e.sem t := by
  cases e with
  | simple c =>
    simp only [Escaped.wf] at h
    simp only [Escaped.tail, List.cons_append, List.nil_append, escapeSeqChar_table, Escaped.sem]
    cases hm : escMeaning c with
    | none => simp [hm] at h
    | some v => rfl
  | u4 h0 h1 h2 h3 =>
    simp only [Escaped.wf, Bool.and_eq_true] at h
    have := hexescape_digits [h0, h1, h2, h3] t h.1
    simp only [h.2, if_true, List.length_cons, List.length_nil] at this
    simp only [Escaped.tail, List.cons_append, List.nil_append, escapeSeqChar_table, Escaped.sem]
    simpa [escMeaning] using this
  | u8 h0 h1 h2 h3 h4 h5 h6 h7 =>
    simp only [Escaped.wf, Bool.and_eq_true] at h
    have := hexescape_digits [h0, h1, h2, h3, h4, h5, h6, h7] t h.1
    simp only [h.2, if_true, List.length_cons, List.length_nil] at this
    simp only [Escaped.tail, List.cons_append, List.nil_append, escapeSeqChar_table, Escaped.sem]
    simpa [escMeaning] using this

/-- first byte after the backslash of a well-formed escape -/
theorem escaped_tail_head (e : Escaped) (h : e.wf = true) :
    ∃ c u, e.tail = c :: u ∧ isWschar c = false ∧ c ≠ 0x0A ∧ c ≠ 0x0D := by
  cases e with
  | simple c =>
    simp only [Escaped.wf] at h
    refine ⟨c, [], rfl, ?_⟩
    rcases escMeaning_cases c h with h | h | h | h | h | h | h <;> subst h <;> decide
  | u4 h0 h1 h2 h3 => exact ⟨0x75, _, rfl, by decide, by decide, by decide⟩
  | u8 h0 h1 h2 h3 h4 h5 h6 h7 => exact ⟨0x55, _, rfl, by decide, by decide, by decide⟩

theorem escaped_tail_length_pos (e : Escaped) : 0 < e.tail.length := by
  cases e <;> simp [Escaped.tail]

/-- converse: whatever `escape_seq_char` accepts is a well-formed escape, decoded to its meaning -/
theorem escapeSeqChar_inv (s c r : Bytes) (h : escapeSeqChar s = .ok c r) :
    ∃ e : Escaped, e.wf = true ∧ s = e.tail ++ r ∧ c = e.sem := by
  cases s with
  | nil => simp [escapeSeqChar] at h
  | cons b t =>
    rw [escapeSeqChar_table] at h
    cases hm : escMeaning b with
    | some v =>
      simp only [hm] at h
      injection h with h1 h2
      exact ⟨.simple b, by simp [Escaped.wf, hm], by simp [Escaped.tail, h2], by simp [Escaped.sem, hm, h1]⟩
    | none =>
      simp only [hm] at h
      have hex : ∀ n, hexescape n t = .ok c r → ∃ ds : Bytes, ds.length = n ∧ ds.all isHexdig = true ∧
          t = ds ++ r ∧ Utf8.isScalar (hexValue ds) = true ∧ c = Utf8.encode (hexValue ds) := by
        intro n hh
        unfold hexescape at hh
        cases hn : hexN n t 0 with
        | none => simp [hn] at hh
        | some p =>
          obtain ⟨cp, r'⟩ := p
          simp only [hn] at hh
          by_cases hs : Utf8.isScalar cp = true
          · simp only [hs, if_true] at hh
            injection hh with h1 h2
            obtain ⟨ds, hl, ha, hs', hc⟩ := hexN_inv n t 0 cp r' hn
            have hv : hexValue ds = cp := by simp [hexValue, hc]
            exact ⟨ds, hl, ha, by rw [hs', h2], by rw [hv]; exact hs, by rw [hv]; exact h1.symm⟩
          · simp [hs] at hh
      by_cases hu : b = 0x75
      · subst hu
        simp only [if_true] at h
        obtain ⟨ds, hl, ha, ht, hs, hc⟩ := hex 4 h
        match ds, hl with
        | [h0, h1, h2, h3], _ =>
          exact ⟨.u4 h0 h1 h2 h3, by simp only [Escaped.wf, ha, hs]; rfl, by simp [Escaped.tail, ht],
            by simp [Escaped.sem, hc]⟩
      · by_cases hU : b = 0x55
        · subst hU
          simp only [hu, if_false, if_true] at h
          obtain ⟨ds, hl, ha, ht, hs, hc⟩ := hex 8 h
          match ds, hl with
          | [h0, h1, h2, h3, h4, h5, h6, h7], _ =>
            exact ⟨.u8 h0 h1 h2 h3 h4 h5 h6 h7, by simp only [Escaped.wf, ha, hs]; rfl,
              by simp [Escaped.tail, ht], by simp [Escaped.sem, hc]⟩
        · simp [hu, hU] at h

/-! ### single-line basic strings -/

theorem basicChar_render_length_pos (c : BasicChar) : 0 < c.render.length := by
  cases c <;> simp [BasicChar.render, Escaped.render]

theorem bslash_not_unescaped : isBasicUnescaped 0x5C = false := by decide
theorem quote_not_unescaped : isBasicUnescaped 0x22 = false := by decide

theorem wfBasic_cons (c : BasicChar) (cs : List BasicChar) : wfBasic (c :: cs) = (c.wf && wfBasic cs) := rfl

theorem basic_char_step (fuel : Nat) (c : BasicChar) (t acc : Bytes) (h : c.wf = true) :
    basicBody (fuel + 1) (c.render ++ t) acc = basicBody fuel t (acc ++ c.sem) := by
  cases c with
  | raw b =>
    simp only [BasicChar.wf] at h
    simp [BasicChar.render, BasicChar.sem, basicBody, h]
  | escaped e =>
    simp only [BasicChar.wf] at h
    simp only [BasicChar.render, BasicChar.sem, Escaped.render, List.cons_append]
    conv => lhs; unfold basicBody
    simp only [bslash_not_unescaped, escapeSeqChar_wf e t h]
    simp

theorem basic_body_general (cs : List BasicChar) : ∀ (fuel : Nat) (rest acc : Bytes), wfBasic cs = true →
    (cs.flatMap BasicChar.render ++ 0x22 :: rest).length < fuel →
    basicBody fuel (cs.flatMap BasicChar.render ++ 0x22 :: rest) acc = .ok (acc ++ semBasic cs) rest := by
  induction cs with
  | nil =>
    intro fuel rest acc _ hf
    cases fuel with
    | zero => simp at hf
    | succ f => simp [basicBody, quote_not_unescaped, semBasic]
  | cons c cs ih =>
    intro fuel rest acc hw hf
    simp only [wfBasic, List.all_cons, Bool.and_eq_true] at hw
    cases fuel with
    | zero => simp at hf
    | succ f =>
      simp only [List.flatMap_cons, List.append_assoc] at hf ⊢
      rw [basic_char_step f c _ acc hw.1, ih f rest _ hw.2]
      · simp [semBasic]
      · have := basicChar_render_length_pos c
        simp only [List.length_append] at hf ⊢; omega

/-- whatever `basicBody` accepts is `*basic-char quotation-mark`, decoded per the specification -/
theorem basic_body_sound : ∀ (fuel : Nat) (s acc v rest : Bytes), basicBody fuel s acc = .ok v rest →
    ∃ cs : List BasicChar, wfBasic cs = true ∧ s = cs.flatMap BasicChar.render ++ 0x22 :: rest ∧
      v = acc ++ semBasic cs := by
  intro fuel
  induction fuel with
  | zero => intro s acc v rest h; simp [basicBody] at h
  | succ f ih =>
    intro s acc v rest h
    cases s with
    | nil => simp [basicBody] at h
    | cons b r =>
      unfold basicBody at h
      simp only [] at h
      by_cases hu : isBasicUnescaped b = true
      · simp only [hu, if_true] at h
        obtain ⟨cs, hw, hs, hv⟩ := ih r _ v rest h
        refine ⟨.raw b :: cs, ?_, ?_, ?_⟩
        · rw [wfBasic_cons, hw]; simp [BasicChar.wf, hu]
        · simp [BasicChar.render, hs]
        · simp [semBasic, BasicChar.sem, hv]
      · simp only [hu] at h
        by_cases hb : b = 0x5C
        · subst hb
          simp only [beq_self_eq_true, if_true] at h
          cases he : escapeSeqChar r with
          | bt => simp [he] at h
          | cut => simp [he] at h
          | ok c r' =>
            simp only [he] at h
            obtain ⟨e, hew, hes, hec⟩ := escapeSeqChar_inv r c r' he
            obtain ⟨cs, hw, hs, hv⟩ := ih r' _ v rest h
            refine ⟨.escaped e :: cs, ?_, ?_, ?_⟩
            · rw [wfBasic_cons, hw]; simp [BasicChar.wf, hew]
            · simp [BasicChar.render, Escaped.render, hes, hs]
            · simp [semBasic, BasicChar.sem, hv, hec]
        · have hb' : (b == 0x5C) = false := by simpa using hb
          simp only [hb'] at h
          by_cases hq : b = 0x22
          · subst hq
            simp at h
            exact ⟨[], rfl, by simp [h.2], by simp [semBasic, h.1]⟩
          · have hq' : (b == 0x22) = false := by simpa using hq
            simp [hq'] at h

/-! ### literal strings -/

theorem takeLiteral_spec (s : Bytes) : (takeLiteral s).1.all isLiteralChar = true ∧
    s = (takeLiteral s).1 ++ (takeLiteral s).2 := by
  induction s with
  | nil => simp [takeLiteral]
  | cons b r ih =>
    by_cases hb : isLiteralChar b = true
    · simp [takeLiteral, hb, ih.1]; exact ih.2
    · simp [takeLiteral, hb]

/-! ### newlines and whitespace -/

theorem newline?_nlBytes (c : Bool) (t : Bytes) : newline? (nlBytes c ++ t) = some t := by
  cases c <;> simp [nlBytes, newline?]

theorem newline?_none (x : UInt8) (t : Bytes) (h1 : x ≠ 0x0A) (h2 : x ≠ 0x0D) : newline? (x :: t) = none := by
  unfold newline?
  split
  · rename_i r h; injection h with h _; exact absurd h h1
  · rename_i r h; injection h with h _; exact absurd h h2
  · rfl

theorem nlBytes_length_pos (c : Bool) : 0 < (nlBytes c).length := by cases c <;> simp [nlBytes]

theorem nlBytes_head (c : Bool) : ∃ x u, nlBytes c = x :: u ∧ isWschar x = false ∧ (x = 0x0A ∨ x = 0x0D) := by
  cases c
  · exact ⟨0x0A, [], rfl, by decide, Or.inl rfl⟩
  · exact ⟨0x0D, [0x0A], rfl, by decide, Or.inr rfl⟩

theorem dropWs_all (ws : Bytes) (x : UInt8) (t : Bytes) (h : ws.all isWschar = true) (hx : isWschar x = false) :
    dropWs (ws ++ x :: t) = x :: t := by
  induction ws with
  | nil => simp [dropWs, hx]
  | cons b ws ih =>
    simp only [List.all_cons, Bool.and_eq_true] at h
    simp [dropWs, h.1, ih h.2]

/-- `t` does not begin with a `wschar` or a `newline` -/
def Stops (t : Bytes) : Prop := ∀ x u, t = x :: u → isWschar x = false ∧ x ≠ 0x0A ∧ x ≠ 0x0D

theorem dropWsNewline_stops (fuel : Nat) (t : Bytes) (h : Stops t) : dropWsNewline fuel t = t := by
  cases fuel with
  | zero => rfl
  | succ f =>
    cases t with
    | nil => rfl
    | cons x u =>
      obtain ⟨h1, h2, h3⟩ := h x u rfl
      simp [dropWsNewline, h1, newline?_none x u h2 h3]

theorem wsnl_render_length_pos (w : WsNl) : 0 < w.render.length := by
  cases w with
  | ws b => simp [WsNl.render]
  | nl c => exact nlBytes_length_pos c

theorem dropWsNewline_more (more : List WsNl) : ∀ (fuel : Nat) (t : Bytes), more.all WsNl.wf = true → Stops t →
    (more.flatMap WsNl.render).length ≤ fuel →
    dropWsNewline fuel (more.flatMap WsNl.render ++ t) = t := by
  induction more with
  | nil => intro fuel t _ hs _; simpa using dropWsNewline_stops fuel t hs
  | cons w more ih =>
    intro fuel t hw hs hf
    simp only [List.all_cons, Bool.and_eq_true] at hw
    have hpos := wsnl_render_length_pos w
    simp only [List.flatMap_cons, List.length_append] at hf
    cases fuel with
    | zero => omega
    | succ f =>
      cases w with
      | ws b =>
        simp only [WsNl.wf] at hw
        simp only [List.flatMap_cons, WsNl.render, List.cons_append, List.nil_append]
        unfold dropWsNewline
        simp only [hw.1, if_true]
        exact ih f t hw.2 hs (by omega)
      | nl c =>
        obtain ⟨x, u, hxu, hxw, _⟩ := nlBytes_head c
        have hn := newline?_nlBytes c (more.flatMap WsNl.render ++ t)
        simp only [List.flatMap_cons, WsNl.render, List.append_assoc]
        rw [hxu] at hn ⊢
        simp only [List.cons_append] at hn ⊢
        unfold dropWsNewline
        simp only [hxw, hn]
        exact ih f t hw.2 hs (by omega)

/-! ### multi-line basic strings -/

theorem mlb_unescaped_head : ∀ b : UInt8, isMlbUnescaped b = true → b ≠ 0x22 ∧ b ≠ 0x0A ∧ b ≠ 0x0D ∧ b ≠ 0x5C :=
  forall_byte (by decide +kernel)

theorem bslash_not_mlb : isMlbUnescaped 0x5C = false := by decide

theorem mlbEscapedNl_none_of_head (fuel : Nat) (c : UInt8) (u : Bytes) (hw : isWschar c = false)
    (h1 : c ≠ 0x0A) (h2 : c ≠ 0x0D) : mlbEscapedNl fuel (c :: u) = none := by
  simp [mlbEscapedNl, dropWs, hw, newline?_none c u h1 h2]

theorem mlb_char_step (fuel : Nat) (c : BasicChar) (t acc : Bytes) (h : (MlbItem.char c).wf = true) :
    mlBasicBody (fuel + 1) (c.render ++ t) acc = mlBasicBody fuel t (acc ++ c.sem) := by
  cases c with
  | raw b =>
    simp only [MlbItem.wf] at h
    simp [BasicChar.render, BasicChar.sem, mlBasicBody, h]
  | escaped e =>
    simp only [MlbItem.wf] at h
    obtain ⟨c, u, hcu, hw, h1, h2⟩ := escaped_tail_head e h
    have hesc := escapeSeqChar_wf e t h
    simp only [BasicChar.render, BasicChar.sem, Escaped.render, List.cons_append]
    conv => lhs; unfold mlBasicBody
    rw [hcu] at hesc ⊢
    simp only [List.cons_append] at hesc ⊢
    simp only [bslash_not_mlb, mlbEscapedNl_none_of_head _ c _ hw h1 h2, hesc]
    simp

theorem mlb_nl_step (fuel : Nat) (c : Bool) (t acc : Bytes) :
    mlBasicBody (fuel + 1) (nlBytes c ++ t) acc = mlBasicBody fuel t (acc ++ [0x0A]) := by
  cases c <;> simp [nlBytes, mlBasicBody, newline?, isMlbUnescaped, isBasicUnescaped, isWschar, inR, isNonAscii]

theorem mlb_linecont_step (fuel : Nat) (ws1 : Bytes) (c : Bool) (more : List WsNl) (t acc : Bytes)
    (hw1 : ws1.all isWschar = true) (hm : more.all WsNl.wf = true) (hs : Stops t) :
    mlBasicBody (fuel + 1) (0x5C :: (ws1 ++ (nlBytes c ++ more.flatMap WsNl.render)) ++ t) acc =
      mlBasicBody fuel t acc := by
  obtain ⟨x, u, hxu, hxw, _⟩ := nlBytes_head c
  have hn := newline?_nlBytes c (more.flatMap WsNl.render ++ t)
  have hd : dropWs (ws1 ++ (nlBytes c ++ (more.flatMap WsNl.render ++ t))) =
      nlBytes c ++ (more.flatMap WsNl.render ++ t) := by
    rw [hxu]; exact dropWs_all ws1 x _ hw1 hxw
  have he : mlbEscapedNl ((ws1 ++ (nlBytes c ++ (more.flatMap WsNl.render ++ t))).length + 1)
      (ws1 ++ (nlBytes c ++ (more.flatMap WsNl.render ++ t))) = some t := by
    unfold mlbEscapedNl
    rw [hd, hn]
    simp only []
    rw [dropWsNewline_more more _ t hm hs (by simp only [List.length_append]; omega)]
  simp only [List.cons_append, List.append_assoc]
  conv => lhs; unfold mlBasicBody
  simp only [bslash_not_mlb, he]
  simp

/-- first byte of the rendering of a well-formed item -/
theorem mlb_item_head (j : MlbItem) (h : j.wf = true) : ∃ x u, j.render = x :: u ∧
    (j.isQuotes = false → x ≠ 0x22) ∧ (j.isNl = false → x ≠ 0x0A ∧ x ≠ 0x0D) ∧
    (j.startsWsNl = false → isWschar x = false) := by
  cases j with
  | char c =>
    cases c with
    | raw b =>
      simp only [MlbItem.wf] at h
      obtain ⟨h1, h2, h3, _⟩ := mlb_unescaped_head b h
      exact ⟨b, [], rfl, fun _ => h1, fun _ => ⟨h2, h3⟩, fun hs => by simpa [MlbItem.startsWsNl] using hs⟩
    | escaped e =>
      exact ⟨0x5C, e.tail, rfl, fun _ => by decide, fun _ => by decide, fun _ => by decide⟩
  | nl c =>
    obtain ⟨x, u, hxu, hxw, hx⟩ := nlBytes_head c
    refine ⟨x, u, hxu, fun _ => ?_, fun hn => by simp [MlbItem.isNl] at hn, fun hn => by simp [MlbItem.startsWsNl] at hn⟩
    rcases hx with hx | hx <;> subst hx <;> decide
  | quotes n =>
    simp only [MlbItem.wf, Bool.or_eq_true, beq_iff_eq] at h
    refine ⟨0x22, List.replicate (n - 1) 0x22, ?_, fun hq => by simp [MlbItem.isQuotes] at hq,
      fun _ => by decide, fun _ => by decide⟩
    rcases h with h | h <;> subst h <;> rfl
  | lineCont ws1 c more =>
    exact ⟨0x5C, _, rfl, fun _ => by decide, fun _ => by decide, fun _ => by decide⟩

theorem mlb_item_render_length_pos (j : MlbItem) (h : j.wf = true) : 0 < j.render.length := by
  obtain ⟨x, u, e, _⟩ := mlb_item_head j h
  simp [e]

/-- closing delimiter after `k` body quotes: exact follow condition -/
theorem mlb_close_general (fuel k : Nat) (rest acc : Bytes) (hk : k ≤ 2) (hf : MlFollow 0x22 k rest) :
    mlBasicBody (fuel + 1) (List.replicate k 0x22 ++ 0x22 :: 0x22 :: 0x22 :: rest) acc =
      .ok (acc ++ List.replicate k 0x22) rest := by
  rcases hf with hf | hf
  · subst hf
    have e2 : min (countLeading 0x22 rest + 1 + 1 + 1 + 1 + 1) 5 = 5 := by omega
    simp [List.replicate, mlBasicBody, isMlbUnescaped, isBasicUnescaped, isWschar, inR, isNonAscii, countLeading, e2]
  · exact mlb_close fuel k rest acc hk hf

theorem mlbTrailing_cons (i : MlbItem) (tl : List MlbItem) (h : i.isQuotes = false) :
    mlbTrailing (i :: tl) = mlbTrailing tl := by
  cases tl with
  | nil => cases i <;> simp [mlbTrailing, MlbItem.isQuotes] at h ⊢
  | cons j tl => simp [mlbTrailing, List.getLast?_cons_cons]

theorem mlbTrailing_cons_cons (i j : MlbItem) (tl : List MlbItem) :
    mlbTrailing (i :: j :: tl) = mlbTrailing (j :: tl) := by
  simp [mlbTrailing, List.getLast?_cons_cons]

theorem wfMlbItems_cons (i : MlbItem) (tl : List MlbItem) (h : wfMlbItems (i :: tl) = true) :
    i.wf = true ∧ wfMlbItems tl = true := by
  simp only [wfMlbItems, Bool.and_eq_true] at h
  exact ⟨h.1.1, h.2⟩

/-- what follows an item inside a well-formed body (`t` = rest of the body and the closing delimiter) -/
theorem mlb_tail_head (tl : List MlbItem) (rest : Bytes) (h : wfMlbItems tl = true) :
    ∃ x u, tl.flatMap MlbItem.render ++ 0x22 :: 0x22 :: 0x22 :: rest = x :: u ∧
      ((∀ j tl', tl = j :: tl' → j.isQuotes = false) → tl ≠ [] → x ≠ 0x22) ∧
      ((∀ j tl', tl = j :: tl' → j.isNl = false) → x ≠ 0x0A ∧ x ≠ 0x0D) ∧
      ((∀ j tl', tl = j :: tl' → j.startsWsNl = false) → isWschar x = false) := by
  cases tl with
  | nil =>
    exact ⟨0x22, _, rfl, fun _ hne => absurd rfl hne, fun _ => by decide, fun _ => by decide⟩
  | cons j tl' =>
    obtain ⟨hj, _⟩ := wfMlbItems_cons j tl' h
    obtain ⟨x, u, e, h1, h2, h3⟩ := mlb_item_head j hj
    refine ⟨x, u ++ (tl'.flatMap MlbItem.render ++ 0x22 :: 0x22 :: 0x22 :: rest), by simp [e], ?_, ?_, ?_⟩
    · intro hq _; exact h1 (hq j tl' rfl)
    · intro hq; exact h2 (hq j tl' rfl)
    · intro hq; exact h3 (hq j tl' rfl)

theorem mlb_items_general (items : List MlbItem) : ∀ (fuel : Nat) (rest acc : Bytes),
    wfMlbItems items = true → MlFollow 0x22 (mlbTrailing items) rest →
    (items.flatMap MlbItem.render ++ 0x22 :: 0x22 :: 0x22 :: rest).length < fuel →
    mlBasicBody fuel (items.flatMap MlbItem.render ++ 0x22 :: 0x22 :: 0x22 :: rest) acc =
      .ok (acc ++ items.flatMap MlbItem.sem) rest := by
  induction items with
  | nil =>
    intro fuel rest acc _ hf hl
    cases fuel with
    | zero => simp at hl
    | succ f =>
      have := mlb_close_general f 0 rest acc (by omega) hf
      simpa using this
  | cons i tl ih =>
    intro fuel rest acc hw hf hl
    obtain ⟨hi, htl⟩ := wfMlbItems_cons i tl hw
    have hpos := mlb_item_render_length_pos i hi
    simp only [List.flatMap_cons, List.append_assoc, List.length_append] at hl ⊢
    cases i with
    | char c =>
      obtain ⟨f, rfl⟩ : ∃ f, fuel = f + 1 := ⟨fuel - 1, by omega⟩
      rw [mlbTrailing_cons _ _ rfl] at hf
      simp only [MlbItem.render, MlbItem.sem]
      rw [mlb_char_step f c _ acc hi, ih f rest _ htl hf (by simp only [List.length_append]; omega)]
      simp
    | nl c =>
      obtain ⟨f, rfl⟩ : ∃ f, fuel = f + 1 := ⟨fuel - 1, by omega⟩
      rw [mlbTrailing_cons _ _ rfl] at hf
      simp only [MlbItem.render, MlbItem.sem]
      rw [mlb_nl_step f c _ acc, ih f rest _ htl hf (by simp only [List.length_append]; omega)]
      simp
    | lineCont ws1 c more =>
      obtain ⟨f, rfl⟩ : ∃ f, fuel = f + 1 := ⟨fuel - 1, by omega⟩
      rw [mlbTrailing_cons _ _ rfl] at hf
      simp only [MlbItem.wf, Bool.and_eq_true] at hi
      have hs : Stops (tl.flatMap MlbItem.render ++ 0x22 :: 0x22 :: 0x22 :: rest) := by
        obtain ⟨x, u, e, _, h2, h3⟩ := mlb_tail_head tl rest htl
        have hst : ∀ j tl', tl = j :: tl' → j.startsWsNl = false := by
          intro j tl' e; subst e
          simp only [wfMlbItems, Bool.and_eq_true] at hw
          simpa using hw.1.2
        have hnl : ∀ j tl', tl = j :: tl' → j.isNl = false := by
          intro j tl' e
          have := hst j tl' e
          cases j <;> simp [MlbItem.startsWsNl, MlbItem.isNl] at this ⊢
        intro y v hy
        rw [e] at hy; injection hy with hy _; subst hy
        exact ⟨h3 hst, h2 hnl⟩
      simp only [MlbItem.render, MlbItem.sem]
      have := mlb_linecont_step f ws1 c more _ acc hi.1 hi.2 hs
      simp only [List.cons_append, List.append_assoc] at this ⊢
      rw [this, ih f rest _ htl hf (by simp only [List.length_append]; omega)]
      simp
    | quotes n =>
      have hn : n = 1 ∨ n = 2 := by simpa [MlbItem.wf] using hi
      have hn2 : n ≤ 2 := by omega
      simp only [MlbItem.render, MlbItem.sem, List.length_replicate] at hl ⊢
      cases tl with
      | nil =>
        obtain ⟨f, rfl⟩ : ∃ f, fuel = f + 1 := ⟨fuel - 1, by omega⟩
        have hf' : MlFollow 0x22 n rest := by simpa [mlbTrailing] using hf
        simpa using mlb_close_general f n rest acc hn2 hf'
      | cons j tl' =>
        rw [mlbTrailing_cons_cons] at hf
        obtain ⟨x, u, e, h1, _, _⟩ := mlb_tail_head (j :: tl') rest htl
        have hjq : j.isQuotes = false := by
          simp only [wfMlbItems, Bool.and_eq_true] at hw
          simpa using hw.1.2
        have hx : x ≠ 0x22 := h1 (by intro j' t' e'; injection e' with e1 _; subst e1; exact hjq) (by simp)
        obtain ⟨f, rfl⟩ : ∃ f, fuel = f + n := ⟨fuel - n, by omega⟩
        have hq := mlb_quotes f n x u acc hn2 hx
        rw [← e] at hq
        rw [hq, ih f rest _ htl hf (by simp only [List.length_append]; omega)]
        simp

/-! ### multi-line literal strings -/

theorem mll_char_head : ∀ b : UInt8, isMllChar b = true → b ≠ 0x27 ∧ b ≠ 0x0A ∧ b ≠ 0x0D :=
  forall_byte (by decide +kernel)

theorem mll_raw_step (fuel : Nat) (b : UInt8) (t acc : Bytes) (h : isMllChar b = true) :
    mlLiteralBody (fuel + 1) (b :: t) acc = mlLiteralBody fuel t (acc ++ [b]) := by
  simp [mlLiteralBody, h]

theorem mll_nl_step (fuel : Nat) (c : Bool) (t acc : Bytes) :
    mlLiteralBody (fuel + 1) (nlBytes c ++ t) acc = mlLiteralBody fuel t (acc ++ [0x0A]) := by
  cases c <;> simp [nlBytes, mlLiteralBody, newline?, isMllChar, isLiteralChar, inR, isNonAscii]

theorem mll_item_head (j : MllItem) (h : j.wf = true) : ∃ x u, j.render = x :: u ∧
    (j.isQuotes = false → x ≠ 0x27) ∧ (j.isNl = false → x ≠ 0x0A ∧ x ≠ 0x0D) := by
  cases j with
  | raw b =>
    simp only [MllItem.wf] at h
    obtain ⟨h1, h2, h3⟩ := mll_char_head b h
    exact ⟨b, [], rfl, fun _ => h1, fun _ => ⟨h2, h3⟩⟩
  | nl c =>
    obtain ⟨x, u, hxu, hxw, hx⟩ := nlBytes_head c
    refine ⟨x, u, hxu, fun _ => ?_, fun hn => by simp [MllItem.isNl] at hn⟩
    rcases hx with hx | hx <;> subst hx <;> decide
  | quotes n =>
    simp only [MllItem.wf, Bool.or_eq_true, beq_iff_eq] at h
    refine ⟨0x27, List.replicate (n - 1) 0x27, ?_, fun hq => by simp [MllItem.isQuotes] at hq, fun _ => by decide⟩
    rcases h with h | h <;> subst h <;> rfl

theorem mll_item_render_length_pos (j : MllItem) (h : j.wf = true) : 0 < j.render.length := by
  obtain ⟨x, u, e, _⟩ := mll_item_head j h
  simp [e]

theorem mll_close_general (fuel k : Nat) (rest acc : Bytes) (hk : k ≤ 2) (hf : MlFollow 0x27 k rest) :
    mlLiteralBody (fuel + 1) (List.replicate k 0x27 ++ 0x27 :: 0x27 :: 0x27 :: rest) acc =
      .ok (acc ++ List.replicate k 0x27) rest := by
  rcases hf with hf | hf
  · subst hf
    have e2 : min (countLeading 0x27 rest + 1 + 1 + 1 + 1 + 1) 5 = 5 := by omega
    simp [List.replicate, mlLiteralBody, isMllChar, isLiteralChar, inR, isNonAscii, countLeading, e2]
  · exact mll_close fuel k rest acc hk hf

theorem mllTrailing_cons (i : MllItem) (tl : List MllItem) (h : i.isQuotes = false) :
    mllTrailing (i :: tl) = mllTrailing tl := by
  cases tl with
  | nil => cases i <;> simp [mllTrailing, MllItem.isQuotes] at h ⊢
  | cons j tl => simp [mllTrailing, List.getLast?_cons_cons]

theorem mllTrailing_cons_cons (i j : MllItem) (tl : List MllItem) :
    mllTrailing (i :: j :: tl) = mllTrailing (j :: tl) := by
  simp [mllTrailing, List.getLast?_cons_cons]

theorem wfMllItems_cons (i : MllItem) (tl : List MllItem) (h : wfMllItems (i :: tl) = true) :
    i.wf = true ∧ wfMllItems tl = true := by
  simp only [wfMllItems, Bool.and_eq_true] at h
  exact ⟨h.1.1, h.2⟩

theorem mll_tail_head (tl : List MllItem) (rest : Bytes) (h : wfMllItems tl = true) :
    ∃ x u, tl.flatMap MllItem.render ++ 0x27 :: 0x27 :: 0x27 :: rest = x :: u ∧
      ((∀ j tl', tl = j :: tl' → j.isQuotes = false) → tl ≠ [] → x ≠ 0x27) ∧
      ((∀ j tl', tl = j :: tl' → j.isNl = false) → x ≠ 0x0A ∧ x ≠ 0x0D) := by
  cases tl with
  | nil =>
    exact ⟨0x27, _, rfl, fun _ hne => absurd rfl hne, fun _ => by decide⟩
  | cons j tl' =>
    obtain ⟨hj, _⟩ := wfMllItems_cons j tl' h
    obtain ⟨x, u, e, h1, h2⟩ := mll_item_head j hj
    refine ⟨x, u ++ (tl'.flatMap MllItem.render ++ 0x27 :: 0x27 :: 0x27 :: rest), by simp [e], ?_, ?_⟩
    · intro hq _; exact h1 (hq j tl' rfl)
    · intro hq; exact h2 (hq j tl' rfl)

theorem mll_items_general (items : List MllItem) : ∀ (fuel : Nat) (rest acc : Bytes),
    wfMllItems items = true → MlFollow 0x27 (mllTrailing items) rest →
    (items.flatMap MllItem.render ++ 0x27 :: 0x27 :: 0x27 :: rest).length < fuel →
    mlLiteralBody fuel (items.flatMap MllItem.render ++ 0x27 :: 0x27 :: 0x27 :: rest) acc =
      .ok (acc ++ items.flatMap MllItem.sem) rest := by
  induction items with
  | nil =>
    intro fuel rest acc _ hf hl
    cases fuel with
    | zero => simp at hl
    | succ f =>
      have := mll_close_general f 0 rest acc (by omega) hf
      simpa using this
  | cons i tl ih =>
    intro fuel rest acc hw hf hl
    obtain ⟨hi, htl⟩ := wfMllItems_cons i tl hw
    have hpos := mll_item_render_length_pos i hi
    simp only [List.flatMap_cons, List.append_assoc, List.length_append] at hl ⊢
    cases i with
    | raw b =>
      obtain ⟨f, rfl⟩ : ∃ f, fuel = f + 1 := ⟨fuel - 1, by omega⟩
      rw [mllTrailing_cons _ _ rfl] at hf
      simp only [MllItem.wf] at hi
      simp only [MllItem.render, MllItem.sem, List.cons_append, List.nil_append]
      rw [mll_raw_step f b _ acc hi, ih f rest _ htl hf (by simp only [List.length_append]; omega)]
      simp
    | nl c =>
      obtain ⟨f, rfl⟩ : ∃ f, fuel = f + 1 := ⟨fuel - 1, by omega⟩
      rw [mllTrailing_cons _ _ rfl] at hf
      simp only [MllItem.render, MllItem.sem]
      rw [mll_nl_step f c _ acc, ih f rest _ htl hf (by simp only [List.length_append]; omega)]
      simp
    | quotes n =>
      have hn : n = 1 ∨ n = 2 := by simpa [MllItem.wf] using hi
      have hn2 : n ≤ 2 := by omega
      simp only [MllItem.render, MllItem.sem, List.length_replicate] at hl ⊢
      cases tl with
      | nil =>
        obtain ⟨f, rfl⟩ : ∃ f, fuel = f + 1 := ⟨fuel - 1, by omega⟩
        have hf' : MlFollow 0x27 n rest := by simpa [mllTrailing] using hf
        simpa using mll_close_general f n rest acc hn2 hf'
      | cons j tl' =>
        rw [mllTrailing_cons_cons] at hf
        obtain ⟨x, u, e, h1, _⟩ := mll_tail_head (j :: tl') rest htl
        have hjq : j.isQuotes = false := by
          simp only [wfMllItems, Bool.and_eq_true] at hw
          simpa using hw.1.2
        have hx : x ≠ 0x27 := h1 (by intro j' t' e'; injection e' with e1 _; subst e1; exact hjq) (by simp)
        obtain ⟨f, rfl⟩ : ∃ f, fuel = f + n := ⟨fuel - n, by omega⟩
        have hq := mll_quotes f n x u acc hn2 hx
        rw [← e] at hq
        rw [hq, ih f rest _ htl hf (by simp only [List.length_append]; omega)]
        simp

/-! ### the optional newline after the opening delimiter -/

theorem first_nl_strip (fn : Option Bool) (t : Bytes) (h : fn = none → newline? t = none) :
    (newline? (firstNlBytes fn ++ t)).getD (firstNlBytes fn ++ t) = t := by
  cases fn with
  | none => simp [firstNlBytes, h rfl]
  | some c => simp [firstNlBytes, newline?_nlBytes]

/-! ### converse direction for the multi-line kinds -/

theorem countLeading_split (q : UInt8) (s : Bytes) : ∀ k, k ≤ countLeading q s →
    s = List.replicate k q ++ s.drop k := by
  induction s with
  | nil => intro k hk; simp [countLeading] at hk; subst hk; rfl
  | cons b r ih =>
    intro k hk
    cases k with
    | zero => rfl
    | succ k =>
      by_cases hb : b = q
      · subst hb
        simp only [countLeading, beq_self_eq_true, if_true] at hk
        have := ih k (by omega)
        simp only [List.replicate_succ, List.cons_append, List.drop_succ_cons]
        rw [← this]
      · simp [countLeading, hb] at hk

theorem replicate_cons_comm (q : UInt8) (k : Nat) (t : Bytes) :
    q :: (List.replicate k q ++ t) = List.replicate k q ++ q :: t := by
  induction k with
  | zero => rfl
  | succ k ih => simp only [List.replicate_succ, List.cons_append]; rw [ih]

theorem replicate_add3 (q : UInt8) (k : Nat) (t : Bytes) :
    List.replicate (k + 3) q ++ t = List.replicate k q ++ q :: q :: q :: t := by
  simp only [List.replicate_succ, List.cons_append]
  rw [replicate_cons_comm, replicate_cons_comm, replicate_cons_comm]

theorem countLeading_drop_head (q : UInt8) (s : Bytes) : (s.drop (countLeading q s)).head? ≠ some q := by
  induction s with
  | nil => simp [countLeading]
  | cons b r ih =>
    by_cases hb : b = q
    · subst hb; simpa [countLeading] using ih
    · simp [countLeading, hb]

theorem newline?_inv (s r' : Bytes) (h : newline? s = some r') : ∃ c, s = nlBytes c ++ r' := by
  unfold newline? at h
  split at h
  · injection h with h; subst h; exact ⟨false, rfl⟩
  · injection h with h; subst h; exact ⟨true, rfl⟩
  · cases h

/-- put one more quote character in front of a body -/
def mllConsQuote : List MllItem → List MllItem
  | [] => [.quotes 1]
  | .quotes k :: tl => .quotes (k + 1) :: tl
  | .raw b :: tl => .quotes 1 :: .raw b :: tl
  | .nl c :: tl => .quotes 1 :: .nl c :: tl

theorem mllConsQuote_spec (items : List MllItem) (rest : Bytes) (hw : wfMllItems items = true)
    (hc : countLeading 0x27 (items.flatMap MllItem.render ++ 0x27 :: 0x27 :: 0x27 :: rest) ≤ 1)
    (hf : MlFollow 0x27 (mllTrailing items) rest) :
    wfMllItems (mllConsQuote items) = true ∧
    (mllConsQuote items).flatMap MllItem.render = 0x27 :: items.flatMap MllItem.render ∧
    (mllConsQuote items).flatMap MllItem.sem = 0x27 :: items.flatMap MllItem.sem ∧
    MlFollow 0x27 (mllTrailing (mllConsQuote items)) rest := by
  cases items with
  | nil => simp [countLeading] at hc
  | cons i tl =>
    obtain ⟨hi, htl⟩ := wfMllItems_cons i tl hw
    cases i with
    | raw b =>
      refine ⟨?_, by simp [mllConsQuote, MllItem.render], by simp [mllConsQuote, MllItem.sem], ?_⟩
      · simp only [mllConsQuote, wfMllItems, MllItem.wf, MllItem.isQuotes] at hw ⊢; simpa using hw
      · simp only [mllConsQuote]; rw [mllTrailing_cons_cons]; exact hf
    | nl c =>
      refine ⟨?_, by simp [mllConsQuote, MllItem.render], by simp [mllConsQuote, MllItem.sem], ?_⟩
      · simp only [mllConsQuote, wfMllItems, MllItem.wf, MllItem.isQuotes] at hw ⊢; simpa using hw
      · simp only [mllConsQuote]; rw [mllTrailing_cons_cons]; exact hf
    | quotes k =>
      have hk : k = 1 ∨ k = 2 := by simpa [MllItem.wf] using hi
      rcases hk with hk | hk
      · subst hk
        refine ⟨?_, by simp [mllConsQuote, MllItem.render, List.replicate], by simp [mllConsQuote, MllItem.sem, List.replicate], ?_⟩
        · cases tl with
          | nil => rfl
          | cons j tl' => simp only [mllConsQuote, wfMllItems, MllItem.wf] at hw ⊢; simpa using hw
        · simp only [mllConsQuote]
          cases tl with
          | nil => exact Or.inl (by simp [mllTrailing])
          | cons j tl' => rw [mllTrailing_cons_cons] at hf ⊢; exact hf
      · subst hk
        simp [MllItem.render, List.replicate, countLeading] at hc

theorem mll_body_sound : ∀ (fuel : Nat) (s acc v rest : Bytes), mlLiteralBody fuel s acc = .ok v rest →
    ∃ items : List MllItem, wfMllItems items = true ∧
      s = items.flatMap MllItem.render ++ 0x27 :: 0x27 :: 0x27 :: rest ∧
      v = acc ++ items.flatMap MllItem.sem ∧ MlFollow 0x27 (mllTrailing items) rest := by
  intro fuel
  induction fuel with
  | zero => intro s acc v rest h; simp [mlLiteralBody] at h
  | succ f ih =>
    intro s acc v rest h
    cases s with
    | nil => simp [mlLiteralBody] at h
    | cons b r =>
      unfold mlLiteralBody at h
      simp only [] at h
      by_cases hu : isMllChar b = true
      · simp only [hu, if_true] at h
        obtain ⟨items, hw, hs, hv, hf⟩ := ih r _ v rest h
        refine ⟨.raw b :: items, ?_, by simp [MllItem.render, hs], by simp [MllItem.sem, hv], ?_⟩
        · simp [wfMllItems, MllItem.wf, hu, hw]
        · rw [mllTrailing_cons _ _ rfl]; exact hf
      · simp only [hu] at h
        by_cases hq : b = 0x27
        · subst hq
          simp only [beq_self_eq_true, if_true] at h
          by_cases h3 : 3 ≤ countLeading 0x27 (0x27 :: r)
          · simp only [h3, if_true] at h
            injection h with hv hr
            generalize hn : countLeading 0x27 (0x27 :: r) = n at h3 hv hr
            have hsplit := countLeading_split 0x27 (0x27 :: r) (min n 5) (by omega)
            rw [hr] at hsplit
            have hm : min n 5 = min (n - 3) 2 + 3 := by omega
            have hfollow : MlFollow 0x27 (min (n - 3) 2) rest := by
              by_cases h5 : 5 ≤ n
              · exact Or.inl (by omega)
              · refine Or.inr ?_
                have : min n 5 = n := by omega
                rw [← hr, this, ← hn]
                exact countLeading_drop_head 0x27 (0x27 :: r)
            by_cases h0 : min (n - 3) 2 = 0
            · refine ⟨[], rfl, ?_, by simp [← hv, h0], ?_⟩
              · rw [hsplit, hm, h0]; rfl
              · rw [h0] at hfollow; exact hfollow
            · refine ⟨[.quotes (min (n - 3) 2)], ?_, ?_, by simp [MllItem.sem, ← hv], ?_⟩
              · have : min (n - 3) 2 = 1 ∨ min (n - 3) 2 = 2 := by omega
                simp [wfMllItems, MllItem.wf, this]
              · rw [hsplit, hm]
                simp [MllItem.render, replicate_add3]
              · simpa [mllTrailing] using hfollow
          · simp only [h3, if_false] at h
            by_cases he : (List.drop (countLeading 0x27 (0x27 :: r)) (0x27 :: r)).isEmpty = true
            · simp [he] at h
            · simp only [he] at h
              obtain ⟨items, hw, hs, hv, hf⟩ := ih r _ v rest h
              have hc : countLeading 0x27 (items.flatMap MllItem.render ++ 0x27 :: 0x27 :: 0x27 :: rest) ≤ 1 := by
                rw [← hs]; simp [countLeading] at h3; omega
              obtain ⟨w1, w2, w3, w4⟩ := mllConsQuote_spec items rest hw hc hf
              exact ⟨mllConsQuote items, w1, by rw [w2, hs]; rfl, by rw [w3, hv]; simp, w4⟩
        · have hq' : (b == 0x27) = false := by simpa using hq
          simp only [hq'] at h
          cases hn : newline? (b :: r) with
          | none => simp [hn] at h
          | some r' =>
            simp only [hn] at h
            obtain ⟨c, hc⟩ := newline?_inv _ _ hn
            obtain ⟨items, hw, hs, hv, hf⟩ := ih r' _ v rest h
            refine ⟨.nl c :: items, ?_, by simp [MllItem.render, hc, hs], by simp [MllItem.sem, hv], ?_⟩
            · simp [wfMllItems, MllItem.wf, hw]
            · rw [mllTrailing_cons _ _ rfl]; exact hf

theorem dropWs_inv (s : Bytes) : ∃ ws1 : Bytes, ws1.all isWschar = true ∧ s = ws1 ++ dropWs s := by
  induction s with
  | nil => exact ⟨[], rfl, rfl⟩
  | cons b r ih =>
    by_cases hb : isWschar b = true
    · obtain ⟨ws1, h1, h2⟩ := ih
      refine ⟨b :: ws1, by simp [hb, h1], ?_⟩
      simp only [dropWs, hb, if_true, List.cons_append]
      rw [← h2]
    · exact ⟨[], rfl, by simp [dropWs, hb]⟩

/-- `t` is where `*( wschar / newline )` stops -/
def Fix (t : Bytes) : Prop := ∀ b u, t = b :: u → isWschar b = false ∧ newline? (b :: u) = none

theorem dropWsNewline_inv : ∀ (fuel : Nat) (s : Bytes), s.length < fuel →
    ∃ more : List WsNl, more.all WsNl.wf = true ∧ s = more.flatMap WsNl.render ++ dropWsNewline fuel s ∧
      Fix (dropWsNewline fuel s) := by
  intro fuel
  induction fuel with
  | zero => intro s h; omega
  | succ f ih =>
    intro s hl
    cases s with
    | nil => exact ⟨[], rfl, rfl, by intro b u h; cases h⟩
    | cons b r =>
      simp only [List.length_cons] at hl
      by_cases hb : isWschar b = true
      · obtain ⟨more, h1, h2, h3⟩ := ih r (by omega)
        have e : dropWsNewline (f + 1) (b :: r) = dropWsNewline f r := by simp [dropWsNewline, hb]
        rw [e]
        refine ⟨.ws b :: more, by simp [WsNl.wf, hb, h1], ?_, h3⟩
        simp only [List.flatMap_cons, WsNl.render, List.cons_append, List.nil_append]
        rw [← h2]
      · have hb' : isWschar b = false := by simpa using hb
        cases hn : newline? (b :: r) with
        | none =>
          have e : dropWsNewline (f + 1) (b :: r) = b :: r := by simp [dropWsNewline, hb', hn]
          rw [e]
          refine ⟨[], rfl, by simp, ?_⟩
          intro b' u e
          injection e with e1 e2; subst e1; subst e2
          exact ⟨hb', hn⟩
        | some r' =>
          obtain ⟨c, hc⟩ := newline?_inv _ _ hn
          have hlen : r'.length < f := by
            have := congrArg List.length hc
            have hp := nlBytes_length_pos c
            simp only [List.length_cons, List.length_append] at this
            omega
          obtain ⟨more, h1, h2, h3⟩ := ih r' hlen
          have e : dropWsNewline (f + 1) (b :: r) = dropWsNewline f r' := by simp [dropWsNewline, hb', hn]
          rw [e]
          refine ⟨.nl c :: more, by simp [WsNl.wf, h1], ?_, h3⟩
          simp only [List.flatMap_cons, WsNl.render, List.append_assoc]
          rw [← h2]; exact hc

theorem fix_not_startsWsNl (j : MlbItem) (t : Bytes) (h : Fix (j.render ++ t)) : j.startsWsNl = false := by
  cases j with
  | char c =>
    cases c with
    | raw b => exact (h b t rfl).1
    | escaped e => rfl
  | nl c =>
    obtain ⟨x, u, hxu, _, _⟩ := nlBytes_head c
    have hn := newline?_nlBytes c t
    simp only [MlbItem.render] at h
    rw [hxu] at h hn
    have := (h x (u ++ t) rfl).2
    simp only [List.cons_append] at hn
    rw [hn] at this; cases this
  | quotes n => rfl
  | lineCont ws1 c more => rfl

def mlbConsQuote : List MlbItem → List MlbItem
  | [] => [.quotes 1]
  | .quotes k :: tl => .quotes (k + 1) :: tl
  | .char c :: tl => .quotes 1 :: .char c :: tl
  | .nl c :: tl => .quotes 1 :: .nl c :: tl
  | .lineCont w c m :: tl => .quotes 1 :: .lineCont w c m :: tl

theorem mlbConsQuote_spec (items : List MlbItem) (rest : Bytes) (hw : wfMlbItems items = true)
    (hc : countLeading 0x22 (items.flatMap MlbItem.render ++ 0x22 :: 0x22 :: 0x22 :: rest) ≤ 1)
    (hf : MlFollow 0x22 (mlbTrailing items) rest) :
    wfMlbItems (mlbConsQuote items) = true ∧
    (mlbConsQuote items).flatMap MlbItem.render = 0x22 :: items.flatMap MlbItem.render ∧
    (mlbConsQuote items).flatMap MlbItem.sem = 0x22 :: items.flatMap MlbItem.sem ∧
    MlFollow 0x22 (mlbTrailing (mlbConsQuote items)) rest := by
  cases items with
  | nil => simp [countLeading] at hc
  | cons i tl =>
    obtain ⟨hi, htl⟩ := wfMlbItems_cons i tl hw
    cases i with
    | char c =>
      refine ⟨?_, by simp [mlbConsQuote, MlbItem.render], by simp [mlbConsQuote, MlbItem.sem], ?_⟩
      · have : wfMlbItems (.quotes 1 :: .char c :: tl) = (wfMlbItems (.char c :: tl)) := by
          simp [wfMlbItems, MlbItem.wf, MlbItem.isQuotes]
        simp only [mlbConsQuote]; rw [this]; exact hw
      · simp only [mlbConsQuote]; rw [mlbTrailing_cons_cons]; exact hf
    | nl c =>
      refine ⟨?_, by simp [mlbConsQuote, MlbItem.render], by simp [mlbConsQuote, MlbItem.sem], ?_⟩
      · have : wfMlbItems (.quotes 1 :: .nl c :: tl) = (wfMlbItems (.nl c :: tl)) := by
          simp [wfMlbItems, MlbItem.wf, MlbItem.isQuotes]
        simp only [mlbConsQuote]; rw [this]; exact hw
      · simp only [mlbConsQuote]; rw [mlbTrailing_cons_cons]; exact hf
    | lineCont w c m =>
      refine ⟨?_, by simp [mlbConsQuote, MlbItem.render], by simp [mlbConsQuote, MlbItem.sem], ?_⟩
      · have : wfMlbItems (.quotes 1 :: .lineCont w c m :: tl) = (wfMlbItems (.lineCont w c m :: tl)) := by
          simp [wfMlbItems, MlbItem.wf, MlbItem.isQuotes]
        simp only [mlbConsQuote]; rw [this]; exact hw
      · simp only [mlbConsQuote]; rw [mlbTrailing_cons_cons]; exact hf
    | quotes k =>
      have hk : k = 1 ∨ k = 2 := by simpa [MlbItem.wf] using hi
      rcases hk with hk | hk
      · subst hk
        refine ⟨?_, by simp [mlbConsQuote, MlbItem.render, List.replicate], by simp [mlbConsQuote, MlbItem.sem, List.replicate], ?_⟩
        · cases tl with
          | nil => rfl
          | cons j tl' => simp only [mlbConsQuote, wfMlbItems, MlbItem.wf] at hw ⊢; simpa using hw
        · simp only [mlbConsQuote]
          cases tl with
          | nil => exact Or.inl (by simp [mlbTrailing])
          | cons j tl' => rw [mlbTrailing_cons_cons] at hf ⊢; exact hf
      · subst hk
        simp [MlbItem.render, List.replicate, countLeading] at hc

theorem mlb_body_sound : ∀ (fuel : Nat) (s acc v rest : Bytes), mlBasicBody fuel s acc = .ok v rest →
    ∃ items : List MlbItem, wfMlbItems items = true ∧
      s = items.flatMap MlbItem.render ++ 0x22 :: 0x22 :: 0x22 :: rest ∧
      v = acc ++ items.flatMap MlbItem.sem ∧ MlFollow 0x22 (mlbTrailing items) rest := by
  intro fuel
  induction fuel with
  | zero => intro s acc v rest h; simp [mlBasicBody] at h
  | succ f ih =>
    intro s acc v rest h
    cases s with
    | nil => simp [mlBasicBody] at h
    | cons b r =>
      unfold mlBasicBody at h
      simp only [] at h
      by_cases hu : isMlbUnescaped b = true
      · simp only [hu, if_true] at h
        obtain ⟨items, hw, hs, hv, hf⟩ := ih r _ v rest h
        refine ⟨.char (.raw b) :: items, ?_, by simp [MlbItem.render, BasicChar.render, hs],
          by simp [MlbItem.sem, BasicChar.sem, hv], ?_⟩
        · simp [wfMlbItems, MlbItem.wf, hu, hw]
        · rw [mlbTrailing_cons _ _ rfl]; exact hf
      · simp only [hu] at h
        by_cases hb : b = 0x5C
        · subst hb
          simp only [beq_self_eq_true, if_true] at h
          cases hm : mlbEscapedNl (r.length + 1) r with
          | some r' =>
            simp only [hm] at h
            obtain ⟨items, hw, hs, hv, hf⟩ := ih r' _ v rest h
            unfold mlbEscapedNl at hm
            cases hnl : newline? (dropWs r) with
            | none => simp [hnl] at hm
            | some r1 =>
              simp only [hnl] at hm
              injection hm with hm
              obtain ⟨ws1, hws1, hr⟩ := dropWs_inv r
              obtain ⟨c, hc⟩ := newline?_inv _ _ hnl
              have hlen : r1.length < r.length + 1 := by
                have e1 := congrArg List.length hr
                have e2 := congrArg List.length hc
                simp only [List.length_append] at e1 e2
                omega
              obtain ⟨more, hmore, hr1, hfix⟩ := dropWsNewline_inv (r.length + 1) r1 hlen
              rw [hm] at hr1 hfix
              refine ⟨.lineCont ws1 c more :: items, ?_, ?_, by simp [MlbItem.sem, hv], ?_⟩
              · cases items with
                | nil => simp [wfMlbItems, MlbItem.wf, hws1, hmore]
                | cons j tl =>
                  have hj : j.startsWsNl = false := by
                    rw [hs] at hfix
                    simp only [List.flatMap_cons, List.append_assoc] at hfix
                    exact fix_not_startsWsNl j _ hfix
                  simp only [wfMlbItems, MlbItem.wf, hws1, hmore, hj] at hw ⊢
                  simpa using hw
              · simp only [List.flatMap_cons, MlbItem.render, List.cons_append, List.append_assoc]
                rw [← hs, ← hr1, ← hc, ← hr]
              · rw [mlbTrailing_cons _ _ rfl]; exact hf
          | none =>
            simp only [hm] at h
            cases he : escapeSeqChar r with
            | bt => simp [he] at h
            | cut => simp [he] at h
            | ok c r' =>
              simp only [he] at h
              obtain ⟨e, hew, hes, hec⟩ := escapeSeqChar_inv r c r' he
              obtain ⟨items, hw, hs, hv, hf⟩ := ih r' _ v rest h
              refine ⟨.char (.escaped e) :: items, ?_,
                by simp [MlbItem.render, BasicChar.render, Escaped.render, hes, hs],
                by simp [MlbItem.sem, BasicChar.sem, hv, hec], ?_⟩
              · simp [wfMlbItems, MlbItem.wf, hew, hw]
              · rw [mlbTrailing_cons _ _ rfl]; exact hf
        · have hb' : (b == 0x5C) = false := by simpa using hb
          simp only [hb'] at h
          by_cases hq : b = 0x22
          · subst hq
            simp only [beq_self_eq_true, if_true] at h
            by_cases h3 : 3 ≤ countLeading 0x22 (0x22 :: r)
            · simp only [h3, if_true] at h
              injection h with hv hr
              generalize hn : countLeading 0x22 (0x22 :: r) = n at h3 hv hr
              have hsplit := countLeading_split 0x22 (0x22 :: r) (min n 5) (by omega)
              rw [hr] at hsplit
              have hm : min n 5 = min (n - 3) 2 + 3 := by omega
              have hfollow : MlFollow 0x22 (min (n - 3) 2) rest := by
                by_cases h5 : 5 ≤ n
                · exact Or.inl (by omega)
                · refine Or.inr ?_
                  have : min n 5 = n := by omega
                  rw [← hr, this, ← hn]
                  exact countLeading_drop_head 0x22 (0x22 :: r)
              by_cases h0 : min (n - 3) 2 = 0
              · refine ⟨[], rfl, ?_, by simp [← hv, h0], ?_⟩
                · rw [hsplit, hm, h0]; rfl
                · rw [h0] at hfollow; exact hfollow
              · refine ⟨[.quotes (min (n - 3) 2)], ?_, ?_, by simp [MlbItem.sem, ← hv], ?_⟩
                · have : min (n - 3) 2 = 1 ∨ min (n - 3) 2 = 2 := by omega
                  simp [wfMlbItems, MlbItem.wf, this]
                · rw [hsplit, hm]
                  simp [MlbItem.render, replicate_add3]
                · simpa [mlbTrailing] using hfollow
            · simp only [h3, if_false] at h
              by_cases he : (List.drop (countLeading 0x22 (0x22 :: r)) (0x22 :: r)).isEmpty = true
              · simp [he] at h
              · simp only [he] at h
                obtain ⟨items, hw, hs, hv, hf⟩ := ih r _ v rest h
                have hc : countLeading 0x22 (items.flatMap MlbItem.render ++ 0x22 :: 0x22 :: 0x22 :: rest) ≤ 1 := by
                  rw [← hs]; simp [countLeading] at h3; omega
                obtain ⟨w1, w2, w3, w4⟩ := mlbConsQuote_spec items rest hw hc hf
                exact ⟨mlbConsQuote items, w1, by rw [w2, hs]; rfl, by rw [w3, hv]; simp, w4⟩
          · have hq' : (b == 0x22) = false := by simpa using hq
            simp only [hq'] at h
            cases hn : newline? (b :: r) with
            | none => simp [hn] at h
            | some r' =>
              simp only [hn] at h
              obtain ⟨c, hc⟩ := newline?_inv _ _ hn
              obtain ⟨items, hw, hs, hv, hf⟩ := ih r' _ v rest h
              refine ⟨.nl c :: items, ?_, by simp [MlbItem.render, hc, hs], by simp [MlbItem.sem, hv], ?_⟩
              · simp [wfMlbItems, MlbItem.wf, hw]
              · rw [mlbTrailing_cons _ _ rfl]; exact hf

/-! ### the multi-line bodies never backtrack -/

theorem mlBasicBody_ne_bt : ∀ (fuel : Nat) (s acc : Bytes), mlBasicBody fuel s acc ≠ .bt := by
  intro fuel
  induction fuel with
  | zero => intro s acc h; simp [mlBasicBody] at h
  | succ f ih =>
    intro s acc h
    cases s with
    | nil => simp [mlBasicBody] at h
    | cons b r =>
      unfold mlBasicBody at h
      simp only [] at h
      repeat' split at h
      all_goals first | exact ih _ _ h | cases h

theorem mlLiteralBody_ne_bt : ∀ (fuel : Nat) (s acc : Bytes), mlLiteralBody fuel s acc ≠ .bt := by
  intro fuel
  induction fuel with
  | zero => intro s acc h; simp [mlLiteralBody] at h
  | succ f ih =>
    intro s acc h
    cases s with
    | nil => simp [mlLiteralBody] at h
    | cons b r =>
      unfold mlLiteralBody at h
      simp only [] at h
      repeat' split at h
      all_goals first | exact ih _ _ h | cases h

theorem mlb_wf_none (items : List MlbItem) (t : Bytes)
    (hn : newline? (items.flatMap MlbItem.render ++ t) = none) :
    MlBasic.wf ⟨none, items⟩ = wfMlbItems items := by
  cases items with
  | nil => simp [MlBasic.wf]
  | cons j tl =>
    cases j with
    | nl c =>
      simp only [List.flatMap_cons, MlbItem.render, List.append_assoc] at hn
      rw [newline?_nlBytes] at hn; cases hn
    | char c => simp [MlBasic.wf, MlbItem.isNl]
    | quotes n => simp [MlBasic.wf, MlbItem.isNl]
    | lineCont w c m => simp [MlBasic.wf, MlbItem.isNl]

theorem mll_wf_none (items : List MllItem) (t : Bytes)
    (hn : newline? (items.flatMap MllItem.render ++ t) = none) :
    MlLiteral.wf ⟨none, items⟩ = wfMllItems items := by
  cases items with
  | nil => simp [MlLiteral.wf]
  | cons j tl =>
    cases j with
    | nl c =>
      simp only [List.flatMap_cons, MllItem.render, List.append_assoc] at hn
      rw [newline?_nlBytes] at hn; cases hn
    | raw c => simp [MlLiteral.wf, MllItem.isNl]
    | quotes n => simp [MlLiteral.wf, MllItem.isNl]

end TomlVerif.Lemmas.S02
