import TomlVerif.Model.State
/-! Helper lemmas for C09: association lists, path lookups, `descend`. -/
namespace TomlVerif.Lemmas.State09
open TomlVerif TomlVerif.Model TomlVerif.Model.State

/-! ## association lists -/
section AList
variable {α : Type}

theorem alookup_nil (k : Bytes) : alookup k ([] : List (Bytes × α)) = none := rfl

theorem alookup_cons_self (k : Bytes) (v : α) (l : List (Bytes × α)) : alookup k ((k, v) :: l) = some v := by
  simp [alookup]

theorem alookup_cons_ne (k k' : Bytes) (v : α) (l : List (Bytes × α)) (h : k' ≠ k) :
    alookup k ((k', v) :: l) = alookup k l := by
  simp [alookup, h]

theorem alookup_areplace_same (k : Bytes) (v : α) (l : List (Bytes × α)) (h : (alookup k l).isSome) :
    alookup k (areplace k v l) = some v := by
  induction l with
  | nil => simp [alookup] at h
  | cons p r ih =>
    obtain ⟨k', v'⟩ := p
    by_cases hk : k' = k
    · simp [areplace, alookup, hk]
    · simp [alookup, hk] at h
      simp [areplace, alookup, hk, ih h]

theorem alookup_areplace_other (k k0 : Bytes) (v : α) (l : List (Bytes × α)) (h : k0 ≠ k) :
    alookup k0 (areplace k v l) = alookup k0 l := by
  induction l with
  | nil => rfl
  | cons p r ih =>
    obtain ⟨k', v'⟩ := p
    by_cases hk : k' = k
    · subst hk
      have : k' ≠ k0 := fun e => h e.symm
      simp [areplace, alookup, this]
    · by_cases hk0 : k' = k0
      · subst hk0; simp [areplace, alookup, h]
      · simp [areplace, alookup, hk, hk0, ih]

theorem alookup_areplace_none (k : Bytes) (v : α) (l : List (Bytes × α)) (h : alookup k l = none) :
    areplace k v l = l := by
  induction l with
  | nil => rfl
  | cons p r ih =>
    obtain ⟨k', v'⟩ := p
    by_cases hk : k' = k
    · simp [alookup, hk] at h
    · simp [alookup, hk] at h
      simp [areplace, hk, ih h]

/-- lookup in a list extended at the end: an existing binding wins, a new key is found at the end -/
theorem alookup_append (k : Bytes) (l m : List (Bytes × α)) :
    alookup k (l ++ m) = match alookup k l with | some v => some v | none => alookup k m := by
  induction l with
  | nil => simp [alookup]
  | cons p r ih =>
    obtain ⟨k', v'⟩ := p
    by_cases hk : k' = k
    · simp [alookup, hk]
    · simp [alookup, hk, ih]

theorem alookup_append_new (k : Bytes) (v : α) (l : List (Bytes × α)) (h : alookup k l = none) :
    alookup k (l ++ [(k, v)]) = some v := by
  simp [alookup_append, h, alookup]

theorem alookup_append_old (k k0 : Bytes) (v x : α) (l : List (Bytes × α)) (h : alookup k0 l = some x) :
    alookup k0 (l ++ [(k, v)]) = some x := by
  simp [alookup_append, h]

theorem alookup_append_other (k k0 : Bytes) (v : α) (l : List (Bytes × α)) (h : k0 ≠ k) :
    alookup k0 (l ++ [(k, v)]) = alookup k0 l := by
  have : k ≠ k0 := fun e => h e.symm
  rw [alookup_append]; cases alookup k0 l <;> simp [alookup, this]

theorem alookup_aset_same (k : Bytes) (v : α) (l : List (Bytes × α)) : alookup k (aset k v l) = some v := by
  unfold aset
  cases h : alookup k l with
  | none => exact alookup_append_new k v l h
  | some x => exact alookup_areplace_same k v l (by simp [h])

theorem alookup_aset_other (k k0 : Bytes) (v : α) (l : List (Bytes × α)) (h : k0 ≠ k) :
    alookup k0 (aset k v l) = alookup k0 l := by
  unfold aset
  cases alookup k l with
  | none => exact alookup_append_other k k0 v l h
  | some x => exact alookup_areplace_other k k0 v l h

theorem alookup_aerase_other (k k0 : Bytes) (l : List (Bytes × α)) (h : k0 ≠ k) :
    alookup k0 (aerase k l) = alookup k0 l := by
  induction l with
  | nil => rfl
  | cons p r ih =>
    obtain ⟨k', v'⟩ := p
    by_cases hk : k' = k
    · subst hk
      have : k' ≠ k0 := fun e => h e.symm
      simp [aerase, alookup, this]
    · by_cases hk0 : k' = k0
      · subst hk0; simp [aerase, alookup, h]
      · simp [aerase, alookup, hk, hk0, ih]

theorem aerase_of_none (k : Bytes) (l : List (Bytes × α)) (h : alookup k l = none) : aerase k l = l := by
  induction l with
  | nil => rfl
  | cons p r ih =>
    obtain ⟨k', v'⟩ := p
    by_cases hk : k' = k
    · simp [alookup, hk] at h
    · simp [alookup, hk] at h
      simp [aerase, hk, ih h]

theorem alookup_none_iff (k : Bytes) (l : List (Bytes × α)) : alookup k l = none ↔ k ∉ l.map Prod.fst := by
  induction l with
  | nil => simp [alookup]
  | cons p r ih =>
    obtain ⟨k', v'⟩ := p
    by_cases hk : k' = k
    · simp [alookup, hk]
    · have : ¬ k = k' := fun e => hk e.symm
      simp [alookup, hk, ih, this]

/-- replacing keeps every key at its position -/
theorem areplace_keys (k : Bytes) (v : α) (l : List (Bytes × α)) :
    (areplace k v l).map Prod.fst = l.map Prod.fst := by
  induction l with
  | nil => rfl
  | cons p r ih =>
    obtain ⟨k', v'⟩ := p
    by_cases hk : k' = k
    · simp [areplace, hk]
    · simp [areplace, hk, ih]

/-- insert-or-replace keeps the position of every existing key; a new key goes to the end -/
theorem aset_keys (k : Bytes) (v : α) (l : List (Bytes × α)) :
    (aset k v l).map Prod.fst = if (alookup k l).isSome then l.map Prod.fst else l.map Prod.fst ++ [k] := by
  unfold aset
  cases h : alookup k l with
  | none => simp
  | some x => simp [areplace_keys]

theorem aerase_keys (k : Bytes) (l : List (Bytes × α)) :
    (aerase k l).map Prod.fst = (l.map Prod.fst).erase k := by
  induction l with
  | nil => rfl
  | cons p r ih =>
    obtain ⟨k', v'⟩ := p
    by_cases hk : k' = k
    · simp [aerase, hk]
    · simp [aerase, hk, ih]

/-- with distinct keys, erasing a key removes its binding -/
theorem alookup_aerase_same (k : Bytes) (l : List (Bytes × α)) (h : (l.map Prod.fst).Nodup) :
    alookup k (aerase k l) = none := by
  rw [alookup_none_iff, aerase_keys]
  exact fun hm => (List.Nodup.mem_erase_iff h).1 hm |>.1 rfl

theorem aset_nodup (k : Bytes) (v : α) (l : List (Bytes × α)) (h : (l.map Prod.fst).Nodup) :
    ((aset k v l).map Prod.fst).Nodup := by
  rw [aset_keys]
  cases hk : alookup k l with
  | some x => simpa using h
  | none =>
    have := (alookup_none_iff k l).1 hk
    simp only [Option.isSome_none, Bool.false_eq_true, if_false]
    rw [List.nodup_append]
    refine ⟨h, by simp, ?_⟩
    intro a ha b hb
    simp at hb; subst hb
    exact fun e => this (e ▸ ha)

end AList

/-! ## lookups along a path -/

/-- follow `path` like `descend` does (through tables and through the last element of arrays of
    tables), creating nothing -/
def lookupTbl : Tbl → List Bytes → Option Tbl
  | t, [] => some t
  | t, k :: ks => match alookup k t.items with
    | some (.table sub) => lookupTbl sub ks
    | some (.aot ts) => match ts.getLast? with
      | some l => lookupTbl l ks
      | none => none
    | _ => none

def valueAt (t : Tbl) (k : Bytes) : Option Val :=
  match alookup k t.items with
  | some (.value v) => some v
  | _ => none

def lookupVal (t : Tbl) (path : List Bytes) (k : Bytes) : Option Val :=
  match lookupTbl t path with
  | some u => valueAt u k
  | none => none

/-- element of an array of tables chosen by a selector: `none` = the last one, `some i` = the i-th -/
def selAot (ts : List Tbl) : Option Nat → Option Tbl
  | none => ts.getLast?
  | some i => ts[i]?

/-- path with a selector at every step (only used at arrays of tables) -/
abbrev IPath := List (Bytes × Option Nat)

def lookupG : Tbl → IPath → Option Tbl
  | t, [] => some t
  | t, (k, s) :: ks => match alookup k t.items with
    | some (.table sub) => lookupG sub ks
    | some (.aot ts) => match selAot ts s with
      | some l => lookupG l ks
      | none => none
    | _ => none

def lookupValG (t : Tbl) (path : IPath) (k : Bytes) : Option Val :=
  match lookupG t path with
  | some u => valueAt u k
  | none => none

theorem lookupTbl_eq_lookupG (t : Tbl) (p : List Bytes) : lookupTbl t p = lookupG t (p.map (·, none)) := by
  induction p generalizing t with
  | nil => rfl
  | cons k ks ih =>
    simp only [lookupTbl, List.map, lookupG, selAot]
    cases alookup k t.items with
    | none => rfl
    | some it =>
      cases it with
      | value v => rfl
      | table sub => exact ih sub
      | aot ts =>
        simp only []
        cases ts.getLast? with
        | none => rfl
        | some l => exact ih l

theorem lookupVal_eq_lookupValG (t : Tbl) (p : List Bytes) (k : Bytes) :
    lookupVal t p k = lookupValG t (p.map (·, none)) k := by
  simp [lookupVal, lookupValG, lookupTbl_eq_lookupG]

theorem lookupTbl_append (t : Tbl) (p q : List Bytes) :
    lookupTbl t (p ++ q) = (lookupTbl t p).bind (fun u => lookupTbl u q) := by
  induction p generalizing t with
  | nil => rfl
  | cons k ks ih =>
    simp only [List.cons_append, lookupTbl]
    cases alookup k t.items with
    | none => rfl
    | some it =>
      cases it with
      | value v => rfl
      | table sub => exact ih sub
      | aot ts =>
        simp only []
        cases ts.getLast? with
        | none => rfl
        | some l => exact ih l

theorem lookupVal_append (t u : Tbl) (p q : List Bytes) (k : Bytes) (h : lookupTbl t p = some u) :
    lookupVal t (p ++ q) k = lookupVal u q k := by
  simp [lookupVal, lookupTbl_append, h]

@[simp] theorem items_setItems (t : Tbl) (l : List (Bytes × Item)) : (t.setItems l).items = l := rfl
@[simp] theorem implicit_setItems (t : Tbl) (l : List (Bytes × Item)) : (t.setItems l).implicit = t.implicit := rfl
@[simp] theorem dotted_setItems (t : Tbl) (l : List (Bytes × Item)) : (t.setItems l).dotted = t.dotted := rfl
@[simp] theorem items_newImplicit (d : Bool) : (newImplicit d).items = [] := rfl

theorem lookupTbl_newImplicit (d : Bool) (p : List Bytes) :
    (lookupTbl (newImplicit d) p).getD (newImplicit d) = newImplicit d := by
  cases p with
  | nil => rfl
  | cons k ks => simp [lookupTbl, alookup]

/-! ## `descend` -/

theorem modifyLast_some (ts ts' : List Tbl) (g : Tbl → Option Tbl) (h : modifyLast ts g = some ts') :
    ∃ init l l', ts = init ++ [l] ∧ g l = some l' ∧ ts' = init ++ [l'] := by
  unfold modifyLast at h
  split at h
  · simp at h
  · rename_i l initRev hr
    cases hg : g l with
    | none => simp [hg] at h
    | some l' =>
      simp [hg] at h
      refine ⟨initRev.reverse, l, l', ?_, hg, h.symm⟩
      have := congrArg List.reverse hr
      simpa using this

theorem modifyLast_append (init : List Tbl) (l : Tbl) (g : Tbl → Option Tbl) :
    modifyLast (init ++ [l]) g = (g l).map (fun l' => init ++ [l']) := by
  unfold modifyLast
  simp
  cases g l <;> rfl

/-- inversion of one step of `descend` -/
theorem descend_cons_some (t t' : Tbl) (k : Bytes) (ks : List Bytes) (d : Bool) (f : Tbl → Option Tbl)
    (h : descend t (k :: ks) d f = some t') :
    (∃ sub sub', (alookup k t.items).getD (.table (newImplicit d)) = .table sub ∧ (d && !sub.implicit) = false ∧
        descend sub ks d f = some sub' ∧ t' = t.setItems (aset k (.table sub') t.items)) ∨
    (∃ init l l', alookup k t.items = some (.aot (init ++ [l])) ∧ (d && !ks.isEmpty) = false ∧
        descend l ks d f = some l' ∧ t' = t.setItems (aset k (.aot (init ++ [l'])) t.items)) := by
  unfold descend at h
  simp only [] at h
  split at h
  · simp at h
  · rename_i ts he
    split at h
    · simp at h
    · rename_i hca
      cases hm : modifyLast ts (fun last => descend last ks d f) with
      | none => simp [hm] at h
      | some ts' =>
        simp [hm] at h
        obtain ⟨init, l, l', e1, e2, e3⟩ := modifyLast_some _ _ _ hm
        right
        refine ⟨init, l, l', ?_, by simpa using hca, e2, ?_⟩
        · cases ha : alookup k t.items with
          | none => simp [ha, newImplicit] at he
          | some it => simp [ha] at he; rw [he, e1]
        · rw [← e3]; exact h.symm
  · rename_i sub he
    left
    split at h
    · simp at h
    · rename_i hc
      cases hs : descend sub ks d f with
      | none => simp [hs] at h
      | some sub' =>
        simp [hs] at h
        exact ⟨sub, sub', he, by simpa using hc, hs, h.symm⟩


/-- the table `descend t path d f` hands to `f`: the one found by `lookupTbl`, or a fresh implicit one -/
def target (t : Tbl) (path : List Bytes) (d : Bool) : Tbl := (lookupTbl t path).getD (newImplicit d)

theorem target_cons_table (t sub : Tbl) (k : Bytes) (ks : List Bytes) (d : Bool)
    (h : (alookup k t.items).getD (.table (newImplicit d)) = .table sub) :
    target t (k :: ks) d = target sub ks d := by
  unfold target
  cases ha : alookup k t.items with
  | none =>
    simp [ha] at h; subst h
    simp [lookupTbl, ha, lookupTbl_newImplicit]
  | some it =>
    simp [ha] at h; subst h
    simp [lookupTbl, ha]

theorem lookupTbl_cons_aot (t l : Tbl) (init : List Tbl) (k : Bytes) (ks : List Bytes)
    (h : alookup k t.items = some (.aot (init ++ [l]))) :
    lookupTbl t (k :: ks) = lookupTbl l ks := by
  simp [lookupTbl, h]

theorem target_cons_aot (t l : Tbl) (init : List Tbl) (k : Bytes) (ks : List Bytes) (d : Bool)
    (h : alookup k t.items = some (.aot (init ++ [l]))) :
    target t (k :: ks) d = target l ks d := by
  unfold target; rw [lookupTbl_cons_aot t l init k ks h]

/-- `descend` applies `f` to the target table and the result is found at `path` afterwards -/
theorem descend_spec (t t' : Tbl) (path : List Bytes) (d : Bool) (f : Tbl → Option Tbl)
    (h : descend t path d f = some t') :
    ∃ u', f (target t path d) = some u' ∧ lookupTbl t' path = some u' := by
  induction path generalizing t t' with
  | nil => exact ⟨t', by simpa [descend, target, lookupTbl] using h, rfl⟩
  | cons k ks ih =>
    rcases descend_cons_some t t' k ks d f h with ⟨sub, sub', he, _, hs, ht⟩ | ⟨init, l, l', ha, hca, hs, ht⟩
    · obtain ⟨u', h1, h2⟩ := ih sub sub' hs
      refine ⟨u', by rw [target_cons_table t sub k ks d he]; exact h1, ?_⟩
      subst ht
      simp [lookupTbl, alookup_aset_same, h2]
    · obtain ⟨u', h1, h2⟩ := ih l l' hs
      refine ⟨u', by rw [target_cons_aot t l init k ks d ha]; exact h1, ?_⟩
      subst ht
      simp [lookupTbl, alookup_aset_same, h2]

/-! ## preservation of values -/

theorem lookupValG_nil (t : Tbl) (k : Bytes) : lookupValG t [] k = valueAt t k := rfl

theorem lookupValG_cons (t : Tbl) (k1 : Bytes) (s : Option Nat) (r : IPath) (k : Bytes) :
    lookupValG t ((k1, s) :: r) k =
      match alookup k1 t.items with
      | some (.table sub) => lookupValG sub r k
      | some (.aot ts) => match selAot ts s with
        | some l => lookupValG l r k
        | none => none
      | _ => none := by
  unfold lookupValG
  simp only [lookupG]
  cases alookup k1 t.items with
  | none => rfl
  | some it =>
    cases it with
    | value v => rfl
    | table sub => rfl
    | aot ts =>
      simp only []
      cases selAot ts s <;> rfl

theorem valueAt_eq_some (t : Tbl) (k : Bytes) (x : Val) : valueAt t k = some x ↔ alookup k t.items = some (.value x) := by
  unfold valueAt
  cases alookup k t.items with
  | none => simp
  | some it => cases it <;> simp

/-- every value visible in `t` along a path whose selectors satisfy `P` is visible, unchanged,
    in `t'` along the same path -/
def PresP (P : Option Nat → Prop) (t t' : Tbl) : Prop :=
  ∀ ip k x, (∀ e ∈ ip, P e.2) → lookupValG t ip k = some x → lookupValG t' ip k = some x

def ItemPres (P : Option Nat → Prop) (i i' : Item) : Prop :=
  match i with
  | .value v => i' = .value v
  | .table s => ∃ s', i' = .table s' ∧ PresP P s s'
  | .aot ts => ∃ ts', i' = .aot ts' ∧
      ∀ s m, P s → selAot ts s = some m → ∃ m', selAot ts' s = some m' ∧ PresP P m m'

theorem PresP.refl (P : Option Nat → Prop) (t : Tbl) : PresP P t t := fun _ _ _ _ h => h
theorem PresP.trans {P : Option Nat → Prop} {a b c : Tbl} (h1 : PresP P a b) (h2 : PresP P b c) : PresP P a c :=
  fun ip k x hp h => h2 ip k x hp (h1 ip k x hp h)

theorem ItemPres.refl (P : Option Nat → Prop) (i : Item) : ItemPres P i i := by
  cases i with
  | value v => rfl
  | table s => exact ⟨s, rfl, PresP.refl P s⟩
  | aot ts => exact ⟨ts, rfl, fun s m _ h => ⟨m, h, PresP.refl P m⟩⟩

/-- one level: if every entry of `u` has a counterpart in `u'` under the same key (same value /
    extended table / extended array), values are preserved -/
theorem presP_of_items (P : Option Nat → Prop) (u u' : Tbl)
    (h : ∀ k item, alookup k u.items = some item → ∃ item', alookup k u'.items = some item' ∧ ItemPres P item item') :
    PresP P u u' := by
  intro ip k x hP hx
  cases ip with
  | nil =>
    rw [lookupValG_nil, valueAt_eq_some] at *
    obtain ⟨item', h1, h2⟩ := h k _ hx
    simp only [ItemPres] at h2
    rw [h1, h2]
  | cons e r =>
    obtain ⟨k1, s⟩ := e
    rw [lookupValG_cons] at *
    have hr : ∀ e ∈ r, P e.2 := fun e he => hP e (List.mem_cons_of_mem _ he)
    have hs : P s := hP (k1, s) (List.mem_cons_self)
    cases ha : alookup k1 u.items with
    | none => simp [ha] at hx
    | some it =>
      obtain ⟨item', h1, h2⟩ := h k1 it ha
      rw [h1]
      cases it with
      | value v => simp [ha] at hx
      | table sub =>
        simp only [ha] at hx
        obtain ⟨s', e1, e2⟩ := h2
        subst e1
        exact e2 r k x hr hx
      | aot ts =>
        simp only [ha] at hx
        obtain ⟨ts', e1, e2⟩ := h2
        subst e1
        cases hm : selAot ts s with
        | none => simp [hm] at hx
        | some m =>
          simp only [hm] at hx
          obtain ⟨m', e3, e4⟩ := e2 s m hs hm
          simp only [e3]
          exact e4 r k x hr hx

/-- `f` keeps all entries (`alookup` of an existing key gives the same item) -/
theorem presP_of_keeps (P : Option Nat → Prop) (u u' : Tbl)
    (h : ∀ k item, alookup k u.items = some item → alookup k u'.items = some item) : PresP P u u' :=
  presP_of_items P u u' fun k item hk => ⟨item, h k item hk, ItemPres.refl P item⟩

theorem selAot_modifyLast (init : List Tbl) (l l' m : Tbl) (s : Option Nat) (h : selAot (init ++ [l]) s = some m) :
    ∃ m', selAot (init ++ [l']) s = some m' ∧ (m' = m ∨ (m = l ∧ m' = l')) := by
  cases s with
  | none =>
    simp [selAot] at h ⊢
    exact Or.inr h.symm
  | some i =>
    simp only [selAot] at h ⊢
    by_cases hi : i < init.length
    · rw [List.getElem?_append_left hi] at h ⊢
      exact ⟨m, h, Or.inl rfl⟩
    · have hi' : init.length ≤ i := Nat.le_of_not_lt hi
      rw [List.getElem?_append_right hi'] at h ⊢
      cases hj : i - init.length with
      | zero => simp [hj] at h ⊢; exact Or.inr h.symm
      | succ j => simp [hj] at h

/-- the general lemma about `descend`: if `f` preserves the values of the target table, `descend`
    preserves the values of the whole tree -/
theorem descend_pres (P : Option Nat → Prop) (t t' : Tbl) (path : List Bytes) (d : Bool) (f : Tbl → Option Tbl)
    (h : descend t path d f = some t')
    (hf : ∀ u', f (target t path d) = some u' → PresP P (target t path d) u') : PresP P t t' := by
  induction path generalizing t t' with
  | nil => exact hf t' (by simpa [descend, target, lookupTbl] using h)
  | cons k ks ih =>
    rcases descend_cons_some t t' k ks d f h with ⟨sub, sub', he, _, hs, ht⟩ | ⟨init, l, l', ha, hca, hs, ht⟩
    · rw [target_cons_table t sub k ks d he] at hf
      have hsub := ih sub sub' hs hf
      subst ht
      apply presP_of_items
      intro k0 item h0
      by_cases hk : k0 = k
      · subst hk
        simp [h0] at he; subst he
        exact ⟨_, alookup_aset_same _ _ _, sub', rfl, hsub⟩
      · exact ⟨item, by simpa [alookup_aset_other _ _ _ _ hk] using h0, ItemPres.refl P item⟩
    · rw [target_cons_aot t l init k ks d ha] at hf
      have hsub := ih l l' hs hf
      subst ht
      apply presP_of_items
      intro k0 item h0
      by_cases hk : k0 = k
      · subst hk
        rw [ha] at h0; injection h0 with h0; subst h0
        refine ⟨_, alookup_aset_same _ _ _, _, rfl, ?_⟩
        intro s m _ hm
        obtain ⟨m', e1, e2⟩ := selAot_modifyLast init l l' m s hm
        refine ⟨m', e1, ?_⟩
        rcases e2 with e | ⟨e, e'⟩
        · subst e; exact PresP.refl P _
        · subst e; subst e'; exact hsub
      · exact ⟨item, by simpa [alookup_aset_other _ _ _ _ hk] using h0, ItemPres.refl P item⟩

/-- plain-path version of `PresP` (selectors all "last") -/
def Pres (t t' : Tbl) : Prop := ∀ p k x, lookupVal t p k = some x → lookupVal t' p k = some x

theorem Pres_of_PresP {P : Option Nat → Prop} (hP : P none) {t t' : Tbl} (h : PresP P t t') : Pres t t' := by
  intro p k x hx
  rw [lookupVal_eq_lookupValG] at *
  exact h _ k x (by simp [hP]) hx


/-! ## forward unfolding of `descend` -/

theorem descend_cons_table (t sub : Tbl) (k : Bytes) (ks : List Bytes) (d : Bool) (f : Tbl → Option Tbl)
    (he : (alookup k t.items).getD (.table (newImplicit d)) = .table sub) (hc : (d && !sub.implicit) = false) :
    descend t (k :: ks) d f = (descend sub ks d f).map (fun s' => t.setItems (aset k (.table s') t.items)) := by
  rw [descend]
  simp only [he, hc]
  cases descend sub ks d f <;> simp

theorem descend_cons_aot (t l : Tbl) (init : List Tbl) (k : Bytes) (ks : List Bytes) (d : Bool) (f : Tbl → Option Tbl)
    (ha : alookup k t.items = some (.aot (init ++ [l]))) (hca : (d && !ks.isEmpty) = false) :
    descend t (k :: ks) d f = (descend l ks d f).map (fun l' => t.setItems (aset k (.aot (init ++ [l'])) t.items)) := by
  rw [descend]
  simp only [ha, Option.getD_some, modifyLast_append, hca]
  cases descend l ks d f <;> simp

theorem descend_cons_value (t : Tbl) (x : Val) (k : Bytes) (ks : List Bytes) (d : Bool) (f : Tbl → Option Tbl)
    (ha : alookup k t.items = some (.value x)) : descend t (k :: ks) d f = none := by
  rw [descend]
  simp only [ha, Option.getD_some]

/-- a dotted descent that refuses to pass through an array of tables in the middle of `p ++ q` is
    more restrictive than the nested one, hence only an implication (an equality for headers) -/
theorem descend_append_some (t t' : Tbl) (p q : List Bytes) (d : Bool) (f : Tbl → Option Tbl)
    (h : descend t (p ++ q) d f = some t') : descend t p d (fun u => descend u q d f) = some t' := by
  induction p generalizing t t' with
  | nil => simpa [descend] using h
  | cons k ks ih =>
    rw [List.cons_append] at h
    rcases descend_cons_some t t' k (ks ++ q) d f h with ⟨sub, sub', he, hc, hs, ht⟩ | ⟨init, l, l', ha, hca, hs, ht⟩
    · rw [descend_cons_table t sub k ks d _ he hc, ih sub sub' hs, ht]; rfl
    · have hca' : (d && !ks.isEmpty) = false := by
        cases d with
        | false => rfl
        | true => cases ks <;> simp at hca ⊢
      rw [descend_cons_aot t l init k ks d _ ha hca', ih l l' hs, ht]; rfl

theorem descend_append_false (t : Tbl) (p q : List Bytes) (f : Tbl → Option Tbl) :
    descend t (p ++ q) false f = descend t p false (fun u => descend u q false f) := by
  induction p generalizing t with
  | nil => simp [descend]
  | cons k ks ih =>
    rw [List.cons_append, descend, descend]
    simp only [ih, Bool.false_and]

/-! ## `onKeyval` -/

def kvF (path : List Bytes) (key : Bytes) (v : Val) : Tbl → Option Tbl := fun table =>
  if table.dotted == path.isEmpty then none
  else match alookup key table.items with
    | some _ => none
    | none => some (table.setItems (table.items ++ [(key, .value v)]))

theorem onKeyval_eq (st : ParseState) (path : List Bytes) (key : Bytes) (v : Val) :
    onKeyval st path key v = (descend st.current path true (kvF path key v)).map fun c => { st with current := c } := rfl

theorem onKeyval_some (st st' : ParseState) (path : List Bytes) (key : Bytes) (v : Val)
    (h : onKeyval st path key v = some st') :
    ∃ c, descend st.current path true (kvF path key v) = some c ∧ st' = { st with current := c } := by
  rw [onKeyval_eq] at h
  cases hd : descend st.current path true (kvF path key v) with
  | none => simp [hd] at h
  | some c => simp [hd] at h; exact ⟨c, rfl, h.symm⟩

theorem kvF_some (path : List Bytes) (key : Bytes) (v : Val) (u u' : Tbl) (h : kvF path key v u = some u') :
    alookup key u.items = none ∧ u' = u.setItems (u.items ++ [(key, .value v)]) ∧ u.dotted = !path.isEmpty := by
  unfold kvF at h
  split at h
  · simp at h
  · rename_i hd
    split at h
    · simp at h
    · rename_i hn
      simp at h
      refine ⟨hn, h.symm, ?_⟩
      revert hd; cases u.dotted <;> cases path.isEmpty <;> simp


/-! ## headers -/

theorem splitLast_some {α} (l i : List α) (x : α) (h : splitLast l = some (i, x)) : l = i ++ [x] := by
  induction l generalizing i with
  | nil => simp [splitLast] at h
  | cons a r ih =>
    cases r with
    | nil => simp [splitLast] at h; obtain ⟨h1, h2⟩ := h; subst h1; subst h2; rfl
    | cons b r' =>
      rw [splitLast] at h
      · cases hs : splitLast (b :: r') with
        | none => simp [hs] at h
        | some pr =>
          obtain ⟨i', l'⟩ := pr
          simp [hs] at h
          obtain ⟨h1, h2⟩ := h; subst h1; subst h2
          rw [ih i' hs]; rfl
      · intro hx; cases hx

theorem splitLast_none {α} (l : List α) (h : splitLast l = none) : l = [] := by
  induction l with
  | nil => rfl
  | cons a r ih =>
    cases r with
    | nil => simp [splitLast] at h
    | cons b r' =>
      rw [splitLast] at h
      · cases hs : splitLast (b :: r') with
        | none => cases ih hs
        | some pr => simp [hs] at h
      · intro hx; cases hx

theorem splitLast_append {α} (i : List α) (x : α) : splitLast (i ++ [x]) = some (i, x) := by
  induction i with
  | nil => rfl
  | cons a r ih =>
    cases hr : r ++ [x] with
    | nil => simp at hr
    | cons b r' =>
      rw [List.cons_append, hr, splitLast]
      · rw [← hr, ih]
      · intro hx; cases hx

/-- what `finalize_table` does to the parent table in the `[[array]]` case -/
def finArrF (key : Bytes) (table : Tbl) : Tbl → Option Tbl := fun parent =>
  match (alookup key parent.items).getD (.aot []) with
  | .aot ts => some (parent.setItems (aset key (.aot (ts ++ [table])) parent.items))
  | _ => none

/-- what `finalize_table` does to the parent table in the `[table]` case -/
def finStdF (key : Bytes) (table : Tbl) : Tbl → Option Tbl := fun parent =>
  match alookup key parent.items with
  | some (.table t) => if t.implicit then some (parent.setItems (areplace key (.table table) parent.items)) else none
  | some _ => none
  | none => some (parent.setItems (parent.items ++ [(key, .table table)]))

def finF (isArray : Bool) (key : Bytes) (table : Tbl) : Tbl → Option Tbl :=
  if isArray then finArrF key table else finStdF key table

theorem finalizeTable_eq (st : ParseState) :
    finalizeTable st =
      match splitLast st.currentPath with
      | none => if st.root.items.isEmpty then
          some { st with current := Tbl.empty, currentPath := [], root := st.current } else none
      | some (pp, key) =>
        (descend st.root pp false (finF st.currentIsArray key st.current)).map fun root =>
          { st with current := Tbl.empty, currentPath := [], root := root } := by
  unfold finalizeTable
  simp only []
  cases splitLast st.currentPath with
  | none => rfl
  | some pr =>
    obtain ⟨pp, key⟩ := pr
    simp only [finF]
    cases st.currentIsArray <;> rfl

theorem finalizeTable_some (st st' : ParseState) (h : finalizeTable st = some st') :
    (st.currentPath = [] ∧ st.root.items = [] ∧
        st' = { st with current := Tbl.empty, currentPath := [], root := st.current }) ∨
    (∃ pp key root', st.currentPath = pp ++ [key] ∧
        descend st.root pp false (finF st.currentIsArray key st.current) = some root' ∧
        st' = { st with current := Tbl.empty, currentPath := [], root := root' }) := by
  rw [finalizeTable_eq] at h
  split at h
  · rename_i hs
    left
    split at h
    · rename_i he
      simp at h
      exact ⟨splitLast_none _ hs, by simpa using he, h.symm⟩
    · simp at h
  · rename_i pp key hs
    right
    cases hd : descend st.root pp false (finF st.currentIsArray key st.current) with
    | none => simp [hd] at h
    | some root' =>
      simp [hd] at h
      exact ⟨pp, key, root', splitLast_some _ _ _ hs, hd, h.symm⟩

theorem lookupValG_empty (t : Tbl) (h : t.items = []) (ip : IPath) (k : Bytes) : lookupValG t ip k = none := by
  cases ip with
  | nil => simp [lookupValG_nil, valueAt, h, alookup]
  | cons e r => obtain ⟨k1, s⟩ := e; simp [lookupValG_cons, h, alookup]

theorem presP_of_empty (P : Option Nat → Prop) (t t' : Tbl) (h : t.items = []) : PresP P t t' := by
  intro ip k x _ hx
  simp [lookupValG_empty t h] at hx

theorem finArrF_some (key : Bytes) (table u u' : Tbl) (h : finArrF key table u = some u') :
    ∃ ts, (alookup key u.items).getD (.aot []) = .aot ts ∧ u' = u.setItems (aset key (.aot (ts ++ [table])) u.items) := by
  unfold finArrF at h
  split at h
  · rename_i ts he
    simp at h
    exact ⟨ts, he, h.symm⟩
  · simp at h

/-- appending an element to an array of tables keeps all values reachable through indexed paths -/
theorem finArrF_pres (key : Bytes) (table u u' : Tbl) (h : finArrF key table u = some u') :
    PresP (fun s => s.isSome) u u' := by
  obtain ⟨ts, he, hu⟩ := finArrF_some _ _ _ _ h
  subst hu
  apply presP_of_items
  intro k0 item h0
  by_cases hk : k0 = key
  · subst hk
    simp [h0] at he; subst he
    refine ⟨_, alookup_aset_same _ _ _, _, rfl, ?_⟩
    intro s m hs hm
    cases s with
    | none => simp at hs
    | some i =>
      simp only [selAot] at hm ⊢
      have hi : i < ts.length := (List.getElem?_eq_some_iff.1 hm).1
      exact ⟨m, by rw [List.getElem?_append_left hi]; exact hm, PresP.refl _ _⟩
  · exact ⟨item, by simpa [alookup_aset_other _ _ _ _ hk] using h0, ItemPres.refl _ item⟩

theorem finStdF_some (key : Bytes) (table u u' : Tbl) (h : finStdF key table u = some u') :
    (alookup key u.items = none ∧ u' = u.setItems (u.items ++ [(key, .table table)])) ∨
    (∃ t0, alookup key u.items = some (.table t0) ∧ t0.implicit = true ∧
      u' = u.setItems (areplace key (.table table) u.items)) := by
  unfold finStdF at h
  split at h
  · rename_i t0 ha
    split at h
    · rename_i hi
      simp at h
      exact Or.inr ⟨t0, ha, hi, h.symm⟩
    · simp at h
  · simp at h
  · rename_i ha
    simp at h
    exact Or.inl ⟨ha, h.symm⟩

/-- placing the section under a vacant key, or over an implicit table all of whose values the
    section still has, keeps all values -/
theorem finStdF_pres (P : Option Nat → Prop) (key : Bytes) (table u u' : Tbl) (h : finStdF key table u = some u')
    (hv : ∀ t0, alookup key u.items = some (.table t0) → PresP P t0 table) : PresP P u u' := by
  rcases finStdF_some _ _ _ _ h with ⟨hn, hu⟩ | ⟨t0, ha, _, hu⟩
  · subst hu
    exact presP_of_keeps _ _ _ fun k item hk => alookup_append_old _ _ _ _ _ hk
  · subst hu
    apply presP_of_items
    intro k0 item h0
    by_cases hk : k0 = key
    · subst hk
      rw [ha] at h0; injection h0 with h0; subst h0
      exact ⟨_, alookup_areplace_same _ _ _ (by simp [ha]), table, rfl, hv t0 ha⟩
    · exact ⟨item, by simpa [alookup_areplace_other _ _ _ _ hk] using h0, ItemPres.refl _ item⟩

theorem finF_places (isArray : Bool) (key : Bytes) (table u u' : Tbl) (h : finF isArray key table u = some u') :
    lookupTbl u' [key] = some table := by
  unfold finF at h
  cases isArray with
  | true =>
    simp at h
    obtain ⟨ts, _, hu⟩ := finArrF_some _ _ _ _ h
    subst hu
    simp [lookupTbl, alookup_aset_same]
  | false =>
    simp at h
    rcases finStdF_some _ _ _ _ h with ⟨hn, hu⟩ | ⟨t0, ha, _, hu⟩
    · subst hu
      simp [lookupTbl, alookup_append_new _ _ _ hn]
    · subst hu
      simp [lookupTbl, alookup_areplace_same _ _ _ (show (alookup key u.items).isSome by simp [ha])]


/-! ## `startTable` / `startArrayTable` -/

def probeF (key : Bytes) : Tbl → Option Tbl := fun parent =>
  match alookup key parent.items with
  | some (.table t) => if t.implicit && !t.dotted then some parent else none
  | some _ => none
  | none => some parent

def eraseF (key : Bytes) : Tbl → Option Tbl := fun parent => some (parent.setItems (aerase key parent.items))

def tableAt (u : Tbl) (key : Bytes) : Option Tbl :=
  match alookup key u.items with
  | some (.table x) => some x
  | _ => none

theorem find_eq (key : Bytes) (t : Tbl) (p : List Bytes) :
    startTable.find key t p = (lookupTbl t p).bind (fun u => tableAt u key) := by
  induction p generalizing t with
  | nil =>
    simp only [startTable.find, lookupTbl, Option.bind_some, tableAt]
    cases alookup key t.items with
    | none => rfl
    | some it => cases it <;> rfl
  | cons k ks ih =>
    simp only [startTable.find, lookupTbl]
    cases alookup k t.items with
    | none => rfl
    | some it =>
      cases it with
      | value v => rfl
      | table sub => exact ih sub
      | aot ts =>
        simp only []
        have : ts.getLast? = ts.reverse.head? := by simp
        rw [this]
        cases ts.reverse with
        | nil => rfl
        | cons l r => exact ih l

theorem startTable_eq (st : ParseState) (path : List Bytes) :
    startTable st path =
      match splitLast path with
      | none => none
      | some (pp, key) =>
        match descend st.root pp false (probeF key) with
        | none => none
        | some _ =>
          match descend st.root pp false (eraseF key) with
          | none => none
          | some root' =>
            some { st with root := root', position := st.position + 1,
                           current := .mk ((startTable.find key st.root pp).getD st.current).items false false (some (st.position + 1)),
                           currentIsArray := false, currentPath := path } := by
  unfold startTable
  cases splitLast path with
  | none => rfl
  | some pr =>
    obtain ⟨pp, key⟩ := pr
    simp only []
    show (match (match descend st.root pp false (probeF key) with | none => none | some _ => some (none : Option Tbl)) with
          | none => none | some _ => _) = _
    cases descend st.root pp false (probeF key) with
    | none => rfl
    | some r0 => rfl

theorem startTable_some (st st' : ParseState) (path : List Bytes) (h : startTable st path = some st') :
    ∃ pp key r0 root', path = pp ++ [key] ∧ descend st.root pp false (probeF key) = some r0 ∧
      descend st.root pp false (eraseF key) = some root' ∧
      st' = { st with root := root', position := st.position + 1,
                      current := .mk ((startTable.find key st.root pp).getD st.current).items false false (some (st.position + 1)),
                      currentIsArray := false, currentPath := path } := by
  rw [startTable_eq] at h
  split at h
  · simp at h
  · rename_i pp key hs
    split at h
    · simp at h
    · rename_i r0 hp
      split at h
      · simp at h
      · rename_i root' he
        simp at h
        exact ⟨pp, key, r0, root', splitLast_some _ _ _ hs, hp, he, h.symm⟩

def arrStartF (key : Bytes) : Tbl → Option Tbl := fun parent =>
  match alookup key parent.items with
  | some (.aot _) => some parent
  | some _ => none
  | none => some (parent.setItems (parent.items ++ [(key, .aot [])]))

theorem startArrayTable_some (st st' : ParseState) (path : List Bytes) (h : startArrayTable st path = some st') :
    ∃ pp key root', path = pp ++ [key] ∧ descend st.root pp false (arrStartF key) = some root' ∧
      st' = { st with root := root', position := st.position + 1,
                      current := .mk st.current.items false false (some (st.position + 1)),
                      currentIsArray := true, currentPath := path } := by
  unfold startArrayTable at h
  split at h
  · simp at h
  · rename_i pp key hs
    simp only [] at h
    split at h
    · simp at h
    · rename_i root' he
      simp at h
      exact ⟨pp, key, root', splitLast_some _ _ _ hs, he, h.symm⟩

theorem arrStartF_pres (P : Option Nat → Prop) (key : Bytes) (u u' : Tbl) (h : arrStartF key u = some u') : PresP P u u' := by
  unfold arrStartF at h
  split at h
  · simp at h; subst h; exact PresP.refl _ _
  · simp at h
  · simp at h; subst h
    exact presP_of_keeps _ _ _ fun k item hk => alookup_append_old _ _ _ _ _ hk

theorem probeF_some (key : Bytes) (u u' : Tbl) (h : probeF key u = some u') :
    alookup key u.items = none ∨ ∃ t0, alookup key u.items = some (.table t0) ∧ t0.implicit = true ∧ t0.dotted = false := by
  unfold probeF at h
  split at h
  · rename_i t0 ha
    split at h
    · rename_i hc
      simp at hc
      exact Or.inr ⟨t0, ha, hc.1, hc.2⟩
    · simp at h
  · simp at h
  · rename_i ha; exact Or.inl ha


/-! ## two `descend`s along the same path -/

theorem areplace_areplace {α : Type} (k : Bytes) (a b : α) (l : List (Bytes × α)) :
    areplace k b (areplace k a l) = areplace k b l := by
  induction l with
  | nil => rfl
  | cons p r ih =>
    obtain ⟨k', v'⟩ := p
    by_cases hk : k' = k
    · simp [areplace, hk]
    · simp [areplace, hk, ih]

theorem areplace_append_new {α : Type} (k : Bytes) (a b : α) (l : List (Bytes × α)) (h : alookup k l = none) :
    areplace k b (l ++ [(k, a)]) = l ++ [(k, b)] := by
  induction l with
  | nil => simp [areplace]
  | cons p r ih =>
    obtain ⟨k', v'⟩ := p
    by_cases hk : k' = k
    · simp [alookup, hk] at h
    · simp [alookup, hk] at h
      simp [areplace, hk, ih h]

theorem aset_of_some {α : Type} (k : Bytes) (v x : α) (l : List (Bytes × α)) (h : alookup k l = some x) :
    aset k v l = areplace k v l := by
  unfold aset; simp only [h]

theorem aset_of_none {α : Type} (k : Bytes) (v : α) (l : List (Bytes × α)) (h : alookup k l = none) :
    aset k v l = l ++ [(k, v)] := by
  unfold aset; simp only [h]

theorem aset_aset {α : Type} (k : Bytes) (a b : α) (l : List (Bytes × α)) : aset k b (aset k a l) = aset k b l := by
  rw [aset_of_some k b a _ (alookup_aset_same k a l)]
  cases h : alookup k l with
  | none => rw [aset_of_none k a l h, aset_of_none k b l h]; exact areplace_append_new k a b l h
  | some x => rw [aset_of_some k a x l h, aset_of_some k b x l h]; exact areplace_areplace k a b l

theorem setItems_setItems (t : Tbl) (a b : List (Bytes × Item)) : (t.setItems a).setItems b = t.setItems b := rfl

/-- running `descend` twice along the same (header) path is one `descend` with the composed action -/
theorem descend_descend (t t' : Tbl) (path : List Bytes) (f g : Tbl → Option Tbl)
    (h : descend t path false f = some t') :
    descend t' path false g = descend t path false (fun u => (f u).bind g) := by
  induction path generalizing t t' with
  | nil =>
    simp only [descend] at h ⊢
    simp [h]
  | cons k ks ih =>
    rcases descend_cons_some t t' k ks false f h with ⟨sub, sub', he, hc, hs, ht⟩ | ⟨init, l, l', ha, hca, hs, ht⟩
    · rw [descend_cons_table t sub k ks false _ he hc, ← ih sub sub' hs]
      subst ht
      rw [descend_cons_table _ sub' k ks false g (by simp [alookup_aset_same]) (by simp)]
      simp only [items_setItems, aset_aset, setItems_setItems]
    · rw [descend_cons_aot t l init k ks false _ ha rfl, ← ih l l' hs]
      subst ht
      rw [descend_cons_aot _ l' init k ks false g (by simp [alookup_aset_same]) rfl]
      simp only [items_setItems, aset_aset, setItems_setItems]

/-- `descend` uses `f` only at the target table -/
theorem descend_congr (t : Tbl) (path : List Bytes) (d : Bool) (f g : Tbl → Option Tbl)
    (h : f (target t path d) = g (target t path d)) : descend t path d f = descend t path d g := by
  induction path generalizing t with
  | nil => simpa [descend, target, lookupTbl] using h
  | cons k ks ih =>
    cases he : (alookup k t.items).getD (.table (newImplicit d)) with
    | value x => rw [descend, descend]; simp only [he]
    | table sub =>
      rw [target_cons_table t sub k ks d he] at h
      rw [descend, descend]; simp only [he, ih sub h]
    | aot ts =>
      have ha : alookup k t.items = some (.aot ts) := by
        cases hx : alookup k t.items with
        | none => simp [hx, newImplicit] at he
        | some it => simp [hx] at he; rw [he]
      rcases List.eq_nil_or_concat ts with hn | ⟨init, l, hc⟩
      · subst hn
        rw [descend, descend]; simp only [he, modifyLast, List.reverse_nil]
      · subst hc
        rw [List.concat_eq_append] at ha
        rw [target_cons_aot t l init k ks d ha] at h
        cases hca : (d && !ks.isEmpty) with
        | true => rw [descend, descend]; simp only [ha, Option.getD_some, hca, if_true]
        | false =>
          rw [descend_cons_aot t l init k ks d f ha hca, descend_cons_aot t l init k ks d g ha hca, ih l h]


/-! ## well-formedness: distinct keys in every table reachable by `lookupTbl` -/

def WF (t : Tbl) : Prop := ∀ p u, lookupTbl t p = some u → (u.items.map Prod.fst).Nodup

def ItemWF (i : Item) : Prop :=
  match i with
  | .value _ => True
  | .table s => WF s
  | .aot ts => ∀ l, ts.getLast? = some l → WF l

theorem wf_of_items (u : Tbl) (hn : (u.items.map Prod.fst).Nodup)
    (h : ∀ k item, alookup k u.items = some item → ItemWF item) : WF u := by
  intro p v hl
  cases p with
  | nil => simp [lookupTbl] at hl; subst hl; exact hn
  | cons k r =>
    rw [lookupTbl] at hl
    cases ha : alookup k u.items with
    | none => simp [ha] at hl
    | some it =>
      have hi := h k it ha
      cases it with
      | value x => simp [ha] at hl
      | table sub => simp only [ha] at hl; exact hi r v hl
      | aot ts =>
        simp only [ha] at hl
        cases hg : ts.getLast? with
        | none => simp [hg] at hl
        | some l => simp only [hg] at hl; exact hi l hg r v hl

theorem wf_nodup (u : Tbl) (h : WF u) : (u.items.map Prod.fst).Nodup := h [] u rfl

theorem wf_items (u : Tbl) (h : WF u) (k : Bytes) (item : Item) (ha : alookup k u.items = some item) : ItemWF item := by
  cases item with
  | value x => trivial
  | table sub =>
    intro p v hl
    exact h (k :: p) v (by simp [lookupTbl, ha, hl])
  | aot ts =>
    intro l hg p v hl
    exact h (k :: p) v (by simp [lookupTbl, ha, hg, hl])

theorem wf_lookup (t u : Tbl) (p : List Bytes) (h : WF t) (hl : lookupTbl t p = some u) : WF u := by
  intro q v hq
  exact h (p ++ q) v (by simp [lookupTbl_append, hl, hq])

theorem wf_of_nil (u : Tbl) (h : u.items = []) : WF u :=
  wf_of_items u (by simp [h]) (by intro k item ha; simp [h, alookup] at ha)

theorem wf_congr_items (u u' : Tbl) (he : u'.items = u.items) (h : WF u) : WF u' :=
  wf_of_items u' (by rw [he]; exact wf_nodup u h) (by intro k item ha; rw [he] at ha; exact wf_items u h k item ha)

theorem wf_target (t : Tbl) (p : List Bytes) (d : Bool) (h : WF t) : WF (target t p d) := by
  unfold target
  cases hl : lookupTbl t p with
  | none => exact wf_of_nil _ rfl
  | some u => exact wf_lookup t u p h hl

theorem wf_aset (t : Tbl) (k : Bytes) (item : Item) (h : WF t) (hi : ItemWF item) :
    WF (t.setItems (aset k item t.items)) := by
  apply wf_of_items
  · exact aset_nodup k item t.items (wf_nodup t h)
  · intro k0 it ha
    by_cases hk : k0 = k
    · subst hk
      simp [alookup_aset_same] at ha; subst ha; exact hi
    · simp [alookup_aset_other _ _ _ _ hk] at ha
      exact wf_items t h k0 it ha

theorem wf_append (t : Tbl) (k : Bytes) (item : Item) (h : WF t) (hn : alookup k t.items = none) (hi : ItemWF item) :
    WF (t.setItems (t.items ++ [(k, item)])) := by
  rw [← aset_of_none k item t.items hn]; exact wf_aset t k item h hi

theorem wf_areplace (t : Tbl) (k : Bytes) (item x : Item) (h : WF t) (hs : alookup k t.items = some x) (hi : ItemWF item) :
    WF (t.setItems (areplace k item t.items)) := by
  rw [← aset_of_some k item x t.items hs]; exact wf_aset t k item h hi

theorem wf_aerase (t : Tbl) (k : Bytes) (h : WF t) : WF (t.setItems (aerase k t.items)) := by
  have hn := wf_nodup t h
  apply wf_of_items
  · simp only [items_setItems, aerase_keys]; exact hn.erase k
  · intro k0 it ha
    by_cases hk : k0 = k
    · subst hk
      simp [alookup_aerase_same k0 t.items hn] at ha
    · simp [alookup_aerase_other _ _ _ hk] at ha
      exact wf_items t h k0 it ha

theorem descend_wf (t t' : Tbl) (path : List Bytes) (d : Bool) (f : Tbl → Option Tbl)
    (h : descend t path d f = some t') (hw : WF t)
    (hf : ∀ u', WF (target t path d) → f (target t path d) = some u' → WF u') : WF t' := by
  induction path generalizing t t' with
  | nil =>
    have e : target t [] d = t := by simp [target, lookupTbl]
    rw [e] at hf
    exact hf t' hw (by simpa [descend] using h)
  | cons k ks ih =>
    rcases descend_cons_some t t' k ks d f h with ⟨sub, sub', he, _, hs, ht⟩ | ⟨init, l, l', ha, hca, hs, ht⟩
    · rw [target_cons_table t sub k ks d he] at hf
      have hsub : WF sub := by
        cases hx : alookup k t.items with
        | none => simp [hx] at he; subst he; exact wf_of_nil _ rfl
        | some it => simp [hx] at he; subst he; exact wf_items t hw k _ hx
      subst ht
      exact wf_aset t k _ hw (ih sub sub' hs hsub hf)
    · rw [target_cons_aot t l init k ks d ha] at hf
      have hl : WF l := wf_items t hw k _ ha l (by simp)
      subst ht
      refine wf_aset t k _ hw ?_
      intro m hm
      simp at hm; subst hm
      exact ih l l' hs hl hf

/-! ## monotonicity of `descend` in the action -/

theorem descend_mono (P : Option Nat → Prop) (t a : Tbl) (path : List Bytes) (d : Bool) (f g : Tbl → Option Tbl)
    (h : descend t path d f = some a)
    (hfg : ∀ u', f (target t path d) = some u' → ∃ u'', g (target t path d) = some u'' ∧ PresP P u' u'') :
    ∃ b, descend t path d g = some b ∧ PresP P a b := by
  induction path generalizing t a with
  | nil =>
    have e : target t [] d = t := by simp [target, lookupTbl]
    rw [e] at hfg
    simpa [descend] using hfg a (by simpa [descend] using h)
  | cons k ks ih =>
    rcases descend_cons_some t a k ks d f h with ⟨sub, sub', he, hc, hs, ht⟩ | ⟨init, l, l', ha, hca, hs, ht⟩
    · rw [target_cons_table t sub k ks d he] at hfg
      obtain ⟨sub'', hg, hp⟩ := ih sub sub' hs hfg
      refine ⟨_, by rw [descend_cons_table t sub k ks d g he hc, hg]; rfl, ?_⟩
      subst ht
      apply presP_of_items
      intro k0 item h0
      by_cases hk : k0 = k
      · subst hk
        simp [alookup_aset_same] at h0; subst h0
        exact ⟨.table sub'', alookup_aset_same _ _ _, sub'', rfl, hp⟩
      · simp [alookup_aset_other _ _ _ _ hk] at h0
        exact ⟨item, by simpa [alookup_aset_other _ _ _ _ hk] using h0, ItemPres.refl P item⟩
    · rw [target_cons_aot t l init k ks d ha] at hfg
      obtain ⟨l'', hg, hp⟩ := ih l l' hs hfg
      refine ⟨_, by rw [descend_cons_aot t l init k ks d g ha hca, hg]; rfl, ?_⟩
      subst ht
      apply presP_of_items
      intro k0 item h0
      by_cases hk : k0 = k
      · subst hk
        simp [alookup_aset_same] at h0; subst h0
        refine ⟨.aot (init ++ [l'']), alookup_aset_same _ _ _, init ++ [l''], rfl, ?_⟩
        intro s m _ hm
        obtain ⟨m', e1, e2⟩ := selAot_modifyLast init l' l'' m s hm
        refine ⟨m', e1, ?_⟩
        rcases e2 with e | ⟨e, e'⟩
        · subst e; exact PresP.refl P _
        · subst e; subst e'; exact hp
      · simp [alookup_aset_other _ _ _ _ hk] at h0
        exact ⟨item, by simpa [alookup_aset_other _ _ _ _ hk] using h0, ItemPres.refl P item⟩


/-! ## statements, runs, invariant -/

/-- the key of the header is free in its parent table (what `start_table` establishes by taking the
    entry out) -/
def Vacant (root : Tbl) (q : List Bytes) : Prop :=
  ∀ pp key u, q = pp ++ [key] → lookupTbl root pp = some u → alookup key u.items = none

theorem vacant_target (root : Tbl) (pp : List Bytes) (key : Bytes) (hv : Vacant root (pp ++ [key])) :
    alookup key (target root pp false).items = none := by
  unfold target
  cases hl : lookupTbl root pp with
  | none => rfl
  | some u => exact hv pp key u rfl hl

inductive Stmt where
  | kv (path : List Bytes) (key : Bytes) (v : Val)
  | std (path : List Bytes)
  | arr (path : List Bytes)

def step (st : ParseState) : Stmt → Option ParseState
  | .kv p k v => onKeyval st p k v
  | .std p => onStdHeader st p
  | .arr p => onArrayHeader st p

def run : ParseState → List Stmt → Option ParseState
  | st, [] => some st
  | st, s :: r => match step st s with
    | some st' => run st' r
    | none => none

/-- invariant of reachable states: distinct keys everywhere, and the key of an open `[table]`
    section is vacant in the finalized part -/
structure Inv (st : ParseState) : Prop where
  wfRoot : WF st.root
  wfCur : WF st.current
  vac : st.currentIsArray = false → Vacant st.root st.currentPath

theorem inv_init : Inv {} :=
  ⟨wf_of_nil _ rfl, wf_of_nil _ rfl, fun _ pp key u h => by cases pp <;> simp at h⟩

theorem finF_wf (isArray : Bool) (key : Bytes) (cur u u' : Tbl) (hc : WF cur) (hu : WF u)
    (h : finF isArray key cur u = some u') : WF u' := by
  unfold finF at h
  cases isArray with
  | true =>
    simp at h
    obtain ⟨ts, _, e⟩ := finArrF_some _ _ _ _ h
    subst e
    refine wf_aset u key _ hu ?_
    intro m hm
    simp at hm; subst hm; exact hc
  | false =>
    simp at h
    rcases finStdF_some _ _ _ _ h with ⟨hn, e⟩ | ⟨t0, ha, _, e⟩
    · subst e; exact wf_append u key _ hu hn hc
    · subst e; exact wf_areplace u key _ _ hu ha hc

theorem finalize_wf (st sf : ParseState) (hi : Inv st) (h : finalizeTable st = some sf) : WF sf.root := by
  rcases finalizeTable_some st sf h with ⟨_, _, hst⟩ | ⟨pp, key, root', hp, hd, hst⟩
  · subst hst; exact hi.wfCur
  · subst hst
    exact descend_wf _ _ _ _ _ hd hi.wfRoot fun u' hw hf => finF_wf _ _ _ _ _ hi.wfCur hw hf

theorem finalize_fields (st sf : ParseState) (h : finalizeTable st = some sf) :
    sf.current = Tbl.empty ∧ sf.currentPath = [] ∧ sf.currentIsArray = st.currentIsArray ∧ sf.position = st.position := by
  rcases finalizeTable_some st sf h with ⟨_, _, hst⟩ | ⟨pp, key, root', hp, hd, hst⟩ <;> subst hst <;> exact ⟨rfl, rfl, rfl, rfl⟩

theorem finF_mono (P : Option Nat → Prop) (isArray : Bool) (key : Bytes) (cur c u u' : Tbl) (hc : PresP P cur c)
    (h : finF isArray key cur u = some u') : ∃ u'', finF isArray key c u = some u'' ∧ PresP P u' u'' := by
  unfold finF at h ⊢
  cases isArray with
  | true =>
    simp at h ⊢
    obtain ⟨ts, he, e⟩ := finArrF_some _ _ _ _ h
    subst e
    refine ⟨u.setItems (aset key (.aot (ts ++ [c])) u.items), by simp [finArrF, he], ?_⟩
    apply presP_of_items
    intro k0 item h0
    by_cases hk : k0 = key
    · subst hk
      simp [alookup_aset_same] at h0; subst h0
      refine ⟨.aot (ts ++ [c]), by simp [alookup_aset_same], ts ++ [c], rfl, ?_⟩
      intro s m _ hm
      obtain ⟨m', e1, e2⟩ := selAot_modifyLast ts cur c m s hm
      refine ⟨m', e1, ?_⟩
      rcases e2 with e | ⟨e, e'⟩
      · subst e; exact PresP.refl P _
      · subst e; subst e'; exact hc
    · simp [alookup_aset_other _ _ _ _ hk] at h0
      exact ⟨item, by simpa [alookup_aset_other _ _ _ _ hk] using h0, ItemPres.refl P item⟩
  | false =>
    simp at h ⊢
    rcases finStdF_some _ _ _ _ h with ⟨hn, e⟩ | ⟨t0, ha, hi, e⟩
    · subst e
      refine ⟨u.setItems (u.items ++ [(key, .table c)]), by simp [finStdF, hn], ?_⟩
      apply presP_of_items
      intro k0 item h0
      by_cases hk : k0 = key
      · subst hk
        simp [alookup_append_new _ _ _ hn] at h0; subst h0
        exact ⟨.table c, by simp [alookup_append_new _ _ _ hn], c, rfl, hc⟩
      · simp [alookup_append_other _ _ _ _ hk] at h0
        exact ⟨item, by simpa [alookup_append_other _ _ _ _ hk] using h0, ItemPres.refl P item⟩
    · subst e
      have hs : (alookup key u.items).isSome := by simp [ha]
      refine ⟨u.setItems (areplace key (.table c) u.items), by simp [finStdF, ha, hi], ?_⟩
      apply presP_of_items
      intro k0 item h0
      by_cases hk : k0 = key
      · subst hk
        simp [alookup_areplace_same _ _ _ hs] at h0; subst h0
        exact ⟨.table c, by simp [alookup_areplace_same _ _ _ hs], c, rfl, hc⟩
      · simp [alookup_areplace_other _ _ _ _ hk] at h0
        exact ⟨item, by simpa [alookup_areplace_other _ _ _ _ hk] using h0, ItemPres.refl P item⟩

theorem finalizeTable_of_path (st : ParseState) (pp : List Bytes) (key : Bytes) (h : st.currentPath = pp ++ [key]) :
    finalizeTable st = (descend st.root pp false (finF st.currentIsArray key st.current)).map fun root =>
      { st with current := Tbl.empty, currentPath := [], root := root } := by
  rw [finalizeTable_eq, h, splitLast_append]

/-- a key/value statement: the document "if the input ended here" only grows -/
theorem kv_step (P : Option Nat → Prop) (st st1 sf : ParseState) (path : List Bytes) (key : Bytes) (v : Val)
    (hi : Inv st) (h : onKeyval st path key v = some st1) (hf : finalizeTable st = some sf) :
    ∃ sf1, finalizeTable st1 = some sf1 ∧ PresP P sf.root sf1.root ∧ Inv st1 := by
  obtain ⟨c, hd, hst⟩ := onKeyval_some st st1 path key v h
  have hpc : PresP P st.current c := by
    refine descend_pres P _ _ _ _ _ hd ?_
    intro u' hu
    obtain ⟨_, e, _⟩ := kvF_some _ _ _ _ _ hu
    subst e
    exact presP_of_keeps _ _ _ fun k item hk => alookup_append_old _ _ _ _ _ hk
  have hwc : WF c := by
    refine descend_wf _ _ _ _ _ hd hi.wfCur ?_
    intro u' hw hu
    obtain ⟨hn, e, _⟩ := kvF_some _ _ _ _ _ hu
    subst e
    exact wf_append _ _ _ hw hn trivial
  subst hst
  have hinv : Inv { st with current := c } := ⟨hi.wfRoot, hwc, hi.vac⟩
  rcases finalizeTable_some st sf hf with ⟨hp, he, e⟩ | ⟨pp, key', root', hp, hdd, e⟩
  · subst e
    refine ⟨{ st with current := Tbl.empty, currentPath := [], root := c }, ?_, hpc, hinv⟩
    rw [finalizeTable_eq]
    simp [hp, splitLast, he]
  · subst e
    obtain ⟨b, hb, hpb⟩ := descend_mono P _ _ _ _ _ (finF st.currentIsArray key' c) hdd
      (fun u' hu => finF_mono P _ _ _ _ _ _ hpc hu)
    refine ⟨{ st with current := Tbl.empty, currentPath := [], root := b }, ?_, hpb, hinv⟩
    rw [finalizeTable_of_path { st with current := c } pp key' hp]
    simp [hb]


theorem target_items_some (t : Tbl) (p : List Bytes) (d : Bool) (key : Bytes) (item : Item)
    (h : alookup key (target t p d).items = some item) : lookupTbl t p = some (target t p d) := by
  unfold target at h ⊢
  cases hl : lookupTbl t p with
  | none => simp [hl, alookup] at h
  | some u => rfl

/-- a `[table]` header (after the previous section was closed into `sf`) -/
theorem std_step (P : Option Nat → Prop) (sf st1 : ParseState) (path : List Bytes)
    (hw : WF sf.root) (hcur : sf.current = Tbl.empty) (h : startTable sf path = some st1) :
    ∃ sf1, finalizeTable st1 = some sf1 ∧ PresP P sf.root sf1.root ∧ Inv st1 := by
  obtain ⟨pp, key, r0, root1, hp, hprobe, herase, hst⟩ := startTable_some sf st1 path h
  -- the parent table
  have hwp : WF (target sf.root pp false) := wf_target _ _ _ hw
  have hnd := wf_nodup _ hwp
  obtain ⟨_, hpf, _⟩ := descend_spec _ _ _ _ _ hprobe
  have hprobe' := probeF_some _ _ _ hpf
  -- the new section
  have hbase : ∃ base, (startTable.find key sf.root pp).getD sf.current = base ∧ WF base ∧
      ∀ t0, alookup key (target sf.root pp false).items = some (.table t0) → base = t0 := by
    refine ⟨_, rfl, ?_, ?_⟩
    · rw [find_eq]
      cases hl : lookupTbl sf.root pp with
      | none => simp [hcur]; exact wf_of_nil _ rfl
      | some u =>
        simp only [Option.bind_some, tableAt]
        cases ha : alookup key u.items with
        | none => simp [hcur]; exact wf_of_nil _ rfl
        | some it =>
          cases it with
          | value x => simp [hcur]; exact wf_of_nil _ rfl
          | aot ts => simp [hcur]; exact wf_of_nil _ rfl
          | table x => simp; exact wf_items u (wf_lookup _ _ _ hw hl) key _ ha
    · intro t0 h0
      have hl := target_items_some _ _ _ _ _ h0
      rw [find_eq, hl]
      simp [tableAt, h0]
  obtain ⟨base, hbe, hwb, hbt⟩ := hbase
  rw [hbe] at hst
  let cur1 : Tbl := .mk base.items false false (some (sf.position + 1))
  have hwc : WF cur1 := wf_congr_items base cur1 rfl hwb
  -- erase, then place
  let G : Tbl → Option Tbl := fun u => (eraseF key u).bind (finF false key cur1)
  have hvac : alookup key (aerase key (target sf.root pp false).items) = none := alookup_aerase_same _ _ hnd
  have hG : G (target sf.root pp false) = some ((target sf.root pp false).setItems
      (aerase key (target sf.root pp false).items ++ [(key, .table cur1)])) := by
    simp [G, eraseF, finF, finStdF, hvac, setItems_setItems]
  obtain ⟨b, hb, _⟩ := descend_mono (fun _ => True) _ _ _ _ _ G herase (by
    intro u' hu
    simp [eraseF] at hu; subst hu
    exact ⟨_, hG, presP_of_keeps _ _ _ fun k item hk => alookup_append_old _ _ _ _ _ hk⟩)
  have hfin : finalizeTable st1 = some { st1 with current := Tbl.empty, currentPath := [], root := b } := by
    rw [finalizeTable_of_path st1 pp key (by rw [hst]; exact hp)]
    have e1 : st1.root = root1 := by rw [hst]
    have e2 : st1.currentIsArray = false := by rw [hst]
    have e3 : st1.current = cur1 := by rw [hst]
    rw [e1, e2, e3, descend_descend _ _ _ _ _ herase, hb]
    rfl
  refine ⟨_, hfin, ?_, ?_⟩
  · show PresP P sf.root b
    refine descend_pres P _ _ _ _ _ hb ?_
    intro u' hu
    rw [hG] at hu; injection hu with hu; subst hu
    apply presP_of_items
    intro k0 item h0
    by_cases hk : k0 = key
    · subst hk
      rcases hprobe' with hn | ⟨t0, ha, _, _⟩
      · rw [hn] at h0; cases h0
      · rw [ha] at h0; injection h0 with h0; subst h0
        refine ⟨.table cur1, by simp [alookup_append_new _ _ _ hvac], cur1, rfl, ?_⟩
        have := hbt t0 ha
        subst this
        exact presP_of_keeps _ _ _ fun k item hk => hk
    · refine ⟨item, ?_, ItemPres.refl P item⟩
      simp only [items_setItems]
      rw [alookup_append_other _ _ _ _ hk, alookup_aerase_other _ _ _ hk]
      exact h0
  · rw [hst]
    refine ⟨?_, hwc, ?_⟩
    · exact descend_wf _ _ _ _ _ herase hw fun u' hwu hu => by
        simp [eraseF] at hu; subst hu; exact wf_aerase _ _ hwu
    · intro _ pp' key' u hq hl
      simp only at hq hl
      rw [hp] at hq
      obtain ⟨h1, h2⟩ := List.append_inj' hq rfl
      simp at h2; subst h1; subst h2
      obtain ⟨u', hu', hl'⟩ := descend_spec _ _ _ _ _ herase
      rw [hl] at hl'; injection hl' with hl'; subst hl'
      simp [eraseF] at hu'; subst hu'
      exact hvac


theorem arrStartF_then_fin (key : Bytes) (cur u u' : Tbl) (h : arrStartF key u = some u') :
    ∃ u'', finArrF key cur u' = some u'' := by
  unfold arrStartF at h
  split at h
  · rename_i ts ha
    simp at h; subst h
    exact ⟨_, by simp [finArrF, ha]; rfl⟩
  · simp at h
  · rename_i hn
    simp at h; subst h
    exact ⟨_, by simp [finArrF, alookup_append_new _ _ _ hn]; rfl⟩

theorem arrStartF_wf (key : Bytes) (u u' : Tbl) (hw : WF u) (h : arrStartF key u = some u') : WF u' := by
  unfold arrStartF at h
  split at h
  · simp at h; subst h; exact hw
  · simp at h
  · rename_i hn
    simp at h; subst h
    exact wf_append _ _ _ hw hn (by intro l hl; simp at hl)

/-- a `[[array]]` header (after the previous section was closed into `sf`) -/
theorem arr_step (sf st1 : ParseState) (path : List Bytes)
    (hw : WF sf.root) (hcur : sf.current = Tbl.empty) (h : startArrayTable sf path = some st1) :
    ∃ sf1, finalizeTable st1 = some sf1 ∧ PresP (fun s => s.isSome) sf.root sf1.root ∧ Inv st1 := by
  obtain ⟨pp, key, root1, hp, hd, hst⟩ := startArrayTable_some sf st1 path h
  let cur1 : Tbl := .mk sf.current.items false false (some (sf.position + 1))
  have hp1 : PresP (fun s => s.isSome) sf.root root1 :=
    descend_pres _ _ _ _ _ _ hd fun u' hu => arrStartF_pres _ _ _ _ hu
  let G : Tbl → Option Tbl := fun u => (arrStartF key u).bind (finF true key cur1)
  obtain ⟨b, hb, hp2⟩ := descend_mono (fun s => s.isSome) _ _ _ _ _ G hd (by
    intro u' hu
    obtain ⟨u'', hf⟩ := arrStartF_then_fin key cur1 _ _ hu
    exact ⟨u'', by simp [G, hu, finF, hf], finArrF_pres _ _ _ _ hf⟩)
  have hfin : finalizeTable st1 = some { st1 with current := Tbl.empty, currentPath := [], root := b } := by
    rw [finalizeTable_of_path st1 pp key (by rw [hst]; exact hp)]
    have e1 : st1.root = root1 := by rw [hst]
    have e2 : st1.currentIsArray = true := by rw [hst]
    have e3 : st1.current = cur1 := by rw [hst]
    rw [e1, e2, e3, descend_descend _ _ _ _ _ hd, hb]
    rfl
  refine ⟨_, hfin, PresP.trans hp1 hp2, ?_⟩
  rw [hst]
  refine ⟨?_, ?_, ?_⟩
  · exact descend_wf _ _ _ _ _ hd hw fun u' hwu hu => arrStartF_wf _ _ _ hwu hu
  · exact wf_of_nil _ (by simp [hcur]; rfl)
  · intro hc; simp at hc

theorem PresP.weaken {P Q : Option Nat → Prop} (hPQ : ∀ s, Q s → P s) {t t' : Tbl} (h : PresP P t t') : PresP Q t t' :=
  fun ip k x hq hx => h ip k x (fun e he => hPQ _ (hq e he)) hx

/-- one accepted statement: the document "if the input ended here" only grows (indexed paths) -/
theorem step_view (st st1 sf : ParseState) (s : Stmt) (hi : Inv st) (h : step st s = some st1)
    (hf : finalizeTable st = some sf) :
    ∃ sf1, finalizeTable st1 = some sf1 ∧ PresP (fun s => s.isSome) sf.root sf1.root ∧ Inv st1 := by
  have hw := finalize_wf st sf hi hf
  have hc := (finalize_fields st sf hf).1
  cases s with
  | kv p k v => exact kv_step _ st st1 sf p k v hi h hf
  | std p =>
    simp only [step, onStdHeader, hf] at h
    exact std_step _ sf st1 p hw hc h
  | arr p =>
    simp only [step, onArrayHeader, hf] at h
    exact arr_step sf st1 p hw hc h

theorem run_view (st st' sf : ParseState) (stmts : List Stmt) (hi : Inv st) (h : run st stmts = some st')
    (hf : finalizeTable st = some sf) :
    ∃ sf', finalizeTable st' = some sf' ∧ PresP (fun s => s.isSome) sf.root sf'.root ∧ Inv st' := by
  induction stmts generalizing st sf with
  | nil => simp [run] at h; subst h; exact ⟨sf, hf, PresP.refl _ _, hi⟩
  | cons s r ih =>
    rw [run] at h
    cases hs : step st s with
    | none => simp [hs] at h
    | some st1 =>
      simp only [hs] at h
      obtain ⟨sf1, hf1, hp1, hi1⟩ := step_view st st1 sf s hi hs hf
      obtain ⟨sf', hf', hp', hi'⟩ := ih st1 sf1 hi1 h hf1
      exact ⟨sf', hf', PresP.trans hp1 hp', hi'⟩

theorem run_append (st : ParseState) (a b : List Stmt) :
    run st (a ++ b) = (run st a).bind (fun st1 => run st1 b) := by
  induction a generalizing st with
  | nil => rfl
  | cons s r ih =>
    simp only [List.cons_append, run]
    cases step st s with
    | none => rfl
    | some st1 => exact ih st1

end TomlVerif.Lemmas.State09
