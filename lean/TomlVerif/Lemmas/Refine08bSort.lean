import TomlVerif.Lemmas.Refine08b
/-! `sort` on the plain tree. `Table::sort_values` sorts the keys of the table and then, recursively,
    of its *dotted* sub-tables; the plain tree has no `dotted` flag, so the plain op is the one-level
    `sortByKey` and commutes under the side condition that the dotted sub-tables are already in
    order (`SortFlat`; in particular when there are none). Also: an update depends only on the node
    updates at the node the path leads to (`congr_tbl`), and a decidable equality test for `Plain`. -/
namespace TomlVerif.Lemmas.Refine08bSort
open TomlVerif TomlVerif.Model TomlVerif.Model.Cst TomlVerif.Model.Edit TomlVerif.Lemmas.Edit08
open TomlVerif.Lemmas.Refine08 TomlVerif.Lemmas.RefineOps08 TomlVerif.Lemmas.Refine08b
open TomlVerif.Spec.OrderedPlain

/-! ### an update only uses the node updates at the node its path leads to -/

/-- `u'` does at node `n` what `u` does -/
def Agree (u u' : Upd) : Node → Prop
  | .tbl t => u'.tbl t = u.tbl t
  | .val v => u'.val v = u.val v
  | .aot ts _ => u'.aot ts = u.aot ts

variable {u u' : Upd}

mutual
theorem congr_val : ∀ (p : List Seg) (v : CVal) (n : Node), lookupVal p v = some n → Agree u u' n →
    updVal u' p v = updVal u p v
  | [], v, n, h, ha => by
    simp only [lookupVal, Option.some.injEq] at h; subst h
    simpa [updVal, Agree] using ha
  | _ :: _, .scalar _ _ _, _, h, _ => by simp [lookupVal] at h
  | s :: r, .arr items tr c d sp, n, h, ha => by
    simp only [lookupVal] at h
    cases hi : s.idx with
    | none => simp [hi] at h
    | some i =>
      simp only [hi] at h
      simp only [updVal, hi, congr_elems i r items n h ha]
  | s :: r, .inl items pre imp dot d sp, n, h, ha => by
    simp only [lookupVal] at h
    cases hi : s.key with
    | none => simp [hi] at h
    | some k =>
      simp only [hi] at h
      simp only [updVal, hi, congr_kvs k r items n h ha]
theorem congr_elems : ∀ (i : Nat) (r : List Seg) (items : List CVal) (n : Node),
    lookupElems i r items = some n → Agree u u' n → updElems u' i r items = updElems u i r items
  | _, _, [], _, h, _ => by simp [lookupElems] at h
  | 0, r, v :: rest, n, h, ha => by
    simp only [lookupElems] at h
    simp only [updElems, congr_val r v n h ha]
  | i + 1, r, v :: rest, n, h, ha => by
    simp only [lookupElems] at h
    simp only [updElems, congr_elems i r rest n h ha]
theorem congr_kvs (k : Bytes) : ∀ (r : List Seg) (items : List (CKey × CVal)) (n : Node),
    lookupKvs k r items = some n → Agree u u' n → updKvs u' k r items = updKvs u k r items
  | _, [], _, h, _ => by simp [lookupKvs] at h
  | r, (k', v) :: rest, n, h, ha => by
    simp only [lookupKvs] at h
    by_cases hk : (k'.key == k) = true
    · simp only [hk, if_true] at h
      simp only [updKvs, hk, if_true, congr_val r v n h ha]
    · have hk' : (k'.key == k) = false := by simpa using hk
      simp only [hk', Bool.false_eq_true, if_false] at h
      simp only [updKvs, hk', Bool.false_eq_true, if_false, congr_kvs k r rest n h ha]
end

mutual
theorem congr_tbl : ∀ (p : List Seg) (t : CTbl) (n : Node), lookupTbl p t = some n → Agree u u' n →
    updTbl u' p t = updTbl u p t
  | [], t, n, h, ha => by
    simp only [lookupTbl, Option.some.injEq] at h; subst h
    simpa [updTbl, Agree] using ha
  | s :: r, .mk items imp dot ps dec sp, n, h, ha => by
    simp only [lookupTbl] at h
    cases hi : s.key with
    | none => simp [hi] at h
    | some k =>
      simp only [hi] at h
      simp only [updTbl, hi, congr_items k r items n h ha]
theorem congr_items (k : Bytes) : ∀ (r : List Seg) (items : List (CKey × CItem)) (n : Node),
    lookupItems k r items = some n → Agree u u' n → updItems u' k r items = updItems u k r items
  | _, [], _, h, _ => by simp [lookupItems] at h
  | r, (k', it) :: rest, n, h, ha => by
    simp only [lookupItems] at h
    by_cases hk : (k'.key == k) = true
    · simp only [hk, if_true] at h
      simp only [updItems, hk, if_true, congr_item r it n h ha]
    · have hk' : (k'.key == k) = false := by simpa using hk
      simp only [hk', Bool.false_eq_true, if_false] at h
      simp only [updItems, hk', Bool.false_eq_true, if_false, congr_items k r rest n h ha]
theorem congr_item : ∀ (r : List Seg) (it : CItem) (n : Node), lookupItem r it = some n → Agree u u' n →
    updItem u' r it = updItem u r it
  | r, .value v, n, h, ha => by
    simp only [lookupItem] at h
    simp only [updItem, congr_val r v n h ha]
  | r, .table t, n, h, ha => by
    simp only [lookupItem] at h
    simp only [updItem, congr_tbl r t n h ha]
  | [], .aot ts sp, n, h, ha => by
    simp only [lookupItem, Option.some.injEq] at h; subst h
    simp only [Agree] at ha
    simp only [updItem, ha]
  | s :: r, .aot ts sp, n, h, ha => by
    simp only [lookupItem] at h
    cases hi : s.idx with
    | none => simp [hi] at h
    | some i =>
      simp only [hi] at h
      simp only [updItem, hi, congr_nth i r ts n h ha]
theorem congr_nth : ∀ (i : Nat) (r : List Seg) (ts : List CTbl) (n : Node),
    lookupNth i r ts = some n → Agree u u' n → updNth u' i r ts = updNth u i r ts
  | _, _, [], _, h, _ => by simp [lookupNth] at h
  | 0, r, t :: rest, n, h, ha => by
    simp only [lookupNth] at h
    simp only [updNth, congr_tbl r t n h ha]
  | i + 1, r, t :: rest, n, h, ha => by
    simp only [lookupNth] at h
    simp only [updNth, congr_nth i r rest n h ha]
end

/-! an update that applies has a node at its path -/

mutual
theorem upd_look_val (u : Upd) : ∀ (p : List Seg) (v v' : CVal), updVal u p v = some v' →
    ∃ n, lookupVal p v = some n
  | [], v, _, _ => ⟨.val v, by simp [lookupVal]⟩
  | _ :: _, .scalar _ _ _, _, h => by simp [updVal] at h
  | s :: r, .arr items tr c d sp, v', h => by
    simp only [updVal] at h
    cases hi : s.idx with
    | none => simp [hi] at h
    | some i =>
      simp only [hi] at h
      obtain ⟨items', hu, _⟩ := Option.map_eq_some_iff.mp h
      simpa [lookupVal, hi] using upd_look_elems u i r items items' hu
  | s :: r, .inl items pre imp dot d sp, v', h => by
    simp only [updVal] at h
    cases hi : s.key with
    | none => simp [hi] at h
    | some k =>
      simp only [hi] at h
      obtain ⟨items', hu, _⟩ := Option.map_eq_some_iff.mp h
      simpa [lookupVal, hi] using upd_look_kvs u k r items items' hu
theorem upd_look_elems (u : Upd) : ∀ (i : Nat) (r : List Seg) (items items' : List CVal),
    updElems u i r items = some items' → ∃ n, lookupElems i r items = some n
  | _, _, [], _, h => by simp [updElems] at h
  | 0, r, v :: rest, items', h => by
    simp only [updElems] at h
    obtain ⟨v', hu, _⟩ := Option.map_eq_some_iff.mp h
    simpa [lookupElems] using upd_look_val u r v v' hu
  | i + 1, r, v :: rest, items', h => by
    simp only [updElems] at h
    obtain ⟨rest', hu, _⟩ := Option.map_eq_some_iff.mp h
    simpa [lookupElems] using upd_look_elems u i r rest rest' hu
theorem upd_look_kvs (u : Upd) (k : Bytes) : ∀ (r : List Seg) (items items' : List (CKey × CVal)),
    updKvs u k r items = some items' → ∃ n, lookupKvs k r items = some n
  | _, [], _, h => by simp [updKvs] at h
  | r, (k', v) :: rest, items', h => by
    simp only [updKvs] at h
    by_cases hk : (k'.key == k) = true
    · simp only [hk, if_true] at h
      obtain ⟨v', hu, _⟩ := Option.map_eq_some_iff.mp h
      simpa [lookupKvs, hk] using upd_look_val u r v v' hu
    · have hk' : (k'.key == k) = false := by simpa using hk
      simp only [hk', Bool.false_eq_true, if_false] at h
      obtain ⟨rest', hu, _⟩ := Option.map_eq_some_iff.mp h
      simpa [lookupKvs, hk'] using upd_look_kvs u k r rest rest' hu
end

mutual
theorem upd_look_tbl (u : Upd) : ∀ (p : List Seg) (t t' : CTbl), updTbl u p t = some t' →
    ∃ n, lookupTbl p t = some n
  | [], t, _, _ => ⟨.tbl t, by simp [lookupTbl]⟩
  | s :: r, .mk items imp dot ps dec sp, t', h => by
    simp only [updTbl] at h
    cases hi : s.key with
    | none => simp [hi] at h
    | some k =>
      simp only [hi] at h
      obtain ⟨items', hu, _⟩ := Option.map_eq_some_iff.mp h
      simpa [lookupTbl, hi] using upd_look_items u k r items items' hu
theorem upd_look_items (u : Upd) (k : Bytes) : ∀ (r : List Seg) (items items' : List (CKey × CItem)),
    updItems u k r items = some items' → ∃ n, lookupItems k r items = some n
  | _, [], _, h => by simp [updItems] at h
  | r, (k', it) :: rest, items', h => by
    simp only [updItems] at h
    by_cases hk : (k'.key == k) = true
    · simp only [hk, if_true] at h
      obtain ⟨it', hu, _⟩ := Option.map_eq_some_iff.mp h
      simpa [lookupItems, hk] using upd_look_item u r it it' hu
    · have hk' : (k'.key == k) = false := by simpa using hk
      simp only [hk', Bool.false_eq_true, if_false] at h
      obtain ⟨rest', hu, _⟩ := Option.map_eq_some_iff.mp h
      simpa [lookupItems, hk'] using upd_look_items u k r rest rest' hu
theorem upd_look_item (u : Upd) : ∀ (r : List Seg) (it it' : CItem), updItem u r it = some it' →
    ∃ n, lookupItem r it = some n
  | r, .value v, it', h => by
    simp only [updItem] at h
    obtain ⟨v', hu, _⟩ := Option.map_eq_some_iff.mp h
    simpa [lookupItem] using upd_look_val u r v v' hu
  | r, .table t, it', h => by
    simp only [updItem] at h
    obtain ⟨t', hu, _⟩ := Option.map_eq_some_iff.mp h
    simpa [lookupItem] using upd_look_tbl u r t t' hu
  | [], .aot ts sp, _, _ => ⟨.aot ts sp, by simp [lookupItem]⟩
  | s :: r, .aot ts sp, it', h => by
    simp only [updItem] at h
    cases hi : s.idx with
    | none => simp [hi] at h
    | some i =>
      simp only [hi] at h
      obtain ⟨ts', hu, _⟩ := Option.map_eq_some_iff.mp h
      simpa [lookupItem, hi] using upd_look_nth u i r ts ts' hu
theorem upd_look_nth (u : Upd) : ∀ (i : Nat) (r : List Seg) (ts ts' : List CTbl),
    updNth u i r ts = some ts' → ∃ n, lookupNth i r ts = some n
  | _, _, [], _, h => by simp [updNth] at h
  | 0, r, t :: rest, ts', h => by
    simp only [updNth] at h
    obtain ⟨t', hu, _⟩ := Option.map_eq_some_iff.mp h
    simpa [lookupNth] using upd_look_tbl u r t t' hu
  | i + 1, r, t :: rest, ts', h => by
    simp only [updNth] at h
    obtain ⟨rest', hu, _⟩ := Option.map_eq_some_iff.mp h
    simpa [lookupNth] using upd_look_nth u i r rest rest' hu
end

/-! ### sorting the entries commutes with erasure -/

theorem erase_insertByCKey_kvs (x : CKey × CVal) : ∀ l : List (CKey × CVal),
    eraseKvs (insertByCKey x l) = insertByKey (x.1.key, eraseVal x.2) (eraseKvs l)
  | [] => by simp [insertByCKey, eraseKvs, insertByKey]
  | y :: r => by
    obtain ⟨ky, vy⟩ := y
    obtain ⟨kx, vx⟩ := x
    simp only [insertByCKey, eraseKvs, insertByKey]
    split
    · simp [eraseKvs, erase_insertByCKey_kvs (kx, vx) r]
    · simp [eraseKvs]

theorem erase_sortByCKey_kvs : ∀ l : List (CKey × CVal), eraseKvs (sortByCKey l) = sortByKey (eraseKvs l)
  | [] => rfl
  | (k, v) :: r => by
    simp only [sortByCKey, eraseKvs, sortByKey]
    rw [erase_insertByCKey_kvs, erase_sortByCKey_kvs r]

theorem itemEntries_insertByKey (x : Bytes × Item) : ∀ l : List (Bytes × Item),
    itemEntriesToPlain (insertByKey x l) = insertByKey (x.1, itemToPlain x.2) (itemEntriesToPlain l)
  | [] => by obtain ⟨k, v⟩ := x; simp [insertByKey, itemEntriesToPlain]
  | (ky, vy) :: r => by
    obtain ⟨kx, vx⟩ := x
    simp only [insertByKey, itemEntriesToPlain]
    split
    · simp [itemEntriesToPlain, itemEntries_insertByKey (kx, vx) r]
    · simp [itemEntriesToPlain]

theorem itemEntries_sortByKey : ∀ l : List (Bytes × Item),
    itemEntriesToPlain (sortByKey l) = sortByKey (itemEntriesToPlain l)
  | [] => rfl
  | (k, v) :: r => by
    simp only [sortByKey, itemEntriesToPlain]
    rw [itemEntries_insertByKey, itemEntries_sortByKey r]

theorem valEntries_insertByKey (x : Bytes × Val) : ∀ l : List (Bytes × Val),
    valEntriesToPlain (insertByKey x l) = insertByKey (x.1, valToPlain x.2) (valEntriesToPlain l)
  | [] => by obtain ⟨k, v⟩ := x; simp [insertByKey, valEntriesToPlain]
  | (ky, vy) :: r => by
    obtain ⟨kx, vx⟩ := x
    simp only [insertByKey, valEntriesToPlain]
    split
    · simp [valEntriesToPlain, valEntries_insertByKey (kx, vx) r]
    · simp [valEntriesToPlain]

theorem valEntries_sortByKey : ∀ l : List (Bytes × Val),
    valEntriesToPlain (sortByKey l) = sortByKey (valEntriesToPlain l)
  | [] => rfl
  | (k, v) :: r => by
    simp only [sortByKey, valEntriesToPlain]
    rw [valEntries_insertByKey, valEntries_sortByKey r]

/-! ### the plain op and the side condition -/

/-- `sort_values` on the plain tree: the entries of the table in key order (stable) -/
def pSort : Plain → Option Plain
  | .tbl es => some (.tbl (sortByKey es))
  | _ => none

/-- the dotted sub-tables of the node are already in sorted order (what `sort_values` does below
    the first level is invisible) -/
def SortFlat : Node → Prop
  | .tbl t => sortSub t.items = t.items
  | .val (.inl items _ _ _ _ _) => sortInlSub items = items
  | _ => True

/-- no entry is a dotted table (syntactic sufficient condition for `SortFlat`) -/
def noDottedItems : List (CKey × CItem) → Bool
  | [] => true
  | (_, .table t) :: r => !t.dotted && noDottedItems r
  | (_, _) :: r => noDottedItems r

def noDottedKvs : List (CKey × CVal) → Bool
  | [] => true
  | (_, .inl _ _ _ dot _ _) :: r => !dot && noDottedKvs r
  | (_, _) :: r => noDottedKvs r

theorem sortSub_of_noDotted : ∀ l : List (CKey × CItem), noDottedItems l = true → sortSub l = l
  | [], _ => rfl
  | (k, .table t) :: r, h => by
    simp only [noDottedItems, Bool.and_eq_true, Bool.not_eq_true'] at h
    simp [sortSub, h.1, sortSub_of_noDotted r h.2]
  | (k, .value v) :: r, h => by
    simp only [noDottedItems] at h
    simp [sortSub, sortSub_of_noDotted r h]
  | (k, .aot ts sp) :: r, h => by
    simp only [noDottedItems] at h
    simp [sortSub, sortSub_of_noDotted r h]

theorem sortInlSub_of_noDotted : ∀ l : List (CKey × CVal), noDottedKvs l = true → sortInlSub l = l
  | [], _ => rfl
  | (k, .inl items pre imp dot d sp) :: r, h => by
    simp only [noDottedKvs, Bool.and_eq_true, Bool.not_eq_true'] at h
    simp [sortInlSub, h.1, sortInlSub_of_noDotted r h.2]
  | (k, .scalar a b c) :: r, h => by
    simp only [noDottedKvs] at h
    simp [sortInlSub, sortInlSub_of_noDotted r h]
  | (k, .arr a b c d e) :: r, h => by
    simp only [noDottedKvs] at h
    simp [sortInlSub, sortInlSub_of_noDotted r h]

/-- the node has no dotted sub-table among its entries -/
def NoDotted : Node → Prop
  | .tbl t => noDottedItems t.items = true
  | .val (.inl items _ _ _ _ _) => noDottedKvs items = true
  | _ => True

theorem sortFlat_of_noDotted : ∀ n : Node, NoDotted n → SortFlat n
  | .tbl t, h => sortSub_of_noDotted t.items h
  | .val (.inl items _ _ _ _ _), h => sortInlSub_of_noDotted items h
  | .val (.scalar _ _ _), _ => trivial
  | .val (.arr _ _ _ _ _), _ => trivial
  | .aot _ _, _ => trivial

open Classical in
/-- `sort` restricted to the nodes satisfying the side condition -/
noncomputable def sortUpdFlat : Upd :=
  ⟨fun t => if SortFlat (.tbl t) then some (sortTbl t) else none,
   fun v => if SortFlat (.val v) then inlSort v else none, noAot⟩

theorem refines_sortFlat : Refines sortUpdFlat pSort where
  tbl t t' h := by
    simp only [sortUpdFlat] at h
    split at h
    · rename_i hf
      simp only [Option.some.injEq] at h; subst h
      cases t with
      | mk items imp dot ps dec sp =>
        simp only [SortFlat, CTbl.items] at hf
        simp [sortTbl, hf, plainT, eraseTbl, toPlain, pSort, erase_sortByCKey_items, itemEntries_sortByKey]
    · cases h
  val x x' h := by
    simp only [sortUpdFlat] at h
    split at h
    · rename_i hf
      cases x with
      | inl items pre imp dot d sp =>
        simp only [inlSort, Option.some.injEq] at h; subst h
        simp only [SortFlat] at hf
        simp [sortInl, hf, plainV, eraseVal, valToPlain, pSort, erase_sortByCKey_kvs, valEntries_sortByKey]
      | scalar _ _ _ => simp [inlSort] at h
      | arr _ _ _ _ _ => simp [inlSort] at h
    · cases h
  aot ts ts' h := by simp [sortUpdFlat, noAot] at h

/-- `sort` at a node whose dotted sub-tables are in order is `sortByKey` on the plain entries -/
theorem refine_sort (rs : List Raw) (p : List Seg) (root r : CTbl)
    (hflat : ∀ n, lookupTbl p root = some n → SortFlat n)
    (h : updTbl (Op.sort.upd rs) p root = some r) : pupd pSort p (plainT root) = some (plainT r) := by
  obtain ⟨n, hn⟩ := upd_look_tbl _ p root r h
  have hf := hflat n hn
  have ha : Agree (Op.sort.upd rs) sortUpdFlat n := by
    cases n with
    | tbl t => simp [Agree, sortUpdFlat, Op.upd, hf]
    | val v => simp [Agree, sortUpdFlat, Op.upd, hf]
    | aot ts sp => simp [Agree, sortUpdFlat, Op.upd]
  rw [← congr_tbl p root n hn ha] at h
  exact refine_tbl refines_sortFlat p root r h

/-! ### a decidable equality test for plain trees -/

mutual
def plainBeq : Plain → Plain → Bool
  | .scalar a, .scalar b => a == b
  | .arr xs, .arr ys => plainBeqList xs ys
  | .tbl es, .tbl fs => plainBeqEntries es fs
  | _, _ => false
def plainBeqList : List Plain → List Plain → Bool
  | [], [] => true
  | x :: xs, y :: ys => plainBeq x y && plainBeqList xs ys
  | _, _ => false
def plainBeqEntries : List (Bytes × Plain) → List (Bytes × Plain) → Bool
  | [], [] => true
  | (k, x) :: xs, (l, y) :: ys => k == l && plainBeq x y && plainBeqEntries xs ys
  | _, _ => false
end

mutual
theorem plainBeq_sound : ∀ x y : Plain, plainBeq x y = true → x = y
  | .scalar a, .scalar b, h => by simp only [plainBeq, beq_iff_eq] at h; rw [h]
  | .arr xs, .arr ys, h => by simp only [plainBeq] at h; rw [plainBeqList_sound xs ys h]
  | .tbl es, .tbl fs, h => by simp only [plainBeq] at h; rw [plainBeqEntries_sound es fs h]
  | .scalar _, .arr _, h | .scalar _, .tbl _, h | .arr _, .scalar _, h | .arr _, .tbl _, h
  | .tbl _, .scalar _, h | .tbl _, .arr _, h => by simp [plainBeq] at h
theorem plainBeqList_sound : ∀ xs ys : List Plain, plainBeqList xs ys = true → xs = ys
  | [], [], _ => rfl
  | x :: xs, y :: ys, h => by
    simp only [plainBeqList, Bool.and_eq_true] at h
    rw [plainBeq_sound x y h.1, plainBeqList_sound xs ys h.2]
  | [], _ :: _, h | _ :: _, [], h => by simp [plainBeqList] at h
theorem plainBeqEntries_sound : ∀ xs ys : List (Bytes × Plain), plainBeqEntries xs ys = true → xs = ys
  | [], [], _ => rfl
  | (k, x) :: xs, (l, y) :: ys, h => by
    simp only [plainBeqEntries, Bool.and_eq_true, beq_iff_eq] at h
    rw [h.1.1, plainBeq_sound x y h.1.2, plainBeqEntries_sound xs ys h.2]
  | [], _ :: _, h | _ :: _, [], h => by simp [plainBeqEntries] at h
end

mutual
theorem plainBeq_refl : ∀ x : Plain, plainBeq x x = true
  | .scalar a => by simp [plainBeq]
  | .arr xs => by simp [plainBeq, plainBeqList_refl xs]
  | .tbl es => by simp [plainBeq, plainBeqEntries_refl es]
theorem plainBeqList_refl : ∀ xs : List Plain, plainBeqList xs xs = true
  | [] => rfl
  | x :: xs => by simp [plainBeqList, plainBeq_refl x, plainBeqList_refl xs]
theorem plainBeqEntries_refl : ∀ xs : List (Bytes × Plain), plainBeqEntries xs xs = true
  | [] => rfl
  | (k, x) :: xs => by simp [plainBeqEntries, plainBeq_refl x, plainBeqEntries_refl xs]
end

end TomlVerif.Lemmas.Refine08bSort
