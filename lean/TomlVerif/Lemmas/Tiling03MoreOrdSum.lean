import TomlVerif.Lemmas.Tiling03MoreOrdSort
/-! C03, documents whose sections are NOT in pre-order — the printer half.

    The tables below the root are summarised, in tree order, by the list `nsItems` of
    `(position, flag, text)` triples of the tables that carry a recorded position (the tables a
    header line made); a table without a position (an implicit table) contributes nothing when it
    is invisible (`implicit`, no values, not an array element) and a marker with a `false` flag
    otherwise.  When all flags are set the printer writes the root body followed by the texts of
    the triples in (stable) position order — whatever positions the invisible tables inherit. -/
namespace TomlVerif.Lemmas.Tiling03More
open TomlVerif TomlVerif.Spec TomlVerif.Model TomlVerif.Model.Strings TomlVerif.Model.Value
open TomlVerif.Model.Cst TomlVerif.Model.Encode TomlVerif.Lemmas.Suffix03 TomlVerif.Lemmas.Cst03
open TomlVerif.Lemmas.LastByte03 TomlVerif.Lemmas.Tiling03 TomlVerif.Lemmas.Tiling03Hdr
open TomlVerif.Lemmas.Tiling03Nest

abbrev NS := List (Nat × Bool × Bytes)

/-- an implicit table the printer does not show -/
def invis (t : CTbl) (isArr : Bool) : Bool := !isArr && t.implicit && (valuesTbl t.items []).isEmpty

/-- the summary of the table itself: nothing for a dotted-key table or an invisible table without
    position; `(q, has a prefix decor, text)` for a table at position `q`; a marker with flag
    `false` for a visible table without position -/
def hdN (f : Bytes → Bytes) (inp : Bytes) (t : CTbl) (path : List CKey) (isArr : Bool) : NS :=
  if t.dotted then []
  else match t.pos with
    | some q => [(q, t.decor.pre.isSome, entText f inp t path isArr)]
    | none => if invis t isArr then [] else [(0, false, [])]

mutual
def nsTbl (f : Bytes → Bytes) (inp : Bytes) : CTbl → List CKey → Bool → NS
  | .mk items imp dot p dec sp, path, isArr =>
    hdN f inp (.mk items imp dot p dec sp) path isArr ++ nsItems f inp items path
def nsItems (f : Bytes → Bytes) (inp : Bytes) : List (CKey × CItem) → List CKey → NS
  | [], _ => []
  | (k, it) :: r, path =>
    match it with
    | .table t => nsTbl f inp t (path ++ [k]) false ++ nsItems f inp r path
    | .aot ts _ => nsAot f inp ts (path ++ [k]) ++ nsItems f inp r path
    | .value _ => nsItems f inp r path
def nsAot (f : Bytes → Bytes) (inp : Bytes) : List CTbl → List CKey → NS
  | [], _ => []
  | t :: r, path => nsTbl f inp t path true ++ nsAot f inp r path
end

theorem nsTbl_eq (f : Bytes → Bytes) (inp : Bytes) (t : CTbl) (P : List CKey) (a : Bool) :
    nsTbl f inp t P a = hdN f inp t P a ++ nsItems f inp t.items P := by
  cases t; rw [nsTbl]; rfl

theorem nsItems_append (f : Bytes → Bytes) (inp : Bytes) : ∀ (x y : Items) (P : List CKey),
    nsItems f inp (x ++ y) P = nsItems f inp x P ++ nsItems f inp y P
  | [], y, P => by simp [nsItems]
  | (k, .table t) :: r, y, P => by
    simp only [List.cons_append, nsItems, nsItems_append f inp r y P, List.append_assoc]
  | (k, .aot ts sp) :: r, y, P => by
    simp only [List.cons_append, nsItems, nsItems_append f inp r y P, List.append_assoc]
  | (k, .value v) :: r, y, P => by
    simp only [List.cons_append, nsItems, nsItems_append f inp r y P]

theorem nsAot_append (f : Bytes → Bytes) (inp : Bytes) : ∀ (x y : List CTbl) (P : List CKey),
    nsAot f inp (x ++ y) P = nsAot f inp x P ++ nsAot f inp y P
  | [], y, P => by simp [nsAot]
  | t :: r, y, P => by simp only [List.cons_append, nsAot, nsAot_append f inp r y P, List.append_assoc]

/-- the `(position, text)` pairs of a summary -/
def pairsN (s : NS) : PT := s.map (fun x => (x.1, x.2.2))

theorem pairsN_append (a b : NS) : pairsN (a ++ b) = pairsN a ++ pairsN b := by
  simp [pairsN]

/-- what the printer writes for a root whose summary has all flags set -/
def rootTextO (f : Bytes → Bytes) (inp : Bytes) (root : CTbl) : Bytes :=
  entText f inp root [] false ++ flatP (sortP (pairsN (nsItems f inp root.items [])))

/-! ### the entries of `visit_nested_tables` and the summary -/

/-- an entry of a non-dotted table whose recorded position, when there is one, is its position -/
def posOk (e : Entry) : Bool :=
  !e.tbl.dotted && (match e.tbl.pos with
    | some q => e.pos == q
    | none => true)

/-- one leg of the walk: new entries are appended; their summary is `s` -/
def StepO (f : Bytes → Bytes) (inp : Bytes) (st r : Nat × List Entry) (s : NS) : Prop :=
  ∃ new, r.2 = st.2 ++ new ∧ new.all posOk = true ∧
    new.flatMap (fun e => hdN f inp e.tbl e.path e.isArr) = s

theorem StepO.refl (f : Bytes → Bytes) (inp : Bytes) (st : Nat × List Entry) : StepO f inp st st [] :=
  ⟨[], by simp, rfl, rfl⟩

theorem StepO.trans {f : Bytes → Bytes} {inp : Bytes} {st r r' : Nat × List Entry} {s1 s2 : NS}
    (h1 : StepO f inp st r s1) (h2 : StepO f inp r r' s2) : StepO f inp st r' (s1 ++ s2) := by
  obtain ⟨n1, a1, a2, a3⟩ := h1
  obtain ⟨n2, b1, b2, b3⟩ := h2
  refine ⟨n1 ++ n2, by rw [b1, a1, List.append_assoc], ?_, ?_⟩
  · rw [List.all_append, a2, b2]; rfl
  · rw [List.flatMap_append, a3, b3]

theorem StepO.entry (f : Bytes → Bytes) (inp : Bytes) (st : Nat × List Entry) (t : CTbl) (path : List CKey)
    (a : Bool) (hd : t.dotted = false) :
    StepO f inp st (t.pos.getD st.1, st.2 ++ [⟨t.pos.getD st.1, t, path, a⟩]) (hdN f inp t path a) := by
  refine ⟨[⟨t.pos.getD st.1, t, path, a⟩], rfl, ?_, by simp⟩
  simp only [List.all_cons, List.all_nil, Bool.and_true, posOk, hd, Bool.not_false, Bool.true_and]
  cases t.pos <;> simp

mutual
theorem visitTbl_stepO (f : Bytes → Bytes) (inp : Bytes) : ∀ (t : CTbl) (path : List CKey) (a : Bool)
    (st : Nat × List Entry), StepO f inp st (visitTbl t path a st) (nsTbl f inp t path a)
  | .mk items imp dot p dec sp, path, a, st => by
    rw [visitTbl, nsTbl]
    cases dot with
    | true =>
      simp only [if_true, hdN, CTbl.dotted, List.nil_append]
      exact visitItems_stepO f inp items path st
    | false =>
      simp only [Bool.false_eq_true, if_false]
      exact (StepO.entry f inp st (.mk items imp false p dec sp) path a rfl).trans
        (visitItems_stepO f inp items path _)
theorem visitItems_stepO (f : Bytes → Bytes) (inp : Bytes) : ∀ (items : List (CKey × CItem)) (path : List CKey)
    (st : Nat × List Entry), StepO f inp st (visitItems items path st) (nsItems f inp items path)
  | [], _, st => by rw [visitItems, nsItems]; exact StepO.refl f inp st
  | (k, .table t) :: r, path, st => by
    rw [visitItems, nsItems]
    exact (visitTbl_stepO f inp t (path ++ [k]) false st).trans (visitItems_stepO f inp r path _)
  | (k, .aot ts sp) :: r, path, st => by
    rw [visitItems, nsItems]
    exact (visitAot_stepO f inp ts (path ++ [k]) st).trans (visitItems_stepO f inp r path _)
  | (k, .value v) :: r, path, st => by
    rw [visitItems, nsItems]
    exact visitItems_stepO f inp r path st
theorem visitAot_stepO (f : Bytes → Bytes) (inp : Bytes) : ∀ (ts : List CTbl) (path : List CKey)
    (st : Nat × List Entry), StepO f inp st (visitAot ts path st) (nsAot f inp ts path)
  | [], _, st => by rw [visitAot, nsAot]; exact StepO.refl f inp st
  | t :: r, path, st => by
    rw [visitAot, nsAot]
    exact (visitTbl_stepO f inp t path true st).trans (visitAot_stepO f inp r path _)
end

/-- the entries that are kept: those of tables with a recorded position -/
def keepE (e : Entry) : Bool := e.tbl.pos.isSome

theorem invis_text (f : Bytes → Bytes) (inp : Bytes) (t : CTbl) (path : List CKey) (a : Bool)
    (h : invis t a = true) : entText f inp t path a = [] := by
  simp only [invis, Bool.and_eq_true, Bool.not_eq_true', List.isEmpty_iff] at h
  obtain ⟨⟨ha, hi⟩, hv⟩ := h
  subst ha
  simp [entText, visitTable, hi, hv, encodeBody]

/-- one entry against its summary -/
theorem entry_facts (f : Bytes → Bytes) (inp : Bytes) (e : Entry) (hp : posOk e = true)
    (hfl : ∀ x ∈ hdN f inp e.tbl e.path e.isArr, x.2.1 = true) :
    entOk e = true ∧ (keepE e = false → entText f inp e.tbl e.path e.isArr = []) ∧
    ([e].filter keepE).map (toPair f inp) = pairsN (hdN f inp e.tbl e.path e.isArr) := by
  obtain ⟨q0, t, path, a⟩ := e
  simp only [posOk, Bool.and_eq_true, Bool.not_eq_true'] at hp
  obtain ⟨hd, hp⟩ := hp
  simp only [] at hd hp hfl ⊢
  simp only [hdN, hd, Bool.false_eq_true, if_false] at hfl ⊢
  cases hpos : t.pos with
  | some q =>
    rw [hpos] at hp hfl
    simp only [beq_iff_eq] at hp
    subst hp
    have hpre := hfl (q0, t.decor.pre.isSome, entText f inp t path a) (by simp)
    simp only [] at hpre
    refine ⟨by simp [entOk, hpre], ?_, ?_⟩
    · intro hk; simp [keepE, hpos] at hk
    · simp [keepE, hpos, toPair, pairsN]
  | none =>
    rw [hpos] at hfl
    simp only [] at hfl ⊢
    cases hi : invis t a with
    | false =>
      rw [hi] at hfl
      have := hfl (0, false, []) (by simp)
      simp at this
    | true =>
      refine ⟨?_, fun _ => invis_text f inp t path a hi, ?_⟩
      · simp only [invis] at hi
        simp [entOk, hi]
      · simp [keepE, hpos, pairsN]

/-- the new entries of a walk against their summary -/
theorem entries_facts (f : Bytes → Bytes) (inp : Bytes) : ∀ (new : List Entry), new.all posOk = true →
    (∀ x ∈ new.flatMap (fun e => hdN f inp e.tbl e.path e.isArr), x.2.1 = true) →
    new.all entOk = true ∧ (∀ e ∈ new, keepE e = false → entText f inp e.tbl e.path e.isArr = []) ∧
    (new.filter keepE).map (toPair f inp) = pairsN (new.flatMap (fun e => hdN f inp e.tbl e.path e.isArr))
  | [], _, _ => ⟨rfl, fun _ h => by simp at h, rfl⟩
  | e :: r, hp, hfl => by
    simp only [List.all_cons, Bool.and_eq_true] at hp
    simp only [List.flatMap_cons, List.mem_append] at hfl
    obtain ⟨a1, a2, a3⟩ := entry_facts f inp e hp.1 (fun x hx => hfl x (Or.inl hx))
    obtain ⟨b1, b2, b3⟩ := entries_facts f inp r hp.2 (fun x hx => hfl x (Or.inr hx))
    refine ⟨by simp [a1, b1], ?_, ?_⟩
    · intro x hx hk
      rcases List.mem_cons.1 hx with hx | hx
      · subst hx; exact a2 hk
      · exact b2 x hx hk
    · have : (e :: r).filter keepE = [e].filter keepE ++ r.filter keepE := by
        rw [← List.filter_append]; rfl
      rw [this, List.map_append, a3, b3, List.flatMap_cons, pairsN_append]

/-- the printer on a document whose root carries no decor and no position and whose summary has
    all flags set: the root body, the sections in position order, the trailing text -/
theorem printDocG_ord (f : Bytes → Bytes) (inp : Bytes) (d : CDoc) (h1 : d.root.decor.pre = none)
    (h2 : d.root.decor.suf = none) (h3 : d.root.pos = none) (h4 : d.root.dotted = false)
    (hN : ∀ x ∈ nsItems f inp d.root.items [], x.2.1 = true) :
    printDocG f inp d = rootTextO f inp d.root ++ encRaw f inp d.trailing := by
  obtain ⟨root, tr⟩ := d
  obtain ⟨items, imp, dot, p, dec, sp⟩ := root
  simp only [CTbl.pos, CTbl.dotted, CTbl.items] at h3 h4 hN
  subst h3; subst h4
  unfold printDocG rootTextO
  simp only [prefixEncode, suffixEncode, h1, h2, List.nil_append, List.append_nil, CTbl.items]
  congr 1
  rw [visitTbl]
  simp only [Bool.false_eq_true, if_false, Option.getD_none, List.nil_append]
  obtain ⟨new, e1, e2, e3⟩ := visitItems_stepO f inp items []
    (0, [⟨0, .mk items imp false none dec sp, [], false⟩])
  rw [e1]
  simp only [List.singleton_append]
  rw [← e3] at hN
  obtain ⟨b1, b2, b3⟩ := entries_facts f inp new e2 hN
  rw [sortEntries_first _ _ rfl, visitTables_entOk]
  · simp only [entsText]
    rw [entsText_sort_filter f inp keepE new b2, b3, e3]
  · simp only [List.all_cons, Bool.and_eq_true]
    exact ⟨by simp [entOk], by rw [sortEntries_all]; exact b1⟩

end TomlVerif.Lemmas.Tiling03More
