import TomlVerif.Lemmas.Tiling03MoreCmtVInv
/-! C03, "every comment is kept" — the parser side for tables: the root of every parsed document
    satisfies `TDc` (implicit and dotted tables carry the default decor; values stored directly in
    tables are not dotted inline tables and satisfy `VD`; elements of arrays of tables are not
    dotted) and is not dotted.  Same walk through the parse state as `Refine08cTop.lean`. -/
namespace TomlVerif.Lemmas.Tiling03More
open TomlVerif TomlVerif.Spec TomlVerif.Model TomlVerif.Model.Strings TomlVerif.Model.Value
open TomlVerif.Model.Cst TomlVerif.Model.Encode TomlVerif.Lemmas.Cst03
open TomlVerif.Lemmas.Refine08c TomlVerif.Lemmas.Spans14

/-- an invisible table has no decor to lose -/
def DecRule (t : CTbl) : Prop := (t.implicit = true ∨ t.dotted = true) → t.decor = {}

def ItemD : CItem → Prop
  | .value v => notDottedInl v = true ∧ VD v
  | .table t => TDc t
  | .aot ts _ => TsDc ts

theorem IDc_iff (l : List (CKey × CItem)) : IDc l ↔ AllKV (fun _ => True) ItemD l := by
  induction l with
  | nil => simp [IDc, AllKV]
  | cons kv r ih =>
    obtain ⟨k, it⟩ := kv
    rw [AllKV.cons, ← ih]
    cases it <;> simp [IDc, ItemD]

theorem TsDc_iff (l : List CTbl) : TsDc l ↔ ∀ t ∈ l, t.dotted = false ∧ TDc t := by
  induction l with
  | nil => simp [TsDc]
  | cons t r ih => simp [TsDc, ih]

theorem TDc_iff (t : CTbl) : TDc t ↔ DecRule t ∧ AllKV (fun _ => True) ItemD t.items := by
  cases t
  simp only [TDc, IDc_iff, CTbl.items, DecRule, CTbl.implicit, CTbl.dotted, CTbl.decor]

theorem TDc_setItems (t : CTbl) (items : List (CKey × CItem)) :
    TDc (t.setItems items) ↔ DecRule t ∧ AllKV (fun _ => True) ItemD items := by
  cases t
  simp only [CTbl.setItems, TDc, IDc_iff, DecRule, CTbl.implicit, CTbl.dotted, CTbl.decor]

theorem TDc_setSpan (t : CTbl) (sp : Option Span) : TDc (t.setSpan sp) ↔ TDc t := by
  cases t
  simp only [CTbl.setSpan, CTbl.items, CTbl.implicit, CTbl.dotted, CTbl.pos, CTbl.decor, TDc]

theorem setItems_dotted (t : CTbl) (items : List (CKey × CItem)) : (t.setItems items).dotted = t.dotted := by
  cases t; rfl

theorem setSpan_dotted (t : CTbl) (sp : Option Span) : (t.setSpan sp).dotted = t.dotted := by
  cases t; rfl

theorem TDc_newImplicit (d : Bool) : TDc (newImplicit d) := by
  simp [newImplicit, TDc, IDc]

theorem TDc_empty : TDc CTbl.empty := by
  simp [CTbl.empty, TDc, IDc]

theorem entry_dc {t : CTbl} (ht : TDc t) (k : Bytes) (dotted : Bool) :
    ItemD ((clookup k t.items).getD (.table (newImplicit dotted))) := by
  cases hl : clookup k t.items with
  | none => exact TDc_newImplicit dotted
  | some e => exact AllKV.lookup ((TDc_iff _).1 ht).2 hl

theorem descend_dc (f : CTbl → Option CTbl)
    (hf : ∀ u u', TDc u → f u = some u' → TDc u' ∧ u'.dotted = u.dotted) :
    ∀ (path : List CKey) (t : CTbl) (dotted : Bool) (t' : CTbl),
      TDc t → descend t path dotted f = some t' → TDc t' ∧ t'.dotted = t.dotted := by
  intro path
  induction path with
  | nil =>
    intro t dotted t' ht h
    unfold descend at h
    exact hf _ _ ht h
  | cons k ks ih =>
    intro t dotted t' ht h
    have hent := entry_dc ht k.key dotted
    have ht2 := (TDc_iff _).1 ht
    unfold descend at h
    simp only [] at h
    generalize (clookup k.key t.items).getD (.table (newImplicit dotted)) = entry at h hent
    cases entry with
    | value v => cases h
    | aot ts sp =>
      simp only [] at h
      split at h
      · cases h
      · split at h
        · rename_i ts' hml
          injection h with h; subst h
          obtain ⟨init, l, l', e1, hfl, e2⟩ := modifyLast_some hml
          subst e1; subst e2
          have hts := (TsDc_iff _).1 hent
          have hl := hts l (by simp)
          have hl' := ih _ _ _ hl.2 hfl
          refine ⟨?_, setItems_dotted _ _⟩
          rw [TDc_setItems]
          refine ⟨ht2.1, AllKV.cset ht2.2 trivial ?_⟩
          show TsDc _
          rw [TsDc_iff]
          intro x hx
          rcases List.mem_append.1 hx with hx | hx
          · exact hts x (List.mem_append_left _ hx)
          · simp at hx; subst hx; exact ⟨hl'.2.trans hl.1, hl'.1⟩
        · cases h
    | table sub =>
      simp only [] at h
      split at h
      · cases h
      · split at h
        · rename_i sub' hsub
          injection h with h; subst h
          have hs' : ItemD (.table sub') := (ih _ _ _ hent hsub).1
          refine ⟨?_, setItems_dotted _ _⟩
          rw [TDc_setItems]
          exact ⟨ht2.1, AllKV.cset ht2.2 trivial hs'⟩
        · cases h

theorem findTable_dc (key : Bytes) : ∀ (path : List CKey) (t x : CTbl), TDc t →
    findTable key t path = some x → TDc x := by
  intro path
  induction path with
  | nil =>
    intro t x ht h
    unfold findTable at h
    split at h
    · rename_i y hl
      injection h with h; subst h
      have hent : ItemD (.table y) := AllKV.lookup ((TDc_iff _).1 ht).2 hl
      exact hent
    · cases h
  | cons k ks ih =>
    intro t x ht h
    unfold findTable at h
    split at h
    · rename_i sub hl
      have hent : ItemD (.table sub) := AllKV.lookup ((TDc_iff _).1 ht).2 hl
      exact ih _ _ hent h
    · rename_i ts sp hl
      have hent : ItemD (.aot ts sp) := AllKV.lookup ((TDc_iff _).1 ht).2 hl
      split at h
      · rename_i l rest hrev
        have hmem : l ∈ ts := by
          have : l ∈ ts.reverse := by rw [hrev]; simp
          simpa using this
        exact ih _ _ ((TsDc_iff _).1 hent l hmem).2 h
      · cases h
    · cases h

/-- the invariant of the parse state: root and current table -/
structure DInv (st : CState) : Prop where
  root : TDc st.root
  cur : TDc st.current
  rootnd : st.root.dotted = false
  curnd : st.current.dotted = false

theorem DInv.init : DInv {} :=
  ⟨TDc_empty, by simp [TDc, IDc], rfl, rfl⟩

theorem onWs_dinv {st : CState} {a b : Nat} (h : DInv st) : DInv (onWs st a b) := by
  unfold onWs
  split <;> exact ⟨h.root, h.cur, h.rootnd, h.curnd⟩

theorem onKeyval_dinv {st st' : CState} {path : List CKey} {key : CKey} {v : CVal}
    (hinv : DInv st) (hv : notDottedInl v = true) (hvd : VD v) (h : onKeyval st path key v = some st') : DInv st' := by
  rw [onKeyval_eq] at h
  obtain ⟨c, hc, rfl⟩ := map_some h
  have hcur : TDc (kvCur st v) ∧ (kvCur st v).dotted = false := by
    unfold kvCur
    split
    · rw [TDc_setSpan, setSpan_dotted]; exact ⟨hinv.cur, hinv.curnd⟩
    · exact ⟨hinv.cur, hinv.curnd⟩
  have hf : ∀ u u', TDc u → kvF (kvKey st key) v path u = some u' → TDc u' ∧ u'.dotted = u.dotted := by
    intro u u' hu hfu
    unfold kvF at hfu
    split at hfu
    · cases hfu
    · split at hfu
      · cases hfu
      · injection hfu with hfu; subst hfu
        refine ⟨?_, setItems_dotted _ _⟩
        rw [TDc_setItems]
        have hu2 := (TDc_iff _).1 hu
        exact ⟨hu2.1, hu2.2.append (AllKV.single trivial ⟨hv, hvd⟩)⟩
  have hres := descend_dc _ hf path _ true c hcur.1 hc
  exact ⟨hinv.root, hres.1, hinv.rootnd, hres.2.trans hcur.2⟩

theorem finalizeTable_dc {st st' : CState} (hinv : DInv st) (h : finalizeTable st = some st') :
    TDc st'.root ∧ st'.root.dotted = false ∧ st'.current = CTbl.empty := by
  unfold finalizeTable at h
  simp only [] at h
  split at h
  · split at h
    · injection h with h; subst h
      exact ⟨hinv.cur, hinv.curnd, rfl⟩
    · cases h
  · rename_i parentPath key hsl
    split at h
    · obtain ⟨root', hd, rfl⟩ := map_some h
      have hres : TDc root' ∧ root'.dotted = st.root.dotted := by
        refine descend_dc _ ?_ parentPath _ false root' hinv.root hd
        intro u u' hu hfu
        have hu1 := (TDc_iff _).1 hu
        have hent : ItemD ((clookup key.key u.items).getD (.aot [] none)) := by
          cases hl : clookup key.key u.items with
          | none => exact (trivial : TsDc [])
          | some e => exact AllKV.lookup hu1.2 hl
        generalize (clookup key.key u.items).getD (.aot [] none) = entry at hfu hent
        cases entry with
        | value v => cases hfu
        | table t => cases hfu
        | aot ts sp =>
          simp only [] at hfu
          injection hfu with hfu; subst hfu
          have hts := (TsDc_iff _).1 hent
          refine ⟨?_, setItems_dotted _ _⟩
          rw [TDc_setItems]
          refine ⟨hu1.1, AllKV.cset hu1.2 trivial ?_⟩
          show TsDc _
          rw [TsDc_iff]
          intro x hx
          rcases List.mem_append.1 hx with hx | hx
          · exact hts x hx
          · simp at hx; subst hx; exact ⟨hinv.curnd, hinv.cur⟩
      exact ⟨hres.1, hres.2.trans hinv.rootnd, rfl⟩
    · obtain ⟨root', hd, rfl⟩ := map_some h
      have hres : TDc root' ∧ root'.dotted = st.root.dotted := by
        refine descend_dc _ ?_ parentPath _ false root' hinv.root hd
        intro u u' hu hfu
        have hu1 := (TDc_iff _).1 hu
        have hcur : ItemD (.table st.current) := hinv.cur
        split at hfu
        · split at hfu
          · injection hfu with hfu; subst hfu
            refine ⟨?_, setItems_dotted _ _⟩
            rw [TDc_setItems]
            exact ⟨hu1.1, AllKV.creplace hu1.2 hcur⟩
          · cases hfu
        · cases hfu
        · injection hfu with hfu; subst hfu
          refine ⟨?_, setItems_dotted _ _⟩
          rw [TDc_setItems]
          exact ⟨hu1.1, hu1.2.append (AllKV.single trivial hcur)⟩
      exact ⟨hres.1, hres.2.trans hinv.rootnd, rfl⟩

theorem TDc_header (items : List (CKey × CItem)) (p : Option Nat) (dec : Decor) (sp : Option Span)
    (h : AllKV (fun _ => True) ItemD items) : TDc (.mk items false false p dec sp) := by
  simp only [TDc, IDc_iff]
  refine ⟨?_, h⟩
  intro hh
  rcases hh with hh | hh <;> cases hh

theorem startTable_dc {st st' : CState} {path : List CKey} {decor : Decor} {span : Span}
    (hroot : TDc st.root) (hrnd : st.root.dotted = false) (hcur : TDc st.current)
    (h : startTable st path decor span = some st') : DInv st' := by
  unfold startTable at h
  split at h
  · cases h
  · rename_i parentPath key hsl
    simp only [] at h
    split at h
    · cases h
    · split at h
      · cases h
      · rename_i root' hd
        injection h with h; subst h
        have hroot' : TDc root' ∧ root'.dotted = st.root.dotted := by
          refine descend_dc _ ?_ parentPath _ false root' hroot hd
          intro u u' hu hfu
          injection hfu with hfu; subst hfu
          refine ⟨?_, setItems_dotted _ _⟩
          rw [TDc_setItems]
          have hu1 := (TDc_iff _).1 hu
          exact ⟨hu1.1, AllKV.cerase hu1.2⟩
        have hbase : TDc ((findTable key.key st.root parentPath).getD st.current) := by
          cases hf : findTable key.key st.root parentPath with
          | none => exact hcur
          | some x => exact findTable_dc _ _ _ _ hroot hf
        exact ⟨hroot'.1, TDc_header _ _ _ _ ((TDc_iff _).1 hbase).2, hroot'.2.trans hrnd, rfl⟩

theorem startArrayTable_dc {st st' : CState} {path : List CKey} {decor : Decor} {span : Span}
    (hroot : TDc st.root) (hrnd : st.root.dotted = false) (hcur : TDc st.current)
    (h : startArrayTable st path decor span = some st') : DInv st' := by
  unfold startArrayTable at h
  split at h
  · cases h
  · rename_i parentPath key hsl
    simp only [] at h
    split at h
    · cases h
    · rename_i root' hd
      injection h with h; subst h
      have hroot' : TDc root' ∧ root'.dotted = st.root.dotted := by
        refine descend_dc _ ?_ parentPath _ false root' hroot hd
        intro u u' hu hfu
        split at hfu
        · injection hfu with hfu; subst hfu
          exact ⟨hu, rfl⟩
        · cases hfu
        · injection hfu with hfu; subst hfu
          refine ⟨?_, setItems_dotted _ _⟩
          rw [TDc_setItems]
          have hu1 := (TDc_iff _).1 hu
          exact ⟨hu1.1, hu1.2.append (AllKV.single trivial (trivial : TsDc []))⟩
      exact ⟨hroot'.1, TDc_header _ _ _ _ ((TDc_iff _).1 hcur).2, hroot'.2.trans hrnd, rfl⟩

theorem onStdHeader_dinv {st st' : CState} {path : List CKey} {trailing : Raw} {span : Span}
    (hinv : DInv st) (h : onStdHeader st path trailing span = some st') : DInv st' := by
  unfold onStdHeader at h
  split at h
  · rename_i st1 hfin
    obtain ⟨hroot, hrnd, hcur⟩ := finalizeTable_dc hinv hfin
    simp only [] at h
    refine startTable_dc (st := { st1 with trailing := none }) hroot hrnd ?_ h
    show TDc st1.current
    rw [hcur]; exact TDc_empty
  · cases h

theorem onArrayHeader_dinv {st st' : CState} {path : List CKey} {trailing : Raw} {span : Span}
    (hinv : DInv st) (h : onArrayHeader st path trailing span = some st') : DInv st' := by
  unfold onArrayHeader at h
  split at h
  · rename_i st1 hfin
    obtain ⟨hroot, hrnd, hcur⟩ := finalizeTable_dc hinv hfin
    simp only [] at h
    refine startArrayTable_dc (st := { st1 with trailing := none }) hroot hrnd ?_ h
    show TDc st1.current
    rw [hcur]; exact TDc_empty
  · cases h

/-! ### the line driver -/

theorem ctableLine_dinv {n : Nat} {st st' : CState} {s r : Bytes} (hinv : DInv st)
    (h : ctableLine n st s = some (st', r)) : DInv st' := by
  unfold ctableLine at h
  split at h
  · split at h
    · split at h
      · split at h
        · obtain ⟨st1, hst1, heq⟩ := map_some h
          injection heq with e1 e2; subst e1
          exact onArrayHeader_dinv hinv hst1
        · cases h
      · cases h
    · cases h
  · split at h
    · cases h
    · split at h
      · split at h
        · split at h
          · obtain ⟨st1, hst1, heq⟩ := map_some h
            injection heq with e1 e2; subst e1
            exact onStdHeader_dinv hinv hst1
          · cases h
        · cases h
      · cases h
  · cases h

theorem ckeyvalLine_dinv {n : Nat} {st st' : CState} {s r : Bytes} (hinv : DInv st)
    (h : ckeyvalLine n st s = some (st', r)) : DInv st' := by
  unfold ckeyvalLine at h
  split at h
  · split at h
    · cases h
    · split at h
      · simp only [] at h
        split at h
        · rename_i v r2 hv
          have hvv := cvalue_notDotted _ _ _ _ _ _ hv
          have hvd := cvalue_VD _ _ _ _ _ _ hv
          split at h
          · split at h
            · obtain ⟨st1, hst1, heq⟩ := map_some h
              injection heq with e1 e2; subst e1
              refine onKeyval_dinv hinv ?_ ?_ hst1
              · rw [notDottedInl_setDecor]; exact hvv
              · rw [VD_setDecor]; exact hvd
            · cases h
          · cases h
        · cases h
      · cases h
  · cases h

theorem parseWs_dinv {n : Nat} {st : CState} {s : Bytes} (hinv : DInv st) : DInv (parseWs n st s).1 :=
  onWs_dinv hinv

theorem clines_dinv (n : Nat) : ∀ (fuel : Nat) (st : CState) (s : Bytes) (st' : CState),
    DInv st → clines n fuel st s = some st' → DInv st' := by
  intro fuel
  induction fuel with
  | zero => intro st s st' _ h; unfold clines at h; cases h
  | succ fuel ih =>
    intro st s st' hinv h
    unfold clines at h
    split at h
    · injection h with h; subst h; exact hinv
    · rename_i b r
      split at h
      · simp only [] at h
        split at h
        · injection h with h; subst h
          exact parseWs_dinv (onWs_dinv hinv)
        · split at h
          · exact ih _ _ _ (parseWs_dinv (onWs_dinv hinv)) h
          · cases h
      · split at h
        · split at h
          · rename_i st1 r1 hline
            exact ih _ _ _ (parseWs_dinv (ctableLine_dinv hinv hline)) h
          · cases h
        · split at h
          · split at h
            · exact ih _ _ _ (parseWs_dinv (onWs_dinv hinv)) h
            · cases h
          · split at h
            · rename_i st1 r1 hline
              exact ih _ _ _ (parseWs_dinv (ckeyvalLine_dinv hinv hline)) h
            · cases h

/-- **the tree of a parsed document: an invisible table has no decor to lose**, dotted inline
    tables are bare and occur only inside inline tables, elements of arrays of tables and the
    root are not dotted -/
theorem parseCst_dc (s : Bytes) (d : CDoc) (h : parseCst s = some d) : TDc d.root ∧ d.root.dotted = false := by
  unfold parseCst at h
  simp only [] at h
  split at h
  · rename_i st hcl
    have h1 : DInv (parseWs s.length {} (Doc.stripBom s)).1 := parseWs_dinv DInv.init
    have h2 := clines_dinv _ _ _ _ _ h1 hcl
    unfold intoDocument at h
    split at h
    · rename_i st1 hfin
      injection h with h; subst h
      have := finalizeTable_dc h2 hfin
      exact ⟨this.1, this.2.1⟩
    · cases h
  · cases h

end TomlVerif.Lemmas.Tiling03More
