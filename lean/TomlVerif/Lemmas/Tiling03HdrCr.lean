import TomlVerif.Lemmas.Tiling03HdrRel
/-! Printer-side relation between the real printer (`f = stripCr`) and the verbatim concatenation
    (`f = id`): the former is the latter with some CR bytes deleted (`DropCr`). No parser involved;
    structural induction over the printer of `Model/Encode.lean`. -/
namespace TomlVerif.Lemmas.Tiling03Hdr
open TomlVerif TomlVerif.Model TomlVerif.Model.Cst TomlVerif.Model.Encode TomlVerif.Lemmas.Cst03

theorem encRaw_dropCr (inp : Bytes) (r : Raw) :
    DropCr (encRaw stripCr inp r) (encRaw id inp r) := by
  simp only [encRaw, id]; exact DropCr.stripCr _

theorem prefixEncode_dropCr (inp : Bytes) (d : Decor) (dflt : Bytes) :
    DropCr (prefixEncode stripCr inp d dflt) (prefixEncode id inp d dflt) := by
  unfold prefixEncode
  cases d.pre with
  | none => exact DropCr.refl _
  | some r => exact encRaw_dropCr inp r

theorem suffixEncode_dropCr (inp : Bytes) (d : Decor) (dflt : Bytes) :
    DropCr (suffixEncode stripCr inp d dflt) (suffixEncode id inp d dflt) := by
  unfold suffixEncode
  cases d.suf with
  | none => exact DropCr.refl _
  | some r => exact encRaw_dropCr inp r

theorem encodeKeyPathAux_dropCr (inp : Bytes) (leaf : Decor) (dp ds : Bytes) :
    ∀ (ks : List CKey) (first : Bool),
      DropCr (encodeKeyPathAux stripCr inp leaf dp ds first ks)
             (encodeKeyPathAux id inp leaf dp ds first ks)
  | [], first => by simp only [encodeKeyPathAux]; exact DropCr.nil
  | k :: rest, first => by
    simp only [encodeKeyPathAux]
    refine DropCr.append (DropCr.append (DropCr.append ?_ (DropCr.refl _)) ?_)
      (encodeKeyPathAux_dropCr inp leaf dp ds rest false)
    · cases first
      · exact DropCr.append (DropCr.refl _) (prefixEncode_dropCr inp _ _)
      · exact prefixEncode_dropCr inp _ _
    · cases rest.isEmpty
      · exact suffixEncode_dropCr inp _ _
      · exact suffixEncode_dropCr inp _ _

theorem encodeKeyPath_dropCr (inp : Bytes) (ks : List CKey) (dp ds : Bytes) :
    DropCr (encodeKeyPath stripCr inp ks dp ds) (encodeKeyPath id inp ks dp ds) := by
  unfold encodeKeyPath
  cases ks.getLast? with
  | none => exact DropCr.nil
  | some l => exact encodeKeyPathAux_dropCr inp l.leaf dp ds ks true

/-- the shape of one non-dotted entry of `encodeInl` -/
private theorem inlEntry_dropCr (inp : Bytes) (i len : Nat) (kp : List CKey) (v : CVal)
    (hv : ∀ dp ds, DropCr (encodeValue stripCr inp v dp ds) (encodeValue id inp v dp ds)) :
    DropCr
      ((if i != 0 then [0x2C] else []) ++ encodeKeyPath stripCr inp kp [0x20] [0x20] ++ [0x3D]
        ++ encodeValue stripCr inp v [0x20] (if i + 1 == len then [0x20] else []))
      ((if i != 0 then [0x2C] else []) ++ encodeKeyPath id inp kp [0x20] [0x20] ++ [0x3D]
        ++ encodeValue id inp v [0x20] (if i + 1 == len then [0x20] else [])) :=
  DropCr.append (DropCr.append (DropCr.append (DropCr.refl _) (encodeKeyPath_dropCr inp kp _ _))
    (DropCr.refl _)) (hv _ _)

mutual
theorem encodeValue_dropCr (inp : Bytes) : ∀ (v : CVal) (dp ds : Bytes),
    DropCr (encodeValue stripCr inp v dp ds) (encodeValue id inp v dp ds)
  | .scalar _ repr decor, dp, ds => by
    simp only [encodeValue]
    exact DropCr.append (DropCr.append (prefixEncode_dropCr inp _ _) (DropCr.refl _))
      (suffixEncode_dropCr inp _ _)
  | .arr items trailing comma decor _, dp, ds => by
    simp only [encodeValue]
    exact DropCr.append (DropCr.append (DropCr.append (DropCr.append (DropCr.append (DropCr.append
      (prefixEncode_dropCr inp _ _) (DropCr.refl _)) (encodeElems_dropCr inp items true))
      (DropCr.refl _)) (encRaw_dropCr inp _)) (DropCr.refl _)) (suffixEncode_dropCr inp _ _)
  | .inl items preamble _ _ decor _, dp, ds => by
    simp only [encodeValue]
    exact DropCr.append (DropCr.append (DropCr.append (DropCr.append (DropCr.append
      (prefixEncode_dropCr inp _ _) (DropCr.refl _)) (encRaw_dropCr inp _))
      (encodeInl_dropCr inp items [] 0 (countInl items)).2) (DropCr.refl _))
      (suffixEncode_dropCr inp _ _)
theorem encodeElems_dropCr (inp : Bytes) : ∀ (l : List CVal) (first : Bool),
    DropCr (encodeElems stripCr inp l first) (encodeElems id inp l first)
  | [], _ => by simp only [encodeElems]; exact DropCr.nil
  | v :: r, first => by
    simp only [encodeElems]
    refine DropCr.append ?_ (encodeElems_dropCr inp r false)
    cases first
    · exact DropCr.append (DropCr.refl _) (encodeValue_dropCr inp v _ _)
    · exact encodeValue_dropCr inp v _ _
theorem encodeInl_dropCr (inp : Bytes) : ∀ (l : List (CKey × CVal)) (parent : List CKey) (i len : Nat),
    (encodeInl stripCr inp l parent i len).2 = (encodeInl id inp l parent i len).2 ∧
    DropCr (encodeInl stripCr inp l parent i len).1 (encodeInl id inp l parent i len).1
  | [], _, i, _ => by rw [encodeInl, encodeInl]; exact ⟨rfl, DropCr.nil⟩
  | (k, .inl sub pre imp dot dec sp) :: r, parent, i, len => by
    by_cases hdot : dot = true
    · subst hdot
      have h1 := encodeInl_dropCr inp sub (parent ++ [k]) i len
      have h2 := encodeInl_dropCr inp r parent (encodeInl id inp sub (parent ++ [k]) i len).2 len
      simp only [encodeInl, if_true]
      rw [h1.1]
      exact ⟨h2.1, DropCr.append h1.2 h2.2⟩
    · have hd : dot = false := by cases dot <;> simp_all
      subst hd
      have h2 := encodeInl_dropCr inp r parent (i + 1) len
      have hv := encodeValue_dropCr inp (.inl sub pre imp false dec sp)
      rw [encodeInl, encodeInl]
      simp only [Bool.false_eq_true, if_false]
      exact ⟨h2.1, DropCr.append (inlEntry_dropCr inp i len _ _ hv) h2.2⟩
  | (k, .scalar a b c) :: r, parent, i, len => by
    have h2 := encodeInl_dropCr inp r parent (i + 1) len
    have hv := encodeValue_dropCr inp (.scalar a b c)
    rw [encodeInl, encodeInl]
    exact ⟨h2.1, DropCr.append (inlEntry_dropCr inp i len _ _ hv) h2.2⟩
  | (k, .arr a b c d e) :: r, parent, i, len => by
    have h2 := encodeInl_dropCr inp r parent (i + 1) len
    have hv := encodeValue_dropCr inp (.arr a b c d e)
    rw [encodeInl, encodeInl]
    exact ⟨h2.1, DropCr.append (inlEntry_dropCr inp i len _ _ hv) h2.2⟩
end

theorem encodeBody_dropCr (inp : Bytes) : ∀ (l : List (List CKey × CVal)),
    DropCr (encodeBody stripCr inp l) (encodeBody id inp l)
  | [] => by simp only [encodeBody]; exact DropCr.nil
  | (kp, v) :: r => by
    simp only [encodeBody]
    exact DropCr.append (DropCr.append (DropCr.append (DropCr.append
      (encodeKeyPath_dropCr inp kp _ _) (DropCr.refl _)) (encodeValue_dropCr inp v _ _))
      (DropCr.refl _)) (encodeBody_dropCr inp r)

theorem visitTable_snd_eq (inp : Bytes) (e : Entry) (ft : Bool) :
    (visitTable stripCr inp e ft).2 = (visitTable id inp e ft).2 := by
  simp only [visitTable]
  split
  · rfl
  · split
    · rfl
    · split <;> rfl

theorem visitTable_dropCr (inp : Bytes) (e : Entry) (ft : Bool) :
    DropCr (visitTable stripCr inp e ft).1 (visitTable id inp e ft).1 := by
  simp only [visitTable]
  refine DropCr.append ?_ (encodeBody_dropCr inp _)
  split
  · exact DropCr.nil
  · split
    · exact DropCr.append (DropCr.append (DropCr.append (DropCr.append (DropCr.append
        (prefixEncode_dropCr inp _ _) (DropCr.refl _)) (encodeKeyPath_dropCr inp _ _ _))
        (DropCr.refl _)) (suffixEncode_dropCr inp _ _)) (DropCr.refl _)
    · split
      · exact DropCr.append (DropCr.append (DropCr.append (DropCr.append (DropCr.append
          (prefixEncode_dropCr inp _ _) (DropCr.refl _)) (encodeKeyPath_dropCr inp _ _ _))
          (DropCr.refl _)) (suffixEncode_dropCr inp _ _)) (DropCr.refl _)
      · exact DropCr.nil

theorem visitTables_dropCr (inp : Bytes) : ∀ (l : List Entry) (ft : Bool),
    DropCr (visitTables stripCr inp l ft) (visitTables id inp l ft)
  | [], _ => by simp only [visitTables]; exact DropCr.nil
  | e :: r, ft => by
    simp only [visitTables]
    rw [visitTable_snd_eq inp e ft]
    exact DropCr.append (visitTable_dropCr inp e ft) (visitTables_dropCr inp r _)

theorem printDocG_dropCr (inp : Bytes) (d : CDoc) :
    DropCr (printDocG stripCr inp d) (printDocG id inp d) := by
  simp only [printDocG]
  exact DropCr.append (DropCr.append (DropCr.append (prefixEncode_dropCr inp _ _)
    (visitTables_dropCr inp _ true)) (suffixEncode_dropCr inp _ _)) (encRaw_dropCr inp _)

theorem printDoc_dropCr_verbatim (inp : Bytes) (d : CDoc) :
    DropCr (printDoc inp d) (verbatimDoc inp d) := printDocG_dropCr inp d

theorem printValue_dropCr_verbatim (inp : Bytes) (v : CVal) :
    DropCr (printValue inp v) (verbatimValue inp v) := encodeValue_dropCr inp v [] []

end TomlVerif.Lemmas.Tiling03Hdr
