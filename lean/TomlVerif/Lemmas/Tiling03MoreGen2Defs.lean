import TomlVerif.Lemmas.Tiling03MoreGenMain
/-! C03, same data — headers THROUGH dotted-key tables: the class `genRun2` = `genRun` with the
    condition `!t.dotted` on the tables of a header's path dropped (`pathOkT2`).  Inclusion
    `genRun ⊆ genRun2`.  (The same-data theorem for `genRun2` is NOT proved here; see
    `Props/C03MoreGen2.lean`.) -/
namespace TomlVerif.Lemmas.Tiling03More.Gen
open TomlVerif TomlVerif.Spec TomlVerif.Model TomlVerif.Model.Strings TomlVerif.Model.Value
open TomlVerif.Model.Cst TomlVerif.Model.Encode TomlVerif.Lemmas.Suffix03 TomlVerif.Lemmas.Cst03
open TomlVerif.Lemmas.LastByte03 TomlVerif.Lemmas.Tiling03 TomlVerif.Lemmas.Tiling03Hdr
open TomlVerif.Lemmas.Tiling03Nest TomlVerif.Lemmas.Tiling03More TomlVerif.Lemmas.Tiling03More.Tko

/-- `pathOkT` without `!t.dotted` for the tables on the path (the parser's own check is on the
    ENTRY named by the last key: implicit and not dotted, or absent) -/
def pathOkT2 (inp : Bytes) (a : Bool) (key : CKey) : CTbl → List CKey → Bool
  | t, [] => (match clookup key.key t.items with
      | none => true
      | some (.aot _ _) => a
      | some (.table t') => !a && t'.implicit && !t'.dotted && segChk inp false key t.items && onlySubs t'.items
      | some (.value _) => false)
  | t, k :: ks => (match clookup k.key t.items with
      | none => true
      | some (.table sub) => pathOkT2 inp a key sub ks
      | some (.aot ts _) =>
          (match ts.reverse with
           | l :: _ => pathOkT2 inp a key l ks
           | [] => false)
      | some (.value _) => false)

def hdrChkT2 (inp : Bytes) (a : Bool) (st1 : CState) (r : Bytes) : Bool :=
  match ckeyPath inp.length r with
  | .ok ks _ =>
    (match splitLast ks with
     | some (pp, key) => pathOkT2 inp a key st1.root pp
     | none => true)
  | _ => true

def hdrLineOkT2 (inp : Bytes) (st : CState) (s : Bytes) : Bool :=
  match finalizeTable st with
  | none => true
  | some st1 =>
    (match s with
     | 0x5B :: 0x5B :: r => hdrChkT2 inp true st1 r
     | _ => true) &&
    (match s with
     | 0x5B :: r => hdrChkT2 inp false st1 r
     | _ => true)

def runOkG2 (inp : Bytes) : Nat → CState → Bytes → Bool
  | 0, _, _ => true
  | fuel + 1, st, s =>
    let n := inp.length
    match s with
    | [] => true
    | b :: r =>
      if b == 0x23 then
        let r1 := dropComment r
        match r1 with
        | [] => true
        | _ => match newline? r1 with
          | some r2 =>
            let (st', r3) := parseWs n (onWs st (pos n s) (pos n r2)) r2
            runOkG2 inp fuel st' r3
          | none => true
      else if b == 0x5B then
        hdrLineOkT2 inp st s &&
        (match ctableLine n st s with
         | some (st', r1) =>
           let (st'', r2) := parseWs n st' r1
           runOkG2 inp fuel st'' r2
         | none => true)
      else if b == 0x0A || b == 0x0D then
        match newline? s with
        | some r1 =>
          let (st', r2) := parseWs n (onWs st (pos n s) (pos n r1)) r1
          runOkG2 inp fuel st' r2
        | none => true
      else
        kvLineOkN inp st s &&
        (match ckeyvalLine n st s with
         | some (st', r1) =>
           let (st'', r2) := parseWs n st' r1
           runOkG2 inp fuel st'' r2
         | none => true)

/-- the class -/
def genRun2 (s : Bytes) : Bool :=
  let n := s.length
  let s0 := Doc.stripBom s
  let (st0, s1) := parseWs n {} s0
  runOkG2 s (s1.length + 1) st0 s1

theorem pathOkT_T2 (inp : Bytes) (a : Bool) (key : CKey) : ∀ (pp : List CKey) (t : CTbl),
    pathOkT inp a key t pp = true → pathOkT2 inp a key t pp = true
  | [], t, h => by
    simp only [pathOkT, Bool.and_eq_true] at h
    simp only [pathOkT2]
    exact h.2
  | k :: ks, t, h => by
    simp only [pathOkT, Bool.and_eq_true] at h
    simp only [pathOkT2]
    have h2 := h.2
    cases hl : clookup k.key t.items with
    | none => rfl
    | some y =>
      rw [hl] at h2
      cases y with
      | value v => simp at h2
      | table sub => exact pathOkT_T2 inp a key ks sub h2
      | aot ts asp =>
        simp only [] at h2 ⊢
        split at h2
        · rename_i l rest hrev
          simp only [hrev]
          exact pathOkT_T2 inp a key ks l h2
        · cases h2

theorem hdrChkT_T2 (inp : Bytes) (a : Bool) (st1 : CState) (r : Bytes) (h : hdrChkT inp a st1 r = true) :
    hdrChkT2 inp a st1 r = true := by
  unfold hdrChkT at h
  unfold hdrChkT2
  split
  · rename_i ks rest hk
    rw [hk] at h
    simp only [] at h ⊢
    split
    · rename_i pp key hsl
      rw [hsl] at h
      exact pathOkT_T2 inp a key pp _ h
    · rfl
  · rfl

theorem hdrLineOkT_T2 (inp : Bytes) (st : CState) (s : Bytes) (h : hdrLineOkT inp st s = true) :
    hdrLineOkT2 inp st s = true := by
  unfold hdrLineOkT at h
  unfold hdrLineOkT2
  split
  · rfl
  · rename_i st1 hfin
    rw [hfin] at h
    simp only [Bool.and_eq_true] at h ⊢
    refine ⟨?_, ?_⟩
    · have h1 := h.1
      split
      · rename_i r; exact hdrChkT_T2 inp true st1 r h1
      · rfl
    · have h2 := h.2
      split
      · rename_i r; exact hdrChkT_T2 inp false st1 r h2
      · rfl

theorem runOkG_G2 (inp : Bytes) : ∀ (fuel : Nat) (st : CState) (s : Bytes),
    runOkG inp fuel st s = true → runOkG2 inp fuel st s = true := by
  intro fuel
  induction fuel with
  | zero => intro st s _; unfold runOkG2; rfl
  | succ fuel ih =>
    intro st s h
    unfold runOkG at h
    unfold runOkG2
    cases s with
    | nil => rfl
    | cons b r =>
      simp only [] at h ⊢
      by_cases hb1 : (b == 0x23) = true
      · simp only [hb1, if_true] at h ⊢
        cases hdc : dropComment r with
        | nil => simp only []
        | cons c1 r1 =>
          simp only [hdc] at h ⊢
          cases hnl : newline? (c1 :: r1) with
          | none => simp only []
          | some r2 =>
            simp only [hnl] at h ⊢
            exact ih _ _ h
      · simp only [hb1, Bool.false_eq_true, if_false] at h ⊢
        by_cases hb2 : (b == 0x5B) = true
        · simp only [hb2, if_true, Bool.and_eq_true] at h ⊢
          refine ⟨hdrLineOkT_T2 inp st _ h.1, ?_⟩
          cases hl : ctableLine inp.length st (b :: r) with
          | none => simp only []
          | some pr =>
            obtain ⟨st', r1⟩ := pr
            have h2 := h.2
            simp only [hl] at h2 ⊢
            exact ih _ _ h2
        · simp only [hb2, Bool.false_eq_true, if_false] at h ⊢
          by_cases hb3 : (b == 0x0A || b == 0x0D) = true
          · simp only [hb3, if_true] at h ⊢
            cases hnl : newline? (b :: r) with
            | none => simp only []
            | some r1 =>
              simp only [hnl] at h ⊢
              exact ih _ _ h
          · simp only [hb3, Bool.false_eq_true, if_false, Bool.and_eq_true] at h ⊢
            refine ⟨h.1, ?_⟩
            cases hl : ckeyvalLine inp.length st (b :: r) with
            | none => simp only []
            | some pr =>
              obtain ⟨st', r1⟩ := pr
              have h2 := h.2
              simp only [hl] at h2 ⊢
              exact ih _ _ h2

theorem genRun_G2 (s : Bytes) (h : genRun s = true) : genRun2 s = true := by
  unfold genRun at h
  unfold genRun2
  simp only [] at h ⊢
  exact runOkG_G2 s _ _ _ h

end TomlVerif.Lemmas.Tiling03More.Gen
