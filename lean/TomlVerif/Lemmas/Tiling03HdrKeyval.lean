import TomlVerif.Lemmas.Tiling03HdrState
/-! The key/value line preserves the invariant of the header case (C03). -/
namespace TomlVerif.Lemmas.Tiling03Hdr
open TomlVerif TomlVerif.Spec TomlVerif.Model TomlVerif.Model.Strings TomlVerif.Model.Value
open TomlVerif.Model.Cst TomlVerif.Model.Encode TomlVerif.Lemmas.Suffix03 TomlVerif.Lemmas.Cst03
open TomlVerif.Lemmas.LastByte03 TomlVerif.Lemmas.Tiling03

theorem kvFn_notSimple (path : List CKey) (key' : CKey) (v : CVal) (p p' : CTbl)
    (h : kvFn path key' v p = some p') (hn : simpleBody p.items = false) : simpleBody p'.items = false := by
  obtain ⟨e, _⟩ := kvFn_facts _ _ _ _ _ h
  subst e
  rw [setItems_items, simpleBody_append, hn]; rfl

theorem kvFn_dotted (path : List CKey) (key' : CKey) (v : CVal) (p p' : CTbl)
    (h : kvFn path key' v p = some p') : p'.dotted = p.dotted := by
  obtain ⟨e, _⟩ := kvFn_facts _ _ _ _ _ h
  subst e; simp

theorem kvFn_nodup (path : List CKey) (key' : CKey) (v : CVal) (p p' : CTbl)
    (h : kvFn path key' v p = some p') (hn : nodupK p.items = true) : nodupK p'.items = true := by
  obtain ⟨e, hl⟩ := kvFn_facts _ _ _ _ _ h
  subst e
  rw [setItems_items]; exact nodupK_snoc _ _ _ hn hl

/-- replacing the body of the current table by another simple body keeps the shape -/
theorem shape_setCurrent (st : CState) (items items' : Items) (imp : Bool) (p : Option Nat) (dec : Decor)
    (sp sp' : Option Span) (h : ShapeA st ∨ ShapeB st) (hc : st.current = .mk items imp false p dec sp)
    (hs : simpleBody items' = true) :
    ShapeA { st with current := .mk items' imp false p dec sp', trailing := none } ∨
    ShapeB { st with current := .mk items' imp false p dec sp', trailing := none } := by
  rcases h with ⟨a1, a2, itemsA, impA, spA, a3, a4⟩ | ⟨key, r0, rimp, rsp, itemsB, q, lead, trail, spB, b1, b2, b3, b4, b5, b6, b7, b8, b9⟩
  · left
    rw [hc] at a3
    injection a3 with e1 e2 e3 e4 e5 e6
    subst e2; subst e4; subst e5
    exact ⟨a1, a2, items', imp, sp', rfl, hs⟩
  · right
    rw [hc] at b7
    injection b7 with e1 e2 e3 e4 e5 e6
    subst e2; subst e4; subst e5
    exact ⟨key, r0, rimp, rsp, items', q, lead, trail, sp', b1, b2, b3, b4, b5, b6, rfl, hs, b9⟩

/-- appending a simple value to the current table appends its line to the printed text -/
theorem stText_append_value (f : Bytes → Bytes) (inp : Bytes) (st : CState) (items : Items) (imp : Bool)
    (p : Option Nat) (dec : Decor) (sp sp' : Option Span) (k : CKey) (v : CVal)
    (hc : st.current = .mk items imp false p dec sp) (hv : simpleVal v = true) :
    stText f inp { st with current := .mk (items ++ [(k, .value v)]) imp false p dec sp', trailing := none }
      = stText f inp st ++ (encodeKeyPath f inp [k] [] [0x20] ++ [0x3D] ++ encodeValue f inp v [0x20] [] ++ [0x0A]) := by
  unfold stText curEntry
  simp only [hc, CTbl.items, CTbl.pos]
  have hb : encodeBody f inp (valuesTbl (items ++ [(k, .value v)]) [])
      = encodeBody f inp (valuesTbl items []) ++ (encodeKeyPath f inp [k] [] [0x20] ++ [0x3D] ++ encodeValue f inp v [0x20] [] ++ [0x0A]) := by
    rw [valuesTbl_append, encodeBody_append, valuesTbl_single k v hv]
    simp [encodeBody]
  split
  · exact hb
  · simp only [sectionText, CTbl.items, CTbl.decor, hb, List.append_assoc]

theorem keyval_step (f : Bytes → Bytes) (inp base : Bytes) (hf : FixOn f inp)
    (st st' : CState) (s r3 : Bytes)
    (h : ckeyvalLine inp.length st s = some (st', r3)) (hI : Inv f inp base st s) :
    Inv f inp base st' r3 := by
  obtain ⟨ks, r1, v, r2, path, key, c, hk, hv, hlt, hsl, hd, he⟩ := keyval_frame _ _ _ _ _ h
  subst he
  obtain ⟨⟨g1, g2, g3⟩, hI⟩ := hI
  obtain ⟨c1, c2, c3, c4, c5⟩ := kvCur_fields st (kvVal inp.length v r1 r2)
  refine ⟨⟨g1, ?_, g3⟩, ?_⟩
  · intro hp
    refine descend_nodup _ _ _ _ _ (fun p p' hp' hn => kvFn_nodup _ _ _ _ _ hp' hn) ?_ hd
    rw [c1]; exact g2 hp
  rcases hI with ⟨hsh, htx⟩ | hB
  · obtain ⟨items, imp, p, dec, sp, hcur, hsimple⟩ := good_current hsh
    have hcm := kvCur_mk st (kvVal inp.length v r1 r2) items imp false p dec sp hcur
    have hci : (kvCur st (kvVal inp.length v r1 r2)).items = items := by rw [c1, hcur]; rfl
    by_cases hc : path = [] ∧ simpleVal (kvVal inp.length v r1 r2) = true
    · obtain ⟨hp, hsv⟩ := hc
      subst hp
      left
      rw [descend_nil] at hd
      obtain ⟨ec, _⟩ := kvFn_facts _ _ _ _ _ hd
      have hc' : c = .mk (items ++ [(kvKey st key, .value (kvVal inp.length v r1 r2))]) imp false p dec
          (kvCur st (kvVal inp.length v r1 r2)).span := by
        rw [ec, hci]
        conv => lhs; rw [hcm]
        simp [CTbl.setItems, CTbl.items, CTbl.dotted, CTbl.implicit, CTbl.pos, CTbl.decor, CTbl.span]
      subst hc'
      refine ⟨shape_setCurrent st items _ imp p dec sp _ hsh hcur ?_, ?_⟩
      · rw [simpleBody_append, hsimple]; simp [simpleBody, hsv]
      · rw [stText_append_value f inp st items imp p dec sp _ _ _ hcur hsv]
        obtain ⟨src, out, tr, eol, h1, h2, h3, h4, h5⟩ := htx
        have htrs : tr ++ s <:+ inp := ⟨base ++ src, by rw [h2]; simp [List.append_assoc]⟩
        have hsv0 : simpleVal v = true := by unfold kvVal at hsv; rw [simpleVal_setDecor] at hsv; exact hsv
        obtain ⟨line, e, hs, hle, hl, htext⟩ := keyval_text f inp hf st s r1 r2 r3 tr ks key v hk hv hlt hsl hsv0 h1 htrs
        have := txtOf_line inp base _ s src out tr eol line e r3 _ h2 h3 h4 h5 hs hle hl
        rw [htext]
        simpa [List.append_assoc] using this
    · right
      have hw : anyW c.items = true := by
        cases path with
        | nil =>
          rw [descend_nil] at hd
          obtain ⟨ec, _⟩ := kvFn_facts _ _ _ _ _ hd
          rw [ec, setItems_items, anyW_append]
          have : simpleVal (kvVal inp.length v r1 r2) = false := by
            cases hsv : simpleVal (kvVal inp.length v r1 r2) with
            | false => rfl
            | true => exact absurd ⟨rfl, hsv⟩ hc
          simp [anyW, wItem, this]
        | cons k ks' =>
          obtain ⟨x, ec, hx⟩ := descend_cons_shape _ _ _ _ _ _ hd
          rw [ec, setItems_items]
          apply anyW_cset_new
          rw [hci] at hx
          cases hl : clookup k.key items with
          | some y =>
            obtain ⟨vv, hy⟩ := simple_lookup items _ y hsimple hl
            subst hy
            rw [hl] at hx
            simp only [Option.getD_some] at hx
            rcases hx with ⟨_, _, e1, _⟩ | ⟨_, _, _, _, e1, _⟩ <;> cases e1
          | none =>
            rw [hl] at hx
            simp only [Option.getD_none] at hx
            rcases hx with ⟨sub, sub', e1, hd', e2⟩ | ⟨_, _, _, _, e1, _⟩
            · injection e1 with e1
              subst e1; subst e2
              have := descend_dotted _ _ _ _ _ (fun p p' hp' => kvFn_dotted _ _ _ _ _ hp') hd'
              have h2 : (newImplicit true).dotted = true := rfl
              rw [h2] at this
              simp only [wItem, this, Bool.true_or]
            · cases e1
      unfold Bad
      by_cases hp : st.currentPath = []
      · exact Or.inl ⟨hp, hw⟩
      · exact Or.inr (Or.inl ⟨hp, anyW_notSimple _ hw⟩)
  · right
    unfold Bad at hB ⊢
    rcases hB with ⟨b1, b2⟩ | ⟨b1, b2⟩ | b | b | b
    · refine Or.inl ⟨b1, ?_⟩
      cases path with
      | nil =>
        rw [descend_nil] at hd
        obtain ⟨ec, _⟩ := kvFn_facts _ _ _ _ _ hd
        simp only []
        rw [ec, setItems_items, anyW_append, c1, b2]; rfl
      | cons k ks' =>
        refine descend_cons_w _ _ _ _ _ _ (fun p p' hp' hn => kvFn_notSimple _ _ _ _ _ hp' hn)
          (fun p p' hp' => kvFn_dotted _ _ _ _ _ hp') ?_ hd
        rw [c1]; exact b2
    · refine Or.inr (Or.inl ⟨b1, ?_⟩)
      refine descend_notSimple _ _ _ _ _ (fun p p' hp' hn => kvFn_notSimple _ _ _ _ _ hp' hn) ?_ hd
      rw [c1]; exact b2
    · exact Or.inr (Or.inr (Or.inl b))
    · exact Or.inr (Or.inr (Or.inr (Or.inl b)))
    · exact Or.inr (Or.inr (Or.inr (Or.inr b)))

end TomlVerif.Lemmas.Tiling03Hdr
