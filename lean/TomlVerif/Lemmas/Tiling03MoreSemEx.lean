import TomlVerif.Lemmas.Tiling03MoreSemMain
import TomlVerif.Lemmas.Tiling03MoreOrdEx
/-! C03, same data — the decidable hypotheses of the lemmas of `Tiling03MoreSem*.lean` on a concrete
    input (non-vacuity). -/
namespace TomlVerif.Lemmas.Tiling03More
open TomlVerif TomlVerif.Spec TomlVerif.Model TomlVerif.Model.Strings TomlVerif.Model.Value
open TomlVerif.Model.Cst TomlVerif.Model.Encode TomlVerif.Lemmas.Tiling03Nest

/-- `[a]`, `[c]`, a respelled sub-table header of `a`, two dotted keys with a respelled prefix -/
def exA : Bytes := strBytes "[a]\n[c]\n[ a .b]\nk . x = 1\r\nk.y = {p.q = 1, r = 2, p.s = 3}\n"

/-- the state after the third header line and the first key/value line, and the rest -/
def after4 (s : Bytes) : Option (CState × Bytes) :=
  (after2 s).bind fun p => (ctableLine s.length p.1 p.2).bind fun q =>
    (ckeyvalLine s.length (parseWs s.length q.1 q.2).1 (parseWs s.length q.1 q.2).2).map fun u =>
      ((parseWs s.length u.1 u.2).1, (parseWs s.length u.1 u.2).2)

/-- `hdrLineOkA_use`, `start_spineA`, `fin_spineA`, `header_step_A`, `hdr_line_q`: the third header
    on the state it meets passes the structural check and fails the spelling check -/
example : ((after2 exA).map fun p => hdrLineOkA exA p.1 p.2) = some true ∧
    ((after2 exA).map fun p => hdrLineOkO exA p.1 p.2) = some false ∧
    ((after2 exA).map fun p => (ctableLine exA.length p.1 p.2).isSome) = some true := by decide +kernel

/-- `kvLineOkA_use`, `kv_descendA`, `kv_line_q`, `keyval_step_A`: the second key/value line (its
    prefix `k` respelled, its value with non-adjacent dotted keys) passes the structural check and
    fails the checks of `ordRunV`; the line is accepted -/
example : ((after4 exA).map fun p => kvLineOkA exA p.1 p.2) = some true ∧
    ((after4 exA).map fun p => kvLineOkV exA p.1 p.2) = some false ∧
    ((after4 exA).map fun p => (ckeyvalLine exA.length p.1 p.2).isSome) = some true := by decide +kernel

/-- `clines_ainv`, `same_data_adj`, `runOkO_A`: the whole run -/
example : adjRun exA = true ∧ ordRunV exA = false ∧ (parseCst exA).isSome = true ∧
    ordRunV (strBytes "[a]\n[c]\n[a.b]\n") = true ∧ adjRun (strBytes "[a]\n[c]\n[a.b]\n") = true := by decide +kernel

end TomlVerif.Lemmas.Tiling03More
